import Evenio.Proofs.Inv.Store
/-! # G1 — the graph group

`GraphInv w = GraphInv' w.archs w.comps`: `GraphOK`, the empty archetype at index 0, archetypes only mention live
components, sorted edge tables, `memberOf` exact.  The group only reads the SHAPE `(index, comps, insEdges, remEdges)`
of every archetype and, of the component registry, which indices are live and `memberOf` of every live key
(`GraphInv'.congr`).  Most pieces keep both (`ShapeEq`, `CompsEq`). -/
namespace Evenio
open Graph (GraphOK)
namespace InvV1

/-! ### the part of the state the group reads -/

/-- what G1 reads of an archetype -/
def shape (a : Arch) : Nat × List Nat × List (Nat × Nat) × List (Nat × Nat) :=
  (a.index, a.comps, a.insEdges, a.remEdges)

theorem shape_eq_iff {a b : Arch} : shape a = shape b ↔
    a.index = b.index ∧ a.comps = b.comps ∧ a.insEdges = b.insEdges ∧ a.remEdges = b.remEdges := by
  unfold shape
  simp only [Prod.mk.injEq]

/-- `A'` is a well-formed slab with the same live keys as `A`, every archetype of the same shape -/
structure ShapeEq (A A' : Slab Arch) : Prop where
  wf : Slab.WF A'
  get : ∀ i, (A'.get i).map shape = (A.get i).map shape

theorem ShapeEq.refl {A : Slab Arch} (h : Slab.WF A) : ShapeEq A A := ⟨h, fun _ => rfl⟩

theorem ShapeEq.trans {A B C : Slab Arch} (h1 : ShapeEq A B) (h2 : ShapeEq B C) : ShapeEq A C :=
  ⟨h2.wf, fun i => (h2.get i).trans (h1.get i)⟩

theorem ShapeEq.back {A A' : Slab Arch} (h : ShapeEq A A') {i : Nat} {a' : Arch} (ha : A'.get i = some a') :
    ∃ a, A.get i = some a ∧ shape a' = shape a := by
  have := h.get i
  rw [ha] at this
  cases hg : A.get i with
  | none => rw [hg] at this; cases this
  | some a => rw [hg] at this; exact ⟨a, rfl, Option.some.inj this⟩

theorem ShapeEq.fwd {A A' : Slab Arch} (h : ShapeEq A A') {i : Nat} {a : Arch} (ha : A.get i = some a) :
    ∃ a', A'.get i = some a' ∧ shape a' = shape a := by
  have := h.get i
  rw [ha] at this
  cases hg : A'.get i with
  | none => rw [hg] at this; cases this
  | some a' => rw [hg] at this; exact ⟨a', rfl, Option.some.inj this⟩

/-- overwriting a live archetype by one of the same shape -/
theorem ShapeEq.set {A : Slab Arch} (hwf : Slab.WF A) {i j : Nat} {a a' : Arch} (ha : A.get i = some a)
    (hs : shape a' = shape a) (hj : j = i := by rfl) : ShapeEq A (A.set j a') := by
  subst hj
  refine ⟨Slab.set_wf hwf _ _, fun k => ?_⟩
  rw [Slab.get_set]
  split
  · next hk => subst hk; rw [ha]; exact congrArg some hs
  · rfl

/-- … after other shape preserving writes -/
theorem ShapeEq.set' {A B : Slab Arch} (h : ShapeEq A B) {i j : Nat} {a a' : Arch} (ha : A.get i = some a)
    (hs : shape a' = shape a) (hj : j = i := by rfl) : ShapeEq A (B.set j a') := by
  subst hj
  obtain ⟨b, hb, hbs⟩ := h.fwd ha
  exact h.trans (ShapeEq.set h.wf hb (hs.trans hbs.symm))

/-- the component registries agree on what G1 reads: which indices are live, and `memberOf` of every live key -/
structure CompsEq (C C' : SlotMap CompInfo) : Prop where
  live : ∀ i, (C'.getByIndex i).isSome = (C.getByIndex i).isSome
  get : ∀ k ci', C'.get k = some ci' → ∃ ci, C.get k = some ci ∧ ci'.memberOf = ci.memberOf

theorem CompsEq.refl (C : SlotMap CompInfo) : CompsEq C C := ⟨fun _ => rfl, fun _ ci h => ⟨ci, h, rfl⟩⟩

/-- **the congruence of G1** -/
theorem graphInv'_congr {A A' : Slab Arch} {C C' : SlotMap CompInfo} (hA : ShapeEq A A') (hC : CompsEq C C')
    (h : GraphInv' A C) : GraphInv' A' C' := by
  obtain ⟨hG, ⟨a0, h0, h0c⟩, hlive, hkeys, hmem⟩ := h
  refine ⟨⟨hA.wf, fun i a' ha' => ?_, fun i a' ha' => ?_, fun i j a' b' ha' hb' hc => ?_, fun i a' ha' => ?_⟩,
    ?_, fun i a' ha' c hc => ?_, fun i a' ha' => ?_, fun k ci' hk => ?_⟩
  · obtain ⟨a, ha, hs⟩ := hA.back ha'
    rw [(shape_eq_iff.1 hs).1]; exact hG.idx i a ha
  · obtain ⟨a, ha, hs⟩ := hA.back ha'
    rw [(shape_eq_iff.1 hs).2.1]; exact hG.sorted i a ha
  · obtain ⟨a, ha, hs⟩ := hA.back ha'
    obtain ⟨b, hb, hs'⟩ := hA.back hb'
    refine hG.distinct i j a b ha hb ?_
    rw [← (shape_eq_iff.1 hs).2.1, ← (shape_eq_iff.1 hs').2.1]; exact hc
  · obtain ⟨a, ha, hs⟩ := hA.back ha'
    obtain ⟨e1, e2, e3, e4⟩ := shape_eq_iff.1 hs
    refine EdgesOK.congr (fun d b hb => ?_) e2 (fun e he => e3 ▸ he) (fun e he => e4 ▸ he) (hG.edges i a ha)
    obtain ⟨b', hb', hs'⟩ := hA.fwd hb
    exact ⟨b', hb', (shape_eq_iff.1 hs').2.1⟩
  · obtain ⟨a0', h0', hs⟩ := hA.fwd h0
    exact ⟨a0', h0', by rw [(shape_eq_iff.1 hs).2.1]; exact h0c⟩
  · obtain ⟨a, ha, hs⟩ := hA.back ha'
    rw [hC.live]
    exact hlive i a ha c (by rw [← (shape_eq_iff.1 hs).2.1]; exact hc)
  · obtain ⟨a, ha, hs⟩ := hA.back ha'
    obtain ⟨-, -, e3, e4⟩ := shape_eq_iff.1 hs
    rw [e3, e4]; exact hkeys i a ha
  · obtain ⟨ci, hci, hm⟩ := hC.get k ci' hk
    obtain ⟨h1, h2⟩ := hmem k ci hci
    rw [hm]
    refine ⟨h1, fun i => (h2 i).trans ⟨?_, ?_⟩⟩
    · rintro ⟨a, ha, hc⟩
      obtain ⟨a', ha', hs⟩ := hA.fwd ha
      exact ⟨a', ha', by rw [(shape_eq_iff.1 hs).2.1]; exact hc⟩
    · rintro ⟨a', ha', hc⟩
      obtain ⟨a, ha, hs⟩ := hA.back ha'
      exact ⟨a, ha, by rw [← (shape_eq_iff.1 hs).2.1]; exact hc⟩

theorem graphInv'_of_shape {A A' : Slab Arch} {C : SlotMap CompInfo} (hA : ShapeEq A A') (h : GraphInv' A C) :
    GraphInv' A' C :=
  graphInv'_congr hA (CompsEq.refl C) h

/-- the world version: same shapes, same component registry -/
theorem graphInv_of_shape {w w' : World} (h : GraphInv w) (hA : ShapeEq w.archs w'.archs) (hC : w'.comps = w.comps) :
    GraphInv w' := by
  show GraphInv' w'.archs w'.comps
  rw [hC]; exact graphInv'_of_shape hA h

/-! ### the component registry is not written -/

/-- the invariant: the component registry is `C` -/
abbrev CE (C : SlotMap CompInfo) : World → Prop := fun w => w.comps = C

theorem ubErr_ce {α : Type} (C : SlotMap CompInfo) (s : String) : Keeps (CE C) (ubErr s : M α) := Keeps.throw _
theorem dbgAssert_ce (C : SlotMap CompInfo) (c : Bool) (s : String) : Keeps (CE C) (dbgAssert c s) := by
  unfold dbgAssert; keeps
theorem handlerRefresh_ce (C : SlotMap CompInfo) (hk : Key) (a : Arch) : Keeps (CE C) (handlerRefresh hk a) := by
  unfold handlerRefresh; keeps
  · exact ubErr_ce C _
  · exact dbgAssert_ce C _ _
theorem handlerRemoveArch_ce (C : SlotMap CompInfo) (hk : Key) (a : Arch) :
    Keeps (CE C) (handlerRemoveArch hk a) := by
  unfold handlerRemoveArch; keeps
  exact ubErr_ce C _

/-! ## section A -/

/-- run-level introduction for a primitive that never panics -/
theorem keepsG_of_ok {α : Type} {G : World → Prop} {m : M α} (hmono : SlabMono m) (hnp : NoPanic m)
    (h : ∀ w, WInvMid w → ∀ a w', m.run.run w = (.ok a, w') → G w') : KeepsG G m :=
  KeepsG.of_run hmono fun w hw r w' hr _ => by
    cases r with
    | ok a => exact h w hw a w' hr
    | error e =>
      intro hp
      have := hnp.err (w := w) trivial hr
      rw [this] at hp; cases hp

/-! ### `reserve` -/

theorem reserve_keeps_graph : Obl.reserve_keeps .graph :=
  KeepsG.of_keeps_group (fun _ h => h.graph) (fun _ => reserve_sl) (by unfold reserve; keeps)

/-! ### `bumpCell` -/

theorem bumpCell_ok {ai row c : Nat} {w w' : World} {u : Unit} (h : (bumpCell ai row c).run.run w = (.ok u, w')) :
    ∃ a cols, w.archs.get ai = some a ∧ w' = { w with archs := w.archs.set a.index { a with cols := cols } } := by
  unfold bumpCell at h
  rw [run_bind, run_getArch'] at h
  cases ha : w.archs.get ai with
  | none => rw [ha] at h; cases h
  | some a =>
    rw [ha] at h
    dsimp only at h
    split at h
    · cases h
    · split at h
      · cases h
      · split at h
        · cases h
        · rw [run_setArch] at h
          cases h
          exact ⟨a, _, rfl, rfl⟩

theorem noPanic_bumpCell (ai row c : Nat) : NoPanic (bumpCell ai row c) := by
  unfold bumpCell
  nopanic

theorem bumpCell_keeps_graph : Obl.bumpCell_keeps .graph := by
  intro ai row c
  refine keepsG_of_ok (fun _ => bumpCell_sl ai row c) (noPanic_bumpCell ai row c) fun w hw u w' hr => ?_
  obtain ⟨a, cols, ha, rfl⟩ := bumpCell_ok hr
  exact graphInv_of_shape hw.graph (ShapeEq.set hw.1.slabWF ha rfl (hw.1.indexOK ai a ha)) rfl

/-! ### `moveEntity` -/

theorem assignAll_shape {a a' : Arch} {row : Nat} {new : List (Nat × Cell)} {dr : List Cell}
    (h : Store.assignAll a row new = some (a', dr)) : shape a' = shape a := by
  induction new generalizing a dr with
  | nil => simp only [Store.assignAll, Option.some.injEq, Prod.mk.injEq] at h; rw [← h.1]
  | cons p new ih =>
    obtain ⟨c, x⟩ := p
    simp only [Store.assignAll] at h
    split at h
    · cases h
    · split at h
      · cases h
      · split at h
        · rename_i a1 dr1 hrec
          simp only [Option.some.injEq, Prod.mk.injEq] at h
          obtain ⟨rfl, _⟩ := h
          have := ih hrec
          exact this
        · cases h

/-- a normal return of `moveEntity` keeps the shape of every archetype and the component registry -/
theorem moveEntity_ok_shape {src : Loc} {dst : Nat} {new : List (Nat × Cell)} {w w' : World}
    (hwf : Slab.WF w.archs) (hidx : IndexOK w.archs) (hr : (moveEntity src dst new).run.run w = (.ok (), w')) :
    ShapeEq w.archs w'.archs ∧ w'.comps = w.comps := by
  by_cases hne : src.arch = dst
  · subst hne
    obtain ⟨a, a', dr, ha, has, -, rfl⟩ := moveEntity_same_run hr
    have hs := assignAll_shape has
    have hi : a'.index = src.arch := (shape_eq_iff.1 hs).1.trans (hidx _ _ ha)
    refine ⟨?_, by rw [dropAllW_eq]⟩
    exact ShapeEq.set hwf ha hs hi
  · obtain ⟨sa, da, r, eid, m⟩ := moveEntity_ne_run hne hr
    rw [m.hw]
    refine ⟨?_, rfl⟩
    show ShapeEq w.archs ((w.archs.set sa.index _).set da.index _)
    refine (ShapeEq.set hwf m.hsa ?_ (hidx _ _ m.hsa)).set' m.hda ?_ (hidx _ _ m.hda) <;> rfl

theorem moveEntity_keeps_graph : Obl.moveEntity_keeps .graph := by
  intro src dst new
  refine KeepsG.of_run (fun _ => moveEntity_sl src dst new) fun w hw r w' hr _ => ?_
  cases r with
  | error e =>
    intro hp
    cases e with
    | panic c => exact (moveEntity_panic_winvMid hw hr).graph
    | ub s => cases hp
    | assert s => cases hp
  | ok u =>
    obtain ⟨h1, h2⟩ := moveEntity_ok_shape hw.1.slabWF hw.1.indexOK hr
    exact graphInv_of_shape hw.graph h1 h2

/-! ### `removeEntity` -/

theorem noPanic_removeEntity (loc : Loc) : NoPanic (removeEntity loc) := by
  unfold removeEntity
  nopanic

theorem removeEntity_keeps_graph : Obl.removeEntity_keeps .graph := by
  intro loc
  refine keepsG_of_ok (fun _ => removeEntity_sl loc) (noPanic_removeEntity loc) fun w hw u w' hr => ?_
  obtain ⟨a, cols, dr, id, m⟩ := removeEntity_run hr
  rw [m.hw]
  refine graphInv_of_shape hw.graph ?_ rfl
  show ShapeEq w.archs (w.archs.set a.index _)
  exact ShapeEq.set hw.1.slabWF m.ha rfl (hw.1.indexOK _ _ m.ha)

/-! ### `spawnAll`: every state it goes through (panic exit included) has the shapes it started with -/

/-- the invariant: the slab has the shapes of `A`, the component registry is `C` -/
abbrev SH (A : Slab Arch) (C : SlotMap CompInfo) : World → Prop := fun w => ShapeEq A w.archs ∧ w.comps = C

theorem ubErr_sh {α : Type} (A : Slab Arch) (C : SlotMap CompInfo) (s : String) : Keeps (SH A C) (ubErr s : M α) :=
  Keeps.throw _
theorem dbgAssert_sh (A : Slab Arch) (C : SlotMap CompInfo) (c : Bool) (s : String) :
    Keeps (SH A C) (dbgAssert c s) := by
  unfold dbgAssert; keeps
theorem handlerRefresh_sh (A : Slab Arch) (C : SlotMap CompInfo) (hk : Key) (a : Arch) :
    Keeps (SH A C) (handlerRefresh hk a) := by
  unfold handlerRefresh; keeps
  · exact ubErr_sh A C _
  · exact dbgAssert_sh A C _ _

theorem archSpawn_sh (A : Slab Arch) (C : SlotMap CompInfo) (hidx : IndexOK A) (id : Key) :
    Keeps (SH A C) (archSpawn id) := by
  refine ⟨fun w hw => ?_⟩
  unfold archSpawn
  rw [run_bind, run_getArch']
  cases ha : w.archs.get 0 with
  | none => exact hw
  | some a0 =>
    dsimp only
    rw [run_bind, run_freshEpoch]
    dsimp only
    rw [run_bind, run_setArch]
    dsimp only
    refine Keeps.run (I := SH A C) ?_ _ ?_
    · keeps
      exact handlerRefresh_sh A C _ _
    · obtain ⟨b, hb, hs⟩ := hw.1.back ha
      have hi : (a0.reserveOne w.epochCtr).1.index = 0 := by
        rw [reserveOne_fst]
        exact (shape_eq_iff.1 hs).1.trans (hidx _ _ hb)
      refine ⟨hw.1.trans (ShapeEq.set hw.1.wf ha ?_ hi), hw.2⟩
      rw [reserveOne_fst]
      rfl

theorem spawnAll_sh (A : Slab Arch) (C : SlotMap CompInfo) (hidx : IndexOK A) : Keeps (SH A C) spawnAll := by
  unfold spawnAll
  keeps
  exact archSpawn_sh A C hidx _

theorem spawnAll_keeps_graph : Obl.spawnAll_keeps .graph := by
  refine KeepsG.of_run (fun _ => spawnAll_sl) fun w hw r w' hr _ => ?_
  have := (spawnAll_sh w.archs w.comps hw.1.indexOK).run w ⟨ShapeEq.refl hw.1.slabWF, rfl⟩
  rw [hr] at this
  have hG : GraphInv w' := graphInv_of_shape hw.graph this.1 this.2
  cases r with
  | ok a => exact hG
  | error e => exact fun _ => hG

/-! ## section B: the frames -/

/-! ### slot-map facts -/

/-- `set` on a live key, seen through `getByIndex` -/
theorem getByIndex_set {α : Type} {sm : SlotMap α} {k : Key} {v0 : α} (h : sm.get k = some v0) (v : α) (i : Nat) :
    (sm.set k v).getByIndex i =
      if i = k.idx then (sm.getByIndex i).map (fun p => (p.1, v)) else sm.getByIndex i := by
  unfold SlotMap.get at h
  unfold SlotMap.getByIndex
  rw [SlotMap.set_slot]
  cases hs : sm.slots[i]? with
  | none => simp only; split <;> rfl
  | some s =>
    simp only
    by_cases hi : i = k.idx
    · subst hi
      rw [hs] at h
      simp only at h
      split at h
      · next hg =>
        rw [if_pos ⟨rfl, hg⟩, if_pos rfl, h]
        simp only
        split <;> rfl
      · cases h
    · rw [if_neg (fun hc => hi hc.1), if_neg hi]

theorem getByIndex_set_isSome {α : Type} {sm : SlotMap α} {k : Key} {v0 : α} (h : sm.get k = some v0) (v : α)
    (i : Nat) : ((sm.set k v).getByIndex i).isSome = (sm.getByIndex i).isSome := by
  rw [getByIndex_set h]
  split
  · cases sm.getByIndex i <;> rfl
  · rfl

/-- live keys with the same index are equal -/
theorem key_eq_of_idx {α : Type} {sm : SlotMap α} {k k' : Key} {v v' : α} (h : sm.get k = some v)
    (h' : sm.get k' = some v') (hi : k.idx = k'.idx) : k = k' := by
  unfold SlotMap.get at h h'
  rw [hi] at h
  cases hs : sm.slots[k'.idx]? with
  | none => rw [hs] at h; cases h
  | some s =>
    rw [hs] at h h'
    dsimp only at h h'
    split at h
    · split at h'
      · next e1 e2 =>
        obtain ⟨i, g⟩ := k
        obtain ⟨i', g'⟩ := k'
        simp only at hi e1 e2
        rw [hi, ← e1, e2]
      · cases h'
    · cases h

/-- rewriting an entry without touching `memberOf` -/
theorem CompsEq.set {C : SlotMap CompInfo} {k : Key} {ci ci' : CompInfo} (h : C.get k = some ci)
    (hm : ci'.memberOf = ci.memberOf) : CompsEq C (C.set k ci') := by
  refine ⟨fun i => getByIndex_set_isSome h _ i, fun k' c' hk' => ?_⟩
  rw [SlotMap.get_set h] at hk'
  split at hk'
  · next e => subst e; cases hk'; exact ⟨ci, h, hm⟩
  · exact ⟨c', hk', rfl⟩

theorem graphInv_set_comp {w : World} (h : GraphInv w) {i : Nat} {k : Key} {ci : CompInfo}
    (hg : w.comps.getByIndex i = some (k, ci)) (ci' : CompInfo) (hm : ci'.memberOf = ci.memberOf) :
    GraphInv { w with comps := w.comps.set k ci' } :=
  graphInv'_congr (ShapeEq.refl h.graph.wf) (CompsEq.set (SlotMap.getByIndex_get hg).1 hm) h

/-! ### `regGev`, `regTev`, `removeEventFinish`, `setGen` -/

theorem regGev_keeps_graph : Obl.regGev_keeps .graph := fun _ _ _ _ hw _ => hw.graph

theorem regTev_keeps_graph : Obl.regTev_keeps .graph := by
  intro w ty kind nd k tevs' hw _ _ _
  have h0 : GraphInv { w with tevs := tevs' } := hw.graph
  show GraphInv (Step.noteEvent { w with tevs := tevs' } kind k)
  unfold Step.noteEvent
  split
  · split
    · next hg => exact graphInv_set_comp h0 hg _ rfl
    · exact h0
  · split
    · next hg => exact graphInv_set_comp h0 hg _ rfl
    · exact h0
  · exact h0

theorem removeEventFinish_graph (ty : EvTy) (k : Key) : Keeps GraphInv (removeEventFinish ty k) := by
  unfold removeEventFinish
  keeps
  · next h _ _ _ hg => exact Keeps.set (graphInv_set_comp h hg _ rfl)
  · next h _ _ _ hg => exact Keeps.set (graphInv_set_comp h hg _ rfl)

theorem removeEventFinish_keeps_graph : Obl.removeEventFinish_keeps .graph := fun ty k =>
  Hoare.pre (Hoare.of_keeps_panicOnly (removeEventFinish_graph ty k)) fun _ hw => hw.1.graph

theorem setGen_keeps_graph : Obl.setGen_keeps .graph := by
  intro w id gen loc s a hw _ _ ha _ _ _
  refine graphInv_of_shape (w' := Step.setGen w id gen loc s a) hw.graph ?_ rfl
  show ShapeEq w.archs (w.archs.set a.index _)
  exact ShapeEq.set hw.1.slabWF ha rfl (hw.1.indexOK _ _ ha)

end InvV1
end Evenio
