import Evenio.Proofs.Inv.Obligations
/-! Every entry of the targeted-event registry `tevs` has a targeted event type.  `tevs` is only written by
    `addTargetedEvent` (one `insertWith`, with the type being registered) and by `removeEvent` (one `remove`); every
    other model function leaves the field alone.  One `Keeps` lemma per model function, registered as a LOCAL `keeps`
    leaf, exactly like `Inv/Mono.lean`. -/
namespace Evenio
namespace InvV7

section slotmap
variable {α : Type}

/-- well-formedness-free: whatever `get` finds after `insertWith` is the new value or was found before -/
theorem tt_get_insertWith {sm sm' : SlotMap α} {f : Key → α} {k : Key} (h : sm.insertWith f = some (k, sm'))
    {k' : Key} {v : α} (hg : sm'.get k' = some v) : v = f k ∨ sm.get k' = some v := by
  unfold SlotMap.insertWith at h
  split at h
  · next s hs =>
    cases h
    unfold SlotMap.get at hg ⊢
    dsimp only at hg
    by_cases hi : k'.idx = sm.nextFree
    · have hlt : sm.nextFree < sm.slots.length := by
        rcases Nat.lt_or_ge sm.nextFree sm.slots.length with h | h
        · exact h
        · rw [List.getElem?_eq_none h] at hs; cases hs
      rw [hi, List.getElem?_set_self hlt] at hg
      dsimp only at hg
      split at hg
      · cases hg; exact Or.inl rfl
      · cases hg
    · rw [List.getElem?_set_ne (fun e => hi e.symm)] at hg
      exact Or.inr hg
  · next hs =>
    dsimp only at h
    split at h
    · cases h
    · cases h
      unfold SlotMap.get at hg ⊢
      dsimp only at hg
      rcases Nat.lt_or_ge k'.idx sm.slots.length with hlt | hge
      · rw [List.getElem?_append_left hlt] at hg
        exact Or.inr hg
      · rw [List.getElem?_append_right hge] at hg
        by_cases h0 : k'.idx - sm.slots.length = 0
        · rw [h0] at hg
          dsimp only [List.getElem?_cons_zero] at hg
          split at hg
          · cases hg; exact Or.inl rfl
          · cases hg
        · obtain ⟨n, hn⟩ := Nat.exists_eq_succ_of_ne_zero h0
          rw [hn] at hg
          simp at hg

/-- well-formedness-free: whatever `get` finds after `remove` was found before -/
theorem tt_get_remove {sm sm' : SlotMap α} {k : Key} {v0 : α} (h : sm.remove k = some (v0, sm'))
    {k' : Key} {v : α} (hg : sm'.get k' = some v) : sm.get k' = some v := by
  unfold SlotMap.remove at h
  split at h
  · cases h
  · next s hs =>
    have hlt : k.idx < sm.slots.length := by
      rcases Nat.lt_or_ge k.idx sm.slots.length with h | h
      · exact h
      · rw [List.getElem?_eq_none h] at hs; cases hs
    split at h
    · cases h
    · split at h
      · cases h
      · dsimp only at h
        split at h <;>
        · cases h
          unfold SlotMap.get at hg ⊢
          dsimp only at hg
          by_cases hi : k'.idx = k.idx
          · rw [hi, List.getElem?_set_self hlt] at hg
            dsimp only at hg
            split at hg <;> cases hg
          · rw [List.getElem?_set_ne (fun e => hi e.symm)] at hg
            exact hg
end slotmap

/-- every entry of the targeted-event registry has a targeted event type -/
def TevTyped (w : World) : Prop := ∀ k ei, w.tevs.get k = some ei → ei.ty.targeted = true

theorem tevTyped_init : TevTyped {} := by
  intro k ei h
  simp [SlotMap.get] at h

/-- closes the goals `keeps` leaves: the writes to `tevs` -/
syntax "ttfix" : tactic
local macro_rules | `(tactic| ttfix) => `(tactic| first
  | (refine Keeps.set ?_; have h : TevTyped _ := ‹TevTyped _›; intro k' ei' hg'; first
      | (rcases tt_get_insertWith ‹_› hg' with e | e
         · rw [e]; assumption
         · exact h _ _ e)
      | exact h _ _ (tt_get_remove ‹_› hg'))
  | (refine Keeps.modify fun w h => ?_; split <;> exact h))

theorem logT_tt (s : String) : Keeps TevTyped (logT s) := by unfold logT; keeps
local macro_rules | `(tactic| keeps_leaf) => `(tactic| exact logT_tt _)
theorem ubErr_tt {α : Type} (s : String) : Keeps TevTyped ((ubErr s : M α)) := by unfold ubErr; keeps
local macro_rules | `(tactic| keeps_leaf) => `(tactic| exact ubErr_tt _)
theorem dbgAssert_tt (c : Bool) (s : String) : Keeps TevTyped (dbgAssert c s) := by unfold dbgAssert; keeps
local macro_rules | `(tactic| keeps_leaf) => `(tactic| exact dbgAssert_tt _ _)
theorem dropCell_tt (ty : Nat) (c : Cell) : Keeps TevTyped (dropCell ty c) := by unfold dropCell; keeps
local macro_rules | `(tactic| keeps_leaf) => `(tactic| exact dropCell_tt _ _)
theorem dropCellIdx_tt (ty : Nat) (c : Cell) : Keeps TevTyped (dropCellIdx ty c) := by unfold dropCellIdx; keeps
local macro_rules | `(tactic| keeps_leaf) => `(tactic| exact dropCellIdx_tt _ _)
theorem dropEvent_tt (it : QItem) : Keeps TevTyped (dropEvent it) := by unfold dropEvent; keeps
local macro_rules | `(tactic| keeps_leaf) => `(tactic| exact dropEvent_tt _)
theorem handlerRefresh_tt (hk : Key) (a : Arch) : Keeps TevTyped (handlerRefresh hk a) := by unfold handlerRefresh; keeps
local macro_rules | `(tactic| keeps_leaf) => `(tactic| exact handlerRefresh_tt _ _)
theorem handlerRemoveArch_tt (hk : Key) (a : Arch) : Keeps TevTyped (handlerRemoveArch hk a) := by unfold handlerRemoveArch; keeps
local macro_rules | `(tactic| keeps_leaf) => `(tactic| exact handlerRemoveArch_tt _ _)
theorem getArch_tt (i : Nat) (s : String) : Keeps TevTyped (getArch i s) := by unfold getArch; keeps
local macro_rules | `(tactic| keeps_leaf) => `(tactic| exact getArch_tt _ _)
theorem setArch_tt (a : Arch) : Keeps TevTyped (setArch a) := by unfold setArch; keeps
local macro_rules | `(tactic| keeps_leaf) => `(tactic| exact setArch_tt _)
theorem freshEpoch_tt : Keeps TevTyped (freshEpoch) := by unfold freshEpoch; keeps
local macro_rules | `(tactic| keeps_leaf) => `(tactic| exact freshEpoch_tt)
theorem freshE_tt : Keeps TevTyped (freshE) := by unfold freshE; keeps
local macro_rules | `(tactic| keeps_leaf) => `(tactic| exact freshE_tt)
theorem freshC_tt : Keeps TevTyped (freshC) := by unfold freshC; keeps
local macro_rules | `(tactic| keeps_leaf) => `(tactic| exact freshC_tt)
theorem registerHandler_tt (a : Arch) (h : HInfo) : Keeps TevTyped (a.registerHandler h) := by unfold Arch.registerHandler; keeps
local macro_rules | `(tactic| keeps_leaf) => `(tactic| exact registerHandler_tt _ _)
theorem reserve_tt : Keeps TevTyped (reserve) := by unfold reserve; keeps
local macro_rules | `(tactic| keeps_leaf) => `(tactic| exact reserve_tt)
theorem resRefresh_tt : Keeps TevTyped (resRefresh) := by unfold resRefresh; keeps
local macro_rules | `(tactic| keeps_leaf) => `(tactic| exact resRefresh_tt)
theorem push_tt (it : QItem) : Keeps TevTyped (push it) := by unfold push; keeps
local macro_rules | `(tactic| keeps_leaf) => `(tactic| exact push_tt _)
theorem assertQueueEmpty_tt : Keeps TevTyped (assertQueueEmpty) := by unfold assertQueueEmpty; keeps
local macro_rules | `(tactic| keeps_leaf) => `(tactic| exact assertQueueEmpty_tt)
theorem archsRemoveComponent_tt (info : CompInfo) : Keeps TevTyped (archsRemoveComponent info) := by
  unfold archsRemoveComponent; keeps
  all_goals ttfix
local macro_rules | `(tactic| keeps_leaf) => `(tactic| exact archsRemoveComponent_tt _)

/-- a flush never changes the event registries (`flush_ev`) -/
theorem flush_tt (fuel : Nat) : Keeps TevTyped (flush fuel) :=
  ⟨fun w hw => by
    have h := (flush_ev (w.gevs, w.tevs) fuel).run w rfl
    have e : ((flush fuel).run.run w).2.tevs = w.tevs := congrArg Prod.snd h
    intro k ei hg
    rw [e] at hg
    exact hw k ei hg⟩
local macro_rules | `(tactic| keeps_leaf) => `(tactic| exact flush_tt _)

theorem ensureAddG_tt : Keeps TevTyped ensureAddG := by unfold ensureAddG; keeps
local macro_rules | `(tactic| keeps_leaf) => `(tactic| exact ensureAddG_tt)
theorem addGlobalEvent_tt (ty : EvTy) : Keeps TevTyped (addGlobalEvent ty) := by unfold addGlobalEvent; keeps
local macro_rules | `(tactic| keeps_leaf) => `(tactic| exact addGlobalEvent_tt _)
theorem sendGlobal_tt (ty : EvTy) (pay : Payload) : Keeps TevTyped (sendGlobal ty pay) := by unfold sendGlobal; keeps
local macro_rules | `(tactic| keeps_leaf) => `(tactic| exact sendGlobal_tt _ _)
theorem addComponent_tt (ty : Nat) : Keeps TevTyped (addComponent ty) := by unfold addComponent; keeps
local macro_rules | `(tactic| keeps_leaf) => `(tactic| exact addComponent_tt _)
theorem addTargetedEvent_tt (ty : EvTy) (hty : ty.targeted = true) : Keeps TevTyped (addTargetedEvent ty) := by
  unfold addTargetedEvent; keeps
  all_goals ttfix
local macro_rules | `(tactic| keeps_leaf) => `(tactic| first
  | exact addTargetedEvent_tt _ ‹_›
  | exact addTargetedEvent_tt _ rfl)
theorem addEvent_tt (ty : EvTy) : Keeps TevTyped (addEvent ty) := by
  unfold addEvent
  split
  · exact addTargetedEvent_tt _ ‹_›
  · exact addGlobalEvent_tt _
local macro_rules | `(tactic| keeps_leaf) => `(tactic| exact addEvent_tt _)
theorem sendTargeted_tt (ty : EvTy) (tg : Key) (pay : Payload) (hty : ty.targeted = true) :
    Keeps TevTyped (sendTargeted ty tg pay) := by unfold sendTargeted; keeps
local macro_rules | `(tactic| keeps_leaf) => `(tactic| first
  | exact sendTargeted_tt _ _ _ ‹_›
  | exact sendTargeted_tt _ _ _ rfl)
theorem initQuery_tt (q : Query) (cfg : Config) : Keeps TevTyped (initQuery q cfg) := by unfold initQuery; keeps
local macro_rules | `(tactic| keeps_leaf) => `(tactic| exact initQuery_tt _ _)
theorem initParam_tt (ps : PSpec) (cfg : Config) : Keeps TevTyped (initParam ps cfg) := by
  unfold initParam
  split
  · split <;> keeps   -- `.recv ev ..`: keep the `ev.targeted` hypothesis of the `if` (`Keeps.ite` would lose it)
  all_goals keeps
local macro_rules | `(tactic| keeps_leaf) => `(tactic| exact initParam_tt _ _)
theorem addHandler_tt (hs : HSpec) : Keeps TevTyped (addHandler hs) := by unfold addHandler; keeps
local macro_rules | `(tactic| keeps_leaf) => `(tactic| exact addHandler_tt _)
theorem removeHandler_tt (k : Key) : Keeps TevTyped (removeHandler k) := by unfold removeHandler; keeps
local macro_rules | `(tactic| keeps_leaf) => `(tactic| exact removeHandler_tt _)
theorem removeEvent_tt (ty : EvTy) (k : Key) : Keeps TevTyped (removeEvent ty k) := by
  unfold removeEvent; keeps
  all_goals ttfix
local macro_rules | `(tactic| keeps_leaf) => `(tactic| exact removeEvent_tt _ _)
theorem removeComponent_tt (k : Key) : Keeps TevTyped (removeComponent k) := by unfold removeComponent; keeps
local macro_rules | `(tactic| keeps_leaf) => `(tactic| exact removeComponent_tt _)
theorem opSpawn_tt : Keeps TevTyped opSpawn := by unfold opSpawn; keeps
local macro_rules | `(tactic| keeps_leaf) => `(tactic| exact opSpawn_tt)

/-- every top-level operation -/
theorem execOp_tt (op : Op) : Keeps TevTyped (execOp op) := by
  unfold execOp
  cases op <;> keeps

end InvV7
end Evenio
