import Evenio.Proofs.Inv.Glue
import Evenio.Proofs.Inv.Store
import Evenio.Props.C03World
import Evenio.Proofs.Inv.FactsConfig
/-! # G6 — reservations and pending `Spawn` events (section D of `Obligations.lean`)

1. `KeepsG ReservedSome` for the closed primitives (`reserve`, `bumpCell`, `spawnAll`, `traverseInsert`,
   `traverseRemove`, `moveEntity`) and for the unit `fixedDespawn`; `spawnAll_noPanic`, `spawnAll_clears`;
   `setGen_quiescent`, `dropComp_quiescent`.
2. The accounting of pending `Spawn` events along the delivery path: `runAct_pending`, `runHandler_pending`,
   `runHandler_spawn_not_taken`, `deliverOne_pending`, `deliverOne_gevs`, `flush_pending`.  The handler phase is
   analysed with the self-contained invariant `SP E` (`SpawnRefs ∧ PendingOK E`: all it needs of `WInv` are the typed
   `sends` entries of the handlers), so `deliverOne_pending` needs `WInv` only in the state the delivery starts in.
3. The registration functions, for the composable invariant `GP E := Guarded (WInvMid ∧ PendingOK E)` (`HP E E' m`):
   `ensureAddG`, `addGlobalEvent`, `sendGlobal`, `addComponent`, `addTargetedEvent`, `sendTargeted`, `initQuery`,
   `initParam`, `addHandler`, `removeHandler` — from the step obligations of section B as hypotheses; the functional
   facts of section E are imported from V6's `Inv/Facts.lean`, `Inv/FactsConfig.lean` (`addGlobalEvent_live_guarded`,
   `addComponent_live`, `initParam_configRel'`: `Obl.addGlobalEvent_live`, `Obl.initParam_configRel` are false).
   `addTargetedEvent_pending`, `sendTargeted_pending` are proved for targeted types (`_partial`: `Obl.regTev_keeps` is
   only stated for those), `addHandler_pending` for `hs.Valid` (`_partial`: it is FALSE for a handler that receives
   `Spawn` mutably — it takes a queued `Spawn` event during the `AddHandler` flush).
4. Service lemmas for the assembler: the queue is empty after every registration function (`KeepsQ0`), and
   `topOk_of_hp` / `opSpawn_topOk`: `WInv ∧ Quiescent` on normal returns of top-level operations.

Everything is in `namespace Evenio.InvV5` except `Evenio.PendingOK.ofFrameV5` / `.monoV5` (dot notation). -/
namespace Evenio
namespace InvV5
open SlotMap

/-! ### introduction rules -/

/-- a function that keeps the reservations exactly as they are (`MQ`, Proofs/Reserve.lean) on every exit -/
theorem keepsG_reserved_of_mq {α : Type} {m : M α} (hmono : SlabMono m)
    (h : ∀ ks live, Keeps (EV_reserve (MQ ks live)) m) : KeepsG ReservedSome m :=
  KeepsG.of_run hmono fun w hw r w' hr _ => by
    obtain ⟨ks, hk⟩ := hw.2
    have := (h ks w.entities.contains).run w ⟨hk, fun _ => rfl⟩
    rw [hr] at this
    cases r with
    | ok a => exact ⟨ks, this.1⟩
    | error e => exact fun _ => ⟨ks, this.1⟩

/-- run-level introduction rule for `KeepsP` -/
theorem keepsP_of_run {α : Type} {E E' : Prop} {m : M α} (hmono : SlabMono m)
    (h : ∀ w, WInvMid w → PendingOK E w → ∀ a w', m.run.run w = (.ok a, w') → Small w' → PendingOK E' w') :
    KeepsP E E' m := by
  refine ⟨fun w hw => ?_⟩
  generalize hr : m.run.run w = res
  obtain ⟨(e|a), w'⟩ := res
  · trivial
  · intro hs
    obtain ⟨h1, h2⟩ := hw (hmono.small hr hs)
    exact h w h1 h2 a w' hr hs

/-! ### `reserve`, `bumpCell`, `traverseInsert`, `traverseRemove`, `moveEntity` -/

theorem reserve_reserved : Obl.reserve_reserved :=
  KeepsG.of_run (fun _ => reserve_sl) fun w hw r w' hr _ => by
    obtain ⟨ks, hk⟩ := hw.2
    cases r with
    | ok k => exact ⟨ks ++ [k], (reserve_spec hk hr).1⟩
    | error e =>
      intro _
      rw [reserve_run] at hr
      split at hr <;> cases hr <;> exact ⟨ks, hk⟩

theorem bumpCell_mq {ks : List Key} {live : Key → Bool} (ai row c : Nat) :
    Keeps (EV_reserve (MQ ks live)) (bumpCell ai row c) := by
  unfold bumpCell
  have h2 := @setArch_mq ks live
  keeps
  all_goals exact h2 _

theorem bumpCell_reserved : Obl.bumpCell_reserved := fun ai row c =>
  keepsG_reserved_of_mq (fun _ => bumpCell_sl ai row c) fun _ _ => bumpCell_mq ai row c

theorem traverseInsert_reserved : Obl.traverseInsert_reserved := fun src c =>
  keepsG_reserved_of_mq (fun _ => traverseInsert_sl src c) fun _ _ => traverseInsert_mq src c

theorem traverseRemove_reserved : Obl.traverseRemove_reserved := fun src c =>
  keepsG_reserved_of_mq (fun _ => traverseRemove_sl src c) fun _ _ => traverseRemove_mq src c

theorem moveEntity_reserved : Obl.moveEntity_reserved := fun src dst new =>
  keepsG_reserved_of_mq (fun _ => moveEntity_sl src dst new) fun _ _ => moveEntity_mq src dst new


theorem noPanic_freshEpoch : NoPanic freshEpoch := noPanic_modifyGet _

theorem noPanic_archSpawn (k : Key) : NoPanic (archSpawn k) := by
  unfold archSpawn
  refine NoPanic.bind (noPanic_getArch _ _) fun a => ?_
  refine NoPanic.bind noPanic_freshEpoch fun ep => ?_
  nopanic

theorem noPanic_err {α : Type} {m : M α} (h : NoPanic m) {w : World} {e : Err} {w' : World}
    (hr : m.run.run w = (.error e, w')) : e.isPanic = false :=
  Hoare.err h trivial hr

/-- one iteration of `spawnAll` from a state with a pending prediction never panics -/
theorem spawnBody_err {w w' : World} {k : Key} {ks : List Key} {j : Nat} {e : Err}
    (wf : w.entities.WF) (hres : w.entities.reserveN (ks.length + 1) w.entities.nextKeyIndex = .ok (k :: ks) j)
    (h : spawnBody.run.run w = (.error e, w')) : e.isPanic = false := by
  obtain ⟨sm1, hins, -⟩ := insertWith_of_reserved wf (fun _ => Loc.NULL) hres
  unfold spawnBody at h
  rw [run_bind, run_get] at h
  simp only [hins, run_bind, run_set] at h
  generalize hr : (archSpawn k).run.run _ = r1 at h
  obtain ⟨(e1|loc), w2⟩ := r1
  · cases h
    exact noPanic_err (noPanic_archSpawn k) hr
  · simp only [run_modify, run_pure] at h
    cases h

theorem spawnLoop_err (ks : List Key) : ∀ (s : Nat) (w w' : World) (a : Arch) (j : Nat) (e : Err),
    w.entities.WF → w.entities.reserveN ks.length w.entities.nextKeyIndex = .ok ks j →
    w.archs.get 0 = some a → a.index = 0 →
    (forIn (List.range' s ks.length) PUnit.unit (fun _ _ => spawnBody)).run.run w = (.error e, w') →
    e.isPanic = false := by
  induction ks with
  | nil =>
    intro s w w' a j e wf hres ha hidx h
    simp only [List.length_nil, List.range'_zero, List.forIn_nil, run_pure] at h
    cases h
  | cons k ks ih =>
    intro s w w' a j e wf hres ha hidx h
    simp only [List.length_cons, List.range'_succ, List.forIn_cons] at h
    rw [run_bind] at h
    generalize hr : spawnBody.run.run w = r1 at h
    obtain ⟨(e1|r), w1⟩ := r1
    · cases h
      exact spawnBody_err wf hres hr
    · obtain ⟨hyield, wf1, hres1, -, -, -, -, -, -, a1, harch1, -, -, hidx1, -⟩ :=
        spawnBody_ok wf hres ha hidx hr
      have ha1 : w1.archs.get 0 = some a1 := by
        rw [harch1, Slab.get_set_reserve]; simp [ha]
      subst hyield
      exact ih (s + 1) w1 w' a1 j e wf1 hres1 ha1 hidx1 h

theorem spawnAll_noPanic : Obl.spawnAll_noPanic := by
  intro w e w' hw h
  obtain ⟨ks, wf, hc, hres⟩ := hw.2
  obtain ⟨hidx, a0, ha0, -⟩ := hw.1.archOK
  rw [spawnAll_eq, run_bind, run_get] at h
  simp only [hc] at h
  rw [run_bind] at h
  generalize hl : (forIn (List.range' 0 ks.length) PUnit.unit (fun _ _ => spawnBody)).run.run w = r at h
  obtain ⟨(e1|x), w1⟩ := r
  · cases h
    exact spawnLoop_err ks 0 w w' a0 w.resIndex e wf hres ha0 (hidx 0 a0 ha0) hl
  · simp only [run_modify] at h
    cases h

theorem spawnAll_clears : Obl.spawnAll_clears := by
  refine ⟨fun w hw u w' hr hs => ?_⟩
  have hmid := hw (SlabMono.small (fun _ => spawnAll_sl) hr hs)
  obtain ⟨ks, hk⟩ := hmid.2
  obtain ⟨hidx, a0, ha0, hc0⟩ := hmid.1.archOK
  exact (spawnAll_spec hk ha0 (hidx 0 a0 ha0) hc0 hr).1

theorem spawnAll_reserved : Obl.spawnAll_reserved :=
  KeepsG.of_run (fun _ => spawnAll_sl) fun w hw r w' hr _ => by
    cases r with
    | ok u =>
      obtain ⟨ks, hk⟩ := hw.2
      obtain ⟨hidx, a0, ha0, hc0⟩ := hw.1.archOK
      exact ⟨[], (spawnAll_spec hk ha0 (hidx 0 a0 ha0) hc0 hr).1⟩
    | error e =>
      intro hp
      rw [spawnAll_noPanic w e w' hw hr] at hp
      cases hp


/-- the entity map is well formed and nothing is reserved -/
abbrev WF0 : EView → Prop := fun v => v.entities.WF ∧ v.resCount = 0

theorem setLoc_wf0 (id : Key) (s : String) (f : Loc → Loc) : Keeps (EV_reserve WF0) (setLoc id s f) := by
  unfold setLoc
  refine Keeps.get_bind fun w hw => ?_
  split
  · rename_i l hl
    exact Keeps.set ⟨WF.set_reserve hw.1 (get_odd hw.1 hl) _, hw.2⟩
  · keeps

theorem setArch_wf0 (a : Arch) : Keeps (EV_reserve WF0) (setArch a) := by
  unfold setArch; exact Keeps.modify fun w h => h

theorem removeEntity_wf0 (loc : Loc) : Keeps (EV_reserve WF0) (removeEntity loc) := by
  unfold removeEntity
  have h1 := setLoc_wf0
  have h2 := setArch_wf0
  keeps
  all_goals first | exact h1 _ _ _ | exact h2 _ | skip
  rename_i hw _ _ _ heq
  exact Keeps.set ⟨WF.remove hw.1 heq, hw.2⟩

theorem noPanic_removeEntity (loc : Loc) : NoPanic (removeEntity loc) := by
  unfold removeEntity
  nopanic

theorem fixedDespawn_sl {n : Nat × Nat} (loc : Loc) : Keeps (SL n) (fixedDespawn loc) := by
  unfold fixedDespawn; keeps

theorem fixedDespawn_reserved : Obl.fixedDespawn_reserved := fun loc =>
  KeepsG.of_run (fun _ => fixedDespawn_sl loc) fun w hw r w' hr _ => by
    obtain ⟨ks, hk⟩ := hw.2
    obtain ⟨hidx, a0, ha0, hc0⟩ := hw.1.archOK
    unfold fixedDespawn at hr
    rw [run_bind] at hr
    generalize h1 : spawnAll.run.run w = r1 at hr
    obtain ⟨(e1|u1), w1⟩ := r1
    · cases hr
      intro hp
      rw [spawnAll_noPanic w e1 _ hw h1] at hp
      cases hp
    · have hr1 := (reserved_nil_iff _).1 (spawnAll_spec hk ha0 (hidx 0 a0 ha0) hc0 h1).1
      simp only at hr
      rw [run_bind] at hr
      have h0 := (removeEntity_wf0 loc).run w1 ⟨hr1.1, hr1.2.1⟩
      generalize h2 : (removeEntity loc).run.run w1 = r2 at hr h0
      obtain ⟨(e2|u2), w2⟩ := r2
      · cases hr
        intro hp
        rw [noPanic_err (noPanic_removeEntity loc) h2] at hp
        cases hp
      · simp only at hr
        rw [resRefresh_run h0.2] at hr
        cases hr
        exact ⟨[], (reserved_nil_iff _).2 ⟨h0.1, h0.2, rfl⟩⟩


/-! ### `setGen` -/

theorem chain_congr_mem {α : Type} {slots slots' : List (Slot α)} {h : Nat} {fl : List Nat}
    (c : Chain slots h fl) (hag : ∀ i ∈ fl, slots'[i]? = slots[i]?) : Chain slots' h fl := by
  induction fl generalizing h with
  | nil => exact c
  | cons j fl ih =>
    obtain ⟨hj, s, hs, he, hn, c'⟩ := c
    refine ⟨hj, s, ?_, he, hn, ih c' fun i hi => hag i (List.mem_cons_of_mem _ hi)⟩
    rw [hag j (List.mem_cons_self ..)]; exact hs

/-- rewriting the generation of a live slot by another odd generation keeps the map well formed -/
theorem wf_setGen {α : Type} {sm : SlotMap α} (wf : sm.WF) {k : Key} {v : α} {s : Slot α}
    (hg : sm.get k = some v) (hs : sm.slots[k.idx]? = some s) {g : Nat} (hodd : g % 2 = 1) (hlt : g < GENMOD) :
    WF { sm with slots := sm.slots.set k.idx { s with gen := g } } := by
  have hval : s.val.isSome = true := by
    unfold SlotMap.get at hg
    rw [hs] at hg
    simp only at hg
    split at hg
    · rw [hg]; rfl
    · cases hg
  have hsodd : s.gen % 2 = 1 := (wf.valIff _ _ hs).1 hval
  have hklt : k.idx < sm.slots.length := getElem?_lt hs
  refine ⟨?_, ?_, ?_, ?_, ?_⟩
  · intro i t ht
    simp only [List.getElem?_set] at ht
    split at ht
    · cases ht; exact hlt
    · exact wf.genLt i t ht
  · intro i t ht
    simp only [List.getElem?_set] at ht
    split at ht
    · cases ht; simp [hval, hodd]
    · exact wf.valIff i t ht
  · obtain ⟨fl, c, nd⟩ := wf.chain
    refine ⟨fl, chain_congr_mem c fun i hi => ?_, nd⟩
    obtain ⟨t, ht, he, -⟩ := c.mem i hi
    have : k.idx ≠ i := by
      intro e; subst e
      rw [hs] at ht; cases ht; omega
    simp only [List.getElem?_set, this, if_false]
  · show sm.len = _
    rw [wf.lenEq]
    have hget : sm.slots[k.idx] = s := by
      rcases List.getElem?_eq_some_iff.1 hs with ⟨_, h⟩; exact h
    simp only [List.countP_set hklt, hget]
    have h1 : (s.gen % 2 == 1) = true := by simp [hsodd]
    have h2 : (g % 2 == 1) = true := by simp [hodd]
    simp only [h1, h2, if_true]
    have : 0 < List.countP (fun s => s.gen % 2 == 1) sm.slots :=
      List.countP_pos_iff.2 ⟨s, by rw [← hget]; exact List.getElem_mem _, h1⟩
    omega
  · show (sm.slots.set _ _).length ≤ _
    rw [List.length_set]; exact wf.size

theorem setGen_quiescent : Obl.setGen_quiescent := by
  intro w id gen loc s a _ hq hg hs _ hodd _ hlt
  obtain ⟨hqueue, hres⟩ := hq
  obtain ⟨wf, hc, hi⟩ := (reserved_nil_iff w).1 hres
  refine ⟨hqueue, (reserved_nil_iff _).2 ⟨wf_setGen wf hg hs hodd hlt, hc, ?_⟩⟩
  show w.resIndex = _
  rw [hi]
  simp only [Step.setGen, nextKeyIndex, List.length_set]


/-! ### the accounting of pending `Spawn` events: handler actions -/

theorem keeps_gevs_of_fr {α : Type} {m : M α} (h : ∀ fr, Keeps (FR fr) m) (g : SlotMap EvInfo) :
    Keeps (fun w => w.gevs = g) m :=
  ⟨fun w hw => by
    have := (h w.frame).run w rfl
    rw [← hw]; exact congrArg Frame.gevs this⟩

theorem deliverOne_gevs : Obl.deliverOne_gevs := fun it g => keeps_gevs_of_fr (fun _ => deliverOne_fr it) g

/-- every `Spawn` entry of a handler's event set refers to a global event of kind `spawn` (all that the accounting
    needs of `WInv`; it only reads handler cores and `gevs`, which no delivery changes) -/
def SpawnRefs (w : World) : Prop :=
  ∀ hk h, w.handlers.get hk = some h → ∀ ev i, (ev, i) ∈ h.sends → ev = EvTy.spawn →
    ∃ k info, w.gevs.getByIndex i = some (k, info) ∧ info.kind = EvKind.spawn

theorem spawnRefs_of_winv {w : World} (h : WInv w) : SpawnRefs w := by
  intro hk hh hget ev i hm hev
  subst hev
  obtain ⟨-, k, info, hgi, hty⟩ := (h.registry.handlerRefs hk hh hget).sendsG .spawn i hm rfl
  have hk := h.registry.gevKind k info (SlotMap.getByIndex_get hgi).1
  rw [hty] at hk
  exact ⟨k, info, hgi, hk⟩

/-- `SpawnRefs` only reads handler cores and the global-event registry -/
theorem spawnRefs_of_keeps {α : Type} {m : M α} (hhk : ∀ reg, Keeps (HK reg) m) (hfr : ∀ fr, Keeps (FR fr) m) :
    Keeps SpawnRefs m := by
  refine ⟨fun w hw => ?_⟩
  have h1 := (hhk fun k => (w.handlers.get k).map HInfo.core).run w fun _ => rfl
  have h2 : (m.run.run w).2.gevs = w.gevs := congrArg Frame.gevs ((hfr w.frame).run w rfl)
  intro hk h' hget ev i hm hev
  have h3 : ((m.run.run w).2.handlers.get hk).map HInfo.core = (w.handlers.get hk).map HInfo.core := h1 hk
  rw [hget] at h3
  cases hw0 : w.handlers.get hk with
  | none => rw [hw0] at h3; cases h3
  | some h0 =>
    rw [hw0] at h3
    simp only [Option.map_some, Option.some.injEq] at h3
    have hs : h'.sends = h0.sends := (congrArg HInfo.sends h3 : h'.core.sends = h0.core.sends)
    rw [hs] at hm
    rw [h2]
    exact hw hk h0 hw0 ev i hm hev

/-- what does not touch the reservations, only appends to the queue and leaves `gevs` alone keeps `PendingOK` -/
theorem _root_.Evenio.PendingOK.ofFrameV5 {E : Prop} {w w' : World} (h : PendingOK E w)
    (hr : ∀ ks, Reserved w ks → Reserved w' ks) (hq : ∀ q ∈ w.queue, q ∈ w'.queue) (hg : w'.gevs = w.gevs) :
    PendingOK E w' := by
  obtain ⟨ks, hres, hp⟩ := h
  refine ⟨ks, hr ks hres, fun hne => (hp hne).imp id ?_⟩
  rintro ⟨q, hm, hs⟩
  exact ⟨q, hq q hm, by rw [hg]; exact hs⟩

theorem runAct_mq {ks : List Key} {live : Key → Bool} (hk : Key) (it : QItem) (loc : Loc) (act : Act)
    (hact : act ≠ .spawn) : Keeps (EV_reserve (MQ ks live)) (runAct hk it loc act) := by
  unfold runAct
  have h2 := @bumpCell_mq ks live
  keeps
  all_goals first | exact h2 _ _ _ | exact absurd rfl hact

/-- any action but `spawn`, however it ends -/
theorem runAct_pendingOK_ne {hk : Key} {it : QItem} {loc : Loc} {act : Act} {E : Prop} {w : World}
    (hact : act ≠ .spawn) (h : PendingOK E w) : PendingOK E ((runAct hk it loc act).run.run w).2 := by
  refine h.ofFrameV5 (fun ks hks => ?_) (fun q hq => ?_) ?_
  · exact ((runAct_mq (ks := ks) (live := w.entities.contains) hk it loc act hact).run w ⟨hks, fun _ => rfl⟩).1
  · exact List.IsPrefix.subset ((runAct_pfx (q := w.queue) hk it loc act).run w (List.prefix_refl _)) hq
  · exact congrArg Frame.gevs ((runAct_fr (fr := w.frame) hk it loc act).run w rfl)


/-- the action `spawn`, on normal return: nothing happened, or one id was reserved AND its `Spawn` event queued -/
theorem runAct_spawn_pendingOK {hk : Key} {it : QItem} {loc : Loc} {E : Prop} {w w' : World} {b : Bool}
    (hsr : SpawnRefs w) (h : PendingOK E w) (hr : (runAct hk it loc .spawn).run.run w = (.ok b, w')) :
    PendingOK E w' := by
  obtain ⟨ks, hres, hp⟩ := h
  unfold runAct at hr
  rw [run_bind, run_get] at hr
  simp only at hr
  cases hh : w.handlers.get hk with
  | none => simp only [hh] at hr; cases hr
  | some hi =>
    simp only [hh] at hr
    split at hr
    · cases hr; exact ⟨ks, hres, hp⟩
    · rw [run_bind, takeBudget_run] at hr
      by_cases hb : w.budget = 0
      · simp only [hb, if_true, Bool.false_eq_true, if_false, run_pure] at hr
        cases hr; exact ⟨ks, hres, hp⟩
      · simp only [hb, if_false, if_true] at hr
        have hrb : Reserved { w with budget := w.budget - 1 } ks := hres
        rw [run_bind] at hr
        generalize hrs : reserve.run.run { w with budget := w.budget - 1 } = r at hr
        obtain ⟨(e|id), w1⟩ := r
        · cases hr
        · obtain ⟨hr1, -⟩ := reserve_spec hrb hrs
          have hq1 : w1.queue = w.queue ∧ w1.gevs = w.gevs := by
            rw [reserve_run] at hrs
            cases hk' : ({ w with budget := w.budget - 1 } : World).entities.nextKey
                ({ w with budget := w.budget - 1 } : World).resIndex with
            | key k0 i' => rw [hk'] at hrs; cases hrs; exact ⟨rfl, rfl⟩
            | exhausted => rw [hk'] at hrs; cases hrs
            | badState => rw [hk'] at hrs; cases hrs
          simp only at hr
          split at hr
          · rw [run_bind] at hr; cases hr
          · rename_i fst idx hfind
            simp only [push, logT, run_bind, run_modify, run_get, run_pure] at hr
            cases hr
            have hm := List.mem_of_find?_eq_some hfind
            have hty : fst = EvTy.spawn := by
              have := List.find?_some hfind
              exact eq_of_beq this
            obtain ⟨k, info, hgi, hkind⟩ := hsr hk hi hh fst idx hm hty
            refine ⟨ks ++ [id], hr1, fun _ => .inr ⟨{ ty := .spawn, idx := idx, pay := { ent := id } }, ?_, ?_⟩⟩
            · show _ ∈ w1.queue ++ _
              simp
            · show QItem.spawns w1.gevs _ = true
              rw [hq1.2]
              simp [QItem.spawns, hgi, hkind, EvTy.targeted]


theorem runAct_pendingOK {hk : Key} {it : QItem} {loc : Loc} {act : Act} {E : Prop} {w w' : World} {b : Bool}
    (hsr : SpawnRefs w) (h : PendingOK E w) (hr : (runAct hk it loc act).run.run w = (.ok b, w')) :
    PendingOK E w' := by
  by_cases hact : act = .spawn
  · subst hact; exact runAct_spawn_pendingOK hsr h hr
  · have := runAct_pendingOK_ne (hk := hk) (it := it) (loc := loc) hact h
    rw [hr] at this; exact this

theorem runAct_pending : Obl.runAct_pending := fun hk it loc act _ =>
  keepsP_of_run (fun _ => runAct_sl hk it loc act) fun _ hw hp _ _ hr _ =>
    runAct_pendingOK (spawnRefs_of_winv hw.1) hp hr

/-! ### the invariant of the handler phase -/

/-- the handlers' `Spawn` entries are typed and the reservations are covered up to `E` -/
abbrev SP (E : Prop) : World → Prop := fun w => SpawnRefs w ∧ PendingOK E w

variable {E : Prop}

theorem sp_modify {f : World → World} (hh : ∀ w, (f w).handlers = w.handlers) (hg : ∀ w, (f w).gevs = w.gevs)
    (he : ∀ w, (f w).entities = w.entities) (hi : ∀ w, (f w).resIndex = w.resIndex)
    (hc : ∀ w, (f w).resCount = w.resCount) (hq : ∀ w, ∀ q ∈ w.queue, q ∈ (f w).queue) :
    Keeps (SP E) (modify f) :=
  Keeps.modify fun w h => by
    refine ⟨?_, h.2.ofFrameV5 (fun ks hk => hk.frame (he w) (hi w) (hc w)) (hq w) (hg w)⟩
    intro hk hh' hget
    rw [hh w] at hget
    rw [hg w]
    exact h.1 hk hh' hget

theorem logT_sp (s : String) : Keeps (SP E) (logT s) :=
  sp_modify (fun _ => rfl) (fun _ => rfl) (fun _ => rfl) (fun _ => rfl) (fun _ => rfl) (fun _ _ h => h)
theorem ubErr_sp {α : Type} (s : String) : Keeps (SP E) (ubErr s : M α) := Keeps.throw _
theorem getArch_sp (i : Nat) (s : String) : Keeps (SP E) (getArch i s) := by
  unfold getArch
  exact Keeps.get_bind fun _ _ => by split; exact Keeps.pure _; exact ubErr_sp _
theorem paramRows_sp (p : Param) : Keeps (SP E) (paramRows p) := by
  unfold paramRows
  have h1 := @getArch_sp E
  have h2 := @ubErr_sp E
  keeps
  all_goals first | exact h1 _ _ | exact h2 _

theorem runAct_sp (hk : Key) (it : QItem) (loc : Loc) (act : Act) :
    Hoare (SP E) (runAct hk it loc act) (fun _ => SP E) (fun _ _ => True) := by
  refine ⟨fun w hw => ?_⟩
  have h1 := (spawnRefs_of_keeps (fun _ => runAct_hk hk it loc act) (fun _ => runAct_fr hk it loc act)).run w hw.1
  generalize hr : (runAct hk it loc act).run.run w = res at h1
  obtain ⟨(e|b), w'⟩ := res
  · trivial
  · exact ⟨h1, runAct_pendingOK hw.1 hw.2 hr⟩

theorem runHandler_sp (hk : Key) (it : QItem) (loc : Loc) :
    Hoare (SP E) (runHandler hk it loc) (fun _ => SP E) (fun _ _ => True) := by
  have h0 := @runAct_sp E
  have h1 := @logT_sp E
  have h2 := @getArch_sp E
  have h3 := @paramRows_sp E
  have keep : ∀ {α : Type} {m : M α}, Keeps (SP E) m → Hoare (SP E) m (fun _ => SP E) (fun _ _ => True) :=
    fun hm => Hoare.of_keeps hm fun _ _ _ => trivial
  unfold runHandler
  repeat' first
    | ((with_reducible refine Hoare.pure ?_); exact fun _ h => h)
    | ((with_reducible refine Hoare.throw ?_); exact fun _ _ => trivial)
    | ((with_reducible refine Hoare.ubErr ?_); exact fun _ _ => trivial)
    | with_reducible exact h0 _ _ _ _
    | with_reducible exact keep (h1 _)
    | with_reducible exact keep (h2 _ _)
    | with_reducible exact keep (h3 _)
    | (with_reducible refine Hoare.get_bind (fun _ _ => ?_))
    | (with_reducible refine Hoare.bind_inv ?_ (fun _ => ?_))
    | (with_reducible refine Hoare.forIn_list_inv (fun _ _ => ?_))
    | (with_reducible refine Hoare.ite ?_ ?_)
    | dsimp only
    | split

theorem runHandler_pending : Obl.runHandler_pending := fun hk it loc _ =>
  keepsP_of_run (fun _ => runHandler_sl hk it loc) fun _ hw hp _ _ hr _ =>
    ((runHandler_sp hk it loc).ok ⟨spawnRefs_of_winv hw.1, hp⟩ hr).2


/-! ### a handler that receives immutably cannot take the event -/

/-- the handler `hk` receives its event immutably -/
abbrev NT (hk : Key) : World → Prop := fun w => ∃ h, w.handlers.get hk = some h ∧ h.recvMut = false

theorem nt_of_keeps {α : Type} {m : M α} (hhk : ∀ reg, Keeps (HK reg) m) (hk : Key) : Keeps (NT hk) m := by
  refine ⟨fun w hw => ?_⟩
  obtain ⟨h0, hget, hmut⟩ := hw
  have h1 : ((m.run.run w).2.handlers.get hk).map HInfo.core = (w.handlers.get hk).map HInfo.core :=
    (hhk fun k => (w.handlers.get k).map HInfo.core).run w (fun _ => rfl) hk
  rw [hget] at h1
  cases hg : (m.run.run w).2.handlers.get hk with
  | none => rw [hg] at h1; cases h1
  | some h' =>
    rw [hg] at h1
    simp only [Option.map_some, Option.some.injEq] at h1
    exact ⟨h', hg, ((congrArg HInfo.recvMut h1 : h'.core.recvMut = h0.core.recvMut)).trans hmut⟩

theorem runAct_false0 (hk : Key) (it : QItem) (loc : Loc) (act : Act) :
    HoareOk (NT hk) (runAct hk it loc act) (fun r _ => r = false) := by
  unfold runAct
  refine HoareOk.get_bind fun w hw => ?_
  obtain ⟨h, hget, hmut⟩ := hw
  simp only [hget, hmut, Bool.false_and, Bool.false_eq_true, if_false]
  refine HoareOk.pre (P' := fun _ => True) ?_ (fun _ _ => trivial)
  repeat' first
    | ((with_reducible refine HoareOk.pure ?_); exact fun _ _ => rfl)
    | with_reducible exact HoareOk.throw _
    | with_reducible exact HoareOk.ubErr _
    | with_reducible exact HoareOk.bind_throw
    | (with_reducible refine HoareOk.bind (R := fun _ _ => True) ⟨fun _ _ _ _ _ => trivial⟩ (fun _ => ?_))
    | dsimp only
    | split

theorem runAct_false (hk : Key) (it : QItem) (loc : Loc) (act : Act) :
    HoareOk (NT hk) (runAct hk it loc act) (fun r w => r = false ∧ NT hk w) := by
  refine ⟨fun w hw b w' hr => ⟨(runAct_false0 hk it loc act).run w hw b w' hr, ?_⟩⟩
  have := (nt_of_keeps (fun _ => runAct_hk hk it loc act) hk).run w hw
  rw [hr] at this; exact this

theorem hoareOk_ubErr_bind {α β : Type} {P : World → Prop} (s : String) (f : α → M β) {Q : β → World → Prop} :
    HoareOk P ((ubErr s : M α) >>= f) Q :=
  ⟨fun w _ b w' hr => by rw [run_bind] at hr; cases hr⟩

theorem hoareOk_throw_bind {α β : Type} {P : World → Prop} (e : Err) (f : α → M β) {Q : β → World → Prop} :
    HoareOk P ((throw e : M α) >>= f) Q :=
  ⟨fun w _ b w' hr => by rw [run_bind] at hr; cases hr⟩

/-- the body loop of `runHandler` when no action takes the event -/
theorem bodyLoop_false {γ : Type} {acts : List γ} {rd : Bool} {sd : List Nat}
    {f : γ → Bool × Bool × List Nat → M (ForInStep (Bool × Bool × List Nat))} (hk : Key)
    (h0 : ∀ a rd sd, HoareOk (NT hk) (f a (false, rd, sd)) (fun r w => r.value.1 = false ∧ NT hk w)) :
    HoareOk (NT hk) (forIn acts (false, rd, sd) f >>= fun s => pure s.1) (fun o w => o = false ∧ NT hk w) := by
  refine HoareOk.bind (R := fun (s : Bool × Bool × List Nat) w => s.1 = false ∧ NT hk w) ?_
    (fun s => HoareOk.pure fun _ h => h)
  refine HoareOk.pre (HoareOk.forIn_list (fun (s : Bool × Bool × List Nat) w => s.1 = false ∧ NT hk w) ?_)
    (fun _ h => ⟨rfl, h⟩)
  rintro a ⟨o, rd, sd⟩
  refine ⟨fun w hw => ?_⟩
  obtain ⟨ho, hnt⟩ := hw
  have ho' : o = false := ho
  subst ho'
  exact (h0 a rd sd).run w hnt

theorem runHandler_false (hk : Key) (it : QItem) (loc : Loc) :
    HoareOk (NT hk) (runHandler hk it loc) (fun r w => r = false ∧ NT hk w) := by
  have keep : ∀ {α : Type} {m : M α}, (∀ reg, Keeps (HK reg) m) → HoareOk (NT hk) m (fun _ => NT hk) :=
    fun hm => HoareOk.of_keeps (nt_of_keeps hm hk)
  unfold runHandler
  repeat' first
    | ((with_reducible refine HoareOk.pure ?_); first | exact fun _ h => ⟨rfl, h⟩ | exact fun _ h => h)
    | with_reducible exact HoareOk.throw _
    | with_reducible exact HoareOk.ubErr _
    | with_reducible exact HoareOk.bind_throw
    | with_reducible exact hoareOk_ubErr_bind _ _
    | with_reducible exact hoareOk_throw_bind _ _
    | exact HoareOk.bind (runAct_false _ _ _ _) (fun r => HoareOk.pure fun _ h => ⟨by simp [h.1], h.2⟩)
    | refine bodyLoop_false hk (fun _ _ _ => ?_)
    | with_reducible exact keep (fun _ => logT_hk _)
    | with_reducible exact keep (fun _ => getArch_hk _ _)
    | with_reducible exact keep (fun _ => paramRows_hk _)
    | (with_reducible refine HoareOk.get_bind (fun _ _ => ?_))
    | (with_reducible refine HoareOk.bind_inv ?_ (fun _ => ?_))
    | (with_reducible refine HoareOk.forIn_list_inv (fun _ _ => ?_))
    | (with_reducible refine HoareOk.ite ?_ ?_)
    | dsimp only
    | split

theorem runHandler_spawn_not_taken : Obl.runHandler_spawn_not_taken := fun hk it loc =>
  HoareOk.post (HoareOk.pre (runHandler_false hk it loc) fun _ h => h.2) fun _ _ h => h.1


/-! ### the handler loop -/


theorem handlerLoop_sp (it : QItem) (info : EvInfo) (loc : Loc) (hs : List Key) :
    Hoare (SP E) (handlerLoop it info loc hs) (fun _ => SP E) (fun _ _ => True) := by
  unfold handlerLoop
  refine Hoare.forIn_list_inv fun hk owned => ?_
  split
  · refine Hoare.bind_inv (Hoare.tryCatch (E1 := fun _ _ => True) (runHandler_sp hk it loc) fun e => ?_)
      fun r => Hoare.pure fun _ h => h
    refine ⟨fun w _ => ?_⟩
    erw [unwind_run]
    trivial
  · exact Hoare.pure fun _ h => h

/-- every handler of the list receives immutably -/
abbrev NTs (hs : List Key) : World → Prop := fun w => ∀ hk ∈ hs, NT hk w

theorem handlerLoop_false (it : QItem) (info : EvInfo) (loc : Loc) (hs : List Key) :
    HoareOk (NTs hs) (handlerLoop it info loc hs) (fun r _ => r = false) := by
  unfold handlerLoop
  induction hs with
  | nil => exact HoareOk.pure fun _ _ => rfl
  | cons hk hs ih =>
    rw [List.forIn_cons]
    refine HoareOk.bind (R := fun r w => r = ForInStep.yield false ∧ NTs hs w) ?_ fun r => ?_
    · rw [if_pos (show (!false) = true from rfl)]
      refine HoareOk.bind (R := fun r w => r = false ∧ NTs hs w) ?_
        (fun r => HoareOk.pure fun _ h => ⟨by rw [h.1], h.2⟩)
      refine HoareOk.tryCatch_rethrow ?_ (fun e w a w' hr => by erw [unwind_run] at hr; cases hr)
      refine ⟨fun w hw b w' hr => ⟨((runHandler_false hk it loc).run w (hw hk (List.mem_cons_self ..)) b w' hr).1,
        fun hk' hm => ?_⟩⟩
      have := (nt_of_keeps (fun _ => runHandler_hk hk it loc) hk').run w (hw hk' (List.mem_cons_of_mem _ hm))
      rw [hr] at this; exact this
    · refine ⟨fun w hw => ?_⟩
      obtain ⟨rfl, h⟩ := hw
      exact ih.run w h

theorem mem_selOf {ord : List Key} {H : SlotMap HInfo} {p : HInfo → Bool} {pr : Priority} {k : Key}
    (h : k ∈ selOf ord H p pr) : ∃ hi, H.get k = some hi ∧ p hi = true := by
  unfold selOf at h
  simp only [List.mem_map, List.mem_filter, List.mem_filterMap, Option.map_eq_some_iff, Bool.and_eq_true,
    Prod.exists] at h
  obtain ⟨k', hi, ⟨⟨k0, -, hi', hget, heq⟩, -, hp⟩, rfl⟩ := h
  cases heq
  exact ⟨hi, hget, hp⟩

/-- **nobody can take a `Spawn` event**: the handlers on the global list of an event of kind `spawn` receive `Spawn`,
    hence immutably (`HandlerOK.spawnImm`) -/
theorem spawn_receivers_immutable {w : World} (h : WInv w) {it : QItem} (hsp : it.spawns w.gevs = true)
    {l : HandlerList Key} (hl : w.byGlobal[it.idx]? = some l) : NTs l.entries w := by
  unfold QItem.spawns at hsp
  cases hgi : w.gevs.getByIndex it.idx with
  | none => simp [hgi] at hsp
  | some p =>
    obtain ⟨gk, ginfo⟩ := p
    simp only [hgi, Bool.and_eq_true, beq_iff_eq] at hsp
    obtain ⟨hget, hidx⟩ := SlotMap.getByIndex_get hgi
    obtain ⟨l', hl', hex⟩ := h.lists.gExact gk ginfo hget
    rw [hidx, hl] at hl'
    cases hl'
    intro hk hm
    rw [HandlerList.entries_eq_segments hex.inv, hex.hi, hex.me, hex.lo] at hm
    have : ∃ hi, w.handlers.get hk = some hi ∧ globalSel gk hi = true := by
      simp only [List.mem_append] at hm
      rcases hm with hm | hm | hm <;> exact mem_selOf hm
    obtain ⟨hi, hgeth, hsel⟩ := this
    unfold globalSel at hsel
    simp only [Bool.and_eq_true, Bool.not_eq_true', beq_iff_eq] at hsel
    obtain ⟨info', hg', hty⟩ := (h.registry.handlerRefs hk hi hgeth).recvG hsel.1
    rw [hsel.2, hget] at hg'
    cases hg'
    have hkind := h.registry.gevKind gk ginfo hget
    rw [hsp.2] at hkind
    have hrecv : hi.recv = .spawn := by
      rw [← hty]
      cases hty' : ginfo.ty <;> rw [hty'] at hkind <;> first | rfl | cases hkind
    exact ⟨hi, hgeth, (h.lists.handler hk hi hgeth).spawnImm hrecv⟩


/-! ### one delivery -/


/-- the `Despawn` effect, on normal return, leaves nothing reserved -/
theorem despawn_ok_reserved {loc : Loc} {w w' : World} {ks : List Key} (hk : Reserved w ks) (har : ArchOK w.archs)
    (hr : (do spawnAll; removeEntity loc; resRefresh : M Unit).run.run w = (.ok (), w')) : Reserved w' [] := by
  obtain ⟨hidx, a0, ha0, hc0⟩ := har
  obtain ⟨w1, w2, h1, h2, h3⟩ := despawn_run_ok hr
  have hr1 := (reserved_nil_iff _).1 (spawnAll_spec hk ha0 (hidx 0 a0 ha0) hc0 h1).1
  have h0 := (removeEntity_wf0 loc).run w1 ⟨hr1.1, hr1.2.1⟩
  rw [h2] at h0
  rw [resRefresh_run h0.2] at h3
  cases h3
  exact (reserved_nil_iff _).2 ⟨h0.1, h0.2, rfl⟩

/-- the effects `Spawn` and `Despawn` materialise every reservation -/
theorem effect_clears {it : QItem} {info : EvInfo} {loc : Loc} {w w' : World} {ks : List Key}
    (hkind : info.kind = .spawn ∨ info.kind = .despawn) (hk : Reserved w ks) (har : ArchOK w.archs)
    (hr : (effectPhase it info loc).run.run w = (.ok (), w')) : Reserved w' [] := by
  rcases hkind with hkind | hkind
  · rw [effectPhase_spawn hkind] at hr
    obtain ⟨hidx, a0, ha0, hc0⟩ := har
    exact (spawnAll_spec hk ha0 (hidx 0 a0 ha0) hc0 hr).1
  · rw [effectPhase_despawn hkind] at hr
    exact despawn_ok_reserved hk har hr

/-- what keeps the reservations as they are, the queued events queued and the event registry -/
theorem pendingOK_run {α : Type} {m : M α} (hres : ∀ ks live, Keeps (EV_reserve (MQ ks live)) m)
    (hfr : ∀ fr, Keeps (FR fr) m) {w : World} (hq : ∀ q ∈ w.queue, q ∈ (m.run.run w).2.queue)
    (h : PendingOK E w) : PendingOK E (m.run.run w).2 :=
  h.ofFrameV5 (fun ks hks => ((hres ks w.entities.contains).run w ⟨hks, fun _ => rfl⟩).1) hq
    (congrArg Frame.gevs ((hfr w.frame).run w rfl))

theorem dropEvent_pendingOK {it : QItem} {w : World} (h : PendingOK E w) : PendingOK E (dropEventW it w) := by
  have := pendingOK_run (m := dropEvent it) (fun _ _ => dropEvent_ev it) (fun _ => dropEvent_fr it)
    (fun q hq => List.IsPrefix.subset ((dropEvent_pfx (q := w.queue) it).run w (List.prefix_refl _)) hq) h
  rw [run_dropEvent] at this
  exact this

/-- the effects other than `Spawn` / `Despawn` -/
theorem effect_pendingOK {it : QItem} {info : EvInfo} {loc : Loc} {w w' : World}
    (hkind : info.kind ≠ .spawn ∧ info.kind ≠ .despawn) (h : PendingOK E w)
    (hr : (effectPhase it info loc).run.run w = (.ok (), w')) : PendingOK E w' := by
  have hef : Keeps (fun x => x.queue = w.queue) (effectPhase it info loc) := by
    unfold effectPhase
    have h1 : ∀ src c, Keeps (fun x => x.queue = w.queue) (traverseInsert src c) := fun src c =>
      ⟨fun x hx => by
        have := (traverseInsert_ef (ef := x.effFrame) src c).run x rfl
        exact (congrArg EffFrame.queue this).trans hx⟩
    have h2 : ∀ src c, Keeps (fun x => x.queue = w.queue) (traverseRemove src c) := fun src c =>
      ⟨fun x hx => by
        have := (traverseRemove_ef (ef := x.effFrame) src c).run x rfl
        exact (congrArg EffFrame.queue this).trans hx⟩
    have h3 : ∀ src dst new, Keeps (fun x => x.queue = w.queue) (moveEntity src dst new) := fun src dst new =>
      ⟨fun x hx => by
        have := (moveEntity_ef (ef := x.effFrame) src dst new).run x rfl
        exact (congrArg EffFrame.queue this).trans hx⟩
    have h4 : Keeps (fun x => x.queue = w.queue) (dropEvent it) :=
      ⟨fun x hx => by
        rw [run_dropEvent]
        show (dropEventW it x).queue = _
        rw [← hx]
        unfold dropEventW dropCellW
        split
        · rfl
        · rfl
        · split <;> rfl
        · rfl⟩
    have h5 : ∀ c s, Keeps (fun x => x.queue = w.queue) (dbgAssert c s) := fun c s => by
      unfold dbgAssert; keeps
    split
    · split
      · exact h4
      · exact Keeps.pure _
    · exact Keeps.bind (h5 _ _) fun _ => Keeps.bind (h1 _ _) fun _ => h3 _ _ _
    · exact Keeps.bind (h2 _ _) fun _ => h3 _ _ _
    · exact absurd (by assumption) hkind.1
    · exact absurd (by assumption) hkind.2
  have hq := hef.run w rfl
  have hg : ((effectPhase it info loc).run.run w).2.gevs = w.gevs := by
    have : Keeps (FR w.frame) (effectPhase it info loc) := by
      unfold effectPhase; keeps
    exact congrArg Frame.gevs (this.run w rfl)
  rw [hr] at hq hg
  refine h.ofFrameV5 (fun ks hks => ?_) (fun q hm => by rw [hq]; exact hm) hg
  have := (relocating_effect_keeps_ids (it := it) (info := info) (loc := loc) hkind hks).1
  rw [hr] at this
  exact this



theorem lookupPhase_global {it : QItem} {w w0 w1 : World} {info : EvInfo} {hs : Option (List Key)} {loc : Loc}
    (ht : it.ty.targeted = false) (h : (lookupPhase it w).run.run w0 = (.ok (info, hs, loc), w1)) :
    ∃ gk l, w.gevs.getByIndex it.idx = some (gk, info) ∧ w.byGlobal[it.idx]? = some l ∧ hs = some l.entries := by
  unfold lookupPhase at h
  rw [if_neg (by rw [ht]; decide)] at h
  split at h
  · rename_i gk info' hgi
    split at h
    · rename_i l hl
      cases h
      exact ⟨gk, l, hgi, hl, rfl⟩
    · cases h
  · cases h

theorem spawns_false_of_targeted {it : QItem} {g : SlotMap EvInfo} (ht : it.ty.targeted = true) :
    it.spawns g = false := by
  unfold QItem.spawns; rw [ht]; rfl

/-- **one delivery**: a `Spawn` event is not taken and materialises every reservation; any other event leaves what
    covered the reservations in place -/
theorem deliverOne_pendingOK {w w' : World} (h : WInv w) {it : QItem} {g : SlotMap EvInfo} (hg : w.gevs = g)
    (hp : PendingOK (E ∨ it.spawns g = true) w) (hr : (deliverOne it).run.run w = (.ok (), w')) :
    PendingOK E w' := by
  obtain ⟨info, hs, loc, hl, -, hm⟩ := deliverOne_ok_cases hr
  cases hs with
  | none =>
    simp only at hm
    have ht := ((lookupPhase_cases hl).1.1 rfl).1
    have hp' : PendingOK E w := hp.weaken fun h => h.elim id fun h => by
      rw [spawns_false_of_targeted ht] at h; cases h
    rw [hm]
    split
    · exact dropEvent_pendingOK hp'
    · exact hp'
  | some hs =>
    simp only at hm
    obtain ⟨owned, wh, hh, hm⟩ := hm
    obtain ⟨ks, hres, hcov⟩ := hp
    have hext := handlerPhase_extends_reserved (it := it) (info := info) (loc := loc) (hs := hs) hres h.archOK
    rw [hh] at hext
    obtain ⟨-, harh, -, ks', hresh⟩ := hext
    have hres2 : Reserved { wh with queue := wh.queue.reverse } (ks ++ ks') := hresh
    by_cases hsp : it.spawns g = true
    · -- a `Spawn` event: nobody takes it, `spawnAll` runs
      have ht : it.ty.targeted = false := by
        cases hb : it.ty.targeted
        · rfl
        · rw [spawns_false_of_targeted hb] at hsp; cases hsp
      obtain ⟨gk, l, hgi, hbl, hhs⟩ := lookupPhase_global ht hl
      cases hhs
      have hkind : info.kind = .spawn := by
        rw [← hg] at hsp
        unfold QItem.spawns at hsp
        simp only [hgi, Bool.and_eq_true, beq_iff_eq] at hsp
        exact hsp.2
      have hnt : NTs l.entries { w with inflightOwned := false } :=
        spawn_receivers_immutable h (by rw [hg]; exact hsp) hbl
      rw [handlerPhase_run] at hh
      have hown := (handlerLoop_false it info loc l.entries).run _ hnt owned wh hh
      subst hown
      simp only [Bool.false_eq_true, if_false] at hm
      exact ⟨[], effect_clears (.inl hkind) hres2 harh hm, fun hne => (hne rfl).elim⟩
    · -- any other event
      have hp' : PendingOK E w := ⟨ks, hres, fun hne => (hcov hne).elim (fun h => h.elim .inl fun h => (hsp h).elim) .inr⟩
      have hsp0 : SP E { w with inflightOwned := false } := ⟨(spawnRefs_of_winv h : SpawnRefs w), hp'⟩
      rw [handlerPhase_run] at hh
      have hph := ((handlerLoop_sp it info loc hs).ok hsp0 hh).2
      have hp2 : PendingOK E { wh with queue := wh.queue.reverse } :=
        hph.ofFrameV5 (fun _ hk => hk) (fun q hq => List.mem_reverse.2 hq) rfl
      cases owned with
      | true =>
        simp only [if_true] at hm
        rw [hm]; exact hp2
      | false =>
        simp only [Bool.false_eq_true, if_false] at hm
        by_cases hkind : info.kind = .spawn ∨ info.kind = .despawn
        · exact ⟨[], effect_clears hkind hres2 harh hm, fun hne => (hne rfl).elim⟩
        · exact effect_pendingOK ⟨fun h => hkind (.inl h), fun h => hkind (.inr h)⟩ hp2 hm

theorem deliverOne_pending : Obl.deliverOne_pending := by
  intro it g E
  refine ⟨fun w hw => ?_⟩
  obtain ⟨hwg, hw⟩ := hw
  generalize hr : (deliverOne it).run.run w = res
  obtain ⟨(e|u), w'⟩ := res
  · trivial
  · intro hs
    obtain ⟨hmid, hp⟩ := hw (SlabMono.small (fun _ => deliverOne_sl it) hr hs)
    exact deliverOne_pendingOK hmid.1 hwg hp hr


/-! ### the event loop and the registration functions -/

variable {E' : Prop}

theorem flush_pending (hdel : Obl.glue_deliverOne) : Obl.flush_pending := fun fuel g E =>
  flushWith_keepsP hdel deliverOne_gevs deliverOne_pending fuel g E

/-- a flush that returns normally has emptied the queue -/
theorem flush_ok_queue {fuel : Nat} {w w' : World} (h : (flush fuel).run.run w = (.ok (), w')) : w'.queue = [] := by
  obtain ⟨wd, log, hd, rfl⟩ := flushWith_ok_log (w0 := w) (q := w.queue) h
  exact hd.queue_nil rfl

/-- the invariant with the reservations covered up to `E`, guarded -/
abbrev GP (E : Prop) : World → Prop := Guarded fun w => WInvMid w ∧ PendingOK E w

/-- `KeepsP` with the invariant in the postcondition, so that it composes -/
abbrev HP {α : Type} (E E' : Prop) (m : M α) : Prop := Hoare (GP E) m (fun _ => GP E') (fun _ _ => True)

theorem HP.keepsP {α : Type} {m : M α} (h : HP E E' m) : KeepsP E E' m :=
  Hoare.post h (fun _ _ h hs => (h hs).2) (fun _ _ _ => trivial)

theorem HP.of {α : Type} {m : M α} (hW : KeepsW m) (hP : KeepsP E E' m) : HP E E' m := by
  have h1 : Hoare (GP E) m (fun _ => Guarded WInvMid) (fun _ _ => True) :=
    Hoare.post (Hoare.pre hW fun w h hs => (h hs).1) (fun _ _ h => h) (fun _ _ _ => trivial)
  exact Hoare.post (Hoare.and h1 hP) (fun _ _ h hs => ⟨h.1 hs, h.2 hs⟩) (fun _ _ _ => trivial)

theorem _root_.Evenio.PendingOK.monoV5 {w w' : World} (h : PendingOK E w) (hr : ∀ ks, Reserved w ks → Reserved w' ks)
    (hq : ∀ q ∈ w.queue, q.spawns w.gevs = true → ∃ q' ∈ w'.queue, q'.spawns w'.gevs = true) (hE : E → E') :
    PendingOK E' w' := by
  obtain ⟨ks, hres, hp⟩ := h
  refine ⟨ks, hr ks hres, fun hne => ?_⟩
  rcases hp hne with he | ⟨q, hm, hs⟩
  · exact .inl (hE he)
  · exact .inr (hq q hm hs)

/-- registering a global event keeps what the queued events refer to -/
theorem spawns_insertWith {G G' : SlotMap EvInfo} (wf : G.WF) {f : Key → EvInfo} {k : Key}
    (hins : G.insertWith f = some (k, G')) {q : QItem} (h : q.spawns G = true) : q.spawns G' = true := by
  obtain ⟨wf', -, -, hother, hnc⟩ := SlotMap.insertWith_usable wf hins
  unfold QItem.spawns at h ⊢
  cases hgi : G.getByIndex q.idx with
  | none => simp [hgi] at h
  | some p =>
    obtain ⟨gk, info⟩ := p
    obtain ⟨hget, hidx⟩ := SlotMap.getByIndex_get hgi
    have hne : gk ≠ k := by
      intro e; subst e
      simp [SlotMap.contains, hget] at hnc
    have hget' : G'.get gk = some info := by rw [hother gk hne]; exact hget
    have := SlotMap.get_getByIndex wf' hget'
    rw [hidx] at this
    rw [hgi] at h
    rw [this]
    exact h

theorem push_gp (it : QItem) : HP E E (push it) := by
  refine ⟨fun w hw => ?_⟩
  unfold push
  simp only [run_modify]
  intro hs
  obtain ⟨h1, h2⟩ := hw hs
  exact ⟨h1.frame (by releq) rfl rfl,
    h2.monoV5 (fun _ h => h) (fun q hm hsp => ⟨q, List.mem_append_left _ hm, hsp⟩) id⟩

section registration
variable (hdel : Obl.glue_deliverOne) (hgev : ∀ g : Group, Obl.regGev_keeps g)
  (hcomp : ∀ g : Group, Obl.regComp_keeps g)

include hdel in
theorem flush_gp (fuel : Nat) : Hoare (GP E) (flush fuel) (fun _ w => GP E w ∧ w.queue = []) (fun _ _ => True) := by
  refine ⟨fun w hw => ?_⟩
  have := (flush_pending hdel fuel w.gevs E).run w ⟨rfl, hw⟩
  generalize hr : (flush fuel).run.run w = res at this
  obtain ⟨(e|u), w'⟩ := res
  · trivial
  · exact ⟨fun hs => ⟨(this.2 hs).1, (this.2 hs).2.1⟩, flush_ok_queue hr⟩

include hdel in
theorem flush_hp (fuel : Nat) : HP E E (flush fuel) :=
  Hoare.post (flush_gp hdel fuel) (fun _ _ h => h.1) (fun _ _ _ => trivial)

include hgev in
theorem gp_regGev {w : World} (hw : GP E w) {ty : EvTy} {k : Key} {gevs' : SlotMap EvInfo}
    (hins : w.gevs.insertWith (Step.gevEntry ty) = some (k, gevs')) : GP E (Step.regGev w k gevs') :=
  fun hs => ⟨winvMid_of_groups hs (fun g => hgev g w ty k gevs' (hw hs).1 hins) (hw hs).1.2,
    (hw hs).2.monoV5 (fun _ h => h) (fun q hm hsp => ⟨q, hm, spawns_insertWith (hw hs).1.1.gevsWF hins hsp⟩) id⟩

include hdel hgev in
theorem ensureAddG_hp : HP E E ensureAddG := by
  unfold ensureAddG
  refine Hoare.get_bind fun w hw => ?_
  split
  · exact Hoare.pure fun _ h => h
  · split
    · exact Hoare.throw fun _ _ => trivial
    · next k gevs hins =>
      refine Hoare.bind_inv (Hoare.of_keeps (Keeps.set ?_) (fun _ _ _ => trivial)) fun _ => ?_
      · exact gp_regGev hgev hw (ty := .addG) hins
      refine Hoare.bind_inv (push_gp _) fun _ => ?_
      exact Hoare.bind_inv (flush_hp hdel _) fun _ => Hoare.pure fun _ h => h

include hdel hgev in
theorem addGlobalEvent_hp (ty : EvTy) : HP E E (addGlobalEvent ty) := by
  unfold addGlobalEvent
  split
  · exact ensureAddG_hp hdel hgev
  · refine Hoare.get_bind fun w hw => ?_
    split
    · exact Hoare.pure fun _ h => h
    · split
      · exact Hoare.throw fun _ _ => trivial
      · next k gevs hins =>
        refine Hoare.bind_inv (Hoare.of_keeps (Keeps.set ?_) (fun _ _ _ => trivial)) fun _ => ?_
        · exact gp_regGev hgev hw (ty := ty) hins
        refine Hoare.bind_inv (ensureAddG_hp hdel hgev) fun _ => ?_
        refine Hoare.bind_inv (push_gp _) fun _ => ?_
        exact Hoare.bind_inv (flush_hp hdel _) fun _ => Hoare.pure fun _ h => h

include hdel hgev in
theorem ensureAddG_pending : Obl.ensureAddG_pending := fun _ => (ensureAddG_hp hdel hgev).keepsP
include hdel hgev in
theorem addGlobalEvent_pending : Obl.addGlobalEvent_pending := fun ty _ => (addGlobalEvent_hp hdel hgev ty).keepsP

end registration


/-! ### `removeComponent`'s tail -/

/-- the entity map is well formed, nothing is reserved, nothing is queued -/
abbrev QZ : World → Prop := fun w => w.entities.WF ∧ w.resCount = 0 ∧ w.queue = []

theorem handlerRemoveArch_qz (hk : Key) (a : Arch) : Keeps QZ (handlerRemoveArch hk a) := by
  unfold handlerRemoveArch ubErr; keeps
theorem dropCell_qz (ty : Nat) (c : Cell) : Keeps QZ (dropCell ty c) := by unfold dropCell; keeps
theorem setArch_qz (a : Arch) : Keeps QZ (setArch a) := by unfold setArch; keeps

theorem archsRemoveComponent_qz (info : CompInfo) : Keeps QZ (archsRemoveComponent info) := by
  unfold archsRemoveComponent ubErr
  have h1 := handlerRemoveArch_qz
  have h2 := dropCell_qz
  have h3 := setArch_qz
  keeps
  all_goals first | exact h1 _ _ | exact h2 _ _ | exact h3 _ | skip
  refine Keeps.modify fun w h => ?_
  split
  · next hrem => exact ⟨h.1.remove hrem, h.2.1, h.2.2⟩
  · exact h

/-- **`removeComponent`'s tail keeps the world quiescent**: the entities of the removed archetypes are removed from a
    well-formed map, nothing is reserved, and `resRefresh` resets the cursor.  (Needs neither `CompUnused` nor
    `info.id = k`.) -/
theorem dropComp_quiescent : Obl.dropComp_quiescent := by
  intro w k info comps' _ hq _ _
  refine ⟨fun w1 hw1 u w' hr => ?_⟩
  subst hw1
  obtain ⟨hqueue, hres⟩ := hq
  obtain ⟨wf, hc, -⟩ := (reserved_nil_iff w).1 hres
  unfold dropCompTail at hr
  rw [run_bind] at hr
  have h0 := (archsRemoveComponent_qz info).run (Step.dropComp w k comps') ⟨wf, hc, hqueue⟩
  generalize (archsRemoveComponent info).run.run (Step.dropComp w k comps') = r at hr h0
  obtain ⟨(e|u1), w2⟩ := r
  · cases hr
  · simp only at hr
    rw [resRefresh_run h0.2.1] at hr
    cases hr
    exact ⟨h0.2.2, (reserved_nil_iff _).2 ⟨h0.1, h0.2.1, rfl⟩⟩



theorem GP.weaken {E1 : Prop} {w : World} (h : GP E w) (hE : E → E1) : GP E1 w :=
  fun hs => ⟨(h hs).1, (h hs).2.weaken hE⟩

theorem HP.weaken_pre {α : Type} {E1 : Prop} {m : M α} (h : HP E1 E' m) (hE : E → E1) : HP E E' m :=
  Hoare.pre h fun _ hw => hw.weaken hE

theorem sendGlobal_queue : Obl.sendGlobal_queue := by
  intro ty pay
  unfold sendGlobal
  refine HoareOk.bind (R := fun _ _ => True) ⟨fun _ _ _ _ _ => trivial⟩ fun k => ?_
  refine HoareOk.bind (R := fun _ _ => True) ⟨fun _ _ _ _ _ => trivial⟩ fun _ => ?_
  exact ⟨fun w _ u w' hr => flush_ok_queue hr⟩

section registration
variable (hdel : Obl.glue_deliverOne) (hgev : ∀ g : Group, Obl.regGev_keeps g)
  (hcomp : ∀ g : Group, Obl.regComp_keeps g)

include hdel hgev in
theorem sendGlobal_hp (ty : EvTy) (pay : Payload) : HP (E ∨ ty = .spawn) E (sendGlobal ty pay) := by
  unfold sendGlobal
  refine Hoare.bind (R := fun k w => GP (E ∨ ty = .spawn) w ∧
      (Small w → ∃ ei, w.gevs.get k = some ei ∧ ei.ty = ty)) ?_
    fun k => ?_
  · refine Hoare.tryCatch (E1 := fun _ _ => True) ?_ fun e => Hoare.of_hoareOk HoareOk.bind_throw
    exact Hoare.post (Hoare.and (addGlobalEvent_hp hdel hgev ty)
      (Hoare.pre (Hoare.of_hoareOk (addGlobalEvent_live_guarded ty)) fun _ h hs => (h hs).1)) (fun _ _ h => h) (fun _ _ _ => trivial)
  · refine Hoare.bind (R := fun _ => GP E) ⟨fun w hw => ?_⟩ fun _ => flush_hp hdel _
    obtain ⟨hgp, hex⟩ := hw
    unfold push
    simp only [run_modify]
    intro hs
    obtain ⟨ei, hget, hty⟩ := hex hs
    obtain ⟨h1, ks, hres, hp⟩ := hgp hs
    refine ⟨h1.frame (by releq) rfl rfl, ks, hres, fun hne => ?_⟩
    rcases hp hne with (he | hsp) | ⟨q, hm, hq⟩
    · exact .inl he
    · refine .inr ⟨{ ty := ty, idx := k.idx, pay := pay }, List.mem_append_right _ (List.mem_singleton.2 rfl), ?_⟩
      have hgi := SlotMap.get_getByIndex h1.1.gevsWF hget
      have hkind := h1.1.registry.gevKind k ei hget
      rw [hty, hsp] at hkind
      have hkind' : ei.kind = EvKind.spawn := hkind
      show QItem.spawns w.gevs _ = true
      simp [QItem.spawns, hgi, hkind', hsp, EvTy.targeted]
    · exact .inr ⟨q, List.mem_append_left _ hm, hq⟩

include hdel hgev in
theorem sendGlobal_pending : Obl.sendGlobal_pending := fun ty pay _ => (sendGlobal_hp hdel hgev ty pay).keepsP

include hdel hgev in
/-- sending anything but `Spawn` -/
theorem sendGlobal_hp' (ty : EvTy) (pay : Payload) : HP E E (sendGlobal ty pay) :=
  (sendGlobal_hp hdel hgev ty pay).weaken_pre .inl

include hdel hgev hcomp in
theorem addComponent_hp (ty : Nat) : HP E E (addComponent ty) := by
  unfold addComponent
  refine Hoare.get_bind fun w hw => ?_
  split
  · exact Hoare.pure fun _ h => h
  · split
    · exact Hoare.throw fun _ _ => trivial
    · next k comps hins =>
      refine Hoare.bind_inv (Hoare.of_keeps (Keeps.set ?_) (fun _ _ _ => trivial)) fun _ => ?_
      · exact fun hs => ⟨winvMid_of_groups hs (fun g => hcomp g w ty k comps (hw hs).1 hins) (hw hs).1.2,
          (hw hs).2.ofFrameV5 (fun _ h => h) (fun _ h => h) rfl⟩
      exact Hoare.bind_inv (sendGlobal_hp' hdel hgev _ _) fun _ => Hoare.pure fun _ h => h

include hdel hgev hcomp in
theorem addComponent_pending : Obl.addComponent_pending := fun ty _ =>
  (addComponent_hp hdel hgev hcomp ty).keepsP

end registration



theorem foldl_set_length {γ : Type} (f : γ → Nat × Arch) (l : List γ) (s : Slab Arch) :
    (l.foldl (fun s p => s.set (f p).1 (f p).2) s).entries.length = s.entries.length := by
  induction l generalizing s with
  | nil => rfl
  | cons p l ih => rw [List.foldl_cons, ih, Slab.length_set]

theorem dropHandlerSlab_length (s : Slab Arch) (k : Key) (h : HInfo) :
    (dropHandlerSlab s k h).entries.length = s.entries.length :=
  foldl_set_length (fun p : Nat × Arch => ((p.2.dropHandler k h).index, p.2.dropHandler k h)) _ s

theorem removeHandlerPure_small {w : World} {k : Key} {h : HInfo} (hs : Small (removeHandlerPure w k h)) :
    Small w := by
  obtain ⟨-, -, -, -, -, -, ht, -⟩ := removeHandlerPure_frame w k h
  unfold Small at hs ⊢
  rw [ht] at hs
  refine ⟨?_, hs.2⟩
  have := hs.1
  unfold removeHandlerPure at this
  rw [dropHandlerArchs_eq] at this
  simp only [dropHandlerSlab_length] at this
  exact this

section registration
variable (hdel : Obl.glue_deliverOne) (hgev : ∀ g : Group, Obl.regGev_keeps g)
 

include hdel hgev in
/-- after the announcement `removeHandler` only writes registries and archetype tables -/
theorem removeHandler_pending : Obl.removeHandler_pending := fun k E =>
  keepsP_of_run (fun _ => removeHandler_sl k) fun w hw hp b w' hr hs => by
    rw [removeHandler_eq] at hr
    split at hr
    · cases hr; exact hp
    · generalize hsend : (sendGlobal .remH { id := k }).run.run w = r at hr
      obtain ⟨(e|u), w1⟩ := r
      · cases hr
      · simp only at hr
        split at hr
        · cases hr
        · next h hs' hrem =>
          split at hr
          · cases hr
          · cases hr
            obtain ⟨-, h1, h2, h3, -, h4, -, -, h5, -⟩ := removeHandlerPure_frame w1 k h
            have hgp : GP E w1 := (sendGlobal_hp' hdel hgev _ _).ok (fun _ => ⟨hw, hp⟩) hsend
            exact (hgp (removeHandlerPure_small hs)).2.ofFrameV5 (fun _ hk => hk.frame h1 h2 h3)
              (fun q hq => by rw [h5]; exact hq) h4

end registration



theorem noteEvent_fields (w : World) (kind : EvKind) (k : Key) :
    let w' := Step.noteEvent w kind k
    w'.entities = w.entities ∧ w'.resIndex = w.resIndex ∧ w'.resCount = w.resCount ∧ w'.queue = w.queue ∧
    w'.gevs = w.gevs ∧ w'.tevs = w.tevs ∧ w'.archs = w.archs := by
  unfold Step.noteEvent
  split
  · split <;> exact ⟨rfl, rfl, rfl, rfl, rfl, rfl, rfl⟩
  · split <;> exact ⟨rfl, rfl, rfl, rfl, rfl, rfl, rfl⟩
  · exact ⟨rfl, rfl, rfl, rfl, rfl, rfl, rfl⟩

section registration
variable (hdel : Obl.glue_deliverOne) (hgev : ∀ g : Group, Obl.regGev_keeps g)
  (hcomp : ∀ g : Group, Obl.regComp_keeps g)
  (htev : ∀ g : Group, Obl.regTev_keeps g)

include htev in
theorem gp_regTev {w : World} (hw : GP E w) {ty : EvTy} {kind : EvKind} {nd : Bool} {k : Key}
    {tevs' : SlotMap EvInfo} (hty : ty.targeted = true)
    (hc : ∀ c, kind = .insert c ∨ kind = .remove c → ∃ ck ci, w.comps.get ck = some ci ∧ ck.idx = c)
    (hins : w.tevs.insertWith (Step.tevEntry ty kind nd) = some (k, tevs')) :
    GP E (Step.regTev w kind k tevs') := by
  intro hs
  obtain ⟨e1, e2, e3, e4, e5, e6, e7⟩ := noteEvent_fields { w with tevs := tevs' } kind k
  have hs0 : Small w := by
    unfold Small at hs ⊢
    unfold Step.regTev at hs
    rw [e7, e6] at hs
    exact ⟨hs.1, Nat.lt_of_le_of_lt (SlotMap.length_insertWith hins) hs.2⟩
  obtain ⟨hmid, hp⟩ := hw hs0
  have hc' : ∀ c, kind = .insert c ∨ kind = .remove c → (w.comps.getByIndex c).isSome = true := by
    intro c hk
    obtain ⟨ck, ci, hget, rfl⟩ := hc c hk
    rw [SlotMap.get_getByIndex hmid.1.compsWF hget]; rfl
  refine ⟨winvMid_of_groups hs (fun g => htev g w ty kind nd k tevs' hmid hty hc' hins) ?_, ?_⟩
  · exact hmid.2.imp fun _ hk => hk.frame e1 e2 e3
  · exact hp.ofFrameV5 (fun _ hk => hk.frame e1 e2 e3) (fun q hq => by unfold Step.regTev; rw [e4]; exact hq) e5

include hdel hgev hcomp htev in
theorem addTargetedEvent_hp (ty : EvTy) (hty : ty.targeted = true) : HP E E (addTargetedEvent ty) := by
  unfold addTargetedEvent
  refine Hoare.bind (R := fun kind w => GP E w ∧
    ∀ c, kind = .insert c ∨ kind = .remove c → ∃ ck ci, w.comps.get ck = some ci ∧ ck.idx = c) ?_ fun kind => ?_
  · -- `E::init`
    have hadd : ∀ c, Hoare (GP E) (addComponent c) (fun k w => GP E w ∧ ∃ ci, w.comps.get k = some ci)
        (fun _ _ => True) := fun c =>
      Hoare.post (Hoare.and (addComponent_hp hdel hgev hcomp c)
        (Hoare.pre (Hoare.of_hoareOk (addComponent_live c)) fun _ _ => trivial))
        (fun _ _ h => ⟨h.1, h.2.imp fun _ h => h.1⟩) (fun _ _ _ => trivial)
    split
    · refine Hoare.bind (hadd _) fun ck => Hoare.pure fun w h => ⟨h.1, fun c hc => ?_⟩
      obtain ⟨ci, hci⟩ := h.2
      rcases hc with hc | hc <;> cases hc
      exact ⟨ck, ci, hci, rfl⟩
    · refine Hoare.bind (hadd _) fun ck => Hoare.pure fun w h => ⟨h.1, fun c hc => ?_⟩
      obtain ⟨ci, hci⟩ := h.2
      rcases hc with hc | hc <;> cases hc
      exact ⟨ck, ci, hci, rfl⟩
    · exact Hoare.pure fun w h => ⟨h, fun c hc => by rcases hc with hc | hc <;> cases hc⟩
    · exact Hoare.pure fun w h => ⟨h, fun c hc => by rcases hc with hc | hc <;> cases hc⟩
  · refine Hoare.get_bind fun w hw => ?_
    split
    · exact Hoare.pure fun _ h => h.1
    · dsimp only
      split
      · exact Hoare.throw fun _ _ => trivial
      · next k tevs hins =>
        refine Hoare.bind (R := fun _ w1 => w1 = { w with tevs := tevs }) ⟨fun _ _ => by simp only [run_set]⟩
          fun _ => ?_
        have hstep : GP E (Step.regTev w kind k tevs) := gp_regTev htev hw.1 hty hw.2 hins
        have hrest : Hoare (GP E) (do sendGlobal .addT { id := k }; pure k : M Key) (fun _ => GP E)
            (fun _ _ => True) :=
          Hoare.bind_inv (sendGlobal_hp' hdel hgev _ _) fun _ => Hoare.pure fun _ h => h
        refine ⟨fun w1 hw1 => ?_⟩
        subst hw1
        unfold Step.regTev Step.noteEvent at hstep
        cases kind with
        | insert c =>
          dsimp only at hstep ⊢
          rw [run_bind, run_get]
          dsimp only
          cases heq : w.comps.getByIndex c with
          | some p =>
            obtain ⟨ck, ci⟩ := p
            simp only [heq] at hstep ⊢
            rw [run_bind, run_set]
            exact hrest.run _ hstep
          | none =>
            simp only [heq] at hstep ⊢
            exact hrest.run _ hstep
        | remove c =>
          dsimp only at hstep ⊢
          rw [run_bind, run_get]
          dsimp only
          cases heq : w.comps.getByIndex c with
          | some p =>
            obtain ⟨ck, ci⟩ := p
            simp only [heq] at hstep ⊢
            rw [run_bind, run_set]
            exact hrest.run _ hstep
          | none =>
            simp only [heq] at hstep ⊢
            exact hrest.run _ hstep
        | normal => exact hrest.run _ hstep
        | spawn => exact hrest.run _ hstep
        | despawn => exact hrest.run _ hstep

include hdel hgev hcomp htev in
/-- `Obl.addTargetedEvent_pending` for the types `addTargetedEvent` is called with (`Obl.regTev_keeps` is only stated
    for targeted types) -/
theorem addTargetedEvent_pending_partial :
    ∀ ty (E : Prop), ty.targeted = true → KeepsP E E (addTargetedEvent ty) := fun ty _ hty =>
  (addTargetedEvent_hp hdel hgev hcomp htev ty hty).keepsP

include hdel hgev hcomp htev in
theorem sendTargeted_hp (ty : EvTy) (tg : Key) (pay : Payload) (hty : ty.targeted = true) :
    HP E E (sendTargeted ty tg pay) := by
  unfold sendTargeted
  refine Hoare.bind_inv (Hoare.tryCatch (E1 := fun _ _ => True)
    (addTargetedEvent_hp hdel hgev hcomp htev ty hty) fun e => Hoare.of_hoareOk HoareOk.bind_throw)
    fun k => ?_
  exact Hoare.bind_inv (push_gp _) fun _ => flush_hp hdel _

include hdel hgev hcomp htev in
theorem sendTargeted_pending_partial :
    ∀ ty tg pay (E : Prop), ty.targeted = true → KeepsP E E (sendTargeted ty tg pay) := fun ty tg pay _ hty =>
  (sendTargeted_hp hdel hgev hcomp htev ty tg pay hty).keepsP

end registration



section registration
variable (hdel : Obl.glue_deliverOne) (hgev : ∀ g : Group, Obl.regGev_keeps g)
  (hcomp : ∀ g : Group, Obl.regComp_keeps g)
  (htev : ∀ g : Group, Obl.regTev_keeps g)

include hdel hgev hcomp in
theorem initQuery_hp (q : Query) (cfg : Config) : HP E E (initQuery q cfg) := by
  unfold initQuery
  refine Hoare.bind_inv (Hoare.forIn_list_inv fun c cfg => ?_) fun cfg => ?_
  · exact Hoare.bind_inv (addComponent_hp hdel hgev hcomp c) fun _ => Hoare.pure fun _ h => h
  · exact Hoare.get_bind fun _ _ => Hoare.pure fun _ h => h

include hdel hgev hcomp htev in
theorem addEvent_hp (ty : EvTy) : HP E E (addEvent ty) := by
  unfold addEvent
  split
  · next h => exact addTargetedEvent_hp hdel hgev hcomp htev ty h
  · exact addGlobalEvent_hp hdel hgev ty

include hdel hgev hcomp htev in
theorem initParam_hp (ps : PSpec) (cfg : Config) : HP E E (initParam ps cfg) := by
  have hq := @initQuery_hp E hdel hgev hcomp 
  unfold initParam
  split
  · split
    · next h =>
      refine Hoare.bind_inv (addTargetedEvent_hp hdel hgev hcomp htev _ h) fun _ => ?_
      refine Hoare.bind_inv (hq _ _) fun r => ?_
      exact Hoare.pure fun _ h => h
    · refine Hoare.bind_inv (addGlobalEvent_hp hdel hgev _) fun _ => ?_
      exact Hoare.pure fun _ h => h
  · exact Hoare.bind_inv (hq _ _) fun r => Hoare.pure fun _ h => h
  · exact Hoare.bind_inv (hq _ _) fun r => Hoare.pure fun _ h => h
  · exact Hoare.bind_inv (hq _ _) fun r => Hoare.pure fun _ h => h
  · dsimp only
    refine Hoare.bind_inv (Hoare.forIn_list_inv fun ev idxs => ?_) fun idxs => ?_
    · exact Hoare.bind_inv (addEvent_hp hdel hgev hcomp htev ev) fun _ => Hoare.pure fun _ h => h
    · refine Hoare.bind_inv (Hoare.forIn_list_inv fun x cfg => ?_) fun cfg => Hoare.pure fun _ h => h
      split <;> exact Hoare.pure fun _ h => h
  · exact Hoare.pure fun _ h => h

end registration



/-! ### `addHandler` -/

theorem hoare_forIn_list_mem {β γ : Type} {P : Err → World → Prop} {l : List γ} {b : β}
    {f : γ → β → M (ForInStep β)} (Inv : β → World → Prop)
    (hf : ∀ a ∈ l, ∀ b, Hoare (Inv b) (f a b) (fun r => Inv r.value) P) : Hoare (Inv b) (forIn l b f) Inv P := by
  induction l generalizing b with
  | nil => exact Hoare.pure fun _ h => h
  | cons a l ih =>
    rw [List.forIn_cons]
    refine Hoare.bind (hf a (List.mem_cons_self ..) b) fun r => ?_
    cases r with
    | done b => exact Hoare.pure fun _ h => h
    | yield b => exact ih fun a' ha' => hf a' (List.mem_cons_of_mem _ ha')

theorem registerAll_sl {n : Nat × Nat} (k : Key) : Keeps (SL n) (registerAll k) := by unfold registerAll; keeps

theorem registerAll_mq {ks : List Key} {live : Key → Bool} (k : Key) :
    Keeps (EV_reserve (MQ ks live)) (registerAll k) := by
  unfold registerAll
  have h1 := @registerHandler_mq ks live
  have h2 := @setArch_mq ks live
  keeps
  all_goals first | exact h1 _ _ | exact h2 _

theorem registerAll_ef {ef : EffFrame} (k : Key) : Keeps (EF ef) (registerAll k) := by unfold registerAll; keeps
theorem registerAll_fr {fr : Frame} (k : Key) : Keeps (FR fr) (registerAll k) := by unfold registerAll; keeps

theorem configRel_init (w : World) : Obl.ConfigRel w {} [] := by
  refine ⟨rfl, FilterRel.init, ?_, ?_, ?_, ?_, ?_, ?_, ?_, ?_⟩
  · intro p h; cases h
  · intro c h; cases h
  · intro ty k h; cases h
  · intro i h; cases h
  · intro i h; cases h
  · intro ev i h; cases h
  · intro ev i h; cases h
  · intro k h; cases h

/-- the registration loop, from the world `Handlers::add` left -/
theorem registerAll_gp (hreg : ∀ g : Group, Obl.registerAll_keeps g) {w : World} {k : Key} {h : HInfo}
    {handlers' : SlotMap HInfo} (hw : GP E w) (hpre : Small w → NewHandlerPre w k h handlers') :
    Hoare (fun w1 => w1 = Step.insertHandler w k handlers' h.recv h.recvKey h.prio) (registerAll k)
      (fun _ => GP E) (fun _ _ => True) := by
  refine ⟨fun w1 hw1 => ?_⟩
  subst hw1
  generalize hr : (registerAll k).run.run (Step.insertHandler w k handlers' h.recv h.recvKey h.prio) = res
  obtain ⟨(e|u), w2⟩ := res
  · trivial
  · intro hs
    have hs1 : Small (Step.insertHandler w k handlers' h.recv h.recvKey h.prio) :=
      SlabMono.small (fun _ => registerAll_sl k) hr hs
    have hs0 : Small w := hs1
    obtain ⟨hmid, hp⟩ := hw hs0
    have hp1 : PendingOK E (Step.insertHandler w k handlers' h.recv h.recvKey h.prio) :=
      hp.ofFrameV5 (fun _ hk => hk) (fun _ hq => hq) rfl
    have hp2 := pendingOK_run (m := registerAll k) (fun _ _ => registerAll_mq k) (fun _ => registerAll_fr k)
      (fun q hq => by
        have := (registerAll_ef (ef := (Step.insertHandler w k handlers' h.recv h.recvKey h.prio).effFrame) k).run _ rfl
        rw [show ((registerAll k).run.run (Step.insertHandler w k handlers' h.recv h.recvKey h.prio)).2.queue = _
          from congrArg EffFrame.queue this]
        exact hq) hp1
    rw [hr] at hp2
    exact ⟨winvMid_of_groups hs (fun g => (hreg g w k h handlers' hmid (hpre hs0)).ok rfl hr) hp2.reservedSome, hp2⟩



/-- the registry entry `addHandler` builds -/
def mkH (hs : HSpec) (cfg : Config) (params : List Param) (recvTy : EvTy) (recvKey : Key) (order : Nat) (k : Key) :
    HInfo :=
  { name := hs.name, key := k, order := order, tid := hs.tid, recv := recvTy, recvIdx := recvKey.idx,
    recvKey := recvKey, recvMut := cfg.recvMut, filter := cfg.filter, sentG := cfg.sentG, sentT := cfg.sentT,
    sends := cfg.sends, compAccess := List.foldl (fun acc a => acc.and a) CA.tt cfg.accesses,
    archFilter := List.foldl (fun acc a => acc.or a) CA.ff cfg.accesses, referenced := cfg.referenced,
    prio := hs.prio, params := params, body := hs.body }

/-- what the parameter loop has established is what the registration loop needs -/
theorem newHandlerPre_of_configRel {w : World} {hs : HSpec} {cfg : Config} {params : List Param} {recvTy : EvTy}
    {recvKey k : Key} {handlers : SlotMap HInfo} (hrel : Obl.ConfigRel w cfg params)
    (hrecv : cfg.recvEv = some (some (recvTy, recvKey)))
    (hins : w.handlers.insertWith (mkH hs cfg params recvTy recvKey w.insertCounter) = some (k, handlers)) :
    NewHandlerPre w k (mkH hs cfg params recvTy recvKey w.insertCounter k) handlers := by
  have hacc : (mkH hs cfg params recvTy recvKey w.insertCounter k).accesses = cfg.accesses := hrel.accesses.symm
  refine ⟨⟨_, hins, rfl⟩, rfl, ⟨rfl, rfl, ?_, ?_, ?_, Nat.lt_succ_self _, ?_⟩, ⟨?_, ?_, ?_, ?_, ?_, ?_, ?_⟩, hrel.caches⟩
  · rw [hacc]; rfl
  · rw [hacc]; rfl
  · exact ⟨hrel.filter.1, fun ht => hrel.filter.2.2 recvTy recvKey hrecv ht⟩
  · intro hsp
    have hsp' : recvTy = .spawn := hsp
    subst hsp'
    exact hrel.spawnImm recvKey hrecv
  · exact hrel.referenced
  · intro ht
    have ht' : recvTy.targeted = false := ht
    have := hrel.recv recvTy recvKey hrecv
    rw [ht'] at this
    exact this
  · intro ht
    have ht' : recvTy.targeted = true := ht
    have := hrel.recv recvTy recvKey hrecv
    rw [ht'] at this
    exact this
  · exact hrel.sentG
  · exact hrel.sentT
  · exact hrel.sendsG
  · exact hrel.sendsT



/-- loop invariant of the parameter loop of `addHandler` -/
abbrev LI (E : Prop) (s : Config × List Param) : World → Prop :=
  Guarded fun w => WInvMid w ∧ PendingOK E w ∧ ConfigRel' w s.1 s.2

theorem LI.gp {s : Config × List Param} {w : World} (h : LI E s w) : GP E w := fun hs => ⟨(h hs).1, (h hs).2.1⟩

section registration
variable (hdel : Obl.glue_deliverOne) (hgev : ∀ g : Group, Obl.regGev_keeps g)
  (hcomp : ∀ g : Group, Obl.regComp_keeps g)
  (htev : ∀ g : Group, Obl.regTev_keeps g)
  (hreg : ∀ g : Group, Obl.registerAll_keeps g)

include hdel hgev hcomp htev hreg in
theorem addHandler_hp (hs : HSpec) (hv : hs.Valid) : HP E E (addHandler hs) := by
  unfold addHandler
  extract_lets cfg0 params0 jp
  have herr : ∀ (s : String) (c : Config × List Param),
      Hoare (LI E c) (pure (AddResult.err s) : M AddResult) (fun _ => GP E) (fun _ _ => True) :=
    fun s c => Hoare.pure fun _ h => h.gp
  have hjp : HP E E (jp ()) := by
    unfold jp
    refine Hoare.bind (R := fun s => LI E s) ?_ ?_
    · refine Hoare.pre (hoare_forIn_list_mem (fun s => LI E s) ?_)
        (fun w hw hs => ⟨(hw hs).1, (hw hs).2, ConfigRel'.init w⟩)
      intro ps hmem s
      refine ⟨fun w hw => ?_⟩
      dsimp only
      rw [run_bind]
      generalize hr : (initParam ps s.1).run.run w = res
      obtain ⟨(e|⟨p, cfg'⟩), w'⟩ := res
      · trivial
      · intro hsm
        have hs0 : Small w := SlabMono.small (fun _ => initParam_sl ps s.1) hr hsm
        obtain ⟨hmid, hp, hrel⟩ := hw hs0
        have hgp : GP E w' :=
          (initParam_hp hdel hgev hcomp htev ps s.1).ok (fun _ => ⟨hmid, hp⟩) hr
        exact ⟨(hgp hsm).1, (hgp hsm).2, initParam_configRel' ps s.1 s.2 w p cfg' w' (hv ps hmem) hmid hrel hr⟩
    · rintro ⟨cfg, params⟩
      dsimp only
      split
      · exact herr _ _
      · exact herr _ _
      · rename_i recvTy recvKey hrecv
        split
        · exact herr _ _
        · split
          · exact Hoare.get_bind fun _ _ => herr _ _
          · refine Hoare.get_bind fun w hw => ?_
            split
            · exact Hoare.throw fun _ _ => trivial
            · rename_i k handlers hins
              have hins' : w.handlers.insertWith (mkH hs cfg params recvTy recvKey w.insertCounter) =
                  some (k, handlers) := hins
              have hpre : Small w → NewHandlerPre w k (mkH hs cfg params recvTy recvKey w.insertCounter k) handlers :=
                fun hsm => newHandlerPre_of_configRel (hw hsm).2.2.rel hrecv hins'
              refine Hoare.bind (R := fun _ w1 => w1 = Step.insertHandler w k handlers recvTy recvKey hs.prio)
                ⟨fun _ _ => by simp only [run_set]; rfl⟩ fun _ => ?_
              refine Hoare.get_bind fun _ _ => Hoare.get_bind fun _ _ => ?_
              refine Hoare.bind_inv (Hoare.of_keeps (by unfold dbgAssert; keeps) (fun _ _ _ => trivial)) fun _ => ?_
              refine Hoare.congr_run (m := registerAll k >>= fun _ =>
                (do sendGlobal .addH { id := k }; pure (AddResult.ok k) : M AddResult)) ?_ (fun w0 => ?_)
              · refine Hoare.bind (registerAll_gp hreg hw.gp hpre) fun _ => ?_
                exact Hoare.bind_inv (sendGlobal_hp' hdel hgev _ _) fun _ => Hoare.pure fun _ h => h
              · simp only [registerAll, run_bind, run_get]
                generalize StateT.run (ExceptT.run (forIn (m := M) w0.archs.toList PUnit.unit _)) w0 = r
                obtain ⟨(e|a), w1⟩ := r <;> rfl
  split
  · refine Hoare.get_bind fun w _ => ?_
    split
    · exact Hoare.pure fun _ h => h
    · exact hjp
  · exact hjp

include hdel hgev hcomp htev hreg in
/-- `Obl.addHandler_pending` for the handler specifications the Rust type system accepts; for a handler that receives
    `Spawn` mutably the statement is FALSE (it can take a queued `Spawn` event, see the report) -/
theorem addHandler_pending_partial : ∀ hs (E : Prop), hs.Valid → KeepsP E E (addHandler hs) := fun hs _ hv =>
  (addHandler_hp hdel hgev hcomp htev hreg hs hv).keepsP

end registration


/-! ### service lemmas: the queue is empty again after every registration function

On normal return, a function that was entered with an empty queue leaves an empty queue: whatever it pushes it
flushes.  (With `PendingOK.quiescent` this turns `PendingOK False` into `Quiescent`.) -/

/-- nothing is queued -/
abbrev Q0 : World → Prop := fun w => w.queue = []

/-- `HoareOk Q0 m (fun _ => Q0)` -/
abbrev KeepsQ0 {α : Type} (m : M α) : Prop := HoareOk Q0 m (fun _ => Q0)

theorem flush_q0 (fuel : Nat) : HoareOk (fun _ => True) (flush fuel) (fun _ => Q0) :=
  ⟨fun _ _ _ _ hr => flush_ok_queue hr⟩

/-- `push it; flush fuel; rest` -/
theorem push_flush_q0 {β : Type} {P : World → Prop} (it : QItem) (fuel : Nat) {rest : M β} {Q : β → World → Prop}
    (h : HoareOk Q0 rest Q) : HoareOk P (do push it; flush fuel; rest) Q :=
  HoareOk.bind (R := fun _ _ => True) ⟨fun _ _ _ _ _ => trivial⟩ fun _ => HoareOk.bind (flush_q0 fuel) fun _ => h

theorem sendGlobal_q0 (ty : EvTy) (pay : Payload) : KeepsQ0 (sendGlobal ty pay) :=
  HoareOk.pre (sendGlobal_queue ty pay) fun _ _ => trivial

theorem ensureAddG_q0 : KeepsQ0 ensureAddG := by
  unfold ensureAddG
  refine HoareOk.get_bind fun w hw => ?_
  split
  · exact HoareOk.pure fun _ h => h
  · split
    · exact HoareOk.throw _
    · refine HoareOk.bind (R := fun _ _ => True) ⟨fun _ _ _ _ _ => trivial⟩ fun _ => ?_
      exact push_flush_q0 _ _ (HoareOk.pure fun _ h => h)

theorem addGlobalEvent_q0 (ty : EvTy) : KeepsQ0 (addGlobalEvent ty) := by
  unfold addGlobalEvent
  split
  · exact ensureAddG_q0
  · refine HoareOk.get_bind fun w hw => ?_
    split
    · exact HoareOk.pure fun _ h => h
    · split
      · exact HoareOk.throw _
      · refine HoareOk.bind (R := fun _ _ => True) ⟨fun _ _ _ _ _ => trivial⟩ fun _ => ?_
        refine HoareOk.bind (R := fun _ _ => True) ⟨fun _ _ _ _ _ => trivial⟩ fun _ => ?_
        exact push_flush_q0 _ _ (HoareOk.pure fun _ h => h)

theorem addComponent_q0 (ty : Nat) : KeepsQ0 (addComponent ty) := by
  unfold addComponent
  refine HoareOk.get_bind fun w hw => ?_
  split
  · exact HoareOk.pure fun _ h => h
  · split
    · exact HoareOk.throw _
    · refine HoareOk.bind (R := fun _ _ => True) ⟨fun _ _ _ _ _ => trivial⟩ fun _ => ?_
      exact HoareOk.bind (sendGlobal_queue _ _) fun _ => HoareOk.pure fun _ h => h

theorem addTargetedEvent_q0 (ty : EvTy) : KeepsQ0 (addTargetedEvent ty) := by
  have hrest : ∀ (k : Key) (P : World → Prop),
      HoareOk P (do sendGlobal .addT { id := k }; pure k : M Key) (fun _ => Q0) := fun k P =>
    HoareOk.bind (HoareOk.pre (sendGlobal_queue _ _) fun _ _ => trivial) fun _ => HoareOk.pure fun _ h => h
  unfold addTargetedEvent
  refine HoareOk.bind (R := fun _ => Q0) ?_ fun kind => ?_
  · split
    · exact HoareOk.bind_inv (addComponent_q0 _) fun _ => HoareOk.pure fun _ h => h
    · exact HoareOk.bind_inv (addComponent_q0 _) fun _ => HoareOk.pure fun _ h => h
    · exact HoareOk.pure fun _ h => h
    · exact HoareOk.pure fun _ h => h
  · refine HoareOk.get_bind fun w hw => ?_
    split
    · exact HoareOk.pure fun _ h => h
    · dsimp only
      split
      · exact HoareOk.throw _
      · refine HoareOk.bind (R := fun _ _ => True) ⟨fun _ _ _ _ _ => trivial⟩ fun _ => ?_
        split
        · refine HoareOk.bind (R := fun _ _ => True) ⟨fun _ _ _ _ _ => trivial⟩ fun w1 => ?_
          split
          · exact HoareOk.bind (R := fun _ _ => True) ⟨fun _ _ _ _ _ => trivial⟩ fun _ => hrest _ _
          · exact hrest _ _
        · refine HoareOk.bind (R := fun _ _ => True) ⟨fun _ _ _ _ _ => trivial⟩ fun w1 => ?_
          split
          · exact HoareOk.bind (R := fun _ _ => True) ⟨fun _ _ _ _ _ => trivial⟩ fun _ => hrest _ _
          · exact hrest _ _
        · exact hrest _ _

theorem addEvent_q0 (ty : EvTy) : KeepsQ0 (addEvent ty) := by
  unfold addEvent
  split
  · exact addTargetedEvent_q0 ty
  · exact addGlobalEvent_q0 ty

theorem sendTargeted_queue (ty : EvTy) (tg : Key) (pay : Payload) :
    HoareOk (fun _ => True) (sendTargeted ty tg pay) (fun _ => Q0) := by
  unfold sendTargeted
  refine HoareOk.bind (R := fun _ _ => True) ⟨fun _ _ _ _ _ => trivial⟩ fun k => ?_
  refine HoareOk.bind (R := fun _ _ => True) ⟨fun _ _ _ _ _ => trivial⟩ fun _ => ?_
  exact flush_q0 _

theorem initQuery_q0 (q : Query) (cfg : Config) : KeepsQ0 (initQuery q cfg) := by
  unfold initQuery
  refine HoareOk.bind_inv (HoareOk.forIn_list_inv fun c cfg => ?_) fun cfg => ?_
  · exact HoareOk.bind_inv (addComponent_q0 c) fun _ => HoareOk.pure fun _ h => h
  · exact HoareOk.get_bind fun _ _ => HoareOk.pure fun _ h => h

theorem initParam_q0 (ps : PSpec) (cfg : Config) : KeepsQ0 (initParam ps cfg) := by
  unfold initParam
  split
  · split
    · refine HoareOk.bind_inv (addTargetedEvent_q0 _) fun _ => ?_
      exact HoareOk.bind_inv (initQuery_q0 _ _) fun r => HoareOk.pure fun _ h => h
    · exact HoareOk.bind_inv (addGlobalEvent_q0 _) fun _ => HoareOk.pure fun _ h => h
  · exact HoareOk.bind_inv (initQuery_q0 _ _) fun r => HoareOk.pure fun _ h => h
  · exact HoareOk.bind_inv (initQuery_q0 _ _) fun r => HoareOk.pure fun _ h => h
  · exact HoareOk.bind_inv (initQuery_q0 _ _) fun r => HoareOk.pure fun _ h => h
  · dsimp only
    refine HoareOk.bind_inv (HoareOk.forIn_list_inv fun ev idxs => ?_) fun idxs => ?_
    · exact HoareOk.bind_inv (addEvent_q0 ev) fun _ => HoareOk.pure fun _ h => h
    · refine HoareOk.bind_inv (HoareOk.forIn_list_inv fun x cfg => ?_) fun cfg => HoareOk.pure fun _ h => h
      split <;> exact HoareOk.pure fun _ h => h
  · exact HoareOk.pure fun _ h => h

theorem addHandler_q0 (hs : HSpec) : KeepsQ0 (addHandler hs) := by
  unfold addHandler
  extract_lets cfg0 params0 jp
  have hjp : KeepsQ0 (jp ()) := by
    unfold jp
    refine HoareOk.bind_inv (HoareOk.forIn_list_inv fun ps s => ?_) ?_
    · exact HoareOk.bind_inv (initParam_q0 _ _) fun r => HoareOk.pure fun _ h => h
    · rintro ⟨cfg, params⟩
      dsimp only
      split
      · exact HoareOk.pure fun _ h => h
      · exact HoareOk.pure fun _ h => h
      · split
        · exact HoareOk.pure fun _ h => h
        · split
          · exact HoareOk.get_bind fun _ _ => HoareOk.pure fun _ h => h
          · refine HoareOk.get_bind fun w hw => ?_
            split
            · exact HoareOk.throw _
            · refine HoareOk.bind (R := fun _ _ => True) ⟨fun _ _ _ _ _ => trivial⟩ fun _ => ?_
              refine HoareOk.bind (R := fun _ _ => True) ⟨fun _ _ _ _ _ => trivial⟩ fun _ => ?_
              refine HoareOk.bind (R := fun _ _ => True) ⟨fun _ _ _ _ _ => trivial⟩ fun _ => ?_
              refine HoareOk.bind (R := fun _ _ => True) ⟨fun _ _ _ _ _ => trivial⟩ fun _ => ?_
              refine HoareOk.bind (R := fun _ _ => True) ⟨fun _ _ _ _ _ => trivial⟩ fun _ => ?_
              refine HoareOk.bind (R := fun _ _ => True) ⟨fun _ _ _ _ _ => trivial⟩ fun _ => ?_
              exact HoareOk.bind (sendGlobal_queue _ _) fun _ => HoareOk.pure fun _ h => h
  split
  · refine HoareOk.get_bind fun w _ => ?_
    split
    · exact HoareOk.pure fun _ h => h
    · exact hjp
  · exact hjp

theorem removeHandler_q0 (k : Key) : KeepsQ0 (removeHandler k) := by
  refine ⟨fun w hw b w' hr => ?_⟩
  rw [removeHandler_eq] at hr
  split at hr
  · cases hr; exact hw
  · generalize hsend : (sendGlobal .remH { id := k }).run.run w = r at hr
    obtain ⟨(e|u), w1⟩ := r
    · cases hr
    · simp only at hr
      split at hr
      · cases hr
      · next h hs' hrem =>
        split at hr
        · cases hr
        · cases hr
          obtain ⟨-, -, -, -, -, -, -, -, h5, -⟩ := removeHandlerPure_frame w1 k h
          exact h5.trans ((sendGlobal_queue _ _).run w trivial u w1 hsend)


/-! ### service lemmas: from `PendingOK False` to `Quiescent` (normal returns of top-level operations) -/

/-- what `KeepsTop` says about normal returns -/
abbrev TopOk {α : Type} (m : M α) : Prop :=
  Hoare (Guarded fun w => WInv w ∧ Quiescent w) m (fun _ => Guarded fun w => WInv w ∧ Quiescent w) (fun _ _ => True)

/-- a function that keeps the reservations covered up to `False` and leaves an empty queue keeps the world
    quiescent -/
theorem topOk_of_hp {α : Type} {m : M α} (hmono : SlabMono m) (h : HP False False m) (hq : KeepsQ0 m) : TopOk m := by
  refine ⟨fun w hw => ?_⟩
  generalize hr : m.run.run w = res
  obtain ⟨(e|a), w'⟩ := res
  · trivial
  · intro hs
    obtain ⟨hi, hq0⟩ := hw (hmono.small hr hs)
    have hgp : GP False w' := h.ok (fun _ => ⟨⟨hi, hq0.reservedSome⟩, hq0.pendingOK False⟩) hr
    exact ⟨(hgp hs).1.1, (hgp hs).2.quiescent (hq.run w hq0.1 a w' hr)⟩

section registration
variable (hdel : Obl.glue_deliverOne) (hgev : ∀ g : Group, Obl.regGev_keeps g)
 

include hdel hgev in
/-- **`World::spawn` keeps the world quiescent** (normal return): `reserve` makes the reservation, the `Spawn` event
    `sendGlobal` pushes covers it, the flush materialises it -/
theorem opSpawn_topOk : TopOk opSpawn := by
  refine ⟨fun w hw => ?_⟩
  generalize hr : opSpawn.run.run w = res
  obtain ⟨(e|id), w'⟩ := res
  · trivial
  · intro hs
    obtain ⟨hi, hq0⟩ := hw (SlabMono.small (fun _ => opSpawn_sl) hr hs)
    unfold opSpawn at hr
    rw [run_bind] at hr
    generalize hres : reserve.run.run w = r at hr
    obtain ⟨(e|k), w0⟩ := r
    · cases hr
    · obtain ⟨hr0, -⟩ := reserve_spec hq0.2 hres
      have hw0 : WInv w0 ∧ w0.queue = [] := by
        rw [reserve_run] at hres
        cases hk : w.entities.nextKey w.resIndex with
        | key k0 i' => rw [hk] at hres; cases hres; exact ⟨hi.frame (by releq), hq0.1⟩
        | exhausted => rw [hk] at hres; cases hres
        | badState => rw [hk] at hres; cases hres
      simp only at hr
      rw [run_bind] at hr
      generalize hsend : (sendGlobal .spawn { ent := k }).run.run w0 = r at hr
      obtain ⟨(e|u), w3⟩ := r
      · cases hr
      · simp only [run_bind, run_modify, run_pure] at hr
        cases hr
        have hgp : GP False w3 :=
          (sendGlobal_hp (E := False) hdel hgev .spawn _).ok
            (fun _ => ⟨⟨hw0.1, _, hr0⟩, _, hr0, fun _ => .inl (.inr rfl)⟩) hsend
        have hq3 : w3.queue = [] := (sendGlobal_queue _ _).run w0 trivial u w3 hsend
        have hs3 : Small w3 := hs
        obtain ⟨hqq, hrr⟩ := (hgp hs3).2.quiescent hq3
        exact ⟨(hgp hs3).1.1.frame (by releq), hqq, hrr.frame rfl rfl rfl⟩

end registration


/-! ### the G6 fields of the assembler's bundle `Pieces` (V7 `Inv/Glue2.lean`), verbatim

Hypotheses left: `Obl.glue_deliverOne` (from the primitives' `KeepsW`, `Glue.lean`) and the step obligations
`Obl.regGev_keeps`, `Obl.regComp_keeps`, `Obl.regTev_keeps`, `Obl.registerAll_keeps` of the groups G1–G5.  The functional
facts come from V6's `Inv/Facts.lean` / `Inv/FactsConfig.lean` (`addGlobalEvent_live_guarded`, `addComponent_live`,
`initParam_configRel'`), imported — `Obl.addGlobalEvent_live` and `Obl.initParam_configRel` are false as stated. -/

/-- `Pieces.dropComp_quiescent'` (the hypothesis `info.id = k` is not needed) -/
theorem dropComp_quiescent' : ∀ (w : World) (k : Key) (info : CompInfo) (comps' : SlotMap CompInfo), WInvMid w →
    Quiescent w → CompUnused w k info → info.id = k → w.comps.remove k = some (info, comps') →
    HoareOk (fun w1 => w1 = Step.dropComp w k comps') (dropCompTail info) (fun _ w' => Quiescent w') :=
  fun w k info comps' h1 h2 h3 _ h4 => dropComp_quiescent w k info comps' h1 h2 h3 h4

section pieces
variable (hdel : Obl.glue_deliverOne) (hgev : ∀ g : Group, Obl.regGev_keeps g)
  (hcomp : ∀ g : Group, Obl.regComp_keeps g) (htev : ∀ g : Group, Obl.regTev_keeps g)
  (hreg : ∀ g : Group, Obl.registerAll_keeps g)

example : Obl.reserve_reserved := reserve_reserved
example : Obl.bumpCell_reserved := bumpCell_reserved
example : Obl.spawnAll_reserved := spawnAll_reserved
example : Obl.traverseInsert_reserved := traverseInsert_reserved
example : Obl.traverseRemove_reserved := traverseRemove_reserved
example : Obl.moveEntity_reserved := moveEntity_reserved
example : Obl.fixedDespawn_reserved := fixedDespawn_reserved
example : Obl.setGen_quiescent := setGen_quiescent
example : Obl.flush_pending := flush_pending hdel
example : Obl.sendGlobal_pending := sendGlobal_pending hdel hgev
example : Obl.addGlobalEvent_pending := addGlobalEvent_pending hdel hgev
example : Obl.addComponent_pending := addComponent_pending hdel hgev hcomp
example : ∀ ty (E : Prop), ty.targeted = true → KeepsP E E (addTargetedEvent ty) :=
  addTargetedEvent_pending_partial hdel hgev hcomp htev
example : ∀ ty tg pay (E : Prop), ty.targeted = true → KeepsP E E (sendTargeted ty tg pay) :=
  sendTargeted_pending_partial hdel hgev hcomp htev
example : ∀ hs (E : Prop), hs.Valid → KeepsP E E (addHandler hs) :=
  addHandler_pending_partial hdel hgev hcomp htev hreg
example : Obl.removeHandler_pending := removeHandler_pending hdel hgev
-- not in `Pieces`, section D nevertheless
example : Obl.spawnAll_noPanic := spawnAll_noPanic
example : Obl.spawnAll_clears := spawnAll_clears
example : Obl.dropComp_quiescent := dropComp_quiescent
example : Obl.runAct_pending := runAct_pending
example : Obl.runHandler_pending := runHandler_pending
example : Obl.runHandler_spawn_not_taken := runHandler_spawn_not_taken
example : Obl.deliverOne_pending := deliverOne_pending
example : Obl.deliverOne_gevs := deliverOne_gevs
example : Obl.ensureAddG_pending := ensureAddG_pending hdel hgev
example : Obl.sendGlobal_queue := sendGlobal_queue

end pieces

end InvV5
end Evenio
