import Evenio.Proofs.Inv.Glue
/-! # G2 — the storage group (seed)

`moveEntity` end to end, as the model for the other storage primitives:
* normal return: `StoreOk` by the simulation lemma `world_storeOk_move` (Props/C02World.lean), `ids.length ≤ cap` from the
  closed forms `moveEntity_same_run` / `moveEntity_ne_run` (Proofs/StorageRefine.lean) and
  `reserveOne_keeps_len_le_cap` (Props/C10.lean);
* panic exit (`internal:swap_remove index out of bounds`): it is raised BEFORE the first write to a field the
  invariant reads (`moveEntity_panic_frame`), so ALL groups hold again — this lemma serves every worker. -/
namespace Evenio
open SparseMap (swapRemove)

/-! ### functions that never panic -/

/-- `m` exits with `ub` / `assert` or returns -/
abbrev NoPanic {α : Type} (m : M α) : Prop :=
  Hoare (fun _ => True) m (fun _ _ => True) (fun e _ => e.isPanic = false)

theorem NoPanic.intro {α : Type} {m : M α} (h : ∀ w e w', m.run.run w = (.error e, w') → e.isPanic = false) :
    NoPanic m := by
  refine ⟨fun w _ => ?_⟩
  generalize hr : m.run.run w = res
  obtain ⟨(e|a), w'⟩ := res
  · exact h w e w' hr
  · trivial

theorem NoPanic.bind {α β : Type} {m : M α} {f : α → M β} (hm : NoPanic m) (hf : ∀ a, NoPanic (f a)) :
    NoPanic (m >>= f) := Hoare.bind hm hf

theorem NoPanic.forIn_list {β γ : Type} {l : List γ} {b : β} {f : γ → β → M (ForInStep β)}
    (hf : ∀ a b, NoPanic (f a b)) : NoPanic (forIn l b f) :=
  Hoare.forIn_list_inv hf

theorem noPanic_pure {α : Type} (a : α) : NoPanic (pure a : M α) := Hoare.pure fun _ _ => trivial
theorem noPanic_ubErr {α : Type} (s : String) : NoPanic (ubErr s : M α) := Hoare.ubErr fun _ _ => rfl
theorem noPanic_get : NoPanic (get : M World) := ⟨fun _ _ => trivial⟩
theorem noPanic_set (w : World) : NoPanic (set w : M PUnit) := ⟨fun _ _ => trivial⟩
theorem noPanic_modify (f : World → World) : NoPanic (modify f : M PUnit) := ⟨fun _ _ => trivial⟩
theorem noPanic_modifyGet {α : Type} (f : World → α × World) : NoPanic (modifyGet f : M α) := ⟨fun _ _ => trivial⟩

theorem noPanic_dbgAssert (c : Bool) (s : String) : NoPanic (dbgAssert c s) := by
  refine NoPanic.intro fun w e w' h => ?_
  rw [dbgAssert_run] at h
  split at h <;> cases h
  rfl

theorem noPanic_getArch (i : Nat) (s : String) : NoPanic (getArch i s) := by
  unfold getArch
  refine NoPanic.bind noPanic_get fun w => ?_
  split
  · exact noPanic_pure _
  · exact noPanic_ubErr _

theorem noPanic_setArch (a : Arch) : NoPanic (setArch a) := noPanic_modify _

theorem noPanic_setLoc (id : Key) (s : String) (f : Loc → Loc) : NoPanic (setLoc id s f) := by
  unfold setLoc
  refine NoPanic.bind noPanic_get fun w => ?_
  split
  · exact noPanic_set _
  · exact noPanic_ubErr _

theorem noPanic_dropCellIdx (c : Nat) (x : Cell) : NoPanic (dropCellIdx c x) := by
  refine NoPanic.intro fun w e w' h => ?_
  unfold dropCellIdx at h
  simp only [run_bind, run_get, run_dropCell] at h
  cases h

theorem noPanic_handlerRefresh (hk : Key) (a : Arch) : NoPanic (handlerRefresh hk a) := by
  refine NoPanic.intro fun w e w' h => ?_
  rw [handlerRefresh_run] at h
  split at h
  · cases h; rfl
  · split at h <;> cases h
    rfl

theorem noPanic_handlerRemoveArch (hk : Key) (a : Arch) : NoPanic (handlerRemoveArch hk a) := by
  unfold handlerRemoveArch
  refine NoPanic.bind noPanic_get fun w => ?_
  split
  · exact noPanic_ubErr _
  · exact noPanic_set _

/-- structural proof of `NoPanic` -/
macro "nopanic" : tactic => `(tactic| repeat' first
  | exact noPanic_pure _
  | exact noPanic_ubErr _
  | exact noPanic_get
  | exact noPanic_set _
  | exact noPanic_modify _
  | exact noPanic_dbgAssert _ _
  | exact noPanic_getArch _ _
  | exact noPanic_setArch _
  | exact noPanic_setLoc _ _ _
  | exact noPanic_dropCellIdx _ _
  | exact noPanic_handlerRefresh _ _
  | exact noPanic_handlerRemoveArch _ _
  | (with_reducible refine NoPanic.bind ?_ fun _ => ?_)
  | (with_reducible refine NoPanic.forIn_list fun _ _ => ?_)
  | dsimp only
  | split)

/-! ### the panic exit of `moveEntity` -/

/-- `w1` agrees with `w` on every field `WInvMid` reads (a conjunction of equations between projections, so that
    writes to other fields keep it definitionally) -/
def Fr (w w1 : World) : Prop :=
  w1.entities = w.entities ∧ w1.comps = w.comps ∧ w1.gevs = w.gevs ∧ w1.tevs = w.tevs ∧ w1.handlers = w.handlers ∧
  w1.byGlobal = w.byGlobal ∧ w1.insertCounter = w.insertCounter ∧ w1.byInsertOrder = w.byInsertOrder ∧
  w1.archs = w.archs ∧ w1.removedIds = w.removedIds ∧ w1.resIndex = w.resIndex ∧ w1.resCount = w.resCount

theorem Fr.refl (w : World) : Fr w w := ⟨rfl, rfl, rfl, rfl, rfl, rfl, rfl, rfl, rfl, rfl, rfl, rfl⟩

theorem Fr.relEq {w w1 : World} (h : Fr w w1) : RelEq w w1 := by
  obtain ⟨h1, h2, h3, h4, h5, h6, h7, h8, h9, h10, -, -⟩ := h
  exact ⟨h1, h2, h3, h4, h5, h6, h7, h8, h9, h10⟩

/-- the invariant holds again in a state that agrees with `w` on what it reads -/
theorem Fr.winvMid {w w1 : World} (h : Fr w w1) (hw : WInvMid w) : WInvMid w1 :=
  hw.frame h.relEq h.2.2.2.2.2.2.2.2.2.2.1 h.2.2.2.2.2.2.2.2.2.2.2

theorem ubErr_frk {α : Type} (w : World) (s : String) : Keeps (Fr w) (ubErr s : M α) := Keeps.throw _
theorem getArch_frk (w : World) (i : Nat) (s : String) : Keeps (Fr w) (getArch i s) := by
  unfold getArch; keeps; exact ubErr_frk _ _
theorem dropCellIdx_frk (w : World) (c : Nat) (x : Cell) : Keeps (Fr w) (dropCellIdx c x) := by
  unfold dropCellIdx dropCell; keeps
theorem freshEpoch_frk (w : World) : Keeps (Fr w) freshEpoch := by unfold freshEpoch; keeps

/-- **`moveEntity` raises its only panic before it writes anything the invariant reads** -/
theorem moveEntity_panic_frame (src : Loc) (dst : Nat) (new : List (Nat × Cell)) (w : World) :
    Hoare (Fr w) (moveEntity src dst new) (fun _ _ => True) (fun e w' => e.isPanic = true → Fr w w') := by
  have weaken : ∀ {α : Type} {m : M α}, NoPanic m →
      Hoare (Fr w) m (fun _ _ => True) (fun e w' => e.isPanic = true → Fr w w') := fun hm =>
    Hoare.post (Hoare.pre hm fun _ _ => trivial) (fun _ _ _ => trivial)
      (fun e _ he hp => by rw [he] at hp; cases hp)
  have keep : ∀ {α : Type} {m : M α}, Keeps (Fr w) m →
      Hoare (Fr w) m (fun _ => Fr w) (fun e w' => e.isPanic = true → Fr w w') := fun hm =>
    Hoare.of_keeps hm fun _ _ h _ => h
  unfold moveEntity
  split
  · -- the same-archetype branch never panics
    refine weaken ?_
    nopanic
  · refine Hoare.bind_inv (keep (getArch_frk w _ _)) fun sa => ?_
    refine Hoare.bind_inv (keep (getArch_frk w _ _)) fun da => ?_
    refine Hoare.bind_inv (keep (freshEpoch_frk w)) fun ep => ?_
    split
    split
    · exact (keep (ubErr_frk w _)).post (fun _ _ _ => trivial) (fun _ _ h => h)
    · refine Hoare.bind_inv (keep ?_) fun _ => ?_
      · refine Keeps.forIn_list fun x _ => ?_
        obtain ⟨c, x⟩ := x
        exact Keeps.bind (dropCellIdx_frk w c x) fun _ => Keeps.pure _
      split
      · exact Hoare.throw fun _ h _ => h
      · -- after the check nothing panics
        refine weaken ?_
        nopanic

/-- on a panic exit of `moveEntity` the whole invariant holds again -/
theorem moveEntity_panic_winvMid {src : Loc} {dst : Nat} {new : List (Nat × Cell)} {w w' : World} {c : String}
    (hw : WInvMid w) (hr : (moveEntity src dst new).run.run w = (.error (.panic c), w')) : WInvMid w' :=
  ((moveEntity_panic_frame src dst new w).err (Fr.refl w) hr rfl).winvMid hw

/-! ### `moveEntity` keeps G2 -/

theorem assignAll_ids_cap {a a' : Arch} {row : Nat} {new : List (Nat × Cell)} {dr : List Cell}
    (h : Store.assignAll a row new = some (a', dr)) : a'.ids = a.ids ∧ a'.cap = a.cap := by
  induction new generalizing a dr with
  | nil => simp only [Store.assignAll, Option.some.injEq, Prod.mk.injEq] at h; rw [← h.1]; exact ⟨rfl, rfl⟩
  | cons p new ih =>
    obtain ⟨c, x⟩ := p
    simp only [Store.assignAll] at h
    split at h
    · cases h
    · split at h
      · cases h
      · split at h
        · rename_i a1 dr1 hrec
          simp only [Option.some.injEq, Prod.mk.injEq] at h
          obtain ⟨rfl, _⟩ := h
          have := ih hrec
          exact this
        · cases h

/-- a value written with `Slab.set` is the only new value -/
theorem Slab.get_set_cases {α : Type} {s : Slab α} {i j : Nat} {a b : α} (h : (s.set i a).get j = some b) :
    (j = i ∧ b = a ∧ (s.get i).isSome = true) ∨ (j ≠ i ∧ s.get j = some b) := by
  rw [Slab.get_set] at h
  split at h
  · next hj =>
    cases hg : s.get i with
    | none => rw [hg] at h; cases h
    | some c => rw [hg] at h; cases h; exact .inl ⟨hj, rfl, rfl⟩
  · next hj => exact .inr ⟨hj, h⟩

/-- `ids.length ≤ cap` after a normal return of `moveEntity` -/
theorem moveEntity_ok_cap {src : Loc} {dst : Nat} {new : List (Nat × Cell)} {w w' : World}
    (hcap : ∀ i a, w.archs.get i = some a → a.ids.length ≤ a.cap)
    (hr : (moveEntity src dst new).run.run w = (.ok (), w')) :
    ∀ i a, w'.archs.get i = some a → a.ids.length ≤ a.cap := by
  intro i b hb
  by_cases hne : src.arch = dst
  · subst hne
    obtain ⟨a, a', dr, ha, has, -, rfl⟩ := moveEntity_same_run hr
    obtain ⟨e1, e2⟩ := assignAll_ids_cap has
    have hb' : (w.archs.set a'.index a').get i = some b := hb
    rcases Slab.get_set_cases hb' with ⟨-, rfl, -⟩ | ⟨-, hb''⟩
    · rw [e1, e2]; exact hcap _ _ ha
    · exact hcap _ _ hb''
  · obtain ⟨sa, da, r, eid, m⟩ := moveEntity_ne_run hne hr
    rw [m.hw] at hb
    have hb' : ((w.archs.set sa.index { sa with cols := r.src, ids := swapRemove sa.ids src.row }).set da.index
        { da with cols := r.dst, ids := da.ids ++ [eid], cap := (da.reserveOne w.epochCtr).1.cap,
                  epoch := (da.reserveOne w.epochCtr).1.epoch }).get i = some b := hb
    rcases Slab.get_set_cases hb' with ⟨-, rfl, -⟩ | ⟨-, hb''⟩
    · -- the destination: `reserve_one` made room
      have := reserveOne_keeps_len_le_cap da w.epochCtr eid (hcap _ _ m.hda)
      have hids : (da.reserveOne w.epochCtr).1.ids = da.ids := by
        unfold Arch.reserveOne; split <;> rfl
      simp only [hids] at this
      exact this
    · rcases Slab.get_set_cases hb'' with ⟨-, rfl, -⟩ | ⟨-, hb3⟩
      · -- the source lost a row
        show (swapRemove sa.ids src.row).length ≤ sa.cap
        rw [SparseMap.length_swapRemove]
        exact Nat.le_trans (Nat.sub_le _ _) (hcap _ _ m.hsa)
      · exact hcap _ _ hb3

/-- **`moveEntity` keeps the storage group** -/
theorem moveEntity_keeps_store : Obl.moveEntity_keeps .store := by
  intro src dst new
  refine KeepsG.of_run (fun _ => moveEntity_sl src dst new) fun w hw r w' hr _ => ?_
  cases r with
  | error e =>
    intro hp
    cases e with
    | panic c => exact (moveEntity_panic_winvMid hw hr).store
    | ub s => cases hp
    | assert s => cases hp
  | ok u =>
    have ok' : StoreOk w' := world_storeOk_move hw.1.storeOk hr
    exact ⟨ok'.congr rfl rfl, moveEntity_ok_cap hw.1.store.cap hr⟩

/-! ## G2, the rest of sections A and B (worker 2)

Helpers live in the namespace `Evenio.InvV2`; the obligations are proved under the names `Evenio.<piece>_keeps_store`. -/

namespace InvV2

/-- the per-archetype part of the storage invariant -/
structure ArchStoreOK (i : Nat) (a : Arch) : Prop where
  index : a.index = i
  cols_len : a.cols.length = a.comps.length
  col_len : ∀ col ∈ a.cols, col.length = a.ids.length
  sorted : a.comps.Pairwise (· < ·)
  cap : a.ids.length ≤ a.cap

/-- **the storage group without the abstraction function**: every archetype is well shaped, the entity slot map is
    well formed, and locations and rows are in bijection -/
theorem storeInv_iff {A : Slab Arch} {E : SlotMap Loc} :
    StoreInv' A E ↔
      (∀ i a, A.get i = some a → ArchStoreOK i a) ∧ E.WF ∧
      ∀ e l, E.get e = some l ↔ ∃ a, A.get l.arch = some a ∧ a.ids[l.row]? = some e := by
  constructor
  · rintro ⟨ok, cap⟩
    refine ⟨fun i a hia => ?_, ok.ents, fun e l => ?_⟩
    · have hA : (absStore (storeWorld A E)).archs[i]? = some (absArch a) := absStore_arch_of_get hia
      have hwf := ok.wf.arch _ (List.mem_of_getElem? hA)
      exact ⟨ok.idx i a hia, hwf.cols_len, hwf.col_len, hwf.sorted, cap i a hia⟩
    · have hE : E.WF := ok.ents
      rw [← SlotMap.mem_toList_iff hE]
      refine (ok.wf.bij e l).trans ?_
      unfold Store.rowId
      constructor
      · intro hr
        cases hA : (absStore (storeWorld A E)).archs[l.arch]? with
        | none => rw [hA] at hr; cases hr
        | some B =>
          rw [hA] at hr
          rcases absStore_arch_cases hA with ⟨a, ha, rfl⟩ | ⟨-, rfl⟩
          · exact ⟨a, ha, hr⟩
          · simp at hr
      · rintro ⟨a, ha, hr⟩
        have hA : (absStore (storeWorld A E)).archs[l.arch]? = some (absArch a) := absStore_arch_of_get ha
        rw [hA]; exact hr
  · rintro ⟨harch, hE, hbij⟩
    refine ⟨⟨fun i a hia => (harch i a hia).index, hE, ?_, SlotMap.toList_keys_nodup _, fun e l => ?_⟩,
      fun i a hia => (harch i a hia).cap⟩
    · intro B hB
      obtain ⟨i, hi⟩ := List.getElem?_of_mem hB
      rcases absStore_arch_cases hi with ⟨a, ha, rfl⟩ | ⟨-, rfl⟩
      · have := harch i a ha
        exact ⟨this.cols_len, this.col_len, this.sorted⟩
      · exact ⟨rfl, by simp, by simp⟩
    · show (e, l) ∈ E.toList ↔ _
      rw [SlotMap.mem_toList_iff hE, hbij]
      unfold Store.rowId
      constructor
      · rintro ⟨a, ha, hr⟩
        have hA : (absStore (storeWorld A E)).archs[l.arch]? = some (absArch a) := absStore_arch_of_get ha
        rw [hA]; exact hr
      · intro hr
        cases hA : (absStore (storeWorld A E)).archs[l.arch]? with
        | none => rw [hA] at hr; cases hr
        | some B =>
          rw [hA] at hr
          rcases absStore_arch_cases hA with ⟨a, ha, rfl⟩ | ⟨-, rfl⟩
          · exact ⟨a, ha, hr⟩
          · simp at hr

/-- **congruence**: the archetypes of `A'` are well shaped and `A'` has the same non-empty id lists as `A` -/
theorem storeInv_congr {A A' : Slab Arch} {E : SlotMap Loc} (h : StoreInv' A E)
    (hok : ∀ i a', A'.get i = some a' → ArchStoreOK i a')
    (h1 : ∀ i a', A'.get i = some a' → a'.ids = [] ∨ ∃ a, A.get i = some a ∧ a.ids = a'.ids)
    (h2 : ∀ i a, A.get i = some a → a.ids = [] ∨ ∃ a', A'.get i = some a' ∧ a'.ids = a.ids) :
    StoreInv' A' E := by
  obtain ⟨-, hE, hbij⟩ := storeInv_iff.1 h
  refine storeInv_iff.2 ⟨hok, hE, fun e l => (hbij e l).trans ⟨?_, ?_⟩⟩
  · rintro ⟨a, ha, hr⟩
    rcases h2 _ a ha with h0 | ⟨a', ha', he⟩
    · rw [h0] at hr; simp at hr
    · exact ⟨a', ha', by rw [he]; exact hr⟩
  · rintro ⟨a', ha', hr⟩
    rcases h1 _ a' ha' with h0 | ⟨a, ha, he⟩
    · rw [h0] at hr; simp at hr
    · exact ⟨a, ha, by rw [he]; exact hr⟩

/-- one archetype is overwritten by one with the same ids -/
theorem storeInv_set {A : Slab Arch} {E : SlotMap Loc} (h : StoreInv' A E) {i : Nat} {a a' : Arch}
    (ha : A.get i = some a) (hok : ArchStoreOK i a') (hids : a'.ids = a.ids) {j : Nat} (hj : j = i) :
    StoreInv' (A.set j a') E := by
  rw [hj]
  have hall := (storeInv_iff.1 h).1
  refine storeInv_congr h (fun j b hb => ?_) (fun j b hb => ?_) (fun j b hb => ?_)
  · rcases Slab.get_set_cases hb with ⟨rfl, rfl, -⟩ | ⟨-, hb'⟩
    · exact hok
    · exact hall j b hb'
  · rcases Slab.get_set_cases hb with ⟨rfl, rfl, -⟩ | ⟨-, hb'⟩
    · exact .inr ⟨a, ha, hids.symm⟩
    · exact .inr ⟨b, hb', rfl⟩
  · by_cases hj : j = i
    · subst hj
      rw [ha] at hb; cases hb
      exact .inr ⟨a', Slab.get_set_same ha a', hids⟩
    · exact .inr ⟨b, by rw [Slab.get_set_other _ hj]; exact hb, rfl⟩

/-! ### `bumpCell` -/

theorem bumpCell_run {ai row c : Nat} {w w' : World} (h : (bumpCell ai row c).run.run w = (.ok (), w')) :
    ∃ a i col x, w.archs.get ai = some a ∧ a.cols[i]? = some col ∧ col[row]? = some x ∧
      w' = { w with archs := w.archs.set a.index { a with cols := a.cols.set i (col.set row { x with v := x.v + 1 }) } } := by
  unfold bumpCell at h
  rw [run_bind, run_getArch'] at h
  cases ha : w.archs.get ai with
  | none => rw [ha] at h; cases h
  | some a =>
    rw [ha] at h
    dsimp only at h
    split at h
    · cases h
    · next i hi =>
      split at h
      · cases h
      · next col hcol =>
        split at h
        · cases h
        · next x hx =>
          rw [run_setArch] at h
          cases h
          exact ⟨a, i, col, x, rfl, hcol, hx, rfl⟩

theorem noPanic_bumpCell (ai row c : Nat) : NoPanic (bumpCell ai row c) := by
  unfold bumpCell
  nopanic

theorem _root_.Evenio.bumpCell_keeps_store : Obl.bumpCell_keeps .store := by
  intro ai row c
  refine KeepsG.of_run (fun _ => bumpCell_sl ai row c) fun w hw r w' hr _ => ?_
  cases r with
  | error e =>
    intro hp
    have := (noPanic_bumpCell ai row c).err trivial hr
    rw [this] at hp; cases hp
  | ok u =>
    obtain ⟨a, i, col, x, ha, hcol, hx, rfl⟩ := bumpCell_run hr
    have hs : StoreInv' w.archs w.entities := hw.store
    have hok := (storeInv_iff.1 hs).1 ai a ha
    show StoreInv' (w.archs.set a.index _) w.entities
    refine storeInv_set hs ha (a' := { a with cols := a.cols.set i (col.set row { x with v := x.v + 1 }) })
      ⟨hok.index, ?_, ?_, hok.sorted, hok.cap⟩ rfl hok.index
    · show (a.cols.set i _).length = _
      rw [List.length_set]; exact hok.cols_len
    · intro col' hc'
      show col'.length = a.ids.length
      rcases List.mem_or_eq_of_mem_set hc' with hm | rfl
      · exact hok.col_len _ hm
      · rw [List.length_set]; exact hok.col_len _ (List.mem_of_getElem? hcol)

/-! ### `removeEntity` -/


theorem noPanic_removeEntity (loc : Loc) : NoPanic (removeEntity loc) := by
  unfold removeEntity
  nopanic

theorem _root_.Evenio.removeEntity_keeps_store : Obl.removeEntity_keeps .store := by
  intro loc
  refine KeepsG.of_run (fun _ => removeEntity_sl loc) fun w hw r w' hr _ => ?_
  cases r with
  | error e =>
    intro hp
    have := (noPanic_removeEntity loc).err trivial hr
    rw [this] at hp; cases hp
  | ok u =>
    have ok' : StoreOk w' := world_storeOk_remove hw.1.storeOk hr
    refine ⟨ok'.congr rfl rfl, fun i b hb => ?_⟩
    obtain ⟨a, cols, dr, id, m⟩ := removeEntity_run hr
    rw [m.hw] at hb
    have hb' : (w.archs.set a.index { a with cols := cols, ids := swapRemove a.ids loc.row }).get i = some b := hb
    rcases Slab.get_set_cases hb' with ⟨-, rfl, -⟩ | ⟨-, hb''⟩
    · show (swapRemove a.ids loc.row).length ≤ a.cap
      rw [SparseMap.length_swapRemove]
      exact Nat.le_trans (Nat.sub_le _ _) (hw.1.store.cap _ _ m.ha)
    · exact hw.1.store.cap _ _ hb''

/-! ### `spawnAll` -/


theorem noPanic_archSpawn (id : Key) : NoPanic (archSpawn id) := by
  unfold archSpawn
  nopanic
  all_goals exact noPanic_modifyGet _

/-- the only panic of the step of `spawnAll` ("capacity") is raised before anything is written -/
theorem spawnStep_panic_same (w : World) :
    Hoare (fun w0 => w0 = w) spawnStep (fun _ _ => True) (fun e w' => e.isPanic = true → w' = w) := by
  unfold spawnStep
  refine Hoare.get_bind fun w0 h0 => ?_
  split
  · exact Hoare.throw fun _ h _ => h
  · have : ∀ {α : Type} {m : M α}, NoPanic m →
        Hoare (fun w0 => w0 = w) m (fun _ _ => True) (fun e w' => e.isPanic = true → w' = w) := fun hm =>
      Hoare.post (Hoare.pre hm fun _ _ => trivial) (fun _ _ _ => trivial)
        (fun e _ he hp => by rw [he] at hp; cases hp)
    refine this ?_
    have := noPanic_archSpawn
    nopanic
    exact this _

/-- the invariant of the loop of `spawnAll` -/
def SpawnI (w : World) : Prop := StoreInv w ∧ (absStore w).HasEmpty

theorem spawnStep_store : Hoare SpawnI spawnStep (fun _ => SpawnI) (PanicOnly SpawnI) := by
  refine ⟨fun w hw => ?_⟩
  generalize hr : spawnStep.run.run w = res
  obtain ⟨(e|u), w'⟩ := res
  · intro hp
    have := (spawnStep_panic_same w).err rfl hr hp
    rw [this]; exact hw
  · have ok : StoreOk w := hw.1.storeOk rfl rfl
    obtain ⟨ok', he'⟩ := world_storeOk_spawnStep ok hw.2 hr
    refine ⟨⟨ok'.congr rfl rfl, fun i b hb => ?_⟩, he'⟩
    obtain ⟨k, ents1, a0, -, -, ha0, -, -, he⟩ := spawnStep_sim ok.idx ok.ents hr
    rw [he] at hb
    have hb' : (w.archs.set a0.index { a0 with ids := a0.ids ++ [k], cap := (a0.reserveOne w.epochCtr).1.cap, epoch := (a0.reserveOne w.epochCtr).1.epoch }).get i = some b := hb
    rcases Slab.get_set_cases hb' with ⟨-, rfl, -⟩ | ⟨-, hb''⟩
    · have := reserveOne_keeps_len_le_cap a0 w.epochCtr k (hw.1.cap _ _ ha0)
      have hids : (a0.reserveOne w.epochCtr).1.ids = a0.ids := by
        unfold Arch.reserveOne; split <;> rfl
      simp only [hids] at this
      exact this
    · exact hw.1.cap _ _ hb''

theorem spawnAll_store : Hoare SpawnI spawnAll (fun _ => SpawnI) (PanicOnly SpawnI) := by
  unfold spawnAll
  refine Hoare.get_bind fun w hw => ?_
  refine Hoare.bind_inv (Hoare.forIn_range_inv fun _ _ => ?_) fun _ => ?_
  · refine Hoare.congr_run (m := spawnStep >>= fun _ => pure (ForInStep.yield PUnit.unit))
      (Hoare.bind_inv spawnStep_store fun _ => Hoare.pure fun _ h => h) fun w0 => ?_
    unfold spawnStep
    simp only [run_bind, run_get]
    cases hins : w0.entities.insertWith (fun _ => Loc.NULL) with
    | none => rfl
    | some p =>
      obtain ⟨k, ents⟩ := p
      simp only [run_bind, run_set]
      generalize (archSpawn k).run.run _ = r
      obtain ⟨(e|loc), w2⟩ := r <;> rfl
  · exact Hoare.of_keeps_panicOnly (Keeps.modify fun _ h => h)

theorem _root_.Evenio.spawnAll_keeps_store : Obl.spawnAll_keeps .store := by
  refine KeepsG.of_run (fun _ => spawnAll_sl) fun w hw r w' hr _ => ?_
  have hI : SpawnI w := ⟨hw.store, hw.1.hasEmpty⟩
  cases r with
  | error e => exact fun hp => (spawnAll_store.err hI hr hp).1
  | ok u => exact (spawnAll_store.ok hI hr).1

end InvV2

/-! ### frames -/

theorem reserve_keeps_store : Obl.reserve_keeps .store :=
  KeepsG.of_keeps_group (fun _ h => h.store) (fun _ => reserve_sl) (by unfold reserve; keeps)

theorem regGev_keeps_store : Obl.regGev_keeps .store := fun _ _ _ _ hw _ => hw.store

theorem regComp_keeps_store : Obl.regComp_keeps .store := fun _ _ _ _ hw _ => hw.store

theorem regTev_keeps_store : Obl.regTev_keeps .store := by
  intro w ty kind nd k tevs' hw _ _ _
  show StoreInv (Step.noteEvent _ kind k)
  unfold Step.noteEvent
  repeat' split
  all_goals exact hw.store

theorem removeEventFinish_keeps_store : Obl.removeEventFinish_keeps .store := by
  intro ty k
  have hk : Keeps StoreInv (removeEventFinish ty k) := by unfold removeEventFinish; keeps
  exact Hoare.post (Hoare.pre (Hoare.of_keeps (E := fun _ => StoreInv) hk fun _ _ h => h) fun _ h => h.1.store)
    (fun _ _ h => h) (fun _ _ h _ => h)

example : Obl.reserve_keeps .store := reserve_keeps_store
example : Obl.bumpCell_keeps .store := bumpCell_keeps_store
example : Obl.spawnAll_keeps .store := spawnAll_keeps_store
example : Obl.removeEntity_keeps .store := removeEntity_keeps_store
example : Obl.regGev_keeps .store := regGev_keeps_store
example : Obl.regComp_keeps .store := regComp_keeps_store
example : Obl.regTev_keeps .store := regTev_keeps_store
example : Obl.removeEventFinish_keeps .store := removeEventFinish_keeps_store

end Evenio
