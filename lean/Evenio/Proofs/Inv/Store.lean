import Evenio.Proofs.Inv.Glue
/-! # G2 — the storage group (seed)

`moveEntity` end to end, as the model for the other storage primitives:
* normal return: `StoreOk` by the simulation lemma `world_storeOk_move` (Props/C02World.lean), `ids.length ≤ cap` from the
  closed forms `moveEntity_same_run` / `moveEntity_ne_run` (Proofs/StorageRefine.lean) and
  `reserveOne_keeps_len_le_cap` (Props/C10.lean);
* panic exit (`internal:swap_remove index out of bounds`): it is raised BEFORE the first write to a field the
  invariant reads (`moveEntity_panic_frame`), so ALL groups hold again — this lemma serves every worker. -/
namespace Evenio
open SparseMap (swapRemove)

/-! ### functions that never panic -/

/-- `m` exits with `ub` / `assert` or returns -/
abbrev NoPanic {α : Type} (m : M α) : Prop :=
  Hoare (fun _ => True) m (fun _ _ => True) (fun e _ => e.isPanic = false)

theorem NoPanic.intro {α : Type} {m : M α} (h : ∀ w e w', m.run.run w = (.error e, w') → e.isPanic = false) :
    NoPanic m := by
  refine ⟨fun w _ => ?_⟩
  generalize hr : m.run.run w = res
  obtain ⟨(e|a), w'⟩ := res
  · exact h w e w' hr
  · trivial

theorem NoPanic.bind {α β : Type} {m : M α} {f : α → M β} (hm : NoPanic m) (hf : ∀ a, NoPanic (f a)) :
    NoPanic (m >>= f) := Hoare.bind hm hf

theorem NoPanic.forIn_list {β γ : Type} {l : List γ} {b : β} {f : γ → β → M (ForInStep β)}
    (hf : ∀ a b, NoPanic (f a b)) : NoPanic (forIn l b f) :=
  Hoare.forIn_list_inv hf

theorem noPanic_pure {α : Type} (a : α) : NoPanic (pure a : M α) := Hoare.pure fun _ _ => trivial
theorem noPanic_ubErr {α : Type} (s : String) : NoPanic (ubErr s : M α) := Hoare.ubErr fun _ _ => rfl
theorem noPanic_get : NoPanic (get : M World) := ⟨fun _ _ => trivial⟩
theorem noPanic_set (w : World) : NoPanic (set w : M PUnit) := ⟨fun _ _ => trivial⟩
theorem noPanic_modify (f : World → World) : NoPanic (modify f : M PUnit) := ⟨fun _ _ => trivial⟩
theorem noPanic_modifyGet {α : Type} (f : World → α × World) : NoPanic (modifyGet f : M α) := ⟨fun _ _ => trivial⟩

theorem noPanic_dbgAssert (c : Bool) (s : String) : NoPanic (dbgAssert c s) := by
  refine NoPanic.intro fun w e w' h => ?_
  rw [dbgAssert_run] at h
  split at h <;> cases h
  rfl

theorem noPanic_getArch (i : Nat) (s : String) : NoPanic (getArch i s) := by
  unfold getArch
  refine NoPanic.bind noPanic_get fun w => ?_
  split
  · exact noPanic_pure _
  · exact noPanic_ubErr _

theorem noPanic_setArch (a : Arch) : NoPanic (setArch a) := noPanic_modify _

theorem noPanic_setLoc (id : Key) (s : String) (f : Loc → Loc) : NoPanic (setLoc id s f) := by
  unfold setLoc
  refine NoPanic.bind noPanic_get fun w => ?_
  split
  · exact noPanic_set _
  · exact noPanic_ubErr _

theorem noPanic_dropCellIdx (c : Nat) (x : Cell) : NoPanic (dropCellIdx c x) := by
  refine NoPanic.intro fun w e w' h => ?_
  unfold dropCellIdx at h
  simp only [run_bind, run_get, run_dropCell] at h
  cases h

theorem noPanic_handlerRefresh (hk : Key) (a : Arch) : NoPanic (handlerRefresh hk a) := by
  refine NoPanic.intro fun w e w' h => ?_
  rw [handlerRefresh_run] at h
  split at h
  · cases h; rfl
  · split at h <;> cases h
    rfl

theorem noPanic_handlerRemoveArch (hk : Key) (a : Arch) : NoPanic (handlerRemoveArch hk a) := by
  unfold handlerRemoveArch
  refine NoPanic.bind noPanic_get fun w => ?_
  split
  · exact noPanic_ubErr _
  · exact noPanic_set _

/-- structural proof of `NoPanic` -/
macro "nopanic" : tactic => `(tactic| repeat' first
  | exact noPanic_pure _
  | exact noPanic_ubErr _
  | exact noPanic_get
  | exact noPanic_set _
  | exact noPanic_modify _
  | exact noPanic_dbgAssert _ _
  | exact noPanic_getArch _ _
  | exact noPanic_setArch _
  | exact noPanic_setLoc _ _ _
  | exact noPanic_dropCellIdx _ _
  | exact noPanic_handlerRefresh _ _
  | exact noPanic_handlerRemoveArch _ _
  | (with_reducible refine NoPanic.bind ?_ fun _ => ?_)
  | (with_reducible refine NoPanic.forIn_list fun _ _ => ?_)
  | dsimp only
  | split)

/-! ### the panic exit of `moveEntity` -/

/-- `w1` agrees with `w` on every field `WInvMid` reads (a conjunction of equations between projections, so that
    writes to other fields keep it definitionally) -/
def Fr (w w1 : World) : Prop :=
  w1.entities = w.entities ∧ w1.comps = w.comps ∧ w1.gevs = w.gevs ∧ w1.tevs = w.tevs ∧ w1.handlers = w.handlers ∧
  w1.byGlobal = w.byGlobal ∧ w1.insertCounter = w.insertCounter ∧ w1.byInsertOrder = w.byInsertOrder ∧
  w1.archs = w.archs ∧ w1.removedIds = w.removedIds ∧ w1.resIndex = w.resIndex ∧ w1.resCount = w.resCount

theorem Fr.refl (w : World) : Fr w w := ⟨rfl, rfl, rfl, rfl, rfl, rfl, rfl, rfl, rfl, rfl, rfl, rfl⟩

theorem Fr.relEq {w w1 : World} (h : Fr w w1) : RelEq w w1 := by
  obtain ⟨h1, h2, h3, h4, h5, h6, h7, h8, h9, h10, -, -⟩ := h
  exact ⟨h1, h2, h3, h4, h5, h6, h7, h8, h9, h10⟩

/-- the invariant holds again in a state that agrees with `w` on what it reads -/
theorem Fr.winvMid {w w1 : World} (h : Fr w w1) (hw : WInvMid w) : WInvMid w1 :=
  hw.frame h.relEq h.2.2.2.2.2.2.2.2.2.2.1 h.2.2.2.2.2.2.2.2.2.2.2

theorem ubErr_frk {α : Type} (w : World) (s : String) : Keeps (Fr w) (ubErr s : M α) := Keeps.throw _
theorem getArch_frk (w : World) (i : Nat) (s : String) : Keeps (Fr w) (getArch i s) := by
  unfold getArch; keeps; exact ubErr_frk _ _
theorem dropCellIdx_frk (w : World) (c : Nat) (x : Cell) : Keeps (Fr w) (dropCellIdx c x) := by
  unfold dropCellIdx dropCell; keeps
theorem freshEpoch_frk (w : World) : Keeps (Fr w) freshEpoch := by unfold freshEpoch; keeps

/-- **`moveEntity` raises its only panic before it writes anything the invariant reads** -/
theorem moveEntity_panic_frame (src : Loc) (dst : Nat) (new : List (Nat × Cell)) (w : World) :
    Hoare (Fr w) (moveEntity src dst new) (fun _ _ => True) (fun e w' => e.isPanic = true → Fr w w') := by
  have weaken : ∀ {α : Type} {m : M α}, NoPanic m →
      Hoare (Fr w) m (fun _ _ => True) (fun e w' => e.isPanic = true → Fr w w') := fun hm =>
    Hoare.post (Hoare.pre hm fun _ _ => trivial) (fun _ _ _ => trivial)
      (fun e _ he hp => by rw [he] at hp; cases hp)
  have keep : ∀ {α : Type} {m : M α}, Keeps (Fr w) m →
      Hoare (Fr w) m (fun _ => Fr w) (fun e w' => e.isPanic = true → Fr w w') := fun hm =>
    Hoare.of_keeps hm fun _ _ h _ => h
  unfold moveEntity
  split
  · -- the same-archetype branch never panics
    refine weaken ?_
    nopanic
  · refine Hoare.bind_inv (keep (getArch_frk w _ _)) fun sa => ?_
    refine Hoare.bind_inv (keep (getArch_frk w _ _)) fun da => ?_
    refine Hoare.bind_inv (keep (freshEpoch_frk w)) fun ep => ?_
    split
    split
    · exact (keep (ubErr_frk w _)).post (fun _ _ _ => trivial) (fun _ _ h => h)
    · refine Hoare.bind_inv (keep ?_) fun _ => ?_
      · refine Keeps.forIn_list fun x _ => ?_
        obtain ⟨c, x⟩ := x
        exact Keeps.bind (dropCellIdx_frk w c x) fun _ => Keeps.pure _
      split
      · exact Hoare.throw fun _ h _ => h
      · -- after the check nothing panics
        refine weaken ?_
        nopanic

/-- on a panic exit of `moveEntity` the whole invariant holds again -/
theorem moveEntity_panic_winvMid {src : Loc} {dst : Nat} {new : List (Nat × Cell)} {w w' : World} {c : String}
    (hw : WInvMid w) (hr : (moveEntity src dst new).run.run w = (.error (.panic c), w')) : WInvMid w' :=
  ((moveEntity_panic_frame src dst new w).err (Fr.refl w) hr rfl).winvMid hw

/-! ### `moveEntity` keeps G2 -/

theorem assignAll_ids_cap {a a' : Arch} {row : Nat} {new : List (Nat × Cell)} {dr : List Cell}
    (h : Store.assignAll a row new = some (a', dr)) : a'.ids = a.ids ∧ a'.cap = a.cap := by
  induction new generalizing a dr with
  | nil => simp only [Store.assignAll, Option.some.injEq, Prod.mk.injEq] at h; rw [← h.1]; exact ⟨rfl, rfl⟩
  | cons p new ih =>
    obtain ⟨c, x⟩ := p
    simp only [Store.assignAll] at h
    split at h
    · cases h
    · split at h
      · cases h
      · split at h
        · rename_i a1 dr1 hrec
          simp only [Option.some.injEq, Prod.mk.injEq] at h
          obtain ⟨rfl, _⟩ := h
          have := ih hrec
          exact this
        · cases h

/-- a value written with `Slab.set` is the only new value -/
theorem Slab.get_set_cases {α : Type} {s : Slab α} {i j : Nat} {a b : α} (h : (s.set i a).get j = some b) :
    (j = i ∧ b = a ∧ (s.get i).isSome = true) ∨ (j ≠ i ∧ s.get j = some b) := by
  rw [Slab.get_set] at h
  split at h
  · next hj =>
    cases hg : s.get i with
    | none => rw [hg] at h; cases h
    | some c => rw [hg] at h; cases h; exact .inl ⟨hj, rfl, rfl⟩
  · next hj => exact .inr ⟨hj, h⟩

/-- `ids.length ≤ cap` after a normal return of `moveEntity` -/
theorem moveEntity_ok_cap {src : Loc} {dst : Nat} {new : List (Nat × Cell)} {w w' : World}
    (hcap : ∀ i a, w.archs.get i = some a → a.ids.length ≤ a.cap)
    (hr : (moveEntity src dst new).run.run w = (.ok (), w')) :
    ∀ i a, w'.archs.get i = some a → a.ids.length ≤ a.cap := by
  intro i b hb
  by_cases hne : src.arch = dst
  · subst hne
    obtain ⟨a, a', dr, ha, has, -, rfl⟩ := moveEntity_same_run hr
    obtain ⟨e1, e2⟩ := assignAll_ids_cap has
    have hb' : (w.archs.set a'.index a').get i = some b := hb
    rcases Slab.get_set_cases hb' with ⟨-, rfl, -⟩ | ⟨-, hb''⟩
    · rw [e1, e2]; exact hcap _ _ ha
    · exact hcap _ _ hb''
  · obtain ⟨sa, da, r, eid, m⟩ := moveEntity_ne_run hne hr
    rw [m.hw] at hb
    have hb' : ((w.archs.set sa.index { sa with cols := r.src, ids := swapRemove sa.ids src.row }).set da.index
        { da with cols := r.dst, ids := da.ids ++ [eid], cap := (da.reserveOne w.epochCtr).1.cap,
                  epoch := (da.reserveOne w.epochCtr).1.epoch }).get i = some b := hb
    rcases Slab.get_set_cases hb' with ⟨-, rfl, -⟩ | ⟨-, hb''⟩
    · -- the destination: `reserve_one` made room
      have := reserveOne_keeps_len_le_cap da w.epochCtr eid (hcap _ _ m.hda)
      have hids : (da.reserveOne w.epochCtr).1.ids = da.ids := by
        unfold Arch.reserveOne; split <;> rfl
      simp only [hids] at this
      exact this
    · rcases Slab.get_set_cases hb'' with ⟨-, rfl, -⟩ | ⟨-, hb3⟩
      · -- the source lost a row
        show (swapRemove sa.ids src.row).length ≤ sa.cap
        rw [SparseMap.length_swapRemove]
        exact Nat.le_trans (Nat.sub_le _ _) (hcap _ _ m.hsa)
      · exact hcap _ _ hb3

/-- **`moveEntity` keeps the storage group** -/
theorem moveEntity_keeps_store : Obl.moveEntity_keeps .store := by
  intro src dst new
  refine KeepsG.of_run (fun _ => moveEntity_sl src dst new) fun w hw r w' hr _ => ?_
  cases r with
  | error e =>
    intro hp
    cases e with
    | panic c => exact (moveEntity_panic_winvMid hw hr).store
    | ub s => cases hp
    | assert s => cases hp
  | ok u =>
    have ok' : StoreOk w' := world_storeOk_move hw.1.storeOk hr
    exact ⟨ok'.congr rfl rfl, moveEntity_ok_cap hw.1.store.cap hr⟩

end Evenio
