import Evenio.Proofs.Inv.Glue
/-! # G3 — handler lists, listener tables, refresh sets (seed)

The heart of G3 is what `Archetype::register_handler` does to ONE archetype: `archListsOK_register` — if the refresh
set and the listener tables of `a` are exact with respect to the handlers `ord` (in that order), then those of
`a.registerPure h` are exact with respect to `ord ++ [k]`, where `k` is the key of `h`.  It is used twice:
* `newArch` (inside `traverseInsert` / `traverseRemove`): the loop over `byInsertOrder` starts from an archetype without
  lists (`archListsOK_nil`) and registers the handlers one by one, so it ends with `ArchListsOK byInsertOrder`;
* `addHandler` (`registerAll`): every archetype goes from `ArchListsOK ord` to `ArchListsOK (ord ++ [k])`.
`registerHandler_lists` is the monadic wrapper (`Arch.registerHandler` through `C08.registerHandler_spec` /
`registerHandler_ok`). -/
namespace Evenio

/-! ### selections -/

theorem selOf_snoc (ord : List Key) (H : SlotMap HInfo) (p : HInfo → Bool) (pr : Priority) (k : Key) :
    selOf (ord ++ [k]) H p pr = selOf ord H p pr ++
      (match H.get k with
       | some h => if (h.prio == pr && p h) = true then [k] else []
       | none => []) := by
  unfold selOf
  rw [List.filterMap_append, List.filter_append, List.map_append]
  congr 1
  cases hg : H.get k with
  | none => simp [hg]
  | some h => by_cases hc : (h.prio == pr && p h) = true <;> simp [hg, hc]

theorem mem_selOf {ord : List Key} {H : SlotMap HInfo} {p : HInfo → Bool} {pr : Priority} {k : Key} :
    k ∈ selOf ord H p pr ↔ k ∈ ord ∧ ∃ h, H.get k = some h ∧ h.prio = pr ∧ p h = true := by
  unfold selOf
  simp only [List.mem_map, List.mem_filter, List.mem_filterMap, Option.map_eq_some_iff, Prod.exists,
    Bool.and_eq_true, beq_iff_eq]
  constructor
  · rintro ⟨k', h, ⟨⟨k'', hk'', h', hh', heq⟩, hq⟩, rfl⟩
    cases heq
    exact ⟨hk'', h, hh', hq⟩
  · rintro ⟨hk, h, hh, hq⟩
    exact ⟨k, h, ⟨⟨k, hk, h, hh, rfl⟩, hq⟩, rfl⟩

/-- a handler `p` does not select leaves the selection alone -/
theorem selOf_snoc_skip {ord : List Key} {H : SlotMap HInfo} {p : HInfo → Bool} {k : Key}
    (hp : ∀ h, H.get k = some h → p h = false) (pr : Priority) : selOf (ord ++ [k]) H p pr = selOf ord H p pr := by
  rw [selOf_snoc]
  cases hg : H.get k with
  | none => simp
  | some h => simp [hp h hg]

/-- a selected handler goes to the end of its priority class -/
theorem selOf_snoc_hit {ord : List Key} {H : SlotMap HInfo} {p : HInfo → Bool} {k : Key} {h : HInfo}
    (hg : H.get k = some h) (hp : p h = true) (pr : Priority) :
    selOf (ord ++ [k]) H p pr = selOf ord H p pr ++ (if h.prio = pr then [k] else []) := by
  rw [selOf_snoc, hg]
  simp only [hp, Bool.and_true, beq_iff_eq]

/-! ### one table -/

theorem TableExact.snoc_skip {ord : List Key} {H : SlotMap HInfo} {p : HInfo → Bool} {l : HandlerList Key} {k : Key}
    (hl : TableExact ord H p l) (hp : ∀ h, H.get k = some h → p h = false) : TableExact (ord ++ [k]) H p l :=
  ⟨hl.inv, by rw [selOf_snoc_skip hp]; exact hl.hi, by rw [selOf_snoc_skip hp]; exact hl.me,
    by rw [selOf_snoc_skip hp]; exact hl.lo⟩

/-- `HandlerList::insert` of the next handler in insertion order keeps the table exact -/
theorem TableExact.insert {ord : List Key} {H : SlotMap HInfo} {p : HInfo → Bool} {l : HandlerList Key} {k : Key}
    {h : HInfo} (hl : TableExact ord H p l) (hg : H.get k = some h) (hp : p h = true) :
    TableExact (ord ++ [k]) H p (l.insert k h.prio) := by
  have hseg := HandlerList.insert_segments hl.inv k h.prio
  refine ⟨HandlerList.insert_inv hl.inv _ _, ?_, ?_, ?_⟩ <;> rw [selOf_snoc_hit hg hp]
  · cases hpr : h.prio <;> rw [hpr] at hseg <;> simp only [Prod.mk.injEq] at hseg <;> simp [hseg.1, hl.hi]
  · cases hpr : h.prio <;> rw [hpr] at hseg <;> simp only [Prod.mk.injEq] at hseg <;> simp [hseg.2.1, hl.me]
  · cases hpr : h.prio <;> rw [hpr] at hseg <;> simp only [Prod.mk.injEq] at hseg <;> simp [hseg.2.2, hl.lo]

/-- the entries of an exact table are the selected handlers -/
theorem TableExact.mem {ord : List Key} {H : SlotMap HInfo} {p : HInfo → Bool} {l : HandlerList Key}
    (hl : TableExact ord H p l) (x : Key) :
    x ∈ l.entries ↔ x ∈ ord ∧ ∃ h, H.get x = some h ∧ p h = true := by
  rw [HandlerList.entries_eq_segments hl.inv, hl.hi, hl.me, hl.lo]
  simp only [List.mem_append, mem_selOf]
  constructor
  · rintro (⟨h1, h, h2, -, h3⟩ | ⟨h1, h, h2, -, h3⟩ | ⟨h1, h, h2, -, h3⟩) <;> exact ⟨h1, h, h2, h3⟩
  · rintro ⟨h1, h, h2, h3⟩
    cases hpr : h.prio
    · exact .inl ⟨h1, h, h2, hpr, h3⟩
    · exact .inr (.inl ⟨h1, h, h2, hpr, h3⟩)
    · exact .inr (.inr ⟨h1, h, h2, hpr, h3⟩)

/-! ### one archetype -/

/-- live keys of a well-formed slot map with the same index are equal -/
theorem SlotMap.key_eq_of_idx {α : Type} {sm : SlotMap α} {k k' : Key} {v v' : α} (h : sm.get k = some v)
    (h' : sm.get k' = some v') (hi : k.idx = k'.idx) : k = k' := by
  unfold SlotMap.get at h h'
  rw [hi] at h
  cases hs : sm.slots[k'.idx]? with
  | none => rw [hs] at h; cases h
  | some s =>
    rw [hs] at h h'
    dsimp only at h h'
    split at h
    · split at h'
      · next e1 e2 => cases k; cases k'; simp_all
      · cases h'
    · cases h

theorem SlotMap.idx_lt_of_get {α : Type} {sm : SlotMap α} {k : Key} {v : α} (h : sm.get k = some v) :
    k.idx < sm.slots.length := by
  unfold SlotMap.get at h
  cases hs : sm.slots[k.idx]? with
  | none => rw [hs] at h; cases h
  | some s => exact (List.getElem?_eq_some_iff.1 hs).1

/-- an archetype that no handler has been registered in -/
theorem archListsOK_nil (H : SlotMap HInfo) (T : SlotMap EvInfo) {a : Arch} (hl : a.listeners = {})
    (hr : a.refresh = []) : ArchListsOK [] H T a := by
  refine ⟨hl ▸ SparseMap.wf_empty, fun t ht => ?_, fun t l h => ?_, fun tk info _ => ?_, fun t l h => ?_,
    hr ▸ List.nodup_nil, fun k => ?_⟩
  · rw [hl] at ht; cases ht
  · rw [hl] at h; simp [SparseMap.get] at h
  · rw [hl]; exact ⟨HandlerList.inv_empty, rfl, rfl, rfl⟩
  · rw [hl] at h; simp [SparseMap.get] at h
  · rw [hr]; simp

/-- **`Archetype::register_handler` keeps the lists of the archetype exact**: `h` is the registry entry of `k`, the
    next handler in insertion order; the event it receives is live. -/
theorem archListsOK_register {ord : List Key} {H : SlotMap HInfo} {T : SlotMap EvInfo} {a : Arch} {k : Key}
    {h : HInfo} (hl : ArchListsOK ord H T a) (hT : T.WF) (hsmall : T.slots.length < U32MAX) (hk : k ∉ ord)
    (hg : H.get k = some h) (hkey : h.key = k) (hidx : h.recvIdx = h.recvKey.idx)
    (hrecv : h.recv.targeted = true → ∃ info, T.get h.recvKey = some info) :
    ArchListsOK (ord ++ [k]) H T (a.registerPure h) := by
  have hS : (a.registerPure h).S = a.S := registerPure_S a h
  -- the event index is in range when the handler is targeted
  have hlt : h.recv.targeted = true → h.recvIdx < T.slots.length := fun ht => by
    obtain ⟨info, hi⟩ := hrecv ht
    rw [hidx]; exact SlotMap.idx_lt_of_get hi
  have hwf : SparseMap.WF (a.registerPure h).listeners ∧
      ∀ t ∈ (a.registerPure h).listeners.keys, t < T.slots.length := by
    by_cases ht : h.recv.targeted = true
    · exact registerPure_listeners_wf a h hl.wf hsmall hl.keys (hlt ht)
    · rw [registerPure_listeners_of_not a h (fun hc => ht hc.1)]; exact ⟨hl.wf, hl.keys⟩
  -- the table of index `t` afterwards
  have hget : ∀ t, (a.registerPure h).listeners.get t =
      if h.recv.targeted = true ∧ h.filter.matches a.S = true ∧ t = h.recvIdx then
        some (((a.listeners.get h.recvIdx).getD {}).insert k h.prio)
      else a.listeners.get t := fun t => by
    by_cases hc : h.recv.targeted = true ∧ h.filter.matches a.S = true
    · by_cases ht : t = h.recvIdx
      · rw [if_pos ⟨hc.1, hc.2, ht⟩, ht, registerPure_get_same a h hl.wf hc.1 hc.2, hkey]
      · rw [if_neg (fun hh => ht hh.2.2), registerPure_get_other a h hl.wf ht]
    · rw [if_neg (fun hh => hc ⟨hh.1, hh.2.1⟩), registerPure_listeners_of_not a h hc]
  -- the old table at the event's index holds only handlers of `ord`
  have hold : ∀ t l, a.listeners.get t = some l → k ∉ l.entries := fun t l hlt' hm => by
    rcases hl.dead t l hlt' with hlive | hempty
    · obtain ⟨⟨tk, info⟩, hti⟩ := Option.isSome_iff_exists.1 hlive
      obtain ⟨hgi, hix⟩ := SlotMap.getByIndex_get hti
      have := hl.exact tk info hgi
      rw [hix, hlt'] at this
      exact hk ((this.mem k).1 hm).1
    · rw [hempty] at hm; cases hm
  refine ⟨hwf.1, hwf.2, fun t l hlt' => ?_, fun tk info hti => ?_, fun t l hlt' => ?_, ?_, fun x => ?_⟩
  · -- cursors and duplicates
    rw [hget] at hlt'
    split at hlt'
    · cases hlt'
      cases hgo : a.listeners.get h.recvIdx with
      | none =>
        exact ⟨HandlerList.insert_inv HandlerList.inv_empty _ _,
          HandlerList.nodup_insert List.nodup_nil (by simp) _⟩
      | some l0 =>
        obtain ⟨i1, i2⟩ := hl.inv _ _ hgo
        exact ⟨HandlerList.insert_inv i1 _ _, HandlerList.nodup_insert i2 (hold _ _ hgo) _⟩
    · exact hl.inv t l hlt'
  · -- exactness for the live event `tk`
    have hex := hl.exact tk info hti
    rw [hget]
    have hsel : listenSel tk (a.registerPure h) = listenSel tk a := by
      unfold listenSel; rw [hS]
    rw [hsel]
    by_cases hc : h.recv.targeted = true ∧ h.filter.matches a.S = true ∧ tk.idx = h.recvIdx
    · rw [if_pos hc]
      -- `tk` is the received event
      obtain ⟨info', hri⟩ := hrecv hc.1
      have hkeq : tk = h.recvKey := SlotMap.key_eq_of_idx hti hri (by rw [hc.2.2, hidx])
      have hp : listenSel tk a h = true := by
        unfold listenSel
        simp only [hc.1, hc.2.1, Bool.true_and, Bool.and_true]
        rw [hkeq]; exact (Slab.key_beq_iff _ _).2 rfl
      have := hex.insert hg hp
      rw [hc.2.2] at this
      exact this
    · rw [if_neg hc]
      refine hex.snoc_skip fun h' hg' => ?_
      rw [hg] at hg'; cases hg'
      unfold listenSel
      cases hp : (h.recv.targeted && h.recvKey == tk && h.filter.matches a.S) with
      | false => rfl
      | true =>
        simp only [Bool.and_eq_true] at hp
        exact absurd ⟨hp.1.1, hp.2, by rw [hidx, (Slab.key_beq_iff _ _).1 hp.1.2]⟩ hc
  · -- tables of dead events stay empty
    rw [hget] at hlt'
    split at hlt'
    · next hc =>
      obtain ⟨info', hri⟩ := hrecv hc.1
      left
      rw [hc.2.2, hidx, SlotMap.get_getByIndex hT hri]
      rfl
    · exact hl.dead t l hlt'
  · exact registerPure_refresh_nodup a h hl.refreshNodup
  · -- the refresh set
    rw [mem_registerPure_refresh, hl.refresh, hS, List.mem_append, List.mem_singleton]
    constructor
    · rintro (⟨h1, h2⟩ | ⟨rfl, h2⟩)
      · exact ⟨.inl h1, h2⟩
      · exact ⟨.inr hkey, h, hkey ▸ hg, h2⟩
    · rintro ⟨h1 | rfl, h', hg', hm⟩
      · exact .inl ⟨h1, h', hg', hm⟩
      · rw [hg] at hg'; cases hg'
        exact .inr ⟨hkey.symm, hm⟩

/-- the same with respect to a registry that agrees with `H` on the handlers of `ord` (`addHandler`: the registry
    gained the entry of the handler being registered) -/
theorem ArchListsOK.congr_H {ord : List Key} {H H' : SlotMap HInfo} {T : SlotMap EvInfo} {a : Arch}
    (hl : ArchListsOK ord H T a) (hH : ∀ k ∈ ord, H'.get k = H.get k) : ArchListsOK ord H' T a := by
  have hfm : ∀ l : List Key, (∀ k ∈ l, H'.get k = H.get k) →
      (l.filterMap fun k => (H'.get k).map fun h => (k, h)) = l.filterMap fun k => (H.get k).map fun h => (k, h) := by
    intro l
    induction l with
    | nil => intro _; rfl
    | cons k l ih =>
      intro hl'
      rw [List.filterMap_cons, List.filterMap_cons, hl' k (List.mem_cons_self ..),
        ih fun k' hk' => hl' k' (List.mem_cons_of_mem _ hk')]
  have hsel : ∀ p pr, selOf ord H' p pr = selOf ord H p pr := fun p pr => by
    unfold selOf
    rw [hfm ord hH]
  refine ⟨hl.wf, hl.keys, hl.inv, fun tk info hti => ?_, hl.dead, hl.refreshNodup, fun k => ?_⟩
  · obtain ⟨i, h1, h2, h3⟩ := hl.exact tk info hti
    exact ⟨i, by rw [hsel]; exact h1, by rw [hsel]; exact h2, by rw [hsel]; exact h3⟩
  · rw [hl.refresh]
    constructor
    · rintro ⟨hk, h, hg, hm⟩; exact ⟨hk, h, by rw [hH k hk]; exact hg, hm⟩
    · rintro ⟨hk, h, hg, hm⟩; exact ⟨hk, h, by rw [← hH k hk]; exact hg, hm⟩

/-- **the monadic `Arch.registerHandler`, for G3**: on normal return the archetype it returns has exact lists with
    respect to `ord ++ [k]`, and the world is only changed through the fetcher caches of the handler itself -/
theorem registerHandler_lists {ord : List Key} {H : SlotMap HInfo} {T : SlotMap EvInfo} {a a' : Arch} {k : Key}
    {h : HInfo} {w w' : World} (hl : ArchListsOK ord H T a) (hT : T.WF) (hsmall : T.slots.length < U32MAX)
    (hk : k ∉ ord) (hg : H.get k = some h) (hkey : h.key = k) (hidx : h.recvIdx = h.recvKey.idx)
    (hrecv : h.recv.targeted = true → ∃ info, T.get h.recvKey = some info)
    (hr : (a.registerHandler h).run.run w = (.ok a', w')) :
    ArchListsOK (ord ++ [k]) H T a' ∧
    (w' = w ∨ ∃ hi, w.handlers.get h.key = some hi ∧
      w' = { w with handlers := w.handlers.set h.key (hi.refreshed a) }) := by
  obtain ⟨rfl, hworld⟩ := registerHandler_ok hr
  exact ⟨archListsOK_register hl hT hsmall hk hg hkey hidx hrecv, hworld⟩

end Evenio

/-! ## continuation (worker 3)

The obligations of G3 are proved in files that import this seed (`lake build Evenio.Proofs.Inv.ListsAll`):
`ListsFrame.lean` (frame rule `listsInv_of_frames` / `listsInv'_congr`), `ListsA.lean` (section A, all seven
primitives), `ListsB.lean` (section B except `registerAll`), `ListsReg.lean` (`registerAll_keeps_lists`),
`ListsE.lean` + `ListsE2.lean` (section E: `initParam_configRel_partial`), `ListsECex.lean`
(`¬ Obl.initParam_configRel`, `¬ Obl.initParam_grows`). -/
