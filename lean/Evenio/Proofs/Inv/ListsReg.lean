import Evenio.Proofs.Inv.ListsB
/-! # G3, section B: `registerAll` (the registration loop of `addHandler`) keeps `ListsInv` -/
namespace Evenio
namespace InvV3

/-- `registerPure` only reads the core of the registry entry -/
theorem registerPure_core (a : Arch) {h h' : HInfo} (hc : h'.core = h.core) : a.registerPure h' = a.registerPure h := by
  have e1 : h'.key = h.key := (congrArg HInfo.key hc : h'.core.key = h.core.key)
  have e2 : h'.recvIdx = h.recvIdx := (congrArg HInfo.recvIdx hc : h'.core.recvIdx = h.core.recvIdx)
  have e4 : h'.archFilter = h.archFilter := (congrArg HInfo.archFilter hc : h'.core.archFilter = h.core.archFilter)
  have e7 : h'.recv = h.recv := (congrArg HInfo.recv hc : h'.core.recv = h.core.recv)
  have e8 : h'.filter = h.filter := (congrArg HInfo.filter hc : h'.core.filter = h.core.filter)
  have e9 : h'.prio = h.prio := (congrArg HInfo.prio hc : h'.core.prio = h.core.prio)
  unfold Arch.registerPure Arch.addRefresh Arch.addListener
  rw [e1, e2, e4, e7, e8, e9]

theorem slab_empty_get (i : Nat) : ({ entries := [], next := 0 } : Slab Arch).get i = none := by
  simp [Slab.get]

/-- **the world after the registration loop**: the registry is `handlers'` up to caches, the lists are those of
    `Step.insertHandler`, every archetype has registered the new handler -/
theorem registerAll_final {w : World} {k : Key} {h : HInfo} {handlers' : SlotMap HInfo} (hw : WInvMid w)
    (pre : NewHandlerPre w k h handlers') {w' : World}
    (hfr : w'.frame = (Step.insertHandler w k handlers' h.recv h.recvKey h.prio).frame)
    (hH : w'.handlers.mapVal HInfo.core = handlers'.mapVal HInfo.core)
    (hA : ∀ j, w'.archs.get j = (w.archs.get j).map (·.registerPure h)) : ListsInv w' := by
  have hL := hw.lists
  have wfH := hw.1.handlersWF
  obtain ⟨mk, hins, hmk⟩ := pre.ins
  obtain ⟨wfH', hgk, -, hother, hnc⟩ := SlotMap.insertWith_usable wfH hins
  rw [hmk] at hgk
  have hkord : k ∉ w.byInsertOrder := fun hm => by
    rw [hL.ordMem k, hnc] at hm; cases hm
  have hagree : ∀ k' ∈ w.byInsertOrder, handlers'.get k' = w.handlers.get k' := fun k' hk' =>
    hother k' (fun e => hkord (e ▸ hk'))
  have hco : CoreEqOn w.byInsertOrder w.handlers handlers' := fun k' hk' => by rw [hagree k' hk']
  have hget : ∀ k', handlers'.get k' = if k' = k then some h else w.handlers.get k' := fun k' => by
    by_cases hk' : k' = k
    · rw [if_pos hk', hk', hgk]
    · rw [if_neg hk', hother k' hk']
  -- the fields that do not mention the global lists
  have c1 : (w.byInsertOrder ++ [k]).Nodup :=
    List.nodup_append.2 ⟨hL.ordNodup, by simp, by
      rintro x hx y hy rfl
      simp only [List.mem_singleton] at hy
      exact hkord (hy ▸ hx)⟩
  have c2 : ∀ k', k' ∈ w.byInsertOrder ++ [k] ↔ handlers'.contains k' = true := fun k' => by
    rw [List.mem_append, List.mem_singleton, hL.ordMem k']
    unfold SlotMap.contains
    rw [hget]
    by_cases hk' : k' = k
    · subst hk'; simp
    · simp [hk']
  have c3 : (w.byInsertOrder ++ [k]).length = handlers'.len := by
    rw [List.length_append, SlotMap.insertWith_len hins, hL.ordLen]
    rfl
  have c4 : ((w.byInsertOrder ++ [k]).filterMap fun k' => (handlers'.get k').map (·.order)).Pairwise (· < ·) := by
    rw [List.filterMap_append]
    have e1 : (w.byInsertOrder.filterMap fun k' => (handlers'.get k').map (·.order)) =
        w.byInsertOrder.filterMap fun k' => (w.handlers.get k').map (·.order) :=
      filterMap_congr_mem fun k' hk' => by rw [hagree k' hk']
    have e2 : ([k].filterMap fun k' => (handlers'.get k').map (·.order)) = [h.order] := by
      simp [hgk]
    rw [e1, e2, List.pairwise_append]
    refine ⟨hL.ordSorted, List.pairwise_singleton _ _, fun x hx y hy => ?_⟩
    simp only [List.mem_singleton] at hy
    subst hy
    obtain ⟨k', -, hk'⟩ := List.mem_filterMap.1 hx
    cases hg' : w.handlers.get k' with
    | none => rw [hg'] at hk'; cases hk'
    | some h' =>
      rw [hg'] at hk'
      simp only [Option.map_some, Option.some.injEq] at hk'
      rw [← hk', pre.order]
      exact (hL.handler k' h' hg').order
  have c5 : ∀ k' h', handlers'.get k' = some h' → HandlerOK (w.insertCounter + 1) k' h' := fun k' h' hk' => by
    rw [hget] at hk'
    split at hk'
    · next e => cases hk'; exact e ▸ pre.ok
    · obtain ⟨h1, h2, h3, h4, h5, h6, h7⟩ := hL.handler k' h' hk'
      exact ⟨h1, h2, h3, h4, h5, Nat.lt_succ_of_lt h6, h7⟩
  -- the archetypes
  have carch : ∀ j a', w'.archs.get j = some a' →
      ArchListsOK (w.byInsertOrder ++ [k]) w'.handlers w.tevs a' := fun j a' hj => by
    rw [hA] at hj
    cases ha : w.archs.get j with
    | none => rw [ha] at hj; cases hj
    | some a =>
      rw [ha] at hj
      simp only [Option.map_some, Option.some.injEq] at hj
      subst hj
      have hl0 : ArchListsOK w.byInsertOrder handlers' w.tevs a := (hL.arch j a ha).congr_H hagree
      have := archListsOK_register hl0 hw.1.tevsWF hw.1.small.2 hkord hgk pre.ok.key pre.ok.recvIdx
        (fun ht => by obtain ⟨info, hi, -⟩ := pre.refs.recvT ht; exact ⟨info, hi⟩)
      exact archListsOK_congr this (CoreEqOn.of_mapVal hH) rfl rfl rfl
  -- the global lists
  have cglob : (∀ l ∈ (Step.insertHandler w k handlers' h.recv h.recvKey h.prio).byGlobal, l.Inv ∧ l.entries.Nodup) ∧
      (∀ gk info, w.gevs.get gk = some info → ∃ l,
        (Step.insertHandler w k handlers' h.recv h.recvKey h.prio).byGlobal[gk.idx]? = some l ∧
        TableExact (w.byInsertOrder ++ [k]) handlers' (globalSel gk) l) ∧
      (∀ i l, (Step.insertHandler w k handlers' h.recv h.recvKey h.prio).byGlobal[i]? = some l →
        (w.gevs.getByIndex i).isSome = true ∨ l.entries = []) := by
    by_cases ht : h.recv.targeted = true
    · have e : (Step.insertHandler w k handlers' h.recv h.recvKey h.prio).byGlobal = w.byGlobal := by
        unfold Step.insertHandler
        simp only [ht, if_true]
      rw [e]
      refine ⟨hL.gInv, fun gk info hg => ?_, hL.gDead⟩
      obtain ⟨l, hl, hex⟩ := hL.gExact gk info hg
      refine ⟨l, hl, (tableExact_congr hex hco (globalSel_core gk)).snoc_skip fun h0 hg0 => ?_⟩
      rw [hgk] at hg0
      cases hg0
      unfold globalSel
      simp [ht]
    · have ht' : h.recv.targeted = false := by simpa using ht
      obtain ⟨infor, hir, -⟩ := pre.refs.recvG ht'
      obtain ⟨l0, hl0, hex0⟩ := hL.gExact _ infor hir
      have hlt : h.recvKey.idx < w.byGlobal.length := (List.getElem?_eq_some_iff.1 hl0).1
      have e : (Step.insertHandler w k handlers' h.recv h.recvKey h.prio).byGlobal =
          w.byGlobal.set h.recvKey.idx (l0.insert k h.prio) := by
        unfold Step.insertHandler
        have hr : listResize w.byGlobal (h.recvKey.idx + 1) {} = w.byGlobal := by
          unfold listResize
          rw [if_neg (by omega)]
        simp only [ht', Bool.false_eq_true, if_false, hr, hl0, Option.getD_some]
      rw [e]
      have hknot : k ∉ l0.entries := fun hm => hkord ((hex0.mem k).1 hm).1
      refine ⟨fun l hl => ?_, fun gk info hg => ?_, fun i l hl => ?_⟩
      · rcases List.mem_or_eq_of_mem_set hl with hl | rfl
        · exact hL.gInv l hl
        · obtain ⟨i1, i2⟩ := hL.gInv l0 (List.mem_of_getElem? hl0)
          exact ⟨HandlerList.insert_inv i1 _ _, HandlerList.nodup_insert i2 hknot _⟩
      · by_cases hgk' : gk = h.recvKey
        · subst hgk'
          refine ⟨l0.insert k h.prio, by rw [List.getElem?_set_self hlt], ?_⟩
          refine (tableExact_congr hex0 hco (globalSel_core _)).insert hgk ?_
          unfold globalSel
          simp [ht']
        · have hidx : h.recvKey.idx ≠ gk.idx := fun e' =>
            hgk' (SlotMap.key_eq_of_idx hg hir e'.symm)
          obtain ⟨l, hl, hex⟩ := hL.gExact gk info hg
          refine ⟨l, by rw [List.getElem?_set_ne hidx]; exact hl, ?_⟩
          refine (tableExact_congr hex hco (globalSel_core gk)).snoc_skip fun h0 hg0 => ?_
          rw [hgk] at hg0
          cases hg0
          unfold globalSel
          have : (h.recvKey == gk) = false := by
            cases hb : (h.recvKey == gk) with
            | false => rfl
            | true => exact absurd ((Slab.key_beq_iff _ _).1 hb).symm hgk'
          simp [this]
      · by_cases hi : h.recvKey.idx = i
        · subst hi
          left
          rw [SlotMap.get_getByIndex hw.1.gevsWF hir]
          rfl
        · rw [List.getElem?_set_ne hi] at hl
          exact hL.gDead i l hl
  have e1 : w'.byGlobal = (Step.insertHandler w k handlers' h.recv h.recvKey h.prio).byGlobal :=
    congrArg Frame.byGlobal hfr
  have e2 : w'.byInsertOrder = w.byInsertOrder ++ [k] := congrArg Frame.byInsertOrder hfr
  have e3 : w'.insertCounter = w.insertCounter + 1 := congrArg Frame.insertCounter hfr
  have e4 : w'.gevs = w.gevs := congrArg Frame.gevs hfr
  have e5 : w'.tevs = w.tevs := congrArg Frame.tevs hfr
  show ListsInv' w'.handlers w'.byGlobal w'.byInsertOrder w'.insertCounter w'.archs w'.gevs w'.tevs
  rw [e1, e2, e3, e4, e5]
  refine listsInv'_congr (A := { entries := [], next := 0 })
    ⟨c1, c2, c3, c4, c5, cglob.1, cglob.2.1, cglob.2.2, fun i a hi => ?_⟩ hH carch
  rw [slab_empty_get] at hi
  cases hi

/-! ### the loop -/

theorem noPanic_registerHandler (a : Arch) (h : HInfo) : NoPanic (a.registerHandler h) := by
  unfold Arch.registerHandler
  nopanic

theorem noPanic_registerAll (k : Key) : NoPanic (registerAll k) := by
  unfold registerAll
  nopanic
  all_goals exact noPanic_registerHandler _ _

theorem hoareOk_forIn_prefix {β γ : Type} {f : γ → β → M (ForInStep β)} (J : List γ → World → Prop) (full : List γ)
    (hstep : ∀ pre x suf b, pre ++ x :: suf = full →
      HoareOk (J pre) (f x b) (fun r w => (∃ b', r = .yield b') ∧ J (pre ++ [x]) w)) :
    ∀ (l pre : List γ) (b : β), pre ++ l = full → HoareOk (J pre) (forIn l b f) (fun _ => J full) := by
  intro l
  induction l with
  | nil =>
    intro pre b hp
    rw [List.append_nil] at hp
    subst hp
    exact HoareOk.pure fun _ h => h
  | cons x l ih =>
    intro pre b hp
    rw [List.forIn_cons]
    refine HoareOk.bind (hstep pre x l b hp) fun r => ?_
    refine ⟨fun w hw c w' hrun => ?_⟩
    obtain ⟨⟨b', rfl⟩, hJ⟩ := hw
    exact (ih (pre ++ [x]) b' (by rw [List.append_assoc]; exact hp)).run w hJ c w' hrun

/-- the state inside the registration loop: the archetypes with index in `done` have registered the handler -/
structure RegState (A : Slab Arch) (h : HInfo) (fr1 : Frame) (Hc : SlotMap HInfo) (done : List Nat) (w2 : World) :
    Prop where
  frame : w2.frame = fr1
  handlers : w2.handlers.mapVal HInfo.core = Hc
  archs : ∀ j, w2.archs.get j = (A.get j).map fun a => if j ∈ done then a.registerPure h else a

theorem registerAll_ok {w1 : World} {k : Key} {h : HInfo} (hidx : IndexOK w1.archs)
    (hgk : w1.handlers.get k = some h) {w' : World} {u : Unit}
    (hrun : (registerAll k).run.run w1 = (.ok u, w')) :
    w'.frame = w1.frame ∧ w'.handlers.mapVal HInfo.core = w1.handlers.mapVal HInfo.core ∧
    ∀ j, w'.archs.get j = (w1.archs.get j).map (·.registerPure h) := by
  have hnd : (w1.archs.toList.map (·.1)).Nodup := Slab.toList_keys_nodup _
  have key : HoareOk (fun w2 => w2 = w1) (registerAll k) (fun _ w' =>
      RegState w1.archs h w1.frame (w1.handlers.mapVal HInfo.core) (w1.archs.toList.map (·.1)) w') := by
    unfold registerAll
    refine HoareOk.get_bind fun w0 hw0 => ?_
    subst hw0
    refine HoareOk.bind (R := fun _ w' =>
      RegState w0.archs h w0.frame (w0.handlers.mapVal HInfo.core) (w0.archs.toList.map (·.1)) w') ?_
      fun _ => HoareOk.pure fun _ h => h
    refine HoareOk.pre (hoareOk_forIn_prefix
      (fun pre w2 => RegState w0.archs h w0.frame (w0.handlers.mapVal HInfo.core) (pre.map (·.1)) w2)
      w0.archs.toList (fun pre x suf b hp => ?_) w0.archs.toList [] PUnit.unit rfl) ?_
    · -- one archetype
      obtain ⟨i, a0⟩ := x
      have hi : i ∉ pre.map (·.1) := by
        rw [← hp, List.map_append, List.map_cons] at hnd
        exact fun hm => (List.nodup_append.1 hnd).2.2 i hm i List.mem_cons_self rfl
      refine ⟨fun w2 hJ r w3 hr => ?_⟩
      dsimp only at hr
      rw [run_bind, run_getArch'] at hr
      cases ha2 : w2.archs.get i with
      | none => rw [ha2] at hr; cases hr
      | some a =>
        rw [ha2] at hr
        dsimp only at hr
        rw [run_bind, run_get] at hr
        dsimp only at hr
        -- the archetype is still the old one
        have ha0 := hJ.archs i
        rw [ha2] at ha0
        cases ha1 : w0.archs.get i with
        | none => rw [ha1] at ha0; cases ha0
        | some a1 =>
          rw [ha1] at ha0
          simp only [Option.map_some, Option.some.injEq, if_neg hi] at ha0
          subst ha0
          have hai : a.index = i := hidx i a ha1
          -- the registry entry is `h` up to caches
          have hcore := congrArg (fun sm => SlotMap.get sm k) hJ.handlers
          simp only [SlotMap.get_mapVal, hgk, Option.map_some] at hcore
          cases hk2 : w2.handlers.get k with
          | none => rw [hk2] at hcore; cases hcore
          | some h2 =>
            rw [hk2] at hcore hr
            simp only [Option.map_some, Option.some.injEq] at hcore
            dsimp only at hr
            rw [run_bind] at hr
            generalize hreg : (a.registerHandler h2).run.run w2 = res at hr
            obtain ⟨(e|a'), w4⟩ := res
            · cases hr
            · dsimp only at hr
              rw [run_bind, run_setArch] at hr
              dsimp only at hr
              rw [run_pure] at hr
              cases hr
              obtain ⟨rfl, hworld⟩ := registerHandler_ok hreg
              rw [registerPure_core a hcore]
              have hri : (a.registerPure h).index = i := by rw [registerPure_index]; exact hai
              -- what `registerHandler` did to the world
              have hw4 : w4.frame = w2.frame ∧ w4.handlers.mapVal HInfo.core = w2.handlers.mapVal HInfo.core ∧
                  w4.archs = w2.archs := by
                rcases hworld with rfl | ⟨hi2, hg2, rfl⟩
                · exact ⟨rfl, rfl, rfl⟩
                · refine ⟨rfl, ?_, rfl⟩
                  exact SlotMap.mapVal_set HInfo.core hg2 (HInfo.core_map_refresh hi2 a)
              refine ⟨⟨_, rfl⟩, ⟨hw4.1.trans hJ.frame, hw4.2.1.trans hJ.handlers, fun j => ?_⟩⟩
              show (w4.archs.set (a.registerPure h).index (a.registerPure h)).get j = _
              rw [hw4.2.2, hri, Slab.get_set, List.map_append, List.map_cons, List.map_nil]
              by_cases hj : j = i
              · subst hj
                rw [if_pos rfl, ha2, ha1]
                simp
              · rw [if_neg hj, hJ.archs j]
                cases w0.archs.get j with
                | none => rfl
                | some b =>
                  simp only [Option.map_some, List.mem_append, List.mem_singleton, hj, or_false]
    · intro w2 hw2
      subst hw2
      refine ⟨rfl, rfl, fun j => ?_⟩
      cases w2.archs.get j <;> simp
  have hfin := key.run w1 rfl u w' hrun
  refine ⟨hfin.frame, hfin.handlers, fun j => ?_⟩
  rw [hfin.archs j]
  cases hj : w1.archs.get j with
  | none => rfl
  | some a =>
    have : j ∈ w1.archs.toList.map (·.1) := (Slab.mem_toList_keys_iff _ _).2 (by rw [hj]; rfl)
    simp only [Option.map_some, if_pos this]

end InvV3
open InvV3

/-- **`addHandler`'s registration loop re-establishes G3** -/
theorem registerAll_keeps_lists : Obl.registerAll_keeps .lists := by
  intro w k h handlers' hw pre
  refine ⟨fun w1 hw1 => ?_⟩
  subst hw1
  have hnp := (noPanic_registerAll k).run (Step.insertHandler w k handlers' h.recv h.recvKey h.prio) trivial
  generalize hrun : (registerAll k).run.run (Step.insertHandler w k handlers' h.recv h.recvKey h.prio) = res at hnp
  obtain ⟨(e|u), w'⟩ := res
  · intro hp
    have : e.isPanic = false := hnp
    rw [this] at hp
    cases hp
  · obtain ⟨mk, hins, hmk⟩ := pre.ins
    have hgk : handlers'.get k = some h := by rw [← hmk]; exact SlotMap.get_insertWith_self hins
    obtain ⟨h1, h2, h3⟩ := registerAll_ok (w1 := Step.insertHandler w k handlers' h.recv h.recvKey h.prio)
      hw.1.indexOK hgk hrun
    exact registerAll_final hw pre h1 h2 h3

end Evenio
