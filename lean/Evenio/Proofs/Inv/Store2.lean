import Evenio.Proofs.Inv.Store
/-! # G2 — the storage group, part 2 (worker 2): `registerAll`, `removeHandlerPure`, `traverseInsert`, `traverseRemove`

Everything here goes through the characterisation `InvV2.storeInv_iff` of `Inv/Store.lean`: archetypes that keep their
`index comps cols ids cap` (`C17.SameCore`) keep the storage group, and so does the insertion of a well-shaped
archetype without rows under the vacant key. -/
namespace Evenio
namespace InvV2
open C17 (SameCore NewCore)

/-! ### combinators -/

/-- a function that never panics satisfies every panic clause -/
theorem hoare_of_ok_noPanic {α : Type} {P : World → Prop} {m : M α} {Q : α → World → Prop} {G : World → Prop}
    (h : HoareOk P m Q) (hn : NoPanic m) : Hoare P m Q (PanicOnly G) := by
  refine ⟨fun w hw => ?_⟩
  generalize hr : m.run.run w = res
  obtain ⟨(e|a), w'⟩ := res
  · intro hp
    have := hn.err trivial hr
    rw [this] at hp; cases hp
  · exact h.run w hw a w' hr

theorem HoareOk.and {α : Type} {P1 P2 : World → Prop} {m : M α} {Q1 Q2 : α → World → Prop}
    (h1 : HoareOk P1 m Q1) (h2 : HoareOk P2 m Q2) :
    HoareOk (fun w => P1 w ∧ P2 w) m (fun a w => Q1 a w ∧ Q2 a w) :=
  ⟨fun w hw a w' hr => ⟨h1.run w hw.1 a w' hr, h2.run w hw.2 a w' hr⟩⟩

/-- `KeepsG` for a function that never panics, from a triple for its normal returns -/
theorem keepsG_of_ok {α : Type} {G : World → Prop} {m : M α} (hmono : SlabMono m) (hn : NoPanic m)
    (h : HoareOk WInvMid m fun _ => G) : KeepsG G m := by
  refine KeepsG.of_run hmono fun w hw r w' hr _ => ?_
  cases r with
  | error e =>
    intro hp
    have := hn.err trivial hr
    rw [this] at hp; cases hp
  | ok a => exact h.run w hw a w' hr

/-! ### archetypes with the same storage -/

/-- the fields of an archetype the storage group reads -/
structure SameStore (a a' : Arch) : Prop where
  index : a'.index = a.index
  comps : a'.comps = a.comps
  cols : a'.cols = a.cols
  ids : a'.ids = a.ids
  cap : a'.cap = a.cap

theorem SameStore.of_sameCore {a a' : Arch} (h : SameCore a a') : SameStore a a' :=
  ⟨h.index, h.comps, h.cols, h.ids, h.cap⟩

theorem ArchStoreOK.of_sameStore {i : Nat} {a a' : Arch} (h : ArchStoreOK i a) (hs : SameStore a a') :
    ArchStoreOK i a' := by
  obtain ⟨h1, h2, h3, h4, h5⟩ := h
  refine ⟨hs.index.trans h1, ?_, ?_, ?_, ?_⟩
  · rw [hs.cols, hs.comps]; exact h2
  · rw [hs.cols, hs.ids]; exact h3
  · rw [hs.comps]; exact h4
  · rw [hs.ids, hs.cap]; exact h5

/-- one archetype is overwritten by one with the same core -/
theorem storeInv_set_sameStore {A : Slab Arch} {E : SlotMap Loc} (h : StoreInv' A E) {i : Nat} {a a' : Arch}
    (ha : A.get i = some a) (hs : SameStore a a') : StoreInv' (A.set a'.index a') E :=
  have hok := (storeInv_iff.1 h).1 i a ha
  storeInv_set h ha (hok.of_sameStore hs) hs.ids (hs.index.trans hok.index)

/-- every archetype is mapped to one with the same core -/
theorem storeInv_map {A A' : Slab Arch} {E : SlotMap Loc} (h : StoreInv' A E) (f : Arch → Arch)
    (hf : ∀ a, SameStore a (f a)) (hget : ∀ i, A'.get i = (A.get i).map f) : StoreInv' A' E := by
  have hall := (storeInv_iff.1 h).1
  refine storeInv_congr h (fun i a' ha' => ?_) (fun i a' ha' => ?_) (fun i a ha => ?_)
  · rw [hget] at ha'
    cases hg : A.get i with
    | none => rw [hg] at ha'; cases ha'
    | some a => rw [hg] at ha'; cases ha'; exact (hall i a hg).of_sameStore (hf a)
  · rw [hget] at ha'
    cases hg : A.get i with
    | none => rw [hg] at ha'; cases ha'
    | some a => rw [hg] at ha'; cases ha'; exact .inr ⟨a, rfl, (hf a).ids.symm⟩
  · exact .inr ⟨f a, by rw [hget, ha]; rfl, (hf a).ids⟩

/-- a well-shaped archetype without rows is inserted under the vacant key -/
theorem storeInv_insert {A : Slab Arch} {E : SlotMap Loc} (h : StoreInv' A E) (hw : Slab.WF A) {a : Arch}
    (hok : ArchStoreOK A.vacantKey a) (hids : a.ids = []) : StoreInv' (A.insert a) E := by
  have hall := (storeInv_iff.1 h).1
  have hback : ∀ i b, (A.insert a).get i = some b → (i = A.vacantKey ∧ b = a) ∨ A.get i = some b := by
    intro i b hb
    by_cases hi : i = A.vacantKey
    · subst hi
      rw [Slab.get_insert_vacantKey hw] at hb
      cases hb; exact .inl ⟨rfl, rfl⟩
    · rw [Slab.get_insert_other _ _ hi] at hb; exact .inr hb
  refine storeInv_congr h (fun i b hb => ?_) (fun i b hb => ?_) (fun i b hb => ?_)
  · rcases hback i b hb with ⟨rfl, rfl⟩ | hb'
    · exact hok
    · exact hall i b hb'
  · rcases hback i b hb with ⟨rfl, rfl⟩ | hb'
    · exact .inl hids
    · exact .inr ⟨b, hb', rfl⟩
  · have hi : i ≠ A.vacantKey := by
      intro hi
      rw [hi, Slab.get_vacantKey_none hw] at hb; cases hb
    exact .inr ⟨b, by rw [Slab.get_insert_other _ _ hi]; exact hb, rfl⟩

/-! ### `Archetype::register_handler` is a frame for storage -/

theorem registerPure_sameCore (a : Arch) (h : HInfo) : SameCore a (a.registerPure h) := by
  unfold Arch.registerPure Arch.addRefresh Arch.addListener
  refine ⟨?_, ?_, ?_, ?_, ?_, ?_, ?_, ?_⟩ <;> (repeat' split) <;> rfl

/-- `register_handler` writes neither the slab nor the entities, and returns an archetype with the same core -/
theorem registerHandler_ae (a : Arch) (h : HInfo) (A : Slab Arch) (E : SlotMap Loc) :
    HoareOk (fun w => w.archs = A ∧ w.entities = E) (a.registerHandler h)
      (fun a' w' => (w'.archs = A ∧ w'.entities = E) ∧ SameCore a a') := by
  refine ⟨fun w hw a' w' hr => ?_⟩
  rw [registerHandler_run] at hr
  have hk : Keeps (fun w' => w'.archs = A ∧ w'.entities = E) (handlerRefresh h.key a) := by
    unfold handlerRefresh dbgAssert ubErr; keeps
  have := hk.run w hw
  split at hr
  · generalize (handlerRefresh h.key a).run.run w = q at hr this
    obtain ⟨(e|u), w1⟩ := q
    · cases hr
    · cases hr; exact ⟨this, registerPure_sameCore a h⟩
  · cases hr; exact ⟨hw, registerPure_sameCore a h⟩

theorem noPanic_registerHandler (a : Arch) (h : HInfo) : NoPanic (a.registerHandler h) := by
  unfold Arch.registerHandler
  nopanic

/-! ### `registerAll` -/

theorem registerAll_storeInv (k : Key) : HoareOk StoreInv (registerAll k) (fun _ => StoreInv) := by
  unfold registerAll
  refine HoareOk.get_bind fun w0 _ => ?_
  refine HoareOk.bind_inv (HoareOk.forIn_list_inv fun p _ => ?_) fun _ => HoareOk.pure fun _ h => h
  obtain ⟨i, a0⟩ := p
  dsimp only
  refine HoareOk.bind (R := fun a w => StoreInv w ∧ w.archs.get i = some a) ⟨fun w hw a w' hr => ?_⟩ fun a => ?_
  · rw [run_getArch'] at hr
    split at hr
    · next b hb => cases hr; exact ⟨hw, hb⟩
    · cases hr
  refine HoareOk.get_bind fun w1 _ => ?_
  split
  · next h hh =>
    refine HoareOk.bind (R := fun a' w => StoreInv w ∧ w.archs.get i = some a ∧ SameCore a a')
      ⟨fun w hw a' w' hr => ?_⟩ fun a' => ?_
    · obtain ⟨⟨e1, e2⟩, hs⟩ := (registerHandler_ae a h w.archs w.entities).run w ⟨rfl, rfl⟩ a' w' hr
      refine ⟨?_, by rw [e1]; exact hw.2, hs⟩
      show StoreInv' w'.archs w'.entities
      rw [e1, e2]; exact hw.1
    · refine HoareOk.bind (R := fun _ => StoreInv) ⟨fun w hw u w' hr => ?_⟩ fun _ => HoareOk.pure fun _ h => h
      rw [run_setArch] at hr
      cases hr
      exact storeInv_set_sameStore hw.1 hw.2.1 (.of_sameCore hw.2.2)
  · exact HoareOk.ubErr _

theorem noPanic_registerAll (k : Key) : NoPanic (registerAll k) := by
  unfold registerAll
  have := noPanic_registerHandler
  nopanic
  exact this _ _

/-! ### `newArch`, `traverseInsert`, `traverseRemove` -/

/-- the entities are `E` -/
abbrev EN (E : SlotMap Loc) : World → Prop := fun w => w.entities = E

section ents
variable {E : SlotMap Loc}
theorem ubErr_en {α : Type} (s : String) : Keeps (EN E) (ubErr s : M α) := Keeps.throw _
local macro_rules | `(tactic| keeps_leaf) => `(tactic| exact ubErr_en _)
theorem dbgAssert_en (c : Bool) (s : String) : Keeps (EN E) (dbgAssert c s) := by unfold dbgAssert; keeps
local macro_rules | `(tactic| keeps_leaf) => `(tactic| exact dbgAssert_en _ _)
theorem handlerRefresh_en (hk : Key) (a : Arch) : Keeps (EN E) (handlerRefresh hk a) := by unfold handlerRefresh; keeps
local macro_rules | `(tactic| keeps_leaf) => `(tactic| exact handlerRefresh_en _ _)
theorem registerHandler_en (a : Arch) (h : HInfo) : Keeps (EN E) (a.registerHandler h) := by
  unfold Arch.registerHandler; keeps
local macro_rules | `(tactic| keeps_leaf) => `(tactic| exact registerHandler_en _ _)
theorem newArch_en (cs : List Nat) (a b : Option (Nat × Nat)) : Keeps (EN E) (newArch cs a b) := by
  unfold newArch; keeps
end ents

/-- `Archetype::new`: the slab gains one archetype without rows under the vacant key, the entities are untouched -/
theorem newArch_ae (cs : List Nat) (ei er : Option (Nat × Nat)) (A : Slab Arch) (E : SlotMap Loc) :
    HoareOk (fun w => w.archs = A ∧ w.entities = E) (newArch cs ei er)
      (fun idx w' => (idx = A.vacantKey ∧ ∃ a, w'.archs = A.insert a ∧ NewCore A.vacantKey cs ei er a) ∧
        w'.entities = E) :=
  HoareOk.and (C17.newArch_spec cs ei er A) (HoareOk.of_keeps (newArch_en cs ei er))

/-- what the traversals keep: the storage group and the slab's vacant list -/
def TravI (w : World) : Prop := StoreInv w ∧ Slab.WF w.archs

theorem newCore_archStoreOK {idx : Nat} {cs : List Nat} {ei er : Option (Nat × Nat)} {a : Arch}
    (h : NewCore idx cs ei er a) (hcs : cs.Pairwise (· < ·)) : ArchStoreOK idx a ∧ a.ids = [] := by
  obtain ⟨h1, h2, h3, h4, -, -⟩ := h
  refine ⟨⟨h1, ?_, ?_, ?_, ?_⟩, h4⟩
  · rw [h3, h2, List.length_map]
  · intro col hc
    rw [h3] at hc
    obtain ⟨_, -, rfl⟩ := List.mem_map.1 hc
    rw [h4]; rfl
  · rw [h2]; exact hcs
  · rw [h4]; exact Nat.zero_le _

theorem newArch_travI (cs : List Nat) (ei er : Option (Nat × Nat)) (hcs : cs.Pairwise (· < ·)) :
    HoareOk TravI (newArch cs ei er) (fun _ => TravI) := by
  refine ⟨fun w hw idx w' hr => ?_⟩
  obtain ⟨⟨-, a, ha, hn⟩, he⟩ := (newArch_ae cs ei er w.archs w.entities).run w ⟨rfl, rfl⟩ idx w' hr
  obtain ⟨hok, hids⟩ := newCore_archStoreOK hn hcs
  refine ⟨?_, ?_⟩
  · show StoreInv' w'.archs w'.entities
    rw [ha, he]
    exact storeInv_insert hw.1 hw.2 hok hids
  · rw [ha]; exact Slab.insert_wf hw.2 a

/-- reading an archetype -/
theorem getArch_travI (i : Nat) (s : String) :
    HoareOk TravI (getArch i s) (fun a w => TravI w ∧ w.archs.get i = some a) := by
  refine ⟨fun w hw a w' hr => ?_⟩
  rw [run_getArch'] at hr
  split at hr
  · next b hb => cases hr; exact ⟨hw, hb⟩
  · cases hr

/-- writing back a live archetype with other edges -/
theorem setArch_travI {i : Nat} {a a' : Arch} (hs : SameStore a a') :
    HoareOk (fun w => TravI w ∧ w.archs.get i = some a) (setArch a') (fun _ => TravI) := by
  refine ⟨fun w hw u w' hr => ?_⟩
  rw [run_setArch] at hr
  cases hr
  exact ⟨storeInv_set_sameStore hw.1.1 hw.2 hs, Slab.set_wf hw.1.2 _ _⟩

theorem sorted_of_travI {w : World} (h : TravI w) {i : Nat} {a : Arch} (ha : w.archs.get i = some a) :
    a.comps.Pairwise (· < ·) :=
  ((storeInv_iff.1 h.1).1 i a ha).sorted

theorem traverseInsert_travI (src c : Nat) : HoareOk TravI (traverseInsert src c) (fun _ => TravI) := by
  unfold traverseInsert
  refine HoareOk.get_bind fun w0 _ => ?_
  refine HoareOk.bind_inv (HoareOk.of_keeps (by unfold dbgAssert; keeps)) fun _ => ?_
  refine HoareOk.bind (getArch_travI src _) fun sa => ?_
  split
  · exact HoareOk.pure fun _ h => h.1
  · split
    · exact HoareOk.pure fun _ h => h.1
    · refine HoareOk.get_bind fun w1 hw1 => ?_
      split
      · exact HoareOk.bind (R := fun _ => TravI) (setArch_travI ⟨rfl, rfl, rfl, rfl, rfl⟩)
          fun _ => HoareOk.pure fun _ h => h
      · have hs := insertSorted_sorted (sorted_of_travI hw1.1 hw1.2) c
        refine HoareOk.bind (R := fun _ => TravI) (HoareOk.pre (newArch_travI _ _ _ hs) fun _ h => h.1) fun d => ?_
        refine HoareOk.bind (getArch_travI src _) fun sa2 => ?_
        exact HoareOk.bind (R := fun _ => TravI) (setArch_travI ⟨rfl, rfl, rfl, rfl, rfl⟩)
          fun _ => HoareOk.pure fun _ h => h

theorem traverseRemove_travI (src c : Nat) : HoareOk TravI (traverseRemove src c) (fun _ => TravI) := by
  unfold traverseRemove
  refine HoareOk.bind (getArch_travI src _) fun sa => ?_
  split
  · exact HoareOk.pure fun _ h => h.1
  · split
    · exact HoareOk.pure fun _ h => h.1
    · refine HoareOk.get_bind fun w1 hw1 => ?_
      split
      · exact HoareOk.bind (R := fun _ => TravI) (setArch_travI ⟨rfl, rfl, rfl, rfl, rfl⟩)
          fun _ => HoareOk.pure fun _ h => h
      · have hs := filter_ne_sorted (sorted_of_travI hw1.1 hw1.2) c
        refine HoareOk.bind (R := fun _ => TravI) (HoareOk.pre (newArch_travI _ _ _ hs) fun _ h => h.1) fun d => ?_
        refine HoareOk.bind (getArch_travI src _) fun sa2 => ?_
        exact HoareOk.bind (R := fun _ => TravI) (setArch_travI ⟨rfl, rfl, rfl, rfl, rfl⟩)
          fun _ => HoareOk.pure fun _ h => h

theorem noPanic_newArch (cs : List Nat) (ei er : Option (Nat × Nat)) : NoPanic (newArch cs ei er) := by
  unfold newArch
  have := noPanic_registerHandler
  nopanic
  all_goals first | exact this _ _ | exact noPanic_pure _

theorem noPanic_traverseInsert (src c : Nat) : NoPanic (traverseInsert src c) := by
  unfold traverseInsert
  have := noPanic_newArch
  nopanic
  all_goals exact this _ _ _

theorem noPanic_traverseRemove (src c : Nat) : NoPanic (traverseRemove src c) := by
  unfold traverseRemove
  have := noPanic_newArch
  nopanic
  all_goals exact this _ _ _

theorem travI_of_winvMid {w : World} (h : WInvMid w) : TravI w := ⟨h.store, h.1.slabWF⟩

end InvV2

/-- **`registerAll` keeps the storage group**: only `refresh` / `listeners` of archetypes (and handler caches) change -/
theorem registerAll_keeps_store : Obl.registerAll_keeps .store := by
  intro w k h handlers' hw _
  refine Hoare.pre (InvV2.hoare_of_ok_noPanic (InvV2.registerAll_storeInv k) (InvV2.noPanic_registerAll k)) ?_
  rintro w1 rfl
  exact hw.store

/-- **`removeHandlerPure` keeps the storage group** -/
theorem removeHandlerPure_keeps_store : Obl.removeHandlerPure_keeps .store := by
  intro w k h hw _
  show StoreInv' (removeHandlerPure w k h).archs (removeHandlerPure w k h).entities
  rw [(removeHandlerPure_frame w k h).2.1]
  refine InvV2.storeInv_map hw.store (·.dropHandler k h) (fun a => ?_)
    (removeHandlerPure_archs_get w k h hw.1.indexOK)
  exact ⟨dropHandler_index .., dropHandler_comps .., dropHandler_cols .., dropHandler_ids .., dropHandler_cap ..⟩

/-- **`traverseInsert` keeps the storage group**: old archetypes keep their rows, a new archetype has none -/
theorem traverseInsert_keeps_store : Obl.traverseInsert_keeps .store := fun src c =>
  InvV2.keepsG_of_ok (fun _ => traverseInsert_sl src c) (InvV2.noPanic_traverseInsert src c)
    (HoareOk.post (HoareOk.pre (InvV2.traverseInsert_travI src c) fun _ h => InvV2.travI_of_winvMid h) fun _ _ h => h.1)

/-- **`traverseRemove` keeps the storage group** -/
theorem traverseRemove_keeps_store : Obl.traverseRemove_keeps .store := fun src c =>
  InvV2.keepsG_of_ok (fun _ => traverseRemove_sl src c) (InvV2.noPanic_traverseRemove src c)
    (HoareOk.post (HoareOk.pre (InvV2.traverseRemove_travI src c) fun _ h => InvV2.travI_of_winvMid h) fun _ _ h => h.1)

example : Obl.traverseInsert_keeps .store := traverseInsert_keeps_store
example : Obl.traverseRemove_keeps .store := traverseRemove_keeps_store
example : Obl.registerAll_keeps .store := registerAll_keeps_store
example : Obl.removeHandlerPure_keeps .store := removeHandlerPure_keeps_store

end Evenio
