import Evenio.Proofs.WInv
/-! The archetype slab never shrinks: `entries.length` is non-decreasing along every model function except the
    top-level operation `drop`.  Hence the resource hypothesis `Small` on the FINAL state of a run holds in every
    intermediate state (`SlabMono.small`).  One `Keeps` lemma per model function, registered as a `keeps` leaf, exactly
    like `Frame.lean`. -/
namespace Evenio

/-- the slab has at least `n` entries, the targeted-event registry at least `n'` slots -/
abbrev SL (n : Nat × Nat) : World → Prop := fun w => n.1 ≤ w.archs.entries.length ∧ n.2 ≤ w.tevs.slots.length

/-- `m` never shrinks the slab nor the targeted-event slot map -/
def SlabMono {α : Type} (m : M α) : Prop := ∀ n, Keeps (SL n) m

theorem SlabMono.le {α : Type} {m : M α} (h : SlabMono m) (w : World) :
    w.archs.entries.length ≤ (m.run.run w).2.archs.entries.length ∧
    w.tevs.slots.length ≤ (m.run.run w).2.tevs.slots.length :=
  (h (w.archs.entries.length, w.tevs.slots.length)).run w ⟨Nat.le_refl _, Nat.le_refl _⟩

/-- `Small` of the final state gives `Small` of the initial state -/
theorem SlabMono.small {α : Type} {m : M α} (h : SlabMono m) {w : World} {r : Except Err α} {w' : World}
    (hr : m.run.run w = (r, w')) (hs : Small w') : Small w := by
  have := h.le w
  rw [hr] at this
  exact ⟨Nat.lt_of_le_of_lt this.1 hs.1, Nat.lt_of_le_of_lt this.2 hs.2⟩

namespace Slab
variable {α : Type}
theorem length_set (s : Slab α) (i : Nat) (a : α) : (s.set i a).entries.length = s.entries.length := by
  unfold set; split <;> simp
theorem length_insert (s : Slab α) (a : α) : s.entries.length ≤ (s.insert a).entries.length := by
  unfold insert
  dsimp only
  split
  · simp
  · split <;> simp
theorem length_remove {s s' : Slab α} {i : Nat} {a : α} (h : s.remove i = some (a, s')) :
    s'.entries.length = s.entries.length := by
  unfold remove at h
  split at h
  · cases h; simp
  · cases h
end Slab

namespace SlotMap
variable {α : Type}
theorem length_insertWith {sm sm' : SlotMap α} {f : Key → α} {k : Key} (h : sm.insertWith f = some (k, sm')) :
    sm.slots.length ≤ sm'.slots.length := by
  unfold insertWith at h
  split at h
  · cases h; simp
  · dsimp only at h
    split at h
    · cases h
    · cases h; simp
theorem length_remove {sm sm' : SlotMap α} {k : Key} {v : α} (h : sm.remove k = some (v, sm')) :
    sm'.slots.length = sm.slots.length := by
  unfold remove at h
  split at h
  · cases h
  · split at h
    · cases h
    · split at h
      · cases h
      · dsimp only at h
        split at h <;> (cases h; simp)
end SlotMap

variable {n : Nat × Nat}

/-- closes the goals `keeps` leaves: the writes to `archs` and `tevs` -/
syntax "monofix" : tactic
macro_rules | `(tactic| monofix) => `(tactic| first
  | (refine Keeps.modify fun w h => ?_; first
      | (refine ⟨?_, h.2⟩; show _ ≤ (Slab.set _ _ _).entries.length; rw [Slab.length_set]; exact h.1)
      | (refine ⟨?_, h.2⟩; show _ ≤ (Slab.insert _ _).entries.length; exact Nat.le_trans h.1 (Slab.length_insert _ _))
      | (split <;> exact h))
  | (refine Keeps.set ?_; have h := ‹_ ≤ _ ∧ _ ≤ _›; first
      | (refine ⟨?_, h.2⟩; show _ ≤ (Slab.set _ _ _).entries.length; rw [Slab.length_set]; exact h.1)
      | (refine ⟨?_, h.2⟩; show _ ≤ _; rw [Slab.length_remove ‹_›]; exact h.1)
      | (refine ⟨h.1, ?_⟩; show _ ≤ _; exact Nat.le_trans h.2 (SlotMap.length_insertWith ‹_›))
      | (refine ⟨h.1, ?_⟩; show _ ≤ _; rw [SlotMap.length_remove ‹_›]; exact h.2)))

theorem logT_sl (s : String) : Keeps (SL n) (logT s) := by unfold logT; keeps
macro_rules | `(tactic| keeps_leaf) => `(tactic| exact logT_sl _)
theorem ubErr_sl {α : Type} (s : String) : Keeps (SL n) ((ubErr s : M α)) := by unfold ubErr; keeps
macro_rules | `(tactic| keeps_leaf) => `(tactic| exact ubErr_sl _)
theorem dbgAssert_sl (c : Bool) (s : String) : Keeps (SL n) (dbgAssert c s) := by unfold dbgAssert; keeps
macro_rules | `(tactic| keeps_leaf) => `(tactic| exact dbgAssert_sl _ _)
theorem dropCell_sl (ty : Nat) (c : Cell) : Keeps (SL n) (dropCell ty c) := by unfold dropCell; keeps
macro_rules | `(tactic| keeps_leaf) => `(tactic| exact dropCell_sl _ _)
theorem dropCellIdx_sl (ty : Nat) (c : Cell) : Keeps (SL n) (dropCellIdx ty c) := by unfold dropCellIdx; keeps
macro_rules | `(tactic| keeps_leaf) => `(tactic| exact dropCellIdx_sl _ _)
theorem dropEvent_sl (it : QItem) : Keeps (SL n) (dropEvent it) := by unfold dropEvent; keeps
macro_rules | `(tactic| keeps_leaf) => `(tactic| exact dropEvent_sl _)
theorem handlerRefresh_sl (hk : Key) (a : Arch) : Keeps (SL n) (handlerRefresh hk a) := by unfold handlerRefresh; keeps
macro_rules | `(tactic| keeps_leaf) => `(tactic| exact handlerRefresh_sl _ _)
theorem handlerRemoveArch_sl (hk : Key) (a : Arch) : Keeps (SL n) (handlerRemoveArch hk a) := by unfold handlerRemoveArch; keeps
macro_rules | `(tactic| keeps_leaf) => `(tactic| exact handlerRemoveArch_sl _ _)
theorem getArch_sl (i : Nat) (s : String) : Keeps (SL n) (getArch i s) := by unfold getArch; keeps
macro_rules | `(tactic| keeps_leaf) => `(tactic| exact getArch_sl _ _)
theorem setArch_sl (a : Arch) : Keeps (SL n) (setArch a) := by
  unfold setArch; monofix
macro_rules | `(tactic| keeps_leaf) => `(tactic| exact setArch_sl _)
theorem freshEpoch_sl : Keeps (SL n) (freshEpoch) := by unfold freshEpoch; keeps
macro_rules | `(tactic| keeps_leaf) => `(tactic| exact freshEpoch_sl)
theorem registerHandler_sl (a : Arch) (h : HInfo) : Keeps (SL n) (a.registerHandler h) := by unfold Arch.registerHandler; keeps
macro_rules | `(tactic| keeps_leaf) => `(tactic| exact registerHandler_sl _ _)
theorem archSpawn_sl (id : Key) : Keeps (SL n) (archSpawn id) := by unfold archSpawn; keeps
macro_rules | `(tactic| keeps_leaf) => `(tactic| exact archSpawn_sl _)
theorem reserve_sl : Keeps (SL n) (reserve) := by unfold reserve; keeps
macro_rules | `(tactic| keeps_leaf) => `(tactic| exact reserve_sl)
theorem spawnAll_sl : Keeps (SL n) (spawnAll) := by unfold spawnAll; keeps
macro_rules | `(tactic| keeps_leaf) => `(tactic| exact spawnAll_sl)
theorem resRefresh_sl : Keeps (SL n) (resRefresh) := by unfold resRefresh; keeps
macro_rules | `(tactic| keeps_leaf) => `(tactic| exact resRefresh_sl)
theorem setLoc_sl (id : Key) (s : String) (f : Loc → Loc) : Keeps (SL n) (setLoc id s f) := by unfold setLoc; keeps
macro_rules | `(tactic| keeps_leaf) => `(tactic| exact setLoc_sl _ _ _)
theorem newArch_sl (cs : List Nat) (a b : Option (Nat × Nat)) : Keeps (SL n) (newArch cs a b) := by
  unfold newArch; keeps
  all_goals monofix
macro_rules | `(tactic| keeps_leaf) => `(tactic| exact newArch_sl _ _ _)
theorem traverseInsert_sl (src c : Nat) : Keeps (SL n) (traverseInsert src c) := by unfold traverseInsert; keeps
macro_rules | `(tactic| keeps_leaf) => `(tactic| exact traverseInsert_sl _ _)
theorem traverseRemove_sl (src c : Nat) : Keeps (SL n) (traverseRemove src c) := by unfold traverseRemove; keeps
macro_rules | `(tactic| keeps_leaf) => `(tactic| exact traverseRemove_sl _ _)
theorem moveEntity_sl (src : Loc) (dst : Nat) (new : List (Nat × Cell)) : Keeps (SL n) (moveEntity src dst new) := by unfold moveEntity; keeps
macro_rules | `(tactic| keeps_leaf) => `(tactic| exact moveEntity_sl _ _ _)
theorem removeEntity_sl (loc : Loc) : Keeps (SL n) (removeEntity loc) := by unfold removeEntity; keeps
macro_rules | `(tactic| keeps_leaf) => `(tactic| exact removeEntity_sl _)
theorem push_sl (it : QItem) : Keeps (SL n) (push it) := by unfold push; keeps
macro_rules | `(tactic| keeps_leaf) => `(tactic| exact push_sl _)
theorem takeBudget_sl : Keeps (SL n) (takeBudget) := by unfold takeBudget; keeps
macro_rules | `(tactic| keeps_leaf) => `(tactic| exact takeBudget_sl)
theorem freshE_sl : Keeps (SL n) (freshE) := by unfold freshE; keeps
macro_rules | `(tactic| keeps_leaf) => `(tactic| exact freshE_sl)
theorem freshC_sl : Keeps (SL n) (freshC) := by unfold freshC; keeps
macro_rules | `(tactic| keeps_leaf) => `(tactic| exact freshC_sl)
theorem senderPush_sl (h : HInfo) (it : QItem) : Keeps (SL n) (senderPush h it) := by unfold senderPush; keeps
macro_rules | `(tactic| keeps_leaf) => `(tactic| exact senderPush_sl _ _)
theorem paramRows_sl (p : Param) : Keeps (SL n) (paramRows p) := by unfold paramRows; keeps
macro_rules | `(tactic| keeps_leaf) => `(tactic| exact paramRows_sl _)
theorem itemAt_sl (st : AS) (a : Arch) (row : Nat) : Keeps (SL n) (itemAt st a row) := by unfold itemAt; keeps
macro_rules | `(tactic| keeps_leaf) => `(tactic| exact itemAt_sl _ _ _)
theorem paramGet_sl (p : Param) (id : Key) : Keeps (SL n) (paramGet p id) := by unfold paramGet; keeps
macro_rules | `(tactic| keeps_leaf) => `(tactic| exact paramGet_sl _ _)
theorem bumpCell_sl (ai row c : Nat) : Keeps (SL n) (bumpCell ai row c) := by unfold bumpCell; keeps
macro_rules | `(tactic| keeps_leaf) => `(tactic| exact bumpCell_sl _ _ _)
theorem getParam_sl (h : HInfo) (p : Nat) : Keeps (SL n) (getParam h p) := by unfold getParam; keeps
macro_rules | `(tactic| keeps_leaf) => `(tactic| exact getParam_sl _ _)
theorem runAct_sl (hk : Key) (it : QItem) (loc : Loc) (act : Act) : Keeps (SL n) (runAct hk it loc act) := by unfold runAct; keeps
macro_rules | `(tactic| keeps_leaf) => `(tactic| exact runAct_sl _ _ _ _)
theorem runHandler_sl (hk : Key) (it : QItem) (loc : Loc) : Keeps (SL n) (runHandler hk it loc) := by unfold runHandler; keeps
macro_rules | `(tactic| keeps_leaf) => `(tactic| exact runHandler_sl _ _ _)
theorem deliverOne_sl (it : QItem) : Keeps (SL n) (deliverOne it) := by unfold deliverOne; keeps
macro_rules | `(tactic| keeps_leaf) => `(tactic| exact deliverOne_sl _)
theorem dropQueued_sl : Keeps (SL n) (dropQueued) := by unfold dropQueued; keeps
macro_rules | `(tactic| keeps_leaf) => `(tactic| exact dropQueued_sl)
theorem sl_queueBlind : QueueBlind (SL n) := fun _ _ _ h => h
theorem flush_sl (fuel : Nat) : Keeps (SL n) (flush fuel) :=
  flushWith_keeps sl_queueBlind deliverOne_sl dropQueued_sl fuel
macro_rules | `(tactic| keeps_leaf) => `(tactic| exact flush_sl _)
theorem ensureAddG_sl : Keeps (SL n) (ensureAddG) := by unfold ensureAddG; keeps
macro_rules | `(tactic| keeps_leaf) => `(tactic| exact ensureAddG_sl)
theorem addGlobalEvent_sl (ty : EvTy) : Keeps (SL n) (addGlobalEvent ty) := by unfold addGlobalEvent; keeps
macro_rules | `(tactic| keeps_leaf) => `(tactic| exact addGlobalEvent_sl _)
theorem sendGlobal_sl (ty : EvTy) (pay : Payload) : Keeps (SL n) (sendGlobal ty pay) := by unfold sendGlobal; keeps
macro_rules | `(tactic| keeps_leaf) => `(tactic| exact sendGlobal_sl _ _)
theorem addComponent_sl (ty : Nat) : Keeps (SL n) (addComponent ty) := by unfold addComponent; keeps
macro_rules | `(tactic| keeps_leaf) => `(tactic| exact addComponent_sl _)
theorem addTargetedEvent_sl (ty : EvTy) : Keeps (SL n) (addTargetedEvent ty) := by
  unfold addTargetedEvent; keeps
  all_goals monofix
macro_rules | `(tactic| keeps_leaf) => `(tactic| exact addTargetedEvent_sl _)
theorem addEvent_sl (ty : EvTy) : Keeps (SL n) (addEvent ty) := by unfold addEvent; keeps
macro_rules | `(tactic| keeps_leaf) => `(tactic| exact addEvent_sl _)
theorem sendTargeted_sl (ty : EvTy) (tg : Key) (pay : Payload) : Keeps (SL n) (sendTargeted ty tg pay) := by unfold sendTargeted; keeps
macro_rules | `(tactic| keeps_leaf) => `(tactic| exact sendTargeted_sl _ _ _)
theorem initQuery_sl (q : Query) (cfg : Config) : Keeps (SL n) (initQuery q cfg) := by unfold initQuery; keeps
macro_rules | `(tactic| keeps_leaf) => `(tactic| exact initQuery_sl _ _)
theorem initParam_sl (ps : PSpec) (cfg : Config) : Keeps (SL n) (initParam ps cfg) := by unfold initParam; keeps
macro_rules | `(tactic| keeps_leaf) => `(tactic| exact initParam_sl _ _)
theorem addHandler_sl (hs : HSpec) : Keeps (SL n) (addHandler hs) := by unfold addHandler; keeps
macro_rules | `(tactic| keeps_leaf) => `(tactic| exact addHandler_sl _)
theorem removeHandler_sl (k : Key) : Keeps (SL n) (removeHandler k) := by unfold removeHandler; keeps
macro_rules | `(tactic| keeps_leaf) => `(tactic| exact removeHandler_sl _)
theorem assertQueueEmpty_sl : Keeps (SL n) (assertQueueEmpty) := by unfold assertQueueEmpty; keeps
macro_rules | `(tactic| keeps_leaf) => `(tactic| exact assertQueueEmpty_sl)
theorem removeEvent_sl (ty : EvTy) (k : Key) : Keeps (SL n) (removeEvent ty k) := by
  unfold removeEvent; keeps
  all_goals monofix
macro_rules | `(tactic| keeps_leaf) => `(tactic| exact removeEvent_sl _ _)
theorem archsRemoveComponent_sl (info : CompInfo) : Keeps (SL n) (archsRemoveComponent info) := by
  unfold archsRemoveComponent; keeps
  all_goals monofix
macro_rules | `(tactic| keeps_leaf) => `(tactic| exact archsRemoveComponent_sl _)
theorem removeComponent_sl (k : Key) : Keeps (SL n) (removeComponent k) := by unfold removeComponent; keeps
macro_rules | `(tactic| keeps_leaf) => `(tactic| exact removeComponent_sl _)
theorem opSpawn_sl : Keeps (SL n) (opSpawn) := by unfold opSpawn; keeps
macro_rules | `(tactic| keeps_leaf) => `(tactic| exact opSpawn_sl)

/-- every top-level operation except `drop` (which empties the slab) -/
theorem execOp_sl (op : Op) (hd : op ≠ .drop) : Keeps (SL n) (execOp op) := by
  unfold execOp
  cases op <;> first | exact (hd rfl).elim | keeps

end Evenio
