import Evenio.Proofs.Inv.Glue2
import Evenio.Proofs.Inv.QEDefs
import Evenio.Proofs.Inv.QueueEmpty
import Evenio.Proofs.Inv.GlueTop
import Evenio.Proofs.Inv.TevTyped
import Evenio.Proofs.Inv.RemoveComp
import Evenio.Proofs.Inv.Final
import Evenio.Proofs.Inv.CounterexampleV7
import Evenio.Proofs.Inv.CompIdV7
import Evenio.Proofs.Inv.FinalAux
/-! Everything of the assembler (V7): `lake build Evenio.Proofs.Inv.AllV7`. -/
