import Evenio.Proofs.Inv.GraphShape
import Evenio.Proofs.Inv.GraphReg
import Evenio.Proofs.Inv.GraphTraverseRun
import Evenio.Proofs.Inv.GraphDropRun
import Evenio.Proofs.Inv.CompId
/-! # G1 — the graph group: all obligations

The proofs live in `GraphShape.lean` (the congruence of `GraphInv`, every piece that only rewrites fields the group does
not read), `GraphReg.lean` (`removeHandlerPure`, `registerAll`, `regComp`), `GraphTraverse.lean` + `GraphTraverseRun.lean` (`traverseInsert` /
`traverseRemove`: a new archetype) and `GraphDrop.lean` + `GraphDropRun.lean` (`removeComponent`: archetypes are removed).  This file states
them under the names of `WInvPlan.md`. -/
namespace Evenio

/-! ### section A -/
theorem reserve_keeps_graph : Obl.reserve_keeps .graph := InvV1.reserve_keeps_graph
theorem bumpCell_keeps_graph : Obl.bumpCell_keeps .graph := InvV1.bumpCell_keeps_graph
theorem spawnAll_keeps_graph : Obl.spawnAll_keeps .graph := InvV1.spawnAll_keeps_graph
theorem moveEntity_keeps_graph : Obl.moveEntity_keeps .graph := InvV1.moveEntity_keeps_graph
theorem removeEntity_keeps_graph : Obl.removeEntity_keeps .graph := InvV1.removeEntity_keeps_graph
theorem traverseInsert_keeps_graph : Obl.traverseInsert_keeps .graph := InvV1.traverseInsert_keeps_graph
theorem traverseRemove_keeps_graph : Obl.traverseRemove_keeps .graph := InvV1.traverseRemove_keeps_graph

/-! ### section B -/
theorem regGev_keeps_graph : Obl.regGev_keeps .graph := InvV1.regGev_keeps_graph
theorem regComp_keeps_graph : Obl.regComp_keeps .graph := InvV1.regComp_keeps_graph
theorem regTev_keeps_graph : Obl.regTev_keeps .graph := InvV1.regTev_keeps_graph
theorem registerAll_keeps_graph : Obl.registerAll_keeps .graph := InvV1.registerAll_keeps_graph
theorem removeHandlerPure_keeps_graph : Obl.removeHandlerPure_keeps .graph := InvV1.removeHandlerPure_keeps_graph
theorem removeEventFinish_keeps_graph : Obl.removeEventFinish_keeps .graph := InvV1.removeEventFinish_keeps_graph
theorem setGen_keeps_graph : Obl.setGen_keeps .graph := InvV1.setGen_keeps_graph

/-- `Obl.dropComp_keeps .graph` with ONE extra hypothesis, `info.id.idx = k.idx`: no conjunct of `WInv` says that a
    registry entry knows its own key (`w.comps.get k = some ci → ci.id = k`), but `archsRemoveComponent info` removes the
    component `info.id.idx`.  The invariant `CompIdInv` of `Inv/CompId.lean` provides the hypothesis. -/
theorem dropComp_keeps_graph_partial :
    ∀ (w : World) (k : Key) (info : CompInfo) (comps' : SlotMap CompInfo), WInvMid w → CompUnused w k info →
      w.comps.remove k = some (info, comps') → info.id.idx = k.idx →
      Hoare (fun w1 => w1 = Step.dropComp w k comps') (dropCompTail info) (fun _ w' => Group.graph.pred w')
        (PanicOnly Group.graph.pred) :=
  InvV1.dropComp_keeps_graph_partial

/-- **`dropCompTail` never panics** (requested by the assembler): `members` exactness makes every `archs.remove` of
    `archsRemoveComponent` succeed -/
theorem dropComp_noPanic :
    ∀ (w : World) (k : Key) (info : CompInfo) (comps' : SlotMap CompInfo) (e : Err) (w' : World), WInvMid w →
      CompUnused w k info → info.id = k → w.comps.remove k = some (info, comps') →
      (dropCompTail info).run.run (Step.dropComp w k comps') = (.error e, w') → e.isPanic = false :=
  InvV1.dropComp_noPanic

/-- `Obl.dropComp_keeps .graph` from `WInvMid ∧ CompIdInv` (the invariant the assembler carries) -/
theorem dropComp_keeps_graph_of_compId :
    ∀ (w : World) (k : Key) (info : CompInfo) (comps' : SlotMap CompInfo), WInvMid w → CompIdInv w →
      CompUnused w k info → w.comps.remove k = some (info, comps') →
      Hoare (fun w1 => w1 = Step.dropComp w k comps') (dropCompTail info) (fun _ w' => Group.graph.pred w')
        (PanicOnly Group.graph.pred) :=
  fun w k info comps' hw hc hu hr =>
    dropComp_keeps_graph_partial w k info comps' hw hu hr (by rw [hc.of_remove hr])

end Evenio
