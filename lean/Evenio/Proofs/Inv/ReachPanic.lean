import Evenio.Proofs.Inv.Instance
/-! # Reachability through PANICKING operations

`Reach` (Inv/Obligations.lean) only follows operations that return normally (`StepOk`).  The library's documented
behaviour (property C13) is that a panic — a panicking handler, or a documented panic of the library such as a `Single`
that does not match — unwinds to the caller, who goes on using the world.  `execOp_keeps_invariant` (Inv/Instance.lean)
says what such a world looks like: every structural group of the invariant holds again, SOME reservation state is
consistent (`WInvMid = WInv ∧ ReservedSome`), the auxiliary invariant `AuxInv` holds and — unless the panic is the model's
own fuel marker `"model:fuel"` — the event queue is empty.  What may be lost is `Quiescent`: a reservation made before
the panic stays pending (finding F8: the real library leaks it, too).

This file extends the reachability theorem accordingly:

* `StepPanic w op` — `op`, run by `step` from `w`, ended in a panic other than `"model:fuel"`;
* `ReachP` — `Reach` plus the constructor `panic`: a panicking step may be followed if it left NO reservation pending,
  `(step w op).1.resCount = 0`.  This is a decidable runtime fact about the world after the panic (the `pend res=…`
  observation line of `step` prints it); it is exactly the absence of F8.  No side condition on `resIndex` is needed:
  `Reserved w ks` contains `w.resCount = ks.length`, so with `ReservedSome` the count alone forces `ks = []`;
* `reachableP_WInv`, `reachableP_InvPlus` — the reachability theorems for `ReachP`, no hypothesis left;
* `reachableP_panic_structural` (and the stronger `reachableP_panic_mid`) — the unconditional half, for ALL panics,
  with or without pending reservations: after any panic of a valid operation from a `ReachP` world, `WInv` holds and
  the queue is empty (and `ReservedSome`, `AuxInv`);
* `reach_reachP`: `Reach w → ReachP w`;
* non-vacuity (namespace `PanicEx`, runs evaluated by the kernel): `reachP_w2` — a world in `ReachP` whose last step is
  a panicking handler; `reachP_w4` — the history goes on (spawn, another panic) and the theorems apply;
  `reachP_v2` — a documented panic of the library (`Sender::send` outside the event set); `u2_structural`,
  `u2_not_quiescent` — F8: a panic that leaves a reservation pending, covered by the structural half only.
  NOT kernel-evaluable: any handler with a query parameter (`Single`, `Fetcher`, targeted receiver) — `addHandler`
  then runs `CA.and`, whose `mergeCase` (Model/Access.lean) is compiled by well-founded recursion and is stuck under
  kernel reduction (`decide +kernel` on `mergeCase [] [] = some []` already fails); so the "`Single` that does not
  match" example is only confirmed by `#eval` (`panic single`, `pend res=0 queue=0`). -/
namespace Evenio
open InvV7

/-- the operation ended in a panic — a panicking handler or a documented panic of the library — other than the model's
    own fuel marker.  (`step` maps `.error (.panic cls)` to the observation line `panic cls` and keeps the state the
    monadic run left: `step_fst`.) -/
def StepPanic (w : World) (op : Op) : Prop :=
  ∃ cls, ((execOp op).run.run (stepInit w)).1 = .error (.panic cls) ∧ cls ≠ "model:fuel"

/-- the worlds the driver reaches by valid operations that return normally OR end in a panic (other than the fuel
    marker) that leaves no reservation pending -/
inductive ReachP : World → Prop
  | init : ReachP {}
  | step {w : World} (op : Op) : ReachP w → op.Valid → StepOk w op → ReachP (step w op).1
  | panic {w : World} (op : Op) : ReachP w → op.Valid → StepPanic w op → (step w op).1.resCount = 0 →
      ReachP (step w op).1

/-- histories without panics are histories -/
theorem reach_reachP {w : World} (h : Reach w) : ReachP w := by
  induction h with
  | init => exact .init
  | step op _ hv hok ih => exact .step op ih hv hok

/-! ### reservations: a consistent reservation state with count 0 is the empty one -/

/-- `Reserved w ks` contains `w.resCount = ks.length`: with count 0 the consistent reservation state is the empty one
    (so the cursor `resIndex` is the slot map's `nextKeyIndex`: no extra side condition on `resIndex` is needed) -/
theorem reserved_nil_of_reservedSome {w : World} (h : ReservedSome w) (hc : w.resCount = 0) : Reserved w [] := by
  obtain ⟨ks, hk⟩ := h
  have hl : ks.length = 0 := hk.2.1.symm.trans hc
  cases ks with
  | nil => exact hk
  | cons k ks => cases hl

/-- … conversely, `Reserved w []` has count 0: the side condition of `ReachP.panic` is necessary for `Quiescent` -/
theorem resCount_of_reserved_nil {w : World} (h : Reserved w []) : w.resCount = 0 := h.2.1

/-- after a panic: `WInvMid`, an empty queue and no reservation counted is `WInv ∧ Quiescent` -/
theorem quiescent_of_mid {w : World} (h : WInvMid w) (hq : w.queue = []) (hc : w.resCount = 0) : Quiescent w :=
  ⟨hq, reserved_nil_of_reservedSome h.2 hc⟩

/-! ### one panicking step -/

/-- the world `step` runs `execOp` in, from a quiescent world satisfying the invariants -/
theorem gqa_stepInit {w : World} (hW : WInv w) (hQ : Quiescent w) (hA : AuxInv w) : GQA AuxInv (stepInit w) := fun _ =>
  ⟨hW.frame (stepInit_relEq w), Quiescent.of_res hQ rfl, auxInv.frame w _ rfl rfl hA⟩

/-- **one panicking step from ANY quiescent world satisfying the invariants**: every structural group holds again, some
    reservation state is consistent, the auxiliary invariant holds and the queue is empty -/
theorem step_panic_keeps (w : World) (op : Op) (hW : WInv w) (hQ : Quiescent w) (hA : AuxInv w) (hv : op.Valid)
    (hp : StepPanic w op) (hs : Small (step w op).1) :
    WInvMid (step w op).1 ∧ AuxInv (step w op).1 ∧ (step w op).1.queue = [] := by
  have r := (execOp_keeps_invariant op hv).run (stepInit w) (gqa_stepInit hW hQ hA)
  obtain ⟨cls, hcls, hne⟩ := hp
  rw [step_fst] at hs ⊢
  generalize (execOp op).run.run (stepInit w) = res at r hcls hs
  obtain ⟨(e|a), w'⟩ := res
  · cases hcls
    obtain ⟨h1, h2, h3⟩ := r rfl hs
    exact ⟨h1, h2, h3 fun h => hne (by cases h; rfl)⟩
  · cases hcls

/-- … and, if the panic left no reservation pending, the world is quiescent again -/
theorem step_panic_keeps_quiescent (w : World) (op : Op) (hW : WInv w) (hQ : Quiescent w) (hA : AuxInv w)
    (hv : op.Valid) (hp : StepPanic w op) (hc : (step w op).1.resCount = 0) (hs : Small (step w op).1) :
    WInv (step w op).1 ∧ Quiescent (step w op).1 ∧ AuxInv (step w op).1 := by
  obtain ⟨h1, h2, h3⟩ := step_panic_keeps w op hW hQ hA hv hp hs
  exact ⟨h1.1, quiescent_of_mid h1 h3 hc, h2⟩

/-- the auxiliary invariant is kept by `step` on every exit -/
theorem step_auxInv (w : World) (op : Op) (hA : AuxInv w) : AuxInv (step w op).1 := by
  rw [step_fst]
  exact (auxInv.execOp op).run _ (auxInv.frame w _ rfl rfl hA)

/-! ### the reachability theorems -/

/-- worlds reachable through normal returns and reservation-free panics satisfy the invariants -/
theorem reachableP_all (w : World) (h : ReachP w) : (Small w → WInv w ∧ Quiescent w) ∧ AuxInv w := by
  induction h with
  | init => exact ⟨fun _ => ⟨winv_init, quiescent_init⟩, auxInv.init⟩
  | @step w op _ hv hok ih =>
    refine ⟨fun hs => ?_, step_auxInv w op ih.2⟩
    obtain ⟨hW, hQ⟩ := ih.1 (small_of_step' w op hv hs)
    obtain ⟨h1, h2, -⟩ := step_keeps pieces auxInv w op hW hQ ih.2 hv hok hs
    exact ⟨h1, h2⟩
  | @panic w op _ hv hp hc ih =>
    refine ⟨fun hs => ?_, step_auxInv w op ih.2⟩
    obtain ⟨hW, hQ⟩ := ih.1 (small_of_step' w op hv hs)
    obtain ⟨h1, h2, -⟩ := step_panic_keeps_quiescent w op hW hQ ih.2 hv hp hc hs
    exact ⟨h1, h2⟩

/-- **every world the driver reaches by valid operations that return normally or panic without leaving a reservation
    pending satisfies the logical world invariant and is quiescent** -/
theorem reachableP_WInv : ∀ w, ReachP w → Small w → WInv w ∧ Quiescent w :=
  fun w h hs => (reachableP_all w h).1 hs

/-- **… and therefore the executable invariant `InvPlus`** -/
theorem reachableP_InvPlus : ∀ w, ReachP w → Small w → w.InvPlus = true := fun w h hs => by
  obtain ⟨h1, h2⟩ := reachableP_WInv w h hs
  exact winv_implies_InvPlus h1 h2 (execPieces.execLeft h1)

/-- the auxiliary invariant in every such world (no resource bound needed) -/
theorem reachableP_auxInv : ∀ w, ReachP w → AuxInv w := fun w h => (reachableP_all w h).2

/-- **after ANY panic** (other than the fuel marker) of a valid operation from such a world — with or without pending
    reservations —: every structural group of the invariant holds, SOME reservation state is consistent
    (`ReservedSome`), the auxiliary invariant holds, and the queue is empty -/
theorem reachableP_panic_mid {w : World} {op : Op} (h : ReachP w) (hv : op.Valid) (hp : StepPanic w op)
    (hs : Small (step w op).1) :
    WInvMid (step w op).1 ∧ AuxInv (step w op).1 ∧ (step w op).1.queue = [] := by
  obtain ⟨hW, hQ⟩ := reachableP_WInv w h (small_of_step' w op hv hs)
  exact step_panic_keeps w op hW hQ (reachableP_auxInv w h) hv hp hs

/-- **the unconditional half**: after any panic every structural group of the invariant holds and the queue is empty -/
theorem reachableP_panic_structural {w : World} {op : Op} (h : ReachP w) (hv : op.Valid) (hp : StepPanic w op)
    (hs : Small (step w op).1) : WInv (step w op).1 ∧ (step w op).1.queue = [] := by
  obtain ⟨h1, -, h3⟩ := reachableP_panic_mid h hv hp hs
  exact ⟨h1.1, h3⟩

/-- for completeness, ANY panic class, the model's fuel marker `"model:fuel"` included (an artefact of the model: the
    real library has no fuel): the structural groups, `ReservedSome` and the auxiliary invariant hold; only the queue
    need not be empty, which is why `StepPanic` excludes that class -/
theorem reachableP_panic_any {w : World} {op : Op} {cls : String} (h : ReachP w) (hv : op.Valid)
    (hp : ((execOp op).run.run (stepInit w)).1 = .error (.panic cls)) (hs : Small (step w op).1) :
    WInvMid (step w op).1 ∧ AuxInv (step w op).1 := by
  obtain ⟨hW, hQ⟩ := reachableP_WInv w h (small_of_step' w op hv hs)
  have r := (execOp_keeps_invariant op hv).run (stepInit w) (gqa_stepInit hW hQ (reachableP_auxInv w h))
  rw [step_fst] at hs ⊢
  generalize (execOp op).run.run (stepInit w) = res at r hp hs
  obtain ⟨(e|a), w'⟩ := res
  · cases hp
    obtain ⟨h1, h2, -⟩ := r rfl hs
    exact ⟨h1, h2⟩
  · cases hp

/-- the side condition of `ReachP.panic` is exactly what separates the world after a panic from a quiescent one -/
theorem reachableP_panic_quiescent_iff {w : World} {op : Op} (h : ReachP w) (hv : op.Valid) (hp : StepPanic w op)
    (hs : Small (step w op).1) : Quiescent (step w op).1 ↔ (step w op).1.resCount = 0 := by
  obtain ⟨h1, -, h3⟩ := reachableP_panic_mid h hv hp hs
  exact ⟨fun hq => resCount_of_reserved_nil hq.2, fun hc => quiescent_of_mid h1 h3 hc⟩

/-! ## non-vacuity: concrete histories through panics, evaluated by the kernel

The runs are closed terms: `decide +kernel` evaluates `execOp` on them (no axiom beyond the three standard ones;
no `native_decide`). -/

/-- executable form of `StepOk` -/
def stepOkB (w : World) (op : Op) : Bool :=
  match ((execOp op).run.run (stepInit w)).1 with
  | .ok _ => true
  | .error _ => false

/-- executable form of `StepPanic` -/
def stepPanicB (w : World) (op : Op) : Bool :=
  match ((execOp op).run.run (stepInit w)).1 with
  | .error (.panic cls) => cls != "model:fuel"
  | _ => false

theorem stepOk_of_check {w : World} {op : Op} (h : stepOkB w op = true) : StepOk w op := by
  unfold stepOkB at h
  unfold StepOk
  generalize ((execOp op).run.run (stepInit w)).1 = r at h
  cases r with
  | ok l => exact ⟨l, rfl⟩
  | error e => cases h

theorem stepPanic_of_check {w : World} {op : Op} (h : stepPanicB w op = true) : StepPanic w op := by
  unfold stepPanicB at h
  unfold StepPanic
  generalize ((execOp op).run.run (stepInit w)).1 = r at h
  cases r with
  | ok l => cases h
  | error e =>
    cases e with
    | panic cls => exact ⟨cls, rfl, by simpa using h⟩
    | ub s => cases h
    | «assert» s => cases h

namespace PanicEx

/- the elaborator must not try to evaluate `step` when it unifies `w2` with `(step w1 op).1`: only the kernel does
   (in `checks1` … `checks3`) -/
attribute [local irreducible] step

/-- a handler that receives the global event `G0` and panics -/
def hPanic : HSpec := { name := "p", params := [.recv (.g 0) false none], body := [.panic] }
/-- a handler that receives `G0`, may send `G1`, and sends `G2`: `Sender::send` of an event that is not in the sender's
    event set is a DOCUMENTED panic of the library (`panic noteventset`) -/
def hNotInSet : HSpec :=
  { name := "n", params := [.recv (.g 0) false none, .snd [.g 1]], body := [.send 2] }
/-- **F8**: a handler that spawns an entity through its `Sender` (the id is reserved at once) and then panics -/
def hF8 : HSpec :=
  { name := "f", params := [.recv (.g 0) false none, .snd [.spawn]], body := [.spawn, .panic] }

theorem hPanic_valid : (Op.addh hPanic).Valid := by
  intro ps hps q he; subst he; simp [hPanic] at hps
theorem hNotInSet_valid : (Op.addh hNotInSet).Valid := by
  intro ps hps q he; subst he; simp [hNotInSet] at hps
theorem hF8_valid : (Op.addh hF8).Valid := by
  intro ps hps q he; subst he; simp [hF8] at hps

/-- the world with the panicking handler -/
def w1 : World := (step {} (.addh hPanic)).1
/-- … after `send G0`: the handler panicked (`panic user`) -/
def w2 : World := (step w1 (.send 0)).1
/-- … and the caller goes on: `spawn`, then `send G0` again (panics again) -/
def w3 : World := (step w2 .spawn).1
def w4 : World := (step w3 (.send 0)).1

set_option maxRecDepth 1000000 in
theorem checks1 :
    stepOkB {} (.addh hPanic) = true ∧ stepPanicB w1 (.send 0) = true ∧ w2.resCount = 0 ∧
    stepOkB w2 .spawn = true ∧ stepPanicB w3 (.send 0) = true ∧ w4.resCount = 0 ∧ w4.entities.len = 1 := by
  decide +kernel

theorem reachP_w1 : ReachP w1 :=
  ReachP.step (w := {}) (.addh hPanic) .init hPanic_valid (stepOk_of_check checks1.1)

/-- **a world in `ReachP` reached through a PANICKING operation** (a handler with body `[panic]` receiving `G0`) -/
theorem reachP_w2 : ReachP w2 :=
  ReachP.panic (w := w1) (.send 0) reachP_w1 trivial (stepPanic_of_check checks1.2.1) checks1.2.2.1

theorem reachP_w3 : ReachP w3 :=
  ReachP.step (w := w2) .spawn reachP_w2 trivial (stepOk_of_check checks1.2.2.2.1)

/-- the history goes on after the panic, through another normal return and another panic -/
theorem reachP_w4 : ReachP w4 :=
  ReachP.panic (w := w3) (.send 0) reachP_w3 trivial (stepPanic_of_check checks1.2.2.2.2.1) checks1.2.2.2.2.2.1

/-- the last step to `w2` did not return normally: `Reach.step` does not apply to it -/
theorem w2_lastStep_not_ok : ¬ StepOk w1 (.send 0) := by
  intro ⟨l, hl⟩
  obtain ⟨cls, hc, -⟩ := stepPanic_of_check checks1.2.1
  rw [hc] at hl; cases hl

set_option maxRecDepth 1000000 in
theorem small_w4 : Small w4 := by unfold Small; decide +kernel

/-- the theorems apply: the invariant, logical and executable, in the world after two panics -/
example : WInv w4 ∧ Quiescent w4 := reachableP_WInv w4 reachP_w4 small_w4
example : w4.InvPlus = true := reachableP_InvPlus w4 reachP_w4 small_w4

/-- a DOCUMENTED panic of the library: `Sender::send` of an event outside the sender's event set -/
def v1 : World := (step {} (.addh hNotInSet)).1
def v2 : World := (step v1 (.send 0)).1

set_option maxRecDepth 1000000 in
theorem checks2 : stepOkB {} (.addh hNotInSet) = true ∧ stepPanicB v1 (.send 0) = true ∧ v2.resCount = 0 := by
  decide +kernel

theorem reachP_v1 : ReachP v1 :=
  ReachP.step (w := {}) (.addh hNotInSet) .init hNotInSet_valid (stepOk_of_check checks2.1)

theorem reachP_v2 : ReachP v2 :=
  ReachP.panic (w := v1) (.send 0) reachP_v1 trivial (stepPanic_of_check checks2.2.1) checks2.2.2

/-- **F8, the case the side condition excludes**: the handler reserved an id and panicked; the reservation stays
    pending (`resCount = 1`), so the world after the panic is NOT quiescent and `ReachP.panic` does not apply — but
    `reachableP_panic_structural` does -/
def u1 : World := (step {} (.addh hF8)).1
def u2 : World := (step u1 (.send 0)).1

set_option maxRecDepth 1000000 in
theorem checks3 : stepOkB {} (.addh hF8) = true ∧ stepPanicB u1 (.send 0) = true ∧ u2.resCount = 1 := by
  decide +kernel

theorem reachP_u1 : ReachP u1 :=
  ReachP.step (w := {}) (.addh hF8) .init hF8_valid (stepOk_of_check checks3.1)

set_option maxRecDepth 1000000 in
theorem small_u2 : Small u2 := by unfold Small; decide +kernel

theorem u2_structural : WInv u2 ∧ u2.queue = [] :=
  reachableP_panic_structural (w := u1) (op := .send 0) reachP_u1 trivial (stepPanic_of_check checks3.2.1) small_u2

theorem u2_not_quiescent : ¬ Quiescent u2 := fun h => by
  have := resCount_of_reserved_nil h.2
  rw [checks3.2.2] at this
  cases this

end PanicEx

#print axioms reachableP_WInv
#print axioms reachableP_InvPlus
#print axioms reachableP_panic_structural
#print axioms reachableP_panic_mid
#print axioms reachableP_panic_any
#print axioms reachableP_panic_quiescent_iff
#print axioms PanicEx.reachP_w2
#print axioms PanicEx.reachP_w4
#print axioms PanicEx.reachP_v2
#print axioms PanicEx.u2_structural
#print axioms PanicEx.u2_not_quiescent

end Evenio
