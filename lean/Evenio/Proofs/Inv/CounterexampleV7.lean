import Evenio.Model.Step
import Evenio.Model.InvPlus
/-! # Why `removeComponent` needs "entries of the targeted registry have targeted types"

A kernel-checked computation: `wbad` is the world reached by registering `Insert<K0>` (`addev (.ins 0)`), in which the
`ty` field of that registry entry is then overwritten by a NON-targeted type.  No conjunct of the executable invariant
`InvPlus` (nor of the logical invariant `WInv`) reads that field, so `wbad` still satisfies `InvPlus` and is quiescent.
But `removeComponent` calls `removeEvent ei.ty ev`, which dispatches on `ei.ty.targeted`, looks the event up in the
GLOBAL registry, finds nothing and returns `false`; the component is then dropped while its `Insert` event stays
registered, and `invRegistry` fails.  Hence `Obl.step_keeps_InvPlus` / `Obl.glue_removeComponent` /
`Obl.execOp_keeps_WInv` (case `.rmc`) need the auxiliary invariant `TevTyped` (Inv/TevTyped.lean), which holds in every
reachable world.

(The other deviation, `queue = []` after a `"model:fuel"` panic, is `flushWith_zero` of Proofs/Flush.lean:
`(flushWith deliver 0).run.run w = (.error (.panic "model:fuel"), w)`; an `#eval` of `execOp (.send 0)` from the world
with one handler `recv G0; send G0` and `budget := 200000` gives `panic model:fuel` with one queued event.) -/
namespace Evenio
namespace InvV7

def wgood : World := (step {} (.addev (.ins 0))).1

def wbad : World :=
  match wgood.tevOfTy (.ins 0) with
  | some (k, ei) => { wgood with tevs := wgood.tevs.set k { ei with ty := .g 5 } }
  | none => wgood

set_option maxRecDepth 100000 in
theorem tevTyped_counterexample :
    wbad.InvPlus = true ∧ wbad.queue = [] ∧ wbad.resCount = 0 ∧ (step wbad (.rmc 0)).1.InvPlus = false := by
  decide +kernel

end InvV7
end Evenio
