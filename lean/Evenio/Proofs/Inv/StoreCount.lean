import Evenio.Proofs.Inv.Exec
import Evenio.Proofs.Inv.Store
/-! # `ExecLeft.count`: the entity count equals the number of rows (worker 2)

Both sides count the valid locations: `Entities::iter` lists every live entity once and the bijection of the storage
group (`InvV2.storeInv_iff`) sends the live entities onto the rows of the live archetypes. -/
namespace Evenio
namespace InvV2

/-! ### list facts -/

theorem nodup_flatMap {α β : Type} {l : List α} {f : α → List β} (h1 : ∀ x ∈ l, (f x).Nodup)
    (h2 : l.Pairwise fun a b => ∀ y, y ∈ f a → y ∉ f b) : (l.flatMap f).Nodup := by
  induction l with
  | nil => exact List.nodup_nil
  | cons x l ih =>
    rw [List.flatMap_cons, List.nodup_append]
    obtain ⟨hx, hl⟩ := List.pairwise_cons.1 h2
    refine ⟨h1 x List.mem_cons_self, ih (fun y hy => h1 y (List.mem_cons_of_mem _ hy)) hl, ?_⟩
    intro a ha b hb hab
    subst hab
    obtain ⟨y, hy, hay⟩ := List.mem_flatMap.1 hb
    exact hx y hy a ha hay

theorem length_filterMap_tl {α : Type} (l : List (Slot α)) (n : Nat)
    (hv : ∀ s ∈ l, (s.val.isSome ↔ s.gen % 2 = 1)) :
    ((l.zipIdx n).filterMap SlotMap.tl).length = l.countP (fun s => s.gen % 2 == 1) := by
  induction l generalizing n with
  | nil => rfl
  | cons s l ih =>
    have hs := hv s List.mem_cons_self
    have ih' := ih (n + 1) (fun t ht => hv t (List.mem_cons_of_mem _ ht))
    rw [List.zipIdx_cons, List.filterMap_cons, List.countP_cons]
    by_cases hg : s.gen % 2 = 1
    · have hne : ¬ s.gen % 2 = 0 := by omega
      obtain ⟨v, hv'⟩ := Option.isSome_iff_exists.1 (hs.2 hg)
      have : SlotMap.tl (s, n) = some (⟨n, s.gen⟩, v) := by
        unfold SlotMap.tl
        simp only [hne, if_false, hv', Option.map_some]
      rw [this]
      simp only [List.length_cons, ih', hg, beq_self_eq_true, if_true]
    · have he : s.gen % 2 = 0 := by omega
      have hb : (s.gen % 2 == 1) = false := by simp [hg]
      have : SlotMap.tl (s, n) = none := by
        unfold SlotMap.tl
        simp only [he, if_true]
      rw [this]
      simp only [ih', hb, Bool.false_eq_true, if_false, Nat.add_zero]

/-- `iter` yields `len` entries -/
theorem slotMap_toList_length {α : Type} {sm : SlotMap α} (wf : sm.WF) : sm.toList.length = sm.len := by
  rw [wf.lenEq]
  exact length_filterMap_tl sm.slots 0 fun s hs => by
    obtain ⟨i, hi⟩ := List.getElem?_of_mem hs
    exact wf.valIff i s hi

end InvV2

/-- **`ExecLeft.count`**: `entities.len` is the total number of rows -/
theorem winv_implies_count {w : World} (h : WInv w) :
    w.entities.len = (w.archs.toList.map fun (_, a) => a.ids.length).sum := by
  obtain ⟨-, hE, hbij⟩ := InvV2.storeInv_iff.1 h.store
  -- all valid locations, archetype by archetype
  let f : Nat × Arch → List Loc := fun p => (List.range p.2.ids.length).map fun r => ⟨p.1, r⟩
  have hlen : (w.archs.toList.flatMap f).length = (w.archs.toList.map fun (_, a) => a.ids.length).sum := by
    rw [List.length_flatMap]
    congr 1
    refine List.map_congr_left ?_
    rintro ⟨i, a⟩ -
    simp [f]
  have hmemR : ∀ loc, loc ∈ w.archs.toList.flatMap f ↔
      ∃ a, w.archs.get loc.arch = some a ∧ loc.row < a.ids.length := by
    intro loc
    rw [List.mem_flatMap]
    constructor
    · rintro ⟨⟨i, a⟩, hm, hl⟩
      obtain ⟨r, hr, rfl⟩ := List.mem_map.1 hl
      exact ⟨a, (Slab.mem_toList_iff _ _ _).1 hm, List.mem_range.1 hr⟩
    · rintro ⟨a, ha, hr⟩
      exact ⟨(loc.arch, a), (Slab.mem_toList_iff _ _ _).2 ha, List.mem_map.2 ⟨loc.row, List.mem_range.2 hr, rfl⟩⟩
  have hndR : (w.archs.toList.flatMap f).Nodup := by
    refine InvV2.nodup_flatMap (fun p _ => ?_) ?_
    · show ((List.range p.2.ids.length).map fun r => (⟨p.1, r⟩ : Loc)).Nodup
      rw [List.Nodup, List.pairwise_map]
      exact (List.nodup_range (n := p.2.ids.length)).imp fun hne he => hne (by injection he)
    · have := Slab.toList_keys_nodup w.archs
      rw [List.Nodup, List.pairwise_map] at this
      refine this.imp fun {p q} hne y hy hy' => ?_
      obtain ⟨r, -, rfl⟩ := List.mem_map.1 hy
      obtain ⟨r', -, he⟩ := List.mem_map.1 hy'
      exact hne (by injection he with h1 _; exact h1.symm)
  -- the locations of the live entities
  have hndL : (w.entities.toList.map (·.2)).Nodup := by
    rw [List.Nodup, List.pairwise_map]
    refine (SlotMap.toList_nodup w.entities).imp_of_mem fun {p q} hp hq hne he => hne ?_
    obtain ⟨k1, l1⟩ := p
    obtain ⟨k2, l2⟩ := q
    have he' : l1 = l2 := he
    subst he'
    obtain ⟨a1, ha1, hr1⟩ := (hbij k1 l1).1 ((SlotMap.mem_toList_iff hE _ _).1 hp)
    obtain ⟨a2, ha2, hr2⟩ := (hbij k2 l1).1 ((SlotMap.mem_toList_iff hE _ _).1 hq)
    rw [ha1] at ha2; cases ha2
    rw [hr1] at hr2; cases hr2
    rfl
  have hperm : (w.entities.toList.map (·.2)).Perm (w.archs.toList.flatMap f) := by
    rw [List.perm_ext_iff_of_nodup hndL hndR]
    intro loc
    rw [hmemR, List.mem_map]
    constructor
    · rintro ⟨⟨k, l⟩, hm, rfl⟩
      obtain ⟨a, ha, hr⟩ := (hbij k l).1 ((SlotMap.mem_toList_iff hE _ _).1 hm)
      exact ⟨a, ha, (List.getElem?_eq_some_iff.1 hr).1⟩
    · rintro ⟨a, ha, hr⟩
      refine ⟨(a.ids[loc.row], loc), (SlotMap.mem_toList_iff hE _ _).2 ((hbij _ loc).2 ⟨a, ha, ?_⟩), rfl⟩
      exact List.getElem?_eq_getElem hr
  rw [← hlen, ← hperm.length_eq, List.length_map, InvV2.slotMap_toList_length hE]

/-- `ExecLeft` from `WInv` and the two data-structure lemmas of worker 1 -/
theorem InvV2.execLeft_of_winv {w : World} (h : WInv w) (hslab : ∀ s : Slab Arch, Slab.WF s → s.wfCheck = true)
    (hslot : ∀ {α : Type} (sm : SlotMap α), sm.WF → sm.wfCheck = true) : ExecLeft w :=
  ⟨winv_implies_count h, hslab, hslot⟩

end Evenio
