import Evenio.Proofs.Inv.ListsA
/-! # G3, section B: the closed steps keep `ListsInv` -/
namespace Evenio
namespace InvV3

/-! ### slot maps: the slot an insertion takes was vacant -/

theorem SlotMap.getByIndex_none_of_insertWith {α : Type} {sm sm' : SlotMap α} (wf : sm.WF) {f : Key → α} {k : Key}
    (h : sm.insertWith f = some (k, sm')) : sm.getByIndex k.idx = none := by
  cases hg : sm.getByIndex k.idx with
  | none => rfl
  | some p =>
    obtain ⟨k0, v⟩ := p
    obtain ⟨hg0, hi⟩ := SlotMap.getByIndex_get hg
    obtain ⟨-, hk, -, hother, hnc⟩ := SlotMap.insertWith_usable wf h
    have hne : k0 ≠ k := by
      rintro rfl
      simp [SlotMap.contains, hg0] at hnc
    have h0 : sm'.get k0 = some v := by rw [hother k0 hne]; exact hg0
    exact absurd (SlotMap.key_eq_of_idx h0 hk hi) hne

/-- live entries stay live (same key, same value) under an insertion -/
theorem SlotMap.getByIndex_insertWith_mono {α : Type} {sm sm' : SlotMap α} (wf : sm.WF) {f : Key → α} {k : Key}
    (h : sm.insertWith f = some (k, sm')) {i : Nat} (hi : (sm.getByIndex i).isSome = true) :
    (sm'.getByIndex i).isSome = true := by
  obtain ⟨⟨k0, v⟩, hg⟩ := Option.isSome_iff_exists.1 hi
  obtain ⟨hg0, hidx⟩ := SlotMap.getByIndex_get hg
  obtain ⟨wf', -, -, hother, hnc⟩ := SlotMap.insertWith_usable wf h
  have hne : k0 ≠ k := by
    rintro rfl
    simp [SlotMap.contains, hg0] at hnc
  have h0 : sm'.get k0 = some v := by rw [hother k0 hne]; exact hg0
  rw [← hidx, SlotMap.get_getByIndex wf' h0]
  rfl

/-! ### empty tables -/

/-- a table without entries has empty segments -/
theorem segments_of_entries_nil {l : HandlerList Key} (he : l.entries = []) :
    l.hi = [] ∧ l.me = [] ∧ l.lo = [] := by
  unfold HandlerList.hi HandlerList.me HandlerList.lo
  rw [he]
  simp

theorem tableExact_of_nil {ord : List Key} {H : SlotMap HInfo} {p : HInfo → Bool} {l : HandlerList Key}
    (hi : l.Inv) (he : l.entries = []) (hsel : ∀ pr, selOf ord H p pr = []) : TableExact ord H p l := by
  obtain ⟨h1, h2, h3⟩ := segments_of_entries_nil he
  exact ⟨hi, by rw [h1, hsel], by rw [h2, hsel], by rw [h3, hsel]⟩

theorem selOf_nil_of_none {ord : List Key} {H : SlotMap HInfo} {p : HInfo → Bool}
    (hp : ∀ k h, H.get k = some h → p h = false) (pr : Priority) : selOf ord H p pr = [] := by
  rw [selOf_eq_filter, List.filter_eq_nil_iff]
  intro k _
  unfold selTest
  cases hg : H.get k with
  | none => simp
  | some h => simp [hp k h hg]

/-- the entries of an exact table whose selection is empty -/
theorem entries_nil_of_exact {ord : List Key} {H : SlotMap HInfo} {p : HInfo → Bool} {l : HandlerList Key}
    (hl : TableExact ord H p l) (hsel : ∀ pr, selOf ord H p pr = []) : l.entries = [] := by
  rw [HandlerList.entries_eq_segments hl.inv, hl.hi, hl.me, hl.lo, hsel, hsel, hsel]
  rfl

theorem getElem?_listResize {α : Type} (l : List α) (n : Nat) (d : α) (i : Nat) :
    (listResize l n d)[i]? = if i < l.length then l[i]? else if i < n then some d else none := by
  unfold listResize
  split
  · next hlt =>
    rw [List.getElem?_append]
    split
    · rfl
    · next hi =>
      rw [List.getElem?_replicate]
      by_cases h : i < n
      · rw [if_pos h, if_pos (by omega)]
      · rw [if_neg h, if_neg (by omega)]
  · next hge =>
    split
    · rfl
    · next hi =>
      rw [List.getElem?_eq_none (by omega), if_neg (by omega)]

theorem mem_listResize {α : Type} {l : List α} {n : Nat} {d x : α} (h : x ∈ listResize l n d) : x ∈ l ∨ x = d := by
  unfold listResize at h
  split at h
  · rcases List.mem_append.1 h with h | h
    · exact .inl h
    · exact .inr (List.eq_of_mem_replicate h)
  · exact .inl h

end InvV3
open InvV3

/-! ### frames: `regComp`, `setGen` -/

theorem regComp_keeps_lists : Obl.regComp_keeps .lists := fun _ _ _ _ hw _ => hw.lists

theorem setGen_keeps_lists : Obl.setGen_keeps .lists := by
  intro w id gen loc s a hw _ _ ha _ _ _
  show ListsInv' w.handlers w.byGlobal w.byInsertOrder w.insertCounter
    (w.archs.set a.index { a with ids := a.ids.set loc.row ⟨id.idx, gen⟩ }) w.gevs w.tevs
  refine listsInv'_congr hw.lists rfl fun i b hb => ?_
  rcases Slab.get_set_cases hb with ⟨-, rfl, -⟩ | ⟨-, hb'⟩
  · exact archListsOK_same (hw.lists.arch _ a ha) rfl rfl rfl
  · exact hw.lists.arch i b hb'

/-! ### `regGev` -/

theorem regGev_keeps_lists : Obl.regGev_keeps .lists := by
  intro w ty k gevs' hw hins
  have hL := hw.lists
  have wfG := hw.1.gevsWF
  obtain ⟨wfG', hk, hkidx, hother, hnc⟩ := SlotMap.insertWith_usable wfG hins
  have hvac := SlotMap.getByIndex_none_of_insertWith wfG hins
  have hnone : w.gevs.get k = none := by
    cases hg : w.gevs.get k with
    | none => rfl
    | some v => simp [SlotMap.contains, hg] at hnc
  -- no live handler receives the new event
  have hsel : ∀ pr, selOf w.byInsertOrder w.handlers (globalSel k) pr = [] := selOf_nil_of_none fun hk' h hg => by
    unfold globalSel
    cases ht : h.recv.targeted with
    | true => rfl
    | false =>
      obtain ⟨info, hi, -⟩ := (hw.registry.handlerRefs hk' h hg).recvG ht
      have : (h.recvKey == k) = false := by
        cases hb : (h.recvKey == k) with
        | false => rfl
        | true =>
          rw [(Slab.key_beq_iff _ _).1 hb, hnone] at hi
          cases hi
      simp [this]
  show ListsInv' w.handlers (listResize w.byGlobal (k.idx + 1) {}) w.byInsertOrder w.insertCounter w.archs gevs'
    w.tevs
  refine ⟨hL.ordNodup, hL.ordMem, hL.ordLen, hL.ordSorted, hL.handler, fun l hl => ?_, fun gk info hg => ?_,
    fun i l hl => ?_, hL.arch⟩
  · rcases mem_listResize hl with hl | rfl
    · exact hL.gInv l hl
    · exact ⟨HandlerList.inv_empty, List.nodup_nil⟩
  · rw [getElem?_listResize]
    by_cases hgk : gk = k
    · subst hgk
      by_cases hlt : gk.idx < w.byGlobal.length
      · rw [if_pos hlt]
        obtain ⟨l, hl⟩ : ∃ l, w.byGlobal[gk.idx]? = some l := ⟨_, List.getElem?_eq_getElem hlt⟩
        refine ⟨l, hl, ?_⟩
        rcases hL.gDead _ l hl with hlive | hempty
        · rw [hvac] at hlive; cases hlive
        · exact tableExact_of_nil (hL.gInv l (List.mem_of_getElem? hl)).1 hempty hsel
      · rw [if_neg hlt, if_pos (Nat.lt_succ_self _)]
        exact ⟨_, rfl, tableExact_of_nil HandlerList.inv_empty rfl hsel⟩
    · rw [hother gk hgk] at hg
      obtain ⟨l, hl, hex⟩ := hL.gExact gk info hg
      have hlt : gk.idx < w.byGlobal.length := (List.getElem?_eq_some_iff.1 hl).1
      rw [if_pos hlt]
      exact ⟨l, hl, hex⟩
  · rw [getElem?_listResize] at hl
    split at hl
    · rcases hL.gDead i l hl with hlive | hempty
      · exact .inl (SlotMap.getByIndex_insertWith_mono wfG hins hlive)
      · exact .inr hempty
    · split at hl
      · cases hl; exact .inr rfl
      · cases hl

/-! ### `regTev` -/

theorem listsInv_noteEvent {w : World} {kind : EvKind} {k : Key} (h : ListsInv w) :
    ListsInv (Step.noteEvent w kind k) := by
  unfold Step.noteEvent
  split
  · split <;> exact h
  · split <;> exact h
  · exact h

theorem regTev_keeps_lists : Obl.regTev_keeps .lists := by
  intro w ty kind nd k tevs' hw _ _ hins
  refine listsInv_noteEvent ?_
  have hL := hw.lists
  have wfT := hw.1.tevsWF
  obtain ⟨wfT', hk, hkidx, hother, hnc⟩ := SlotMap.insertWith_usable wfT hins
  have hvac := SlotMap.getByIndex_none_of_insertWith wfT hins
  have hnone : w.tevs.get k = none := by
    cases hg : w.tevs.get k with
    | none => rfl
    | some v => simp [SlotMap.contains, hg] at hnc
  -- no live handler receives the new event
  have hsel : ∀ a pr, selOf w.byInsertOrder w.handlers (listenSel k a) pr = [] := fun a =>
    selOf_nil_of_none fun hk' h hg => by
      unfold listenSel
      cases ht : h.recv.targeted with
      | false => rfl
      | true =>
        obtain ⟨info, hi, -⟩ := (hw.registry.handlerRefs hk' h hg).recvT ht
        have : (h.recvKey == k) = false := by
          cases hb : (h.recvKey == k) with
          | false => rfl
          | true =>
            rw [(Slab.key_beq_iff _ _).1 hb, hnone] at hi
            cases hi
        simp [this]
  show ListsInv' w.handlers w.byGlobal w.byInsertOrder w.insertCounter w.archs w.gevs tevs'
  refine ⟨hL.ordNodup, hL.ordMem, hL.ordLen, hL.ordSorted, hL.handler, hL.gInv, hL.gExact, hL.gDead,
    fun i a ha => ?_⟩
  have hA := hL.arch i a ha
  refine ⟨hA.wf, fun t ht => Nat.lt_of_lt_of_le (hA.keys t ht) (SlotMap.length_insertWith hins), hA.inv,
    fun tk info hti => ?_, fun t l hl => ?_, hA.refreshNodup, hA.refresh⟩
  · by_cases htk : tk = k
    · subst htk
      cases hg : a.listeners.get tk.idx with
      | none => exact tableExact_of_nil HandlerList.inv_empty rfl (hsel a)
      | some l =>
        simp only [Option.getD_some]
        rcases hA.dead _ l hg with hlive | hempty
        · rw [hvac] at hlive; cases hlive
        · exact tableExact_of_nil (hA.inv _ l hg).1 hempty (hsel a)
    · rw [hother tk htk] at hti
      exact hA.exact tk info hti
  · rcases hA.dead t l hl with hlive | hempty
    · exact .inl (SlotMap.getByIndex_insertWith_mono wfT hins hlive)
    · exact .inr hempty

/-! ### `removeEventFinish` -/

namespace InvV3

/-- live entries other than the removed one stay live -/
theorem SlotMap.getByIndex_remove_mono {α : Type} {sm sm' : SlotMap α} (wf : sm.WF) {k : Key} {v : α}
    (h : sm.remove k = some (v, sm')) {i : Nat} {k0 : Key} {v0 : α} (hg : sm.getByIndex i = some (k0, v0))
    (hne : k0 ≠ k) : (sm'.getByIndex i).isSome = true := by
  obtain ⟨hg0, hidx⟩ := SlotMap.getByIndex_get hg
  have h0 : sm'.get k0 = some v0 := by rw [SlotMap.get_remove wf h, if_neg hne]; exact hg0
  rw [← hidx, SlotMap.get_getByIndex (wf.remove h) h0]
  rfl

theorem removeTev_lists {w : World} {k : Key} {info : EvInfo} {tevs : SlotMap EvInfo} (hw : WInvMid w)
    (hun : ∀ hk h, w.handlers.get hk = some h → ¬ (h.recv.targeted = true ∧ h.recvKey = k))
    (hrem : w.tevs.remove k = some (info, tevs)) :
    ListsInv' w.handlers w.byGlobal w.byInsertOrder w.insertCounter w.archs w.gevs tevs := by
  have hL := hw.lists
  have wfT := hw.1.tevsWF
  have hsel : ∀ a pr, selOf w.byInsertOrder w.handlers (listenSel k a) pr = [] := fun a =>
    selOf_nil_of_none fun hk' h hg => by
      unfold listenSel
      cases ht : h.recv.targeted with
      | false => rfl
      | true =>
        have : (h.recvKey == k) = false := by
          cases hb : (h.recvKey == k) with
          | false => rfl
          | true => exact absurd ⟨ht, (Slab.key_beq_iff _ _).1 hb⟩ (hun hk' h hg)
        simp [this]
  refine ⟨hL.ordNodup, hL.ordMem, hL.ordLen, hL.ordSorted, hL.handler, hL.gInv, hL.gExact, hL.gDead,
    fun i a ha => ?_⟩
  have hA := hL.arch i a ha
  refine ⟨hA.wf, fun t ht => by rw [SlotMap.length_remove hrem]; exact hA.keys t ht, hA.inv,
    fun tk info' hti => ?_, fun t l hl => ?_, hA.refreshNodup, hA.refresh⟩
  · rw [SlotMap.get_remove wfT hrem] at hti
    split at hti
    · cases hti
    · exact hA.exact tk info' hti
  · rcases hA.dead t l hl with hlive | hempty
    · obtain ⟨⟨tk, info0⟩, hg⟩ := Option.isSome_iff_exists.1 hlive
      by_cases htk : tk = k
      · subst htk
        obtain ⟨hg0, hidx⟩ := SlotMap.getByIndex_get hg
        have hex := hA.exact tk info0 hg0
        rw [hidx, hl] at hex
        exact .inr (entries_nil_of_exact hex (hsel a))
      · exact .inl (SlotMap.getByIndex_remove_mono wfT hrem hg htk)
    · exact .inr hempty

theorem removeGev_lists {w : World} {k : Key} {info : EvInfo} {gevs : SlotMap EvInfo} (hw : WInvMid w)
    (hun : ∀ hk h, w.handlers.get hk = some h → ¬ (h.recv.targeted = false ∧ h.recvKey = k))
    (hrem : w.gevs.remove k = some (info, gevs)) :
    ListsInv' w.handlers w.byGlobal w.byInsertOrder w.insertCounter w.archs gevs w.tevs := by
  have hL := hw.lists
  have wfG := hw.1.gevsWF
  have hsel : ∀ pr, selOf w.byInsertOrder w.handlers (globalSel k) pr = [] :=
    selOf_nil_of_none fun hk' h hg => by
      unfold globalSel
      cases ht : h.recv.targeted with
      | true => rfl
      | false =>
        have : (h.recvKey == k) = false := by
          cases hb : (h.recvKey == k) with
          | false => rfl
          | true => exact absurd ⟨ht, (Slab.key_beq_iff _ _).1 hb⟩ (hun hk' h hg)
        simp [this]
  refine ⟨hL.ordNodup, hL.ordMem, hL.ordLen, hL.ordSorted, hL.handler, hL.gInv, fun gk info' hg => ?_,
    fun i l hl => ?_, hL.arch⟩
  · rw [SlotMap.get_remove wfG hrem] at hg
    split at hg
    · cases hg
    · exact hL.gExact gk info' hg
  · rcases hL.gDead i l hl with hlive | hempty
    · obtain ⟨⟨gk, info0⟩, hg⟩ := Option.isSome_iff_exists.1 hlive
      by_cases hgk : gk = k
      · subst hgk
        obtain ⟨hg0, hidx⟩ := SlotMap.getByIndex_get hg
        obtain ⟨l', hl', hex⟩ := hL.gExact gk info0 hg0
        rw [hidx, hl] at hl'
        cases hl'
        exact .inr (entries_nil_of_exact hex hsel)
      · exact .inl (SlotMap.getByIndex_remove_mono wfG hrem hg hgk)
    · exact .inr hempty

end InvV3

theorem removeEventFinish_keeps_lists : Obl.removeEventFinish_keeps .lists := by
  intro ty k
  have hinv : ∀ {α : Type} {m : M α}, Keeps ListsInv m →
      Hoare ListsInv m (fun _ => ListsInv) (PanicOnly ListsInv) := fun h => Hoare.of_keeps_panicOnly h
  unfold removeEventFinish
  split
  · next ht =>
    refine Hoare.get_bind fun w hw => ?_
    split
    · exact Hoare.throw fun w' hw' => panicOnly_of hw'.1.lists
    · next info tevs hrem =>
      have hun : ∀ hk h, w.handlers.get hk = some h → ¬ (h.recv.targeted = true ∧ h.recvKey = k) := by
        intro hk h hg
        have := hw.2 hk h hg
        rw [if_pos ht] at this
        exact this.1
      have key : ListsInv { w with tevs := tevs, removedIds := ('t', k) :: w.removedIds } :=
        removeTev_lists (w := w) hw.1 hun hrem
      refine Hoare.bind (R := fun _ => ListsInv) ⟨fun _ _ => key⟩ fun _ => ?_
      dsimp only
      split
      · refine Hoare.get_bind fun w1 h1 => ?_
        split
        · exact Hoare.bind_inv (hinv (Keeps.set h1)) fun _ => Hoare.pure fun _ h => h
        · exact Hoare.pure fun _ h => h
      · refine Hoare.get_bind fun w1 h1 => ?_
        split
        · exact Hoare.bind_inv (hinv (Keeps.set h1)) fun _ => Hoare.pure fun _ h => h
        · exact Hoare.pure fun _ h => h
      · exact Hoare.pure fun _ h => h
  · next ht =>
    refine Hoare.get_bind fun w hw => ?_
    split
    · exact Hoare.throw fun w' hw' => panicOnly_of hw'.1.lists
    · next info gevs hrem =>
      have hun : ∀ hk h, w.handlers.get hk = some h → ¬ (h.recv.targeted = false ∧ h.recvKey = k) := by
        intro hk h hg
        have := hw.2 hk h hg
        rw [if_neg ht] at this
        exact this.1
      have key : ListsInv { w with gevs := gevs, removedIds := ('g', k) :: w.removedIds } :=
        removeGev_lists (w := w) hw.1 hun hrem
      exact Hoare.bind (R := fun _ => ListsInv) ⟨fun _ _ => key⟩ fun _ => Hoare.pure fun _ h => h

/-! ### `dropComp` -/

namespace InvV3
variable {fr : Frame} {Hc : SlotMap HInfo}

local macro_rules | `(tactic| keeps_leaf) => `(tactic| exact ubErr_li _)
local macro_rules | `(tactic| keeps_leaf) => `(tactic| exact dbgAssert_li _ _)
local macro_rules | `(tactic| keeps_leaf) => `(tactic| exact dropCell_li _ _)
local macro_rules | `(tactic| keeps_leaf) => `(tactic| exact handlerRemoveArch_li _ _)
local macro_rules | `(tactic| keeps_leaf) => `(tactic| exact handlerRefresh_li _ _)

theorem keeps_forIn_mem {I : World → Prop} {β γ : Type} {l : List γ} {b : β} {f : γ → β → M (ForInStep β)}
    (hf : ∀ a ∈ l, ∀ b, Keeps I (f a b)) : Keeps I (forIn l b f) := by
  induction l generalizing b with
  | nil => exact Keeps.pure b
  | cons a l ih =>
    rw [List.forIn_cons]
    refine Keeps.bind (hf a List.mem_cons_self b) fun r => ?_
    cases r with
    | done b => exact Keeps.pure b
    | yield b => exact ih fun a' ha' => hf a' (List.mem_cons_of_mem _ ha')

theorem resRefresh_li : Keeps (LI fr Hc) resRefresh := by
  unfold resRefresh
  refine Keeps.get_bind fun _ _ => Keeps.bind (dbgAssert_li _ _) fun _ => ?_
  keeps

theorem archsRemoveComponent_li (info : CompInfo) : Keeps (LI fr Hc) (archsRemoveComponent info) := by
  unfold archsRemoveComponent
  dsimp only
  refine Keeps.bind (Keeps.forIn_list fun ai _ => ?_) fun _ => ?_
  · refine Keeps.get_bind fun w hw => ?_
    split
    · exact Keeps.throw _
    · next arch archs hrem =>
      refine Keeps.bind (Keeps.set ⟨hw.1, hw.2.1, fun i a ha => ?_⟩) fun _ => ?_
      · have ha' : archs.get i = some a := ha
        by_cases hi : i = ai
        · subst hi
          rw [Slab.get_remove_same hrem] at ha'
          cases ha'
        · rw [Slab.get_remove_other hrem hi] at ha'
          exact hw.2.2 i a ha'
      have hedge : ∀ (g : Arch → Nat → Arch), (∀ oa c, (g oa c).refresh = oa.refresh ∧
          (g oa c).listeners = oa.listeners ∧ (g oa c).comps = oa.comps) → ∀ (x : Nat × Nat),
          Keeps (LI fr Hc) (do
            let w1 ← get
            match w1.archs.get x.snd with
              | some oa => do
                setArch (g oa x.fst)
                pure (ForInStep.yield PUnit.unit)
              | none => pure (ForInStep.yield PUnit.unit) : M (ForInStep PUnit)) := by
        intro g hg x
        refine Keeps.get_bind fun w1 h1 => ?_
        split
        · next oa hoa =>
          obtain ⟨g1, g2, g3⟩ := hg oa x.fst
          exact Keeps.bind (setArch_li (archListsOK_same (h1.2.2 _ oa hoa) g1 g2 g3)) fun _ => Keeps.pure _
        · exact Keeps.pure _
      refine Keeps.bind (by keeps) fun _ => ?_
      refine Keeps.bind (by keeps) fun _ => ?_
      refine Keeps.bind (Keeps.forIn_list fun id _ => Keeps.bind (Keeps.modify fun w h => ?_) fun _ =>
        Keeps.pure _) fun _ => ?_
      · split <;> exact h
      refine Keeps.bind (Keeps.forIn_list fun x _ =>
        hedge (fun oa c => { oa with remEdges := edgeRemove oa.remEdges c }) (fun _ _ => ⟨rfl, rfl, rfl⟩) x) fun _ => ?_
      refine Keeps.bind (Keeps.forIn_list fun x _ =>
        hedge (fun oa c => { oa with insEdges := edgeRemove oa.insEdges c }) (fun _ _ => ⟨rfl, rfl, rfl⟩) x) fun _ => ?_
      keeps
  · refine Keeps.get_bind fun w2 h2 => ?_
    refine Keeps.bind (keeps_forIn_mem fun p hp _ => ?_) fun _ => Keeps.pure _
    obtain ⟨i, a⟩ := p
    have ha : w2.archs.get i = some a := (Slab.mem_toList_iff _ _ _).1 hp
    exact Keeps.bind (setArch_li (archListsOK_same (h2.2.2 i a ha) rfl rfl rfl)) fun _ => Keeps.pure _

end InvV3

theorem dropComp_keeps_lists : Obl.dropComp_keeps .lists := by
  intro w k info comps' hw _ _
  refine ⟨fun w1 hw1 => ?_⟩
  subst hw1
  -- the frame only differs in `removedIds`, which `ListsInv` does not read
  have h0 : ListsInv (Step.dropComp w k comps') := hw.lists
  have hk' : Keeps (LI (Step.dropComp w k comps').frame ((Step.dropComp w k comps').handlers.mapVal HInfo.core))
      (dropCompTail info) := by
    unfold dropCompTail
    exact Keeps.bind (archsRemoveComponent_li info) fun _ => resRefresh_li
  have := hk'.run _ (li_of_listsInv h0)
  have h1 := listsInv_of_li h0 this
  generalize (dropCompTail info).run.run (Step.dropComp w k comps') = res at h1
  obtain ⟨(e|a), w'⟩ := res
  · exact fun _ => h1
  · exact h1

/-! ### `removeHandlerPure` -/

namespace InvV3

theorem selOf_filter_ne {ord : List Key} {H H' : SlotMap HInfo} {p : HInfo → Bool} {k : Key}
    (hH : ∀ k', k' ≠ k → H'.get k' = H.get k') (pr : Priority) :
    selOf (ord.filter (· != k)) H' p pr = (selOf ord H p pr).filter (· != k) := by
  rw [selOf_eq_filter, selOf_eq_filter, List.filter_filter, List.filter_filter]
  apply List.filter_congr
  intro x _
  by_cases hx : x = k
  · subst hx
    simp
  · have h1 : (x != k) = true := by simpa using hx
    have h2 : selTest H' p pr x = selTest H p pr x := by
      unfold selTest
      rw [hH x hx]
    rw [h1, h2, Bool.and_true, Bool.true_and]

theorem tableExact_remove {ord : List Key} {H H' : SlotMap HInfo} {p : HInfo → Bool} {l : HandlerList Key} {k : Key}
    (hl : TableExact ord H p l) (hn : l.entries.Nodup) (hH : ∀ k', k' ≠ k → H'.get k' = H.get k') :
    TableExact (ord.filter (· != k)) H' p (l.remove k) := by
  have hseg := HandlerList.remove_segments_filter hl.inv hn k
  simp only [filter_bne_inst] at hseg
  refine ⟨HandlerList.remove_inv hl.inv k, ?_, ?_, ?_⟩
  · rw [hseg.1, selOf_filter_ne hH, hl.hi]
  · rw [hseg.2.1, selOf_filter_ne hH, hl.me]
  · rw [hseg.2.2, selOf_filter_ne hH, hl.lo]

/-- `RemovalPre` (Proofs/Listeners.lean) from the logical invariant -/
theorem removalPre_of_winv {w : World} {k : Key} {h : HInfo} (hw : WInv w) (hg : w.handlers.get k = some h) :
    RemovalPre w k h := by
  have hL := hw.lists
  have hok := hL.handler k h hg
  refine ⟨hw.handlersWF, hg, hw.indexOK, fun i a ha => (hL.arch i a ha).wf, fun l hl => (hL.gInv l hl).2,
    fun i a ha t l hl => ((hL.arch i a ha).inv t l hl).2, fun i l hl hk => ?_, fun i a ha t l hl hk => ?_⟩
  · rcases hL.gDead i l hl with hlive | hempty
    · obtain ⟨⟨gk, info⟩, hgi⟩ := Option.isSome_iff_exists.1 hlive
      obtain ⟨hg0, hidx⟩ := SlotMap.getByIndex_get hgi
      obtain ⟨l', hl', hex⟩ := hL.gExact gk info hg0
      rw [hidx, hl] at hl'
      cases hl'
      obtain ⟨-, h', hg', hp⟩ := (hex.mem k).1 hk
      rw [hg] at hg'
      cases hg'
      unfold globalSel at hp
      simp only [Bool.and_eq_true, Bool.not_eq_true', beq_iff_eq] at hp
      exact ⟨hp.1, by rw [hok.recvIdx, hp.2, hidx]⟩
    · rw [hempty] at hk; cases hk
  · have hA := hL.arch i a ha
    rcases hA.dead t l hl with hlive | hempty
    · obtain ⟨⟨tk, info⟩, hti⟩ := Option.isSome_iff_exists.1 hlive
      obtain ⟨hg0, hidx⟩ := SlotMap.getByIndex_get hti
      have hex := hA.exact tk info hg0
      rw [hidx, hl] at hex
      obtain ⟨-, h', hg', hp⟩ := (hex.mem k).1 hk
      rw [hg] at hg'
      cases hg'
      unfold listenSel at hp
      simp only [Bool.and_eq_true, beq_iff_eq] at hp
      exact ⟨hp.1.1, by rw [hok.recvIdx, hp.1.2, hidx]⟩
    · rw [hempty] at hk; cases hk

theorem remove_empty (k : Key) : ({} : HandlerList Key).remove k = {} :=
  HandlerList.remove_of_not_mem (by simp)

end InvV3

theorem removeHandlerPure_keeps_lists : Obl.removeHandlerPure_keeps .lists := by
  intro w k h hw hg
  have hL := hw.lists
  have pre := removalPre_of_winv hw.1 hg
  have hget := pre.handlers_get
  have hne : ∀ k', k' ≠ k → (removeHandlerPure w k h).handlers.get k' = w.handlers.get k' := fun k' hk' => by
    rw [hget, if_neg hk']
  have hkord : k ∈ w.byInsertOrder := (hL.ordMem k).2 (by simp [SlotMap.contains, hg])
  have hfr := removeHandlerPure_frame w k h
  show ListsInv' (removeHandlerPure w k h).handlers (removeHandlerPure w k h).byGlobal
    (removeHandlerPure w k h).byInsertOrder (removeHandlerPure w k h).insertCounter (removeHandlerPure w k h).archs
    (removeHandlerPure w k h).gevs (removeHandlerPure w k h).tevs
  rw [pre.byGlobal_eq, removeHandlerPure_byInsertOrder, hfr.2.2.2.2.2.2.2.1, hfr.2.2.2.2.2.1, hfr.2.2.2.2.2.2.1]
  refine ⟨hL.ordNodup.filter _, fun k' => ?_, ?_, ?_, fun k' h' hk' => ?_, fun l hl => ?_, fun gk info hgi => ?_,
    fun i l hl => ?_, fun i a' ha' => ?_⟩
  · -- membership
    rw [List.mem_filter, hL.ordMem k']
    unfold SlotMap.contains
    rw [hget]
    by_cases hk' : k' = k
    · subst hk'; simp
    · simp [hk']
  · -- length
    rw [removeHandlerPure_handlers]
    cases hr : w.handlers.remove k with
    | none =>
      have := SlotMap.remove_eq_none_iff.1 hr
      rw [hg] at this; cases this
    | some p =>
      obtain ⟨v, hs⟩ := p
      dsimp only
      rw [(SlotMap.remove_len pre.wfH hr).2, ← hL.ordLen, ← List.Nodup.erase_eq_filter hL.ordNodup,
        List.length_erase_of_mem hkord]
  · -- sortedness
    have : ((w.byInsertOrder.filter (· != k)).filterMap fun k' =>
          ((removeHandlerPure w k h).handlers.get k').map (·.order)) =
        (w.byInsertOrder.filter (· != k)).filterMap fun k' => (w.handlers.get k').map (·.order) := by
      apply filterMap_congr_mem
      intro k' hk'
      have : k' ≠ k := by simpa using (List.mem_filter.1 hk').2
      rw [hne k' this]
    rw [this]
    exact hL.ordSorted.sublist (List.filter_sublist.filterMap _)
  · rw [hget] at hk'
    split at hk'
    · cases hk'
    · exact hL.handler k' h' hk'
  · obtain ⟨l0, hl0, rfl⟩ := List.mem_map.1 hl
    obtain ⟨i1, i2⟩ := hL.gInv l0 hl0
    exact ⟨HandlerList.remove_inv i1 k, HandlerList.nodup_remove i2 k⟩
  · obtain ⟨l, hl, hex⟩ := hL.gExact gk info hgi
    refine ⟨l.remove k, by rw [List.getElem?_map, hl]; rfl, ?_⟩
    exact tableExact_remove hex (hL.gInv l (List.mem_of_getElem? hl)).2 hne
  · rw [List.getElem?_map] at hl
    cases hl0 : w.byGlobal[i]? with
    | none => rw [hl0] at hl; cases hl
    | some l0 =>
      rw [hl0] at hl
      simp only [Option.map_some, Option.some.injEq] at hl
      subst hl
      rcases hL.gDead i l0 hl0 with hlive | hempty
      · exact .inl hlive
      · right
        rw [HandlerList.remove_entries, hempty]
        rfl
  · -- archetypes
    rw [pre.archs_get] at ha'
    cases ha : w.archs.get i with
    | none => rw [ha] at ha'; cases ha'
    | some a =>
      rw [ha] at ha'
      simp only [Option.map_some, Option.some.injEq] at ha'
      subst ha'
      have hA := hL.arch i a ha
      have hlg := pre.listeners_get ha
      have hS : (a.dropHandler k h).S = a.S := S_of_comps (dropHandler_comps a k h)
      have hwf : SparseMap.WF (a.dropHandler k h).listeners := by
        by_cases ht : h.recv.targeted = true
        · obtain ⟨info, hi, -⟩ := (hw.registry.handlerRefs k h hg).recvT ht
          refine dropHandler_wf a k h hA.wf ?_
          rw [(hL.handler k h hg).recvIdx]
          exact Nat.lt_trans (SlotMap.idx_lt_of_get hi) hw.1.small.2
        · rw [dropHandler_listeners]
          simp only [ht, Bool.false_eq_true, if_false]
          exact hA.wf
      have hsome : ∀ t l', (a.dropHandler k h).listeners.get t = some l' →
          ∃ l, a.listeners.get t = some l ∧ l' = l.remove k := by
        intro t l' hl'
        rw [hlg] at hl'
        cases hl0 : a.listeners.get t with
        | none => rw [hl0] at hl'; cases hl'
        | some l0 =>
          rw [hl0] at hl'
          simp only [Option.map_some, Option.some.injEq] at hl'
          exact ⟨l0, rfl, hl'.symm⟩
      refine ⟨hwf, fun t ht => ?_, fun t l' hl' => ?_, fun tk info hti => ?_, fun t l' hl' => ?_, ?_, fun k' => ?_⟩
      · -- keys
        rw [dropHandler_listeners] at ht
        by_cases htg : h.recv.targeted = true
        · simp only [htg, if_true] at ht
          split at ht
          · rcases SparseMap.mem_keys_insert _ _ _ _ ht with rfl | ht'
            · obtain ⟨info, hi, -⟩ := (hw.registry.handlerRefs k h hg).recvT htg
              rw [(hL.handler k h hg).recvIdx]
              exact SlotMap.idx_lt_of_get hi
            · exact hA.keys t ht'
          · exact hA.keys t ht
        · simp only [htg, Bool.false_eq_true, if_false] at ht
          exact hA.keys t ht
      · obtain ⟨l, hl, rfl⟩ := hsome t l' hl'
        obtain ⟨i1, i2⟩ := hA.inv t l hl
        exact ⟨HandlerList.remove_inv i1 k, HandlerList.nodup_remove i2 k⟩
      · have hex := hA.exact tk info hti
        have hsel : listenSel tk (a.dropHandler k h) = listenSel tk a := by
          unfold listenSel; rw [hS]
        rw [hsel, hlg]
        cases hl0 : a.listeners.get tk.idx with
        | none =>
          rw [hl0] at hex
          simp only [Option.getD_none, Option.map_none] at hex ⊢
          have := tableExact_remove hex (by simp) hne
          rw [remove_empty] at this
          exact this
        | some l0 =>
          rw [hl0] at hex
          exact tableExact_remove hex (hA.inv _ l0 hl0).2 hne
      · obtain ⟨l, hl, rfl⟩ := hsome t l' hl'
        rcases hA.dead t l hl with hlive | hempty
        · exact .inl hlive
        · right
          rw [HandlerList.remove_entries, hempty]
          rfl
      · rw [dropHandler_refresh]
        exact hA.refreshNodup.filter _
      · rw [dropHandler_refresh, List.mem_filter, List.mem_filter, hA.refresh, hS]
        constructor
        · rintro ⟨⟨h1, h', hg', hm⟩, h2⟩
          have : k' ≠ k := by simpa using h2
          exact ⟨⟨h1, h2⟩, h', by rw [hne k' this]; exact hg', hm⟩
        · rintro ⟨⟨h1, h2⟩, h', hg', hm⟩
          have : k' ≠ k := by simpa using h2
          exact ⟨⟨h1, h', by rw [← hne k' this]; exact hg', hm⟩, h2⟩

end Evenio
