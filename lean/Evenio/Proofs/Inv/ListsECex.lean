import Evenio.Proofs.Inv.ListsE2
/-! # `Obl.initParam_configRel` is false as stated

`ConfigRel` does not say that a configuration without received event is immutable, so the conjunct `spawnImm` is not
inductive: from the initial world, with the (unreachable) configuration `{ recvMut := true }`, the parameter
`Receiver<Spawn>` (immutable!) yields `recvEv = Spawn` and `recvMut = true`.  The run is evaluated by the kernel. -/
namespace Evenio
namespace InvV3

/-- the configuration `initParam (.recv .spawn false none) { recvMut := true }` returns from the initial world is
    mutable and receives `Spawn` -/
def cexCheck : Bool :=
  match (initParam (.recv .spawn false none) { recvMut := true }).run.run {} with
  | (.ok (_, cfg'), _) => cfg'.recvMut && decide (cfg'.recvEv = some (some (.spawn, ⟨0, 1⟩)))
  | (.error _, _) => false

set_option maxRecDepth 1000000 in
theorem cexCheck_true : cexCheck = true := by decide +kernel

theorem cexRel : Obl.ConfigRel {} { recvMut := true } [] := by
  refine ⟨rfl, ⟨rfl, rfl, fun _ _ h => by cases h⟩, ?_, ?_, ?_, ?_, ?_, ?_, ?_, ?_⟩
  · intro _ h; cases h
  · intro _ h; cases h
  · intro _ _ h; cases h
  · intro _ h; cases h
  · intro _ h; cases h
  · intro _ _ h; cases h
  · intro _ _ h; cases h
  · intro _ h; cases h

end InvV3
open InvV3

/-- **`Obl.initParam_configRel` does not hold** (use `initParam_configRel_partial_v3`) -/
theorem initParam_configRel_false_v3 : ¬ Obl.initParam_configRel := by
  intro h
  have hc : cexCheck = true := cexCheck_true
  unfold cexCheck at hc
  generalize hrun : (initParam (.recv .spawn false none) { recvMut := true }).run.run {} = r at hc
  obtain ⟨(e | ⟨p, cfg'⟩), w'⟩ := r
  · cases hc
  · simp only [Bool.and_eq_true, decide_eq_true_eq] at hc
    have hrel := h (.recv .spawn false none) { recvMut := true } [] {} p cfg' w' (fun q hq => by cases hq)
      winvMid_init cexRel hrun
    have := hrel.spawnImm ⟨0, 1⟩ hc.2
    rw [hc.1] at this
    cases this

/-! ### `Obl.initParam_grows` is false as stated, too: it has no hypothesis on the world

On an ill-formed slot map (`nextFree` pointing to a live slot) `insertWith` overwrites a live entry. -/

namespace InvV3

/-- a world whose component registry is ill formed: the free list starts at the live slot 0 -/
def badWorld : World :=
  { comps := { slots := [⟨1, U32MAX, some { ty := 7, id := ⟨0, 1⟩ }⟩], nextFree := 0, len := 1 } }

/-- `Fetcher<&K5>::init` returns normally and the component `⟨0, 1⟩` is gone -/
def growsCheck : Bool :=
  match (initParam (.fetch (.ref 5)) {}).run.run badWorld with
  | (.ok _, w') => (w'.comps.get ⟨0, 1⟩).isNone
  | (.error _, _) => false

set_option maxRecDepth 1000000 in
theorem growsCheck_true : growsCheck = true := by decide +kernel

end InvV3

/-- **`Obl.initParam_grows` does not hold** without `RegInv [] w` (use `initParam_grows_partial_v3`) -/
theorem initParam_grows_false_v3 : ¬ Obl.initParam_grows := by
  intro h
  have hc : growsCheck = true := growsCheck_true
  unfold growsCheck at hc
  generalize hrun : (initParam (.fetch (.ref 5)) {}).run.run badWorld = r at hc
  obtain ⟨(e | a), w'⟩ := r
  · cases hc
  · have hg := h _ _ _ _ _ hrun
    obtain ⟨ci', h1, -⟩ := hg.1 ⟨0, 1⟩ { ty := 7, id := ⟨0, 1⟩ } rfl
    dsimp only at hc
    rw [h1] at hc
    cases hc

end Evenio
