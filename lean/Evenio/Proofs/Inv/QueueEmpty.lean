import Evenio.Proofs.Inv.Obligations
import Evenio.Proofs.Inv.QEDefs
import Evenio.Props.C04
/-! Queue discipline of the top-level functions: entered with an empty queue, every one of them returns with an empty
    queue, and a panic other than the model's own fuel exhaustion leaves an empty queue as well (the unwinding guard of
    the event loop ran `dropQueued`).  One lemma per model function, registered (locally) as a leaf of `keeps` /
    `hoare2_inv` and of the walker `qe_walk` of this file, in the style of `Inv/Mono.lean`.  The definitions `QNil`, `NFq`,
    `QE` are in `Inv/QEDefs.lean`. -/
namespace Evenio
namespace InvV7

/-- closes `∀ w, QNil w → NFq e w` at a `throw` and `∀ e w, QNil w → NFq e w` at a leaf -/
local macro_rules | `(tactic| hoare2_err) => `(tactic| first | exact fun _ h _ _ => h | exact fun _ _ h _ _ => h)

theorem qe_of_keeps {α : Type} {m : M α} (h : Keeps QNil m) : QE m := Hoare.of_keeps h fun _ _ h => NFq.of_qnil h

theorem qe_set {w' : World} (h : QNil w') : QE (MonadStateOf.set w' : M PUnit) := qe_of_keeps (Keeps.set h)
theorem qe_modify {f : World → World} (h : ∀ w, QNil w → QNil (f w)) : QE (modify f : M PUnit) :=
  qe_of_keeps (Keeps.modify h)
theorem qe_modifyGet {α : Type} {f : World → α × World} (h : ∀ w, QNil w → QNil (f w).2) :
    QE (MonadState.modifyGet f : M α) := qe_of_keeps (Keeps.modifyGet h)

/-- one structural step of the walk; like `hoare2_inv_step`, but the leaves that keep the queue are looked up among the
    lemmas of this file only (the generic step retries the whole `keeps` database at every node) -/
local syntax "qe_step" : tactic
local macro_rules
  | `(tactic| qe_step) => `(tactic| first
      | ((with_reducible refine Hoare.pure ?_); exact fun _ h => h)
      | ((with_reducible refine Hoare.throw ?_); exact fun _ h _ _ => h)
      | ((with_reducible refine Hoare.ubErr ?_); exact fun _ h _ _ => h)
      | with_reducible hoare2_leaf
      | hoare2_special
      | ((with_reducible refine qe_set ?_); first | assumption | (simp only []; assumption))
      | ((with_reducible refine qe_modify (fun _ h => ?_)); first | exact h | (simp only []; exact h))
      | ((with_reducible refine qe_modifyGet (fun _ h => ?_)); first | exact h | (simp only []; exact h))
      | (with_reducible refine Hoare.get_bind (fun _ _ => ?_))
      | (with_reducible refine Hoare.bind_inv ?_ (fun _ => ?_))
      | (with_reducible refine Hoare.forIn_list_inv (fun _ _ => ?_))
      | (with_reducible refine Hoare.forIn_range_inv (fun _ _ => ?_))
      | (with_reducible refine Hoare.ite ?_ ?_)
      | dsimp only
      | split)

/-- prove `QE m` when every step of `m` is a leaf of this file, `push …; flush …` or keeps the queue -/
local macro "qe_walk" : tactic => `(tactic| repeat' qe_step)

/-! ### leaves that never touch the queue -/

theorem logT_qn (s : String) : Keeps QNil (logT s) := by unfold logT; keeps
local macro_rules | `(tactic| keeps_leaf) => `(tactic| exact logT_qn _)
local macro_rules | `(tactic| hoare2_leaf) => `(tactic| exact qe_of_keeps (logT_qn _))
theorem ubErr_qn {α : Type} (s : String) : Keeps QNil ((ubErr s : M α)) := by unfold ubErr; keeps
local macro_rules | `(tactic| keeps_leaf) => `(tactic| exact ubErr_qn _)
local macro_rules | `(tactic| hoare2_leaf) => `(tactic| exact qe_of_keeps (ubErr_qn _))
theorem dbgAssert_qn (c : Bool) (s : String) : Keeps QNil (dbgAssert c s) := by unfold dbgAssert; keeps
local macro_rules | `(tactic| keeps_leaf) => `(tactic| exact dbgAssert_qn _ _)
local macro_rules | `(tactic| hoare2_leaf) => `(tactic| exact qe_of_keeps (dbgAssert_qn _ _))
theorem dropCell_qn (ty : Nat) (c : Cell) : Keeps QNil (dropCell ty c) := by unfold dropCell; keeps
local macro_rules | `(tactic| keeps_leaf) => `(tactic| exact dropCell_qn _ _)
local macro_rules | `(tactic| hoare2_leaf) => `(tactic| exact qe_of_keeps (dropCell_qn _ _))
theorem dropCellIdx_qn (ty : Nat) (c : Cell) : Keeps QNil (dropCellIdx ty c) := by unfold dropCellIdx; keeps
local macro_rules | `(tactic| keeps_leaf) => `(tactic| exact dropCellIdx_qn _ _)
local macro_rules | `(tactic| hoare2_leaf) => `(tactic| exact qe_of_keeps (dropCellIdx_qn _ _))
theorem dropEvent_qn (it : QItem) : Keeps QNil (dropEvent it) := by unfold dropEvent; keeps
local macro_rules | `(tactic| keeps_leaf) => `(tactic| exact dropEvent_qn _)
local macro_rules | `(tactic| hoare2_leaf) => `(tactic| exact qe_of_keeps (dropEvent_qn _))
theorem handlerRefresh_qn (hk : Key) (a : Arch) : Keeps QNil (handlerRefresh hk a) := by unfold handlerRefresh; keeps
local macro_rules | `(tactic| keeps_leaf) => `(tactic| exact handlerRefresh_qn _ _)
local macro_rules | `(tactic| hoare2_leaf) => `(tactic| exact qe_of_keeps (handlerRefresh_qn _ _))
theorem handlerRemoveArch_qn (hk : Key) (a : Arch) : Keeps QNil (handlerRemoveArch hk a) := by
  unfold handlerRemoveArch; keeps
local macro_rules | `(tactic| keeps_leaf) => `(tactic| exact handlerRemoveArch_qn _ _)
local macro_rules | `(tactic| hoare2_leaf) => `(tactic| exact qe_of_keeps (handlerRemoveArch_qn _ _))
theorem getArch_qn (i : Nat) (s : String) : Keeps QNil (getArch i s) := by unfold getArch; keeps
local macro_rules | `(tactic| keeps_leaf) => `(tactic| exact getArch_qn _ _)
local macro_rules | `(tactic| hoare2_leaf) => `(tactic| exact qe_of_keeps (getArch_qn _ _))
theorem setArch_qn (a : Arch) : Keeps QNil (setArch a) := by unfold setArch; keeps
local macro_rules | `(tactic| keeps_leaf) => `(tactic| exact setArch_qn _)
local macro_rules | `(tactic| hoare2_leaf) => `(tactic| exact qe_of_keeps (setArch_qn _))
theorem freshEpoch_qn : Keeps QNil freshEpoch := by unfold freshEpoch; keeps
local macro_rules | `(tactic| keeps_leaf) => `(tactic| exact freshEpoch_qn)
local macro_rules | `(tactic| hoare2_leaf) => `(tactic| exact qe_of_keeps (freshEpoch_qn))
theorem freshE_qn : Keeps QNil freshE := by unfold freshE; keeps
local macro_rules | `(tactic| keeps_leaf) => `(tactic| exact freshE_qn)
local macro_rules | `(tactic| hoare2_leaf) => `(tactic| exact qe_of_keeps (freshE_qn))
theorem freshC_qn : Keeps QNil freshC := by unfold freshC; keeps
local macro_rules | `(tactic| keeps_leaf) => `(tactic| exact freshC_qn)
local macro_rules | `(tactic| hoare2_leaf) => `(tactic| exact qe_of_keeps (freshC_qn))
theorem registerHandler_qn (a : Arch) (h : HInfo) : Keeps QNil (a.registerHandler h) := by
  unfold Arch.registerHandler; keeps
local macro_rules | `(tactic| keeps_leaf) => `(tactic| exact registerHandler_qn _ _)
local macro_rules | `(tactic| hoare2_leaf) => `(tactic| exact qe_of_keeps (registerHandler_qn _ _))
theorem reserve_qn : Keeps QNil reserve := by unfold reserve; keeps
local macro_rules | `(tactic| keeps_leaf) => `(tactic| exact reserve_qn)
local macro_rules | `(tactic| hoare2_leaf) => `(tactic| exact qe_of_keeps (reserve_qn))
theorem resRefresh_qn : Keeps QNil resRefresh := by unfold resRefresh; keeps
local macro_rules | `(tactic| keeps_leaf) => `(tactic| exact resRefresh_qn)
local macro_rules | `(tactic| hoare2_leaf) => `(tactic| exact qe_of_keeps (resRefresh_qn))
theorem assertQueueEmpty_qn : Keeps QNil assertQueueEmpty := by unfold assertQueueEmpty; keeps
local macro_rules | `(tactic| keeps_leaf) => `(tactic| exact assertQueueEmpty_qn)
local macro_rules | `(tactic| hoare2_leaf) => `(tactic| exact qe_of_keeps (assertQueueEmpty_qn))
theorem archsRemoveComponent_qn (info : CompInfo) : Keeps QNil (archsRemoveComponent info) := by
  unfold archsRemoveComponent; keeps
  refine Keeps.modify fun w h => ?_
  split <;> exact h
local macro_rules | `(tactic| keeps_leaf) => `(tactic| exact archsRemoveComponent_qn _)
local macro_rules | `(tactic| hoare2_leaf) => `(tactic| exact qe_of_keeps (archsRemoveComponent_qn _))

/-! ### the event loop -/

/-- from ANY state: a flush returns with an empty queue, and so does every panic exit except fuel exhaustion -/
theorem flush_qe_any (fuel : Nat) : Hoare (fun _ => True) (flush fuel) (fun _ => QNil) NFq := by
  refine ⟨fun w _ => ?_⟩
  generalize hr : (flush fuel).run.run w = res
  obtain ⟨(e|a), w'⟩ := res
  · cases e with
    | panic c =>
      intro _ hc
      exact flushWith_error_queue hr fun h => hc (by rw [h])
    | ub s => exact fun hp => nomatch hp
    | assert s => exact fun hp => nomatch hp
  · exact flushWith_returns_empty hr

/-- `push` never throws -/
theorem push_any (it : QItem) {P : World → Prop} {E : Err → World → Prop} :
    Hoare P (push it) (fun _ _ => True) E := ⟨fun _ _ => trivial⟩

/-- `push it; flush fuel` in tail position -/
theorem push_flush_tail (it : QItem) (fuel : Nat) {P : World → Prop} :
    Hoare P (push it >>= fun _ => flush fuel) (fun _ => QNil) NFq :=
  Hoare.bind (R := fun _ _ => True) (push_any it) fun _ => flush_qe_any fuel

/-- `push it; flush fuel; f` -/
theorem push_flush_bind {β : Type} (it : QItem) (fuel : Nat) {P : World → Prop} {f : Unit → M β}
    {Q : β → World → Prop} (hf : ∀ a, Hoare QNil (f a) Q NFq) :
    Hoare P (push it >>= fun _ => flush fuel >>= f) Q NFq :=
  Hoare.bind (R := fun _ _ => True) (push_any it) fun _ => Hoare.bind (flush_qe_any fuel) hf

/-- `m; flush fuel; f` where `m` (a loop of `push`es) never fails: whatever `m` queues, the flush empties the queue -/
theorem any_flush_bind {α β : Type} {m : M α} (fuel : Nat) {P : World → Prop} {f : Unit → M β}
    {Q : β → World → Prop} (hm : Hoare (fun _ => True) m (fun _ _ => True) NFq) (hf : ∀ a, Hoare QNil (f a) Q NFq) :
    Hoare P (m >>= fun _ => flush fuel >>= f) Q NFq :=
  Hoare.bind (R := fun _ _ => True) (Hoare.pre hm fun _ _ => trivial) fun _ => Hoare.bind (flush_qe_any fuel) hf

local macro_rules
  | `(tactic| hoare2_special) => `(tactic| first
      | with_reducible exact push_flush_tail _ _
      | with_reducible refine push_flush_bind _ _ (fun _ => ?_)
      | with_reducible refine any_flush_bind _ ?_ (fun _ => ?_))
local macro_rules | `(tactic| hoare2_leaf) => `(tactic| exact push_any _)

/-! ### registration -/

theorem ensureAddG_qe : QE ensureAddG := by unfold ensureAddG; qe_walk
local macro_rules | `(tactic| hoare2_leaf) => `(tactic| exact ensureAddG_qe)

theorem addGlobalEvent_qe (ty : EvTy) : QE (addGlobalEvent ty) := by unfold addGlobalEvent; qe_walk
local macro_rules | `(tactic| hoare2_leaf) => `(tactic| exact addGlobalEvent_qe _)

theorem dropEventW_queue (it : QItem) (w : World) : (dropEventW it w).queue = w.queue := by
  unfold dropEventW
  split
  · rfl
  · rfl
  · unfold dropCellW; split <;> rfl
  · rfl

/-- the guard of `send` / `send_to`: the event value is dropped, the error rethrown -/
theorem tryCatch_drop_qe {α : Type} {m : M α} (it : QItem) (hm : QE m) :
    QE (tryCatch m fun e => dropEvent it >>= fun _ => throw e) := by
  refine Hoare.tryCatch hm fun e => ⟨fun w hw => ?_⟩
  rw [run_bind, run_dropEvent]
  show NFq e (dropEventW it w)
  intro hp hf
  rw [dropEventW_queue]
  exact hw hp hf

theorem sendGlobal_qe (ty : EvTy) (pay : Payload) : QE (sendGlobal ty pay) := by
  unfold sendGlobal
  refine Hoare.bind_inv (tryCatch_drop_qe _ (addGlobalEvent_qe ty)) fun k => ?_
  exact push_flush_tail _ _
local macro_rules | `(tactic| hoare2_leaf) => `(tactic| exact sendGlobal_qe _ _)

/-- normal return from ANY state (it ends with a flush) -/
theorem sendGlobal_ok_queue (ty : EvTy) (pay : Payload) :
    HoareOk (fun _ => True) (sendGlobal ty pay) (fun _ w' => w'.queue = []) := by
  unfold sendGlobal
  refine HoareOk.bind (R := fun _ _ => True) ⟨fun _ _ _ _ _ => trivial⟩ fun k => ?_
  refine HoareOk.bind (R := fun _ _ => True) ⟨fun _ _ _ _ _ => trivial⟩ fun _ => ?_
  exact ⟨fun w _ a w' hr => flush_returns_empty hr⟩

theorem addComponent_qe (ty : Nat) : QE (addComponent ty) := by unfold addComponent; qe_walk
local macro_rules | `(tactic| hoare2_leaf) => `(tactic| exact addComponent_qe _)

theorem addTargetedEvent_qe (ty : EvTy) : QE (addTargetedEvent ty) := by unfold addTargetedEvent; qe_walk
local macro_rules | `(tactic| hoare2_leaf) => `(tactic| exact addTargetedEvent_qe _)

theorem addEvent_qe (ty : EvTy) : QE (addEvent ty) := by unfold addEvent; qe_walk
local macro_rules | `(tactic| hoare2_leaf) => `(tactic| exact addEvent_qe _)

theorem sendTargeted_qe (ty : EvTy) (tg : Key) (pay : Payload) : QE (sendTargeted ty tg pay) := by
  unfold sendTargeted
  refine Hoare.bind_inv (tryCatch_drop_qe _ (addTargetedEvent_qe ty)) fun k => ?_
  exact push_flush_tail _ _
local macro_rules | `(tactic| hoare2_leaf) => `(tactic| exact sendTargeted_qe _ _ _)

/-! ### handlers -/

theorem initQuery_qe (q : Query) (cfg : Config) : QE (initQuery q cfg) := by unfold initQuery; qe_walk
local macro_rules | `(tactic| hoare2_leaf) => `(tactic| exact initQuery_qe _ _)

theorem initParam_qe (ps : PSpec) (cfg : Config) : QE (initParam ps cfg) := by unfold initParam; qe_walk
local macro_rules | `(tactic| hoare2_leaf) => `(tactic| exact initParam_qe _ _)

theorem registerAll_qe (k : Key) : QE (registerAll k) := by unfold registerAll; qe_walk
local macro_rules | `(tactic| hoare2_leaf) => `(tactic| exact registerAll_qe _)

theorem addHandler_qe (hs : HSpec) : QE (addHandler hs) := by unfold addHandler; qe_walk
local macro_rules | `(tactic| hoare2_leaf) => `(tactic| exact addHandler_qe _)

theorem removeHandler_qe (k : Key) : QE (removeHandler k) := by unfold removeHandler; qe_walk
local macro_rules | `(tactic| hoare2_leaf) => `(tactic| exact removeHandler_qe _)

/-! ### removal of events and components -/

theorem removeAll_qe (l : List Key) : QE (removeAll l) := by unfold removeAll; qe_walk
local macro_rules | `(tactic| hoare2_leaf) => `(tactic| exact removeAll_qe _)

theorem removeEventFinish_qe (ty : EvTy) (k : Key) : QE (removeEventFinish ty k) := by
  unfold removeEventFinish; qe_walk
local macro_rules | `(tactic| hoare2_leaf) => `(tactic| exact removeEventFinish_qe _ _)

theorem removeEvent_qe (ty : EvTy) (k : Key) : QE (removeEvent ty k) := by unfold removeEvent; qe_walk
local macro_rules | `(tactic| hoare2_leaf) => `(tactic| exact removeEvent_qe _ _)

theorem dropCompTail_qe (info : CompInfo) : QE (dropCompTail info) := by unfold dropCompTail; qe_walk
local macro_rules | `(tactic| hoare2_leaf) => `(tactic| exact dropCompTail_qe _)

theorem removeComponent_qe (k : Key) : QE (removeComponent k) := by unfold removeComponent; qe_walk
local macro_rules | `(tactic| hoare2_leaf) => `(tactic| exact removeComponent_qe _)

/-! ### top-level operations -/

theorem opSpawn_qe : QE opSpawn := by unfold opSpawn; qe_walk
local macro_rules | `(tactic| hoare2_leaf) => `(tactic| exact opSpawn_qe)

/-- all operations, including `drop` (it does not touch the queue) -/
theorem execOp_qe (op : Op) : QE (execOp op) := by
  unfold execOp
  cases op <;> qe_walk

end InvV7
end Evenio
