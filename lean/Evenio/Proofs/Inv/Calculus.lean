import Evenio.Proofs.Inv.Mono
/-! Working with the obligation shapes `KeepsG` / `KeepsW` / `KeepsP` (Proofs/WInv.lean): consequences of `WInv` in the
    form the existing lemmas want them, introduction rules (from a run-level statement, from a `Keeps` lemma),
    composition, and the lifting of a per-delivery obligation to the event loop `flushWith` — including the unwinding
    path through `dropQueued`. -/
namespace Evenio
open Graph (GraphOK)

/-! ### consequences of the invariant, in the form the existing lemmas take them -/

theorem StoreOk.congr {w w' : World} (h : StoreOk w) (ha : w'.archs = w.archs) (he : w'.entities = w.entities) :
    StoreOk w' := by
  obtain ⟨h1, h2, h3⟩ := h
  refine ⟨?_, ?_, ?_⟩
  · unfold IndexOk at h1 ⊢; rw [ha]; exact h1
  · rw [he]; exact h2
  · have : absStore w' = absStore w := by unfold absStore; rw [ha, he]
    rw [this]; exact h3

variable {w : World}

theorem StoreInv'.storeOk {A : Slab Arch} {E : SlotMap Loc} (h : StoreInv' A E) {w : World} (ha : w.archs = A)
    (he : w.entities = E) : StoreOk w :=
  h.ok.congr ha he

theorem WInv.storeOk (h : WInv w) : StoreOk w := h.store.storeOk rfl rfl
theorem WInv.entsWF (h : WInv w) : w.entities.WF := h.storeOk.ents
theorem WInv.indexOK (h : WInv w) : IndexOK w.archs := h.graph.graph.idx
theorem WInv.slabWF (h : WInv w) : Slab.WF w.archs := h.graph.graph.wf
theorem WInv.archOK (h : WInv w) : ArchOK w.archs := ⟨h.indexOK, h.graph.empty⟩
theorem WInv.regInv (h : WInv w) : RegInv [] w := h.registry.reg
theorem WInv.handlersWF (h : WInv w) : w.handlers.WF := h.registry.reg.wfh
theorem WInv.compsWF (h : WInv w) : w.comps.WF := h.registry.reg.wfc
theorem WInv.gevsWF (h : WInv w) : w.gevs.WF := h.registry.reg.wfg
theorem WInv.tevsWF (h : WInv w) : w.tevs.WF := h.registry.reg.wft

theorem WInv.hasEmpty (h : WInv w) : (absStore w).HasEmpty := by
  obtain ⟨a0, h0, hc⟩ := h.graph.empty
  exact ⟨absArch a0, absStore_arch_of_get h0, hc⟩

/-- the refresh listeners of every archetype cover every handler one of whose query parameters selects it
    (`ListsInv.arch.refresh` + `HandlerOK.archFilter` + `refresh_listeners_cover`) -/
theorem WInv.refreshCovers (h : WInv w) {i : Nat} {a : Arch} (ha : w.archs.get i = some a) :
    C10.RefreshCovers w.handlers a := by
  have hl := h.lists.arch i a ha
  refine ⟨hl.refreshNodup, fun k hi hk p hp hq hs => ?_⟩
  refine (hl.refresh k).2 ⟨(h.lists.ordMem k).2 (by simp [SlotMap.contains, hk]), hi, hk, ?_⟩
  have hok := h.lists.handler k hi hk
  refine refresh_listeners_cover hi hi.accesses hok.archFilter p.q ?_ a.S hs
  unfold HInfo.accesses
  exact List.mem_map.2 ⟨p, List.mem_filter.2 ⟨hp, hq⟩, rfl⟩

/-- **the cache invariant of C10** (what `C10.moveEntity_keeps_caches` & co. take and return), with the slab length as
    the bound on archetype indices -/
theorem WInv.cacheInv (h : WInv w) : C10.CacheInv w.archs.entries.length w.handlers w.archs :=
  ⟨h.indexOK, fun _ _ ha => Slab.get_lt_length ha, h.cache.caches, fun _ _ ha => h.refreshCovers ha⟩

theorem WInvMid.winv (h : WInvMid w) : WInv w := h.1
theorem WInvMid.graph (h : WInvMid w) : GraphInv w := h.1.graph
theorem WInvMid.store (h : WInvMid w) : StoreInv w := h.1.store
theorem WInvMid.lists (h : WInvMid w) : ListsInv w := h.1.lists
theorem WInvMid.cache (h : WInvMid w) : CacheGroup w := h.1.cache
theorem WInvMid.registry (h : WInvMid w) : RegistryInv w := h.1.registry
theorem WInvMid.reserved (h : WInvMid w) : ReservedSome w := h.2

theorem Quiescent.reservedSome (h : Quiescent w) : ReservedSome w := ⟨[], h.2⟩
theorem Quiescent.pendingOK (h : Quiescent w) (E : Prop) : PendingOK E w := ⟨[], h.2, fun hne => (hne rfl).elim⟩

/-- at the end of a flush nothing is pending, so nothing is reserved -/
theorem PendingOK.quiescent (h : PendingOK False w) (hq : w.queue = []) : Quiescent w := by
  obtain ⟨ks, hr, hp⟩ := h
  refine ⟨hq, ?_⟩
  cases ks with
  | nil => exact hr
  | cons k ks =>
    rcases hp (by simp) with hf | ⟨q, hm, -⟩
    · exact hf.elim
    · rw [hq] at hm; cases hm

theorem PendingOK.reservedSome {E : Prop} (h : PendingOK E w) : ReservedSome w := h.imp fun _ hk => hk.1

theorem PendingOK.weaken {E E' : Prop} (h : PendingOK E w) (hE : E → E') : PendingOK E' w := by
  obtain ⟨ks, hr, hp⟩ := h
  exact ⟨ks, hr, fun hne => (hp hne).imp hE id⟩

/-! ### introduction rules -/

theorem panicOnly_of {P : World → Prop} {e : Err} {w : World} (h : P w) : PanicOnly P e w := fun _ => h

/-- an invariant kept on every exit is kept on normal and panic exits -/
theorem Hoare.of_keeps_panicOnly {α : Type} {P : World → Prop} {m : M α} (h : Keeps P m) :
    Hoare P m (fun _ => P) (PanicOnly P) :=
  Hoare.of_keeps h fun _ _ hw => panicOnly_of hw

/-- **from a run-level statement**: it is enough to consider a run from a state satisfying `WInvMid` (unguarded) to a
    state satisfying `Small`; `m` never shrinks the slab -/
theorem KeepsG.of_run {α : Type} {G : World → Prop} {m : M α} (hmono : SlabMono m)
    (h : ∀ w, WInvMid w → ∀ r w', m.run.run w = (r, w') → Small w' →
      match r with
      | .ok _ => G w'
      | .error e => e.isPanic = true → G w') : KeepsG G m := by
  refine ⟨fun w hw => ?_⟩
  generalize hr : m.run.run w = res
  obtain ⟨r, w'⟩ := res
  cases r with
  | ok a => exact fun hs => h w (hw (hmono.small hr hs)) (.ok a) w' hr hs
  | error e => exact fun hp hs => h w (hw (hmono.small hr hs)) (.error e) w' hr hs hp

/-- the converse: what a `KeepsG` lemma says about a run -/
theorem KeepsG.at_run {α : Type} {G : World → Prop} {m : M α} (h : KeepsG G m) {w : World} (hw : WInvMid w)
    {r : Except Err α} {w' : World} (hr : m.run.run w = (r, w')) (hs : Small w') :
    match r with
    | .ok _ => G w'
    | .error e => e.isPanic = true → G w' := by
  have := Hoare.run h w (fun _ => hw)
  rw [hr] at this
  cases r with
  | ok a => exact this hs
  | error e => exact fun hp => this hp hs

theorem KeepsG.run_ok {α : Type} {G : World → Prop} {m : M α} (h : KeepsG G m) {w : World} (hw : WInvMid w)
    {a : α} {w' : World} (hr : m.run.run w = (.ok a, w')) (hs : Small w') : G w' :=
  h.at_run hw hr hs

theorem KeepsG.run_panic {α : Type} {G : World → Prop} {m : M α} (h : KeepsG G m) {w : World} (hw : WInvMid w)
    {c : String} {w' : World} (hr : m.run.run w = (.error (.panic c), w')) (hs : Small w') : G w' :=
  h.at_run hw hr hs rfl

/-- a function every step of which keeps the (guarded) invariant -/
theorem KeepsW.of_keeps {α : Type} {m : M α} (h : Keeps (Guarded WInvMid) m) : KeepsW m :=
  Hoare.of_keeps_panicOnly h

/-- a group that is kept by every step of `m` ON ITS OWN (a frame argument, as in `Registry.lean`) -/
theorem KeepsG.of_keeps_group {α : Type} {G : World → Prop} {m : M α} (hG : ∀ w, WInvMid w → G w)
    (hmono : SlabMono m) (h : Keeps G m) : KeepsG G m :=
  KeepsG.of_run hmono fun w hw r w' hr _ => by
    have := h.run w (hG w hw)
    rw [hr] at this
    cases r with
    | ok a => exact this
    | error e => exact fun _ => this

theorem KeepsG.weaken {α : Type} {G G' : World → Prop} {m : M α} (h : KeepsG G m) (hG : ∀ w, G w → G' w) :
    KeepsG G' m :=
  Hoare.post h (fun _ w hw hs => hG w (hw hs)) (fun _ w hw hp hs => hG w (hw hp hs))

/-- **the six groups give the whole invariant** -/
theorem KeepsW.of_groups {α : Type} {m : M α} (h1 : KeepsG GraphInv m) (h2 : KeepsG StoreInv m)
    (h3 : KeepsG ListsInv m) (h4 : KeepsG CacheGroup m) (h5 : KeepsG RegistryInv m) (h6 : KeepsG ReservedSome m) :
    KeepsW m := by
  refine ⟨fun w hw => ?_⟩
  have r1 := Hoare.run h1 w hw; have r2 := Hoare.run h2 w hw; have r3 := Hoare.run h3 w hw
  have r4 := Hoare.run h4 w hw; have r5 := Hoare.run h5 w hw; have r6 := Hoare.run h6 w hw
  generalize m.run.run w = res at r1 r2 r3 r4 r5 r6
  obtain ⟨r, w'⟩ := res
  cases r with
  | ok a => exact fun hs => ⟨⟨hs, r1 hs, r2 hs, r3 hs, r4 hs, r5 hs⟩, r6 hs⟩
  | error e => exact fun hp hs => ⟨⟨hs, r1 hp hs, r2 hp hs, r3 hp hs, r4 hp hs, r5 hp hs⟩, r6 hp hs⟩

/-- the triples only look at what a program does when it is run -/
theorem Hoare.congr_run {α : Type} {P : World → Prop} {m m' : M α} {Q : α → World → Prop} {E : Err → World → Prop}
    (h : Hoare P m Q E) (hrun : ∀ w, m'.run.run w = m.run.run w) : Hoare P m' Q E :=
  ⟨fun w hw => by rw [hrun w]; exact h.run w hw⟩

/-! ### composition -/

/-- `m` keeps everything, then `f a` is analysed for the group `G` (a consequence of `WInvMid`, so that a panic of `m`
    is covered) -/
theorem KeepsG.bind {α β : Type} {G : World → Prop} {m : M α} {f : α → M β} (hG : ∀ w, WInvMid w → G w)
    (hm : KeepsW m) (hf : ∀ a, KeepsG G (f a)) : KeepsG G (m >>= f) :=
  Hoare.bind (Hoare.post hm (fun _ _ h => h) (fun _ w hw hp hs => hG w (hw hp hs))) hf

theorem KeepsW.bind {α β : Type} {m : M α} {f : α → M β} (hm : KeepsW m) (hf : ∀ a, KeepsW (f a)) :
    KeepsW (m >>= f) :=
  Hoare.bind hm hf

theorem KeepsW.pure {α : Type} (a : α) : KeepsW (Pure.pure a : M α) := Hoare.pure fun _ h => h
theorem KeepsW.throw {α : Type} (e : Err) : KeepsW (MonadExcept.throw e : M α) :=
  Hoare.throw fun _ h => panicOnly_of h

theorem KeepsW.forIn_list {β γ : Type} {l : List γ} {b : β} {f : γ → β → M (ForInStep β)}
    (hf : ∀ a b, KeepsW (f a b)) : KeepsW (forIn l b f) :=
  Hoare.forIn_list_inv hf

/-- `tryCatch` whose handler rethrows: the handler runs in the state the body left, which satisfies the invariant only
    if the body panicked -/
theorem KeepsW.tryCatch {α : Type} {m : M α} {h : Err → M α} (hm : KeepsW m)
    (hh : ∀ e, Hoare (PanicOnly (Guarded WInvMid) e) (h e) (fun _ => Guarded WInvMid)
      (PanicOnly (Guarded WInvMid))) : KeepsW (MonadExcept.tryCatch m h) :=
  Hoare.tryCatch hm hh

/-! ### the event loop -/

theorem guarded_winvMid_queueBlind : QueueBlind (Guarded WInvMid) :=
  fun _ _ _ h hs => (h hs).frame (by releq) rfl rfl

/-- **a per-delivery obligation lifts to the whole flush**, unwinding included: when `deliver` panics the invariant
    holds in the state it left (`PanicOnly`), the guard puts the set-aside queue back and runs `dropQueued`, which
    keeps the invariant, and the panic is rethrown; when `deliver` exits with `ub` / `assert` nothing is claimed and
    nothing is needed. -/
theorem flushWith_keepsW {deliver : QItem → M Unit} (hd : ∀ it, KeepsW (deliver it)) (hq : KeepsW dropQueued)
    (fuel : Nat) : KeepsW (flushWith deliver fuel) := by
  have hI := guarded_winvMid_queueBlind
  have hqueue : ∀ w q, Guarded WInvMid w → Guarded WInvMid { w with queue := q } :=
    fun w q h => hI w q w.arenaEpoch h
  have hepoch : ∀ w n, Guarded WInvMid w → Guarded WInvMid { w with arenaEpoch := n } :=
    fun w n h => hI w w.queue n h
  induction fuel with
  | zero => exact KeepsW.throw _
  | succ fuel ih =>
    rw [flushWith]
    refine Hoare.get_bind fun w hw => ?_
    split
    · exact Hoare.of_keeps_panicOnly (Keeps.set (hepoch w _ hw))
    · refine Hoare.bind_inv (Hoare.of_keeps_panicOnly (Keeps.set (hqueue w _ hw))) fun _ => ?_
      refine Hoare.bind_inv (KeepsW.tryCatch (hd _) fun e => ?_) fun _ => ?_
      · -- the unwinding guard
        cases e with
        | panic s =>
          refine Hoare.pre (P' := Guarded WInvMid) ?_ (fun w h => h rfl)
          refine Hoare.bind_inv (Hoare.of_keeps_panicOnly (Keeps.modify fun w h => hqueue w _ h)) fun _ => ?_
          exact Hoare.bind_inv hq fun _ => KeepsW.throw _
        | ub s =>
          refine ⟨fun w _ => ?_⟩
          simp only [run_bind, run_modify, run_throw]
          exact fun hp => nomatch hp
        | assert s =>
          refine ⟨fun w _ => ?_⟩
          simp only [run_bind, run_modify, run_throw]
          exact fun hp => nomatch hp
      · exact Hoare.bind_inv (Hoare.of_keeps_panicOnly (Keeps.modify fun w h => hqueue w _ h)) fun _ => ih

theorem flush_keepsW (hd : ∀ it, KeepsW (deliverOne it)) (hq : KeepsW dropQueued) (fuel : Nat) :
    KeepsW (flush fuel) :=
  flushWith_keepsW hd hq fuel

/-! ### G6 along the event loop -/

theorem Hoare.and {α : Type} {P : World → Prop} {m : M α} {Q1 Q2 : α → World → Prop} {E1 E2 : Err → World → Prop}
    (h1 : Hoare P m Q1 E1) (h2 : Hoare P m Q2 E2) :
    Hoare P m (fun a w => Q1 a w ∧ Q2 a w) (fun e w => E1 e w ∧ E2 e w) := by
  refine ⟨fun w hw => ?_⟩
  have r1 := h1.run w hw; have r2 := h2.run w hw
  generalize m.run.run w = res at r1 r2
  obtain ⟨(e|a), w'⟩ := res <;> exact ⟨r1, r2⟩

/-- a triple for normal returns, as a triple that claims nothing about exceptional exits -/
theorem Hoare.of_hoareOk {α : Type} {P : World → Prop} {m : M α} {Q : α → World → Prop} (h : HoareOk P m Q) :
    Hoare P m Q (fun _ _ => True) := by
  refine ⟨fun w hw => ?_⟩
  have := h.run w hw
  generalize m.run.run w = res at this
  obtain ⟨(e|a), w'⟩ := res
  · trivial
  · exact this a w' rfl

/-- membership in the popped queue -/
theorem mem_queue_of_getLast? {l : List QItem} {it : QItem} (h : l.getLast? = some it) (q : QItem) :
    q ∈ l ↔ q ∈ l.dropLast ∨ q = it := by
  obtain ⟨ys, rfl⟩ := List.getLast?_eq_some_iff.1 h
  simp

/-- **G6 along a flush**: if every delivery keeps the invariant, does not change the global-event registry, and
    satisfies the per-delivery G6 obligation, then a flush started with the reservations covered up to `E` returns with
    the reservations covered up to `E` and an empty queue — for `E = False`: `Quiescent`. -/
theorem flushWith_keepsP {deliver : QItem → M Unit} (hW : ∀ it, KeepsW (deliver it))
    (hg : ∀ it g, Keeps (fun w => w.gevs = g) (deliver it)) (hP : DeliverP deliver) (fuel : Nat)
    (g : SlotMap EvInfo) (E : Prop) :
    Hoare (fun w => w.gevs = g ∧ Guarded (fun w => WInvMid w ∧ PendingOK E w) w) (flushWith deliver fuel)
      (fun _ w' => w'.gevs = g ∧ Guarded (fun w => WInvMid w ∧ PendingOK E w ∧ w.queue = []) w')
      (fun _ _ => True) := by
  induction fuel with
  | zero => exact Hoare.throw fun _ _ => trivial
  | succ fuel ih =>
    rw [flushWith]
    refine Hoare.get_bind fun w hw => ?_
    obtain ⟨hwg, hw⟩ := hw
    split
    · next hnone =>
      refine ⟨fun w0 _ => ?_⟩
      simp only [run_set]
      refine ⟨hwg, fun hs => ?_⟩
      obtain ⟨h1, h2⟩ := hw hs
      exact ⟨h1.frame (by releq) rfl rfl, h2, List.getLast?_eq_none_iff.1 hnone⟩
    · next it hit =>
      -- the part of `E` the set-aside events account for
      let E' : Prop := E ∨ ∃ q ∈ w.queue.dropLast, q.spawns g = true
      refine Hoare.bind (R := fun _ w1 => w1.gevs = g ∧
          Guarded (fun w => WInvMid w ∧ PendingOK (E' ∨ it.spawns g = true) w) w1) ⟨fun w0 _ => ?_⟩ fun _ => ?_
      · simp only [run_set]
        refine ⟨hwg, fun hs => ?_⟩
        obtain ⟨h1, ks, hr, hp⟩ := hw hs
        refine ⟨h1.frame (by releq) rfl rfl, ks, hr, fun hne => ?_⟩
        rcases hp hne with he | ⟨q, hq, hsp⟩
        · exact .inl (.inl (.inl he))
        · rw [hwg] at hsp
          rcases (mem_queue_of_getLast? hit q).1 hq with hq | rfl
          · exact .inl (.inl (.inr ⟨q, hq, hsp⟩))
          · exact .inl (.inr hsp)
      refine Hoare.bind (R := fun _ w2 => w2.gevs = g ∧ Guarded (fun w => WInvMid w ∧ PendingOK E' w) w2)
        (Hoare.tryCatch (E1 := fun _ _ => True) ?_ fun e => ?_) fun _ => ?_
      · -- the delivery
        have h1 := Hoare.of_keeps (E := fun _ _ => True) (hg it g) (fun _ _ _ => trivial)
        have h2 : Hoare (fun w => w.gevs = g ∧
            Guarded (fun w => WInvMid w ∧ PendingOK (E' ∨ it.spawns g = true) w) w) (deliver it)
            (fun _ => Guarded WInvMid) (fun _ _ => True) :=
          Hoare.post (Hoare.pre (hW it) fun w h hs => (h.2 hs).1) (fun _ _ h => h) (fun _ _ _ => trivial)
        have h3 := hP it g E'
        refine Hoare.post (Hoare.and (Hoare.and (Hoare.pre h1 fun _ h => h.1) h2) h3) ?_ (fun _ _ _ => trivial)
        rintro _ w2 ⟨⟨a1, a2⟩, a3⟩
        exact ⟨a1, fun hs => ⟨a2 hs, a3 hs⟩⟩
      · -- the unwinding guard never returns normally
        refine Hoare.of_hoareOk (HoareOk.bind (R := fun _ _ => True) ⟨fun _ _ _ _ _ => trivial⟩ fun _ => ?_)
        cases e with
        | panic s => exact HoareOk.bind_throw
        | ub s => exact HoareOk.throw _
        | assert s => exact HoareOk.throw _
      · -- the set-aside events are put back under what the delivery left
        refine Hoare.bind (R := fun _ w3 => w3.gevs = g ∧ Guarded (fun w => WInvMid w ∧ PendingOK E w) w3)
          ⟨fun w2 hw2 => ?_⟩ fun _ => ih
        simp only [run_modify]
        obtain ⟨hg2, hw2⟩ := hw2
        refine ⟨hg2, fun hs => ?_⟩
        obtain ⟨h1, ks, hr, hp⟩ := hw2 hs
        refine ⟨h1.frame (by releq) rfl rfl, ks, hr, fun hne => ?_⟩
        rcases hp hne with (he | ⟨q, hq, hsp⟩) | ⟨q, hq, hsp⟩
        · exact .inl he
        · exact .inr ⟨q, List.mem_append_left _ hq, hg2 ▸ hsp⟩
        · exact .inr ⟨q, List.mem_append_right _ hq, hsp⟩

/-- in particular: a flush started between two deliveries (`ReservedPending`) ends quiescent -/
theorem flushWith_quiescent {deliver : QItem → M Unit} (hW : ∀ it, KeepsW (deliver it))
    (hg : ∀ it g, Keeps (fun w => w.gevs = g) (deliver it)) (hP : DeliverP deliver) (fuel : Nat) {w w' : World}
    (hw : WInvMid w) (hp : ReservedPending w) (hr : (flushWith deliver fuel).run.run w = (.ok (), w'))
    (hs : Small w') : WInv w' ∧ Quiescent w' := by
  have := (flushWith_keepsP hW hg hP fuel w.gevs False).run w ⟨rfl, fun _ => ⟨hw, hp⟩⟩
  rw [hr] at this
  obtain ⟨h1, h2, h3⟩ := this.2 hs
  exact ⟨h1.1, h2.quiescent h3⟩

end Evenio
