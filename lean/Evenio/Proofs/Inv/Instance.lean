import Evenio.Proofs.Inv.FinalAux
import Evenio.Proofs.Inv.Graph
import Evenio.Proofs.Inv.StoreAll
import Evenio.Proofs.Inv.StoreCount
import Evenio.Proofs.Inv.ListsAll
import Evenio.Proofs.Inv.Cache
import Evenio.Proofs.Inv.Registry
import Evenio.Proofs.Inv.Pending
import Evenio.Proofs.Inv.Facts
import Evenio.Proofs.Inv.FactsConfig
import Evenio.Proofs.Inv.ExecChecks
/-! # The world invariant is inductive: all piece obligations instantiated

`pieces : Pieces` collects the theorems of the six group files (graph, store, lists, cache, registry, reservations/pending)
and the functional facts; with the assembler's glue (`Glue.lean`, `Glue2.lean`, `GlueTop.lean`, `RemoveComp.lean`,
`Final.lean`, `FinalAux.lean`) this closes, with no hypothesis left,

* `reachable_WInv : ∀ w, Reach w → Small w → WInv w ∧ Quiescent w`
* `reachable_InvPlus : ∀ w, Reach w → Small w → w.InvPlus = true`

(`Reach` = the worlds the driver reaches from the empty world by valid operations that return normally; `Small` = fewer
than `u32::MAX` archetype slots and targeted-event slots, the resource bound the Rust code asserts and the model does
not.) -/
namespace Evenio
open InvV7

/-- `∀ g, Obl.<piece>_keeps g` from the five group theorems -/
local macro "by_group" a:term "," b:term "," c:term "," d:term "," e:term : term =>
  `(fun g => match g with | .graph => $a | .store => $b | .lists => $c | .cache => $d | .registry => $e)

private theorem regGev_all : ∀ g, Obl.regGev_keeps g :=
  by_group regGev_keeps_graph, regGev_keeps_store, regGev_keeps_lists, regGev_keeps_cache, regGev_keeps_registry
private theorem regComp_all : ∀ g, Obl.regComp_keeps g :=
  by_group regComp_keeps_graph, regComp_keeps_store, regComp_keeps_lists, regComp_keeps_cache, regComp_keeps_registry
private theorem regTev_all : ∀ g, Obl.regTev_keeps g :=
  by_group regTev_keeps_graph, regTev_keeps_store, regTev_keeps_lists, regTev_keeps_cache, regTev_keeps_registry
private theorem registerAll_all : ∀ g, Obl.registerAll_keeps g :=
  by_group registerAll_keeps_graph, registerAll_keeps_store, registerAll_keeps_lists, registerAll_keeps_cache, registerAll_keeps_registry
private theorem reserve_all : ∀ g, Obl.reserve_keeps g :=
  by_group reserve_keeps_graph, reserve_keeps_store, reserve_keeps_lists, reserve_keeps_cache, reserve_keeps_registry
private theorem bumpCell_all : ∀ g, Obl.bumpCell_keeps g :=
  by_group bumpCell_keeps_graph, bumpCell_keeps_store, bumpCell_keeps_lists, bumpCell_keeps_cache, bumpCell_keeps_registry
private theorem spawnAll_all : ∀ g, Obl.spawnAll_keeps g :=
  by_group spawnAll_keeps_graph, spawnAll_keeps_store, spawnAll_keeps_lists, spawnAll_keeps_cache, spawnAll_keeps_registry
private theorem traverseInsert_all : ∀ g, Obl.traverseInsert_keeps g :=
  by_group traverseInsert_keeps_graph, traverseInsert_keeps_store, traverseInsert_keeps_lists, traverseInsert_keeps_cache, traverseInsert_keeps_registry
private theorem traverseRemove_all : ∀ g, Obl.traverseRemove_keeps g :=
  by_group traverseRemove_keeps_graph, traverseRemove_keeps_store, traverseRemove_keeps_lists, traverseRemove_keeps_cache, traverseRemove_keeps_registry
private theorem moveEntity_all : ∀ g, Obl.moveEntity_keeps g :=
  by_group moveEntity_keeps_graph, moveEntity_keeps_store, moveEntity_keeps_lists, moveEntity_keeps_cache, moveEntity_keeps_registry
private theorem removeEntity_all : ∀ g, Obl.removeEntity_keeps g :=
  by_group removeEntity_keeps_graph, removeEntity_keeps_store, removeEntity_keeps_lists, removeEntity_keeps_cache, removeEntity_keeps_registry

/-- the delivery glue from the primitives alone (what the pending group takes as a hypothesis) -/
private theorem deliverOne_glue : Obl.glue_deliverOne := by
  have kres : KeepsW reserve := KeepsW.of_obl reserve_all InvV5.reserve_reserved
  have kbump : ∀ ai row c, KeepsW (bumpCell ai row c) := fun ai row c =>
    KeepsW.of_obl (fun g => bumpCell_all g ai row c) (InvV5.bumpCell_reserved ai row c)
  have ksp : KeepsW spawnAll := KeepsW.of_obl spawnAll_all InvV5.spawnAll_reserved
  have kti : ∀ src c, KeepsW (traverseInsert src c) := fun src c =>
    KeepsW.of_obl (fun g => traverseInsert_all g src c) (InvV5.traverseInsert_reserved src c)
  have ktr : ∀ src c, KeepsW (traverseRemove src c) := fun src c =>
    KeepsW.of_obl (fun g => traverseRemove_all g src c) (InvV5.traverseRemove_reserved src c)
  have kme : ∀ src dst new, KeepsW (moveEntity src dst new) := fun src dst new =>
    KeepsW.of_obl (fun g => moveEntity_all g src dst new) (InvV5.moveEntity_reserved src dst new)
  exact Evenio.glue_deliverOne (Evenio.glue_runHandler kres kbump) kti ktr kme ksp
    (Evenio.glue_fixedDespawn ksp removeEntity_all InvV5.fixedDespawn_reserved)

theorem pieces : Pieces where
  reserve_keeps := reserve_all
  bumpCell_keeps := bumpCell_all
  spawnAll_keeps := spawnAll_all
  traverseInsert_keeps := traverseInsert_all
  traverseRemove_keeps := traverseRemove_all
  moveEntity_keeps := moveEntity_all
  removeEntity_keeps := removeEntity_all
  regGev_keeps := regGev_all
  regComp_keeps := regComp_all
  regTev_keeps := regTev_all
  registerAll_keeps := registerAll_all
  removeHandlerPure_keeps := by_group removeHandlerPure_keeps_graph, removeHandlerPure_keeps_store, removeHandlerPure_keeps_lists, removeHandlerPure_keeps_cache, removeHandlerPure_keeps_registry
  removeEventFinish_keeps := by_group removeEventFinish_keeps_graph, removeEventFinish_keeps_store, removeEventFinish_keeps_lists, removeEventFinish_keeps_cache, removeEventFinish_keeps_registry
  dropComp_keeps' := fun g w k info comps' hM hU hid hrm =>
    match g with
    | .graph => dropComp_keeps_graph_partial w k info comps' hM hU hrm (by rw [hid])
    | .store => dropComp_keeps_store w k info comps' hM hU hrm
    | .lists => dropComp_keeps_lists w k info comps' hM hU hrm
    | .cache => dropComp_keeps_cache w k info comps' hM hU hrm
    | .registry => dropComp_keeps_registry w k info comps' hM hU hrm
  setGen_keeps := by_group setGen_keeps_graph, setGen_keeps_store, setGen_keeps_lists, setGen_keeps_cache, setGen_keeps_registry
  reserve_reserved := InvV5.reserve_reserved
  bumpCell_reserved := InvV5.bumpCell_reserved
  spawnAll_reserved := InvV5.spawnAll_reserved
  traverseInsert_reserved := InvV5.traverseInsert_reserved
  traverseRemove_reserved := InvV5.traverseRemove_reserved
  moveEntity_reserved := InvV5.moveEntity_reserved
  fixedDespawn_reserved := InvV5.fixedDespawn_reserved
  dropComp_quiescent' := InvV5.dropComp_quiescent'
  extra_dropComp_noPanic := dropComp_noPanic
  setGen_quiescent := InvV5.setGen_quiescent
  flush_pending := InvV5.flush_pending deliverOne_glue
  sendGlobal_pending := InvV5.sendGlobal_pending deliverOne_glue regGev_all
  addGlobalEvent_pending := InvV5.addGlobalEvent_pending deliverOne_glue regGev_all
  addComponent_pending := InvV5.addComponent_pending deliverOne_glue regGev_all regComp_all
  addTargetedEvent_pending_partial := InvV5.addTargetedEvent_pending_partial deliverOne_glue regGev_all regComp_all regTev_all
  sendTargeted_pending_partial := InvV5.sendTargeted_pending_partial deliverOne_glue regGev_all regComp_all regTev_all
  addHandler_pending_partial := InvV5.addHandler_pending_partial deliverOne_glue regGev_all regComp_all regTev_all registerAll_all
  removeHandler_pending := InvV5.removeHandler_pending deliverOne_glue regGev_all
  addComponent_live := addComponent_live
  initParam_configRel_partial := initParam_configRel_partial
  removeHandler_cores := removeHandler_cores
  removeAll_unused := removeAll_unused

theorem execPieces : ExecPieces where
  count := fun _ h => winv_implies_count h
  slabCheck := execLeft_slabCheck
  slotCheck := execLeft_slotCheck

/-- **Every world the driver reaches by valid operations that return normally satisfies the logical world invariant and
    is quiescent** (no hypothesis left; `Small` is the resource bound `< u32::MAX` archetype / targeted-event slots). -/
theorem reachable_WInv : Obl.reachable_WInv := reachable_WInv_of_pieces pieces

/-- **… and therefore the executable invariant `InvPlus`** — the one the driver evaluates with `--inv` and the `inv`
    channel reports — **holds in every such world**. -/
theorem reachable_InvPlus : Obl.reachable_InvPlus := reachable_InvPlus_of_pieces pieces execPieces

/-- **one operation, from ANY world satisfying the invariants** (not only reachable ones): a valid operation started in a
    quiescent world satisfying `WInv` and the two auxiliary registry facts (`CompIdInv`, `TevTyped`) ends, on normal
    return, in such a world again; if it ends in a panic (a documented panic of the library, or a panicking handler), the
    world still satisfies every structural group of the invariant with SOME consistent reservation state (`WInvMid`;
    reservations may stay pending: finding F8) and the event queue is empty (except for the model's own fuel marker). -/
theorem execOp_keeps_invariant (op : Op) (h : op.Valid) :
    Hoare (GQA AuxInv) (execOp op) (fun _ => GQA AuxInv) fun e w =>
      e.isPanic = true → Guarded (fun w => WInvMid w ∧ AuxInv w ∧ (e ≠ Err.panic "model:fuel" → w.queue = [])) w :=
  execOp_keeps_WInv_of_pieces pieces op h

/-- the same for the driver's `step` and the executable invariant -/
theorem step_keeps_InvPlus_final (w : World) (op : Op) (hw : WInv w) (hq : Quiescent w)
    (ha : InvV7.CompIdInv w ∧ InvV7.TevTyped w) (hv : op.Valid) (hok : StepOk w op) (hs : Small (step w op).fst) :
    (step w op).fst.InvPlus = true :=
  step_keeps_InvPlus_of_pieces pieces execPieces w op hw hq ha hv hok hs

#print axioms execOp_keeps_invariant
#print axioms step_keeps_InvPlus_final
#print axioms reachable_WInv
#print axioms reachable_InvPlus

end Evenio
