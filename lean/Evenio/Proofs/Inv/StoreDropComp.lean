import Evenio.Proofs.Inv.Store2
/-! # G2 — `dropCompTail` keeps the storage group (worker 2)

`archsRemoveComponent` removes archetypes WITH their rows: for each removed archetype the ids of its rows are removed
from `entities` (silently).  The storage group holds at every head of the outer loop (which is where the only panic,
"internal:slab invalid key", is raised — before anything is written); inside an iteration the archetype `ai` is gone
from the slab while its rows are still located (`Mid`), until the loop over `arch.ids` has removed them. -/
namespace Evenio
namespace InvV2

/-! ### combinators: state invariant + "never panics" -/

/-- the exceptional postcondition "not a panic" -/
abbrev NP : Err → World → Prop := fun e _ => e.isPanic = false

theorem hoare_np_of_ok {α : Type} {P : World → Prop} {m : M α} {Q : α → World → Prop}
    (h : HoareOk P m Q) (hn : NoPanic m) : Hoare P m Q NP := by
  refine ⟨fun w hw => ?_⟩
  generalize hr : m.run.run w = res
  obtain ⟨(e|a), w'⟩ := res
  · exact hn.err trivial hr
  · exact h.run w hw a w' hr

theorem hoare_np_of_keeps {α : Type} {P : World → Prop} {m : M α} (h : Keeps P m) (hn : NoPanic m) :
    Hoare P m (fun _ => P) NP :=
  hoare_np_of_ok (HoareOk.of_keeps h) hn

/-! ### removing a list of keys from the entity slot map -/

/-- the loop over `arch.ids`: `entities.remove id` for each row, silently -/
def removeKeys (E : SlotMap Loc) (ids : List Key) : SlotMap Loc :=
  ids.foldl (fun E id => match E.remove id with | some (_, E') => E' | none => E) E

theorem removeKeys_cons (E : SlotMap Loc) (id : Key) (ids : List Key) :
    removeKeys E (id :: ids) = removeKeys (match E.remove id with | some (_, E') => E' | none => E) ids := rfl

theorem removeKeys_spec {E : SlotMap Loc} (wf : E.WF) (ids : List Key) :
    (removeKeys E ids).WF ∧ ∀ k, (removeKeys E ids).get k = if k ∈ ids then none else E.get k := by
  induction ids generalizing E with
  | nil => exact ⟨wf, fun k => by simp [removeKeys]⟩
  | cons id ids ih =>
    rw [removeKeys_cons]
    cases hr : E.remove id with
    | none =>
      obtain ⟨h1, h2⟩ := ih wf
      refine ⟨h1, fun k => ?_⟩
      dsimp only
      rw [h2]
      by_cases hk : k = id
      · subst hk
        rw [if_pos List.mem_cons_self]
        split
        · rfl
        · exact SlotMap.remove_eq_none_iff.1 hr
      · simp only [List.mem_cons, hk, false_or]
    | some p =>
      obtain ⟨v, E'⟩ := p
      obtain ⟨h1, h2⟩ := ih (wf.remove hr)
      refine ⟨h1, fun k => ?_⟩
      dsimp only
      rw [h2, SlotMap.get_remove wf hr]
      by_cases hk : k = id
      · subst hk
        rw [if_pos List.mem_cons_self]
        split
        · rfl
        · exact if_pos rfl
      · simp only [List.mem_cons, hk, false_or, if_false]

/-! ### the state inside an iteration -/

/-- archetype `ai` has left the slab, its rows `ids` are still located -/
structure Mid' (ai : Nat) (ids : List Key) (A : Slab Arch) (E : SlotMap Loc) : Prop where
  ok : ∀ i a, A.get i = some a → ArchStoreOK i a
  wf : E.WF
  dead : A.get ai = none
  bij : ∀ e l, E.get e = some l ↔
    (∃ a, A.get l.arch = some a ∧ a.ids[l.row]? = some e) ∨ (l.arch = ai ∧ ids[l.row]? = some e)

abbrev Mid (ai : Nat) (ids : List Key) (w : World) : Prop := Mid' ai ids w.archs w.entities

theorem mid_of_remove {A A' : Slab Arch} {E : SlotMap Loc} {ai : Nat} {arch : Arch} (h : StoreInv' A E)
    (hrem : A.remove ai = some (arch, A')) : Mid' ai arch.ids A' E := by
  obtain ⟨hall, hE, hbij⟩ := storeInv_iff.1 h
  have hlive : A.get ai = some arch := (Slab.remove_eq_some_iff A ai arch).1 ⟨A', hrem⟩
  have hdead : A'.get ai = none := Slab.get_remove_same hrem
  refine ⟨fun i a hia => ?_, hE, hdead, fun e l => (hbij e l).trans ⟨?_, ?_⟩⟩
  · have hi : i ≠ ai := by
      intro hi
      rw [hi, hdead] at hia; cases hia
    rw [Slab.get_remove_other hrem hi] at hia
    exact hall i a hia
  · rintro ⟨a, ha, hr⟩
    by_cases hl : l.arch = ai
    · rw [hl, hlive] at ha; cases ha
      exact .inr ⟨hl, hr⟩
    · exact .inl ⟨a, by rw [Slab.get_remove_other hrem hl]; exact ha, hr⟩
  · rintro (⟨a, ha, hr⟩ | ⟨hl, hr⟩)
    · have hl : l.arch ≠ ai := by
        intro hl
        rw [hl, hdead] at ha; cases ha
      exact ⟨a, by rw [← Slab.get_remove_other hrem hl]; exact ha, hr⟩
    · exact ⟨arch, by rw [hl]; exact hlive, hr⟩

theorem store_of_mid {A : Slab Arch} {E : SlotMap Loc} {ai : Nat} {ids : List Key} (h : Mid' ai ids A E) :
    StoreInv' A (removeKeys E ids) := by
  obtain ⟨h1, h2⟩ := removeKeys_spec h.wf ids
  refine storeInv_iff.2 ⟨h.ok, h1, fun e l => ?_⟩
  rw [h2]
  constructor
  · intro he
    split at he
    · cases he
    · next hm =>
      rcases (h.bij e l).1 he with hleft | ⟨-, hr⟩
      · exact hleft
      · exact absurd (List.mem_of_getElem? hr) hm
  · rintro ⟨a, ha, hr⟩
    have he : E.get e = some l := (h.bij e l).2 (.inl ⟨a, ha, hr⟩)
    have hm : e ∉ ids := by
      intro hm
      obtain ⟨r, hr'⟩ := List.getElem?_of_mem hm
      have := (h.bij e ⟨ai, r⟩).2 (.inr ⟨rfl, hr'⟩)
      rw [he] at this
      cases this
      rw [h.dead] at ha; cases ha
    rw [if_neg hm]; exact he

/-! ### the loops of one iteration -/

theorem foldSteps_pure {γ : Type} (g : γ → World → World) (l : List γ) (w : World) :
    foldSteps (fun (x : γ) (_ : PUnit) w => (.ok PUnit.unit, g x w)) l PUnit.unit w
      = (.ok PUnit.unit, l.foldl (fun w x => g x w) w) := by
  induction l generalizing w with
  | nil => rfl
  | cons x l ih => rw [foldSteps]; exact ih _

/-- one step of the loop over `arch.ids` -/
def remEnt (id : Key) (w : World) : World :=
  match w.entities.remove id with
  | some (_, ents) => { w with entities := ents }
  | none => w

/-- the entity part of the fold of the loop over `arch.ids` -/
theorem foldl_removeEnt (ids : List Key) (w : World) :
    ids.foldl (fun w id => remEnt id w) w = { w with entities := removeKeys w.entities ids } := by
  induction ids generalizing w with
  | nil => rfl
  | cons id ids ih =>
    rw [List.foldl_cons, ih]
    unfold remEnt
    cases hr : w.entities.remove id with
    | none => simp only [removeKeys, List.foldl_cons, hr]
    | some p => simp only [removeKeys, List.foldl_cons, hr]

/-- `get >>= f`, where the continuation knows the state it runs in -/
theorem hoare_get_bind_eq {β : Type} {P : World → Prop} {f : World → M β} {Q : β → World → Prop}
    {E : Err → World → Prop} (hf : ∀ w, P w → Hoare (fun w0 => w0 = w) (f w) Q E) :
    Hoare P (MonadState.get >>= f) Q E := by
  refine ⟨fun w hw => ?_⟩
  rw [run_bind, run_get]
  exact (hf w hw).run w rfl

/-- writing back a live archetype read from the current state, with other edges -/
theorem setArch_sameStore {w : World} (hw : StoreInv w) {i : Nat} {oa a' : Arch} (ho : w.archs.get i = some oa)
    (hs : SameStore oa a') : Hoare (fun w0 => w0 = w) (setArch a') (fun _ => StoreInv) NP := by
  refine ⟨fun w0 h0 => ?_⟩
  subst h0
  exact storeInv_set_sameStore hw ho hs

/-- the loop over `arch.ids` -/
theorem removeRows_store (ai : Nat) (ids : List Key) (f : Key → PUnit → M (ForInStep PUnit))
    (hf : ∀ x b w0, (f x b).run.run w0 = (.ok (ForInStep.yield PUnit.unit), remEnt x w0)) :
    Hoare (Mid ai ids) (forIn ids PUnit.unit f) (fun _ => StoreInv) NP := by
  refine ⟨fun w hw => ?_⟩
  rw [run_forIn_steps (fun id _ w => (.ok PUnit.unit, remEnt id w)) f (by intro x b w0; rw [hf]), foldSteps_pure,
    foldl_removeEnt]
  exact store_of_mid hw

section mid
variable {ai : Nat} {ids : List Key}
theorem ubErr_mid {α : Type} (s : String) : Keeps (Mid ai ids) (ubErr s : M α) := Keeps.throw _
local macro_rules | `(tactic| keeps_leaf) => `(tactic| exact ubErr_mid _)
theorem handlerRemoveArch_mid (hk : Key) (a : Arch) : Keeps (Mid ai ids) (handlerRemoveArch hk a) := by
  unfold handlerRemoveArch; keeps
end mid

theorem dropCell_storeInv (ty : Nat) (c : Cell) : Keeps StoreInv (dropCell ty c) := by unfold dropCell; keeps

theorem noPanic_dropCell (ty : Nat) (c : Cell) : NoPanic (dropCell ty c) := by
  unfold dropCell
  nopanic

/-- **`archsRemoveComponent` keeps the storage group** — on normal return and when it panics -/
theorem archsRemoveComponent_store (info : CompInfo) :
    Hoare StoreInv (archsRemoveComponent info) (fun _ => StoreInv) (PanicOnly StoreInv) := by
  unfold archsRemoveComponent
  refine Hoare.bind (R := fun _ => StoreInv) (Hoare.forIn_list_inv fun ai _ => ?_) fun _ => ?_
  · -- one iteration
    refine Hoare.get_bind fun w hw => ?_
    split
    · exact Hoare.bind (R := fun _ => StoreInv) (Hoare.throw fun _ h _ => h) fun _ => Hoare.pure fun _ h => h
    · next arch archs hrem =>
      refine Hoare.post (E := NP) ?_ (fun _ _ h => h) (fun e _ he hp => by rw [he] at hp; cases hp)
      refine Hoare.bind (R := fun _ => Mid ai arch.ids) ⟨fun w0 _ => mid_of_remove hw hrem⟩ fun _ => ?_
      refine Hoare.bind_inv (hoare_np_of_keeps (Keeps.forIn_list fun hk _ =>
        Keeps.bind (handlerRemoveArch_mid hk arch) fun _ => Keeps.pure _) (by nopanic)) fun _ => ?_
      refine Hoare.bind_inv (hoare_np_of_keeps (by unfold ubErr; keeps) (by nopanic)) fun _ => ?_
      refine Hoare.bind (removeRows_store ai arch.ids _ fun _ _ _ => rfl) fun _ => ?_
      refine Hoare.bind_inv (Hoare.forIn_list_inv fun p _ => ?_) fun _ => ?_
      · obtain ⟨c, other⟩ := p
        refine hoare_get_bind_eq fun w1 hw1 => ?_
        split
        · next oa ho =>
          exact Hoare.bind (R := fun _ => StoreInv) (setArch_sameStore hw1 ho ⟨rfl, rfl, rfl, rfl, rfl⟩)
            fun _ => Hoare.pure fun _ h => h
        · exact Hoare.pure fun _ h => h ▸ hw1
      refine Hoare.bind_inv (Hoare.forIn_list_inv fun p _ => ?_) fun _ => ?_
      · obtain ⟨c, other⟩ := p
        refine hoare_get_bind_eq fun w1 hw1 => ?_
        split
        · next oa ho =>
          exact Hoare.bind (R := fun _ => StoreInv) (setArch_sameStore hw1 ho ⟨rfl, rfl, rfl, rfl, rfl⟩)
            fun _ => Hoare.pure fun _ h => h
        · exact Hoare.pure fun _ h => h ▸ hw1
      refine Hoare.bind_inv (hoare_np_of_keeps ?_ ?_) fun _ => Hoare.pure fun _ h => h
      · have := dropCell_storeInv
        keeps
        all_goals exact this _ _
      · have := noPanic_dropCell
        nopanic
        all_goals exact this _ _
  · -- the final sweep
    refine ⟨fun w hw => ?_⟩
    have := run_sweepM info.id.idx w
    unfold sweepM at this
    rw [this]
    have hidx : IndexOK w.archs := fun i a hia => ((storeInv_iff.1 hw).1 i a hia).index
    exact storeInv_map hw (·.dropIns info.id.idx) (fun _ => ⟨rfl, rfl, rfl, rfl, rfl⟩)
      (sweepEdges_get hidx info.id.idx)

end InvV2

/-- **`dropCompTail` keeps the storage group**: the registry write does not touch `archs` / `entities`, the archetypes
    of the component are removed together with their rows, `resRefresh` only writes the cursor -/
theorem dropComp_keeps_store : Obl.dropComp_keeps .store := by
  intro w k info comps' hw _ _
  unfold dropCompTail
  refine Hoare.pre (P' := StoreInv) ?_ ?_
  · refine Hoare.bind_inv (InvV2.archsRemoveComponent_store info) fun _ => ?_
    exact Hoare.of_keeps_panicOnly (by unfold resRefresh dbgAssert; keeps)
  · rintro w1 rfl
    exact hw.store

example : Obl.dropComp_keeps .store := dropComp_keeps_store

end Evenio
