import Evenio.Proofs.Inv.Facts
/-! # Section E — `initParam_configRel`

`Obl.initParam_configRel` is FALSE as stated: `ConfigRel.spawnImm` is not inductive on its own — a configuration with
`recvEv = none` and `recvMut = true` satisfies it vacuously, and `initParam (.recv .spawn false none)` then produces
`recvEv = some (some (.spawn, k))` with `recvMut = true`.  The missing conjunct is `cfg.recvEv = none → cfg.recvMut =
false` (true of the initial configuration `{}`; a receiver parameter is the only one that writes `recvMut`, and it
sets `recvEv`).  `initParam_configRel_partial` proves the obligation with that conjunct as extra hypothesis AND extra
conclusion, so it is a loop invariant of the parameter loop of `addHandler` (`ConfigRel'`). -/
namespace Evenio
namespace InvV6

/-! ### stable facts: what survives growth of the registries -/

/-- `P` survives any growth of well-formed registries -/
def Stable (P : World → Prop) : Prop := ∀ w w', RegInv [] w' → Obl.Grows w w' → P w → P w'

theorem Stable.and {P Q : World → Prop} (hP : Stable P) (hQ : Stable Q) : Stable fun w => P w ∧ Q w :=
  fun w w' hri hg h => ⟨hP w w' hri hg h.1, hQ w w' hri hg h.2⟩

theorem stable_true : Stable fun _ => True := fun _ _ _ _ _ => trivial

/-- a growing function keeps every stable fact (together with `RegInv`) -/
theorem keeps_stable {α : Type} {m : M α} (hm : ∀ w0, Keeps (GI w0) m) {P : World → Prop} (hP : Stable P) :
    Keeps (fun w => RegInv [] w ∧ P w) m := by
  refine ⟨fun w hw => ?_⟩
  have := (hm w).run w (GI.refl hw.1)
  exact ⟨this.ri, hP w _ this.ri this.grows hw.2⟩

/-- … and whatever else it establishes from `RegInv` alone -/
theorem hoare_grow {α : Type} {m : M α} (hm : ∀ w0, Keeps (GI w0) m) {P : World → Prop} (hP : Stable P)
    {Q : α → World → Prop} (hq : HoareOk (fun w => RegInv [] w) m Q) :
    HoareOk (fun w => RegInv [] w ∧ P w) m (fun a w' => (RegInv [] w' ∧ P w') ∧ Q a w') := by
  refine ⟨fun w hw a w' hr => ⟨?_, hq.run w hw.1 a w' hr⟩⟩
  have := (keeps_stable hm hP).run w hw
  rw [hr] at this
  exact this

/-- the component index `c` is live -/
def LiveC (c : Nat) : World → Prop := fun w => (w.comps.getByIndex c).isSome = true
/-- the global event `k` is registered for the type `ty` -/
def LiveG (k : Key) (ty : EvTy) : World → Prop := fun w => ∃ ei, w.gevs.get k = some ei ∧ ei.ty = ty
def LiveT (k : Key) (ty : EvTy) : World → Prop := fun w => ∃ ei, w.tevs.get k = some ei ∧ ei.ty = ty
/-- the global event index `i` holds an event of type `ty` -/
def LiveGi (i : Nat) (ty : EvTy) : World → Prop := fun w => ∃ k info, w.gevs.getByIndex i = some (k, info) ∧ info.ty = ty
def LiveTi (i : Nat) (ty : EvTy) : World → Prop := fun w => ∃ k info, w.tevs.getByIndex i = some (k, info) ∧ info.ty = ty

theorem LiveC.stable (c : Nat) : Stable (LiveC c) := by
  intro w w' hri hg h
  unfold LiveC at h ⊢
  cases hc : w.comps.getByIndex c with
  | none => rw [hc] at h; cases h
  | some p =>
    obtain ⟨k, ci⟩ := p
    obtain ⟨h1, h2⟩ := SlotMap.getByIndex_get hc
    obtain ⟨ci', h3, -⟩ := hg.1 k ci h1
    rw [← h2, SlotMap.get_getByIndex hri.wfc h3]; rfl

theorem LiveG.stable (k : Key) (ty : EvTy) : Stable (LiveG k ty) :=
  fun _ _ _ hg ⟨ei, h1, h2⟩ => ⟨ei, hg.2.1 k ei h1, h2⟩
theorem LiveT.stable (k : Key) (ty : EvTy) : Stable (LiveT k ty) :=
  fun _ _ _ hg ⟨ei, h1, h2⟩ => ⟨ei, hg.2.2 k ei h1, h2⟩

theorem LiveGi.stable (i : Nat) (ty : EvTy) : Stable (LiveGi i ty) := by
  rintro w w' hri hg ⟨k, info, h1, h2⟩
  obtain ⟨h3, h4⟩ := SlotMap.getByIndex_get h1
  exact ⟨k, info, by rw [← h4]; exact SlotMap.get_getByIndex hri.wfg (hg.2.1 k info h3), h2⟩
theorem LiveTi.stable (i : Nat) (ty : EvTy) : Stable (LiveTi i ty) := by
  rintro w w' hri hg ⟨k, info, h1, h2⟩
  obtain ⟨h3, h4⟩ := SlotMap.getByIndex_get h1
  exact ⟨k, info, by rw [← h4]; exact SlotMap.get_getByIndex hri.wft (hg.2.2 k info h3), h2⟩

theorem LiveG.idx {k : Key} {ty : EvTy} {w : World} (h : LiveG k ty w) (hri : RegInv [] w) : LiveGi k.idx ty w := by
  obtain ⟨ei, h1, h2⟩ := h
  exact ⟨k, ei, SlotMap.get_getByIndex hri.wfg h1, h2⟩
theorem LiveT.idx {k : Key} {ty : EvTy} {w : World} (h : LiveT k ty w) (hri : RegInv [] w) : LiveTi k.idx ty w := by
  obtain ⟨ei, h1, h2⟩ := h
  exact ⟨k, ei, SlotMap.get_getByIndex hri.wft h1, h2⟩

theorem stable_forall {ι : Type} {P : ι → World → Prop} (h : ∀ i, Stable (P i)) : Stable fun w => ∀ i, P i w :=
  fun w w' hri hg hp i => h i w w' hri hg (hp i)

theorem stable_imp {A : Prop} {P : World → Prop} (h : Stable P) : Stable fun w => A → P w :=
  fun w w' hri hg hp ha => h w w' hri hg (hp ha)

theorem stable_or_const {A : Prop} {P : World → Prop} (h : Stable P) : Stable fun w => A ∨ P w :=
  fun w w' hri hg hp => hp.imp id (h w w' hri hg)

/-! ### the world-dependent part of `ConfigRel` -/

/-- the received event is registered with its type -/
def LiveEv (ty : EvTy) (k : Key) : World → Prop := fun w => if ty.targeted then LiveT k ty w else LiveG k ty w

theorem LiveEv.stable (ty : EvTy) (k : Key) : Stable (LiveEv ty k) := by
  unfold LiveEv
  cases ty.targeted
  · exact LiveG.stable k ty
  · exact LiveT.stable k ty

structure CR' (rf : List Nat) (re : Option (Option (EvTy × Key))) (sg st : List Nat)
    (sd : List (EvTy × Nat)) (w : World) : Prop where
  referenced : ∀ c ∈ rf, LiveC c w
  recv : ∀ ty k, re = some (some (ty, k)) → LiveEv ty k w
  sentG : ∀ i ∈ sg, (w.gevs.getByIndex i).isSome = true
  sentT : ∀ i ∈ st, (w.tevs.getByIndex i).isSome = true
  sendsG : ∀ ev i, (ev, i) ∈ sd → ev.targeted = false → i ∈ sg ∧ LiveGi i ev w
  sendsT : ∀ ev i, (ev, i) ∈ sd → ev.targeted = true → i ∈ st ∧ LiveTi i ev w

abbrev CR (cfg : Config) : World → Prop := CR' cfg.referenced cfg.recvEv cfg.sentG cfg.sentT cfg.sends

theorem isSome_stable_g (i : Nat) : Stable fun w => (w.gevs.getByIndex i).isSome = true := by
  intro w w' hri hg h
  cases hc : w.gevs.getByIndex i with
  | none => rw [hc] at h; cases h
  | some p =>
    obtain ⟨k, ei⟩ := p
    obtain ⟨h1, h2⟩ := SlotMap.getByIndex_get hc
    rw [← h2, SlotMap.get_getByIndex hri.wfg (hg.2.1 k ei h1)]; rfl
theorem isSome_stable_t (i : Nat) : Stable fun w => (w.tevs.getByIndex i).isSome = true := by
  intro w w' hri hg h
  cases hc : w.tevs.getByIndex i with
  | none => rw [hc] at h; cases h
  | some p =>
    obtain ⟨k, ei⟩ := p
    obtain ⟨h1, h2⟩ := SlotMap.getByIndex_get hc
    rw [← h2, SlotMap.get_getByIndex hri.wft (hg.2.2 k ei h1)]; rfl

theorem CR'.stable (r : List Nat) (e : Option (Option (EvTy × Key))) (g t : List Nat) (s : List (EvTy × Nat)) :
    Stable (CR' r e g t s) := by
  intro w w' hri hg h
  exact ⟨fun c hc => LiveC.stable c w w' hri hg (h.referenced c hc),
    fun ty k hk => LiveEv.stable ty k w w' hri hg (h.recv ty k hk),
    fun i hi => isSome_stable_g i w w' hri hg (h.sentG i hi),
    fun i hi => isSome_stable_t i w w' hri hg (h.sentT i hi),
    fun ev i hm ht => ⟨(h.sendsG ev i hm ht).1, LiveGi.stable i ev w w' hri hg (h.sendsG ev i hm ht).2⟩,
    fun ev i hm ht => ⟨(h.sendsT ev i hm ht).1, LiveTi.stable i ev w w' hri hg (h.sendsT ev i hm ht).2⟩⟩

theorem CR.of_configRel {w : World} {cfg : Config} {params : List Param} (h : Obl.ConfigRel w cfg params) :
    CR cfg w :=
  ⟨h.referenced, fun ty k hk => by
      have := h.recv ty k hk
      unfold LiveEv
      split
      · next ht => rw [if_pos ht] at this; exact this
      · next ht => rw [if_neg ht] at this; exact this,
    h.sentG, h.sentT, h.sendsG, h.sendsT⟩

/-! ### what the registration functions return, from `RegInv` -/

theorem addComponent_liveI (ty : Nat) :
    HoareOk (fun w => RegInv [] w) (addComponent ty) (fun k w' => LiveC k.idx w') := by
  refine ⟨fun w hw k w' hr => ?_⟩
  obtain ⟨ci, h1, -⟩ := (addComponent_live ty).run w trivial k w' hr
  have hri := (addComponent_ri (D := []) ty).run w hw
  rw [hr] at hri
  unfold LiveC
  rw [SlotMap.get_getByIndex hri.wfc h1]; rfl

theorem addTargetedEvent_liveI (ty : EvTy) :
    HoareOk (fun w => RegInv [] w) (addTargetedEvent ty) (fun k w' => LiveT k ty w') :=
  HoareOk.pre (addTargetedEvent_live ty) fun _ _ => trivial

theorem addGlobalEvent_liveI (ty : EvTy) :
    HoareOk (fun w => RegInv [] w) (addGlobalEvent ty) (fun k w' => LiveG k ty w') :=
  HoareOk.pre (addGlobalEvent_live_partial ty) fun _ h => h.wfg

theorem addEvent_liveI (ty : EvTy) :
    HoareOk (fun w => RegInv [] w) (addEvent ty) (fun k w' => LiveEv ty k w') := by
  unfold addEvent LiveEv
  split
  · exact addTargetedEvent_liveI ty
  · exact addGlobalEvent_liveI ty

/-! ### `initQuery` -/

theorem CR'.addRef {r : List Nat} {e : Option (Option (EvTy × Key))} {g t : List Nat} {s : List (EvTy × Nat)}
    {w : World} (h : CR' r e g t s w) {c : Nat} (hc : LiveC c w) : CR' (sortedInsert r c) e g t s w :=
  ⟨fun c' hc' => by
      rcases (mem_insertSorted r c c').1 hc' with rfl | hm
      · exact hc
      · exact h.referenced c' hm,
    h.recv, h.sentG, h.sentT, h.sendsG, h.sendsT⟩

theorem initQuery_cr {S : World → Prop} (hS : Stable S) (q : Query) (cfg : Config) :
    HoareOk (fun w => RegInv [] w ∧ (S w ∧ CR cfg w)) (initQuery q cfg)
      (fun r w' => RegInv [] w' ∧ (S w' ∧ CR r.2.2 w')) := by
  unfold initQuery
  refine HoareOk.bind (HoareOk.forIn_list (fun b w => RegInv [] w ∧ (S w ∧ CR b w)) fun c b => ?_) fun b => ?_
  · refine HoareOk.bind (hoare_grow (fun _ => addComponent_gi c) (hS.and (CR'.stable _ _ _ _ _)) (addComponent_liveI c))
      fun k => ?_
    refine HoareOk.pure ?_
    rintro w ⟨⟨hri, hs, hcr⟩, hl⟩
    exact ⟨hri, hs, hcr.addRef hl⟩
  · exact HoareOk.get_bind fun _ _ => HoareOk.pure fun _ h => h

/-! ### `initParam`: the world-dependent part -/

/-- `Config.setRecv` on the field it writes -/
def setRecvEv (e : Option (Option (EvTy × Key))) (ty : EvTy) (k : Key) : Option (Option (EvTy × Key)) :=
  match e with
  | none => some (some (ty, k))
  | some (some (ty', k')) => if ty' == ty && k' == k then some (some (ty, k)) else some none
  | some none => some none

theorem setRecv_recvEv (cfg : Config) (ty : EvTy) (k : Key) : (cfg.setRecv ty k).recvEv = setRecvEv cfg.recvEv ty k := rfl

theorem setRecvEv_some {e : Option (Option (EvTy × Key))} {ev ty : EvTy} {k k' : Key}
    (h : setRecvEv e ev k = some (some (ty, k'))) : ty = ev ∧ k' = k := by
  unfold setRecvEv at h
  split at h
  · cases h; exact ⟨rfl, rfl⟩
  · split at h
    · cases h; exact ⟨rfl, rfl⟩
    · cases h
  · cases h

theorem setRecvEv_ne_none (e : Option (Option (EvTy × Key))) (ev : EvTy) (k : Key) : setRecvEv e ev k ≠ none := by
  unfold setRecvEv
  split
  · nofun
  · split <;> nofun
  · nofun

/-- if `setRecv` leaves a valid event, the old one (if any) was the same -/
theorem setRecvEv_old {e : Option (Option (EvTy × Key))} {ev ty : EvTy} {k k' : Key}
    (h : setRecvEv e ev k = some (some (ty, k'))) : e = none ∨ e = some (some (ev, k)) := by
  unfold setRecvEv at h
  split at h
  · exact .inl rfl
  · next ty0 k0 =>
    split at h
    · next hc =>
      simp only [Bool.and_eq_true, beq_iff_eq] at hc
      obtain ⟨rfl, hk⟩ := hc
      have : k0 = k := by simpa using hk
      exact .inr (by rw [this])
    · cases h
  · cases h

theorem CR'.setRecv {r : List Nat} {e : Option (Option (EvTy × Key))} {g t : List Nat} {s : List (EvTy × Nat)}
    {w : World} (h : CR' r e g t s w) {ev : EvTy} {k : Key} (hl : LiveEv ev k w) :
    CR' r (setRecvEv e ev k) g t s w :=
  ⟨h.referenced, fun ty k' hk => by obtain ⟨rfl, rfl⟩ := setRecvEv_some hk; exact hl,
    h.sentG, h.sentT, h.sendsG, h.sendsT⟩

/-- every recorded `(event type, index)` pair is live with that type -/
def LiveIdxs (idxs : List (EvTy × Nat)) : World → Prop :=
  fun w => ∀ ev i, (ev, i) ∈ idxs → if ev.targeted then LiveTi i ev w else LiveGi i ev w

theorem LiveIdxs.stable (idxs : List (EvTy × Nat)) : Stable (LiveIdxs idxs) := by
  intro w w' hri hg h ev i hm
  have := h ev i hm
  split
  · next ht => rw [if_pos ht] at this; exact LiveTi.stable i ev w w' hri hg this
  · next ht => rw [if_neg ht] at this; exact LiveGi.stable i ev w w' hri hg this

theorem LiveIdxs.snoc {idxs : List (EvTy × Nat)} {w : World} (h : LiveIdxs idxs w) (hri : RegInv [] w) {ev : EvTy}
    {k : Key} (hl : LiveEv ev k w) : LiveIdxs (idxs ++ [(ev, k.idx)]) w := by
  intro ev' i hm
  rcases List.mem_append.1 hm with hm | hm
  · exact h ev' i hm
  · simp only [List.mem_singleton, Prod.mk.injEq] at hm
    obtain ⟨rfl, rfl⟩ := hm
    unfold LiveEv at hl
    split
    · next ht => rw [if_pos ht] at hl; exact hl.idx hri
    · next ht => rw [if_neg ht] at hl; exact hl.idx hri

theorem CR'.snd_final {r : List Nat} {e : Option (Option (EvTy × Key))} {g t g' t' : List Nat}
    {s idxs : List (EvTy × Nat)} {w : World} (h : CR' r e g t s w) (hL : LiveIdxs idxs w)
    (hg : ∀ i, i ∈ g' ↔ i ∈ g ∨ ∃ ev, (ev, i) ∈ idxs ∧ ev.targeted = false)
    (ht : ∀ i, i ∈ t' ↔ i ∈ t ∨ ∃ ev, (ev, i) ∈ idxs ∧ ev.targeted = true) :
    CR' r e g' t' (s ++ idxs) w := by
  refine ⟨h.referenced, h.recv, fun i hi => ?_, fun i hi => ?_, fun ev i hm hev => ?_, fun ev i hm hev => ?_⟩
  · rcases (hg i).1 hi with hi | ⟨ev, hm, hev⟩
    · exact h.sentG i hi
    · have := hL ev i hm
      rw [hev] at this
      obtain ⟨k, info, hk, -⟩ := this
      rw [hk]; rfl
  · rcases (ht i).1 hi with hi | ⟨ev, hm, hev⟩
    · exact h.sentT i hi
    · have := hL ev i hm
      rw [hev] at this
      obtain ⟨k, info, hk, -⟩ := this
      rw [hk]; rfl
  · rcases List.mem_append.1 hm with hm | hm
    · exact ⟨(hg i).2 (.inl (h.sendsG ev i hm hev).1), (h.sendsG ev i hm hev).2⟩
    · have := hL ev i hm
      rw [hev] at this
      exact ⟨(hg i).2 (.inr ⟨ev, hm, hev⟩), this⟩
  · rcases List.mem_append.1 hm with hm | hm
    · exact ⟨(ht i).2 (.inl (h.sendsT ev i hm hev).1), (h.sendsT ev i hm hev).2⟩
    · have := hL ev i hm
      rw [hev] at this
      exact ⟨(ht i).2 (.inr ⟨ev, hm, hev⟩), this⟩

/-- a loop whose every iteration yields, with the processed prefix as ghost state -/
theorem HoareOk.forIn_list_prefix {γ β : Type} {f : γ → β → M (ForInStep β)} (Inv : List γ → β → World → Prop)
    (hf : ∀ pre a b, HoareOk (Inv pre b) (f a b) (fun r w => ∃ b', r = .yield b' ∧ Inv (pre ++ [a]) b' w)) :
    ∀ (l pre : List γ) (b : β), HoareOk (Inv pre b) (forIn l b f) (Inv (pre ++ l)) := by
  intro l
  induction l with
  | nil =>
    intro pre b
    exact HoareOk.pure fun w h => by simpa using h
  | cons a l ih =>
    intro pre b
    rw [List.forIn_cons]
    refine HoareOk.bind (hf pre a b) fun r => ?_
    cases r with
    | done b0 => exact ⟨fun w hw => by obtain ⟨b', h, -⟩ := hw; cases h⟩
    | yield b0 =>
      have := ih (pre ++ [a]) b0
      rw [List.append_assoc, List.singleton_append] at this
      exact HoareOk.pre this fun w hw => by obtain ⟨b', h, hi⟩ := hw; cases h; exact hi

/-- what the second loop of `initParam (.snd _)` has done to the configuration after the prefix `pre` -/
structure SndRel (cfg : Config) (pre : List (EvTy × Nat)) (b : Config) : Prop where
  referenced : b.referenced = cfg.referenced
  recvEv : b.recvEv = cfg.recvEv
  sends : b.sends = cfg.sends
  sentG : ∀ i, i ∈ b.sentG ↔ i ∈ cfg.sentG ∨ ∃ ev, (ev, i) ∈ pre ∧ ev.targeted = false
  sentT : ∀ i, i ∈ b.sentT ↔ i ∈ cfg.sentT ∨ ∃ ev, (ev, i) ∈ pre ∧ ev.targeted = true

theorem SndRel.init (cfg : Config) : SndRel cfg [] cfg :=
  ⟨rfl, rfl, rfl, fun i => by simp, fun i => by simp⟩

theorem initParam_cr (ps : PSpec) (cfg : Config) :
    HoareOk (fun w => RegInv [] w ∧ CR cfg w) (initParam ps cfg) (fun r w' => RegInv [] w' ∧ CR r.2 w') := by
  have hfetch : ∀ (q : Query) (mk : Query × CA × Config → Param × Config)
      (hmk : ∀ r, (mk r).2.referenced = r.2.2.referenced ∧ (mk r).2.recvEv = r.2.2.recvEv ∧
        (mk r).2.sentG = r.2.2.sentG ∧ (mk r).2.sentT = r.2.2.sentT ∧ (mk r).2.sends = r.2.2.sends),
      HoareOk (fun w => RegInv [] w ∧ CR cfg w) (initQuery q cfg >>= fun r => pure (mk r))
        (fun r w' => RegInv [] w' ∧ CR r.2 w') := by
    intro q mk hmk
    refine HoareOk.bind (HoareOk.pre (initQuery_cr stable_true q cfg) fun w h => ⟨h.1, trivial, h.2⟩) fun r => ?_
    refine HoareOk.pure ?_
    rintro w ⟨hri, -, hcr⟩
    obtain ⟨e1, e2, e3, e4, e5⟩ := hmk r
    refine ⟨hri, ?_⟩
    show CR' (mk r).2.referenced (mk r).2.recvEv (mk r).2.sentG (mk r).2.sentT (mk r).2.sends w
    rw [e1, e2, e3, e4, e5]
    exact hcr
  unfold initParam
  cases ps with
  | recv ev mutable q =>
    dsimp only
    split
    · next ht =>
      refine HoareOk.bind (hoare_grow (fun _ => addTargetedEvent_gi ev) (CR'.stable _ _ _ _ _)
        (addTargetedEvent_liveI ev)) fun k => ?_
      refine HoareOk.bind (HoareOk.pre (initQuery_cr (LiveT.stable k ev) _ cfg)
        fun w h => ⟨h.1.1, h.2, h.1.2⟩) fun r => ?_
      refine HoareOk.pure ?_
      rintro w ⟨hri, hl, hcr⟩
      refine ⟨hri, ?_⟩
      have hle : LiveEv ev k w := by unfold LiveEv; rw [if_pos ht]; exact hl
      exact hcr.setRecv hle
    · next ht =>
      refine HoareOk.bind (hoare_grow (fun _ => addGlobalEvent_gi ev) (CR'.stable _ _ _ _ _)
        (addGlobalEvent_liveI ev)) fun k => ?_
      refine HoareOk.pure ?_
      rintro w ⟨⟨hri, hcr⟩, hl⟩
      refine ⟨hri, ?_⟩
      have hle : LiveEv ev k w := by unfold LiveEv; rw [if_neg ht]; exact hl
      exact hcr.setRecv hle
  | fetch q => exact hfetch q _ fun r => ⟨rfl, rfl, rfl, rfl, rfl⟩
  | single q => exact hfetch q _ fun r => ⟨rfl, rfl, rfl, rfl, rfl⟩
  | trySingle q => exact hfetch q _ fun r => ⟨rfl, rfl, rfl, rfl, rfl⟩
  | snd evs =>
    dsimp only
    refine HoareOk.bind (R := fun idxs w => RegInv [] w ∧ (CR cfg w ∧ LiveIdxs idxs w)) ?_ fun idxs => ?_
    · refine HoareOk.pre (HoareOk.forIn_list (fun idxs w => RegInv [] w ∧ (CR cfg w ∧ LiveIdxs idxs w))
        fun ev idxs => ?_) fun w h => ⟨h.1, h.2, fun _ _ hm => by cases hm⟩
      refine HoareOk.bind (hoare_grow (fun _ => addEvent_gi ev)
        ((CR'.stable _ _ _ _ _).and (LiveIdxs.stable idxs)) (addEvent_liveI ev)) fun k => ?_
      refine HoareOk.pure ?_
      rintro w ⟨⟨hri, hcr, hL⟩, hl⟩
      exact ⟨hri, hcr, hL.snoc hri hl⟩
    · refine HoareOk.bind (R := fun b w => (RegInv [] w ∧ (CR cfg w ∧ LiveIdxs idxs w)) ∧ SndRel cfg idxs b)
        ?_ fun b => ?_
      · have := HoareOk.forIn_list_prefix
          (f := fun (x : EvTy × Nat) (s : Config) =>
            if x.fst.targeted = true then
              (pure (ForInStep.yield { s with sentT := sortedInsert s.sentT x.snd }) : M (ForInStep Config))
            else pure (ForInStep.yield { s with sentG := sortedInsert s.sentG x.snd }))
          (fun pre b w => (RegInv [] w ∧ (CR cfg w ∧ LiveIdxs idxs w)) ∧ SndRel cfg pre b) ?_ idxs [] cfg
        · exact HoareOk.pre this fun w h => ⟨h, SndRel.init cfg⟩
        · intro pre x b
          obtain ⟨ev, i⟩ := x
          dsimp only
          split
          · next ht =>
            refine HoareOk.pure ?_
            rintro w ⟨hw, hr⟩
            refine ⟨_, rfl, hw, hr.referenced, hr.recvEv, hr.sends, fun j => ?_, fun j => ?_⟩
            · rw [hr.sentG j]
              simp only [List.mem_append, List.mem_singleton, Prod.mk.injEq]
              constructor
              · rintro (h | ⟨ev', hm, he⟩)
                · exact .inl h
                · exact .inr ⟨ev', .inl hm, he⟩
              · rintro (h | ⟨ev', hm | ⟨rfl, rfl⟩, he⟩)
                · exact .inl h
                · exact .inr ⟨ev', hm, he⟩
                · rw [ht] at he; cases he
            · show j ∈ sortedInsert b.sentT i ↔ _
              rw [sortedInsert, mem_insertSorted, hr.sentT j]
              simp only [List.mem_append, List.mem_singleton, Prod.mk.injEq]
              constructor
              · rintro (rfl | h | ⟨ev', hm, he⟩)
                · exact .inr ⟨ev, .inr ⟨rfl, rfl⟩, ht⟩
                · exact .inl h
                · exact .inr ⟨ev', .inl hm, he⟩
              · rintro (h | ⟨ev', hm | ⟨rfl, rfl⟩, he⟩)
                · exact .inr (.inl h)
                · exact .inr (.inr ⟨ev', hm, he⟩)
                · exact .inl rfl
          · next ht =>
            have ht' : ev.targeted = false := by simpa using ht
            refine HoareOk.pure ?_
            rintro w ⟨hw, hr⟩
            refine ⟨_, rfl, hw, hr.referenced, hr.recvEv, hr.sends, fun j => ?_, fun j => ?_⟩
            · show j ∈ sortedInsert b.sentG i ↔ _
              rw [sortedInsert, mem_insertSorted, hr.sentG j]
              simp only [List.mem_append, List.mem_singleton, Prod.mk.injEq]
              constructor
              · rintro (rfl | h | ⟨ev', hm, he⟩)
                · exact .inr ⟨ev, .inr ⟨rfl, rfl⟩, ht'⟩
                · exact .inl h
                · exact .inr ⟨ev', .inl hm, he⟩
              · rintro (h | ⟨ev', hm | ⟨rfl, rfl⟩, he⟩)
                · exact .inr (.inl h)
                · exact .inr (.inr ⟨ev', hm, he⟩)
                · exact .inl rfl
            · rw [hr.sentT j]
              simp only [List.mem_append, List.mem_singleton, Prod.mk.injEq]
              constructor
              · rintro (h | ⟨ev', hm, he⟩)
                · exact .inl h
                · exact .inr ⟨ev', .inl hm, he⟩
              · rintro (h | ⟨ev', hm | ⟨rfl, rfl⟩, he⟩)
                · exact .inl h
                · exact .inr ⟨ev', hm, he⟩
                · rw [ht'] at he; cases he
      · refine HoareOk.pure ?_
        rintro w ⟨⟨hri, hcr, hL⟩, hr⟩
        refine ⟨hri, ?_⟩
        show CR' b.referenced b.recvEv b.sentG b.sentT (b.sends ++ idxs) w
        rw [hr.referenced, hr.recvEv, hr.sends]
        exact hcr.snd_final hL hr.sentG hr.sentT
  | ents => exact HoareOk.pure fun _ h => h

/-! ### `initParam`: the part that only concerns the returned values -/

/-- `Spawn` is received immutably, and `recvMut` is only set together with `recvEv` -/
def SpOK (cfg : Config) : Prop :=
  (cfg.recvEv = none → cfg.recvMut = false) ∧ ∀ k, cfg.recvEv = some (some (.spawn, k)) → cfg.recvMut = false

theorem SpOK.congr {cfg cfg' : Config} (h : SpOK cfg) (he : cfg'.recvEv = cfg.recvEv)
    (hm : cfg'.recvMut = cfg.recvMut) : SpOK cfg' := by
  unfold SpOK
  rw [he, hm]
  exact h

theorem SpOK.recv {cfg cfg' : Config} (h : SpOK cfg) {ev : EvTy} {k : Key} {mutable : Bool}
    (hmut : mutable = true → ev ≠ .spawn) (he : cfg'.recvEv = setRecvEv cfg.recvEv ev k)
    (hm : cfg'.recvMut = (cfg.recvMut || mutable)) : SpOK cfg' := by
  refine ⟨fun hn => absurd (he ▸ hn) (setRecvEv_ne_none _ _ _), fun k' hk' => ?_⟩
  rw [he] at hk'
  obtain ⟨e1, -⟩ := setRecvEv_some hk'
  have hmf : mutable = false := by
    cases mutable with
    | false => rfl
    | true => exact absurd e1.symm (hmut rfl)
  have hold : cfg.recvMut = false := by
    rcases setRecvEv_old hk' with ho | ho
    · exact h.1 ho
    · rw [← e1] at ho; exact h.2 _ ho
  rw [hm, hold, hmf]; rfl

def ValStep (cfg : Config) (p : Param) (cfg' : Config) : Prop :=
  cfg'.accesses = cfg.accesses ++ (if p.hasQ then [p.q.init] else []) ∧ p.cache = {} ∧ (SpOK cfg → SpOK cfg')

theorem initQuery_val (q : Query) (cfg : Config) :
    Ret (initQuery q cfg) (fun r => r.2.1 = r.1.init ∧ r.2.2.accesses = cfg.accesses ∧
      r.2.2.recvEv = cfg.recvEv ∧ r.2.2.recvMut = cfg.recvMut) := by
  unfold initQuery
  refine Ret.bind (Ret.forIn (fun b => b.accesses = cfg.accesses ∧ b.recvEv = cfg.recvEv ∧ b.recvMut = cfg.recvMut)
    ⟨rfl, rfl, rfl⟩ fun c b hb => ?_) fun b hb => ?_
  · exact Ret.bind' fun k => Ret.pure hb
  · exact Ret.bind' fun w => Ret.pure ⟨rfl, hb⟩

theorem initParam_val {ps : PSpec} (hps : ∀ q, ps ≠ .recv .spawn true q) (cfg : Config) :
    Ret (initParam ps cfg) (fun r => ValStep cfg r.1 r.2) := by
  have hfetch : ∀ (q : Query) (mk : Query × CA × Config → Param × Config)
      (hmk : ∀ r, (mk r).2.accesses = r.2.2.accesses ++ [r.2.1] ∧ (mk r).2.recvEv = r.2.2.recvEv ∧
        (mk r).2.recvMut = r.2.2.recvMut ∧ (mk r).1.hasQ = true ∧ (mk r).1.q = r.1 ∧ (mk r).1.cache = {}),
      Ret (initQuery q cfg >>= fun r => pure (mk r)) (fun r => ValStep cfg r.1 r.2) := by
    intro q mk hmk
    refine Ret.bind (initQuery_val q cfg) fun r hr => Ret.pure ?_
    obtain ⟨h1, h2, h3, h4⟩ := hr
    obtain ⟨e1, e2, e3, e4, e5, e6⟩ := hmk r
    refine ⟨?_, e6, fun hs => hs.congr (e2.trans h3) (e3.trans h4)⟩
    rw [e1, e4, e5, h2, h1]; rfl
  unfold initParam
  cases ps with
  | recv ev mutable q =>
    have hmut : mutable = true → ev ≠ .spawn := by
      rintro rfl rfl
      exact hps q rfl
    dsimp only
    split
    · refine Ret.bind' fun k => Ret.bind (initQuery_val _ cfg) fun r hr => Ret.pure ?_
      obtain ⟨h1, h2, h3, h4⟩ := hr
      refine ⟨?_, rfl, fun hs => ?_⟩
      · show r.2.2.accesses ++ [r.2.1] = _
        rw [h2, h1]; rfl
      · exact (hs.congr h3 h4).recv hmut rfl rfl
    · refine Ret.bind' fun k => Ret.pure ⟨?_, rfl, fun hs => hs.recv hmut rfl rfl⟩
      show cfg.accesses = cfg.accesses ++ []
      rw [List.append_nil]
  | fetch q => exact hfetch q _ fun r => ⟨rfl, rfl, rfl, rfl, rfl, rfl⟩
  | single q => exact hfetch q _ fun r => ⟨rfl, rfl, rfl, rfl, rfl, rfl⟩
  | trySingle q => exact hfetch q _ fun r => ⟨rfl, rfl, rfl, rfl, rfl, rfl⟩
  | snd evs =>
    dsimp only
    refine Ret.bind' fun idxs => ?_
    refine Ret.bind (Ret.forIn
      (fun b => b.accesses = cfg.accesses ∧ b.recvEv = cfg.recvEv ∧ b.recvMut = cfg.recvMut) ⟨rfl, rfl, rfl⟩
      fun x b hb => ?_) fun b hb => ?_
    · split
      · exact Ret.pure hb
      · exact Ret.pure hb
    · refine Ret.pure ⟨?_, rfl, fun hs => hs.congr hb.2.1 hb.2.2⟩
      show b.accesses = cfg.accesses ++ []
      rw [List.append_nil, hb.1]
  | ents =>
    refine Ret.pure ⟨?_, rfl, id⟩
    show cfg.accesses = cfg.accesses ++ []
    rw [List.append_nil]

end InvV6

open InvV6

/-- `Obl.ConfigRel` together with the conjunct that makes `spawnImm` inductive -/
structure ConfigRel' (w : World) (cfg : Config) (params : List Param) : Prop where
  rel : Obl.ConfigRel w cfg params
  mutNone : cfg.recvEv = none → cfg.recvMut = false

/-- the parameter loop of `addHandler` starts with it -/
theorem ConfigRel'.init (w : World) : ConfigRel' w {} [] :=
  ⟨⟨rfl, FilterRel.init, nofun, nofun, nofun, nofun, nofun, nofun, nofun, nofun⟩, fun _ => rfl⟩

/-- **`Obl.initParam_configRel` with the hypothesis it needs** (`cfg.recvEv = none → cfg.recvMut = false`), which is
    also re-established: `ConfigRel'` is a loop invariant of the parameter loop of `addHandler` -/
theorem initParam_configRel_partial :
    ∀ (ps : PSpec) (cfg : Config) (params : List Param) (w : World) (p : Param) (cfg' : Config) (w' : World),
      (∀ q, ps ≠ .recv .spawn true q) → WInvMid w → Obl.ConfigRel w cfg params →
      (cfg.recvEv = none → cfg.recvMut = false) →
      (initParam ps cfg).run.run w = (.ok (p, cfg'), w') →
      Obl.ConfigRel w' cfg' (params ++ [p]) ∧ (cfg'.recvEv = none → cfg'.recvMut = false) := by
  intro ps cfg params w p cfg' w' hps hw hrel hmn hr
  obtain ⟨-, hcr⟩ := (initParam_cr ps cfg).run w ⟨hw.winv.regInv, CR.of_configRel hrel⟩ (p, cfg') w' hr
  obtain ⟨hacc, hcache, hsp⟩ := initParam_val hps cfg w (p, cfg') w' hr
  have hstep : ParamStep cfg p cfg' := initParam_ret ps cfg w (p, cfg') w' hr
  obtain ⟨s1, s2⟩ := hsp ⟨hmn, hrel.spawnImm⟩
  refine ⟨⟨?_, hrel.filter.step hstep, fun p' hp' => ?_, hcr.referenced, fun ty k hk => ?_, hcr.sentG, hcr.sentT,
    hcr.sendsG, hcr.sendsT, s2⟩, s1⟩
  · show cfg'.accesses = _
    rw [hacc, hrel.accesses, List.filter_append, List.map_append]
    congr 1
    cases hq : p.hasQ <;> simp [hq]
  · rcases List.mem_append.1 hp' with hp' | hp'
    · exact hrel.caches p' hp'
    · rw [List.mem_singleton] at hp'; rw [hp']; exact hcache
  · have := hcr.recv ty k hk
    unfold LiveEv at this
    split
    · next ht => rw [if_pos ht] at this; exact this
    · next ht => rw [if_neg ht] at this; exact this

theorem initParam_configRel' :
    ∀ (ps : PSpec) (cfg : Config) (params : List Param) (w : World) (p : Param) (cfg' : Config) (w' : World),
      (∀ q, ps ≠ .recv .spawn true q) → WInvMid w → ConfigRel' w cfg params →
      (initParam ps cfg).run.run w = (.ok (p, cfg'), w') → ConfigRel' w' cfg' (params ++ [p]) :=
  fun ps cfg params w p cfg' w' hps hw hrel hr =>
    let ⟨h1, h2⟩ := initParam_configRel_partial ps cfg params w p cfg' w' hps hw hrel.rel hrel.mutNone hr
    ⟨h1, h2⟩

/-- **`Obl.initParam_configRel` is false as stated**: from the initial world, the configuration `{ recvMut := true }`
    (no received event yet) satisfies `ConfigRel` with no parameters, and `initParam (.recv .spawn false none)` — a
    valid parameter — turns it into one that receives `Spawn` with `recvMut = true` -/
theorem initParam_configRel_false : ¬ Obl.initParam_configRel := by
  intro h
  have h1 : (match ((initParam (.recv .spawn false none) { recvMut := true }).run.run {}).1 with
      | .ok r => r.2.recvMut && (match r.2.recvEv with | some (some (.spawn, _)) => true | _ => false)
      | .error _ => false) = true := by decide +kernel
  generalize hr : (initParam (.recv .spawn false none) { recvMut := true }).run.run {} = r at h1
  obtain ⟨(e|⟨p, cfg'⟩), w'⟩ := r
  · cases h1
  · simp only [Bool.and_eq_true] at h1
    obtain ⟨hm, he⟩ := h1
    have hrel : Obl.ConfigRel {} { recvMut := true } [] :=
      ⟨rfl, FilterRel.init, nofun, nofun, nofun, nofun, nofun, nofun, nofun, nofun⟩
    have := h (.recv .spawn false none) { recvMut := true } [] {} p cfg' w' (fun q => nofun) winvMid_init hrel hr
    split at he
    · next k hk =>
      have := this.spawnImm k hk
      rw [this] at hm
      cases hm
    · cases he

end Evenio
