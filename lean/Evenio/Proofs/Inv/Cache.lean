import Evenio.Proofs.Inv.CacheA
/-! # G4 — the fetcher caches, section B (the closed steps) and the list of closed obligations

Section A (the closed primitives) is in `Inv/CacheA.lean`. -/
namespace Evenio
namespace InvV4
open C10 Graph

/-! ### a congruence for the group -/

/-- the group only reads the parameters of the live handlers and `index comps epoch ids.isEmpty` of the live
    archetypes -/
theorem cacheGroup_congr {H H' : SlotMap HInfo} {A A' : Slab Arch} (h : CacheGroup' H A)
    (hlen : A.entries.length ≤ A'.entries.length)
    (hH : ∀ k h', H'.get k = some h' → ∃ h0, H.get k = some h0 ∧ h'.params = h0.params)
    (hA : ∀ i a', A'.get i = some a' → ∃ a, A.get i = some a ∧ a'.index = a.index ∧ a'.comps = a.comps ∧
      a'.epoch = a.epoch ∧ a'.ids.isEmpty = a.ids.isEmpty)
    (hlive : ∀ i, (A.get i).isSome = true → (A'.get i).isSome = true) : CacheGroup' H' A' := by
  have hC := CachesOK.mono h.caches hlen
  refine ⟨⟨fun k h' hk p hp => ?_, fun k h' hk p hp hq i a' hia => ?_⟩, fun k h' hk p hp hq i hik => ?_⟩
  · obtain ⟨h0, hk0, hpar⟩ := hH k h' hk
    rw [hpar] at hp
    exact hC.wf k h0 hk0 p hp
  · obtain ⟨h0, hk0, hpar⟩ := hH k h' hk
    rw [hpar] at hp
    obtain ⟨a, ha, hi, hc, hep, hemp⟩ := hA i a' hia
    have hex := h.caches.exact k h0 hk0 p hp hq i a ha
    unfold CacheExact at hex ⊢
    rw [hi, S_congr hc, hep, hemp]
    exact hex
  · obtain ⟨h0, hk0, hpar⟩ := hH k h' hk
    rw [hpar] at hp
    exact hlive i (h.live k h0 hk0 p hp hq i hik)

/-! ### frames: `regGev`, `regComp`, `regTev`, `removeEventFinish` -/

theorem regGev_keeps_cache : Obl.regGev_keeps .cache := fun _ _ _ _ hw _ => hw.cache

theorem regComp_keeps_cache : Obl.regComp_keeps .cache := fun _ _ _ _ hw _ => hw.cache

theorem regTev_keeps_cache : Obl.regTev_keeps .cache := by
  intro w ty kind nd k tevs' hw _ _ _
  show CacheGroup (Step.regTev w kind k tevs')
  unfold Step.regTev Step.noteEvent
  cases kind <;> dsimp only <;> first | exact hw.cache | (split <;> exact hw.cache)

theorem removeEventFinish_cache (ty : EvTy) (k : Key) : Keeps CacheGroup (removeEventFinish ty k) := by
  unfold removeEventFinish
  keeps

theorem removeEventFinish_keeps_cache : Obl.removeEventFinish_keeps .cache := fun ty k =>
  Hoare.pre (Hoare.of_keeps_panicOnly (removeEventFinish_cache ty k)) fun _ h => h.1.cache

/-! ### `setGen` -/

theorem setGen_keeps_cache : Obl.setGen_keeps .cache := by
  intro w id gen loc s a hw _ _ ha _ _ _
  show CacheGroup' w.handlers (w.archs.set a.index { a with ids := a.ids.set loc.row ⟨id.idx, gen⟩ })
  have hai : a.index = loc.arch := hw.1.indexOK _ _ ha
  refine cacheGroup_congr hw.cache (by rw [Slab.length_set]; exact Nat.le_refl _) (fun k h' hk => ⟨h', hk, rfl⟩)
    (fun i a' hia => ?_) (fun i hi => by rw [isSome_get_set]; exact hi)
  rcases Slab.get_set_cases hia with ⟨rfl, rfl, -⟩ | ⟨-, hia'⟩
  · refine ⟨a, hai ▸ ha, rfl, rfl, rfl, ?_⟩
    show (a.ids.set loc.row _).isEmpty = a.ids.isEmpty
    cases a.ids <;> cases loc.row <;> rfl
  · exact ⟨a', hia', rfl, rfl, rfl, rfl⟩

/-! ### `removeHandlerPure` -/

theorem length_foldl_set (g : Nat × Arch → Arch) (l : List (Nat × Arch)) (s : Slab Arch) :
    (l.foldl (fun s p => s.set (g p).index (g p)) s).entries.length = s.entries.length := by
  induction l generalizing s with
  | nil => rfl
  | cons p l ih => rw [List.foldl_cons, ih, Slab.length_set]

theorem removeHandlerPure_archs_length (w : World) (k : Key) (h : HInfo) :
    (removeHandlerPure w k h).archs.entries.length = w.archs.entries.length := by
  unfold removeHandlerPure
  rw [dropHandlerArchs_eq]
  exact length_foldl_set (fun p => p.2.dropHandler k h) _ _

theorem removeHandlerPure_keeps_cache : Obl.removeHandlerPure_keeps .cache := by
  intro w k h hw hk
  show CacheGroup' (removeHandlerPure w k h).handlers (removeHandlerPure w k h).archs
  have hidx := hw.1.indexOK
  have hget := removeHandlerPure_archs_get w k h hidx
  refine cacheGroup_congr hw.cache (Nat.le_of_eq (removeHandlerPure_archs_length w k h).symm)
    (fun k' h' hk' => ?_) (fun i a' hia => ?_) (fun i hi => ?_)
  · rw [removeHandlerPure_handlers] at hk'
    cases hr : w.handlers.remove k with
    | none => rw [SlotMap.remove_eq_none_iff, hk] at hr; cases hr
    | some r =>
      obtain ⟨v, hs⟩ := r
      rw [hr] at hk'
      dsimp only at hk'
      rw [SlotMap.get_remove hw.1.handlersWF hr] at hk'
      split at hk'
      · cases hk'
      · exact ⟨h', hk', rfl⟩
  · rw [hget] at hia
    cases ha : w.archs.get i with
    | none => rw [ha] at hia; cases hia
    | some a =>
      rw [ha] at hia
      cases hia
      exact ⟨a, rfl, dropHandler_index a k h, dropHandler_comps a k h, dropHandler_epoch a k h,
        by rw [dropHandler_ids]⟩
  · rw [hget]
    cases ha : w.archs.get i with
    | none => rw [ha] at hi; cases hi
    | some a => rfl

/-! ### `registerAll` -/

/-- what the group reads of an archetype -/
structure ArchRel (a a' : Arch) : Prop where
  index : a'.index = a.index
  comps : a'.comps = a.comps
  epoch : a'.epoch = a.epoch
  ids : a'.ids = a.ids

theorem ArchRel.refl (a : Arch) : ArchRel a a := ⟨rfl, rfl, rfl, rfl⟩

theorem ArchRel.exact {a a' : Arch} (h : ArchRel a a') {p : Param} (hex : CacheExact p a) : CacheExact p a' := by
  unfold CacheExact at hex ⊢
  rw [h.index, S_congr h.comps, h.epoch, h.ids]
  exact hex

/-- the archetype filter covers every query parameter -/
def Cov (h : HInfo) : Prop :=
  ∀ p ∈ h.params, p.hasQ = true → ∀ S, p.q.sem S = true → h.archFilter.matches S = true

theorem cov_of_handlerOK {ctr : Nat} {k : Key} {h : HInfo} (hok : HandlerOK ctr k h) : Cov h := by
  intro p hp hq S hs
  refine refresh_listeners_cover h h.accesses hok.archFilter p.q ?_ S hs
  unfold HInfo.accesses
  exact List.mem_map.2 ⟨p, List.mem_filter.2 ⟨hp, hq⟩, rfl⟩

/-- the loop invariant of the registration loop: `D` = the archetype indices already processed -/
structure RInv (H0 : SlotMap HInfo) (A : Slab Arch) (k : Key) (N : Nat) (D : Nat → Prop) (w : World) : Prop where
  others : ∀ k', k' ≠ k → w.handlers.get k' = H0.get k'
  len : w.archs.entries.length = A.entries.length
  live : ∀ i a, A.get i = some a → ∃ a', w.archs.get i = some a' ∧ ArchRel a a'
  dead : ∀ i, A.get i = none → w.archs.get i = none
  hk : ∃ hk, w.handlers.get k = some hk ∧ hk.key = k ∧ Cov hk ∧
    (∀ p ∈ hk.params, SparseMap.WF p.cache ∧ CacheBelow p N) ∧
    (∀ p ∈ hk.params, p.hasQ = true →
      (∀ i, D i → ∀ a, A.get i = some a → CacheExact p a) ∧ (∀ i, ¬ D i → p.cache.get i = none))

theorem RInv.congr {H0 : SlotMap HInfo} {A : Slab Arch} {k : Key} {N : Nat} {D D' : Nat → Prop} {w : World}
    (h : RInv H0 A k N D w) (hD : ∀ i, D i ↔ D' i) : RInv H0 A k N D' w := by
  have : D = D' := funext fun i => propext (hD i)
  exact this ▸ h

/-- the body of the loop of `registerAll` -/
def regBody (k : Key) : Nat × Arch → PUnit → M (ForInStep PUnit) := fun x _ => do
  let a ← getArch x.1 "register_handler:arch"
  match (← get).handlers.get k with
  | some h => do
    let a' ← a.registerHandler h
    setArch a'
    pure (ForInStep.yield PUnit.unit)
  | _ => do
    ubErr "register_handler:info"
    pure (ForInStep.yield PUnit.unit)

theorem registerAll_eq (k : Key) :
    registerAll k = (do let w ← get; forIn w.archs.toList PUnit.unit (regBody k); pure ()) := rfl

/-- a not refreshed parameter is exact for the archetype: it is empty or the parameter does not select it -/
theorem exact_of_absent {p : Param} {a : Arch} (habs : p.cache.get a.index = none)
    (h : a.ids = [] ∨ p.q.sem a.S ≠ true) : CacheExact p a := by
  unfold CacheExact
  rw [habs]
  rcases h with h | h
  · rw [h]; rfl
  · rw [archState_none_of_sem_false h]
    cases a.ids.isEmpty <;> rfl

theorem regBody_step {H0 : SlotMap HInfo} {A : Slab Arch} {k : Key} {N : Nat} (hN : N < U32MAX) (hidx : IndexOK A)
    (hb : ∀ i a, A.get i = some a → i < N) {D : Nat → Prop} {i : Nat} {a0 x : Arch} {u : PUnit}
    (ha0 : A.get i = some a0) (hnd : ¬ D i) :
    HoareOk (RInv H0 A k N D) (regBody k (i, x) u)
      (fun r w' => r = ForInStep.yield PUnit.unit ∧ RInv H0 A k N (fun j => D j ∨ j = i) w') := by
  refine ⟨fun w hw r w' hr => ?_⟩
  obtain ⟨hoth, hlen, hlive, hdead, hk, hhk, hkey, hcov, hwf, hex⟩ := hw
  obtain ⟨a, ha, hrel⟩ := hlive i a0 ha0
  have hai : a.index = i := hrel.index.trans (hidx i a0 ha0)
  have hrel' : ArchRel a a0 := ⟨hrel.index.symm, hrel.comps.symm, hrel.epoch.symm, hrel.ids.symm⟩
  subst hkey
  unfold regBody at hr
  simp only [run_bind, run_getArch', run_get, ha, hhk] at hr
  rw [registerHandler_run] at hr
  -- the archetypes after `setArch`
  have harchs :
      (w.archs.set (a.registerPure hk).index (a.registerPure hk)).entries.length = A.entries.length ∧
      (∀ j b, A.get j = some b →
        ∃ b', (w.archs.set (a.registerPure hk).index (a.registerPure hk)).get j = some b' ∧ ArchRel b b') ∧
      (∀ j, A.get j = none → (w.archs.set (a.registerPure hk).index (a.registerPure hk)).get j = none) := by
    rw [registerPure_index, hai]
    refine ⟨by rw [Slab.length_set]; exact hlen, fun j b hj => ?_, fun j hj => ?_⟩
    · by_cases hji : j = i
      · subst hji
        rw [ha0] at hj; cases hj
        exact ⟨_, Slab.get_set_same ha _,
          ⟨(registerPure_index a hk).trans hrel.index, (registerPure_comps a hk).trans hrel.comps,
           (registerPure_epoch a hk).trans hrel.epoch, (registerPure_ids a hk).trans hrel.ids⟩⟩
      · rw [Slab.get_set_other _ hji]; exact hlive j b hj
    · have hji : j ≠ i := by rintro rfl; rw [ha0] at hj; cases hj
      rw [Slab.get_set_other _ hji]; exact hdead j hj
  by_cases hc : hk.archFilter.matches a.S = true ∧ a.ids.length > 0
  · -- the handler is refreshed
    have hne : a.ids ≠ [] := by intro h; rw [h] at hc; exact absurd hc.2 (by simp)
    rw [if_pos hc, run_handlerRefresh_some hhk hne] at hr
    dsimp only at hr
    unfold setArch at hr
    simp only [run_modify, run_pure] at hr
    cases hr
    obtain ⟨h1, h2, h3⟩ := harchs
    refine ⟨rfl, fun k' hk' => ?_, h1, h2, h3, _, SlotMap.get_set_same hhk _, rfl, ?_, ?_, ?_⟩
    · show (w.handlers.set hk.key _).get k' = _
      rw [SlotMap.get_set_other _ hk']; exact hoth k' hk'
    · intro p' hp' hq' S hs
      obtain ⟨p, hp, rfl⟩ := List.mem_map.1 hp'
      rw [refreshArch_hasQ] at hq'
      rw [refreshArch_q] at hs
      exact hcov p hp hq' S hs
    · intro p' hp'
      obtain ⟨p, hp, rfl⟩ := List.mem_map.1 hp'
      exact refreshArch_wf_of_bound (hwf p hp).1 hN (hwf p hp).2 (by rw [hai]; exact hb i a0 ha0)
    · intro p' hp' hq'
      obtain ⟨p, hp, rfl⟩ := List.mem_map.1 hp'
      rw [refreshArch_hasQ] at hq'
      obtain ⟨e1, e2⟩ := hex p hp hq'
      refine ⟨fun j hj b hjb => ?_, fun j hj => ?_⟩
      · by_cases hji : j = i
        · subst hji
          obtain rfl : a0 = b := by rw [ha0] at hjb; exact Option.some.inj hjb
          have : CacheExact (p.refreshArch a) a :=
            refresh_makes_exact (hwf p hp).1 hq' hne (.inl (by rw [hai]; exact e2 j hnd))
          exact hrel'.exact this
        · have hD : D j := by rcases hj with h | h; exact h; exact absurd h hji
          refine refresh_frame (hwf p hp).1 ?_ (e1 j hD b hjb)
          rw [hidx j b hjb, hai]; exact hji
      · have hji : j ≠ i := fun h => hj (.inr h)
        rw [refreshArch_get_other (hwf p hp).1 (by rw [hai]; exact hji)]
        exact e2 j fun h => hj (.inl h)
  · -- nobody is refreshed
    rw [if_neg hc] at hr
    dsimp only at hr
    unfold setArch at hr
    simp only [run_modify, run_pure] at hr
    cases hr
    obtain ⟨h1, h2, h3⟩ := harchs
    refine ⟨rfl, hoth, h1, h2, h3, hk, hhk, rfl, hcov, hwf, fun p hp hq => ?_⟩
    obtain ⟨e1, e2⟩ := hex p hp hq
    refine ⟨fun j hj b hjb => ?_, fun j hj => e2 j fun h => hj (.inl h)⟩
    rcases hj with hj | rfl
    · exact e1 j hj b hjb
    · obtain rfl : a0 = b := by rw [ha0] at hjb; exact Option.some.inj hjb
      have habs : p.cache.get a.index = none := by rw [hai]; exact e2 j hnd
      have : CacheExact p a := by
        refine exact_of_absent habs ?_
        by_cases hids : a.ids = []
        · exact .inl hids
        · refine .inr fun hs => hc ⟨hcov p hp hq _ hs, ?_⟩
          cases hl : a.ids with
          | nil => exact absurd hl hids
          | cons y ys => simp
      exact hrel'.exact this

theorem regLoop {H0 : SlotMap HInfo} {A : Slab Arch} {k : Key} {N : Nat} (hN : N < U32MAX) (hidx : IndexOK A)
    (hb : ∀ i a, A.get i = some a → i < N) :
    ∀ (l : List (Nat × Arch)) (D : Nat → Prop), (l.map (·.1)).Nodup → (∀ x ∈ l, A.get x.1 = some x.2) →
      (∀ x ∈ l, ¬ D x.1) →
      HoareOk (RInv H0 A k N D) (forIn l PUnit.unit (regBody k))
        (fun _ => RInv H0 A k N (fun j => D j ∨ j ∈ l.map (·.1))) := by
  intro l
  induction l with
  | nil =>
    intro D _ _ _
    exact HoareOk.pure fun w hw => hw.congr fun i => by simp
  | cons x l ih =>
    intro D hnd hget hD
    obtain ⟨i, x⟩ := x
    rw [List.map_cons, List.nodup_cons] at hnd
    rw [List.forIn_cons]
    refine HoareOk.bind (regBody_step hN hidx hb (hget (i, x) List.mem_cons_self) (hD (i, x) List.mem_cons_self))
      fun r => ?_
    refine hoare_const_and fun hr => ?_
    subst hr
    refine HoareOk.post (ih (fun j => D j ∨ j = i) hnd.2 (fun y hy => hget y (List.mem_cons_of_mem _ hy))
      (fun y hy hDy => ?_)) fun _ w hw => hw.congr fun j => ?_
    · rcases hDy with hDy | hyi
      · exact hD y (List.mem_cons_of_mem _ hy) hDy
      · exact hnd.1 (List.mem_map.2 ⟨y, hy, hyi⟩)
    · simp only [List.map_cons, List.mem_cons]
      exact ⟨fun h => h.elim (fun h => h.elim .inl fun h => .inr (.inl h)) fun h => .inr (.inr h),
        fun h => h.elim (fun h => .inl (.inl h)) fun h => h.elim (fun h => .inl (.inr h)) .inr⟩

/-- at the end of the loop -/
theorem RInv.group {H0 : SlotMap HInfo} {A : Slab Arch} {k : Key} {D : Nat → Prop} {w : World}
    (h : RInv H0 A k A.entries.length D w) (hC : CacheGroup' H0 A) (hD : ∀ i, D i ↔ (A.get i).isSome = true) :
    CacheGroup w := by
  obtain ⟨hoth, hlen, hlive, hdead, hk, hhk, hkey, hcov, hwf, hex⟩ := h
  show CacheGroup' w.handlers w.archs
  have harch : ∀ i a', w.archs.get i = some a' → ∃ a, A.get i = some a ∧ ArchRel a a' := by
    intro i a' hia
    cases ha : A.get i with
    | none => rw [hdead i ha] at hia; cases hia
    | some a =>
      obtain ⟨a2, ha2, hrel⟩ := hlive i a ha
      rw [hia] at ha2; cases ha2
      exact ⟨a, rfl, hrel⟩
  have hliveA : ∀ i, (A.get i).isSome = true → (w.archs.get i).isSome = true := by
    intro i hi
    cases ha : A.get i with
    | none => rw [ha] at hi; cases hi
    | some a => obtain ⟨a2, ha2, -⟩ := hlive i a ha; rw [ha2]; rfl
  refine ⟨⟨fun k' h' hk' p hp => ?_, fun k' h' hk' p hp hq i a' hia => ?_⟩, fun k' h' hk' p hp hq i hik => ?_⟩
  · rw [hlen]
    by_cases hkk : k' = k
    · subst hkk; rw [hhk] at hk'; cases hk'
      exact hwf p hp
    · rw [hoth k' hkk] at hk'
      exact hC.caches.wf k' h' hk' p hp
  · obtain ⟨a, ha, hrel⟩ := harch i a' hia
    refine hrel.exact ?_
    by_cases hkk : k' = k
    · subst hkk; rw [hhk] at hk'; cases hk'
      exact (hex p hp hq).1 i ((hD i).2 (by rw [ha]; rfl)) a ha
    · rw [hoth k' hkk] at hk'
      exact hC.caches.exact k' h' hk' p hp hq i a ha
  · refine hliveA i ?_
    by_cases hkk : k' = k
    · subst hkk; rw [hhk] at hk'; cases hk'
      apply Classical.byContradiction
      intro hn
      have := (hex p hp hq).2 i fun hDi => hn ((hD i).1 hDi)
      rw [SparseMap.get_eq_none_iff (hwf p hp).1] at this
      exact this hik
    · rw [hoth k' hkk] at hk'
      exact hC.live k' h' hk' p hp hq i hik

theorem noPanic_registerAll (k : Key) : NoPanic (registerAll k) := by
  unfold registerAll
  nopanic
  all_goals first | exact noPanic_registerHandler _ _ | skip

theorem registerAll_keeps_cache : Obl.registerAll_keeps .cache := by
  intro w k h handlers' hw hpre
  refine ⟨fun w1 hw1 => ?_⟩
  subst hw1
  generalize hr : (registerAll k).run.run _ = res
  obtain ⟨(e|u), w'⟩ := res
  · intro hp
    have := (noPanic_registerAll k).err trivial hr
    rw [this] at hp; cases hp
  · show CacheGroup w'
    obtain ⟨mk, hins, hmk⟩ := hpre.ins
    have hgetH := SlotMap.get_insertWith hw.1.handlersWF hins
    -- the invariant holds at the start of the loop
    have hinit : RInv w.handlers w.archs k w.archs.entries.length (fun _ => False)
        (Step.insertHandler w k handlers' h.recv h.recvKey h.prio) := by
      refine ⟨fun k' hk' => ?_, rfl, fun i a ha => ⟨a, ha, ArchRel.refl a⟩, fun i hi => hi, h, ?_, hpre.ok.key,
        cov_of_handlerOK hpre.ok, fun p hp => ?_, fun p hp _ => ⟨fun i hi => hi.elim, fun i _ => ?_⟩⟩
      · show handlers'.get k' = _
        rw [hgetH, if_neg hk']
      · show handlers'.get k = _
        rw [hgetH, if_pos rfl, hmk]
      · have hc := hpre.caches p hp
        refine ⟨by rw [hc]; exact SparseMap.wf_empty, fun j hj => ?_⟩
        rw [hc] at hj
        exact absurd hj List.not_mem_nil
      · rw [hpre.caches p hp]; rfl
    rw [registerAll_eq] at hr
    simp only [run_bind, run_get] at hr
    generalize hr2 : (forIn (Step.insertHandler w k handlers' h.recv h.recvKey h.prio).archs.toList PUnit.unit
      (regBody k)).run.run _ = res2 at hr
    obtain ⟨(e|u2), w2⟩ := res2
    · cases hr
    · cases hr
      have hloop := (regLoop hw.1.small.1 hw.1.indexOK (fun _ _ ha => Slab.get_lt_length ha) w.archs.toList
        (fun _ => False) (Slab.toList_keys_nodup _) (fun x hx => (Slab.mem_toList_iff _ _ _).1 hx)
        (fun _ _ h => h)).run _ hinit u2 w' hr2
      refine hloop.group hw.cache fun i => ?_
      rw [Slab.mem_toList_keys_iff]
      exact ⟨fun h => h.elim False.elim id, .inr⟩

/-! ### `dropComp`: `archsRemoveComponent` -/

/-- an archetype is taken out of the slab and all its refresh listeners drop it from their caches -/
theorem CacheInvL.removed {N : Nat} {H H' : SlotMap HInfo} {A A' : Slab Arch} (hI : CacheInvL N H A) {ai : Nat}
    {arch : Arch} (hrem : A.remove ai = some (arch, A'))
    (hm : HandlersMapped (fun p => p.removeArch arch) arch.refresh H H') : CacheInvL N H' A' := by
  have harch : A.get ai = some arch := (Slab.remove_eq_some_iff A ai arch).1 ⟨A', hrem⟩
  have hai : arch.index = ai := hI.inv.idx ai arch harch
  have hback : ∀ j b, A'.get j = some b → j ≠ ai ∧ A.get j = some b := by
    intro j b hj
    have hne : j ≠ ai := by rintro rfl; rw [Slab.get_remove_same hrem] at hj; cases hj
    exact ⟨hne, by rw [← Slab.get_remove_other hrem hne]; exact hj⟩
  have hcov := hI.inv.covers ai arch harch
  refine ⟨⟨hI.inv.idx.remove hrem, fun j b hj => hI.inv.bound j b (hback j b hj).2, ⟨fun k h' hk p' hp' => ?_,
    fun k h' hk p' hp' hq' j b hj => ?_⟩, ?_⟩, fun k h' hk p' hp' hq' i hi => ?_⟩
  · by_cases hkr : k ∈ arch.refresh
    · obtain ⟨h, hh, hh'⟩ := hm.hit k hkr
      rw [hk] at hh'; cases hh'
      obtain ⟨p, hp, rfl⟩ := List.mem_map.1 hp'
      obtain ⟨hw, hbel⟩ := hI.inv.caches.wf k h hh p hp
      exact ⟨removeArch_wf hw, removeArch_below hw hbel⟩
    · rw [hm.miss k hkr] at hk
      exact hI.inv.caches.wf k h' hk p' hp'
  · obtain ⟨hne, hjA⟩ := hback j b hj
    by_cases hkr : k ∈ arch.refresh
    · obtain ⟨h, hh, hh'⟩ := hm.hit k hkr
      rw [hk] at hh'; cases hh'
      obtain ⟨p, hp, rfl⟩ := List.mem_map.1 hp'
      obtain ⟨hw, -⟩ := hI.inv.caches.wf k h hh p hp
      rw [removeArch_hasQ] at hq'
      refine remove_frame hw ?_ (hI.inv.caches.exact k h hh p hp hq' j b hjA)
      rw [hI.inv.idx j b hjA, hai]; exact hne
    · rw [hm.miss k hkr] at hk
      exact hI.inv.caches.exact k h' hk p' hp' hq' j b hjA
  · exact covers_mapped (removeArch_q_hasQ arch) hm fun j b hj => hI.inv.covers j b (hback j b hj).2
  · -- no key for a dead index: `ai` is the only index that died
    have hlive : ∀ j, (A.get j).isSome = true → j ≠ ai → (A'.get j).isSome = true := by
      intro j hj hne; rw [Slab.get_remove_other hrem hne]; exact hj
    by_cases hkr : k ∈ arch.refresh
    · obtain ⟨h, hh, hh'⟩ := hm.hit k hkr
      rw [hk] at hh'; cases hh'
      obtain ⟨p, hp, rfl⟩ := List.mem_map.1 hp'
      obtain ⟨hw, -⟩ := hI.inv.caches.wf k h hh p hp
      rw [removeArch_hasQ] at hq'
      rw [removeArch_of_hasQ arch hq'] at hi
      have hi' : i ∈ (p.cache.remove arch.index).keys := hi
      refine hlive i (hI.live k h hh p hp hq' i (SparseMap.mem_keys_remove hw _ _ hi')) ?_
      intro hia
      have := SparseMap.get_remove_same hw arch.index
      rw [SparseMap.get_eq_none_iff (SparseMap.remove_wf hw _), hai, ← hia] at this
      rw [hai, ← hia] at hi'
      exact this hi'
    · rw [hm.miss k hkr] at hk
      refine hlive i (hI.live k h' hk p' hp' hq' i hi) ?_
      rintro rfl
      -- a handler holding the key selects the archetype, so it is a refresh listener
      obtain ⟨hw, -⟩ := hI.inv.caches.wf k h' hk p' hp'
      have hex := hI.inv.caches.exact k h' hk p' hp' hq' i arch harch
      unfold CacheExact at hex
      rw [hai] at hex
      have hsome : p'.cache.get i ≠ none := fun hn => (SparseMap.get_eq_none_iff hw i).1 hn hi
      refine hkr (hcov.cover k h' hk p' hp' hq' ?_)
      rw [← archState_isSome_eq_sem]
      cases hs : p'.q.archState arch.S with
      | some st => rfl
      | none =>
        rw [hs] at hex
        exact absurd (by rw [hex]; cases arch.ids.isEmpty <;> rfl) hsome

/-- what the group and the refresh-listener coverage read of an archetype -/
structure SameC (a e : Arch) : Prop where
  index : e.index = a.index
  comps : e.comps = a.comps
  epoch : e.epoch = a.epoch
  refresh : e.refresh = a.refresh
  ids : e.ids = a.ids

theorem SameC.refl (a : Arch) : SameC a a := ⟨rfl, rfl, rfl, rfl, rfl⟩

/-- the slab `A` is `S` up to fields the cache invariant does not read -/
structure RelS (S A : Slab Arch) : Prop where
  live : ∀ i a, S.get i = some a → ∃ e, A.get i = some e ∧ SameC a e
  dead : ∀ i, S.get i = none → A.get i = none

theorem RelS.refl (S : Slab Arch) : RelS S S := ⟨fun _ a h => ⟨a, h, SameC.refl a⟩, fun _ h => h⟩

/-- the invariant of the loops that rewrite edges: the cache invariant, relative to a fixed slab -/
def J (N : Nat) (S : Slab Arch) : World → Prop := fun w => CI N w ∧ RelS S w.archs

theorem setArch_J {N : Nat} {S : Slab Arch} {i : Nat} {a e' : Arch} (ha : S.get i = some a) (hs : SameC a e') :
    Keeps (J N S) (setArch e') := by
  unfold setArch
  refine Keeps.modify fun w hw => ?_
  obtain ⟨hI, hrel⟩ := hw
  obtain ⟨e, he, hse⟩ := hrel.live i a ha
  have hei : e.index = i := hI.inv.idx i e he
  have he'i : e'.index = i := hs.index.trans (hse.index.symm.trans hei)
  refine ⟨hI.same' he (hs.index.trans hse.index.symm) (hs.comps.trans hse.comps.symm)
    (hs.epoch.trans hse.epoch.symm) (hs.refresh.trans hse.refresh.symm) (by rw [hs.ids, hse.ids]), ?_, ?_⟩
  · intro j b hj
    show ∃ e2, (w.archs.set e'.index e').get j = some e2 ∧ SameC b e2
    rw [he'i]
    by_cases hji : j = i
    · subst hji
      rw [ha] at hj; cases hj
      exact ⟨e', Slab.get_set_same he _, hs⟩
    · rw [Slab.get_set_other _ hji]; exact hrel.live j b hj
  · intro j hj
    show (w.archs.set e'.index e').get j = none
    have hji : j ≠ i := by rintro rfl; rw [ha] at hj; cases hj
    rw [he'i, Slab.get_set_other _ hji]; exact hrel.dead j hj

/-- the archetype read from the current state is related to the one of the reference slab -/
theorem J.witness {N : Nat} {S : Slab Arch} {w : World} (h : J N S w) {i : Nat} {oa : Arch}
    (hoa : w.archs.get i = some oa) : ∃ a, S.get i = some a ∧ SameC a oa := by
  cases hs : S.get i with
  | none => rw [h.2.dead i hs] at hoa; cases hoa
  | some a =>
    obtain ⟨e, he, hse⟩ := h.2.live i a hs
    rw [hoa] at he; cases he
    exact ⟨a, rfl, hse⟩

theorem SameC.trans {a b c : Arch} (h1 : SameC a b) (h2 : SameC b c) : SameC a c :=
  ⟨h2.index.trans h1.index, h2.comps.trans h1.comps, h2.epoch.trans h1.epoch, h2.refresh.trans h1.refresh,
   h2.ids.trans h1.ids⟩

theorem Keeps.forIn_list_mem {β γ : Type} {I : World → Prop} {l : List γ} {b : β} {f : γ → β → M (ForInStep β)}
    (hf : ∀ a ∈ l, ∀ b, Keeps I (f a b)) : Keeps I (forIn l b f) := by
  induction l generalizing b with
  | nil => exact Keeps.pure b
  | cons a l ih =>
    rw [List.forIn_cons]
    refine Keeps.bind (hf a List.mem_cons_self b) fun r => ?_
    cases r with
    | done b => exact Keeps.pure b
    | yield b => exact ih fun a' ha' => hf a' (List.mem_cons_of_mem _ ha')

theorem noPanic_dropCell (ty : Nat) (c : Cell) : NoPanic (dropCell ty c) := by
  unfold dropCell
  split
  · exact noPanic_modify _
  · exact noPanic_pure _

theorem ubErr_J {α : Type} (N : Nat) (S : Slab Arch) (s : String) : Keeps (J N S) (ubErr s : M α) := Keeps.throw _
theorem dropCell_J (N : Nat) (S : Slab Arch) (ty : Nat) (c : Cell) : Keeps (J N S) (dropCell ty c) := by
  unfold dropCell; keeps

/-- the loops of one iteration of `archsRemoveComponent` after the caches were updated -/
theorem removeRest_J (N : Nat) (S : Slab Arch) (arch : Arch) (ai removed ity : Nat) :
    Keeps (J N S) (do
      forIn arch.comps PUnit.unit fun c _ =>
        if (c != removed) = true then do
          let w ← get
          match w.comps.getByIndex c with
            | none => do
              ubErr "archetype.rs:remove_component:components.get_by_index_mut"
              pure (ForInStep.yield PUnit.unit)
            | some (ck, ci) =>
              have mo :=
                match List.idxOf? ai ci.memberOf with
                | some i => SparseMap.swapRemove ci.memberOf i
                | none => ci.memberOf;
              do
              set { w with comps := w.comps.set ck { ci with memberOf := mo } }
              pure (ForInStep.yield PUnit.unit)
        else pure (ForInStep.yield PUnit.unit)
      forIn arch.ids PUnit.unit fun id _ => do
        modify fun w =>
          match w.entities.remove id with
          | some (_, ents) => { w with entities := ents }
          | none => w
        pure (ForInStep.yield PUnit.unit)
      forIn arch.insEdges PUnit.unit fun x _ =>
        match x with
        | (c, other) => do
          match (← get).archs.get other with
            | some oa => do
              setArch { oa with remEdges := edgeRemove oa.remEdges c }
              pure (ForInStep.yield PUnit.unit)
            | none => pure (ForInStep.yield PUnit.unit)
      forIn arch.remEdges PUnit.unit fun x _ =>
        match x with
        | (c, other) => do
          match (← get).archs.get other with
            | some oa => do
              setArch { oa with insEdges := edgeRemove oa.insEdges c }
              pure (ForInStep.yield PUnit.unit)
            | none => pure (ForInStep.yield PUnit.unit)
      forIn (arch.comps.zip arch.cols) PUnit.unit fun x _ =>
        match x with
        | (c, col) => do
          let w' ← get
          have ty : Nat := if (c == removed) = true then ity else w'.compTy c
          forIn col PUnit.unit fun x _ => do
            dropCell ty x
            pure (ForInStep.yield PUnit.unit)
          pure (ForInStep.yield PUnit.unit)
      pure (ForInStep.yield PUnit.unit) : M (ForInStep PUnit)) := by
  refine Keeps.bind ?_ fun _ => Keeps.bind ?_ fun _ => Keeps.bind ?_ fun _ => Keeps.bind ?_ fun _ =>
    Keeps.bind ?_ fun _ => Keeps.pure _
  · keeps
    exact ubErr_J N S _
  · keeps
    refine Keeps.modify fun w h => ?_
    split <;> exact h
  · refine Keeps.forIn_list fun x _ => ?_
    obtain ⟨c, other⟩ := x
    refine Keeps.get_bind fun w hw => ?_
    split
    · next oa hoa =>
      obtain ⟨a, ha, hs⟩ := hw.witness hoa
      exact Keeps.bind (setArch_J ha (hs.trans ⟨rfl, rfl, rfl, rfl, rfl⟩)) fun _ => Keeps.pure _
    · exact Keeps.pure _
  · refine Keeps.forIn_list fun x _ => ?_
    obtain ⟨c, other⟩ := x
    refine Keeps.get_bind fun w hw => ?_
    split
    · next oa hoa =>
      obtain ⟨a, ha, hs⟩ := hw.witness hoa
      exact Keeps.bind (setArch_J ha (hs.trans ⟨rfl, rfl, rfl, rfl, rfl⟩)) fun _ => Keeps.pure _
    · exact Keeps.pure _
  · keeps
    all_goals exact dropCell_J N S _ _

theorem noPanic_removeOne (arch : Arch) (w1 : World) (rest : M (ForInStep PUnit))
    (hrest : NoPanic rest) :
    NoPanic (do
      set w1
      forIn arch.refresh PUnit.unit fun hk _ => do
        handlerRemoveArch hk arch
        pure (ForInStep.yield PUnit.unit)
      rest : M (ForInStep PUnit)) := by
  refine NoPanic.bind (noPanic_set _) fun _ => NoPanic.bind ?_ fun _ => hrest
  nopanic

theorem archsRemoveComponent_ci {N : Nat} (info : CompInfo) :
    Hoare (CI N) (archsRemoveComponent info) (fun _ => CI N) (PanicOnly (CI N)) := by
  unfold archsRemoveComponent
  dsimp only
  refine Hoare.bind_inv (Hoare.forIn_list_inv fun ai _ => ?_) fun _ => ?_
  · -- one archetype is removed
    refine Hoare.get_bind fun w hw => ?_
    split
    · exact Hoare.bind (R := fun _ _ => False) (Hoare.throw fun _ h _ => h) fun _ => ⟨fun _ h => h.elim⟩
    · next arch S1 hrem =>
      have hnd := (hw.inv.covers ai arch ((Slab.remove_eq_some_iff _ ai arch).1 ⟨S1, hrem⟩)).nodup
      refine hoare_of_ok_noPanic ?_ ?_
      · refine HoareOk.bind (R := fun _ w1 => HA w.handlers S1 w1)
          ⟨fun w0 _ u w' hr => by cases hr; exact ⟨rfl, rfl⟩⟩ fun _ => ?_
        refine HoareOk.bind (removeLoop_ha w.handlers S1 arch hnd) fun _ => ?_
        refine HoareOk.pre (P' := J N S1) ?_ fun w' hw' => ?_
        · exact HoareOk.post (HoareOk.of_keeps (removeRest_J N S1 arch ai info.id.idx info.ty)) fun _ _ h => h.1
        · refine ⟨?_, by rw [hw'.1]; exact RelS.refl S1⟩
          show CacheInvL N w'.handlers w'.archs
          rw [hw'.1]
          exact hw.removed hrem hw'.2
      · refine noPanic_removeOne arch _ _ ?_
        nopanic
        all_goals first | exact noPanic_dropCell _ _ | skip
  · -- the sweep
    refine ⟨fun w hw => ?_⟩
    rw [run_bind, run_get]
    dsimp only
    have hsweep : Keeps (J N w.archs) (forIn w.archs.toList PUnit.unit fun x _ =>
        match x with
        | (_, a) => do
          setArch { a with insEdges := edgeRemove a.insEdges info.id.idx }
          pure (ForInStep.yield PUnit.unit) : M PUnit) := by
      refine Keeps.forIn_list_mem fun x hx _ => ?_
      obtain ⟨i, a⟩ := x
      exact Keeps.bind (setArch_J ((Slab.mem_toList_iff _ _ _).1 hx) ⟨rfl, rfl, rfl, rfl, rfl⟩) fun _ => Keeps.pure _
    have H : ∀ (m : M PUnit), Keeps (J N w.archs) m →
        Hoare (J N w.archs) (m >>= fun _ => (pure () : M Unit)) (fun _ => CI N) (PanicOnly (CI N)) := fun m hm =>
      Hoare.bind (R := fun _ => J N w.archs) (Hoare.of_keeps hm fun _ _ h _ => h.1) fun _ => Hoare.pure fun _ h => h.1
    exact (H _ hsweep).run w ⟨hw, RelS.refl _⟩

theorem dbgAssert_ci (N : Nat) (c : Bool) (s : String) : Keeps (CI N) (dbgAssert c s) := by unfold dbgAssert; keeps

theorem dropCompTail_ci {N : Nat} (info : CompInfo) :
    Hoare (CI N) (dropCompTail info) (fun _ => CI N) (PanicOnly (CI N)) := by
  unfold dropCompTail
  refine Hoare.bind_inv (archsRemoveComponent_ci info) fun _ => ?_
  refine Hoare.of_keeps ?_ fun _ _ h _ => h
  unfold resRefresh
  keeps
  exact dbgAssert_ci N _ _

theorem dropCompTail_mono (info : CompInfo) : SlabMono (dropCompTail info) := fun _ => by
  unfold dropCompTail; keeps

theorem dropComp_keeps_cache : Obl.dropComp_keeps .cache := by
  intro w k info comps' hw _ _
  refine ⟨fun w1 hw1 => ?_⟩
  subst hw1
  have hle := (dropCompTail_mono info).le (Step.dropComp w k comps')
  have := (dropCompTail_ci (N := w.archs.entries.length) info).run (Step.dropComp w k comps')
    (cacheInvL_of_winv hw.1)
  generalize (dropCompTail info).run.run (Step.dropComp w k comps') = res at hle this
  obtain ⟨(e|u), w'⟩ := res
  · exact fun hp => CacheInvL.group (this hp) hle.1
  · exact CacheInvL.group this hle.1

end InvV4

/-! ## the obligations of G4, under their official names -/

theorem reserve_keeps_cache : Obl.reserve_keeps .cache := InvV4.reserve_keeps_cache
theorem bumpCell_keeps_cache : Obl.bumpCell_keeps .cache := InvV4.bumpCell_keeps_cache
theorem spawnAll_keeps_cache : Obl.spawnAll_keeps .cache := InvV4.spawnAll_keeps_cache
theorem moveEntity_keeps_cache : Obl.moveEntity_keeps .cache := InvV4.moveEntity_keeps_cache
theorem removeEntity_keeps_cache : Obl.removeEntity_keeps .cache := InvV4.removeEntity_keeps_cache
theorem traverseInsert_keeps_cache : Obl.traverseInsert_keeps .cache := InvV4.traverseInsert_keeps_cache
theorem traverseRemove_keeps_cache : Obl.traverseRemove_keeps .cache := InvV4.traverseRemove_keeps_cache
theorem regGev_keeps_cache : Obl.regGev_keeps .cache := InvV4.regGev_keeps_cache
theorem regComp_keeps_cache : Obl.regComp_keeps .cache := InvV4.regComp_keeps_cache
theorem regTev_keeps_cache : Obl.regTev_keeps .cache := InvV4.regTev_keeps_cache
theorem registerAll_keeps_cache : Obl.registerAll_keeps .cache := InvV4.registerAll_keeps_cache
theorem removeHandlerPure_keeps_cache : Obl.removeHandlerPure_keeps .cache := InvV4.removeHandlerPure_keeps_cache
theorem removeEventFinish_keeps_cache : Obl.removeEventFinish_keeps .cache := InvV4.removeEventFinish_keeps_cache
theorem dropComp_keeps_cache : Obl.dropComp_keeps .cache := InvV4.dropComp_keeps_cache
theorem setGen_keeps_cache : Obl.setGen_keeps .cache := InvV4.setGen_keeps_cache

example : Obl.reserve_keeps .cache := reserve_keeps_cache
example : Obl.bumpCell_keeps .cache := bumpCell_keeps_cache
example : Obl.spawnAll_keeps .cache := spawnAll_keeps_cache
example : Obl.moveEntity_keeps .cache := moveEntity_keeps_cache
example : Obl.removeEntity_keeps .cache := removeEntity_keeps_cache
example : Obl.traverseInsert_keeps .cache := traverseInsert_keeps_cache
example : Obl.traverseRemove_keeps .cache := traverseRemove_keeps_cache
example : Obl.regGev_keeps .cache := regGev_keeps_cache
example : Obl.regComp_keeps .cache := regComp_keeps_cache
example : Obl.regTev_keeps .cache := regTev_keeps_cache
example : Obl.registerAll_keeps .cache := registerAll_keeps_cache
example : Obl.removeHandlerPure_keeps .cache := removeHandlerPure_keeps_cache
example : Obl.removeEventFinish_keeps .cache := removeEventFinish_keeps_cache
example : Obl.dropComp_keeps .cache := dropComp_keeps_cache
example : Obl.setGen_keeps .cache := setGen_keeps_cache

end Evenio

#print axioms Evenio.reserve_keeps_cache
#print axioms Evenio.bumpCell_keeps_cache
#print axioms Evenio.spawnAll_keeps_cache
#print axioms Evenio.moveEntity_keeps_cache
#print axioms Evenio.removeEntity_keeps_cache
#print axioms Evenio.traverseInsert_keeps_cache
#print axioms Evenio.traverseRemove_keeps_cache
#print axioms Evenio.regGev_keeps_cache
#print axioms Evenio.regComp_keeps_cache
#print axioms Evenio.regTev_keeps_cache
#print axioms Evenio.registerAll_keeps_cache
#print axioms Evenio.removeHandlerPure_keeps_cache
#print axioms Evenio.removeEventFinish_keeps_cache
#print axioms Evenio.dropComp_keeps_cache
#print axioms Evenio.setGen_keeps_cache
