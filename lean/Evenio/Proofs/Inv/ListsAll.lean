import Evenio.Proofs.Inv.Lists
import Evenio.Proofs.Inv.ListsFrame
import Evenio.Proofs.Inv.ListsA
import Evenio.Proofs.Inv.ListsB
import Evenio.Proofs.Inv.ListsReg
import Evenio.Proofs.Inv.ListsE
import Evenio.Proofs.Inv.ListsE2
import Evenio.Proofs.Inv.ListsECex
/-! # G3 (handler lists, listener tables, refresh sets): everything worker 3 proved, in one environment

`lake build Evenio.Proofs.Inv.ListsAll`.

* `ListsFrame.lean` — the frame rule (`listsInv_of_frames`, `listsInv'_congr`, `archListsOK_congr`, `selOf_eq_filter`);
* `ListsA.lean` — section A (the seven closed primitives) through the invariant `InvV3.LI`;
* `ListsB.lean` — section B except `registerAll`;
* `ListsReg.lean` — `registerAll_keeps_lists`;
* `ListsE.lean`, `ListsE2.lean` — section E: `initParam_configRel_partial_v3` (static AND reference half),
  `initParam_grows_partial_v3`, `configRel_init`;
* `ListsECex.lean` — `initParam_configRel_false_v3 : ¬ Obl.initParam_configRel`,
  `initParam_grows_false_v3 : ¬ Obl.initParam_grows`. -/
namespace Evenio

-- section A
example : Obl.reserve_keeps .lists := reserve_keeps_lists
example : Obl.bumpCell_keeps .lists := bumpCell_keeps_lists
example : Obl.spawnAll_keeps .lists := spawnAll_keeps_lists
example : Obl.moveEntity_keeps .lists := moveEntity_keeps_lists
example : Obl.removeEntity_keeps .lists := removeEntity_keeps_lists
example : Obl.traverseInsert_keeps .lists := traverseInsert_keeps_lists
example : Obl.traverseRemove_keeps .lists := traverseRemove_keeps_lists
-- section B
example : Obl.regGev_keeps .lists := regGev_keeps_lists
example : Obl.regComp_keeps .lists := regComp_keeps_lists
example : Obl.regTev_keeps .lists := regTev_keeps_lists
example : Obl.registerAll_keeps .lists := registerAll_keeps_lists
example : Obl.removeHandlerPure_keeps .lists := removeHandlerPure_keeps_lists
example : Obl.removeEventFinish_keeps .lists := removeEventFinish_keeps_lists
example : Obl.dropComp_keeps .lists := dropComp_keeps_lists
example : Obl.setGen_keeps .lists := setGen_keeps_lists
-- section E: the obligation as stated is false; the strengthened loop invariant is inductive
example : ¬ Obl.initParam_configRel := initParam_configRel_false_v3
example : ∀ (ps : PSpec) (cfg : Config) (params : List Param) (w : World) (p : Param) (cfg' : Config) (w' : World),
    (∀ q, ps ≠ .recv .spawn true q) → WInvMid w → Obl.ConfigRel w cfg params → ConfigMutNone cfg →
    (initParam ps cfg).run.run w = (.ok (p, cfg'), w') →
    Obl.ConfigRel w' cfg' (params ++ [p]) ∧ ConfigMutNone cfg' := initParam_configRel_partial_v3
example (w : World) : Obl.ConfigRel w {} [] ∧ ConfigMutNone {} := configRel_init w
-- `Obl.initParam_grows` (owner: W1) is false without well-formed registries
example : ¬ Obl.initParam_grows := initParam_grows_false_v3
example : ∀ ps cfg w r w', RegInv [] w → (initParam ps cfg).run.run w = (.ok r, w') → Obl.Grows w w' :=
  initParam_grows_partial_v3

end Evenio
