import Evenio.Proofs.Inv.ListsFrame
/-! # G3, section A: the closed primitives keep `ListsInv`

One invariant serves all seven primitives: `LI fr Hc` — the frame (Proofs/Frame.lean) is `fr`, the handler registry is
`Hc` up to fetcher caches (as a slot map), and every live archetype has exact lists with respect to the CORE registry
`Hc`.  It is kept on EVERY exit (`Keeps`), so panic exits need no separate argument. -/
namespace Evenio
namespace InvV3

/-- the invariant of section A -/
abbrev LI (fr : Frame) (Hc : SlotMap HInfo) : World → Prop := fun w =>
  w.frame = fr ∧ w.handlers.mapVal HInfo.core = Hc ∧
  ∀ i a, w.archs.get i = some a → ArchListsOK fr.byInsertOrder Hc fr.tevs a

variable {fr : Frame} {Hc : SlotMap HInfo}

theorem ubErr_li {α : Type} (s : String) : Keeps (LI fr Hc) (ubErr s : M α) := by unfold ubErr; keeps
local macro_rules | `(tactic| keeps_leaf) => `(tactic| exact ubErr_li _)
theorem dbgAssert_li (c : Bool) (s : String) : Keeps (LI fr Hc) (dbgAssert c s) := by unfold dbgAssert; keeps
local macro_rules | `(tactic| keeps_leaf) => `(tactic| exact dbgAssert_li _ _)
theorem dropCell_li (ty : Nat) (c : Cell) : Keeps (LI fr Hc) (dropCell ty c) := by unfold dropCell; keeps
local macro_rules | `(tactic| keeps_leaf) => `(tactic| exact dropCell_li _ _)
theorem dropCellIdx_li (ty : Nat) (c : Cell) : Keeps (LI fr Hc) (dropCellIdx ty c) := by unfold dropCellIdx; keeps
local macro_rules | `(tactic| keeps_leaf) => `(tactic| exact dropCellIdx_li _ _)
theorem freshEpoch_li : Keeps (LI fr Hc) freshEpoch := by unfold freshEpoch; keeps
local macro_rules | `(tactic| keeps_leaf) => `(tactic| exact freshEpoch_li)
theorem setLoc_li (id : Key) (s : String) (f : Loc → Loc) : Keeps (LI fr Hc) (setLoc id s f) := by unfold setLoc; keeps
local macro_rules | `(tactic| keeps_leaf) => `(tactic| exact setLoc_li _ _ _)

theorem handlerRefresh_li (hk : Key) (a : Arch) : Keeps (LI fr Hc) (handlerRefresh hk a) := by
  unfold handlerRefresh
  refine Keeps.get_bind fun w hw => ?_
  cases hg : w.handlers.get hk with
  | none => exact ubErr_li _
  | some h =>
    refine Keeps.bind (dbgAssert_li _ _) fun _ => Keeps.set ⟨hw.1, ?_, hw.2.2⟩
    show SlotMap.mapVal HInfo.core (w.handlers.set hk _) = Hc
    rw [SlotMap.mapVal_set HInfo.core hg (HInfo.core_map_refresh h a)]
    exact hw.2.1
local macro_rules | `(tactic| keeps_leaf) => `(tactic| exact handlerRefresh_li _ _)

theorem handlerRemoveArch_li (hk : Key) (a : Arch) : Keeps (LI fr Hc) (handlerRemoveArch hk a) := by
  unfold handlerRemoveArch
  refine Keeps.get_bind fun w hw => ?_
  cases hg : w.handlers.get hk with
  | none => exact ubErr_li _
  | some h =>
    refine Keeps.set ⟨hw.1, ?_, hw.2.2⟩
    show SlotMap.mapVal HInfo.core (w.handlers.set hk _) = Hc
    rw [SlotMap.mapVal_set HInfo.core hg (HInfo.core_map_remove h a)]
    exact hw.2.1
local macro_rules | `(tactic| keeps_leaf) => `(tactic| exact handlerRemoveArch_li _ _)

/-- writing back an archetype with exact lists -/
theorem setArch_li {a : Arch} (h : ArchListsOK fr.byInsertOrder Hc fr.tevs a) : Keeps (LI fr Hc) (setArch a) := by
  unfold setArch
  refine Keeps.modify fun w hw => ⟨hw.1, hw.2.1, fun i b hb => ?_⟩
  have hb' : (w.archs.set a.index a).get i = some b := hb
  rcases Slab.get_set_cases hb' with ⟨-, rfl, -⟩ | ⟨-, hb''⟩
  · exact h
  · exact hw.2.2 i b hb''

/-- an archetype read from the slab has exact lists -/
theorem getArch_li_bind {β : Type} {i : Nat} {s : String} {rest : Arch → M β}
    (h : ∀ a, ArchListsOK fr.byInsertOrder Hc fr.tevs a → Keeps (LI fr Hc) (rest a)) :
    Keeps (LI fr Hc) (getArch i s >>= rest) := by
  refine ⟨fun w hw => ?_⟩
  rw [run_bind, run_getArch']
  cases ha : w.archs.get i with
  | none => exact hw
  | some a => exact (h a (hw.2.2 i a ha)).run w hw

/-- a step whose RESULT satisfies a state independent property -/
theorem keeps_bind_ret {α β : Type} {I : World → Prop} {m : M α} {f : α → M β} {P : α → Prop} (hm : Keeps I m)
    (hr : Ret m P) (hf : ∀ a, P a → Keeps I (f a)) : Keeps I (m >>= f) := by
  refine ⟨fun w hw => ?_⟩
  rw [run_bind]
  have h1 := hm.run w hw
  generalize hrun : m.run.run w = r at h1
  obtain ⟨(e|a), w1⟩ := r
  · exact h1
  · exact (hf a (hr w a w1 hrun)).run w1 h1

theorem reserveOne_lists (a : Arch) (ep : Nat) :
    (a.reserveOne ep).1.refresh = a.refresh ∧ (a.reserveOne ep).1.listeners = a.listeners ∧
    (a.reserveOne ep).1.comps = a.comps := by
  unfold Arch.reserveOne; split <;> exact ⟨rfl, rfl, rfl⟩

/-! ### the primitives -/

theorem reserve_li : Keeps (LI fr Hc) reserve := by unfold reserve; keeps

theorem bumpCell_li (ai row c : Nat) : Keeps (LI fr Hc) (bumpCell ai row c) := by
  unfold bumpCell
  refine getArch_li_bind fun a ha => ?_
  split
  · exact ubErr_li _
  · split
    · exact ubErr_li _
    · split
      · exact ubErr_li _
      · exact setArch_li (archListsOK_same ha rfl rfl rfl)

theorem archSpawn_li (id : Key) : Keeps (LI fr Hc) (archSpawn id) := by
  unfold archSpawn
  refine getArch_li_bind fun a ha => ?_
  refine Keeps.bind freshEpoch_li fun ep => ?_
  split
  next e r heq =>
  have he : ArchListsOK fr.byInsertOrder Hc fr.tevs e := by
    have h1 : e = (a.reserveOne ep).1 := by rw [heq]
    obtain ⟨l1, l2, l3⟩ := reserveOne_lists a ep
    exact archListsOK_same ha (h1 ▸ l1) (h1 ▸ l2) (h1 ▸ l3)
  refine Keeps.bind (setArch_li (archListsOK_same he rfl rfl rfl)) fun _ => ?_
  keeps
local macro_rules | `(tactic| keeps_leaf) => `(tactic| exact archSpawn_li _)

theorem spawnAll_li : Keeps (LI fr Hc) spawnAll := by unfold spawnAll; keeps

theorem removeEntity_li (loc : Loc) : Keeps (LI fr Hc) (removeEntity loc) := by
  unfold removeEntity
  refine getArch_li_bind fun a ha => ?_
  refine Keeps.bind (by keeps) fun cols => ?_
  split
  · exact ubErr_li _
  · refine Keeps.bind (setArch_li (archListsOK_same ha rfl rfl rfl)) fun _ => ?_
    keeps

theorem moveEntity_li (src : Loc) (dst : Nat) (new : List (Nat × Cell)) : Keeps (LI fr Hc) (moveEntity src dst new) := by
  unfold moveEntity
  split
  · refine getArch_li_bind fun a ha => ?_
    dsimp only
    refine keeps_bind_ret (P := fun r => ArchListsOK fr.byInsertOrder Hc fr.tevs r) (by keeps) ?_ fun r hr => ?_
    · refine Ret.forIn _ ha fun x b hb => ?_
      obtain ⟨c, x⟩ := x
      dsimp only
      split
      · exact Ret.bind' fun _ => Ret.pure hb
      · split
        · exact Ret.bind' fun _ => Ret.pure hb
        · exact Ret.bind' fun _ => Ret.pure (archListsOK_same hb rfl rfl rfl)
    · exact Keeps.bind (setArch_li hr) fun _ => Keeps.pure _
  · refine getArch_li_bind fun sa hsa => ?_
    refine getArch_li_bind fun da hda => ?_
    refine Keeps.bind freshEpoch_li fun ep => ?_
    split
    next e r heq =>
    have he : ArchListsOK fr.byInsertOrder Hc fr.tevs e := by
      have h1 : e = (da.reserveOne ep).1 := by rw [heq]
      obtain ⟨l1, l2, l3⟩ := reserveOne_lists da ep
      exact archListsOK_same hda (h1 ▸ l1) (h1 ▸ l2) (h1 ▸ l3)
    split
    · exact ubErr_li _
    · refine Keeps.bind (by keeps) fun _ => ?_
      split
      · exact Keeps.throw _
      · refine Keeps.bind (setArch_li (archListsOK_same hsa rfl rfl rfl)) fun _ => ?_
        refine Keeps.bind (setArch_li (archListsOK_same he rfl rfl rfl)) fun _ => ?_
        keeps

/-! ### `newArch`: the registration loop -/

theorem keeps_bind_ok {α β : Type} {I : World → Prop} {m : M α} {f : α → M β} {P : α → Prop} (hm : Keeps I m)
    (hr : HoareOk I m (fun a _ => P a)) (hf : ∀ a, P a → Keeps I (f a)) : Keeps I (m >>= f) := by
  refine ⟨fun w hw => ?_⟩
  rw [run_bind]
  have h1 := hm.run w hw
  generalize hrun : m.run.run w = r at h1
  obtain ⟨(e|a), w1⟩ := r
  · exact h1
  · exact (hf a (hr.run w hw a w1 hrun)).run w1 h1

/-- a loop that threads a value whose invariant `J` is indexed by the processed prefix, followed by `rest` -/
theorem keeps_forIn_prefix {I : World → Prop} {β γ δ : Type} {f : γ → β → M (ForInStep β)} {rest : β → M δ}
    (J : List γ → β → Prop) (full : List γ)
    (hstep : ∀ pre x suf b, pre ++ x :: suf = full → J pre b →
      Keeps I (f x b) ∧ HoareOk I (f x b) (fun r _ => ∃ b', r = .yield b' ∧ J (pre ++ [x]) b'))
    (hrest : ∀ b, J full b → Keeps I (rest b)) :
    ∀ (l pre : List γ) (b : β), pre ++ l = full → J pre b → Keeps I (forIn l b f >>= rest) := by
  intro l
  induction l with
  | nil =>
    intro pre b hp hJ
    rw [List.append_nil] at hp
    subst hp
    refine ⟨fun w hw => ?_⟩
    rw [run_bind]
    exact (hrest b hJ).run w hw
  | cons x l ih =>
    intro pre b hp hJ
    rw [List.forIn_cons, bind_assoc]
    obtain ⟨h1, h2⟩ := hstep pre x l b hp hJ
    refine keeps_bind_ok h1 h2 fun r hr => ?_
    obtain ⟨b', rfl, hJ'⟩ := hr
    exact ih (pre ++ [x]) b' (by rw [List.append_assoc]; exact hp) hJ'

/-- what the registration loop of `newArch` needs to know about the registry (world independent) -/
structure RegCtx (fr : Frame) (Hc : SlotMap HInfo) : Prop where
  nodup : fr.byInsertOrder.Nodup
  wfT : fr.tevs.WF
  small : fr.tevs.slots.length < U32MAX
  entry : ∀ k h, Hc.get k = some h → h.key = k ∧ h.recvIdx = h.recvKey.idx ∧
    (h.recv.targeted = true → ∃ info, fr.tevs.get h.recvKey = some info)

theorem registerHandler_li (a : Arch) (h : HInfo) : Keeps (LI fr Hc) (a.registerHandler h) := by
  unfold Arch.registerHandler; keeps
local macro_rules | `(tactic| keeps_leaf) => `(tactic| exact registerHandler_li _ _)

theorem Slab.get_insert_cases {α : Type} {s : Slab α} {a b : α} {i : Nat} (h : (s.insert a).get i = some b) :
    b = a ∨ s.get i = some b := by
  by_cases hi : i = s.vacantKey
  · subst hi
    unfold Slab.insert at h
    dsimp only at h
    split at h
    · next hk =>
      left
      rw [Slab.get_eq_some_iff] at h
      simp only [Slab.vacantKey, hk, List.getElem?_append_right (Nat.le_refl _), Nat.sub_self,
        List.getElem?_cons_zero, Option.some.injEq, SlabEntry.occ.injEq] at h
      exact h.symm
    · split at h
      · next n hn =>
        left
        rw [Slab.get_eq_some_iff] at h
        have hlt : s.next < s.entries.length := (List.getElem?_eq_some_iff.1 hn).1
        simp only [Slab.vacantKey, List.getElem?_set_self hlt, Option.some.injEq, SlabEntry.occ.injEq] at h
        exact h.symm
      · exact .inr h
  · right
    rw [Slab.get_insert_other _ _ hi] at h
    exact h

theorem newArch_li (ctx : RegCtx fr Hc) (cs : List Nat) (ei er : Option (Nat × Nat)) :
    Keeps (LI fr Hc) (newArch cs ei er) := by
  unfold newArch
  refine Keeps.get_bind fun w0 hw0 => ?_
  dsimp only
  refine Keeps.bind (by keeps) fun _ => ?_
  -- the loop, from any archetype without lists
  have hloop : ∀ a0 : Arch, a0.listeners = {} → a0.refresh = [] → Keeps (LI fr Hc) (do
      let r ← (do
        let w ← get
        forIn w.byInsertOrder a0 fun hk r => do
          match (← get).handlers.get hk with
          | none => do
            ubErr "handler-ptr:by_insert_order"
            pure (ForInStep.yield r)
          | some h => do
            let a ← r.registerHandler h
            pure (ForInStep.yield a))
      modify fun w => { w with archs := w.archs.insert r }
      pure w0.archs.vacantKey : M Nat) := by
    intro a0 hl hr
    rw [bind_assoc]
    refine Keeps.get_bind fun w1 hw1 => ?_
    have hord : w1.byInsertOrder = fr.byInsertOrder := congrArg Frame.byInsertOrder hw1.1
    rw [hord]
    refine keeps_forIn_prefix (fun pre a => ArchListsOK pre Hc fr.tevs a) fr.byInsertOrder
      (fun pre hk suf b hp hJ => ⟨by keeps, ?_⟩) (fun b hb => ?_) fr.byInsertOrder [] a0 rfl
      (archListsOK_nil Hc fr.tevs hl hr)
    · -- one registration
      refine HoareOk.get_bind fun w hw => ?_
      cases hg : w.handlers.get hk with
      | none => exact HoareOk.bind (R := fun _ _ => False) (HoareOk.ubErr _) fun _ => ⟨fun _ h => h.elim⟩
      | some h =>
        dsimp only
        refine HoareOk.bind (R := fun a' _ => a' = b.registerPure h) ⟨fun w2 _ a' w3 hrun => ?_⟩ fun a' => ?_
        · exact (registerHandler_ok hrun).1
        · refine HoareOk.pure fun w2 ha' => ⟨a', rfl, ?_⟩
          subst ha'
          have hgc : Hc.get hk = some h.core := by
            rw [← hw.2.1, SlotMap.get_mapVal, hg]; rfl
          obtain ⟨e1, e2, e3⟩ := ctx.entry hk h.core hgc
          have hnd := ctx.nodup
          rw [← hp] at hnd
          have hnot : hk ∉ pre := fun hm =>
            (List.nodup_append.1 hnd).2.2 hk hm hk List.mem_cons_self rfl
          exact archListsOK_register (h := h.core) hJ ctx.wfT ctx.small hnot hgc e1 e2 e3
    · -- the insertion into the slab
      refine Keeps.bind (Keeps.modify fun w hw => ⟨hw.1, hw.2.1, fun i c hc => ?_⟩) fun _ => Keeps.pure _
      have hc' : (w.archs.insert b).get i = some c := hc
      rcases Slab.get_insert_cases hc' with rfl | hc''
      · exact hb
      · exact hw.2.2 i c hc''
  split <;> split <;> exact hloop _ rfl rfl

theorem traverseInsert_li (ctx : RegCtx fr Hc) (src c : Nat) : Keeps (LI fr Hc) (traverseInsert src c) := by
  unfold traverseInsert
  refine Keeps.get_bind fun _ _ => ?_
  refine Keeps.bind (dbgAssert_li _ _) fun _ => ?_
  refine getArch_li_bind fun sa hsa => ?_
  split
  · exact Keeps.pure _
  · split
    · exact Keeps.pure _
    · dsimp only
      refine Keeps.get_bind fun _ _ => ?_
      split
      · exact Keeps.bind (setArch_li (archListsOK_same hsa rfl rfl rfl)) fun _ => Keeps.pure _
      · refine Keeps.bind (newArch_li ctx _ _ _) fun d => ?_
        refine getArch_li_bind fun sa2 hsa2 => ?_
        exact Keeps.bind (setArch_li (archListsOK_same hsa2 rfl rfl rfl)) fun _ => Keeps.pure _

theorem traverseRemove_li (ctx : RegCtx fr Hc) (src c : Nat) : Keeps (LI fr Hc) (traverseRemove src c) := by
  unfold traverseRemove
  refine getArch_li_bind fun sa hsa => ?_
  split
  · exact Keeps.pure _
  · split
    · exact Keeps.pure _
    · dsimp only
      refine Keeps.get_bind fun _ _ => ?_
      split
      · exact Keeps.bind (setArch_li (archListsOK_same hsa rfl rfl rfl)) fun _ => Keeps.pure _
      · refine Keeps.bind (newArch_li ctx _ _ _) fun d => ?_
        refine getArch_li_bind fun sa2 hsa2 => ?_
        exact Keeps.bind (setArch_li (archListsOK_same hsa2 rfl rfl rfl)) fun _ => Keeps.pure _

/-! ### from `ListsInv` to the section A invariant and back -/

theorem li_of_listsInv {w : World} (h : ListsInv w) : LI w.frame (w.handlers.mapVal HInfo.core) w :=
  ⟨rfl, rfl, fun i a ha => archListsOK_congr (h.arch i a ha) (CoreEqOn.mapVal _ _) rfl rfl rfl⟩

theorem listsInv_of_li {w w' : World} (h : ListsInv w) (h' : LI w.frame (w.handlers.mapVal HInfo.core) w') :
    ListsInv w' := by
  obtain ⟨h1, h2, h3⟩ := h'
  have e1 : w'.byGlobal = w.byGlobal := congrArg Frame.byGlobal h1
  have e2 : w'.byInsertOrder = w.byInsertOrder := congrArg Frame.byInsertOrder h1
  have e3 : w'.insertCounter = w.insertCounter := congrArg Frame.insertCounter h1
  have e4 : w'.gevs = w.gevs := congrArg Frame.gevs h1
  have e5 : w'.tevs = w.tevs := congrArg Frame.tevs h1
  show ListsInv' w'.handlers w'.byGlobal w'.byInsertOrder w'.insertCounter w'.archs w'.gevs w'.tevs
  rw [e1, e2, e3, e4, e5]
  refine listsInv'_congr h h2 fun i a' hi => ?_
  have := h3 i a' hi
  refine archListsOK_congr this ?_ rfl rfl rfl
  rw [← h2]
  exact (CoreEqOn.mapVal _ w'.handlers).symm

theorem regCtx_of_winv {w : World} (h : WInv w) : RegCtx w.frame (w.handlers.mapVal HInfo.core) := by
  refine ⟨h.lists.ordNodup, h.tevsWF, h.small.2, fun k hc hg => ?_⟩
  rw [SlotMap.get_mapVal] at hg
  cases hg0 : w.handlers.get k with
  | none => rw [hg0] at hg; cases hg
  | some h0 =>
    rw [hg0] at hg
    simp only [Option.map_some, Option.some.injEq] at hg
    subst hg
    have hok := h.lists.handler k h0 hg0
    have hrf := h.registry.handlerRefs k h0 hg0
    refine ⟨hok.key, hok.recvIdx, fun ht => ?_⟩
    obtain ⟨info, hi, -⟩ := hrf.recvT ht
    exact ⟨info, hi⟩

/-- **from the section A invariant to the obligation shape** -/
theorem keepsG_lists_of_li {α : Type} {m : M α} (hmono : SlabMono m)
    (h : ∀ w, WInvMid w → Keeps (LI w.frame (w.handlers.mapVal HInfo.core)) m) : KeepsG ListsInv m :=
  KeepsG.of_run hmono fun w hw r w' hr _ => by
    have := (h w hw).run w (li_of_listsInv hw.lists)
    rw [hr] at this
    have := listsInv_of_li hw.lists this
    cases r with
    | ok a => exact this
    | error e => exact fun _ => this

end InvV3

/-! ### section A -/
open InvV3

theorem reserve_keeps_lists : Obl.reserve_keeps .lists :=
  keepsG_lists_of_li (fun _ => reserve_sl) fun _ _ => reserve_li

theorem bumpCell_keeps_lists : Obl.bumpCell_keeps .lists := fun ai row c =>
  keepsG_lists_of_li (fun _ => bumpCell_sl ai row c) fun _ _ => bumpCell_li ai row c

theorem spawnAll_keeps_lists : Obl.spawnAll_keeps .lists :=
  keepsG_lists_of_li (fun _ => spawnAll_sl) fun _ _ => spawnAll_li

theorem moveEntity_keeps_lists : Obl.moveEntity_keeps .lists := fun src dst new =>
  keepsG_lists_of_li (fun _ => moveEntity_sl src dst new) fun _ _ => moveEntity_li src dst new

theorem removeEntity_keeps_lists : Obl.removeEntity_keeps .lists := fun loc =>
  keepsG_lists_of_li (fun _ => removeEntity_sl loc) fun _ _ => removeEntity_li loc

theorem traverseInsert_keeps_lists : Obl.traverseInsert_keeps .lists := fun src c =>
  keepsG_lists_of_li (fun _ => traverseInsert_sl src c) fun _ hw => traverseInsert_li (regCtx_of_winv hw.1) src c

theorem traverseRemove_keeps_lists : Obl.traverseRemove_keeps .lists := fun src c =>
  keepsG_lists_of_li (fun _ => traverseRemove_sl src c) fun _ hw => traverseRemove_li (regCtx_of_winv hw.1) src c

end Evenio
