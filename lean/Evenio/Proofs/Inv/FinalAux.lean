import Evenio.Proofs.Inv.Final
import Evenio.Proofs.Inv.CompIdV7
/-! The auxiliary invariant, concretely: `CompIdInv ∧ TevTyped` (both proved in this copy to be kept by every
    operation on every exit).  With it the final theorems depend on `Pieces` / `ExecPieces` only.
    (`InvV7.CompIdInv` is the same predicate as V1's `CompIdInv` of `Inv/CompId.lean`; after the merge either layer can
    be used: `aux_of` takes the facts in run form.) -/
namespace Evenio
open InvV7

theorem InvV7.run_of_keeps {α : Type} {I : World → Prop} {m : M α} (h : Keeps I m) :
    ∀ w r w', I w → m.run.run w = (r, w') → I w' := fun w r w' hw hr => by
  have := h.run w hw
  rw [hr] at this
  exact this

theorem InvV7.compIdFacts : CompIdFacts CompIdInv where
  init := compIdInv_init
  compId := fun _ h => h
  frame := fun w w' hc h => compIdInv_frame w w' hc h
  execOp := fun op => run_of_keeps (execOp_cid op)
  sendGlobal := fun ty pay => run_of_keeps (sendGlobal_cid ty pay)
  addTargetedEvent := fun ty => run_of_keeps (addTargetedEvent_cid ty)
  flush := fun fuel => run_of_keeps (flush_cid fuel)
  removeHandler := fun k => run_of_keeps (removeHandler_cid k)
  removeEvent := fun ty k => run_of_keeps (removeEvent_cid ty k)

/-- **the auxiliary invariant** -/
def AuxInv (w : World) : Prop := CompIdInv w ∧ TevTyped w

theorem auxInv : Aux AuxInv := aux_of InvV7.compIdFacts

/-- **`Obl.reachable_WInv`** from the piece obligations alone -/
theorem reachable_WInv_of_pieces (P : Pieces) : Obl.reachable_WInv := reachable_WInv_of P auxInv

/-- **`Obl.reachable_InvPlus`** from the piece obligations and the `ExecLeft` facts alone -/
theorem reachable_InvPlus_of_pieces (P : Pieces) (E : ExecPieces) : Obl.reachable_InvPlus :=
  reachable_InvPlus_of P E auxInv

/-- **`Obl.step_keeps_InvPlus`** with the extra hypothesis `CompIdInv w ∧ TevTyped w` -/
theorem step_keeps_InvPlus_of_pieces (P : Pieces) (E : ExecPieces) (w : World) (op : Op) (hW : WInv w)
    (hQ : Quiescent w) (hA : CompIdInv w ∧ TevTyped w) (hv : op.Valid) (hok : StepOk w op)
    (hs : Small (step w op).1) : (step w op).1.InvPlus = true :=
  step_keeps_InvPlus_partial P E auxInv w op hW hQ hA hv hok hs

/-- **`Obl.execOp_keeps_WInv`**, strongest true variant, with the concrete auxiliary invariant -/
theorem execOp_keeps_WInv_of_pieces (P : Pieces) (op : Op) (hv : op.Valid) :
    Hoare (GQA AuxInv) (execOp op) (fun _ => GQA AuxInv)
      (fun e w => e.isPanic = true →
        Guarded (fun w => WInvMid w ∧ AuxInv w ∧ (e ≠ .panic "model:fuel" → w.queue = [])) w) :=
  execOp_keeps_WInv_partial P auxInv op hv

/-! ### the obligations closed exactly as stated -/
example (P : Pieces) : Obl.glue_addTargetedEvent := P.glue_addTargetedEvent
example (P : Pieces) : Obl.glue_addEvent := P.glue_addEvent
example (P : Pieces) : Obl.glue_sendTargeted := P.glue_sendTargeted
example (P : Pieces) : Obl.glue_initQuery := P.glue_initQuery
example (P : Pieces) : Obl.glue_initParam := P.glue_initParam
example (P : Pieces) : Obl.glue_addHandler := P.glue_addHandler
example (P : Pieces) : Obl.glue_removeHandler := P.glue_removeHandler
example (P : Pieces) : Obl.reachable_WInv := reachable_WInv_of_pieces P
example (P : Pieces) (E : ExecPieces) : Obl.reachable_InvPlus := reachable_InvPlus_of_pieces P E

end Evenio
