import Evenio.Proofs.Inv.ListsE
/-! # Section E, the reference half: what `initParam` resolved is live in the world it returns in -/
namespace Evenio
namespace InvV3
open Obl (Grows ConfigRel)

/-- the event type `ev` is registered under the key `k` -/
def EvLive (w : World) (ev : EvTy) (k : Key) : Prop :=
  if ev.targeted then ∃ ei, w.tevs.get k = some ei ∧ ei.ty = ev else ∃ ei, w.gevs.get k = some ei ∧ ei.ty = ev

/-- … under the index `i` -/
def IdxLive (w : World) (ev : EvTy) (i : Nat) : Prop :=
  if ev.targeted then ∃ k info, w.tevs.getByIndex i = some (k, info) ∧ info.ty = ev
  else ∃ k info, w.gevs.getByIndex i = some (k, info) ∧ info.ty = ev

/-- the reference half of `ConfigRel` -/
structure ConfigRefs (w : World) (cfg : Config) : Prop where
  referenced : ∀ c ∈ cfg.referenced, (w.comps.getByIndex c).isSome = true
  recv : ∀ ty k, cfg.recvEv = some (some (ty, k)) → EvLive w ty k
  sentG : ∀ i ∈ cfg.sentG, (w.gevs.getByIndex i).isSome = true
  sentT : ∀ i ∈ cfg.sentT, (w.tevs.getByIndex i).isSome = true
  sendsG : ∀ ev i, (ev, i) ∈ cfg.sends → ev.targeted = false → i ∈ cfg.sentG ∧ IdxLive w ev i
  sendsT : ∀ ev i, (ev, i) ∈ cfg.sends → ev.targeted = true → i ∈ cfg.sentT ∧ IdxLive w ev i

/-- a property of worlds that survives growth of the registries -/
def Mono (Φ : World → Prop) : Prop := ∀ w1 w2, Φ w1 → Grows w1 w2 → RegInv [] w2 → Φ w2

theorem mono_and {Φ Ψ : World → Prop} (h1 : Mono Φ) (h2 : Mono Ψ) : Mono fun w => Φ w ∧ Ψ w :=
  fun w1 w2 h hg hr => ⟨h1 w1 w2 h.1 hg hr, h2 w1 w2 h.2 hg hr⟩

theorem mono_compLive (c : Nat) : Mono fun w => (w.comps.getByIndex c).isSome = true := by
  intro w1 w2 h hg hr
  obtain ⟨⟨k, ci⟩, hgi⟩ := Option.isSome_iff_exists.1 h
  obtain ⟨h1, hidx⟩ := SlotMap.getByIndex_get hgi
  obtain ⟨ci', h2, -⟩ := hg.1 k ci h1
  rw [← hidx, SlotMap.get_getByIndex hr.wfc h2]
  rfl

theorem gev_byIndex_mono {w1 w2 : World} (hg : Grows w1 w2) (hr : RegInv [] w2) {i : Nat} {k : Key} {info : EvInfo}
    (h : w1.gevs.getByIndex i = some (k, info)) : w2.gevs.getByIndex i = some (k, info) := by
  obtain ⟨h1, hidx⟩ := SlotMap.getByIndex_get h
  rw [← hidx]
  exact SlotMap.get_getByIndex hr.wfg (hg.2.1 k info h1)

theorem tev_byIndex_mono {w1 w2 : World} (hg : Grows w1 w2) (hr : RegInv [] w2) {i : Nat} {k : Key} {info : EvInfo}
    (h : w1.tevs.getByIndex i = some (k, info)) : w2.tevs.getByIndex i = some (k, info) := by
  obtain ⟨h1, hidx⟩ := SlotMap.getByIndex_get h
  rw [← hidx]
  exact SlotMap.get_getByIndex hr.wft (hg.2.2 k info h1)

theorem mono_gevLive (i : Nat) : Mono fun w => (w.gevs.getByIndex i).isSome = true := by
  intro w1 w2 h hg hr
  obtain ⟨⟨k, ci⟩, hgi⟩ := Option.isSome_iff_exists.1 h
  rw [gev_byIndex_mono hg hr hgi]
  rfl

theorem mono_tevLive (i : Nat) : Mono fun w => (w.tevs.getByIndex i).isSome = true := by
  intro w1 w2 h hg hr
  obtain ⟨⟨k, ci⟩, hgi⟩ := Option.isSome_iff_exists.1 h
  rw [tev_byIndex_mono hg hr hgi]
  rfl

theorem mono_evLive (ev : EvTy) (k : Key) : Mono fun w => EvLive w ev k := by
  intro w1 w2 h hg hr
  unfold EvLive at h ⊢
  split
  · next ht =>
    rw [if_pos ht] at h
    obtain ⟨ei, h1, h2⟩ := h
    exact ⟨ei, hg.2.2 k ei h1, h2⟩
  · next ht =>
    rw [if_neg ht] at h
    obtain ⟨ei, h1, h2⟩ := h
    exact ⟨ei, hg.2.1 k ei h1, h2⟩

theorem mono_idxLive (ev : EvTy) (i : Nat) : Mono fun w => IdxLive w ev i := by
  intro w1 w2 h hg hr
  unfold IdxLive at h ⊢
  split
  · next ht =>
    rw [if_pos ht] at h
    obtain ⟨k, info, h1, h2⟩ := h
    exact ⟨k, info, tev_byIndex_mono hg hr h1, h2⟩
  · next ht =>
    rw [if_neg ht] at h
    obtain ⟨k, info, h1, h2⟩ := h
    exact ⟨k, info, gev_byIndex_mono hg hr h1, h2⟩

theorem mono_configRefs (cfg : Config) : Mono fun w => ConfigRefs w cfg := by
  intro w1 w2 h hg hr
  exact ⟨fun c hc => mono_compLive c w1 w2 (h.referenced c hc) hg hr,
    fun ty k hk => mono_evLive ty k w1 w2 (h.recv ty k hk) hg hr,
    fun i hi => mono_gevLive i w1 w2 (h.sentG i hi) hg hr,
    fun i hi => mono_tevLive i w1 w2 (h.sentT i hi) hg hr,
    fun ev i hm ht => ⟨(h.sendsG ev i hm ht).1, mono_idxLive ev i w1 w2 (h.sendsG ev i hm ht).2 hg hr⟩,
    fun ev i hm ht => ⟨(h.sendsT ev i hm ht).1, mono_idxLive ev i w1 w2 (h.sendsT ev i hm ht).2 hg hr⟩⟩

theorem mono_forall {ι : Type} {Φ : ι → World → Prop} (h : ∀ x, Mono (Φ x)) : Mono fun w => ∀ x, Φ x w :=
  fun w1 w2 hw hg hr x => h x w1 w2 (hw x) hg hr

theorem mono_imp {C : Prop} {Φ : World → Prop} (h : Mono Φ) : Mono fun w => C → Φ w :=
  fun w1 w2 hw hg hr hc => h w1 w2 (hw hc) hg hr

/-- the key of a live event is live by index -/
theorem EvLive.idx {w : World} {ev : EvTy} {k : Key} (h : EvLive w ev k) (hr : RegInv [] w) : IdxLive w ev k.idx := by
  unfold EvLive at h
  unfold IdxLive
  split
  · next ht =>
    rw [if_pos ht] at h
    obtain ⟨ei, h1, h2⟩ := h
    exact ⟨k, ei, SlotMap.get_getByIndex hr.wft h1, h2⟩
  · next ht =>
    rw [if_neg ht] at h
    obtain ⟨ei, h1, h2⟩ := h
    exact ⟨k, ei, SlotMap.get_getByIndex hr.wfg h1, h2⟩

/-- **a step that only lets the registries grow keeps every monotone property**, and establishes what it
    establishes from well-formed registries -/
theorem hoareOk_mono_step {α : Type} {m : M α} (hm : ∀ w0, Keeps (GRI w0) m) {Φ : World → Prop} (hΦ : Mono Φ)
    {Q : α → World → Prop} (hQ : HoareOk (RegInv []) m Q) :
    HoareOk (fun w1 => RegInv [] w1 ∧ Φ w1) m (fun a w2 => (RegInv [] w2 ∧ Φ w2) ∧ Q a w2) := by
  refine ⟨fun w1 hw1 a w2 hr => ?_⟩
  have := (hm w1).run w1 ⟨hw1.1, grows_refl w1⟩
  rw [hr] at this
  exact ⟨⟨this.1, hΦ w1 w2 hw1.2 this.2 this.1⟩, hQ.run w1 hw1.1 a w2 hr⟩

theorem addComponent_live (ty : Nat) :
    HoareOk (RegInv []) (addComponent ty) (fun k w' => ∃ ci, w'.comps.get k = some ci ∧ ci.ty = ty) :=
  ⟨fun _ hw _ _ hr => addComponent_live_run hw hr⟩

theorem addGlobalEvent_live (ty : EvTy) :
    HoareOk (RegInv []) (addGlobalEvent ty) (fun k w' => ∃ ei, w'.gevs.get k = some ei ∧ ei.ty = ty) :=
  ⟨fun _ hw _ _ hr => addGlobalEvent_live_run hw hr⟩

theorem addEvent_live (ty : EvTy) : HoareOk (RegInv []) (addEvent ty) (fun k w' => EvLive w' ty k) := by
  unfold addEvent EvLive
  split
  · exact addTargetedEvent_live ty
  · exact addGlobalEvent_live ty

theorem addEvent_gri' (ty : EvTy) (w0 : World) : Keeps (GRI w0) (addEvent ty) := by
  unfold addEvent
  split
  · exact addTargetedEvent_gri ty
  · exact addGlobalEvent_gri ty

/-- `Q::init`: the components it registers are live when it returns -/
theorem initQuery_refs {Φ : World → Prop} (hΦ : Mono Φ) (q : Query) (cfg : Config) :
    HoareOk (fun w1 => (RegInv [] w1 ∧ Φ w1) ∧ ∀ c ∈ cfg.referenced, (w1.comps.getByIndex c).isSome = true)
      (initQuery q cfg)
      (fun r w2 => (RegInv [] w2 ∧ Φ w2) ∧ r.2.1 = r.1.init ∧ ∃ refs, r.2.2 = { cfg with referenced := refs } ∧
        ∀ c ∈ refs, (w2.comps.getByIndex c).isSome = true) := by
  unfold initQuery
  refine HoareOk.bind (R := fun b w1 => (RegInv [] w1 ∧ Φ w1) ∧ ∃ refs, b = { cfg with referenced := refs } ∧
    ∀ c ∈ refs, (w1.comps.getByIndex c).isSome = true) ?_ fun b => ?_
  · refine HoareOk.pre (HoareOk.forIn_list (fun b w1 => (RegInv [] w1 ∧ Φ w1) ∧
      ∃ refs, b = { cfg with referenced := refs } ∧ ∀ c ∈ refs, (w1.comps.getByIndex c).isSome = true)
      fun c b => ⟨fun w1 hw1 r w2 hr => ?_⟩) fun w1 hw1 => ⟨hw1.1, cfg.referenced, rfl, hw1.2⟩
    obtain ⟨hri, refs, rfl, hrefs⟩ := hw1
    obtain ⟨k, w1', h1, h2⟩ := run_bind_ok hr
    have hmono : Mono fun w => Φ w ∧ ∀ c ∈ refs, (w.comps.getByIndex c).isSome = true :=
      mono_and hΦ (mono_forall fun c => mono_imp (mono_compLive c))
    obtain ⟨⟨hri', hΦ', hrefs'⟩, ci, hci, -⟩ :=
      (hoareOk_mono_step (fun w0 => addComponent_gri (w0 := w0) c) hmono (addComponent_live c)).run w1
        ⟨hri.1, hri.2, hrefs⟩ k w1' h1
    cases h2
    refine ⟨⟨hri', hΦ'⟩, sortedInsert refs k.idx, rfl, fun c' hc' => ?_⟩
    rcases (mem_insertSorted refs k.idx c').1 hc' with rfl | hc'
    · rw [SlotMap.get_getByIndex hri'.wfc hci]
      rfl
    · exact hrefs' c' hc'
  · refine ⟨fun w1 hw1 r w2 hr => ?_⟩
    rw [run_bind, run_get] at hr
    cases hr
    exact ⟨hw1.1, rfl, hw1.2⟩

/-- a configuration that differs from `cfg` in fields the reference half does not read, with `referenced` replaced -/
theorem configRefs_of_fields {w : World} {cfg cfg' : Config} (h : ConfigRefs w cfg)
    (hrefs : ∀ c ∈ cfg'.referenced, (w.comps.getByIndex c).isSome = true)
    (hrecv : ∀ ty k, cfg'.recvEv = some (some (ty, k)) → EvLive w ty k)
    (e1 : cfg'.sentG = cfg.sentG) (e2 : cfg'.sentT = cfg.sentT) (e3 : cfg'.sends = cfg.sends) : ConfigRefs w cfg' :=
  ⟨hrefs, hrecv, e1 ▸ h.sentG, e2 ▸ h.sentT, by rw [e1, e3]; exact h.sendsG, by rw [e2, e3]; exact h.sendsT⟩

/-- the fetcher-like parameters: `Q::init`, then a configuration that only differs in `accesses` -/
theorem initQuery_then_refs {w : World} {q : Query} {cfg : Config} (hri : RegInv [] w) (hc : ConfigRefs w cfg)
    {r : Query × CA × Config} {w' : World} (hr : (initQuery q cfg).run.run w = (.ok r, w')) :
    RegInv [] w' ∧ ConfigRefs w' cfg ∧ ∃ refs, r.2.2 = { cfg with referenced := refs } ∧
      ∀ c ∈ refs, (w'.comps.getByIndex c).isSome = true := by
  obtain ⟨⟨h1, h2⟩, -, refs, h3, h4⟩ := (initQuery_refs (mono_configRefs cfg) q cfg).run w ⟨⟨hri, hc⟩, hc.referenced⟩
    r w' hr
  exact ⟨h1, h2, refs, h3, h4⟩

theorem initParam_refs_fetch {w : World} {q : Query} {cfg : Config} (hri : RegInv [] w) (hc : ConfigRefs w cfg)
    {r : Query × CA × Config} {w' : World} (hr : (initQuery q cfg).run.run w = (.ok r, w')) (acc : List CA) :
    ConfigRefs w' { r.2.2 with accesses := acc } := by
  obtain ⟨-, h2, refs, h3, h4⟩ := initQuery_then_refs hri hc hr
  rw [h3]
  exact configRefs_of_fields h2 h4 h2.recv rfl rfl rfl

/-- the first loop of `Sender::init`: every event type is registered -/
theorem sndLoop1 (cfg : Config) (evs : List EvTy) :
    HoareOk (fun w1 => (RegInv [] w1 ∧ ConfigRefs w1 cfg) ∧ ∀ p ∈ ([] : List (EvTy × Nat)), IdxLive w1 p.1 p.2)
      (forIn evs ([] : List (EvTy × Nat)) fun ev s => do
        let k ← addEvent ev
        pure (ForInStep.yield (s ++ [(ev, k.idx)])))
      (fun idxs w1 => (RegInv [] w1 ∧ ConfigRefs w1 cfg) ∧ ∀ p ∈ idxs, IdxLive w1 p.1 p.2) := by
  refine HoareOk.forIn_list (fun (idxs : List (EvTy × Nat)) w1 =>
      (RegInv [] w1 ∧ ConfigRefs w1 cfg) ∧ ∀ p ∈ idxs, IdxLive w1 p.1 p.2)
    fun ev idxs => ⟨fun w1 hw1 r w2 hr => ?_⟩
  obtain ⟨k, w1', h1, h2⟩ := run_bind_ok hr
  have hmono : Mono fun w => ConfigRefs w cfg ∧ ∀ p ∈ idxs, IdxLive w p.1 p.2 :=
    mono_and (mono_configRefs cfg) (mono_forall fun p => mono_imp (mono_idxLive p.1 p.2))
  obtain ⟨⟨ri', cr', hidx'⟩, hlive⟩ := (hoareOk_mono_step (fun w0 => addEvent_gri' ev w0) hmono
    (addEvent_live ev)).run w1 ⟨hw1.1.1, hw1.1.2, hw1.2⟩ k w1' h1
  cases h2
  refine ⟨⟨ri', cr'⟩, fun p hp => ?_⟩
  rcases List.mem_append.1 hp with hp | hp
  · exact hidx' p hp
  · rw [List.mem_singleton] at hp
    subst hp
    exact hlive.idx ri'

/-- the loop with value: the invariant is indexed by the processed prefix -/
theorem hoareOk_forIn_prefix2 {β γ : Type} {f : γ → β → M (ForInStep β)} (J : List γ → β → World → Prop)
    (full : List γ)
    (hstep : ∀ pre x suf b, pre ++ x :: suf = full →
      HoareOk (J pre b) (f x b) (fun r w => ∃ b', r = .yield b' ∧ J (pre ++ [x]) b' w)) :
    ∀ (l pre : List γ) (b : β), pre ++ l = full → HoareOk (J pre b) (forIn l b f) (fun b' w => J full b' w) := by
  intro l
  induction l with
  | nil =>
    intro pre b hp
    rw [List.append_nil] at hp
    subst hp
    exact HoareOk.pure fun _ h => h
  | cons x l ih =>
    intro pre b hp
    rw [List.forIn_cons]
    refine HoareOk.bind (hstep pre x l b hp) fun r => ?_
    refine ⟨fun w hw c w' hrun => ?_⟩
    obtain ⟨b', rfl, hJ⟩ := hw
    exact (ih (pre ++ [x]) b' (by rw [List.append_assoc]; exact hp)).run w hJ c w' hrun

/-- the second loop of `Sender::init`: the sent sets -/
theorem sndLoop2 (cfg : Config) (w1 : World) (full : List (EvTy × Nat)) :
    ∀ (l pre : List (EvTy × Nat)) (b : Config), pre ++ l = full →
    HoareOk (fun w => w = w1 ∧ b.sends = cfg.sends ∧ b.referenced = cfg.referenced ∧ b.recvEv = cfg.recvEv ∧
        (∀ i, i ∈ b.sentT ↔ i ∈ cfg.sentT ∨ ∃ ev, (ev, i) ∈ pre ∧ ev.targeted = true) ∧
        (∀ i, i ∈ b.sentG ↔ i ∈ cfg.sentG ∨ ∃ ev, (ev, i) ∈ pre ∧ ev.targeted = false))
      (forIn l b fun x s =>
        if x.fst.targeted = true then
          (pure (ForInStep.yield { s with sentT := sortedInsert s.sentT x.snd }) : M (ForInStep Config))
        else pure (ForInStep.yield { s with sentG := sortedInsert s.sentG x.snd }))
      (fun b' w => w = w1 ∧ b'.sends = cfg.sends ∧ b'.referenced = cfg.referenced ∧ b'.recvEv = cfg.recvEv ∧
        (∀ i, i ∈ b'.sentT ↔ i ∈ cfg.sentT ∨ ∃ ev, (ev, i) ∈ full ∧ ev.targeted = true) ∧
        (∀ i, i ∈ b'.sentG ↔ i ∈ cfg.sentG ∨ ∃ ev, (ev, i) ∈ full ∧ ev.targeted = false)) := by
  refine hoareOk_forIn_prefix2 (fun pre (b : Config) w => w = w1 ∧ b.sends = cfg.sends ∧ b.referenced = cfg.referenced ∧
      b.recvEv = cfg.recvEv ∧
      (∀ i, i ∈ b.sentT ↔ i ∈ cfg.sentT ∨ ∃ ev, (ev, i) ∈ pre ∧ ev.targeted = true) ∧
      (∀ i, i ∈ b.sentG ↔ i ∈ cfg.sentG ∨ ∃ ev, (ev, i) ∈ pre ∧ ev.targeted = false)) full
    fun pre x suf b _ => ⟨fun w hw r w' hr => ?_⟩
  obtain ⟨ev, j⟩ := x
  obtain ⟨rfl, e1, e2, e3, hT, hG⟩ := hw
  dsimp only at hr
  split at hr
  · next ht =>
    cases hr
    refine ⟨_, rfl, rfl, e1, e2, e3, fun i => ?_, fun i => ?_⟩
    · show i ∈ insertSorted b.sentT j ↔ _
      rw [mem_insertSorted, hT i]
      simp only [List.mem_append, List.mem_singleton, Prod.mk.injEq]
      constructor
      · rintro (rfl | h | ⟨ev', hm, ht'⟩)
        · exact .inr ⟨ev, .inr ⟨rfl, rfl⟩, ht⟩
        · exact .inl h
        · exact .inr ⟨ev', .inl hm, ht'⟩
      · rintro (h | ⟨ev', hm | ⟨-, rfl⟩, ht'⟩)
        · exact .inr (.inl h)
        · exact .inr (.inr ⟨ev', hm, ht'⟩)
        · exact .inl rfl
    · rw [hG i]
      simp only [List.mem_append, List.mem_singleton, Prod.mk.injEq]
      constructor
      · rintro (h | ⟨ev', hm, ht'⟩)
        · exact .inl h
        · exact .inr ⟨ev', .inl hm, ht'⟩
      · rintro (h | ⟨ev', hm | ⟨rfl, -⟩, ht'⟩)
        · exact .inl h
        · exact .inr ⟨ev', hm, ht'⟩
        · rw [ht] at ht'; cases ht'
  · next ht =>
    have ht0 : ev.targeted = false := by simpa using ht
    cases hr
    refine ⟨_, rfl, rfl, e1, e2, e3, fun i => ?_, fun i => ?_⟩
    · rw [hT i]
      simp only [List.mem_append, List.mem_singleton, Prod.mk.injEq]
      constructor
      · rintro (h | ⟨ev', hm, ht'⟩)
        · exact .inl h
        · exact .inr ⟨ev', .inl hm, ht'⟩
      · rintro (h | ⟨ev', hm | ⟨rfl, -⟩, ht'⟩)
        · exact .inl h
        · exact .inr ⟨ev', hm, ht'⟩
        · rw [ht0] at ht'; cases ht'
    · show i ∈ insertSorted b.sentG j ↔ _
      rw [mem_insertSorted, hG i]
      simp only [List.mem_append, List.mem_singleton, Prod.mk.injEq]
      constructor
      · rintro (rfl | h | ⟨ev', hm, ht'⟩)
        · exact .inr ⟨ev, .inr ⟨rfl, rfl⟩, ht0⟩
        · exact .inl h
        · exact .inr ⟨ev', .inl hm, ht'⟩
      · rintro (h | ⟨ev', hm | ⟨-, rfl⟩, ht'⟩)
        · exact .inr (.inl h)
        · exact .inr (.inr ⟨ev', hm, ht'⟩)
        · exact .inl rfl

theorem initParam_refs {ps : PSpec} {cfg : Config} {w : World} {p : Param} {cfg' : Config} {w' : World}
    (hri : RegInv [] w) (hc : ConfigRefs w cfg) (hr : (initParam ps cfg).run.run w = (.ok (p, cfg'), w')) :
    ConfigRefs w' cfg' := by
  unfold initParam at hr
  cases ps with
  | recv ev mutable q =>
    dsimp only at hr
    split at hr
    · next ht =>
      obtain ⟨k, w1, h1, h2⟩ := run_bind_ok hr
      obtain ⟨⟨q', ca, cfg1⟩, w2, h3, h4⟩ := run_bind_ok h2
      obtain ⟨⟨ri1, cr1⟩, hlive⟩ := (hoareOk_mono_step (fun w0 => addTargetedEvent_gri (w0 := w0) ev)
        (mono_configRefs cfg) (addTargetedEvent_live ev)).run w ⟨hri, hc⟩ k w1 h1
      have hev : EvLive w1 ev k := by unfold EvLive; rw [if_pos ht]; exact hlive
      obtain ⟨⟨ri2, cr2, hev2⟩, -, refs, hcfg1, hrefs⟩ := (initQuery_refs
        (Φ := fun w => ConfigRefs w cfg ∧ EvLive w ev k) (mono_and (mono_configRefs cfg) (mono_evLive ev k))
        (q.getD .unit) cfg).run w1 ⟨⟨ri1, cr1, hev⟩, cr1.referenced⟩ _ w2 h3
      dsimp only at hcfg1 h4
      subst hcfg1
      cases h4
      refine configRefs_of_fields cr2 hrefs (fun ty k' hk' => ?_) rfl rfl rfl
      obtain ⟨rfl, rfl, -⟩ := (setRecv_cases _ ev k).2 ty k' hk'
      exact hev2
    · next ht =>
      obtain ⟨k, w1, h1, h2⟩ := run_bind_ok hr
      obtain ⟨⟨ri1, cr1⟩, hlive⟩ := (hoareOk_mono_step (fun w0 => addGlobalEvent_gri (w0 := w0) ev)
        (mono_configRefs cfg) (addGlobalEvent_live ev)).run w ⟨hri, hc⟩ k w1 h1
      have hev : EvLive w1 ev k := by unfold EvLive; rw [if_neg ht]; exact hlive
      cases h2
      refine configRefs_of_fields cr1 cr1.referenced (fun ty k' hk' => ?_) rfl rfl rfl
      obtain ⟨rfl, rfl, -⟩ := (setRecv_cases _ ev k).2 ty k' hk'
      exact hev
  | fetch q =>
    obtain ⟨⟨q', ca, cfg1⟩, w2, h3, h4⟩ := run_bind_ok hr
    cases h4
    exact initParam_refs_fetch hri hc h3 _
  | single q =>
    obtain ⟨⟨q', ca, cfg1⟩, w2, h3, h4⟩ := run_bind_ok hr
    cases h4
    exact initParam_refs_fetch hri hc h3 _
  | trySingle q =>
    obtain ⟨⟨q', ca, cfg1⟩, w2, h3, h4⟩ := run_bind_ok hr
    cases h4
    exact initParam_refs_fetch hri hc h3 _
  | snd evs =>
    dsimp only at hr
    obtain ⟨idxs, w1, h1, h2⟩ := run_bind_ok hr
    obtain ⟨cfg2, w2, h3, h4⟩ := run_bind_ok h2
    obtain ⟨⟨ri1, cr1⟩, hidx⟩ := (sndLoop1 cfg evs).run w ⟨⟨hri, hc⟩, by simp⟩ idxs w1 h1
    obtain ⟨rfl, e1, e2, e3, hT, hG⟩ := (sndLoop2 cfg w1 idxs idxs [] cfg rfl).run w1
      ⟨rfl, rfl, rfl, rfl, by simp, by simp⟩ cfg2 w2 h3
    cases h4
    refine ⟨e2 ▸ cr1.referenced, fun ty k hk => cr1.recv ty k (e3 ▸ hk), fun i hi => ?_, fun i hi => ?_,
      fun ev i hm ht => ?_, fun ev i hm ht => ?_⟩
    · rcases (hG i).1 hi with h | ⟨ev, hm, ht⟩
      · exact cr1.sentG i h
      · have := hidx (ev, i) hm
        unfold IdxLive at this
        rw [if_neg (by simp [ht])] at this
        obtain ⟨k, info, hg, -⟩ := this
        rw [hg]; rfl
    · rcases (hT i).1 hi with h | ⟨ev, hm, ht⟩
      · exact cr1.sentT i h
      · have := hidx (ev, i) hm
        unfold IdxLive at this
        rw [if_pos ht] at this
        obtain ⟨k, info, hg, -⟩ := this
        rw [hg]; rfl
    · have hm' : (ev, i) ∈ cfg.sends ∨ (ev, i) ∈ idxs := by
        have : (ev, i) ∈ cfg2.sends ++ idxs := hm
        rw [e1] at this
        exact List.mem_append.1 this
      rcases hm' with h | h
      · exact ⟨(hG i).2 (.inl (cr1.sendsG ev i h ht).1), (cr1.sendsG ev i h ht).2⟩
      · exact ⟨(hG i).2 (.inr ⟨ev, h, ht⟩), hidx (ev, i) h⟩
    · have hm' : (ev, i) ∈ cfg.sends ∨ (ev, i) ∈ idxs := by
        have : (ev, i) ∈ cfg2.sends ++ idxs := hm
        rw [e1] at this
        exact List.mem_append.1 this
      rcases hm' with h | h
      · exact ⟨(hT i).2 (.inl (cr1.sendsT ev i h ht).1), (cr1.sendsT ev i h ht).2⟩
      · exact ⟨(hT i).2 (.inr ⟨ev, h, ht⟩), hidx (ev, i) h⟩
  | ents =>
    cases hr
    exact hc

/-! ### `ConfigRel` = static half + reference half -/

theorem configRefs_of_rel {w : World} {cfg : Config} {params : List Param} (h : ConfigRel w cfg params) :
    ConfigRefs w cfg := by
  refine ⟨h.referenced, h.recv, h.sentG, h.sentT, fun ev i hm ht => ?_, fun ev i hm ht => ?_⟩
  · obtain ⟨h1, h2⟩ := h.sendsG ev i hm ht
    refine ⟨h1, ?_⟩
    unfold IdxLive
    rw [if_neg (by simp [ht])]
    exact h2
  · obtain ⟨h1, h2⟩ := h.sendsT ev i hm ht
    refine ⟨h1, ?_⟩
    unfold IdxLive
    rw [if_pos ht]
    exact h2

theorem configStatic_of_rel {w : World} {cfg : Config} {params : List Param} (h : ConfigRel w cfg params)
    (hm : cfg.recvEv = none → cfg.recvMut = false) : ConfigStatic cfg params :=
  ⟨h.accesses, h.filter, h.caches, h.spawnImm, hm⟩

theorem configRel_of {w : World} {cfg : Config} {params : List Param} (hs : ConfigStatic cfg params)
    (hr : ConfigRefs w cfg) : ConfigRel w cfg params := by
  refine ⟨hs.accesses, hs.filter, hs.caches, hr.referenced, hr.recv, hr.sentG, hr.sentT, fun ev i hm ht => ?_,
    fun ev i hm ht => ?_, hs.spawnImm⟩
  · obtain ⟨h1, h2⟩ := hr.sendsG ev i hm ht
    refine ⟨h1, ?_⟩
    unfold IdxLive at h2
    rw [if_neg (by simp [ht])] at h2
    exact h2
  · obtain ⟨h1, h2⟩ := hr.sendsT ev i hm ht
    refine ⟨h1, ?_⟩
    unfold IdxLive at h2
    rw [if_pos ht] at h2
    exact h2

end InvV3
open InvV3

/-- the conjunct `Obl.ConfigRel` lacks: a configuration without received event is not mutable -/
def ConfigMutNone (cfg : Config) : Prop := cfg.recvEv = none → cfg.recvMut = false

/-- the loop invariant of the parameter loop of `addHandler` holds initially … -/
theorem configRel_init (w : World) : Obl.ConfigRel w {} [] ∧ ConfigMutNone {} := by
  refine ⟨⟨rfl, FilterRel.init, ?_, ?_, ?_, ?_, ?_, ?_, ?_, ?_⟩, fun _ => rfl⟩
  · intro _ h; cases h
  · intro _ h; cases h
  · intro _ _ h; cases h
  · intro _ h; cases h
  · intro _ h; cases h
  · intro _ _ h; cases h
  · intro _ _ h; cases h
  · intro _ h; cases h

/-- … and **is kept by `initParam`** — `Obl.initParam_configRel` with the extra invariant `ConfigMutNone`, without
    which it is false (`cfg := { recvMut := true }`, `ps := .recv .spawn false none`: the configuration returned has
    `recvEv = some (some (.spawn, _))` and `recvMut = true`) -/
theorem initParam_configRel_partial_v3 :
    ∀ (ps : PSpec) (cfg : Config) (params : List Param) (w : World) (p : Param) (cfg' : Config) (w' : World),
      (∀ q, ps ≠ .recv .spawn true q) → WInvMid w → Obl.ConfigRel w cfg params → ConfigMutNone cfg →
      (initParam ps cfg).run.run w = (.ok (p, cfg'), w') →
      Obl.ConfigRel w' cfg' (params ++ [p]) ∧ ConfigMutNone cfg' := by
  intro ps cfg params w p cfg' w' hvalid hw hrel hmut hr
  have hs := initParam_static hvalid (configStatic_of_rel hrel hmut) hr
  have hrefs := initParam_refs hw.1.regInv (configRefs_of_rel hrel) hr
  exact ⟨configRel_of hs hrefs, hs.mutNone⟩

/-- `Obl.initParam_grows` holds from a world with well-formed registries (as stated, without any hypothesis on the
    world, it is not provable: `insertWith` on an ill-formed slot map may overwrite a live entry) -/
theorem initParam_grows_partial_v3 :
    ∀ ps cfg w r w', RegInv [] w → (initParam ps cfg).run.run w = (.ok r, w') → Obl.Grows w w' :=
  fun _ _ _ _ _ hri hr => initParam_grows_of_regInv hri hr

end Evenio
