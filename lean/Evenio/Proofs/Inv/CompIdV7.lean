import Evenio.Proofs.Inv.TevTyped
/-! Every entry of the component registry `comps` carries its own id.  `comps` is written by `addComponent` (one
    `insertWith` of `{ ty, id := k }` under the key `k` the slot map returns), by `removeComponent` (one `remove`), and by
    rewrites of a live entry that leave `id` alone (`insEvents`/`remEvents` in `addTargetedEvent`/`removeEvent`,
    `memberOf` in `newArch`/`archsRemoveComponent`).  One `Keeps` lemma per model function, registered as a LOCAL
    `keeps` leaf, exactly like `Inv/TevTyped.lean`; the event loop goes through `flush_cc`. -/
namespace Evenio
namespace InvV7

/-- every entry of the component registry carries its own id -/
def CompIdInv (w : World) : Prop := ∀ k ci, w.comps.get k = some ci → ci.id = k

theorem compIdInv_init : CompIdInv {} := by
  intro k ci h
  simp [SlotMap.get] at h

theorem compIdInv_frame (w w' : World) (h : w'.comps = w.comps) : CompIdInv w → CompIdInv w' := by
  intro hw k ci hg
  rw [h] at hg
  exact hw k ci hg

/-- rewriting a live entry by one with the same id -/
theorem compIdInv_set {w : World} (hw : CompIdInv w) {ck : Key} {ci ci' : CompInfo}
    (hg : w.comps.get ck = some ci) (hid : ci'.id = ci.id) :
    CompIdInv { w with comps := w.comps.set ck ci' } := by
  intro k' v hg'
  have e : (w.comps.set ck ci').get k' = if k' = ck then some ci' else w.comps.get k' :=
    SlotMap.get_set hg ci' k'
  have hg'' : (if k' = ck then some ci' else w.comps.get k') = some v := e ▸ hg'
  split at hg''
  · next hk =>
    cases hg''
    rw [hid, hk]
    exact hw ck ci hg
  · exact hw k' v hg''

theorem compIdInv_set_byIndex {w : World} (hw : CompIdInv w) {i : Nat} {ck : Key} {ci : CompInfo}
    (hg : w.comps.getByIndex i = some (ck, ci)) {ci' : CompInfo} (hid : ci'.id = ci.id) :
    CompIdInv { w with comps := w.comps.set ck ci' } :=
  compIdInv_set hw (SlotMap.getByIndex_get hg).1 hid

/-- the invariant as a property of the registry up to `memberOf` -/
theorem compIdInv_iff_core (w : World) :
    CompIdInv w ↔ ∀ k ci, w.compsCore.get k = some ci → ci.id = k := by
  unfold CompIdInv World.compsCore
  constructor
  · intro h k ci hg
    rw [SlotMap.get_mapVal] at hg
    cases hc : w.comps.get k with
    | none => rw [hc] at hg; cases hg
    | some c0 =>
      rw [hc] at hg
      cases hg
      exact h k c0 hc
  · intro h k ci hg
    have := h k ci.core (by rw [SlotMap.get_mapVal, hg]; rfl)
    exact this

/-- a flush changes `comps` only in `memberOf` (`flush_cc`) -/
theorem flush_cid (fuel : Nat) : Keeps CompIdInv (flush fuel) :=
  ⟨fun w hw => by
    have h := (Keeps.of_cc (fun c => flush_cc (c := c) fuel)
      (fun sm => ∀ k ci, sm.get k = some ci → ci.id = k)).run w ((compIdInv_iff_core w).1 hw)
    exact (compIdInv_iff_core _).2 h⟩

theorem cid_key_eq {a b : Key} (h1 : a.idx = b.idx) (h2 : a.gen = b.gen) : a = b := by
  cases a; cases b
  dsimp only at h1 h2
  rw [h1, h2]

/-- well-formedness-free: whatever `get` finds after `insertWith` is the new value UNDER THE NEW KEY or was found
    before (`tt_get_insertWith` with the key) -/
theorem cid_get_insertWith {α : Type} {sm sm' : SlotMap α} {f : Key → α} {k : Key}
    (h : sm.insertWith f = some (k, sm')) {k' : Key} {v : α} (hg : sm'.get k' = some v) :
    (k' = k ∧ v = f k) ∨ sm.get k' = some v := by
  unfold SlotMap.insertWith at h
  split at h
  · next s hs =>
    cases h
    unfold SlotMap.get at hg ⊢
    dsimp only at hg
    by_cases hi : k'.idx = sm.nextFree
    · have hlt : sm.nextFree < sm.slots.length := by
        rcases Nat.lt_or_ge sm.nextFree sm.slots.length with h | h
        · exact h
        · rw [List.getElem?_eq_none h] at hs; cases hs
      have hk := hi
      rw [hi, List.getElem?_set_self hlt] at hg
      dsimp only at hg
      split at hg
      · next hgen =>
        cases hg
        exact Or.inl ⟨cid_key_eq hk hgen.symm, rfl⟩
      · cases hg
    · rw [List.getElem?_set_ne (fun e => hi e.symm)] at hg
      exact Or.inr hg
  · next hs =>
    dsimp only at h
    split at h
    · cases h
    · cases h
      unfold SlotMap.get at hg ⊢
      dsimp only at hg
      rcases Nat.lt_or_ge k'.idx sm.slots.length with hlt | hge
      · rw [List.getElem?_append_left hlt] at hg
        exact Or.inr hg
      · rw [List.getElem?_append_right hge] at hg
        by_cases h0 : k'.idx - sm.slots.length = 0
        · rw [h0] at hg
          dsimp only [List.getElem?_cons_zero] at hg
          split at hg
          · next hgen =>
            cases hg
            exact Or.inl ⟨cid_key_eq (by dsimp only; omega) hgen.symm, rfl⟩
          · cases hg
        · obtain ⟨n, hn⟩ := Nat.exists_eq_succ_of_ne_zero h0
          rw [hn] at hg
          simp at hg

/-- closes the goals `keeps` leaves: the writes to `comps` -/
syntax "cidfix" : tactic
local macro_rules | `(tactic| cidfix) => `(tactic| first
  | (refine Keeps.set ?_; first
      | exact compIdInv_set_byIndex ‹CompIdInv _› ‹_› (by rfl)
      | exact compIdInv_set ‹CompIdInv _› ‹_› (by rfl)
      | (have h : CompIdInv _ := ‹CompIdInv _›; intro k' ci' hg'; first
          | (rcases cid_get_insertWith ‹_› hg' with ⟨e1, e2⟩ | e
             · rw [e2, e1]
             · exact h _ _ e)
          | exact h _ _ (tt_get_remove ‹_› hg')))
  | (refine Keeps.modify fun w h => ?_; split <;> exact h))

theorem logT_cid (s : String) : Keeps CompIdInv (logT s) := by unfold logT; keeps
local macro_rules | `(tactic| keeps_leaf) => `(tactic| exact logT_cid _)
theorem ubErr_cid {α : Type} (s : String) : Keeps CompIdInv ((ubErr s : M α)) := by unfold ubErr; keeps
local macro_rules | `(tactic| keeps_leaf) => `(tactic| exact ubErr_cid _)
theorem dbgAssert_cid (c : Bool) (s : String) : Keeps CompIdInv (dbgAssert c s) := by unfold dbgAssert; keeps
local macro_rules | `(tactic| keeps_leaf) => `(tactic| exact dbgAssert_cid _ _)
theorem dropCell_cid (ty : Nat) (c : Cell) : Keeps CompIdInv (dropCell ty c) := by unfold dropCell; keeps
local macro_rules | `(tactic| keeps_leaf) => `(tactic| exact dropCell_cid _ _)
theorem dropCellIdx_cid (ty : Nat) (c : Cell) : Keeps CompIdInv (dropCellIdx ty c) := by unfold dropCellIdx; keeps
local macro_rules | `(tactic| keeps_leaf) => `(tactic| exact dropCellIdx_cid _ _)
theorem dropEvent_cid (it : QItem) : Keeps CompIdInv (dropEvent it) := by unfold dropEvent; keeps
local macro_rules | `(tactic| keeps_leaf) => `(tactic| exact dropEvent_cid _)
theorem handlerRefresh_cid (hk : Key) (a : Arch) : Keeps CompIdInv (handlerRefresh hk a) := by unfold handlerRefresh; keeps
local macro_rules | `(tactic| keeps_leaf) => `(tactic| exact handlerRefresh_cid _ _)
theorem handlerRemoveArch_cid (hk : Key) (a : Arch) : Keeps CompIdInv (handlerRemoveArch hk a) := by unfold handlerRemoveArch; keeps
local macro_rules | `(tactic| keeps_leaf) => `(tactic| exact handlerRemoveArch_cid _ _)
theorem getArch_cid (i : Nat) (s : String) : Keeps CompIdInv (getArch i s) := by unfold getArch; keeps
local macro_rules | `(tactic| keeps_leaf) => `(tactic| exact getArch_cid _ _)
theorem setArch_cid (a : Arch) : Keeps CompIdInv (setArch a) := by unfold setArch; keeps
local macro_rules | `(tactic| keeps_leaf) => `(tactic| exact setArch_cid _)
theorem freshEpoch_cid : Keeps CompIdInv (freshEpoch) := by unfold freshEpoch; keeps
local macro_rules | `(tactic| keeps_leaf) => `(tactic| exact freshEpoch_cid)
theorem freshE_cid : Keeps CompIdInv (freshE) := by unfold freshE; keeps
local macro_rules | `(tactic| keeps_leaf) => `(tactic| exact freshE_cid)
theorem freshC_cid : Keeps CompIdInv (freshC) := by unfold freshC; keeps
local macro_rules | `(tactic| keeps_leaf) => `(tactic| exact freshC_cid)
theorem registerHandler_cid (a : Arch) (h : HInfo) : Keeps CompIdInv (a.registerHandler h) := by unfold Arch.registerHandler; keeps
local macro_rules | `(tactic| keeps_leaf) => `(tactic| exact registerHandler_cid _ _)
theorem reserve_cid : Keeps CompIdInv (reserve) := by unfold reserve; keeps
local macro_rules | `(tactic| keeps_leaf) => `(tactic| exact reserve_cid)
theorem resRefresh_cid : Keeps CompIdInv (resRefresh) := by unfold resRefresh; keeps
local macro_rules | `(tactic| keeps_leaf) => `(tactic| exact resRefresh_cid)
theorem push_cid (it : QItem) : Keeps CompIdInv (push it) := by unfold push; keeps
local macro_rules | `(tactic| keeps_leaf) => `(tactic| exact push_cid _)
theorem assertQueueEmpty_cid : Keeps CompIdInv (assertQueueEmpty) := by unfold assertQueueEmpty; keeps
local macro_rules | `(tactic| keeps_leaf) => `(tactic| exact assertQueueEmpty_cid)
theorem archsRemoveComponent_cid (info : CompInfo) : Keeps CompIdInv (archsRemoveComponent info) := by
  unfold archsRemoveComponent; keeps
  all_goals cidfix
local macro_rules | `(tactic| keeps_leaf) => `(tactic| exact archsRemoveComponent_cid _)

local macro_rules | `(tactic| keeps_leaf) => `(tactic| exact flush_cid _)

theorem ensureAddG_cid : Keeps CompIdInv ensureAddG := by unfold ensureAddG; keeps
local macro_rules | `(tactic| keeps_leaf) => `(tactic| exact ensureAddG_cid)
theorem addGlobalEvent_cid (ty : EvTy) : Keeps CompIdInv (addGlobalEvent ty) := by unfold addGlobalEvent; keeps
local macro_rules | `(tactic| keeps_leaf) => `(tactic| exact addGlobalEvent_cid _)
theorem sendGlobal_cid (ty : EvTy) (pay : Payload) : Keeps CompIdInv (sendGlobal ty pay) := by unfold sendGlobal; keeps
local macro_rules | `(tactic| keeps_leaf) => `(tactic| exact sendGlobal_cid _ _)
theorem addComponent_cid (ty : Nat) : Keeps CompIdInv (addComponent ty) := by
  unfold addComponent; keeps
  all_goals cidfix
local macro_rules | `(tactic| keeps_leaf) => `(tactic| exact addComponent_cid _)
theorem addTargetedEvent_cid (ty : EvTy) : Keeps CompIdInv (addTargetedEvent ty) := by
  unfold addTargetedEvent; keeps
  all_goals cidfix
local macro_rules | `(tactic| keeps_leaf) => `(tactic| exact addTargetedEvent_cid _)
theorem addEvent_cid (ty : EvTy) : Keeps CompIdInv (addEvent ty) := by unfold addEvent; keeps
local macro_rules | `(tactic| keeps_leaf) => `(tactic| exact addEvent_cid _)
theorem sendTargeted_cid (ty : EvTy) (tg : Key) (pay : Payload) : Keeps CompIdInv (sendTargeted ty tg pay) := by
  unfold sendTargeted; keeps
local macro_rules | `(tactic| keeps_leaf) => `(tactic| exact sendTargeted_cid _ _ _)
theorem initQuery_cid (q : Query) (cfg : Config) : Keeps CompIdInv (initQuery q cfg) := by unfold initQuery; keeps
local macro_rules | `(tactic| keeps_leaf) => `(tactic| exact initQuery_cid _ _)
theorem initParam_cid (ps : PSpec) (cfg : Config) : Keeps CompIdInv (initParam ps cfg) := by unfold initParam; keeps
local macro_rules | `(tactic| keeps_leaf) => `(tactic| exact initParam_cid _ _)
theorem addHandler_cid (hs : HSpec) : Keeps CompIdInv (addHandler hs) := by unfold addHandler; keeps
local macro_rules | `(tactic| keeps_leaf) => `(tactic| exact addHandler_cid _)
theorem removeHandler_cid (k : Key) : Keeps CompIdInv (removeHandler k) := by unfold removeHandler; keeps
local macro_rules | `(tactic| keeps_leaf) => `(tactic| exact removeHandler_cid _)
theorem removeEvent_cid (ty : EvTy) (k : Key) : Keeps CompIdInv (removeEvent ty k) := by
  unfold removeEvent; keeps
  all_goals cidfix
local macro_rules | `(tactic| keeps_leaf) => `(tactic| exact removeEvent_cid _ _)
theorem removeComponent_cid (k : Key) : Keeps CompIdInv (removeComponent k) := by
  unfold removeComponent; keeps
  all_goals cidfix
local macro_rules | `(tactic| keeps_leaf) => `(tactic| exact removeComponent_cid _)
theorem opSpawn_cid : Keeps CompIdInv opSpawn := by unfold opSpawn; keeps
local macro_rules | `(tactic| keeps_leaf) => `(tactic| exact opSpawn_cid)

/-- every top-level operation -/
theorem execOp_cid (op : Op) : Keeps CompIdInv (execOp op) := by
  unfold execOp
  cases op <;> keeps

end InvV7
end Evenio
