import Evenio.Proofs.Inv.RemoveComp
import Evenio.Proofs.Inv.TevTyped
/-! # Section F: every top-level operation preserves the invariant; reachable worlds satisfy `InvPlus`

Everything is relative to
* `P : Pieces` — the piece obligations (Inv/Glue2.lean),
* `E : ExecPieces` — the three `ExecLeft` facts (Inv/Exec.lean),
* `X : Aux A` — an auxiliary invariant `A` kept by every operation, providing the two facts about registry entries
  that `WInv` lacks (Inv/RemoveComp.lean); `aux_of` builds it from the `CompIdInv` facts (`CompIdFacts`) and the
  `TevTyped` facts proved in Inv/TevTyped.lean.

Deviations from the statements of `Obligations.lean` (all explained in `REPORT.md`):
* `execOp_keeps_WInv_partial`: the invariant is strengthened by `A`, and after a panic the queue is claimed to be empty
  only if the panic is not the model's own `"model:fuel"`;
* `step_keeps_InvPlus_partial`: extra hypothesis `A w`;
* `reachable_WInv_of`, `reachable_InvPlus_of`: exactly `Obl.reachable_WInv`, `Obl.reachable_InvPlus`. -/
namespace Evenio
open InvV7

/-- the three `ExecLeft` facts -/
structure ExecPieces : Prop where
  count : ∀ w : World, WInv w → w.entities.len = (w.archs.toList.map fun (_, a) => a.ids.length).sum
  slabCheck : ∀ s : Slab Arch, Slab.WF s → s.wfCheck = true
  slotCheck : ∀ {α : Type} (sm : SlotMap α), sm.WF → sm.wfCheck = true

theorem ExecPieces.execLeft (E : ExecPieces) {w : World} (h : WInv w) : ExecLeft w :=
  ⟨E.count w h, E.slabCheck, E.slotCheck⟩

/-! ### the auxiliary invariant, assembled -/

/-- the facts about "registry entries of components carry their own id" (`CompIdInv`), in run form -/
structure CompIdFacts (C : World → Prop) : Prop where
  init : C {}
  compId : ∀ w, C w → ∀ k ci, w.comps.get k = some ci → ci.id = k
  frame : ∀ w w', w'.comps = w.comps → C w → C w'
  execOp : ∀ op w r w', C w → (execOp op).run.run w = (r, w') → C w'
  sendGlobal : ∀ ty pay w r w', C w → (sendGlobal ty pay).run.run w = (r, w') → C w'
  addTargetedEvent : ∀ ty w r w', C w → (addTargetedEvent ty).run.run w = (r, w') → C w'
  flush : ∀ fuel w r w', C w → (flush fuel).run.run w = (r, w') → C w'
  removeHandler : ∀ k w r w', C w → (removeHandler k).run.run w = (r, w') → C w'
  removeEvent : ∀ ty k w r w', C w → (removeEvent ty k).run.run w = (r, w') → C w'

theorem keeps_of_run {α : Type} {I : World → Prop} {m : M α}
    (h : ∀ w r w', I w → m.run.run w = (r, w') → I w') : Keeps I m :=
  ⟨fun w hw => h w _ _ hw rfl⟩

theorem Keeps.and {α : Type} {I1 I2 : World → Prop} {m : M α} (h1 : Keeps I1 m) (h2 : Keeps I2 m) :
    Keeps (fun w => I1 w ∧ I2 w) m :=
  ⟨fun w hw => ⟨h1.run w hw.1, h2.run w hw.2⟩⟩

/-- **the auxiliary invariant** `CompIdInv ∧ TevTyped` -/
theorem aux_of {C : World → Prop} (F : CompIdFacts C) : Aux fun w => C w ∧ TevTyped w where
  init := ⟨F.init, tevTyped_init⟩
  compId := fun w h => F.compId w h.1
  tevTyped := fun _ h => h.2
  frame := fun w w' hc ht h => ⟨F.frame w w' hc h.1, fun k ei hg => h.2 k ei (ht ▸ hg)⟩
  execOp := fun op => (keeps_of_run (F.execOp op)).and (execOp_tt op)
  sendGlobal := fun ty pay => (keeps_of_run (F.sendGlobal ty pay)).and (sendGlobal_tt ty pay)
  addTargetedEvent_despawn := (keeps_of_run (F.addTargetedEvent .despawn)).and (addTargetedEvent_tt .despawn rfl)
  flush := fun fuel => (keeps_of_run (F.flush fuel)).and (flush_tt fuel)
  removeHandler := fun k => (keeps_of_run (F.removeHandler k)).and (removeHandler_tt k)
  removeEvent := fun ty k => (keeps_of_run (F.removeEvent ty k)).and (removeEvent_tt ty k)

/-! ### `execOp` -/

/-- the top-level invariant strengthened by the auxiliary invariant -/
abbrev GQA (A : World → Prop) : World → Prop := Guarded fun w => WInv w ∧ Quiescent w ∧ A w

section
variable (P : Pieces) {A : World → Prop} (X : Aux A)
include P X

/-- `Obl.glue_removeComponent`, strongest true variant: from the strengthened invariant; the queue is empty after a
    panic other than `"model:fuel"` -/
theorem glue_removeComponent_partial (k : Key) :
    Hoare (GQA A) (removeComponent k) (fun _ => GQ)
      (fun e w => e.isPanic = true → Guarded (fun w => WInvMid w ∧ (e ≠ .panic "model:fuel" → w.queue = [])) w) := by
  refine Hoare.unguard (fun _ => removeComponent_sl k) (fun _ => guarded_absorb) (fun e w h hp hs => h hs hp hs)
    fun w0 _ hw0 => ⟨fun w h => ?_⟩
  subst h
  have r1 := (P.topQ_removeComponent X k).run w fun _ => ⟨hw0.1, hw0.2.1, hw0.2.2, trivial⟩
  have r2 := (removeComponent_qe k).run w hw0.2.1.1
  generalize (removeComponent k).run.run w = res at r1 r2
  obtain ⟨(e|a), w'⟩ := res
  · exact fun hp hs => ⟨r1 hp hs, fun hne => r2 hp hne⟩
  · exact r1

/-- `execOp`, the invariant part: from the strengthened invariant to `WInv ∧ Quiescent` (normal return) resp.
    `WInvMid` (panic) -/
theorem execOp_topQ (op : Op) (hv : op.Valid) : Hoare (GQA A) (execOp op) (fun _ => GQ) (PanicOnly GW) := by
  have hGQ : ∀ w, GQA A w → GQ w := fun w h hs => ⟨(h hs).1, (h hs).2.1⟩
  by_cases hne : ∀ k, op ≠ .rmc k
  · exact Hoare.pre (P.topQ_execOp_ne_rmc op hv hne) hGQ
  · obtain ⟨k, rfl⟩ : ∃ k, op = .rmc k := by
      cases op <;> first | exact ⟨_, rfl⟩ | exact (hne (fun _ h => nomatch h)).elim
    unfold execOp
    dsimp only
    refine Hoare.get_bind fun w _ => ?_
    split
    · refine Hoare.bind (R := fun _ => GQ) (Hoare.pre (P.topQ_removeComponent X _) fun w h hs => ?_)
        fun _ => Hoare.pure fun _ h => h
      exact ⟨(h hs).1, (h hs).2.1, (h hs).2.2, trivial⟩
    · exact Hoare.pure hGQ

/-- **`Obl.execOp_keeps_WInv`, strongest true variant**: every valid top-level operation preserves the invariant
    `WInv ∧ Quiescent ∧ A`; a panic ends in a world satisfying `WInvMid ∧ A`, with an empty queue unless the panic is the
    model's own fuel exhaustion -/
theorem execOp_keeps_WInv_partial (op : Op) (hv : op.Valid) :
    Hoare (GQA A) (execOp op) (fun _ => GQA A)
      (fun e w => e.isPanic = true →
        Guarded (fun w => WInvMid w ∧ A w ∧ (e ≠ .panic "model:fuel" → w.queue = [])) w) := by
  have hd : op ≠ .drop := fun h => by subst h; exact hv
  refine Hoare.unguard (fun _ => execOp_sl op hd) (fun _ => guarded_absorb) (fun e w h hp hs => h hs hp hs)
    fun w0 _ hw0 => ⟨fun w h => ?_⟩
  subst h
  have r1 := (execOp_topQ P X op hv).run w fun _ => hw0
  have r2 := (execOp_qe op).run w hw0.2.1.1
  have r3 := (X.execOp op).run w hw0.2.2
  generalize (execOp op).run.run w = res at r1 r2 r3
  obtain ⟨(e|a), w'⟩ := res
  · exact fun hp hs => ⟨r1 hp hs, r3, fun hne => r2 hp hne⟩
  · exact fun hs => ⟨(r1 hs).1, (r1 hs).2, r3⟩

omit X in
/-- `Obl.execOp_keeps_WInv` itself, for every operation other than `rmc`, wherever the fuel does not run out -/
theorem execOp_keeps_WInv_of_fuel (op : Op) (hv : op.Valid) (hne : ∀ k, op ≠ .rmc k)
    (hfuel : ∀ w w', GQ w → (execOp op).run.run w ≠ (.error (.panic "model:fuel"), w')) : KeepsTop (execOp op) :=
  have hd : op ≠ .drop := fun h => by subst h; exact hv
  KeepsTopNF.keepsTop (KeepsTopNF.of (fun _ => execOp_sl op hd) (P.topQ_execOp_ne_rmc op hv hne) (execOp_qe op))
    hfuel

end

/-! ### `step`, `Reach` -/

theorem step_fst (w : World) (op : Op) : (step w op).1 = ((execOp op).run.run (stepInit w)).2 := rfl

theorem stepInit_relEq (w : World) : RelEq w (stepInit w) := by unfold stepInit; releq

section
variable (P : Pieces) (E : ExecPieces) {A : World → Prop} (X : Aux A)
include P X

/-- one protocol step from a quiescent world satisfying the invariants, if it returns normally -/
theorem step_keeps (w : World) (op : Op) (hW : WInv w) (hQ : Quiescent w) (hA : A w) (hv : op.Valid)
    (hok : StepOk w op) (hs : Small (step w op).1) :
    WInv (step w op).1 ∧ Quiescent (step w op).1 ∧ A (step w op).1 := by
  have h0 : GQA A (stepInit w) := fun _ =>
    ⟨hW.frame (stepInit_relEq w), Quiescent.of_res hQ rfl, X.frame w _ rfl rfl hA⟩
  have r := (execOp_keeps_WInv_partial P X op hv).run (stepInit w) h0
  obtain ⟨lines, hl⟩ := hok
  rw [step_fst] at hs ⊢
  generalize (execOp op).run.run (stepInit w) = res at r hl hs
  obtain ⟨(e|a), w'⟩ := res
  · cases hl
  · exact r hs

include E in
/-- **`Obl.step_keeps_InvPlus` with the extra hypothesis `A w`** (as stated it is false for `op = .rmc _`: `WInv` does
    not say that entries of the targeted event registry have targeted types) -/
theorem step_keeps_InvPlus_partial (w : World) (op : Op) (hW : WInv w) (hQ : Quiescent w) (hA : A w)
    (hv : op.Valid) (hok : StepOk w op) (hs : Small (step w op).1) : (step w op).1.InvPlus = true := by
  obtain ⟨h1, h2, -⟩ := step_keeps P X w op hW hQ hA hv hok hs
  exact winv_implies_InvPlus h1 h2 (E.execLeft h1)

omit P X in
/-- `Small` of a reachable world gives `Small` of the world before the last step -/
theorem small_of_step' (w : World) (op : Op) (hv : op.Valid) (hs : Small (step w op).1) : Small w := by
  have hd : op ≠ .drop := fun h => by subst h; exact hv
  rw [step_fst] at hs
  have : Small (stepInit w) := SlabMono.small (m := execOp op) (fun _ => execOp_sl op hd) rfl hs
  exact this

/-- reachable worlds satisfy the invariants -/
theorem reachable_all (w : World) (h : Reach w) : (Small w → WInv w ∧ Quiescent w) ∧ A w := by
  induction h with
  | init => exact ⟨fun _ => ⟨winv_init, quiescent_init⟩, X.init⟩
  | @step w op _ hv hok ih =>
    have hA : A (step w op).1 := by
      rw [step_fst]
      exact (X.execOp op).run _ (X.frame w _ rfl rfl ih.2)
    refine ⟨fun hs => ?_, hA⟩
    obtain ⟨hW, hQ⟩ := ih.1 (small_of_step' w op hv hs)
    obtain ⟨h1, h2, -⟩ := step_keeps P X w op hW hQ ih.2 hv hok hs
    exact ⟨h1, h2⟩

/-- **`Obl.reachable_WInv`** -/
theorem reachable_WInv_of : Obl.reachable_WInv := fun w h hs => (reachable_all P X w h).1 hs

include E in
/-- **`Obl.reachable_InvPlus`** -/
theorem reachable_InvPlus_of : Obl.reachable_InvPlus := fun w h hs => by
  obtain ⟨h1, h2⟩ := (reachable_all P X w h).1 hs
  exact winv_implies_InvPlus h1 h2 (E.execLeft h1)

end

end Evenio
