import Evenio.Proofs.Inv.Registry
/-! # Section E — functional facts the glue needs (G5 part)

* `addComponent_live`, `addTargetedEvent_live` as stated;
* `addGlobalEvent_live` is FALSE as stated (precondition `True`: on a slot map whose free list runs through an
  occupied slot the second registration `ensureAddG` overwrites the entry just made — see `addGlobalEvent_live_cex`);
  proved with the precondition `w.gevs.WF` (`addGlobalEvent_live_partial`) and in the guarded form the glue wants;
* `removeHandler_cores` as stated (no well-formedness needed); `removeAll_unused` as stated;
* `initParam_grows` is FALSE as stated (no hypothesis at all: `insertWith` on a malformed registry overwrites a live
  entry); proved from `RegInv [] w` (`initParam_grows_partial`). -/
namespace Evenio
namespace InvV6
open SlotMap

/-! ### slot-map facts that need no well-formedness -/

section slotmap
variable {α : Type}

/-- an enumerated entry is retrievable -/
theorem get_of_mem_toList {sm : SlotMap α} {k : Key} {v : α} (h : (k, v) ∈ sm.toList) : sm.get k = some v := by
  unfold SlotMap.toList at h
  simp only [List.mem_filterMap, List.mem_zipIdx_iff_getElem?, Prod.exists] at h
  obtain ⟨s, i, hs, hf⟩ := h
  by_cases he : s.gen % 2 = 0
  · simp [he] at hf
  · simp only [he, if_false, Option.map_eq_some_iff] at hf
    obtain ⟨v', hv, heq⟩ := hf
    cases heq
    simp [SlotMap.get, hs, hv]

theorem get_of_find? {sm : SlotMap α} {p : Key × α → Bool} {k : Key} {v : α}
    (h : sm.toList.find? p = some (k, v)) : sm.get k = some v ∧ p (k, v) = true :=
  ⟨get_of_mem_toList (List.mem_of_find?_eq_some h), List.find?_some h⟩

/-- `get` after `remove`, without `WF` -/
theorem get_remove_nowf {sm sm' : SlotMap α} {k : Key} {v : α} (h : sm.remove k = some (v, sm')) (k' : Key) :
    sm'.get k' = if k' = k then none else sm.get k' := by
  unfold SlotMap.remove at h
  cases hs : sm.slots[k.idx]? with
  | none => simp [hs] at h
  | some s =>
    simp only [hs] at h
    by_cases hg : s.gen = k.gen
    · cases hv : s.val with
      | none => simp [hg, hv] at h
      | some v' =>
        have hidx : k.idx < sm.slots.length := getElem?_lt hs
        have key : ∀ x : Slot α, x.val = none → ∀ nf ln,
            SlotMap.get { slots := sm.slots.set k.idx x, nextFree := nf, len := ln } k' =
              if k' = k then none else sm.get k' := by
          intro x hx nf ln
          unfold SlotMap.get
          simp only [List.getElem?_set]
          by_cases hi : k.idx = k'.idx
          · simp only [hi, if_true]
            rw [← hi]; simp only [hidx, if_true, hs, hx]
            by_cases hk : k' = k
            · simp [hk]
            · have : s.gen ≠ k'.gen := by
                intro e; apply hk; cases k'; cases k; simp_all
              simp [hk, this]
          · have hk : k' ≠ k := by intro e; apply hi; rw [e]
            simp [hi, hk]
        simp only [hg, hv, ne_eq, not_true_eq_false, if_false] at h
        split at h
        · cases h; exact key _ rfl _ _
        · cases h; exact key _ rfl _ _
    · simp [hg] at h

end slotmap

/-! ### frames of the announcement: `sendGlobal` writes `gevs`, `byGlobal`, the queue … but neither `comps` (up to
    `memberOf`) nor `tevs` -/

section cc
variable {c : SlotMap CompInfo}
theorem ensureAddG_cc : Keeps (CC c) ensureAddG := by unfold ensureAddG; keeps
local macro_rules | `(tactic| keeps_leaf) => `(tactic| exact ensureAddG_cc)
theorem addGlobalEvent_cc (ty : EvTy) : Keeps (CC c) (addGlobalEvent ty) := by unfold addGlobalEvent; keeps
local macro_rules | `(tactic| keeps_leaf) => `(tactic| exact addGlobalEvent_cc _)
theorem sendGlobal_cc (ty : EvTy) (pay : Payload) : Keeps (CC c) (sendGlobal ty pay) := by unfold sendGlobal; keeps
end cc

/-- the targeted-event registry is `t` -/
abbrev TV (t : SlotMap EvInfo) : World → Prop := fun w => w.tevs = t

section tv
variable {t : SlotMap EvInfo}
theorem keeps_tv_of_ev {α : Type} {m : M α} (h : ∀ g, Keeps (EV g) m) : Keeps (TV t) m :=
  ⟨fun w hw => by
    have := (h (w.gevs, w.tevs)).run w rfl
    exact (congrArg Prod.snd this).trans hw⟩
theorem push_tv (it : QItem) : Keeps (TV t) (push it) := by unfold push; keeps
local macro_rules | `(tactic| keeps_leaf) => `(tactic| exact push_tv _)
theorem dropCell_tv (ty : Nat) (x : Cell) : Keeps (TV t) (dropCell ty x) := by unfold dropCell; keeps
local macro_rules | `(tactic| keeps_leaf) => `(tactic| exact dropCell_tv _ _)
theorem dropEvent_tv (it : QItem) : Keeps (TV t) (dropEvent it) := by unfold dropEvent; keeps
local macro_rules | `(tactic| keeps_leaf) => `(tactic| exact dropEvent_tv _)
theorem flush_tv (fuel : Nat) : Keeps (TV t) (flush fuel) := keeps_tv_of_ev fun g => flush_ev g fuel
local macro_rules | `(tactic| keeps_leaf) => `(tactic| exact flush_tv _)
theorem ensureAddG_tv : Keeps (TV t) ensureAddG := by unfold ensureAddG; keeps
local macro_rules | `(tactic| keeps_leaf) => `(tactic| exact ensureAddG_tv)
theorem addGlobalEvent_tv (ty : EvTy) : Keeps (TV t) (addGlobalEvent ty) := by unfold addGlobalEvent; keeps
local macro_rules | `(tactic| keeps_leaf) => `(tactic| exact addGlobalEvent_tv _)
theorem sendGlobal_tv (ty : EvTy) (pay : Payload) : Keeps (TV t) (sendGlobal ty pay) := by unfold sendGlobal; keeps
end tv

/-! ### `addComponent_live` -/

/-- a live component stays live with the same type along anything that keeps the registry up to `memberOf` -/
theorem comp_live_of_cc {w w' : World} (h : w'.compsCore = w.compsCore) {k : Key} {ci : CompInfo}
    (hk : w.comps.get k = some ci) : ∃ ci', w'.comps.get k = some ci' ∧ ci'.core = ci.core := by
  have := congrArg (fun sm => SlotMap.get sm k) h
  simp only [World.compsCore, SlotMap.get_mapVal, hk, Option.map_some] at this
  cases hg : w'.comps.get k with
  | none => rw [hg] at this; cases this
  | some ci' =>
    rw [hg] at this
    exact ⟨ci', rfl, by simpa using this⟩

theorem core_ty {ci ci' : CompInfo} (h : ci'.core = ci.core) : ci'.ty = ci.ty :=
  (congrArg CompInfo.ty h : ci'.core.ty = ci.core.ty)

end InvV6

open InvV6 in
theorem addComponent_live : Obl.addComponent_live := by
  intro ty
  refine ⟨fun w _ k w' hr => ?_⟩
  cases hf : w.compIdxOfTy ty with
  | some p =>
    obtain ⟨k0, ci⟩ := p
    rw [addComponent_existing hf] at hr
    cases hr
    obtain ⟨h1, h2⟩ := get_of_find? hf
    exact ⟨ci, h1, by simpa using h2⟩
  | none =>
    cases hi : w.comps.insertWith (fun k => ({ ty, id := k } : CompInfo)) with
    | none => rw [addComponent_full hf hi] at hr; cases hr
    | some p =>
      obtain ⟨k0, comps'⟩ := p
      rw [addComponent_new_shape hf hi, run_bind] at hr
      generalize hs : (sendGlobal .addC { id := k0 }).run.run { w with comps := comps' } = r at hr
      obtain ⟨(e|u), w1⟩ := r
      · cases hr
      · have hcc := (sendGlobal_cc (c := ({ w with comps := comps' } : World).compsCore) .addC { id := k0 }).run _ rfl
        rw [hs] at hcc
        cases hr
        obtain ⟨ci', h1, h2⟩ := comp_live_of_cc (w := { w with comps := comps' }) hcc
          (SlotMap.get_insertWith_self hi)
        exact ⟨ci', h1, core_ty h2⟩

/-! ### `addTargetedEvent_live` -/

namespace InvV6

theorem noteTev_tevs (w : World) (kind : EvKind) (k : Key) : (w.noteTev kind k).tevs = w.tevs := by
  unfold World.noteTev
  cases kind with
  | insert c => simp only; cases w.comps.getByIndex c <;> rfl
  | remove c => simp only; cases w.comps.getByIndex c <;> rfl
  | _ => rfl

theorem registerTev_live {ty : EvTy} {kind : EvKind} {w w' : World} {k : Key}
    (hr : (registerTev ty kind).run.run w = (.ok k, w')) : ∃ ei, w'.tevs.get k = some ei ∧ ei.ty = ty := by
  cases hf : w.tevOfTy ty with
  | some p =>
    obtain ⟨k0, ei⟩ := p
    rw [registerTev_existing hf] at hr
    cases hr
    obtain ⟨h1, h2⟩ := get_of_find? hf
    exact ⟨ei, h1, by simpa using h2⟩
  | none =>
    cases hi : w.tevs.insertWith (tevInfo ty kind) with
    | none => rw [registerTev_full hf hi] at hr; cases hr
    | some p =>
      obtain ⟨k0, tevs'⟩ := p
      rw [registerTev_new_shape hf hi, run_bind] at hr
      generalize hs : (sendGlobal .addT { id := k0 }).run.run (({ w with tevs := tevs' } : World).noteTev kind k0) = r
        at hr
      obtain ⟨(e|u), w1⟩ := r
      · cases hr
      · have htv := (sendGlobal_tv (t := tevs') .addT { id := k0 }).run
          (({ w with tevs := tevs' } : World).noteTev kind k0) (noteTev_tevs _ kind k0)
        rw [hs] at htv
        cases hr
        have htv' : w'.tevs = tevs' := htv
        rw [htv']
        exact ⟨_, SlotMap.get_insertWith_self hi, rfl⟩

end InvV6

open InvV6 in
theorem addTargetedEvent_live : Obl.addTargetedEvent_live := by
  intro ty
  refine ⟨fun w _ k w' hr => ?_⟩
  rw [addTargetedEvent_eq, run_bind] at hr
  generalize (tevInit ty).run.run w = r at hr
  obtain ⟨(e|kind), w0⟩ := r
  · cases hr
  · exact registerTev_live hr

/-! ### `addGlobalEvent_live` (needs `SlotMap.WF gevs`) -/

namespace InvV6

theorem HoareOk.get_bind_at {β : Type} {P : World → Prop} {f : World → M β} {Q : β → World → Prop}
    (hf : ∀ w, P w → HoareOk (fun w' => w' = w) (f w) Q) : HoareOk P (MonadState.get >>= f) Q :=
  ⟨fun w hw b w' hr => by rw [run_bind, run_get] at hr; exact (hf w hw).run w rfl b w' hr⟩

theorem HoareOk.set_bind {β : Type} {P : World → Prop} {w2 : World} {f : PUnit → M β} {Q : β → World → Prop}
    (hf : HoareOk (fun w' => w' = w2) (f PUnit.unit) Q) : HoareOk P (MonadStateOf.set w2 >>= f) Q :=
  ⟨fun w _ b w' hr => by rw [run_bind, run_set] at hr; exact hf.run w2 rfl b w' hr⟩

/-- the global-event registry is well formed and `k` is registered for the type `ty` -/
abbrev GL (k : Key) (ty : EvTy) : World → Prop :=
  fun w => w.gevs.WF ∧ ∃ ei, w.gevs.get k = some ei ∧ ei.ty = ty

theorem keeps_gevs_of_ev {α : Type} {m : M α} (h : ∀ g, Keeps (EV g) m) (P : SlotMap EvInfo → Prop) :
    Keeps (fun w => P w.gevs) m :=
  ⟨fun w hw => by
    have := (h (w.gevs, w.tevs)).run w rfl
    have e : (m.run.run w).2.gevs = w.gevs := congrArg Prod.fst this
    show P (m.run.run w).2.gevs
    rw [e]; exact hw⟩

theorem GL.insert {k : Key} {ty : EvTy} {w : World} (h : GL k ty w) {f : Key → EvInfo} {k' : Key}
    {gevs' : SlotMap EvInfo} (hins : w.gevs.insertWith f = some (k', gevs')) (bg : List (HandlerList Key)) :
    GL k ty { w with gevs := gevs', byGlobal := bg } := by
  obtain ⟨wf, ei, hg, hty⟩ := h
  refine ⟨wf.insertWith hins, ei, ?_, hty⟩
  show gevs'.get k = some ei
  rw [SlotMap.get_insertWith wf hins k, if_neg, hg]
  rintro rfl
  have := SlotMap.insertWith_not_contains wf hins
  simp [SlotMap.contains, hg] at this

section gl
variable {k : Key} {ty : EvTy}
theorem push_gl (it : QItem) : Keeps (GL k ty) (push it) := by unfold push; keeps
local macro_rules | `(tactic| keeps_leaf) => `(tactic| exact push_gl _)
theorem flush_gl (fuel : Nat) : Keeps (GL k ty) (flush fuel) :=
  keeps_gevs_of_ev (fun g => flush_ev g fuel) fun g => g.WF ∧ ∃ ei, g.get k = some ei ∧ ei.ty = ty
local macro_rules | `(tactic| keeps_leaf) => `(tactic| exact flush_gl _)
theorem ensureAddG_gl : Keeps (GL k ty) ensureAddG := by
  unfold ensureAddG; keeps
  exact Keeps.set (GL.insert ‹_› ‹_› _)
end gl

theorem ensureAddG_live : HoareOk (fun w => w.gevs.WF) ensureAddG (fun k => GL k .addG) := by
  unfold ensureAddG
  refine HoareOk.get_bind_at fun w hw => ?_
  split
  · next k ei hf =>
    refine HoareOk.pure ?_
    rintro _ rfl
    obtain ⟨h1, h2⟩ := get_of_find? hf
    exact ⟨hw, ei, h1, by simpa using h2⟩
  · split
    · exact HoareOk.throw _
    · next k gevs hins =>
      refine HoareOk.set_bind ?_
      refine HoareOk.pre (P' := GL k .addG) ?_
        (by rintro _ rfl; exact ⟨hw.insertWith hins, _, SlotMap.get_insertWith_self hins, rfl⟩)
      exact HoareOk.bind_inv (HoareOk.of_keeps (push_gl _)) fun _ =>
        HoareOk.bind_inv (HoareOk.of_keeps (flush_gl _)) fun _ => HoareOk.pure fun _ h => h

theorem addGlobalEvent_gl (ty : EvTy) : HoareOk (fun w => w.gevs.WF) (addGlobalEvent ty) (fun k => GL k ty) := by
  unfold addGlobalEvent
  split
  · next hty =>
    have : ty = .addG := by simpa using hty
    subst this
    exact ensureAddG_live
  · refine HoareOk.get_bind_at fun w hw => ?_
    split
    · next k ei hf =>
      refine HoareOk.pure ?_
      rintro _ rfl
      obtain ⟨h1, h2⟩ := get_of_find? hf
      exact ⟨hw, ei, h1, by simpa using h2⟩
    · split
      · exact HoareOk.throw _
      · next k gevs hins =>
        refine HoareOk.set_bind ?_
        refine HoareOk.pre (P' := GL k ty) ?_
          (by rintro _ rfl; exact ⟨hw.insertWith hins, _, SlotMap.get_insertWith_self hins, rfl⟩)
        exact HoareOk.bind_inv (HoareOk.of_keeps ensureAddG_gl) fun _ =>
          HoareOk.bind_inv (HoareOk.of_keeps (push_gl _)) fun _ =>
          HoareOk.bind_inv (HoareOk.of_keeps (flush_gl _)) fun _ => HoareOk.pure fun _ h => h

end InvV6

/-- `Obl.addGlobalEvent_live` with the hypothesis it needs: the global-event registry is a well-formed slot map -/
theorem addGlobalEvent_live_partial :
    ∀ ty, HoareOk (fun w => w.gevs.WF) (addGlobalEvent ty)
      (fun k w' => ∃ ei, w'.gevs.get k = some ei ∧ ei.ty = ty) :=
  fun ty => HoareOk.post (InvV6.addGlobalEvent_gl ty) fun _ _ h => h.2

/-- the form the glue uses: from the guarded invariant, under `Small` of the final state -/
theorem addGlobalEvent_live_guarded :
    ∀ ty, HoareOk (Guarded WInvMid) (addGlobalEvent ty)
      (fun k w' => Small w' → ∃ ei, w'.gevs.get k = some ei ∧ ei.ty = ty) := by
  intro ty
  refine ⟨fun w hw k w' hr hs => ?_⟩
  have hsw : Small w := SlabMono.small (fun _ => addGlobalEvent_sl ty) hr hs
  exact (addGlobalEvent_live_partial ty).run w (hw hsw).winv.gevsWF k w' hr

/-- the world refuting `Obl.addGlobalEvent_live` as stated (precondition `True`): the free list of `gevs` starts at
    an occupied-looking slot that links to itself; `addGlobalEvent (.g 0)` registers `G0` under `0v2`, then `ensureAddG`
    registers `AddGlobalEvent` in the SAME slot (`0v3`); both flushes succeed, `0v2` is returned and is not live. -/
def addGlobalEvent_live_cex : World := { gevs := { slots := [⟨1, 0, none⟩], nextFree := 0, len := 0 } }

/-! ### `removeHandler_cores`, `removeAll_unused` -/

theorem removeHandler_cores : Obl.removeHandler_cores := by
  intro k w b w' hr k'
  rcases removeHandler_ok hr with ⟨-, hc, rfl⟩ | ⟨-, -, w1, h, hs, hsend, hrm, -, rfl⟩
  · split
    · next hkk =>
      subst hkk
      cases hg : w'.handlers.get k' with
      | none => rfl
      | some h => simp [SlotMap.contains, hg] at hc
    · rfl
  · have hcore := sendGlobal_handlers .remH { id := k } w k'
    rw [hsend] at hcore
    rw [removeHandlerPure_handlers, hrm]
    dsimp only
    rw [InvV6.get_remove_nowf hrm k']
    split
    · rfl
    · exact hcore

namespace InvV6

/-- after the removal loop the registry holds exactly the other handlers (up to caches) -/
theorem removeAll_cores (l : List Key) (w w' : World) (hr : (removeAll l).run.run w = (.ok PUnit.unit, w'))
    (k' : Key) :
    (w'.handlers.get k').map HInfo.core = if k' ∈ l then none else (w.handlers.get k').map HInfo.core := by
  induction l generalizing w with
  | nil =>
    cases hr
    simp
  | cons hk l ih =>
    unfold removeAll at hr
    rw [List.forIn_cons, run_bind, run_bind] at hr
    generalize hrh : (removeHandler hk).run.run w = r at hr
    obtain ⟨(e|b), w1⟩ := r
    · cases hr
    · simp only [run_pure] at hr
      have h1 := removeHandler_cores hk w b w1 hrh k'
      have h2 := ih w1 hr
      rw [h2, h1]
      by_cases hm : k' ∈ l
      · simp [hm]
      · by_cases hkk : k' = hk
        · simp [hkk]
        · simp [hm, hkk]

end InvV6

theorem removeAll_unused : Obl.removeAll_unused := by
  intro ty k w w' hw hr hk h' hg'
  have hcore := InvV6.removeAll_cores _ w w' hr hk
  rw [hg'] at hcore
  by_cases hm : hk ∈ eventUsers w ty k
  · rw [if_pos hm] at hcore; cases hcore
  · rw [if_neg hm] at hcore
    cases hg : w.handlers.get hk with
    | none => rw [hg] at hcore; cases hcore
    | some h =>
      rw [hg] at hcore
      simp only [Option.map_some, Option.some.injEq] at hcore
      have e1 : h'.recv = h.recv := (congrArg HInfo.recv hcore : h'.core.recv = h.core.recv)
      have e2 : h'.recvKey = h.recvKey := (congrArg HInfo.recvKey hcore : h'.core.recvKey = h.core.recvKey)
      have e3 : h'.sentG = h.sentG := (congrArg HInfo.sentG hcore : h'.core.sentG = h.core.sentG)
      have e4 : h'.sentT = h.sentT := (congrArg HInfo.sentT hcore : h'.core.sentT = h.core.sentT)
      have hord : hk ∈ w.byInsertOrder := (hw.lists.ordMem hk).2 (by simp [SlotMap.contains, hg])
      unfold eventUsers at hm
      rw [e1, e2, e3, e4]
      cases ht : ty.targeted with
      | true =>
        rw [ht] at hm
        simp only [if_true] at hm ⊢
        rw [mem_targetedEventUsers] at hm
        exact ⟨fun hc => hm ⟨hord, h, hg, .inl hc⟩, fun hc => hm ⟨hord, h, hg, .inr hc⟩⟩
      | false =>
        rw [ht] at hm
        simp only [Bool.false_eq_true, if_false] at hm ⊢
        rw [mem_globalEventUsers] at hm
        exact ⟨fun hc => hm ⟨hord, h, hg, .inl hc⟩, fun hc => hm ⟨hord, h, hg, .inr hc⟩⟩

/-! ### `initParam_grows` (needs well-formed registries) -/

namespace InvV6

/-- the registries are well formed and have only grown since `w0` -/
structure GI' (w0 : World) (C : SlotMap CompInfo) (G T : SlotMap EvInfo) (H : SlotMap HInfo)
    (rem : List (Char × Key)) : Prop where
  ri : RI [] C G T H rem
  comps : ∀ k ci, w0.comps.get k = some ci → ∃ ci', C.get k = some ci' ∧ ci'.ty = ci.ty
  gevs : ∀ k ei, w0.gevs.get k = some ei → G.get k = some ei
  tevs : ∀ k ei, w0.tevs.get k = some ei → T.get k = some ei

abbrev GI (w0 : World) : World → Prop := fun w => GI' w0 w.comps w.gevs w.tevs w.handlers w.removedIds

theorem GI.refl {w : World} (h : RegInv [] w) : GI w w :=
  ⟨h, fun _ ci hk => ⟨ci, hk, rfl⟩, fun _ _ hk => hk, fun _ _ hk => hk⟩

theorem GI.grows {w0 w : World} (h : GI w0 w) : Obl.Grows w0 w := ⟨h.comps, h.gevs, h.tevs⟩

section
variable {w0 : World} {C C' : SlotMap CompInfo} {G G' T T' : SlotMap EvInfo} {H : SlotMap HInfo}
  {rem : List (Char × Key)}

theorem GI'.insert_gevs (h : GI' w0 C G T H rem) {f : Key → EvInfo} {k : Key} (hins : G.insertWith f = some (k, G')) :
    GI' w0 C G' T H rem :=
  ⟨h.ri.insert_gevs hins, h.comps, fun k0 ei hk => get_insert_mono h.ri.wfg hins (h.gevs k0 ei hk), h.tevs⟩

theorem GI'.insert_tevs (h : GI' w0 C G T H rem) {f : Key → EvInfo} {k : Key} (hins : T.insertWith f = some (k, T')) :
    GI' w0 C G T' H rem :=
  ⟨h.ri.insert_tevs hins, h.comps, h.gevs, fun k0 ei hk => get_insert_mono h.ri.wft hins (h.tevs k0 ei hk)⟩

theorem GI'.insert_comps (h : GI' w0 C G T H rem) {f : Key → CompInfo} {k : Key}
    (hins : C.insertWith f = some (k, C')) : GI' w0 C' G T H rem := by
  refine ⟨h.ri.insert_comps hins, fun k0 ci hk => ?_, h.gevs, h.tevs⟩
  obtain ⟨ci', h1, h2⟩ := h.comps k0 ci hk
  exact ⟨ci', get_insert_mono h.ri.wfc hins h1, h2⟩

theorem GI'.set_comps (h : GI' w0 C G T H rem) {i : Nat} {k : Key} {v0 : CompInfo}
    (hg : C.getByIndex i = some (k, v0)) (v : CompInfo) (hty : v.ty = v0.ty) : GI' w0 (C.set k v) G T H rem := by
  have hgk := (SlotMap.getByIndex_get hg).1
  refine ⟨h.ri.set_comps_byIndex hg v, fun k0 ci hk => ?_, h.gevs, h.tevs⟩
  obtain ⟨ci', h1, h2⟩ := h.comps k0 ci hk
  rw [SlotMap.get_set hgk v k0]
  split
  · next hkk =>
    subst hkk
    rw [hgk] at h1; cases h1
    exact ⟨v, rfl, hty.trans h2⟩
  · exact ⟨ci', h1, h2⟩
end

/-- whatever keeps the event registries, the component registry up to `memberOf`, and `RegInv` keeps `GI` -/
theorem keeps_gi {α : Type} {m : M α} {w0 : World} (hev : ∀ g, Keeps (EV g) m) (hcc : ∀ c, Keeps (CC c) m)
    (hri : Keeps (RegInv []) m) : Keeps (GI w0) m := by
  refine ⟨fun w hw => ?_⟩
  have h1 := (hev (w.gevs, w.tevs)).run w rfl
  have h2 : (m.run.run w).2.compsCore = w.compsCore := (hcc w.compsCore).run w rfl
  have h3 := hri.run w hw.ri
  have eg : (m.run.run w).2.gevs = w.gevs := congrArg Prod.fst h1
  have et : (m.run.run w).2.tevs = w.tevs := congrArg Prod.snd h1
  refine ⟨h3, fun k ci hk => ?_, fun k ei hk => ?_, fun k ei hk => ?_⟩
  · obtain ⟨ci1, g1, t1⟩ := hw.comps k ci hk
    obtain ⟨ci2, g2, t2⟩ := comp_live_of_cc h2 g1
    exact ⟨ci2, g2, (core_ty t2).trans t1⟩
  · rw [eg]; exact hw.gevs k ei hk
  · rw [et]; exact hw.tevs k ei hk

/-- closes the goals `keeps` leaves: the registry writes of the `add_*` functions -/
syntax "gifix" : tactic
macro_rules | `(tactic| gifix) => `(tactic| (refine Keeps.set ?_; first
      | exact GI'.insert_gevs ‹_› ‹_›
      | exact GI'.insert_tevs ‹_› ‹_›
      | exact GI'.insert_comps ‹_› ‹_›
      | exact GI'.set_comps ‹_› ‹_› _ (by exact rfl)))

section
variable {w0 : World}
theorem push_gi (it : QItem) : Keeps (GI w0) (push it) := by unfold push; keeps
local macro_rules | `(tactic| keeps_leaf) => `(tactic| exact push_gi _)
theorem dropCell_gi (ty : Nat) (x : Cell) : Keeps (GI w0) (dropCell ty x) := by unfold dropCell; keeps
local macro_rules | `(tactic| keeps_leaf) => `(tactic| exact dropCell_gi _ _)
theorem dropEvent_gi (it : QItem) : Keeps (GI w0) (dropEvent it) := by unfold dropEvent; keeps
local macro_rules | `(tactic| keeps_leaf) => `(tactic| exact dropEvent_gi _)
theorem flush_gi (fuel : Nat) : Keeps (GI w0) (flush fuel) :=
  keeps_gi (fun g => flush_ev g fuel) (fun _ => flush_cc fuel) (flush_ri fuel)
local macro_rules | `(tactic| keeps_leaf) => `(tactic| exact flush_gi _)
theorem ensureAddG_gi : Keeps (GI w0) ensureAddG := by
  unfold ensureAddG; keeps
  all_goals gifix
local macro_rules | `(tactic| keeps_leaf) => `(tactic| exact ensureAddG_gi)
theorem addGlobalEvent_gi (ty : EvTy) : Keeps (GI w0) (addGlobalEvent ty) := by
  unfold addGlobalEvent; keeps
  all_goals gifix
local macro_rules | `(tactic| keeps_leaf) => `(tactic| exact addGlobalEvent_gi _)
theorem sendGlobal_gi (ty : EvTy) (pay : Payload) : Keeps (GI w0) (sendGlobal ty pay) := by
  unfold sendGlobal; keeps
local macro_rules | `(tactic| keeps_leaf) => `(tactic| exact sendGlobal_gi _ _)
theorem addComponent_gi (ty : Nat) : Keeps (GI w0) (addComponent ty) := by
  unfold addComponent; keeps
  all_goals gifix
local macro_rules | `(tactic| keeps_leaf) => `(tactic| exact addComponent_gi _)
theorem addTargetedEvent_gi (ty : EvTy) : Keeps (GI w0) (addTargetedEvent ty) := by
  unfold addTargetedEvent; keeps
  all_goals gifix
local macro_rules | `(tactic| keeps_leaf) => `(tactic| exact addTargetedEvent_gi _)
theorem addEvent_gi (ty : EvTy) : Keeps (GI w0) (addEvent ty) := by unfold addEvent; keeps
local macro_rules | `(tactic| keeps_leaf) => `(tactic| exact addEvent_gi _)
theorem initQuery_gi (q : Query) (cfg : Config) : Keeps (GI w0) (initQuery q cfg) := by unfold initQuery; keeps
local macro_rules | `(tactic| keeps_leaf) => `(tactic| exact initQuery_gi _ _)
theorem initParam_gi (ps : PSpec) (cfg : Config) : Keeps (GI w0) (initParam ps cfg) := by unfold initParam; keeps
end

end InvV6

/-- `Obl.initParam_grows` with the hypothesis it needs: the registries are well-formed slot maps (`RegInv []`, part
    of `WInv`) -/
theorem initParam_grows_partial :
    ∀ ps cfg w r w', RegInv [] w → (initParam ps cfg).run.run w = (.ok r, w') → Obl.Grows w w' := by
  intro ps cfg w r w' hw hr
  have := (InvV6.initParam_gi (w0 := w) ps cfg).run w (InvV6.GI.refl hw)
  rw [hr] at this
  exact this.grows

theorem initParam_grows_of_winv :
    ∀ ps cfg w r w', WInv w → (initParam ps cfg).run.run w = (.ok r, w') → Obl.Grows w w' :=
  fun ps cfg w r w' hw => initParam_grows_partial ps cfg w r w' hw.regInv

/-! ### machine-checked refutations of the two obligations that are false as stated -/

/-- **`Obl.addGlobalEvent_live` is false as stated** (precondition `True`): in `addGlobalEvent_live_cex`,
    `addGlobalEvent (.g 0)` returns the key `0v2`, which is not live afterwards -/
theorem addGlobalEvent_live_false : ¬ Obl.addGlobalEvent_live := by
  intro h
  have h1 : (match ((addGlobalEvent (.g 0)).run.run addGlobalEvent_live_cex).1 with
      | .ok k => k == (⟨0, 2⟩ : Key)
      | .error _ => false) = true := by decide +kernel
  have h2 : (((addGlobalEvent (.g 0)).run.run addGlobalEvent_live_cex).2.gevs.get ⟨0, 2⟩).isNone = true := by
    decide +kernel
  generalize hr : (addGlobalEvent (.g 0)).run.run addGlobalEvent_live_cex = r at h1 h2
  obtain ⟨(e|k), w'⟩ := r
  · cases h1
  · have hk : k = ⟨0, 2⟩ := by simpa using h1
    subst hk
    obtain ⟨ei, hg, -⟩ := (h (.g 0)).run _ trivial _ _ hr
    simp only at h2
    rw [hg] at h2
    cases h2

/-- the world refuting `Obl.initParam_grows`: the free list of `comps` starts at the live slot `0v1` -/
def initParam_grows_cex : World :=
  { comps := { slots := [⟨1, 0, some { ty := 5, id := ⟨0, 1⟩ }⟩], nextFree := 0, len := 1 } }

/-- **`Obl.initParam_grows` is false as stated** (no hypothesis on the world): registering the component type 7
    overwrites the live component `0v1` -/
theorem initParam_grows_false : ¬ Obl.initParam_grows := by
  intro h
  have h1 : (match ((initParam (.fetch (.ref 7)) {}).run.run initParam_grows_cex).1 with
      | .ok _ => true
      | .error _ => false) = true := by decide +kernel
  have h2 : (((initParam (.fetch (.ref 7)) {}).run.run initParam_grows_cex).2.comps.get ⟨0, 1⟩).isNone = true := by
    decide +kernel
  generalize hr : (initParam (.fetch (.ref 7)) {}).run.run initParam_grows_cex = r at h1 h2
  obtain ⟨(e|k), w'⟩ := r
  · cases h1
  · obtain ⟨ci', hg, -⟩ := (h _ _ _ _ _ hr).1 ⟨0, 1⟩ { ty := 5, id := ⟨0, 1⟩ } rfl
    simp only at h2
    rw [hg] at h2
    cases h2

end Evenio
