import Evenio.Proofs.Inv.Lists
import Evenio.Proofs.Inv.Store
/-! # G3 — the frame rule: `ListsInv` only reads handler CORES, and of an archetype only `refresh`, `listeners`, `comps`

* `selOf_eq_filter`: a selection is a filter of the insertion-order index;
* `selOf_congr`, `TableExact.congr`, `HandlerOK.of_core`, `ArchListsOK.congr`: everything in `ListsInv` is invariant under
  changes of fetcher caches;
* `ListsInv'.congr` / `listsInv_of_frames`: the frame rule. -/
namespace Evenio
namespace InvV3

theorem filterMap_congr_mem {α β : Type} {l : List α} {f g : α → Option β} (h : ∀ x ∈ l, f x = g x) :
    l.filterMap f = l.filterMap g := by
  induction l with
  | nil => rfl
  | cons x l ih =>
    rw [List.filterMap_cons, List.filterMap_cons, h x List.mem_cons_self,
      ih fun y hy => h y (List.mem_cons_of_mem _ hy)]

/-! ### selections as filters -/

/-- the test `selOf` applies to a key -/
def selTest (H : SlotMap HInfo) (p : HInfo → Bool) (pr : Priority) (k : Key) : Bool :=
  match H.get k with
  | some h => h.prio == pr && p h
  | none => false

theorem selOf_eq_filter (ord : List Key) (H : SlotMap HInfo) (p : HInfo → Bool) (pr : Priority) :
    selOf ord H p pr = ord.filter (selTest H p pr) := by
  unfold selOf
  induction ord with
  | nil => rfl
  | cons k l ih =>
    cases hg : H.get k with
    | none =>
      rw [List.filterMap_cons_none (by simp [hg]), List.filter_cons]
      have : selTest H p pr k = false := by simp [selTest, hg]
      rw [this]
      exact ih
    | some h =>
      rw [List.filterMap_cons_some (b := (k, h)) (by simp [hg]), List.filter_cons, List.filter_cons]
      have : selTest H p pr k = (h.prio == pr && p h) := by simp [selTest, hg]
      rw [this]
      dsimp only
      split
      · rw [List.map_cons, ih]
      · exact ih

/-! ### registry entries up to fetcher caches -/

theorem core_core (h : HInfo) : h.core.core = h.core := by
  unfold HInfo.core
  simp only [List.map_map]
  rfl

theorem accesses_core (h : HInfo) : h.core.accesses = h.accesses := by
  unfold HInfo.accesses HInfo.core
  simp only [List.filter_map, List.map_map]
  rfl

theorem accesses_of_core {h h' : HInfo} (hc : h'.core = h.core) : h'.accesses = h.accesses := by
  rw [← accesses_core h', hc, accesses_core]

theorem handlerOK_of_core {ctr : Nat} {k : Key} {h h' : HInfo} (hc : h'.core = h.core) (hk : HandlerOK ctr k h) :
    HandlerOK ctr k h' := by
  have e1 : h'.key = h.key := (congrArg HInfo.key hc : h'.core.key = h.core.key)
  have e2 : h'.recvIdx = h.recvIdx := (congrArg HInfo.recvIdx hc : h'.core.recvIdx = h.core.recvIdx)
  have e3 : h'.recvKey = h.recvKey := (congrArg HInfo.recvKey hc : h'.core.recvKey = h.core.recvKey)
  have e4 : h'.archFilter = h.archFilter := (congrArg HInfo.archFilter hc : h'.core.archFilter = h.core.archFilter)
  have e5 : h'.compAccess = h.compAccess := (congrArg HInfo.compAccess hc : h'.core.compAccess = h.core.compAccess)
  have e6 : h'.order = h.order := (congrArg HInfo.order hc : h'.core.order = h.core.order)
  have e7 : h'.recv = h.recv := (congrArg HInfo.recv hc : h'.core.recv = h.core.recv)
  have e8 : h'.recvMut = h.recvMut := (congrArg HInfo.recvMut hc : h'.core.recvMut = h.core.recvMut)
  have e9 := accesses_of_core hc
  obtain ⟨h1, h2, h3, h4, h5, h6, h7⟩ := hk
  refine ⟨e1.trans h1, by rw [e2, e3]; exact h2, by rw [e4, e9]; exact h3, by rw [e5, e9]; exact h4,
    HInfo.FilterOk_of_core hc h5, by rw [e6]; exact h6, by rw [e7, e8]; exact h7⟩

/-- `H'` agrees with `H` up to fetcher caches on the keys of `ord` -/
def CoreEqOn (ord : List Key) (H H' : SlotMap HInfo) : Prop :=
  ∀ k ∈ ord, (H'.get k).map HInfo.core = (H.get k).map HInfo.core

theorem coreEq_some {H H' : SlotMap HInfo} {k : Key} {h : HInfo}
    (he : (H'.get k).map HInfo.core = (H.get k).map HInfo.core) (hg : H.get k = some h) :
    ∃ h', H'.get k = some h' ∧ h'.core = h.core := by
  rw [hg] at he
  cases h2 : H'.get k with
  | none => rw [h2] at he; cases he
  | some h' =>
    rw [h2] at he
    simp only [Option.map_some, Option.some.injEq] at he
    exact ⟨h', rfl, he⟩

theorem coreEq_some' {H H' : SlotMap HInfo} {k : Key} {h' : HInfo}
    (he : (H'.get k).map HInfo.core = (H.get k).map HInfo.core) (hg : H'.get k = some h') :
    ∃ h, H.get k = some h ∧ h'.core = h.core := by
  obtain ⟨h, h1, h2⟩ := coreEq_some he.symm hg
  exact ⟨h, h1, h2.symm⟩

theorem CoreEqOn.symm {ord : List Key} {H H' : SlotMap HInfo} (h : CoreEqOn ord H H') : CoreEqOn ord H' H :=
  fun k hk => (h k hk).symm

theorem CoreEqOn.of_mapVal {ord : List Key} {H H' : SlotMap HInfo}
    (h : H'.mapVal HInfo.core = H.mapVal HInfo.core) : CoreEqOn ord H H' := fun k _ => by
  have := congrArg (fun sm => SlotMap.get sm k) h
  simpa only [SlotMap.get_mapVal] using this

/-- the core registry -/
theorem CoreEqOn.mapVal (ord : List Key) (H : SlotMap HInfo) : CoreEqOn ord H (H.mapVal HInfo.core) := fun k _ => by
  rw [SlotMap.get_mapVal]
  cases H.get k with
  | none => rfl
  | some h => simp only [Option.map_some, core_core]

theorem selOf_congr {ord : List Key} {H H' : SlotMap HInfo} {p p' : HInfo → Bool} (hH : CoreEqOn ord H H')
    (hp : ∀ h h' : HInfo, h'.core = h.core → p' h' = p h) (pr : Priority) :
    selOf ord H' p' pr = selOf ord H p pr := by
  rw [selOf_eq_filter, selOf_eq_filter]
  apply List.filter_congr
  intro k hk
  have he := hH k hk
  unfold selTest
  cases h1 : H.get k with
  | none =>
    rw [h1] at he
    cases h2 : H'.get k with
    | none => rfl
    | some h' => rw [h2] at he; cases he
  | some h =>
    obtain ⟨h', h2, hc⟩ := coreEq_some he h1
    rw [h2]
    have e : h'.prio = h.prio := (congrArg HInfo.prio hc : h'.core.prio = h.core.prio)
    simp only [e, hp h h' hc]

theorem tableExact_congr {ord : List Key} {H H' : SlotMap HInfo} {p p' : HInfo → Bool} {l : HandlerList Key}
    (hl : TableExact ord H p l) (hH : CoreEqOn ord H H') (hp : ∀ h h' : HInfo, h'.core = h.core → p' h' = p h) :
    TableExact ord H' p' l :=
  ⟨hl.inv, by rw [selOf_congr hH hp]; exact hl.hi, by rw [selOf_congr hH hp]; exact hl.me,
    by rw [selOf_congr hH hp]; exact hl.lo⟩

theorem listenSel_core (tk : Key) {a a' : Arch} (hS : a'.S = a.S) (h h' : HInfo) (hc : h'.core = h.core) :
    listenSel tk a' h' = listenSel tk a h := by
  have e1 : h'.recv = h.recv := (congrArg HInfo.recv hc : h'.core.recv = h.core.recv)
  have e2 : h'.recvKey = h.recvKey := (congrArg HInfo.recvKey hc : h'.core.recvKey = h.core.recvKey)
  have e3 : h'.filter = h.filter := (congrArg HInfo.filter hc : h'.core.filter = h.core.filter)
  unfold listenSel
  rw [e1, e2, e3, hS]

theorem globalSel_core (gk : Key) (h h' : HInfo) (hc : h'.core = h.core) : globalSel gk h' = globalSel gk h := by
  have e1 : h'.recv = h.recv := (congrArg HInfo.recv hc : h'.core.recv = h.core.recv)
  have e2 : h'.recvKey = h.recvKey := (congrArg HInfo.recvKey hc : h'.core.recvKey = h.core.recvKey)
  unfold globalSel
  rw [e1, e2]

theorem S_of_comps {a a' : Arch} (hc : a'.comps = a.comps) : a'.S = a.S := by
  unfold Arch.S; rw [hc]

/-- **the lists of an archetype only depend on handler cores and on `refresh`, `listeners`, `comps`** -/
theorem archListsOK_congr {ord : List Key} {H H' : SlotMap HInfo} {T : SlotMap EvInfo} {a a' : Arch}
    (hl : ArchListsOK ord H T a) (hH : CoreEqOn ord H H') (hr : a'.refresh = a.refresh)
    (hli : a'.listeners = a.listeners) (hc : a'.comps = a.comps) : ArchListsOK ord H' T a' := by
  have hS := S_of_comps hc
  refine ⟨hli ▸ hl.wf, hli ▸ hl.keys, hli ▸ hl.inv, fun tk info hti => ?_, hli ▸ hl.dead, hr ▸ hl.refreshNodup,
    fun k => ?_⟩
  · rw [hli]
    exact tableExact_congr (hl.exact tk info hti) hH (listenSel_core tk hS)
  · rw [hr, hl.refresh, hS]
    constructor
    · rintro ⟨hk, h, hg, hm⟩
      obtain ⟨h', hg', hcore⟩ := coreEq_some (hH k hk) hg
      have e : h'.archFilter = h.archFilter := (congrArg HInfo.archFilter hcore : h'.core.archFilter = h.core.archFilter)
      exact ⟨hk, h', hg', by rw [e]; exact hm⟩
    · rintro ⟨hk, h', hg', hm⟩
      obtain ⟨h, hg, hcore⟩ := coreEq_some' (hH k hk) hg'
      have e : h'.archFilter = h.archFilter := (congrArg HInfo.archFilter hcore : h'.core.archFilter = h.core.archFilter)
      exact ⟨hk, h, hg, by rw [← e]; exact hm⟩

/-- the same archetype up to the fields G3 does not read -/
theorem archListsOK_same {ord : List Key} {H : SlotMap HInfo} {T : SlotMap EvInfo} {a a' : Arch}
    (hl : ArchListsOK ord H T a) (hr : a'.refresh = a.refresh) (hli : a'.listeners = a.listeners)
    (hc : a'.comps = a.comps) : ArchListsOK ord H T a' :=
  archListsOK_congr hl (fun _ _ => rfl) hr hli hc

/-- **the frame rule for G3**: same lists, same event registries, the handler registry the same up to fetcher caches
    (as a slot map: generations, free list and `len` included), and every archetype has exact lists -/
theorem listsInv'_congr {H H' : SlotMap HInfo} {bg : List (HandlerList Key)} {ord : List Key} {ctr : Nat}
    {A A' : Slab Arch} {G T : SlotMap EvInfo} (h : ListsInv' H bg ord ctr A G T)
    (hH : H'.mapVal HInfo.core = H.mapVal HInfo.core)
    (ha : ∀ i a', A'.get i = some a' → ArchListsOK ord H' T a') : ListsInv' H' bg ord ctr A' G T := by
  have hco : CoreEqOn ord H H' := CoreEqOn.of_mapVal hH
  have hget : ∀ k, (H'.get k).map HInfo.core = (H.get k).map HInfo.core := fun k => by
    have := congrArg (fun sm => SlotMap.get sm k) hH
    simpa only [SlotMap.get_mapVal] using this
  have hcont : ∀ k, H'.contains k = H.contains k := fun k => by
    rw [← SlotMap.contains_mapVal HInfo.core H', hH, SlotMap.contains_mapVal]
  have hlen : H'.len = H.len := by
    have := congrArg SlotMap.len hH
    exact this
  refine ⟨h.ordNodup, fun k => by rw [hcont]; exact h.ordMem k, by rw [hlen]; exact h.ordLen, ?_,
    fun k h' hk => ?_, h.gInv, fun gk info hg => ?_, h.gDead, ha⟩
  · have : (ord.filterMap fun k => (H'.get k).map (·.order)) = ord.filterMap fun k => (H.get k).map (·.order) := by
      apply filterMap_congr_mem
      intro k _
      have := congrArg (Option.map HInfo.order) (hget k)
      rw [Option.map_map, Option.map_map] at this
      exact this
    rw [this]
    exact h.ordSorted
  · obtain ⟨h0, hg0, hc⟩ := coreEq_some' (hget k) hk
    exact handlerOK_of_core hc (h.handler k h0 hg0)
  · obtain ⟨l, hl, hex⟩ := h.gExact gk info hg
    exact ⟨l, hl, tableExact_congr hex hco (globalSel_core gk)⟩

/-- the frame rule, world level: every live archetype of `w'` is a live archetype of `w` at the same index with the
    same `refresh`, `listeners`, `comps` -/
theorem listsInv_of_frames {w w' : World} (h : ListsInv w) (hbg : w'.byGlobal = w.byGlobal)
    (hord : w'.byInsertOrder = w.byInsertOrder) (hctr : w'.insertCounter = w.insertCounter)
    (hg : w'.gevs = w.gevs) (ht : w'.tevs = w.tevs)
    (hH : w'.handlers.mapVal HInfo.core = w.handlers.mapVal HInfo.core)
    (ha : ∀ i a', w'.archs.get i = some a' → ∃ a, w.archs.get i = some a ∧ a'.refresh = a.refresh ∧
      a'.listeners = a.listeners ∧ a'.comps = a.comps) : ListsInv w' := by
  show ListsInv' w'.handlers w'.byGlobal w'.byInsertOrder w'.insertCounter w'.archs w'.gevs w'.tevs
  rw [hbg, hord, hctr, hg, ht]
  refine listsInv'_congr h hH fun i a' hi => ?_
  obtain ⟨a, hia, h1, h2, h3⟩ := ha i a' hi
  exact archListsOK_congr (h.arch i a hia) (CoreEqOn.of_mapVal hH) h1 h2 h3

end InvV3
end Evenio
