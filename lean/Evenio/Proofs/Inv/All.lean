import Evenio.Proofs.WInv
import Evenio.Proofs.Inv.Mono
import Evenio.Proofs.Inv.Calculus
import Evenio.Proofs.Inv.Obligations
import Evenio.Proofs.Inv.Glue
import Evenio.Proofs.Inv.Registry
import Evenio.Proofs.Inv.Store
import Evenio.Proofs.Inv.Lists
import Evenio.Proofs.Inv.Exec
import Evenio.Proofs.Inv.StoreAll
import Evenio.Proofs.Inv.Cache
import Evenio.Proofs.Inv.ExecChecks
import Evenio.Proofs.Inv.FactsConfig
import Evenio.Proofs.Inv.FactsRemove
import Evenio.Proofs.Inv.ListsAll
import Evenio.Proofs.Inv.ListsECex
import Evenio.Proofs.Inv.Pending
import Evenio.Proofs.Inv.AllV7
import Evenio.Proofs.Inv.Instance
import Evenio.Proofs.Inv.ReachPanic
/-! Everything about the logical world invariant in one environment: definitions (`WInv.lean`), the calculus, the
    obligations, the group independent glue, the seeds of the group files and the bridge to the executable invariant.
    `lake build Evenio.Proofs.Inv.All`.  Plan: `Evenio/Proofs/WInvPlan.md`. -/
