import Evenio.Proofs.Inv.Store
/-! # G2 — `Step.setGen` keeps the storage group (worker 2)

The hook renames a live entity: the generation of its slot becomes `g` and the id stored in its row becomes
`⟨id.idx, g⟩`.  The bijection between locations and rows is transported along the renaming; `SlotMap.WF` needs `g` odd
and `g < GENMOD` (the slot stays occupied, the free list does not pass through it). -/
namespace Evenio
namespace InvV2

section
variable {E : SlotMap Loc} {id : Key} {loc : Loc} {s : Slot Loc}

/-- the entity slot map after the renaming -/
def regen (E : SlotMap Loc) (id : Key) (s : Slot Loc) (g : Nat) : SlotMap Loc :=
  { E with slots := E.slots.set id.idx { s with gen := g } }

theorem slot_of_get (hget : E.get id = some loc) (hs : E.slots[id.idx]? = some s) :
    s.gen = id.gen ∧ s.val = some loc := by
  obtain ⟨s', hs', hg, hv⟩ := SlotMap.get_eq_some hget
  rw [hs] at hs'; cases hs'
  exact ⟨hg, hv⟩

theorem regen_get (g : Nat) (hget : E.get id = some loc) (hs : E.slots[id.idx]? = some s) (k : Key) :
    (regen E id s g).get k = if k.idx = id.idx then (if g = k.gen then some loc else none) else E.get k := by
  obtain ⟨-, hv⟩ := slot_of_get hget hs
  have hlt : id.idx < E.slots.length := (List.getElem?_eq_some_iff.1 hs).1
  unfold regen SlotMap.get
  dsimp only
  by_cases hk : k.idx = id.idx
  · rw [if_pos hk, hk, List.getElem?_set_self hlt]
    dsimp only
    rw [hv]
  · rw [if_neg hk, List.getElem?_set_ne (Ne.symm hk)]

theorem regen_wf {g : Nat} (wf : E.WF) (hget : E.get id = some loc) (hs : E.slots[id.idx]? = some s)
    (hodd : g % 2 = 1) (hg : g < GENMOD) : (regen E id s g).WF := by
  obtain ⟨-, hv⟩ := slot_of_get hget hs
  have hlt : id.idx < E.slots.length := (List.getElem?_eq_some_iff.1 hs).1
  have hsodd : s.gen % 2 = 1 := (wf.valIff _ _ hs).1 (by rw [hv]; rfl)
  have hslot : ∀ (i : Nat) (t : Slot Loc), (regen E id s g).slots[i]? = some t →
      (i = id.idx ∧ t = { s with gen := g }) ∨ (i ≠ id.idx ∧ E.slots[i]? = some t) := by
    intro i t ht
    unfold regen at ht
    dsimp only at ht
    by_cases hi : i = id.idx
    · subst hi
      rw [List.getElem?_set_self hlt] at ht
      cases ht; exact .inl ⟨rfl, rfl⟩
    · rw [List.getElem?_set_ne (Ne.symm hi)] at ht
      exact .inr ⟨hi, ht⟩
  refine ⟨fun i t ht => ?_, fun i t ht => ?_, ?_, ?_, ?_⟩
  · rcases hslot i t ht with ⟨-, rfl⟩ | ⟨-, ht'⟩
    · exact hg
    · exact wf.genLt i t ht'
  · rcases hslot i t ht with ⟨-, rfl⟩ | ⟨-, ht'⟩
    · show s.val.isSome = true ↔ g % 2 = 1
      rw [hv]; exact ⟨fun _ => hodd, fun _ => rfl⟩
    · exact wf.valIff i t ht'
  · obtain ⟨fl, c, nd⟩ := wf.chain
    refine ⟨fl, c.set _ fun hm => ?_, nd⟩
    obtain ⟨t, ht, he, -⟩ := c.mem _ hm
    rw [hs] at ht; cases ht
    omega
  · show E.len = (E.slots.set id.idx { s with gen := g }).countP _
    rw [wf.lenEq, List.countP_set hlt]
    have : E.slots[id.idx] = s := (List.getElem?_eq_some_iff.1 hs).2
    simp only [this, hsodd, hodd, beq_self_eq_true, if_true]
    have : 0 < List.countP (fun s => s.gen % 2 == 1) E.slots :=
      List.countP_pos_iff.2 ⟨s, List.mem_of_getElem? hs, by simp [hsodd]⟩
    omega
  · show (E.slots.set id.idx _).length ≤ U32MAX
    rw [List.length_set]; exact wf.size

end

end InvV2

/-- **`Step.setGen` keeps the storage group** -/
theorem setGen_keeps_store : Obl.setGen_keeps .store := by
  intro w id g loc s a hw hget hs ha hodd _ hg
  obtain ⟨hall, hE, hbij⟩ := InvV2.storeInv_iff.1 hw.store
  obtain ⟨hsg, hv⟩ := InvV2.slot_of_get hget hs
  have hoka := hall _ a ha
  -- the row of `id`
  obtain ⟨a1, ha1, hrow⟩ := (hbij id loc).1 hget
  rw [ha] at ha1; cases ha1
  have hrlt : loc.row < a.ids.length := (List.getElem?_eq_some_iff.1 hrow).1
  -- a live key with the index of `id` is `id`
  have huniq : ∀ k l, w.entities.get k = some l → k.idx = id.idx → k = id ∧ l = loc := by
    intro k l hk hi
    obtain ⟨t, ht, htg, htv⟩ := SlotMap.get_eq_some hk
    rw [hi, hs] at ht; cases ht
    have : k = id := by
      cases k; cases id
      simp only at hi htg hsg
      rw [Key.mk.injEq]; exact ⟨hi, by rw [← htg, hsg]⟩
    subst this
    rw [hget] at hk; cases hk
    exact ⟨rfl, rfl⟩
  show StoreInv' (w.archs.set a.index { a with ids := a.ids.set loc.row ⟨id.idx, g⟩ }) (InvV2.regen w.entities id s g)
  have hget' : ∀ j, (w.archs.set a.index { a with ids := a.ids.set loc.row ⟨id.idx, g⟩ }).get j =
      if j = loc.arch then some { a with ids := a.ids.set loc.row ⟨id.idx, g⟩ } else w.archs.get j := by
    intro j
    rw [hoka.index, Slab.get_set, ha]
    rfl
  refine InvV2.storeInv_iff.2 ⟨fun j b hb => ?_, InvV2.regen_wf hE hget hs hodd hg, fun k l => ?_⟩
  · rw [hget'] at hb
    split at hb
    · next hj =>
      cases hb
      subst hj
      refine ⟨hoka.index, hoka.cols_len, fun col hc => ?_, hoka.sorted, ?_⟩
      · show col.length = (a.ids.set loc.row _).length
        rw [List.length_set]; exact hoka.col_len col hc
      · show (a.ids.set loc.row _).length ≤ a.cap
        rw [List.length_set]; exact hoka.cap
    · exact hall j b hb
  · rw [InvV2.regen_get g hget hs]
    constructor
    · intro hk
      split at hk
      · next hi =>
        split at hk
        · next hgk =>
          cases hk
          have : k = ⟨id.idx, g⟩ := by cases k; simp only at hi hgk; rw [hi, hgk]
          subst this
          refine ⟨_, by rw [hget', if_pos rfl], ?_⟩
          show (a.ids.set loc.row _)[loc.row]? = _
          rw [List.getElem?_set_self hrlt]
        · cases hk
      · next hi =>
        obtain ⟨b, hb, hr⟩ := (hbij k l).1 hk
        by_cases hj : l.arch = loc.arch
        · rw [hj, ha] at hb; cases hb
          have hne : loc.row ≠ l.row := by
            intro he
            rw [← he, hrow] at hr
            cases hr; exact hi rfl
          refine ⟨_, by rw [hget', if_pos hj], ?_⟩
          show (a.ids.set loc.row _)[l.row]? = _
          rw [List.getElem?_set_ne hne]; exact hr
        · exact ⟨b, by rw [hget', if_neg hj]; exact hb, hr⟩
    · rintro ⟨b, hb, hr⟩
      rw [hget'] at hb
      split at hb
      · next hj =>
        cases hb
        have hr' : (a.ids.set loc.row ⟨id.idx, g⟩)[l.row]? = some k := hr
        by_cases hrow' : loc.row = l.row
        · rw [← hrow', List.getElem?_set_self hrlt] at hr'
          cases hr'
          have : l = loc := by cases l; cases loc; simp only at hj hrow'; rw [hj, hrow']
          rw [if_pos rfl, if_pos rfl, this]
        · rw [List.getElem?_set_ne hrow'] at hr'
          have hk : w.entities.get k = some l := (hbij k l).2 ⟨a, by rw [hj]; exact ha, hr'⟩
          have hi : k.idx ≠ id.idx := by
            intro hi
            obtain ⟨-, rfl⟩ := huniq k l hk hi
            exact hrow' rfl
          rw [if_neg hi]; exact hk
      · next hj =>
        have hk : w.entities.get k = some l := (hbij k l).2 ⟨b, hb, hr⟩
        have hi : k.idx ≠ id.idx := by
          intro hi
          obtain ⟨-, rfl⟩ := huniq k l hk hi
          exact hj rfl
        rw [if_neg hi]; exact hk

example : Obl.setGen_keeps .store := setGen_keeps_store

end Evenio
