import Evenio.Proofs.Inv.Facts
/-! # Functional facts for the glue of `removeComponent` (plan §5, "for `removeComponent` additionally")

`removeComponent k` = announcement, despawns, flush, then
1. the loop `removeAll (compUsers w k)` over the handlers referencing the component,
2. the loop `removeEvents (info.insEvents ++ info.remEvents)` over its Insert/Remove events,
3. `comps.remove k`, `Step.dropComp`, `dropCompTail` (`removeComponent_shape`: the named pieces ARE the pieces of the model's
   code).

Facts (all in run form):
* `removeAll_compUsers_noRef` — after loop 1 no live handler references `k.idx`; `removeAll_cores'` — the other handlers
  keep their registry entries up to caches;
* `removeEvents_clears` — after loop 2 the component is live with the same `id` / `ty` and its `insEvents` / `remEvents`
  are empty.  Hypothesis beyond `RegistryInv`: every entry of `tevs` has a targeted type (`removeEvent ei.ty ev` branches
  on `ei.ty.targeted`; `WInv` does not provide it);
* `compUnused_of` — the two together give `CompUnused`;
* `CompAt k i t` (the component `k` is live with id `i` and type `t`) is kept by every piece before the final removal:
  `sendGlobal_compAt`, `addTargetedEvent_compAt`, `push_compAt`, `flush_compAt`, `removeHandler_compAt`,
  `removeAll_compAt`, `removeEvent_compAt`, `removeEvents_compAt`. -/
namespace Evenio

/-- the `toRemove` list of `removeComponent k`, computed in the world the despawn flush left -/
def compUsers (w : World) (k : Key) : List Key :=
  w.byInsertOrder.filter fun hk =>
    match w.handlers.get hk with
    | some h => h.referenced.contains k.idx
    | none => false

/-- the second removal loop of `removeComponent`, verbatim -/
def removeEvents (evs : List Key) : M PUnit :=
  forIn evs PUnit.unit fun ev _ => do
    let w ← get
    match w.tevs.get ev with
    | some ei =>
      let _ ← removeEvent ei.ty ev
      pure (ForInStep.yield PUnit.unit)
    | none => pure (ForInStep.yield PUnit.unit)

/-- the despawn announcements of `removeComponent`, verbatim -/
def pushDespawns (k dk : Key) : M PUnit := do
  for (_, a) in (← get).archs.toList do
    if a.comps.contains k.idx then
      for id in a.ids do
        push { ty := .despawn, idx := dk.idx, target := id }

/-- **the named pieces are the pieces of the model's code** -/
theorem removeComponent_shape (k : Key) :
    removeComponent k = (do
      if !(← get).comps.contains k then return false
      sendGlobal .remC { id := k }
      let dk ← addTargetedEvent .despawn
      pushDespawns k dk
      flush FUEL
      let w ← get
      removeAll (compUsers w k)
      let w ← get
      match w.comps.get k with
      | none => throw (.panic "invalidindex")
      | some info =>
        removeEvents (info.insEvents ++ info.remEvents)
        let w ← get
        match w.comps.remove k with
        | none => throw (.panic "internal:component should still exist")
        | some (info, comps) =>
          set (Step.dropComp w k comps)
          archsRemoveComponent info
          resRefresh
          pure true : M Bool) := by
  unfold removeComponent pushDespawns
  simp only [bind_assoc]
  rfl

/-! ## 1. the handler loop -/

/-- after `removeAll l` the registry holds exactly the other handlers, with the same entries up to caches -/
theorem removeAll_cores' (l : List Key) (w w' : World) (hr : (removeAll l).run.run w = (.ok PUnit.unit, w'))
    (k' : Key) :
    (w'.handlers.get k').map HInfo.core = if k' ∈ l then none else (w.handlers.get k').map HInfo.core :=
  InvV6.removeAll_cores l w w' hr k'

/-- **after the `removeHandler` loop of `removeComponent k` no live handler references the component** -/
theorem removeAll_compUsers_noRef (k : Key) (w w' : World) (hw : WInvMid w)
    (hr : (removeAll (compUsers w k)).run.run w = (.ok PUnit.unit, w')) :
    ∀ hk h, w'.handlers.get hk = some h → k.idx ∉ h.referenced := by
  intro hk h' hg'
  have hcore := removeAll_cores' _ w w' hr hk
  rw [hg'] at hcore
  by_cases hm : hk ∈ compUsers w k
  · rw [if_pos hm] at hcore; cases hcore
  · rw [if_neg hm] at hcore
    cases hg : w.handlers.get hk with
    | none => rw [hg] at hcore; cases hcore
    | some h =>
      rw [hg] at hcore
      simp only [Option.map_some, Option.some.injEq] at hcore
      have e1 : h'.referenced = h.referenced :=
        (congrArg HInfo.referenced hcore : h'.core.referenced = h.core.referenced)
      have hord : hk ∈ w.byInsertOrder := (hw.lists.ordMem hk).2 (by simp [SlotMap.contains, hg])
      rw [e1]
      intro hc
      apply hm
      unfold compUsers
      rw [List.mem_filter]
      refine ⟨hord, ?_⟩
      rw [hg]
      simpa using hc

/-! ## 3. the component stays live, with its id and type, until the final removal -/

/-- what identifies a component entry -/
def CompInfo.tag (ci : CompInfo) : Key × Nat := (ci.id, ci.ty)

/-- the component registry up to everything but `id` and `ty` -/
abbrev CT (c : SlotMap (Key × Nat)) : World → Prop := fun w => w.comps.mapVal CompInfo.tag = c

/-- the component `k` is live with id `i` and type `t` -/
def CompAt (k i : Key) (t : Nat) : World → Prop := fun w => ∃ ci, w.comps.get k = some ci ∧ ci.id = i ∧ ci.ty = t

namespace InvV6

theorem mapVal_mapVal {α β γ : Type} (f : α → β) (g : β → γ) (sm : SlotMap α) :
    (sm.mapVal f).mapVal g = sm.mapVal (g ∘ f) := by
  unfold SlotMap.mapVal
  simp only [List.map_map]
  congr 1
  apply List.map_congr_left
  intro s _
  simp [Slot.mapVal, Function.comp]

theorem keeps_ct_of_cc {α : Type} {m : M α} (h : ∀ c, Keeps (CC c) m) {c : SlotMap (Key × Nat)} :
    Keeps (CT c) m := by
  refine ⟨fun w hw => ?_⟩
  have e : (m.run.run w).2.compsCore = w.compsCore := (h w.compsCore).run w rfl
  have ht : ∀ sm : SlotMap CompInfo, sm.mapVal CompInfo.tag = (sm.mapVal CompInfo.core).mapVal CompInfo.tag := by
    intro sm
    rw [mapVal_mapVal]
    rfl
  show (m.run.run w).2.comps.mapVal CompInfo.tag = c
  rw [ht, show (m.run.run w).2.comps.mapVal CompInfo.core = w.comps.mapVal CompInfo.core from e, ← ht]
  exact hw

theorem keeps_compAt_of_ct {α : Type} {m : M α} (h : ∀ c, Keeps (CT c) m) (k i : Key) (t : Nat) :
    Keeps (CompAt k i t) m := by
  refine ⟨fun w hw => ?_⟩
  have e : (m.run.run w).2.comps.mapVal CompInfo.tag = w.comps.mapVal CompInfo.tag :=
    (h (w.comps.mapVal CompInfo.tag)).run w rfl
  obtain ⟨ci, h1, h2, h3⟩ := hw
  have := congrArg (fun sm => SlotMap.get sm k) e
  simp only [SlotMap.get_mapVal, h1, Option.map_some] at this
  cases hg : (m.run.run w).2.comps.get k with
  | none => rw [hg] at this; cases this
  | some ci' =>
    rw [hg] at this
    simp only [Option.map_some, Option.some.injEq, CompInfo.tag, Prod.mk.injEq] at this
    exact ⟨ci', hg, this.1.trans h2, this.2.trans h3⟩

theorem ct_set {c : SlotMap (Key × Nat)} {w : World} (h : CT c w) {i : Nat} {k : Key} {ci : CompInfo}
    (hg : w.comps.getByIndex i = some (k, ci)) (v : CompInfo) (hv : v.tag = ci.tag) :
    SlotMap.mapVal CompInfo.tag (w.comps.set k v) = c := by
  rw [SlotMap.mapVal_set CompInfo.tag (SlotMap.getByIndex_get hg).1 hv]
  exact h

section
variable {c : SlotMap CompInfo}
local macro_rules | `(tactic| keeps_leaf) => `(tactic| exact sendGlobal_cc _ _)
theorem removeHandler_cc (k : Key) : Keeps (CC c) (removeHandler k) := by unfold removeHandler; keeps
theorem removeAll_cc (l : List Key) : Keeps (CC c) (removeAll l) := by
  have := @removeHandler_cc c
  unfold removeAll
  refine Keeps.forIn_list fun hk _ => Keeps.bind (this hk) fun _ => Keeps.pure _
end

section
variable {t : SlotMap EvInfo}
theorem dbgAssert_tv (b : Bool) (s : String) : Keeps (TV t) (dbgAssert b s) :=
  keeps_tv_of_ev fun g => Keeps.ev_of_frame (fun _ => dbgAssert_fr b s) g
theorem setArch_tv (a : Arch) : Keeps (TV t) (setArch a) :=
  keeps_tv_of_ev fun g => Keeps.ev_of_frame (fun _ => setArch_fr a) g
local macro_rules | `(tactic| keeps_leaf) => `(tactic| exact sendGlobal_tv _ _)
local macro_rules | `(tactic| keeps_leaf) => `(tactic| exact dbgAssert_tv _ _)
local macro_rules | `(tactic| keeps_leaf) => `(tactic| exact setArch_tv _)
theorem removeHandler_tv (k : Key) : Keeps (TV t) (removeHandler k) := by unfold removeHandler; keeps
theorem removeAll_tv (l : List Key) : Keeps (TV t) (removeAll l) := by
  have := @removeHandler_tv t
  unfold removeAll
  refine Keeps.forIn_list fun hk _ => Keeps.bind (this hk) fun _ => Keeps.pure _
end

end InvV6

open InvV6

section
variable {c : SlotMap (Key × Nat)}

theorem sendGlobal_ct (ty : EvTy) (pay : Payload) : Keeps (CT c) (sendGlobal ty pay) :=
  keeps_ct_of_cc fun _ => sendGlobal_cc ty pay
theorem push_ct (it : QItem) : Keeps (CT c) (push it) := keeps_ct_of_cc fun _ => push_cc it
theorem flush_ct (fuel : Nat) : Keeps (CT c) (flush fuel) := keeps_ct_of_cc fun _ => flush_cc fuel
theorem removeHandler_ct (k : Key) : Keeps (CT c) (removeHandler k) := keeps_ct_of_cc fun _ => removeHandler_cc k
theorem removeAll_ct (l : List Key) : Keeps (CT c) (removeAll l) := keeps_ct_of_cc fun _ => removeAll_cc l

local macro_rules | `(tactic| keeps_leaf) => `(tactic| exact sendGlobal_ct _ _)
local macro_rules | `(tactic| keeps_leaf) => `(tactic| exact push_ct _)
local macro_rules | `(tactic| keeps_leaf) => `(tactic| exact removeHandler_ct _)

theorem addTargetedEvent_despawn_ct : Keeps (CT c) (addTargetedEvent .despawn) := by
  unfold addTargetedEvent; keeps
  all_goals exact Keeps.set (ct_set ‹_› ‹_› _ (by exact rfl))

theorem pushDespawns_ct (k dk : Key) : Keeps (CT c) (pushDespawns k dk) := by unfold pushDespawns; keeps

theorem assertQueueEmpty_ct : Keeps (CT c) assertQueueEmpty := by unfold assertQueueEmpty; keeps
local macro_rules | `(tactic| keeps_leaf) => `(tactic| exact assertQueueEmpty_ct)

theorem removeEvent_ct (ty : EvTy) (k : Key) : Keeps (CT c) (removeEvent ty k) := by
  unfold removeEvent; keeps
  all_goals exact Keeps.set (ct_set ‹_› ‹_› _ (by exact rfl))
local macro_rules | `(tactic| keeps_leaf) => `(tactic| exact removeEvent_ct _ _)

theorem removeEvents_ct (evs : List Key) : Keeps (CT c) (removeEvents evs) := by unfold removeEvents; keeps

end

section
variable (k i : Key) (t : Nat)
theorem sendGlobal_compAt (ty : EvTy) (pay : Payload) : Keeps (CompAt k i t) (sendGlobal ty pay) :=
  keeps_compAt_of_ct (fun _ => sendGlobal_ct ty pay) k i t
theorem addTargetedEvent_despawn_compAt : Keeps (CompAt k i t) (addTargetedEvent .despawn) :=
  keeps_compAt_of_ct (fun _ => addTargetedEvent_despawn_ct) k i t
theorem pushDespawns_compAt (k' dk : Key) : Keeps (CompAt k i t) (pushDespawns k' dk) :=
  keeps_compAt_of_ct (fun _ => pushDespawns_ct k' dk) k i t
theorem push_compAt (it : QItem) : Keeps (CompAt k i t) (push it) := keeps_compAt_of_ct (fun _ => push_ct it) k i t
theorem flush_compAt (fuel : Nat) : Keeps (CompAt k i t) (flush fuel) :=
  keeps_compAt_of_ct (fun _ => flush_ct fuel) k i t
theorem removeHandler_compAt (hk : Key) : Keeps (CompAt k i t) (removeHandler hk) :=
  keeps_compAt_of_ct (fun _ => removeHandler_ct hk) k i t
theorem removeAll_compAt (l : List Key) : Keeps (CompAt k i t) (removeAll l) :=
  keeps_compAt_of_ct (fun _ => removeAll_ct l) k i t
theorem removeEvent_compAt (ty : EvTy) (ev : Key) : Keeps (CompAt k i t) (removeEvent ty ev) :=
  keeps_compAt_of_ct (fun _ => removeEvent_ct ty ev) k i t
theorem removeEvents_compAt (evs : List Key) : Keeps (CompAt k i t) (removeEvents evs) :=
  keeps_compAt_of_ct (fun _ => removeEvents_ct evs) k i t
end

/-! ## 2. the event loop -/

namespace InvV6

/-- the loop invariant: entries of `tevs` have targeted types; the component `k` is live with id `i0`, type `t0`; its
    Insert/Remove events satisfy `P`, are live and of the kind that points back to `k` -/
structure JB (k i0 : Key) (t0 : Nat) (P : Key → Prop) (C : SlotMap CompInfo) (T : SlotMap EvInfo) : Prop where
  typed : ∀ e ei, T.get e = some ei → ei.ty.targeted = true
  comp : ∃ ci, C.get k = some ci ∧ ci.id = i0 ∧ ci.ty = t0 ∧
    (∀ e ∈ ci.insEvents, P e ∧ ∃ ei, T.get e = some ei ∧ ei.kind = .insert k.idx) ∧
    (∀ e ∈ ci.remEvents, P e ∧ ∃ ei, T.get e = some ei ∧ ei.kind = .remove k.idx)

abbrev JBW (k i0 : Key) (t0 : Nat) (P : Key → Prop) : World → Prop := fun w => JB k i0 t0 P w.comps w.tevs

theorem JB.mono {k i0 : Key} {t0 : Nat} {P Q : Key → Prop} {C : SlotMap CompInfo} {T : SlotMap EvInfo}
    (h : JB k i0 t0 P C T) (hPQ : ∀ e, P e → Q e) : JB k i0 t0 Q C T := by
  obtain ⟨h1, ci, h2, h3, h4, h5, h6⟩ := h
  exact ⟨h1, ci, h2, h3, h4, fun e he => ⟨hPQ e (h5 e he).1, (h5 e he).2⟩,
    fun e he => ⟨hPQ e (h6 e he).1, (h6 e he).2⟩⟩

/-- whatever keeps `comps` up to `memberOf` and `tevs` keeps the loop invariant -/
theorem keeps_jb {α : Type} {m : M α} (hcc : ∀ c, Keeps (CC c) m) (htv : ∀ t, Keeps (TV t) m) {k i0 : Key}
    {t0 : Nat} {P : Key → Prop} : Keeps (JBW k i0 t0 P) m := by
  refine ⟨fun w hw => ?_⟩
  have e1 : (m.run.run w).2.compsCore = w.compsCore := (hcc w.compsCore).run w rfl
  have e2 : (m.run.run w).2.tevs = w.tevs := (htv w.tevs).run w rfl
  obtain ⟨h1, ci, h2, h3, h4, h5, h6⟩ := hw
  obtain ⟨ci', g1, g2⟩ := comp_live_of_cc e1 h2
  have f1 : ci'.id = ci.id := (congrArg CompInfo.id g2 : ci'.core.id = ci.core.id)
  have f2 : ci'.insEvents = ci.insEvents := (congrArg CompInfo.insEvents g2 : ci'.core.insEvents = ci.core.insEvents)
  have f3 : ci'.remEvents = ci.remEvents := (congrArg CompInfo.remEvents g2 : ci'.core.remEvents = ci.core.remEvents)
  show JB k i0 t0 P (m.run.run w).2.comps (m.run.run w).2.tevs
  rw [e2]
  exact ⟨h1, ci', g1, f1.trans h3, (core_ty g2).trans h4, by rw [f2]; exact h5, by rw [f3]; exact h6⟩

theorem removeAll_ri {D : List (Char × Key)} (l : List Key) : Keeps (RegInv D) (removeAll l) := by
  unfold removeAll
  exact Keeps.forIn_list fun hk _ => Keeps.bind (removeHandler_ri hk) fun _ => Keeps.pure _

theorem removeEvent_ok_queue {ty : EvTy} {k : Key} {w w' : World} {b : Bool}
    (hr : (removeEvent ty k).run.run w = (.ok b, w')) : w.queue = [] := by
  cases hq : w.queue with
  | nil => rfl
  | cons q qs =>
    exfalso
    unfold removeEvent assertQueueEmpty at hr
    simp only [run_bind, run_get, hq, List.isEmpty_cons, Bool.not_false, if_true, run_throw] at hr
    cases hr

theorem unnote_tevs (w : World) (kind : EvKind) (ev : Key) : (unnote w kind ev).tevs = w.tevs := by
  unfold unnote
  cases kind with
  | insert c => dsimp only; cases w.comps.getByIndex c <;> rfl
  | remove c => dsimp only; cases w.comps.getByIndex c <;> rfl
  | _ => rfl

/-- what the bookkeeping of a removed event does to the entry of the component `k` -/
theorem unnote_comp {w : World} (wfc : w.comps.WF) {k : Key} {ci : CompInfo} (hk : w.comps.get k = some ci)
    (kind : EvKind) (ev : Key) :
    ∃ ci', (unnote w kind ev).comps.get k = some ci' ∧ ci'.id = ci.id ∧ ci'.ty = ci.ty ∧
      (∀ e ∈ ci'.insEvents, e ∈ ci.insEvents) ∧ (∀ e ∈ ci'.remEvents, e ∈ ci.remEvents) ∧
      (kind = .insert k.idx → ev ∉ ci'.insEvents) ∧ (kind = .remove k.idx → ev ∉ ci'.remEvents) := by
  have hkidx : w.comps.getByIndex k.idx = some (k, ci) := SlotMap.get_getByIndex wfc hk
  have same : ∀ {c : Nat}, (c = k.idx → False) →
      ∃ ci', w.comps.get k = some ci' ∧ ci'.id = ci.id ∧ ci'.ty = ci.ty ∧
        (∀ e ∈ ci'.insEvents, e ∈ ci.insEvents) ∧ (∀ e ∈ ci'.remEvents, e ∈ ci.remEvents) := fun _ =>
    ⟨ci, hk, rfl, rfl, fun _ h => h, fun _ h => h⟩
  unfold unnote
  cases kind with
  | insert c =>
    dsimp only
    cases hc : w.comps.getByIndex c with
    | none =>
      refine ⟨ci, hk, rfl, rfl, fun _ h => h, fun _ h => h, fun hkind => ?_, nofun⟩
      cases hkind
      rw [hkidx] at hc; cases hc
    | some p =>
      obtain ⟨ck, cj⟩ := p
      dsimp only
      obtain ⟨hcj, hcidx⟩ := SlotMap.getByIndex_get hc
      rw [SlotMap.get_set hcj _ k]
      by_cases hkk : k = ck
      · subst hkk
        rw [hk] at hcj; cases hcj
        rw [if_pos rfl]
        refine ⟨_, rfl, rfl, rfl, fun e he => (List.mem_filter.1 he).1, fun _ h => h, fun _ he => ?_,
          nofun⟩
        have := (List.mem_filter.1 he).2
        simp at this
      · rw [if_neg hkk]
        refine ⟨ci, hk, rfl, rfl, fun _ h => h, fun _ h => h, fun hkind => ?_, nofun⟩
        cases hkind
        rw [hkidx] at hc; cases hc
        exact absurd rfl hkk
  | remove c =>
    dsimp only
    cases hc : w.comps.getByIndex c with
    | none =>
      refine ⟨ci, hk, rfl, rfl, fun _ h => h, fun _ h => h, nofun, fun hkind => ?_⟩
      cases hkind
      rw [hkidx] at hc; cases hc
    | some p =>
      obtain ⟨ck, cj⟩ := p
      dsimp only
      obtain ⟨hcj, hcidx⟩ := SlotMap.getByIndex_get hc
      rw [SlotMap.get_set hcj _ k]
      by_cases hkk : k = ck
      · subst hkk
        rw [hk] at hcj; cases hcj
        rw [if_pos rfl]
        refine ⟨_, rfl, rfl, rfl, fun _ h => h, fun e he => (List.mem_filter.1 he).1, nofun,
          fun _ he => ?_⟩
        have := (List.mem_filter.1 he).2
        simp at this
      · rw [if_neg hkk]
        refine ⟨ci, hk, rfl, rfl, fun _ h => h, fun _ h => h, nofun, fun hkind => ?_⟩
        cases hkind
        rw [hkidx] at hc; cases hc
        exact absurd rfl hkk
  | normal => exact ⟨ci, hk, rfl, rfl, fun _ h => h, fun _ h => h, nofun, nofun⟩
  | spawn => exact ⟨ci, hk, rfl, rfl, fun _ h => h, fun _ h => h, nofun, nofun⟩
  | despawn => exact ⟨ci, hk, rfl, rfl, fun _ h => h, fun _ h => h, nofun, nofun⟩

/-- one iteration: removing the live event `ev` takes it off the component's lists -/
theorem removeEvent_jb {k i0 : Key} {t0 : Nat} {P : Key → Prop} {ev : Key} {ei : EvInfo} {w w' : World} {b : Bool}
    (hri : RegInv [] w) (hj : JBW k i0 t0 P w) (hev : w.tevs.get ev = some ei)
    (hr : (removeEvent ei.ty ev).run.run w = (.ok b, w')) : JBW k i0 t0 (fun e => P e ∧ e ≠ ev) w' := by
  have ht : ei.ty.targeted = true := hj.typed ev ei hev
  have hq := removeEvent_ok_queue hr
  rw [removeEvent_run _ _ _ hq (by simp [ht, SlotMap.contains, hev])] at hr
  simp only [ht, if_true] at hr
  rw [run_bind] at hr
  -- the announcement
  have k1 := (keeps_jb (k := k) (i0 := i0) (t0 := t0) (P := P) (fun _ => sendGlobal_cc .remT { id := ev })
    (fun _ => sendGlobal_tv .remT { id := ev })).run w hj
  have r1 := (sendGlobal_ri (D := []) .remT { id := ev }).run w hri
  have t1 := (sendGlobal_tv (t := w.tevs) .remT { id := ev }).run w rfl
  generalize (sendGlobal .remT { id := ev }).run.run w = res1 at hr k1 r1 t1
  obtain ⟨(e|u), w1⟩ := res1
  · cases hr
  dsimp only at hr k1 r1 t1
  rw [run_bind, run_get] at hr
  dsimp only at hr
  rw [run_bind] at hr
  -- the handlers using the event
  have k2 := (keeps_jb (k := k) (i0 := i0) (t0 := t0) (P := P) (fun _ => removeAll_cc (eventUsers w1 ei.ty ev))
    (fun _ => removeAll_tv (eventUsers w1 ei.ty ev))).run w1 k1
  have r2 := (removeAll_ri (D := []) (eventUsers w1 ei.ty ev)).run w1 r1
  have t2 := (removeAll_tv (t := w1.tevs) (eventUsers w1 ei.ty ev)).run w1 rfl
  generalize (removeAll (eventUsers w1 ei.ty ev)).run.run w1 = res2 at hr k2 r2 t2
  obtain ⟨(e|u2), w2⟩ := res2
  · cases hr
  dsimp only at hr k2 r2 t2
  -- the registry entry of the event itself
  have hev2 : w2.tevs.get ev = some ei := by
    rw [show w2.tevs = w1.tevs from t2, show w1.tevs = w.tevs from t1]; exact hev
  rw [removeEventFinish_run_t ev w2 ht] at hr
  cases hrm : w2.tevs.remove ev with
  | none =>
    have := SlotMap.remove_eq_none_iff.1 hrm
    rw [hev2] at this; cases this
  | some p =>
    obtain ⟨info, T'⟩ := p
    rw [hrm] at hr
    dsimp only at hr
    have hinfo : info = ei := by
      have := SlotMap.get_of_remove hrm
      rw [hev2] at this; cases this; rfl
    subst hinfo
    cases hr
    obtain ⟨htyped, ci, hk, hid, hty, hI, hR⟩ := k2
    obtain ⟨ci', g1, g2, g3, g4, g5, g6, g7⟩ :=
      unnote_comp (w := { w2 with tevs := T', removedIds := ('t', ev) :: w2.removedIds }) r2.wfc hk info.kind ev
    have hget : ∀ e x, T'.get e = some x → e ≠ ev ∧ w2.tevs.get e = some x := by
      intro e x hx
      rw [get_remove_nowf hrm e] at hx
      split at hx
      · cases hx
      · exact ⟨‹_›, hx⟩
    have hkeep : ∀ e x, w2.tevs.get e = some x → e ≠ ev → T'.get e = some x := by
      intro e x hx hne
      rw [get_remove_nowf hrm e, if_neg hne, hx]
    show JB k i0 t0 _ (unnote _ info.kind ev).comps (unnote _ info.kind ev).tevs
    rw [unnote_tevs]
    refine ⟨fun e x hx => htyped e x (hget e x hx).2, ci', g1, g2.trans hid, g3.trans hty, fun e he => ?_,
      fun e he => ?_⟩
    · obtain ⟨hp, x, hx, hkind⟩ := hI e (g4 e he)
      have hne : e ≠ ev := by
        rintro rfl
        rw [hev2] at hx; cases hx
        exact g6 hkind he
      exact ⟨⟨hp, hne⟩, x, hkeep e x hx hne, hkind⟩
    · obtain ⟨hp, x, hx, hkind⟩ := hR e (g5 e he)
      have hne : e ≠ ev := by
        rintro rfl
        rw [hev2] at hx; cases hx
        exact g7 hkind he
      exact ⟨⟨hp, hne⟩, x, hkeep e x hx hne, hkind⟩

theorem removeEvent_ri' {ty : EvTy} {k : Key} {w w' : World} {r : Except Err Bool} (h : RegInv [] w)
    (hr : (removeEvent ty k).run.run w = (r, w')) : RegInv [] w' := by
  have := (removeEvent_ri (D := []) ty k).run w h
  rw [hr] at this
  exact this

/-- the whole loop -/
theorem removeEvents_jb {k i0 : Key} {t0 : Nat} (evs : List Key) :
    ∀ {P : Key → Prop} {w w' : World}, RegInv [] w → JBW k i0 t0 P w →
      (removeEvents evs).run.run w = (.ok PUnit.unit, w') →
      JBW k i0 t0 (fun e => P e ∧ e ∉ evs) w' := by
  induction evs with
  | nil =>
    intro P w w' _ hj hr
    cases hr
    exact hj.mono fun e he => ⟨he, List.not_mem_nil⟩
  | cons ev evs ih =>
    intro P w w' hri hj hr
    unfold removeEvents at hr
    rw [List.forIn_cons, run_bind, run_bind, run_get] at hr
    dsimp only at hr
    cases hev : w.tevs.get ev with
    | none =>
      rw [hev] at hr
      simp only [run_pure] at hr
      have hj' : JBW k i0 t0 (fun e => P e ∧ e ≠ ev) w := by
        obtain ⟨h1, ci, h2, h3, h4, h5, h6⟩ := hj
        refine ⟨h1, ci, h2, h3, h4, fun e he => ?_, fun e he => ?_⟩
        · obtain ⟨hp, x, hx, hk⟩ := h5 e he
          exact ⟨⟨hp, by rintro rfl; rw [hev] at hx; cases hx⟩, x, hx, hk⟩
        · obtain ⟨hp, x, hx, hk⟩ := h6 e he
          exact ⟨⟨hp, by rintro rfl; rw [hev] at hx; cases hx⟩, x, hx, hk⟩
      exact (ih hri hj' hr).mono fun e he => ⟨he.1.1, by simp [he.1.2, he.2]⟩
    | some ei =>
      rw [hev] at hr
      dsimp only at hr
      rw [run_bind] at hr
      generalize hre : (removeEvent ei.ty ev).run.run w = res at hr
      obtain ⟨(e|b), w1⟩ := res
      · cases hr
      · simp only [run_pure] at hr
        have hj' := removeEvent_jb hri hj hev hre
        exact (ih (removeEvent_ri' hri hre) hj' hr).mono fun e he => ⟨he.1.1, by simp [he.1.2, he.2]⟩

end InvV6

open InvV6 in
/-- **after the `removeEvent` loop of `removeComponent k` the component is still live, with the same id and type, and
    its `insEvents` / `remEvents` are empty.**  Hypotheses: the registry group of the invariant, and every entry of `tevs`
    has a targeted type. -/
theorem removeEvents_clears (k : Key) (info : CompInfo) (w w' : World) (hreg : RegistryInv w)
    (htyped : ∀ e ei, w.tevs.get e = some ei → ei.ty.targeted = true) (hk : w.comps.get k = some info)
    (hr : (removeEvents (info.insEvents ++ info.remEvents)).run.run w = (.ok PUnit.unit, w')) :
    ∃ info', w'.comps.get k = some info' ∧ info'.insEvents = [] ∧ info'.remEvents = [] ∧
      info'.id = info.id ∧ info'.ty = info.ty := by
  obtain ⟨h1, h2⟩ := hreg.compEvents k info hk
  have hj : JBW k info.id info.ty (fun e => e ∈ info.insEvents ++ info.remEvents) w :=
    ⟨htyped, info, hk, rfl, rfl, fun e he => ⟨List.mem_append_left _ he, h1 e he⟩,
      fun e he => ⟨List.mem_append_right _ he, h2 e he⟩⟩
  obtain ⟨-, ci, g1, g2, g3, g4, g5⟩ := removeEvents_jb _ hreg.reg hj hr
  refine ⟨ci, g1, ?_, ?_, g2, g3⟩
  · rw [List.eq_nil_iff_forall_not_mem]
    intro e he
    exact (g4 e he).1.2 (g4 e he).1.1
  · rw [List.eq_nil_iff_forall_not_mem]
    intro e he
    exact (g5 e he).1.2 (g5 e he).1.1

/-- the facts of the two loops are what `CompUnused` asks for (`info` is the entry `comps.remove k` returns) -/
theorem compUnused_of {w : World} {k : Key} {info : CompInfo} (hk : w.comps.get k = some info)
    (hnoref : ∀ hk h, w.handlers.get hk = some h → k.idx ∉ h.referenced) (hI : info.insEvents = [])
    (hR : info.remEvents = []) : CompUnused w k info :=
  ⟨hk, hnoref, hI, hR⟩

end Evenio
