import Evenio.Proofs.Inv.GraphTraverse
/-! # G1, section A: `traverseInsert` / `traverseRemove` keep the graph group -/
namespace Evenio
open Graph (GraphOK)
namespace InvV1

/-- the slab is `A`, the component registry `C` -/
abbrev AC (A : Slab Arch) (C : SlotMap CompInfo) : World → Prop := fun w => w.archs = A ∧ w.comps = C

theorem getArch_ac (A : Slab Arch) (C : SlotMap CompInfo) (i : Nat) (s : String) :
    HoareOk (AC A C) (getArch i s) (fun a w => AC A C w ∧ A.get i = some a) := by
  unfold getArch
  refine HoareOk.get_bind fun w hw => ?_
  split
  · next a ha => exact HoareOk.pure fun w' hw' => ⟨hw', hw.1 ▸ ha⟩
  · exact HoareOk.ubErr _

theorem setArch_ac (A : Slab Arch) (C : SlotMap CompInfo) (a : Arch) :
    HoareOk (AC A C) (setArch a) (fun _ w => AC (A.set a.index a) C w) := by
  refine ⟨fun w hw u w' hr => ?_⟩
  unfold setArch at hr
  rw [run_modify] at hr
  cases hr
  exact ⟨hw.1 ▸ rfl, hw.2⟩

theorem dbgAssert_ac (A : Slab Arch) (C : SlotMap CompInfo) (c : Bool) (s : String) :
    Keeps (AC A C) (dbgAssert c s) := by
  unfold dbgAssert; keeps

theorem newCore_edgeKeys {idx : Nat} {cs : List Nat} {ei er : Option (Nat × Nat)} {b : Arch}
    (h : C17.NewCore idx cs ei er b) : EdgeKeys b := by
  obtain ⟨-, -, -, -, h5, h6⟩ := h
  unfold EdgeKeys
  rw [h5, h6]
  constructor
  · cases ei <;> simp
  · cases er <;> simp

theorem traverseInsert_graph {A : Slab Arch} {C : SlotMap CompInfo} (hI : GraphInv' A C) {src : Nat} {sa : Arch}
    (hsa : A.get src = some sa) (c : Nat) :
    HoareOk (AC A C) (traverseInsert src c) (fun _ w' => GraphInv' w'.archs w'.comps) := by
  have hG := hI.graph
  have hsi : sa.index = src := hG.idx src sa hsa
  have hI0 := gi0_of_graphInv' hI
  have hk2 : ∀ d, EdgeKeys { sa with insEdges := edgeInsert sa.insEdges c d } := fun d =>
    ⟨edgeInsert_sorted (hI.edgeKeys src sa hsa).1 c d, (hI.edgeKeys src sa hsa).2⟩
  have same : ∀ w : World, AC A C w → GraphInv' w.archs w.comps := fun w hw => by rw [hw.1, hw.2]; exact hI
  unfold traverseInsert
  refine HoareOk.get_bind fun w0 hw0 => ?_
  refine HoareOk.bind_inv (HoareOk.of_keeps (dbgAssert_ac A C _ _)) fun _ => ?_
  refine HoareOk.bind (getArch_ac A C src _) fun sa' => ?_
  refine Graph.hoare_and_const fun hsa' => ?_
  rw [hsa] at hsa'
  cases hsa'
  split
  · exact HoareOk.pure same
  · split
    · exact HoareOk.pure same
    · next hc =>
      have hc' : c ∉ sa.comps := by simpa using hc
      dsimp only
      refine HoareOk.get_bind fun w1 hw1 => ?_
      split
      · next d hd =>
        obtain ⟨da, hda, hdc⟩ := C17.archByComps_some hd
        rw [hw1.1] at hda
        refine HoareOk.bind (setArch_ac A C _) fun _ => ?_
        refine HoareOk.pure fun w hw => ?_
        dsimp only at hw
        rw [hw.1, hw.2]
        have := (C17.graph_link_ins hG hsa hda hdc hc').1
        rw [← hsi] at this
        refine GI0.graphInv' ?_ this
        rw [hsi]
        exact hI0.set hsa rfl (hk2 d)
      · next hn =>
        have hnone : ∀ i a, A.get i = some a → a.comps ≠ insertSorted sa.comps c := by
          intro i a hia
          exact C17.archByComps_none hn i a (hw1.1 ▸ hia)
        refine HoareOk.bind (newArch_full _ _ _ A C) fun d => ?_
        refine Graph.hoare_const_and fun hd => ?_
        subst hd
        refine Graph.hoare_exists fun b => ?_
        -- the state after `newArch`
        refine HoareOk.pre (P' := fun w => (C17.NewCore A.vacantKey (insertSorted sa.comps c) none (some (c, src)) b ∧
          ∃ C', AddedTo A.vacantKey (insertSorted sa.comps c) C C' ∧ AC (A.insert b) C' w)) ?_
          (fun w hw => ⟨hw.2.1, w.comps, hw.2.2, hw.1, rfl⟩)
        refine Graph.hoare_const_and fun hb => ?_
        refine Graph.hoare_exists fun C' => Graph.hoare_const_and fun hadd => ?_
        have hk : src ≠ A.vacantKey := by
          intro h
          rw [h, Slab.get_vacantKey_none hG.wf] at hsa; cases hsa
        refine HoareOk.bind (getArch_ac (A.insert b) C' src _) fun sa' => ?_
        refine Graph.hoare_and_const fun hsa' => ?_
        rw [Slab.get_insert_other _ _ hk, hsa] at hsa'
        cases hsa'
        refine HoareOk.bind (setArch_ac (A.insert b) C' _) fun _ => ?_
        refine HoareOk.pure fun w hw => ?_
        dsimp only at hw
        rw [hw.1, hw.2]
        have g1 := (C17.graph_new_ins hG hsa hc' hnone hb).1
        rw [← hsi] at g1
        refine GI0.graphInv' ?_ g1
        rw [hsi]
        have hbc : b.comps = insertSorted sa.comps c := hb.2.1
        refine (hI0.insert hG.wf (b := b) (hbc ▸ hadd) (newCore_edgeKeys hb)).set (sa := sa) ?_ rfl (hk2 _)
        rw [Slab.get_insert_other _ _ hk]
        exact hsa

theorem traverseRemove_graph {A : Slab Arch} {C : SlotMap CompInfo} (hI : GraphInv' A C) {src : Nat} {sa : Arch}
    (hsa : A.get src = some sa) (c : Nat) :
    HoareOk (AC A C) (traverseRemove src c) (fun _ w' => GraphInv' w'.archs w'.comps) := by
  have hG := hI.graph
  have hsi : sa.index = src := hG.idx src sa hsa
  have hI0 := gi0_of_graphInv' hI
  have hk2 : ∀ d, EdgeKeys { sa with remEdges := edgeInsert sa.remEdges c d } := fun d =>
    ⟨(hI.edgeKeys src sa hsa).1, edgeInsert_sorted (hI.edgeKeys src sa hsa).2 c d⟩
  have same : ∀ w : World, AC A C w → GraphInv' w.archs w.comps := fun w hw => by rw [hw.1, hw.2]; exact hI
  unfold traverseRemove
  refine HoareOk.bind (getArch_ac A C src _) fun sa' => ?_
  refine Graph.hoare_and_const fun hsa' => ?_
  rw [hsa] at hsa'
  cases hsa'
  split
  · exact HoareOk.pure same
  · split
    · exact HoareOk.pure same
    · next hc =>
      have hc' : c ∈ sa.comps := by simpa using hc
      dsimp only
      refine HoareOk.get_bind fun w1 hw1 => ?_
      split
      · next d hd =>
        obtain ⟨da, hda, hdc⟩ := C17.archByComps_some hd
        rw [hw1.1] at hda
        refine HoareOk.bind (setArch_ac A C _) fun _ => ?_
        refine HoareOk.pure fun w hw => ?_
        dsimp only at hw
        rw [hw.1, hw.2]
        have := (C17.graph_link_rem hG hsa hda hdc hc').1
        rw [← hsi] at this
        refine GI0.graphInv' ?_ this
        rw [hsi]
        exact hI0.set hsa rfl (hk2 d)
      · next hn =>
        have hnone : ∀ i a, A.get i = some a → a.comps ≠ sa.comps.filter (· != c) := by
          intro i a hia
          exact C17.archByComps_none hn i a (hw1.1 ▸ hia)
        refine HoareOk.bind (newArch_full _ _ _ A C) fun d => ?_
        refine Graph.hoare_const_and fun hd => ?_
        subst hd
        refine Graph.hoare_exists fun b => ?_
        refine HoareOk.pre (P' := fun w => (C17.NewCore A.vacantKey (sa.comps.filter (· != c)) (some (c, src)) none b ∧
          ∃ C', AddedTo A.vacantKey (sa.comps.filter (· != c)) C C' ∧ AC (A.insert b) C' w)) ?_
          (fun w hw => ⟨hw.2.1, w.comps, hw.2.2, hw.1, rfl⟩)
        refine Graph.hoare_const_and fun hb => ?_
        refine Graph.hoare_exists fun C' => Graph.hoare_const_and fun hadd => ?_
        have hk : src ≠ A.vacantKey := by
          intro h
          rw [h, Slab.get_vacantKey_none hG.wf] at hsa; cases hsa
        refine HoareOk.bind (getArch_ac (A.insert b) C' src _) fun sa' => ?_
        refine Graph.hoare_and_const fun hsa' => ?_
        rw [Slab.get_insert_other _ _ hk, hsa] at hsa'
        cases hsa'
        refine HoareOk.bind (setArch_ac (A.insert b) C' _) fun _ => ?_
        refine HoareOk.pure fun w hw => ?_
        dsimp only at hw
        rw [hw.1, hw.2]
        have g1 := (C17.graph_new_rem hG hsa hc' hnone hb).1
        rw [← hsi] at g1
        refine GI0.graphInv' ?_ g1
        rw [hsi]
        have hbc : b.comps = sa.comps.filter (· != c) := hb.2.1
        refine (hI0.insert hG.wf (b := b) (hbc ▸ hadd) (newCore_edgeKeys hb)).set (sa := sa) ?_ rfl (hk2 _)
        rw [Slab.get_insert_other _ _ hk]
        exact hsa

/-! ### the obligations -/

theorem noPanic_registerHandler (a : Arch) (h : HInfo) : NoPanic (a.registerHandler h) := by
  unfold Arch.registerHandler
  nopanic

theorem noPanic_newArch (cs : List Nat) (ei er : Option (Nat × Nat)) : NoPanic (newArch cs ei er) := by
  unfold newArch
  nopanic
  all_goals exact noPanic_registerHandler _ _

theorem noPanic_traverseInsert (src c : Nat) : NoPanic (traverseInsert src c) := by
  unfold traverseInsert
  nopanic
  all_goals exact noPanic_newArch _ _ _

theorem noPanic_traverseRemove (src c : Nat) : NoPanic (traverseRemove src c) := by
  unfold traverseRemove
  nopanic
  all_goals exact noPanic_newArch _ _ _

/-- a dead source ends in `ub` -/
theorem traverseInsert_src {src c d : Nat} {w w' : World} (hr : (traverseInsert src c).run.run w = (.ok d, w')) :
    ∃ sa, w.archs.get src = some sa := by
  cases hg : w.archs.get src with
  | some sa => exact ⟨sa, rfl⟩
  | none =>
    exfalso
    unfold traverseInsert at hr
    simp only [run_bind, run_get, dbgAssert_run] at hr
    by_cases hd : (w.debug && !(w.comps.getByIndex c).isSome) = true
    · rw [if_pos hd] at hr
      cases hr
    · rw [if_neg hd] at hr
      dsimp only at hr
      rw [run_getArch_none _ hg] at hr
      cases hr

theorem traverseRemove_src {src c d : Nat} {w w' : World} (hr : (traverseRemove src c).run.run w = (.ok d, w')) :
    ∃ sa, w.archs.get src = some sa := by
  cases hg : w.archs.get src with
  | some sa => exact ⟨sa, rfl⟩
  | none =>
    exfalso
    unfold traverseRemove at hr
    rw [run_bind, run_getArch_none _ hg] at hr
    cases hr

theorem traverseInsert_keeps_graph : Obl.traverseInsert_keeps .graph := by
  intro src c
  refine keepsG_of_ok (fun _ => traverseInsert_sl src c) (noPanic_traverseInsert src c) fun w hw d w' hr => ?_
  obtain ⟨sa, hsa⟩ := traverseInsert_src hr
  exact (traverseInsert_graph hw.graph hsa c).run w ⟨rfl, rfl⟩ d w' hr

theorem traverseRemove_keeps_graph : Obl.traverseRemove_keeps .graph := by
  intro src c
  refine keepsG_of_ok (fun _ => traverseRemove_sl src c) (noPanic_traverseRemove src c) fun w hw d w' hr => ?_
  obtain ⟨sa, hsa⟩ := traverseRemove_src hr
  exact (traverseRemove_graph hw.graph hsa c).run w ⟨rfl, rfl⟩ d w' hr

end InvV1
end Evenio
