import Evenio.Proofs.Inv.Obligations
/-! The group independent part: leaves that only write fields the invariant does not read, and the GLUE — composite
    model functions whose preservation of `WInvMid` follows from the combined obligations of their pieces.
    Everything on the delivery path is done here (`senderPush`, `runAct`, `runHandler`, `dropQueued`, `fixedDespawn`,
    `deliverOne`, `flush`), and the first registration functions (`ensureAddG`, `addGlobalEvent`, `sendGlobal`,
    `addComponent`) to validate the shape of the step obligations of section B. -/
namespace Evenio

/-- the guarded invariant -/
abbrev GW : World → Prop := Guarded WInvMid

/-! ### leaves: writes to irrelevant fields -/

/-- closes `GW { w with f := … }` from `h : GW w` for a field `f` the invariant does not read -/
syntax "gw_frame" term : tactic
macro_rules | `(tactic| gw_frame $h) => `(tactic| exact fun hs => WInvMid.frame ($h hs) (by releq) rfl rfl)

theorem gw_modify {f : World → World} (hf : ∀ w, RelEq w (f w) ∧ (f w).resIndex = w.resIndex ∧
    (f w).resCount = w.resCount) : Keeps GW (modify f) :=
  Keeps.modify fun w h hs => by
    obtain ⟨h1, h2, h3⟩ := hf w
    have hs' : Small w := by unfold Small at hs ⊢; rw [← h1.archs, ← h1.tevs]; exact hs
    exact (h hs').frame h1 h2 h3

theorem logT_gw (s : String) : Keeps GW (logT s) := gw_modify fun _ => ⟨by releq, rfl, rfl⟩
macro_rules | `(tactic| keeps_leaf) => `(tactic| exact logT_gw _)
theorem push_gw (it : QItem) : Keeps GW (push it) := gw_modify fun _ => ⟨by releq, rfl, rfl⟩
macro_rules | `(tactic| keeps_leaf) => `(tactic| exact push_gw _)
theorem ubErr_gw {α : Type} (s : String) : Keeps GW (ubErr s : M α) := Keeps.throw _
macro_rules | `(tactic| keeps_leaf) => `(tactic| exact ubErr_gw _)
theorem dbgAssert_gw (c : Bool) (s : String) : Keeps GW (dbgAssert c s) := by unfold dbgAssert; keeps
macro_rules | `(tactic| keeps_leaf) => `(tactic| exact dbgAssert_gw _ _)
theorem dropCell_gw (ty : Nat) (c : Cell) : Keeps GW (dropCell ty c) := by
  unfold dropCell; split
  · exact gw_modify fun _ => ⟨by releq, rfl, rfl⟩
  · exact Keeps.pure _
macro_rules | `(tactic| keeps_leaf) => `(tactic| exact dropCell_gw _ _)
theorem dropCellIdx_gw (ty : Nat) (c : Cell) : Keeps GW (dropCellIdx ty c) := by unfold dropCellIdx; keeps
macro_rules | `(tactic| keeps_leaf) => `(tactic| exact dropCellIdx_gw _ _)
theorem dropEvent_gw (it : QItem) : Keeps GW (dropEvent it) := by
  unfold dropEvent; split
  · exact gw_modify fun _ => ⟨by releq, rfl, rfl⟩
  · exact gw_modify fun _ => ⟨by releq, rfl, rfl⟩
  · exact dropCell_gw _ _
  · exact Keeps.pure _
macro_rules | `(tactic| keeps_leaf) => `(tactic| exact dropEvent_gw _)
theorem getArch_gw (i : Nat) (s : String) : Keeps GW (getArch i s) := by unfold getArch; keeps
macro_rules | `(tactic| keeps_leaf) => `(tactic| exact getArch_gw _ _)
theorem freshEpoch_gw : Keeps GW freshEpoch :=
  Keeps.modifyGet fun w h hs => (h hs).frame (by releq) rfl rfl
macro_rules | `(tactic| keeps_leaf) => `(tactic| exact freshEpoch_gw)
theorem freshE_gw : Keeps GW freshE := Keeps.modifyGet fun w h hs => (h hs).frame (by releq) rfl rfl
macro_rules | `(tactic| keeps_leaf) => `(tactic| exact freshE_gw)
theorem freshC_gw : Keeps GW freshC := Keeps.modifyGet fun w h hs => (h hs).frame (by releq) rfl rfl
macro_rules | `(tactic| keeps_leaf) => `(tactic| exact freshC_gw)
theorem takeBudget_gw : Keeps GW takeBudget := by
  unfold takeBudget
  refine Keeps.get_bind fun w hw => ?_
  split
  · exact Keeps.pure _
  · exact Keeps.bind (Keeps.set (by gw_frame hw)) fun _ => Keeps.pure _
macro_rules | `(tactic| keeps_leaf) => `(tactic| exact takeBudget_gw)
theorem paramRows_gw (p : Param) : Keeps GW (paramRows p) := by unfold paramRows; keeps
macro_rules | `(tactic| keeps_leaf) => `(tactic| exact paramRows_gw _)
theorem itemAt_gw (st : AS) (a : Arch) (row : Nat) : Keeps GW (itemAt st a row) := by unfold itemAt; keeps
macro_rules | `(tactic| keeps_leaf) => `(tactic| exact itemAt_gw _ _ _)
theorem paramGet_gw (p : Param) (id : Key) : Keeps GW (paramGet p id) := by unfold paramGet; keeps
macro_rules | `(tactic| keeps_leaf) => `(tactic| exact paramGet_gw _ _)
theorem getParam_gw (h : HInfo) (p : Nat) : Keeps GW (getParam h p) := by unfold getParam; keeps
macro_rules | `(tactic| keeps_leaf) => `(tactic| exact getParam_gw _ _)
theorem senderPush_gw (h : HInfo) (it : QItem) : Keeps GW (senderPush h it) := by unfold senderPush; keeps
macro_rules | `(tactic| keeps_leaf) => `(tactic| exact senderPush_gw _ _)
theorem dropQueued_gw : Keeps GW dropQueued := by
  unfold dropQueued; keeps
  exact gw_modify fun _ => ⟨by releq, rfl, rfl⟩

/-- **leaf: `push`** -/
theorem glue_push : Obl.glue_push := fun it => KeepsW.of_keeps (push_gw it)
theorem glue_senderPush : Obl.glue_senderPush := fun h it => KeepsW.of_keeps (senderPush_gw h it)
theorem glue_dropQueued : Obl.glue_dropQueued := KeepsW.of_keeps dropQueued_gw

/-- `resRefresh` only writes `resIndex` -/
theorem resRefresh_winv : Obl.resRefresh_winv := by
  unfold Obl.resRefresh_winv resRefresh
  refine Keeps.get_bind fun _ _ => Keeps.bind ?_ fun _ => Keeps.modify fun w h hs => (h hs).frame (by releq)
  unfold dbgAssert; keeps

/-! ### the handler phase: `runAct`, `runHandler` -/

/-- a `KeepsW` function whose `ub` / `assert` exits leave the state untouched keeps the invariant on EVERY exit, so
    it can be used as a leaf of the structural `keeps` tactic -/
theorem keeps_of_keepsW {α : Type} {m : M α} (h : KeepsW m)
    (herr : ∀ w e w', m.run.run w = (.error e, w') → e.isPanic = true ∨ w' = w) : Keeps GW m := by
  refine ⟨fun w hw => ?_⟩
  have := Hoare.run h w hw
  generalize hr : m.run.run w = res at this
  obtain ⟨(e|a), w'⟩ := res
  · rcases herr w e w' hr with hp | rfl
    · exact this hp
    · exact hw
  · exact this

theorem reserve_error (w : World) (e : Err) (w' : World) (h : reserve.run.run w = (.error e, w')) :
    e.isPanic = true ∨ w' = w := by
  rw [reserve_run] at h
  split at h <;> cases h <;> exact .inl rfl

theorem bumpCell_error (ai row c : Nat) (w : World) (e : Err) (w' : World)
    (h : (bumpCell ai row c).run.run w = (.error e, w')) : e.isPanic = true ∨ w' = w := by
  right
  have : Hoare (SAME w) (bumpCell ai row c) (fun _ _ => True) (fun _ w' => w' = w) := by
    unfold bumpCell
    refine Hoare.bind_inv (Hoare.of_keeps (getArch_same w _ _) fun _ _ h => h) fun a => ?_
    split
    · exact Hoare.ubErr fun _ h => h
    · split
      · exact Hoare.ubErr fun _ h => h
      · split
        · exact Hoare.ubErr fun _ h => h
        · exact ⟨fun w0 _ => trivial⟩
  exact this.err rfl h

section handler
variable (hres : KeepsW reserve) (hbump : ∀ ai row c, KeepsW (bumpCell ai row c))
include hres hbump

theorem runAct_gw (hk : Key) (it : QItem) (loc : Loc) (act : Act) : Keeps GW (runAct hk it loc act) := by
  have h1 : Keeps GW reserve := keeps_of_keepsW hres reserve_error
  have h2 : ∀ ai row c, Keeps GW (bumpCell ai row c) := fun ai row c =>
    keeps_of_keepsW (hbump ai row c) (bumpCell_error ai row c)
  unfold runAct
  repeat' first
    | exact h1
    | exact h2 _ _ _
    | (refine Keeps.set ?_; rename_i h; gw_frame h)
    | (refine gw_modify fun _ => ⟨by releq, rfl, rfl⟩)
    | keeps_step

theorem runHandler_gw (hk : Key) (it : QItem) (loc : Loc) : Keeps GW (runHandler hk it loc) := by
  have h1 := runAct_gw hres hbump
  unfold runHandler
  repeat' first
    | exact h1 _ _ _ _
    | keeps_step

theorem glue_runAct : Obl.glue_runAct := fun hk it loc act => KeepsW.of_keeps (runAct_gw hres hbump hk it loc act)
theorem glue_runHandler : Obl.glue_runHandler := fun hk it loc => KeepsW.of_keeps (runHandler_gw hres hbump hk it loc)

end handler

/-! ### one delivery -/

theorem lookupPhase_gw (it : QItem) (w : World) : Keeps GW (lookupPhase it w) := by unfold lookupPhase; keeps

section delivery
variable (hrun : Obl.glue_runHandler) (hti : ∀ src c, KeepsW (traverseInsert src c))
  (htr : ∀ src c, KeepsW (traverseRemove src c)) (hmove : ∀ src dst new, KeepsW (moveEntity src dst new))
  (hspawn : KeepsW spawnAll) (hdesp : Obl.glue_fixedDespawn)

include hrun in
theorem handlerLoop_keepsW (it : QItem) (info : EvInfo) (loc : Loc) (hs : List Key) :
    KeepsW (handlerLoop it info loc hs) := by
  unfold handlerLoop
  refine KeepsW.forIn_list fun hk owned => ?_
  split
  · refine Hoare.bind_inv (KeepsW.tryCatch (hrun hk it loc) fun e => ?_) fun _ => KeepsW.pure _
    -- first half of `EventDropper::drop`, then rethrow
    cases e with
    | panic s =>
      refine Hoare.pre (P' := GW) ?_ (fun w h => h rfl)
      refine Hoare.get_bind fun _ _ => ?_
      split
      · exact Hoare.bind_inv (KeepsW.of_keeps (dropEvent_gw _)) fun _ => KeepsW.throw _
      · exact KeepsW.throw _
    | ub s =>
      refine ⟨fun w _ => ?_⟩
      simp only [run_throw]
      exact fun hp => nomatch hp
    | assert s =>
      refine ⟨fun w _ => ?_⟩
      simp only [run_throw]
      exact fun hp => nomatch hp
  · exact KeepsW.pure _

include hti htr hmove hspawn hdesp in
theorem effectPhase_keepsW (it : QItem) (info : EvInfo) (loc : Loc) : KeepsW (effectPhase it info loc) := by
  unfold effectPhase
  split
  · exact KeepsW.of_keeps (by keeps)
  · refine Hoare.bind_inv (KeepsW.of_keeps (dbgAssert_gw _ _)) fun _ => ?_
    exact Hoare.bind_inv (hti _ _) fun _ => hmove _ _ _
  · exact Hoare.bind_inv (htr _ _) fun _ => hmove _ _ _
  · exact hspawn
  · exact hdesp loc

include hrun hti htr hmove hspawn hdesp in
/-- **`deliverOne` keeps the invariant** as soon as its pieces do -/
theorem glue_deliverOne : Obl.glue_deliverOne := by
  intro it
  rw [deliverOne_phases]
  refine Hoare.get_bind fun w _ => ?_
  refine Hoare.bind_inv (KeepsW.of_keeps (lookupPhase_gw it w)) fun r => ?_
  obtain ⟨info, hs, loc⟩ := r
  dsimp only
  split
  · exact KeepsW.of_keeps (by keeps)
  · refine Hoare.bind_inv (KeepsW.of_keeps (gw_modify fun _ => ⟨by releq, rfl, rfl⟩)) fun _ => ?_
    refine Hoare.bind_inv (handlerLoop_keepsW hrun it info loc _) fun owned => ?_
    refine Hoare.bind_inv (KeepsW.of_keeps (gw_modify fun _ => ⟨by releq, rfl, rfl⟩)) fun _ => ?_
    split
    · exact KeepsW.pure _
    · exact effectPhase_keepsW hti htr hmove hspawn hdesp it info loc

include hrun hti htr hmove hspawn hdesp in
/-- **`flush` keeps the invariant**, unwinding included -/
theorem glue_flush : Obl.glue_flush := fun fuel =>
  flush_keepsW (glue_deliverOne hrun hti htr hmove hspawn hdesp) glue_dropQueued fuel

end delivery

/-! ### the `Despawn` effect: groups G1–G5 from the parts, `ReservedSome` from the unit -/

theorem glue_fixedDespawn (hspawn : KeepsW spawnAll) (hrem : ∀ g : Group, Obl.removeEntity_keeps g)
    (hres : Obl.fixedDespawn_reserved) : Obl.glue_fixedDespawn := by
  intro loc
  -- G1–G5: `spawnAll` keeps everything, `removeEntity` the five groups, `resRefresh` (only `resIndex`) `WInv`
  have h5 : KeepsG WInv (fixedDespawn loc) := by
    unfold fixedDespawn
    refine Hoare.bind (R := fun _ => GW) (Hoare.post hspawn (fun _ _ h => h) fun _ w h hp hs => (h hp hs).1)
      fun _ => ?_
    have hre : KeepsG WInv (removeEntity loc) := by
      refine ⟨fun w hw => ?_⟩
      have r1 := Hoare.run (hrem .graph loc) w hw; have r2 := Hoare.run (hrem .store loc) w hw
      have r3 := Hoare.run (hrem .lists loc) w hw; have r4 := Hoare.run (hrem .cache loc) w hw
      have r5 := Hoare.run (hrem .registry loc) w hw
      generalize (removeEntity loc).run.run w = res at r1 r2 r3 r4 r5
      obtain ⟨(e|a), w'⟩ := res
      · exact fun hp hs => ⟨hs, r1 hp hs, r2 hp hs, r3 hp hs, r4 hp hs, r5 hp hs⟩
      · exact fun hs => ⟨hs, r1 hs, r2 hs, r3 hs, r4 hs, r5 hs⟩
    exact Hoare.bind hre fun _ => Hoare.of_keeps_panicOnly resRefresh_winv
  refine ⟨fun w hw => ?_⟩
  have r1 := Hoare.run h5 w hw; have r2 := Hoare.run (hres loc) w hw
  generalize (fixedDespawn loc).run.run w = res at r1 r2
  obtain ⟨(e|a), w'⟩ := res
  · exact fun hp hs => ⟨r1 hp hs, r2 hp hs⟩
  · exact fun hs => ⟨r1 hs, r2 hs⟩

/-! ### registration: `ensureAddG`, `addGlobalEvent`, `sendGlobal`, `addComponent`

The raw registry writes are the steps of section B of `Obligations.lean`; they do not touch `archs`, `entities`,
`resIndex`, `resCount`, so `Small` and `ReservedSome` carry over by themselves. -/

theorem winvMid_of_groups {w : World} (hs : Small w) (h : ∀ g : Group, g.pred w) (hr : ReservedSome w) : WInvMid w :=
  ⟨⟨hs, h .graph, h .store, h .lists, h .cache, h .registry⟩, hr⟩

section registration
variable (hflush : Obl.glue_flush) (hgev : ∀ g : Group, Obl.regGev_keeps g) (hcomp : ∀ g : Group, Obl.regComp_keeps g)
include hflush hgev

omit hflush in
theorem gw_regGev {w : World} (hw : GW w) {ty : EvTy} {k : Key} {gevs' : SlotMap EvInfo}
    (hins : w.gevs.insertWith (Step.gevEntry ty) = some (k, gevs')) : GW (Step.regGev w k gevs') :=
  fun hs => winvMid_of_groups hs (fun g => hgev g w ty k gevs' (hw hs) hins) (hw hs).2

theorem glue_ensureAddG : Obl.glue_ensureAddG := by
  unfold Obl.glue_ensureAddG ensureAddG
  refine Hoare.get_bind fun w hw => ?_
  split
  · exact KeepsW.pure _
  · split
    · exact KeepsW.throw _
    · next k gevs hins =>
      refine Hoare.bind_inv (Hoare.of_keeps_panicOnly (Keeps.set ?_)) fun _ => ?_
      · exact gw_regGev hgev hw (ty := .addG) hins
      refine Hoare.bind_inv (glue_push _) fun _ => ?_
      exact Hoare.bind_inv (hflush _) fun _ => KeepsW.pure _

theorem glue_addGlobalEvent : Obl.glue_addGlobalEvent := by
  intro ty
  unfold addGlobalEvent
  split
  · exact glue_ensureAddG hflush hgev
  · refine Hoare.get_bind fun w hw => ?_
    split
    · exact KeepsW.pure _
    · split
      · exact KeepsW.throw _
      · next k gevs hins =>
        refine Hoare.bind_inv (Hoare.of_keeps_panicOnly (Keeps.set ?_)) fun _ => ?_
        · exact gw_regGev hgev hw (ty := ty) hins
        refine Hoare.bind_inv (glue_ensureAddG hflush hgev) fun _ => ?_
        refine Hoare.bind_inv (glue_push _) fun _ => ?_
        exact Hoare.bind_inv (hflush _) fun _ => KeepsW.pure _

theorem glue_sendGlobal : Obl.glue_sendGlobal := by
  intro ty pay
  unfold sendGlobal
  refine Hoare.bind_inv (KeepsW.tryCatch (glue_addGlobalEvent hflush hgev ty) fun e => ?_) fun k => ?_
  · -- the event value is dropped on the way out, the error rethrown
    by_cases hp : e.isPanic = true
    · refine Hoare.pre (P' := GW) ?_ (fun w h => h hp)
      exact Hoare.bind_inv (KeepsW.of_keeps (dropEvent_gw _)) fun _ => KeepsW.throw _
    · refine Hoare.post (E := fun e' _ => e' = e) (Q := fun _ _ => False) ?_ (fun _ _ h => h.elim)
        (fun e' _ he hp' => absurd (he ▸ hp') hp)
      refine Hoare.bind (R := fun _ _ => True) (E := fun e' _ => e' = e) ⟨fun w _ => ?_⟩ fun _ =>
        Hoare.throw fun _ _ => rfl
      -- `dropEvent` never throws
      rw [run_dropEvent]
      trivial
  · refine Hoare.bind_inv (glue_push _) fun _ => hflush _

include hcomp in
theorem glue_addComponent : Obl.glue_addComponent := by
  intro ty
  unfold addComponent
  refine Hoare.get_bind fun w hw => ?_
  split
  · exact KeepsW.pure _
  · split
    · exact KeepsW.throw _
    · next k comps hins =>
      refine Hoare.bind_inv (Hoare.of_keeps_panicOnly (Keeps.set ?_)) fun _ => ?_
      · exact fun hs => winvMid_of_groups hs
          (fun g => hcomp g w ty k comps (hw hs) hins) (hw hs).2
      exact Hoare.bind_inv (glue_sendGlobal hflush hgev _ _) fun _ => KeepsW.pure _

end registration

end Evenio
