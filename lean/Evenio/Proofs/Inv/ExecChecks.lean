import Evenio.Proofs.Inv.Exec
/-! # The executable well-formedness walks accept every well-formed structure

`ExecLeft.slabCheck : Slab.WF s → s.wfCheck = true` and `ExecLeft.slotCheck : SlotMap.WF sm → sm.wfCheck = true`
(Model/InvPlus.lean): `walkChain` computes the ghost list of `Slab.WF.ex` resp. `SlotMap.WF.chain`; the fuel
`length + 1` suffices because the chain is duplicate free and in range. -/
namespace Evenio
namespace InvV6

/-! ### pigeonhole and counting -/

/-- a duplicate-free list of numbers below `n` has at most `n` elements -/
theorem nodup_lt_length_le {l : List Nat} {n : Nat} (hnd : l.Nodup) (hlt : ∀ i ∈ l, i < n) : l.length ≤ n := by
  induction n generalizing l with
  | zero =>
    cases l with
    | nil => exact Nat.le_refl 0
    | cons a l => exact absurd (hlt a (List.mem_cons_self ..)) (Nat.not_lt_zero _)
  | succ n ih =>
    have h1 : (l.erase n).Nodup := hnd.erase n
    have h2 : ∀ i ∈ l.erase n, i < n := fun i hi => by
      have hm := (List.Nodup.mem_erase_iff hnd).1 hi
      have := hlt i hm.2
      have := hm.1
      omega
    have := ih h1 h2
    by_cases hn : n ∈ l
    · rw [List.length_erase_of_mem hn] at this; omega
    · rw [List.erase_of_not_mem hn] at this; omega

/-- the indices of the entries satisfying `p` -/
def idxWhere {α : Type} (p : α → Bool) (l : List α) : List Nat :=
  (l.zipIdx.filter fun x => p x.1).map (·.2)

theorem idxWhere_length {α : Type} (p : α → Bool) (l : List α) : (idxWhere p l).length = (l.filter p).length := by
  unfold idxWhere
  rw [List.length_map]
  have : l.filter p = (l.zipIdx.filter fun x => p x.1).map (·.1) := by
    have h := List.filter_map (f := fun x : α × Nat => x.1) (p := p) (l := l.zipIdx)
    rw [List.zipIdx_map_fst] at h
    exact h
  rw [this, List.length_map]

theorem mem_idxWhere {α : Type} (p : α → Bool) (l : List α) (i : Nat) :
    i ∈ idxWhere p l ↔ ∃ x, l[i]? = some x ∧ p x = true := by
  unfold idxWhere
  simp only [List.mem_map, List.mem_filter, List.mem_zipIdx_iff_getElem?, Prod.exists, exists_eq_right]

theorem idxWhere_nodup {α : Type} (p : α → Bool) (l : List α) : (idxWhere p l).Nodup := by
  unfold idxWhere
  have h1 : (l.zipIdx.map (·.2)).Nodup := by
    rw [List.zipIdx_map_snd]
    exact List.nodup_range'
  exact ((List.filter_sublist (l := l.zipIdx)).map _).nodup h1

/-- a duplicate-free list whose members are exactly the indices of the entries satisfying `p` is as long as the
    list of these entries -/
theorem length_eq_filter_of_exact {α : Type} (p : α → Bool) (l : List α) {c : List Nat} (hnd : c.Nodup)
    (hex : ∀ i, i ∈ c ↔ ∃ x, l[i]? = some x ∧ p x = true) : c.length = (l.filter p).length := by
  rw [← idxWhere_length]
  refine List.Perm.length_eq ((List.perm_ext_iff_of_nodup hnd (idxWhere_nodup p l)).2 fun i => ?_)
  rw [hex, mem_idxWhere]

/-! ### what `walkChain` computes -/

/-- following `next` from `i` visits exactly `l` and ends at `stop` -/
inductive GChain (next : Nat → Option Nat) (stop : Nat) : Nat → List Nat → Prop
  | done : GChain next stop stop []
  | step {i j : Nat} {l : List Nat} : i ≠ stop → next i = some j → GChain next stop j l →
      GChain next stop i (i :: l)

theorem walkChain_of_gchain {next : Nat → Option Nat} {stop i : Nat} {l : List Nat} (h : GChain next stop i l)
    (fuel : Nat) (hf : l.length < fuel) (acc : List Nat) :
    walkChain next stop fuel i acc = some (acc.reverse ++ l) := by
  induction h generalizing fuel acc with
  | done =>
    cases fuel with
    | zero => exact absurd hf (Nat.not_lt_zero _)
    | succ fuel => simp [walkChain]
  | step hi hn _ ih =>
    cases fuel with
    | zero => exact absurd hf (Nat.not_lt_zero _)
    | succ fuel =>
      rw [walkChain, if_neg hi, hn]
      dsimp only
      rw [ih fuel (by simpa using hf)]
      simp

/-! ### the slab -/

def slabNext {α : Type} (s : Slab α) (i : Nat) : Option Nat :=
  match s.entries[i]? with | some (.vacant n) => some n | _ => none

theorem slab_gchain {α : Type} (s : Slab α) {k : Nat} {l : List Nat} (h : Slab.Chain s.entries k l) :
    GChain (slabNext s) s.entries.length k l := by
  induction h with
  | done hk => subst hk; exact .done
  | step hk _ ih =>
    refine .step ?_ ?_ ih
    · exact Nat.ne_of_lt (List.getElem?_eq_some_iff.1 hk).1
    · unfold slabNext; rw [hk]

def isVacant {α : Type} : SlabEntry α → Bool
  | .vacant _ => true
  | .occ _ => false

theorem slab_wfCheck {α : Type} (s : Slab α) (hw : Slab.WF s) : s.wfCheck = true := by
  obtain ⟨l, hc, hnd, hall⟩ := hw.ex
  have hlen : l.length ≤ s.entries.length := nodup_lt_length_le hnd hc.lt_length
  have hwalk := walkChain_of_gchain (slab_gchain s hc) (s.entries.length + 1) (by omega) []
  have hcount : l.length = (s.entries.filter isVacant).length := by
    refine length_eq_filter_of_exact isVacant s.entries hnd fun i => ⟨fun hi => ?_, ?_⟩
    · obtain ⟨n, hn⟩ := hc.mem_vacant i hi
      exact ⟨_, hn, rfl⟩
    · rintro ⟨x, hx, hp⟩
      cases x with
      | vacant n => exact hall i n hx
      | occ a => cases hp
  unfold Slab.wfCheck
  show (match walkChain (slabNext s) s.entries.length (s.entries.length + 1) s.next [] with
    | none => false
    | some chain => chain.eraseDups.length == chain.length && chain.length == (s.entries.filter isVacant).length)
    = true
  rw [hwalk]
  simp only [List.reverse_nil, List.nil_append, Bool.and_eq_true, beq_iff_eq]
  exact ⟨by simpa using eraseDups_length_nat hnd, hcount⟩

/-! ### the slot map -/

def slotNext {α : Type} (sm : SlotMap α) (i : Nat) : Option Nat :=
  match sm.slots[i]? with
  | some s => if s.gen % 2 == 0 && s.gen != 0 then some s.next else none
  | none => none

theorem slot_gchain {α : Type} (sm : SlotMap α) (hsz : sm.slots.length ≤ U32MAX) {h : Nat} {fl : List Nat}
    (c : SlotMap.Chain sm.slots h fl) : GChain (slotNext sm) U32MAX h fl := by
  induction fl generalizing h with
  | nil =>
    have : h = U32MAX := c
    subst this; exact .done
  | cons i fl ih =>
    obtain ⟨hi, s, hs, he, hn, c'⟩ := c
    subst hi
    refine .step ?_ ?_ (ih c')
    · have := SlotMap.getElem?_lt hs; omega
    · unfold slotNext
      rw [hs]
      simp [he, hn]

theorem slot_wfCheck {α : Type} (sm : SlotMap α) (hw : sm.WF) : sm.wfCheck = true := by
  obtain ⟨fl, c, hnd⟩ := hw.chain
  have hlt : ∀ i ∈ fl, i < sm.slots.length := fun i hi => by
    obtain ⟨s, hs, -⟩ := c.mem i hi
    exact SlotMap.getElem?_lt hs
  have hlen : fl.length ≤ sm.slots.length := nodup_lt_length_le hnd hlt
  have hwalk := walkChain_of_gchain (slot_gchain sm hw.size c) (sm.slots.length + 1) (by omega) []
  unfold SlotMap.wfCheck
  show ((sm.slots.all fun s => decide (s.gen < GENMOD) && (s.val.isSome == (s.gen % 2 == 1)))
    && decide (sm.slots.length ≤ U32MAX)
    && sm.len == (sm.slots.filter fun s => s.gen % 2 == 1).length
    && (match walkChain (slotNext sm) U32MAX (sm.slots.length + 1) sm.nextFree [] with
      | none => false
      | some chain => chain.eraseDups.length == chain.length)) = true
  rw [hwalk]
  simp only [List.reverse_nil, List.nil_append, Bool.and_eq_true, List.all_eq_true, decide_eq_true_eq, beq_iff_eq]
  refine ⟨⟨⟨fun s hs => ?_, hw.size⟩, ?_⟩, by simpa using eraseDups_length_nat hnd⟩
  · obtain ⟨i, hi⟩ := List.mem_iff_getElem?.1 hs
    refine ⟨hw.genLt i s hi, ?_⟩
    have := hw.valIff i s hi
    cases hv : s.val.isSome with
    | true =>
      rw [hv] at this
      have h1 := this.1 rfl
      simp [h1]
    | false =>
      rw [hv] at this
      have h1 : ¬ s.gen % 2 = 1 := fun h => by simpa using this.2 h
      simp [h1]
  · rw [hw.lenEq, List.countP_eq_length_filter]

end InvV6

/-- `ExecLeft.slabCheck` -/
theorem execLeft_slabCheck : ∀ s : Slab Arch, Slab.WF s → s.wfCheck = true :=
  fun s hw => InvV6.slab_wfCheck s hw

/-- `ExecLeft.slotCheck` -/
theorem execLeft_slotCheck : ∀ {α : Type} (sm : SlotMap α), sm.WF → sm.wfCheck = true :=
  fun sm hw => InvV6.slot_wfCheck sm hw

/-- `ExecLeft` from the counting fact alone -/
theorem ExecLeft.of_count {w : World}
    (hcount : w.entities.len = (w.archs.toList.map fun (_, a) => a.ids.length).sum) : ExecLeft w :=
  ⟨hcount, execLeft_slabCheck, execLeft_slotCheck⟩

end Evenio
