import Evenio.Proofs.Inv.Exec
/-! # The assembler's part: the remaining glue, relative to the bundle `Pieces` of piece obligations

`Pieces` has one field per obligation of sections A, B, D, E of `Obligations.lean` (and the three `ExecLeft` facts of
`Exec.lean`) that the glue really uses; every field is one of the `Obl.*` propositions verbatim.  From a `P : Pieces`
this file derives `KeepsW` of every primitive, the glue obligations already proved in `Glue.lean` (instantiated), and
the remaining glue obligations of section C. -/
namespace Evenio

/-- the piece obligations the glue depends on (sections A, B, D, E of `Obligations.lean`, `ExecLeft` of `Exec.lean`) -/
structure Pieces : Prop where
  -- A. closed primitives, groups G1–G5
  reserve_keeps : ∀ g, Obl.reserve_keeps g
  bumpCell_keeps : ∀ g, Obl.bumpCell_keeps g
  spawnAll_keeps : ∀ g, Obl.spawnAll_keeps g
  traverseInsert_keeps : ∀ g, Obl.traverseInsert_keeps g
  traverseRemove_keeps : ∀ g, Obl.traverseRemove_keeps g
  moveEntity_keeps : ∀ g, Obl.moveEntity_keeps g
  removeEntity_keeps : ∀ g, Obl.removeEntity_keeps g
  -- B. closed steps, groups G1–G5
  regGev_keeps : ∀ g, Obl.regGev_keeps g
  regComp_keeps : ∀ g, Obl.regComp_keeps g
  regTev_keeps : ∀ g, Obl.regTev_keeps g
  registerAll_keeps : ∀ g, Obl.registerAll_keeps g
  removeHandlerPure_keeps : ∀ g, Obl.removeHandlerPure_keeps g
  removeEventFinish_keeps : ∀ g, Obl.removeEventFinish_keeps g
  /-- `Obl.dropComp_keeps g` with the extra hypothesis `info.id = k` (`archsRemoveComponent` uses `info.id.idx`; `WInv`
      has no conjunct `comps.get k = some ci → ci.id = k`) -/
  dropComp_keeps' : ∀ (g : Group) (w : World) (k : Key) (info : CompInfo) (comps' : SlotMap CompInfo), WInvMid w →
    CompUnused w k info → info.id = k → w.comps.remove k = some (info, comps') →
    Hoare (fun w1 => w1 = Step.dropComp w k comps') (dropCompTail info) (fun _ w' => g.pred w') (PanicOnly g.pred)
  setGen_keeps : ∀ g, Obl.setGen_keeps g
  -- D. G6: `ReservedSome` of the primitives
  reserve_reserved : Obl.reserve_reserved
  bumpCell_reserved : Obl.bumpCell_reserved
  spawnAll_reserved : Obl.spawnAll_reserved
  traverseInsert_reserved : Obl.traverseInsert_reserved
  traverseRemove_reserved : Obl.traverseRemove_reserved
  moveEntity_reserved : Obl.moveEntity_reserved
  fixedDespawn_reserved : Obl.fixedDespawn_reserved
  -- D. G6: `Quiescent` along the two steps that write `entities`
  /-- `Obl.dropComp_quiescent` with the extra hypothesis `info.id = k` -/
  dropComp_quiescent' : ∀ (w : World) (k : Key) (info : CompInfo) (comps' : SlotMap CompInfo), WInvMid w →
    Quiescent w → CompUnused w k info → info.id = k → w.comps.remove k = some (info, comps') →
    HoareOk (fun w1 => w1 = Step.dropComp w k comps') (dropCompTail info) (fun _ w' => Quiescent w')
  /-- NOT among the stated obligations: the tail of `removeComponent` never panics from a world satisfying the
      invariant (every index in `member_of` is a live archetype, so `archs.remove` succeeds).  Needed because a panic
      there would leave the reservation cursor stale (`ReservedSome` is only re-established by the final
      `resRefresh`), and no obligation covers `ReservedSome` on that exit. -/
  extra_dropComp_noPanic : ∀ (w : World) (k : Key) (info : CompInfo) (comps' : SlotMap CompInfo) (e : Err)
    (w' : World), WInvMid w → CompUnused w k info → info.id = k → w.comps.remove k = some (info, comps') →
    (dropCompTail info).run.run (Step.dropComp w k comps') = (.error e, w') → e.isPanic = false
  setGen_quiescent : Obl.setGen_quiescent
  -- D. G6: pending `Spawn` events along the top-level functions
  flush_pending : Obl.flush_pending
  sendGlobal_pending : Obl.sendGlobal_pending
  addGlobalEvent_pending : Obl.addGlobalEvent_pending
  addComponent_pending : Obl.addComponent_pending
  /-- `Obl.addTargetedEvent_pending` for targeted types (the only ones `addTargetedEvent` is called with) -/
  addTargetedEvent_pending_partial : ∀ ty (E : Prop), ty.targeted = true → KeepsP E E (addTargetedEvent ty)
  /-- `Obl.sendTargeted_pending` for targeted types -/
  sendTargeted_pending_partial : ∀ ty tg pay (E : Prop), ty.targeted = true → KeepsP E E (sendTargeted ty tg pay)
  /-- `Obl.addHandler_pending` for valid handler specifications -/
  addHandler_pending_partial : ∀ hs (E : Prop), hs.Valid → KeepsP E E (addHandler hs)
  removeHandler_pending : Obl.removeHandler_pending
  -- E. functional facts
  addComponent_live : Obl.addComponent_live
  /-- `Obl.initParam_configRel` is false as stated (`ConfigRel.spawnImm` is not inductive on its own); this is the
      variant with the missing conjunct `cfg.recvEv = none → cfg.recvMut = false` as extra hypothesis and conclusion -/
  initParam_configRel_partial :
    ∀ (ps : PSpec) (cfg : Config) (params : List Param) (w : World) (p : Param) (cfg' : Config) (w' : World),
      (∀ q, ps ≠ .recv .spawn true q) → WInvMid w → Obl.ConfigRel w cfg params →
      (cfg.recvEv = none → cfg.recvMut = false) →
      (initParam ps cfg).run.run w = (.ok (p, cfg'), w') →
      Obl.ConfigRel w' cfg' (params ++ [p]) ∧ (cfg'.recvEv = none → cfg'.recvMut = false)
  removeHandler_cores : Obl.removeHandler_cores
  removeAll_unused : Obl.removeAll_unused

namespace InvV7

/-! ### general tools -/

/-- **dropping the guard of the precondition**: since `m` never shrinks the slab, `Small` of the final state gives
    `Small` of the initial state `w0`, so the triple may be proved from the exact initial state `w0` with `P w0`
    unguarded -/
theorem Hoare.unguard {α : Type} {P : World → Prop} {m : M α} {Q : α → World → Prop} {E : Err → World → Prop}
    (hmono : SlabMono m) (hQ : ∀ a w, (Small w → Q a w) → Q a w) (hE : ∀ e w, (Small w → E e w) → E e w)
    (h : ∀ w0, Small w0 → P w0 → Hoare (fun w => w = w0) m Q E) : Hoare (Guarded P) m Q E := by
  refine ⟨fun w hw => ?_⟩
  generalize hr : m.run.run w = res
  obtain ⟨(e|a), w'⟩ := res
  · refine hE _ _ fun hs => ?_
    have hs0 := hmono.small hr hs
    exact (h w hs0 (hw hs0)).err rfl hr
  · refine hQ _ _ fun hs => ?_
    have hs0 := hmono.small hr hs
    exact (h w hs0 (hw hs0)).ok rfl hr

theorem guarded_absorb {G : World → Prop} (w : World) (h : Small w → Guarded G w) : Guarded G w :=
  fun hs => h hs hs

theorem panicOnly_guarded_absorb {G : World → Prop} (e : Err) (w : World)
    (h : Small w → PanicOnly (Guarded G) e w) : PanicOnly (Guarded G) e w :=
  fun hp hs => h hs hp hs

/-- `KeepsG` from the exact, unguarded initial state -/
theorem KeepsG.of_exact {α : Type} {G : World → Prop} {m : M α} (hmono : SlabMono m)
    (h : ∀ w0, WInvMid w0 → Hoare (fun w => w = w0) m (fun _ => Guarded G) (PanicOnly (Guarded G))) :
    KeepsG G m :=
  Hoare.unguard hmono (fun _ => guarded_absorb) panicOnly_guarded_absorb fun w0 _ hw => h w0 hw

/-- a statement about normal returns and the preservation of everything, combined -/
theorem Hoare.and_ok {α : Type} {P : World → Prop} {m : M α} {Q1 Q2 : α → World → Prop} {E : Err → World → Prop}
    (h1 : Hoare P m Q1 E) (h2 : HoareOk P m Q2) : Hoare P m (fun a w => Q1 a w ∧ Q2 a w) E :=
  Hoare.post (Hoare.and h1 (Hoare.of_hoareOk h2)) (fun _ _ h => h) (fun _ _ h => h.1)

theorem SlabMono.of_keeps {α : Type} {m : M α} (h : ∀ n, Keeps (SL n) m) : SlabMono m := h

/-- `get >>= f` from a state satisfying `P`: the continuation starts in exactly the state that was read -/
theorem Hoare.get_bind_eq {β : Type} {P : World → Prop} {f : World → M β} {Q : β → World → Prop}
    {E : Err → World → Prop} (hf : ∀ w, P w → Hoare (fun w' => w' = w) (f w) Q E) :
    Hoare P (MonadState.get >>= f) Q E := by
  refine ⟨fun w hw => ?_⟩
  rw [run_bind, run_get]
  exact (hf w hw).run w rfl

/-- from an exact state: `Small` of that state may be assumed (it follows from `Small` of the final state) -/
theorem Hoare.unguard_at {α : Type} {m : M α} {Q : α → World → Prop} {E : Err → World → Prop} {w1 : World}
    (hmono : SlabMono m) (hQ : ∀ a w, (Small w → Q a w) → Q a w) (hE : ∀ e w, (Small w → E e w) → E e w)
    (h : Small w1 → Hoare (fun w => w = w1) m Q E) : Hoare (fun w => w = w1) m Q E := by
  refine ⟨fun w hw => ?_⟩
  subst hw
  generalize hr : m.run.run w = res
  obtain ⟨(e|a), w'⟩ := res
  · exact hE _ _ fun hs => (h (hmono.small hr hs)).err rfl hr
  · exact hQ _ _ fun hs => (h (hmono.small hr hs)).ok rfl hr

theorem Hoare.forIn_list_mem {β γ : Type} {l : List γ} {b : β} {f : γ → β → M (ForInStep β)}
    {E : Err → World → Prop} (Inv : β → World → Prop)
    (hf : ∀ a ∈ l, ∀ b, Hoare (Inv b) (f a b) (fun r => Inv r.value) E) : Hoare (Inv b) (forIn l b f) Inv E := by
  induction l generalizing b with
  | nil => exact Hoare.pure fun _ h => h
  | cons a l ih =>
    rw [List.forIn_cons]
    refine Hoare.bind (hf a List.mem_cons_self b) fun r => ?_
    cases r with
    | done b => exact Hoare.pure fun _ h => h
    | yield b => exact ih fun a' ha' => hf a' (List.mem_cons_of_mem _ ha')

theorem dbgAssert_same (w0 : World) (c : Bool) (s : String) : Keeps (SAME w0) (dbgAssert c s) := by
  unfold dbgAssert; keeps

theorem dbgAssert_hoare_at (w1 : World) (c : Bool) (s : String) {G : World → Prop} :
    Hoare (fun w => w = w1) (dbgAssert c s) (fun _ w => w = w1) (PanicOnly G) := by
  refine ⟨fun w h => ?_⟩
  rw [dbgAssert_run]
  by_cases hc : (w.debug && !c) = true
  · rw [if_pos hc]; exact fun hp => nomatch hp
  · rw [if_neg hc]; exact h

/-! the reservation view `(entities, resIndex, resCount)` is not touched by the registration loop -/

/-- the fields `Reserved` and `Quiescent` read -/
abbrev RES (v : SlotMap Loc × Nat × Nat × List QItem) : World → Prop :=
  fun w => (w.entities, w.resIndex, w.resCount, w.queue) = v

/-- the view of `RES` -/
abbrev resView (w : World) : SlotMap Loc × Nat × Nat × List QItem :=
  (w.entities, w.resIndex, w.resCount, w.queue)

theorem Reserved.of_res {w w' : World} {ks : List Key} (h : Reserved w ks) (he : resView w' = resView w) :
    Reserved w' ks := by
  simp only [resView, Prod.mk.injEq] at he
  exact h.frame he.1 he.2.1 he.2.2.1

theorem ReservedSome.of_res {w w' : World} (h : ReservedSome w) (he : resView w' = resView w) : ReservedSome w' :=
  h.imp fun _ hk => Reserved.of_res hk he

theorem Quiescent.of_res {w w' : World} (h : Quiescent w) (he : resView w' = resView w) : Quiescent w' := by
  refine ⟨?_, Reserved.of_res h.2 he⟩
  simp only [resView, Prod.mk.injEq] at he
  rw [he.2.2.2]; exact h.1

section res
variable {v : SlotMap Loc × Nat × Nat × List QItem}
theorem ubErr_res {α : Type} (s : String) : Keeps (RES v) (ubErr s : M α) := Keeps.throw _
local macro_rules | `(tactic| keeps_leaf) => `(tactic| exact ubErr_res _)
theorem dbgAssert_res (c : Bool) (s : String) : Keeps (RES v) (dbgAssert c s) := by unfold dbgAssert; keeps
local macro_rules | `(tactic| keeps_leaf) => `(tactic| exact dbgAssert_res _ _)
theorem getArch_res (i : Nat) (s : String) : Keeps (RES v) (getArch i s) := by unfold getArch; keeps
local macro_rules | `(tactic| keeps_leaf) => `(tactic| exact getArch_res _ _)
theorem setArch_res (a : Arch) : Keeps (RES v) (setArch a) := by unfold setArch; keeps
local macro_rules | `(tactic| keeps_leaf) => `(tactic| exact setArch_res _)
theorem handlerRefresh_res (hk : Key) (a : Arch) : Keeps (RES v) (handlerRefresh hk a) := by
  unfold handlerRefresh; keeps
local macro_rules | `(tactic| keeps_leaf) => `(tactic| exact handlerRefresh_res _ _)
theorem registerHandler_res (a : Arch) (h : HInfo) : Keeps (RES v) (a.registerHandler h) := by
  unfold Arch.registerHandler; keeps
local macro_rules | `(tactic| keeps_leaf) => `(tactic| exact registerHandler_res _ _)
theorem registerAll_res (k : Key) : Keeps (RES v) (registerAll k) := by unfold registerAll; keeps
theorem removeEventFinish_res (ty : EvTy) (k : Key) : Keeps (RES v) (removeEventFinish ty k) := by
  unfold removeEventFinish; keeps
end res

theorem registerAll_sl (k : Key) : SlabMono (registerAll k) := fun n => by unfold registerAll; keeps

end InvV7

open InvV7

/-! ### the primitives and the glue of `Glue.lean`, from the bundle -/

namespace Pieces
variable (P : Pieces)
include P

theorem kw_reserve : KeepsW reserve := KeepsW.of_obl P.reserve_keeps P.reserve_reserved
theorem kw_bumpCell (ai row c : Nat) : KeepsW (bumpCell ai row c) :=
  KeepsW.of_obl (fun g => P.bumpCell_keeps g ai row c) (P.bumpCell_reserved ai row c)
theorem kw_spawnAll : KeepsW spawnAll := KeepsW.of_obl P.spawnAll_keeps P.spawnAll_reserved
theorem kw_traverseInsert (src c : Nat) : KeepsW (traverseInsert src c) :=
  KeepsW.of_obl (fun g => P.traverseInsert_keeps g src c) (P.traverseInsert_reserved src c)
theorem kw_traverseRemove (src c : Nat) : KeepsW (traverseRemove src c) :=
  KeepsW.of_obl (fun g => P.traverseRemove_keeps g src c) (P.traverseRemove_reserved src c)
theorem kw_moveEntity (src : Loc) (dst : Nat) (new : List (Nat × Cell)) : KeepsW (moveEntity src dst new) :=
  KeepsW.of_obl (fun g => P.moveEntity_keeps g src dst new) (P.moveEntity_reserved src dst new)

theorem glue_fixedDespawn : Obl.glue_fixedDespawn :=
  Evenio.glue_fixedDespawn P.kw_spawnAll P.removeEntity_keeps P.fixedDespawn_reserved
theorem glue_runAct : Obl.glue_runAct := Evenio.glue_runAct P.kw_reserve P.kw_bumpCell
theorem glue_runHandler : Obl.glue_runHandler := Evenio.glue_runHandler P.kw_reserve P.kw_bumpCell
theorem glue_deliverOne : Obl.glue_deliverOne :=
  Evenio.glue_deliverOne P.glue_runHandler P.kw_traverseInsert P.kw_traverseRemove P.kw_moveEntity P.kw_spawnAll
    P.glue_fixedDespawn
theorem glue_flush : Obl.glue_flush :=
  Evenio.glue_flush P.glue_runHandler P.kw_traverseInsert P.kw_traverseRemove P.kw_moveEntity P.kw_spawnAll
    P.glue_fixedDespawn
theorem glue_ensureAddG : Obl.glue_ensureAddG := Evenio.glue_ensureAddG P.glue_flush P.regGev_keeps
theorem glue_addGlobalEvent : Obl.glue_addGlobalEvent := Evenio.glue_addGlobalEvent P.glue_flush P.regGev_keeps
theorem glue_sendGlobal : Obl.glue_sendGlobal := Evenio.glue_sendGlobal P.glue_flush P.regGev_keeps
theorem glue_addComponent : Obl.glue_addComponent :=
  Evenio.glue_addComponent P.glue_flush P.regGev_keeps P.regComp_keeps

end Pieces

/-! ### `addTargetedEvent`, `addEvent`, `sendTargeted` -/

namespace InvV7

theorem noteEvent_frame (w : World) (kind : EvKind) (k : Key) :
    (Step.noteEvent w kind k).archs = w.archs ∧ (Step.noteEvent w kind k).tevs = w.tevs ∧
    (Step.noteEvent w kind k).entities = w.entities ∧ (Step.noteEvent w kind k).resIndex = w.resIndex ∧
    (Step.noteEvent w kind k).resCount = w.resCount := by
  unfold Step.noteEvent
  repeat' split
  all_goals exact ⟨rfl, rfl, rfl, rfl, rfl⟩

/-- the component of an Insert/Remove event kind is live -/
def KindLive (kind : EvKind) (w : World) : Prop :=
  ∀ c, kind = .insert c ∨ kind = .remove c → (w.comps.getByIndex c).isSome = true

theorem gw_regTev (htev : ∀ g : Group, Obl.regTev_keeps g) {w : World} {kind : EvKind}
    (hw : Guarded (fun w => WInvMid w ∧ KindLive kind w) w) {ty : EvTy} (hty : ty.targeted = true) {nd : Bool}
    {k : Key} {tevs' : SlotMap EvInfo} (hins : w.tevs.insertWith (Step.tevEntry ty kind nd) = some (k, tevs')) :
    GW (Step.regTev w kind k tevs') := by
  intro hs
  obtain ⟨e1, e2, e3, e4, e5⟩ := noteEvent_frame { w with tevs := tevs' } kind k
  have hs0 : Small w := by
    refine ⟨?_, Nat.lt_of_le_of_lt (SlotMap.length_insertWith hins) ?_⟩
    · have := hs.1; unfold Step.regTev at this; rw [e1] at this; exact this
    · have := hs.2; unfold Step.regTev at this; rw [e2] at this; exact this
  obtain ⟨h1, h2⟩ := hw hs0
  refine winvMid_of_groups hs (fun g => htev g w ty kind nd k tevs' h1 hty h2 hins) ?_
  obtain ⟨ks, hk⟩ := h1.2
  exact ⟨ks, hk.frame e3 e4 e5⟩

end InvV7

namespace Pieces
variable (P : Pieces)
include P

theorem glue_addTargetedEvent : Obl.glue_addTargetedEvent := by
  intro ty hty
  unfold addTargetedEvent
  have hadd : ∀ k, Hoare GW (addComponent k)
      (fun c w => Guarded (fun w => WInvMid w ∧ (w.comps.getByIndex c.idx).isSome = true) w) (PanicOnly GW) := by
    intro k
    refine Hoare.post (Hoare.and_ok (P.glue_addComponent k) (HoareOk.pre (P.addComponent_live k) fun _ _ => trivial))
      ?_ (fun _ _ h => h)
    rintro c w ⟨h1, ci, hci, -⟩ hs
    refine ⟨h1 hs, ?_⟩
    rw [SlotMap.get_getByIndex (h1 hs).1.compsWF hci]; rfl
  refine Hoare.bind (R := fun kind => Guarded (fun w => WInvMid w ∧ KindLive kind w)) ?_ fun kind => ?_
  · split
    · refine Hoare.bind (hadd _) fun c => Hoare.pure fun w hw hs => ⟨(hw hs).1, fun c' hc' => ?_⟩
      rcases hc' with h | h <;> cases h
      exact (hw hs).2
    · refine Hoare.bind (hadd _) fun c => Hoare.pure fun w hw hs => ⟨(hw hs).1, fun c' hc' => ?_⟩
      rcases hc' with h | h <;> cases h
      exact (hw hs).2
    · exact Hoare.pure fun w hw hs => ⟨hw hs, fun c' hc' => by rcases hc' with h | h <;> cases h⟩
    · exact Hoare.pure fun w hw hs => ⟨hw hs, fun c' hc' => by rcases hc' with h | h <;> cases h⟩
  · have hpost : ∀ w, Guarded (fun w => WInvMid w ∧ KindLive kind w) w → GW w := fun w h hs => (h hs).1
    refine Hoare.get_bind fun w hw => ?_
    split
    · exact Hoare.pure hpost
    · extract_lets nd
      split
      · exact Hoare.throw fun w h => panicOnly_of (hpost w h)
      · next k tevs hins =>
        refine Hoare.bind (R := fun _ w1 => w1 = { w with tevs := tevs }) ⟨fun w0 _ => ?_⟩ fun _ => ?_
        · simp only [run_set]
        extract_lets jp
        have hjp : ∀ r, Hoare (fun w2 => w2 = Step.regTev w kind k tevs) (jp r) (fun _ => GW) (PanicOnly GW) := by
          intro r
          refine Hoare.pre (P' := GW) ?_ fun w2 h2 => ?_
          · exact Hoare.bind_inv (P.glue_sendGlobal _ _) fun _ => KeepsW.pure _
          · subst h2
            exact gw_regTev P.regTev_keeps hw hty hins
        refine ⟨fun w1 h1 => ?_⟩
        subst h1
        have key := fun r => (hjp r).run _ rfl
        unfold Step.regTev Step.noteEvent at key
        cases kind with
        | insert c =>
          simp only [run_bind, run_get]
          cases hg : w.comps.getByIndex c with
          | none => simp only [hg] at key ⊢; exact key ()
          | some p => obtain ⟨ck, ci⟩ := p; simp only [hg, run_bind, run_set] at key ⊢; exact key ()
        | remove c =>
          simp only [run_bind, run_get]
          cases hg : w.comps.getByIndex c with
          | none => simp only [hg] at key ⊢; exact key ()
          | some p => obtain ⟨ck, ci⟩ := p; simp only [hg, run_bind, run_set] at key ⊢; exact key ()
        | normal => exact key ()
        | spawn => exact key ()
        | despawn => exact key ()

theorem glue_addEvent : Obl.glue_addEvent := by
  intro ty
  unfold addEvent
  split
  · next h => exact P.glue_addTargetedEvent ty h
  · exact P.glue_addGlobalEvent ty

theorem glue_sendTargeted : Obl.glue_sendTargeted := by
  intro ty tg pay hty
  unfold sendTargeted
  refine Hoare.bind_inv (KeepsW.tryCatch (P.glue_addTargetedEvent ty hty) fun e => ?_) fun k => ?_
  · by_cases hp : e.isPanic = true
    · refine Hoare.pre (P' := GW) ?_ (fun w h => h hp)
      exact Hoare.bind_inv (KeepsW.of_keeps (dropEvent_gw _)) fun _ => KeepsW.throw _
    · refine Hoare.post (E := fun e' _ => e' = e) (Q := fun _ _ => False) ?_ (fun _ _ h => h.elim)
        (fun e' _ he hp' => absurd (he ▸ hp') hp)
      refine Hoare.bind (R := fun _ _ => True) (E := fun e' _ => e' = e) ⟨fun w _ => ?_⟩ fun _ =>
        Hoare.throw fun _ _ => rfl
      rw [run_dropEvent]
      trivial
  · exact Hoare.bind_inv (glue_push _) fun _ => P.glue_flush _

/-! ### `initQuery`, `initParam` -/

theorem glue_initQuery : Obl.glue_initQuery := by
  intro q cfg
  have hAC := P.glue_addComponent
  unfold Obl.glue_addComponent at hAC
  unfold initQuery
  repeat' first
    | exact KeepsW.pure _
    | exact hAC _
    | (with_reducible refine Hoare.get_bind fun _ _ => ?_)
    | (with_reducible refine Hoare.bind_inv ?_ fun _ => ?_)
    | (with_reducible refine KeepsW.forIn_list fun _ _ => ?_)
    | dsimp only

theorem glue_initParam : Obl.glue_initParam := by
  intro ps cfg
  have hIQ := P.glue_initQuery
  have hATE := P.glue_addTargetedEvent
  have hAGE := P.glue_addGlobalEvent
  have hAE := P.glue_addEvent
  unfold Obl.glue_initQuery at hIQ
  unfold Obl.glue_addTargetedEvent at hATE
  unfold Obl.glue_addGlobalEvent at hAGE
  unfold Obl.glue_addEvent at hAE
  unfold initParam
  repeat' first
    | exact KeepsW.pure _
    | exact hIQ _ _
    | exact hATE _ ‹_›
    | exact hAGE _
    | exact hAE _
    | (with_reducible refine Hoare.get_bind fun _ _ => ?_)
    | (with_reducible refine Hoare.bind_inv ?_ fun _ => ?_)
    | (with_reducible refine KeepsW.forIn_list fun _ _ => ?_)
    | dsimp only
    | split

/-! ### `removeHandler` -/

omit P in
theorem foldl_set_length {γ : Type} (f : γ → Nat) (g : γ → Arch) (l : List γ) (s : Slab Arch) :
    (l.foldl (fun s p => s.set (f p) (g p)) s).entries.length = s.entries.length := by
  induction l generalizing s with
  | nil => rfl
  | cons x l ih => rw [List.foldl_cons, ih, Slab.length_set]

omit P in
theorem removeHandlerPure_archs_length (w : World) (k : Key) (h : HInfo) :
    (removeHandlerPure w k h).archs.entries.length = w.archs.entries.length := by
  unfold removeHandlerPure
  rw [dropHandlerArchs_eq]
  exact foldl_set_length _ _ _ _

theorem gw_removeHandlerPure {w : World} (hw : GW w) {k : Key} {h : HInfo} (hg : w.handlers.get k = some h) :
    GW (removeHandlerPure w k h) := by
  intro hs
  obtain ⟨-, e2, e3, e4, -, -, e7, -⟩ := removeHandlerPure_frame w k h
  have hs0 : Small w := by
    refine ⟨?_, ?_⟩
    · have := hs.1; rw [removeHandlerPure_archs_length] at this; exact this
    · have := hs.2; rw [e7] at this; exact this
  have h1 := hw hs0
  refine winvMid_of_groups hs (fun g => P.removeHandlerPure_keeps g w k h h1 hg) ?_
  obtain ⟨ks, hk⟩ := h1.2
  exact ⟨ks, hk.frame e2 e3 e4⟩

theorem glue_removeHandler : Obl.glue_removeHandler := by
  intro k
  refine ⟨fun w hw => ?_⟩
  rw [removeHandler_eq]
  by_cases hc : w.handlers.contains k = false
  · rw [if_pos hc]; exact hw
  · rw [if_neg hc]
    have hs := (P.glue_sendGlobal .remH { id := k }).run w hw
    generalize (sendGlobal .remH { id := k }).run.run w = r at hs ⊢
    obtain ⟨(e|u), w1⟩ := r
    · exact hs
    · replace hs : GW w1 := hs
      dsimp only
      cases hrm : w1.handlers.remove k with
      | none => exact fun _ => hs
      | some p =>
        obtain ⟨h, hs'⟩ := p
        have hfin := P.gw_removeHandlerPure hs (SlotMap.get_of_remove hrm)
        dsimp only
        split
        · next hif =>
          split at hif
          · cases hif
          · cases hif; exact hfin
        · next hif =>
          split at hif
          · cases hif; exact fun hp => nomatch hp
          · cases hif

/-! ### `addHandler` -/

omit P in
theorem configRel_init (w : World) : Obl.ConfigRel w {} [] where
  accesses := rfl
  filter := FilterRel.init
  caches := fun _ h => by cases h
  referenced := fun _ h => by cases h
  recv := fun _ _ h => by cases h
  sentG := fun _ h => by cases h
  sentT := fun _ h => by cases h
  sendsG := fun _ _ h => by cases h
  sendsT := fun _ _ h => by cases h
  spawnImm := fun _ h => by cases h

omit P in
/-- the registry entry `addHandler` builds from the accumulated configuration satisfies the precondition of the
    registration step -/
theorem newHandlerPre_of {w : World} {cfg : Config} {params : List Param} (hC : Obl.ConfigRel w cfg params)
    {recvTy : EvTy} {recvKey : Key} (hrecv : cfg.recvEv = some (some (recvTy, recvKey))) (name : String)
    (tid : Option Nat) (prio : Priority) (body : List Act) {k : Key} {handlers : SlotMap HInfo}
    (hins : w.handlers.insertWith (fun k =>
      { name := name, key := k, order := w.insertCounter, tid := tid, recv := recvTy, recvIdx := recvKey.idx,
        recvKey := recvKey, recvMut := cfg.recvMut, filter := cfg.filter, sentG := cfg.sentG, sentT := cfg.sentT,
        sends := cfg.sends, compAccess := cfg.accesses.foldl (fun acc a => acc.and a) CA.tt,
        archFilter := cfg.accesses.foldl (fun acc a => acc.or a) CA.ff, referenced := cfg.referenced, prio := prio,
        params := params, body := body }) = some (k, handlers)) :
    NewHandlerPre w k
      { name := name, key := k, order := w.insertCounter, tid := tid, recv := recvTy, recvIdx := recvKey.idx,
        recvKey := recvKey, recvMut := cfg.recvMut, filter := cfg.filter, sentG := cfg.sentG, sentT := cfg.sentT,
        sends := cfg.sends, compAccess := cfg.accesses.foldl (fun acc a => acc.and a) CA.tt,
        archFilter := cfg.accesses.foldl (fun acc a => acc.or a) CA.ff, referenced := cfg.referenced, prio := prio,
        params := params, body := body } handlers where
  ins := ⟨_, hins, rfl⟩
  order := rfl
  ok := {
    key := rfl
    recvIdx := rfl
    archFilter := by
      show List.foldl _ _ cfg.accesses = List.foldl _ _ (HInfo.accesses _)
      unfold HInfo.accesses
      rw [hC.accesses]
    compAccess := by
      show List.foldl _ _ cfg.accesses = List.foldl _ _ (HInfo.accesses _)
      unfold HInfo.accesses
      rw [hC.accesses]
    filter := ⟨hC.filter.1, fun ht => hC.filter.2.2 recvTy recvKey hrecv ht⟩
    order := Nat.lt_succ_self _
    spawnImm := fun he => by
      have he' : recvTy = .spawn := he
      subst he'
      exact hC.spawnImm recvKey hrecv }
  refs := {
    referenced := hC.referenced
    recvG := fun ht => by
      have ht' : recvTy.targeted = false := ht
      have := hC.recv recvTy recvKey hrecv
      rw [ht'] at this
      exact this
    recvT := fun ht => by
      have ht' : recvTy.targeted = true := ht
      have := hC.recv recvTy recvKey hrecv
      rw [ht'] at this
      exact this
    sentG := hC.sentG
    sentT := hC.sentT
    sendsG := hC.sendsG
    sendsT := hC.sendsT }
  caches := hC.caches

/-- the loop invariant of the parameter loop of `addHandler` -/
def CfgInv (cfg : Config) (params : List Param) (w : World) : Prop :=
  WInvMid w ∧ Obl.ConfigRel w cfg params ∧ (cfg.recvEv = none → cfg.recvMut = false)

/-- the parameter loop: one `initParam` keeps the invariant and extends the configuration relation -/
theorem initParam_step (ps : PSpec) (cfg : Config) (params : List Param) (hv : ∀ q, ps ≠ .recv .spawn true q) :
    Hoare (Guarded (CfgInv cfg params)) (initParam ps cfg)
      (fun r => Guarded (CfgInv r.2 (params ++ [r.1]))) (PanicOnly GW) := by
  refine Hoare.unguard (fun n => initParam_sl ps cfg) (fun _ => guarded_absorb) panicOnly_guarded_absorb
    fun w0 _ hw0 => ⟨fun w h => ?_⟩
  subst h
  have h1 := (P.glue_initParam ps cfg).run w fun _ => hw0.1
  generalize hr : (initParam ps cfg).run.run w = res at h1
  obtain ⟨(e|⟨p, cfg'⟩), w'⟩ := res
  · exact h1
  · exact fun hs => ⟨h1 hs, P.initParam_configRel_partial ps cfg params w p cfg' w' hv hw0.1 hw0.2.1 hw0.2.2 hr⟩

/-- the registration loop, from the exact state `Handlers::add` left -/
theorem registerAll_gw {w : World} (hw : WInvMid w) {k : Key} {h : HInfo} {handlers' : SlotMap HInfo}
    (hpre : NewHandlerPre w k h handlers') :
    Hoare (fun w1 => w1 = Step.insertHandler w k handlers' h.recv h.recvKey h.prio) (registerAll k)
      (fun _ => GW) (PanicOnly GW) := by
  refine ⟨fun w1 h1 => ?_⟩
  have r := fun g => (P.registerAll_keeps g w k h handlers' hw hpre).run w1 h1
  have r6 := (registerAll_res (v := resView w1) k).run w1 rfl
  generalize (registerAll k).run.run w1 = res at r r6
  have hres : ReservedSome w1 := by subst h1; exact hw.2
  obtain ⟨(e|a), w'⟩ := res
  · exact fun hp hs => winvMid_of_groups hs (fun g => r g hp) (ReservedSome.of_res hres r6)
  · exact fun hs => winvMid_of_groups hs (fun g => r g) (ReservedSome.of_res hres r6)

theorem glue_addHandler : Obl.glue_addHandler := by
  intro hs hvalid
  unfold addHandler
  extract_lets cfg0 params0 jp
  have hjp : KeepsW (jp ()) := by
    let Inv : Config × List Param → World → Prop := fun s => Guarded (CfgInv s.1 s.2)
    have hInvGW : ∀ s w, Inv s w → GW w := fun s w h hs => (h hs).1
    refine Hoare.bind (R := Inv) (Hoare.pre (Hoare.forIn_list_mem Inv fun ps hps s => ?_)
      fun w hw hs => ⟨hw hs, configRel_init w, fun _ => rfl⟩) fun s => ?_
    · -- one parameter
      dsimp only
      refine Hoare.bind (P.initParam_step ps s.1 s.2 (hvalid ps hps)) fun x => ?_
      obtain ⟨p, cfg'⟩ := x
      exact Hoare.pure fun w h => h
    · -- the registry entry
      obtain ⟨cfg, params⟩ := s
      dsimp only
      split
      · exact Hoare.pure (hInvGW _)
      · exact Hoare.pure (hInvGW _)
      · next recvTy recvKey hrecv =>
        split
        · exact Hoare.pure (hInvGW _)
        · split
          · exact Hoare.get_bind fun _ _ => Hoare.pure (hInvGW _)
          · refine Hoare.get_bind_eq fun w hw => ?_
            split
            · exact Hoare.throw fun w' h => panicOnly_of (h ▸ hInvGW _ w hw)
            · next k handlers hins =>
              refine Hoare.bind (R := fun _ w' => w' = Step.insertHandler w k handlers recvTy recvKey hs.prio)
                ⟨fun w0 _ => ?_⟩ fun _ => ?_
              · simp only [run_set]; rfl
              refine Hoare.unguard_at (fun n => by keeps) (fun _ => guarded_absorb) panicOnly_guarded_absorb
                fun hs1 => ?_
              have hs0 : Small w := hs1
              obtain ⟨hW, hC, -⟩ := hw hs0
              have hpre := newHandlerPre_of (cfg := cfg) hC hrecv hs.name hs.tid hs.prio hs.body hins
              refine Hoare.get_bind fun _ _ => Hoare.get_bind fun _ _ => ?_
              refine Hoare.bind_inv (dbgAssert_hoare_at _ _ _) fun _ => ?_
              refine Hoare.congr_run (m := registerAll k >>= fun _ =>
                (sendGlobal .addH { id := k } >>= fun _ => pure (AddResult.ok k))) ?_ fun w' => ?_
              · refine Hoare.bind (P.registerAll_gw hW hpre) fun _ => ?_
                exact Hoare.bind_inv (P.glue_sendGlobal _ _) fun _ => KeepsW.pure _
              · unfold registerAll
                simp only [run_bind, run_get]
                generalize StateT.run (ExceptT.run (forIn (m := M) (β := PUnit) w'.archs.toList _ _)) _ = r
                obtain ⟨(e|a), w2⟩ := r <;> rfl
  split
  · refine Hoare.get_bind fun w _ => ?_
    split
    · exact KeepsW.pure _
    · exact hjp
  · exact hjp

end Pieces

end Evenio
