import Evenio.Proofs.Inv.Glue2
import Evenio.Proofs.Inv.QueueEmpty
/-! # The top-level glue: `opSpawn`, `removeEvent`, `removeComponent`, `execOp`

`KeepsTop` (Proofs/WInv.lean) claims `queue = []` after EVERY panic.  That is false for the model's own fuel exhaustion
(`flushWith _ 0 = throw (.panic "model:fuel")` leaves the queue as it is), so the shape proved here is `KeepsTopNF`: the
same as `KeepsTop`, except that the queue is only claimed to be empty after a panic OTHER than `"model:fuel"`.  It is
assembled from two independent halves:

* `TopQ m` — from a quiescent world satisfying `WInv`, a normal return ends in such a world and a panic in a world
  satisfying `WInvMid` (this file, from the piece obligations `Pieces`);
* `QE m` — the queue discipline (Inv/QueueEmpty.lean; independent of the invariant). -/
namespace Evenio
open InvV7

/-- the guarded top-level invariant -/
abbrev GQ : World → Prop := Guarded fun w => WInv w ∧ Quiescent w

/-- `KeepsTop` without the claim on the queue after a panic -/
abbrev TopQ {α : Type} (m : M α) : Prop := Hoare GQ m (fun _ => GQ) (PanicOnly GW)

/-- **the strongest true variant of `KeepsTop`**: after a panic the invariant `WInvMid` holds, and the queue is empty
    unless the panic is the model's own fuel exhaustion -/
abbrev KeepsTopNF {α : Type} (m : M α) : Prop :=
  Hoare GQ m (fun _ => GQ)
    (fun e w => e.isPanic = true → Guarded (fun w => WInvMid w ∧ (e ≠ .panic "model:fuel" → w.queue = [])) w)

namespace InvV7

theorem gq_gw {w : World} (h : GQ w) : GW w := fun hs => ⟨(h hs).1, (h hs).2.reservedSome⟩

theorem KeepsTopNF.of {α : Type} {m : M α} (hmono : SlabMono m) (h1 : TopQ m) (h2 : QE m) : KeepsTopNF m := by
  refine Hoare.unguard hmono (fun _ => guarded_absorb) (fun e w h hp hs => h hs hp hs) fun w0 _ hw0 => ⟨fun w h => ?_⟩
  subst h
  have r1 := h1.run w fun _ => hw0
  have r2 := h2.run w hw0.2.1
  generalize m.run.run w = res at r1 r2
  obtain ⟨(e|a), w'⟩ := res
  · exact fun hp hs => ⟨r1 hp hs, fun hne => r2 hp hne⟩
  · exact r1

/-- `KeepsTop` itself follows wherever the fuel does not run out -/
theorem KeepsTopNF.keepsTop {α : Type} {m : M α} (h : KeepsTopNF m)
    (hfuel : ∀ w w', GQ w → m.run.run w ≠ (.error (.panic "model:fuel"), w')) : KeepsTop m := by
  refine ⟨fun w hw => ?_⟩
  have r := h.run w hw
  have hf := hfuel w
  generalize m.run.run w = res at r hf
  obtain ⟨(e|a), w'⟩ := res
  · intro hp hs
    have hne : e ≠ .panic "model:fuel" := fun he => hf w' hw (by rw [he])
    exact ⟨(r hp hs).1, (r hp hs).2 hne⟩
  · exact r

/-- **a top-level function whose three aspects are known**: the invariant (`KeepsW`), the accounting of pending
    `Spawn` events (`KeepsP`), the queue discipline (`QE`) -/
theorem topQ_of {α : Type} {m : M α} (hmono : SlabMono m) (hW : KeepsW m) (hP : KeepsP False False m) (hQ : QE m) :
    TopQ m := by
  refine Hoare.unguard hmono (fun _ => guarded_absorb) panicOnly_guarded_absorb fun w0 _ hw0 => ⟨fun w h => ?_⟩
  subst h
  obtain ⟨h1, h2⟩ := hw0
  have rW := hW.run w fun _ => ⟨h1, h2.reservedSome⟩
  have rP := hP.run w fun _ => ⟨⟨h1, h2.reservedSome⟩, h2.pendingOK False⟩
  have rQ := hQ.run w h2.1
  generalize m.run.run w = res at rW rP rQ
  obtain ⟨(e|a), w'⟩ := res
  · exact rW
  · exact fun hs => ⟨(rW hs).1, (rP hs).quiescent rQ⟩

theorem PendingOK.frame {E : Prop} {w w' : World} (h : PendingOK E w) (he : w'.entities = w.entities)
    (hi : w'.resIndex = w.resIndex) (hc : w'.resCount = w.resCount) (hq : w'.queue = w.queue)
    (hg : w'.gevs = w.gevs) : PendingOK E w' := by
  obtain ⟨ks, hr, hp⟩ := h
  refine ⟨ks, hr.frame he hi hc, fun hne => ?_⟩
  rw [hq, hg]; exact hp hne

/-- a leaf that only writes fields neither the invariant nor `Quiescent` reads -/
theorem gq_keeps_modifyGet {α : Type} {f : World → α × World}
    (hf : ∀ w, RelEq w (f w).2 ∧ resView (f w).2 = resView w) : Keeps GQ (modifyGet f : M α) :=
  Keeps.modifyGet fun w h hs => by
    obtain ⟨h1, h2⟩ := hf w
    have hs' : Small w := by unfold Small at hs ⊢; rw [← h1.archs, ← h1.tevs]; exact hs
    exact ⟨(h hs').1.frame h1, Quiescent.of_res (h hs').2 h2⟩

theorem freshC_gq : Keeps GQ freshC := gq_keeps_modifyGet fun _ => ⟨by releq, rfl⟩
theorem freshE_gq : Keeps GQ freshE := gq_keeps_modifyGet fun _ => ⟨by releq, rfl⟩

theorem topQ_of_keeps {α : Type} {m : M α} (h : Keeps GQ m) : TopQ m :=
  Hoare.of_keeps h fun _ _ hw => panicOnly_of (gq_gw hw)

theorem TopQ.pure {α : Type} (a : α) : TopQ (Pure.pure a : M α) := Hoare.pure fun _ h => h

theorem removeAll_sl (l : List Key) : SlabMono (removeAll l) := fun n => by unfold removeAll; keeps
theorem removeEventFinish_sl (ty : EvTy) (k : Key) : SlabMono (removeEventFinish ty k) := fun n => by
  unfold removeEventFinish; keeps
  all_goals monofix

end InvV7

namespace Pieces
variable (P : Pieces)
include P

/-! ### the functions that decompose into `KeepsW` + `KeepsP` + `QE` -/

theorem topQ_sendGlobal (ty : EvTy) (pay : Payload) : TopQ (sendGlobal ty pay) :=
  topQ_of (fun _ => sendGlobal_sl ty pay) (P.glue_sendGlobal ty pay)
    (Hoare.pre (P.sendGlobal_pending ty pay False) fun _ h hs => ⟨(h hs).1, (h hs).2.weaken .inl⟩)
    (sendGlobal_qe ty pay)

theorem topQ_sendTargeted (ty : EvTy) (tg : Key) (pay : Payload) (hty : ty.targeted = true) :
    TopQ (sendTargeted ty tg pay) :=
  topQ_of (fun _ => sendTargeted_sl ty tg pay) (P.glue_sendTargeted ty tg pay hty)
    (P.sendTargeted_pending_partial ty tg pay False hty) (sendTargeted_qe ty tg pay)

theorem topQ_addComponent (ty : Nat) : TopQ (addComponent ty) :=
  topQ_of (fun _ => addComponent_sl ty) (P.glue_addComponent ty) (P.addComponent_pending ty False)
    (addComponent_qe ty)

theorem topQ_addTargetedEvent (ty : EvTy) (hty : ty.targeted = true) : TopQ (addTargetedEvent ty) :=
  topQ_of (fun _ => addTargetedEvent_sl ty) (P.glue_addTargetedEvent ty hty) (P.addTargetedEvent_pending_partial ty False hty)
    (addTargetedEvent_qe ty)

theorem topQ_addGlobalEvent (ty : EvTy) : TopQ (addGlobalEvent ty) :=
  topQ_of (fun _ => addGlobalEvent_sl ty) (P.glue_addGlobalEvent ty) (P.addGlobalEvent_pending ty False)
    (addGlobalEvent_qe ty)

theorem topQ_addEvent (ty : EvTy) : TopQ (addEvent ty) := by
  unfold addEvent
  split
  · next h => exact P.topQ_addTargetedEvent ty h
  · exact P.topQ_addGlobalEvent ty

theorem topQ_addHandler (hs : HSpec) (hv : hs.Valid) : TopQ (addHandler hs) :=
  topQ_of (fun _ => addHandler_sl hs) (P.glue_addHandler hs hv) (P.addHandler_pending_partial hs False hv) (addHandler_qe hs)

theorem topQ_removeHandler (k : Key) : TopQ (removeHandler k) :=
  topQ_of (fun _ => removeHandler_sl k) (P.glue_removeHandler k) (P.removeHandler_pending k False)
    (removeHandler_qe k)

theorem topQ_removeAll (l : List Key) : TopQ (removeAll l) := by
  unfold removeAll
  exact Hoare.forIn_list_inv fun hk _ => Hoare.bind_inv (P.topQ_removeHandler hk) fun _ => Hoare.pure fun _ h => h

/-! ### `opSpawn` -/

theorem keepsW_opSpawn : KeepsW opSpawn := by
  unfold opSpawn
  refine Hoare.bind_inv P.kw_reserve fun id => ?_
  refine Hoare.bind_inv (P.glue_sendGlobal _ _) fun _ => ?_
  exact Hoare.bind_inv (KeepsW.of_keeps (gw_modify fun _ => ⟨by releq, rfl, rfl⟩)) fun _ => KeepsW.pure _

theorem keepsP_opSpawn : KeepsP False False opSpawn := by
  unfold opSpawn
  -- `reserve` leaves a consistent reservation that nothing queued covers yet …
  refine Hoare.bind (R := fun _ => Guarded fun w => WInvMid w ∧ PendingOK (False ∨ EvTy.spawn = .spawn) w)
    (Hoare.post (Hoare.pre P.kw_reserve fun _ h hs => (h hs).1) (fun _ w h hs => ?_) fun _ _ _ => trivial)
    fun id => ?_
  · obtain ⟨ks, hk⟩ := (h hs).2
    exact ⟨h hs, ks, hk, fun _ => .inl (.inr rfl)⟩
  -- … until `sendGlobal .spawn` pushes the `Spawn` event and flushes
  refine Hoare.bind (P.sendGlobal_pending .spawn { ent := id } False) fun _ => ?_
  refine Hoare.bind (R := fun _ => Guarded (PendingOK False)) ⟨fun w h => ?_⟩ fun _ => Hoare.pure fun _ h => h
  simp only [run_modify]
  exact fun hs => PendingOK.frame (h hs) rfl rfl rfl rfl rfl

theorem topQ_opSpawn : TopQ opSpawn :=
  topQ_of (fun _ => opSpawn_sl) P.keepsW_opSpawn P.keepsP_opSpawn opSpawn_qe

/-- **`Obl.glue_opSpawn`, strongest true variant** -/
theorem glue_opSpawn_partial : KeepsTopNF opSpawn :=
  KeepsTopNF.of (fun _ => opSpawn_sl) P.topQ_opSpawn opSpawn_qe

/-! ### `removeEvent` -/

/-- the registry update that ends `removeEvent`, from a world in which nobody uses the event any more -/
theorem topQ_removeEventFinish (ty : EvTy) (k : Key) :
    Hoare (Guarded fun w => WInv w ∧ Quiescent w ∧ EventUnused w ty k) (removeEventFinish ty k) (fun _ => GQ)
      (PanicOnly GW) := by
  refine Hoare.unguard (removeEventFinish_sl ty k) (fun _ => guarded_absorb) panicOnly_guarded_absorb
    fun w0 _ hw0 => ⟨fun w h => ?_⟩
  subst h
  obtain ⟨hW, hQ, hU⟩ := hw0
  have r := fun g => (P.removeEventFinish_keeps g ty k).run w ⟨⟨hW, hQ.reservedSome⟩, hU⟩
  have r6 := (removeEventFinish_res (v := resView w) ty k).run w rfl
  generalize (removeEventFinish ty k).run.run w = res at r r6
  obtain ⟨(e|a), w'⟩ := res
  · exact fun hp hs => winvMid_of_groups hs (fun g => r g hp) (ReservedSome.of_res hQ.reservedSome r6)
  · exact fun hs => ⟨(winvMid_of_groups hs (fun g => r g) (ReservedSome.of_res hQ.reservedSome r6)).1,
      Quiescent.of_res hQ r6⟩

theorem topQ_removeEvent (ty : EvTy) (k : Key) : TopQ (removeEvent ty k) := by
  refine Hoare.unguard (fun _ => removeEvent_sl ty k) (fun _ => guarded_absorb) panicOnly_guarded_absorb
    fun w0 _ hw0 => ⟨fun w h => ?_⟩
  subst h
  obtain ⟨hW, hQ⟩ := hw0
  by_cases hlive : (if ty.targeted then w.tevs.contains k else w.gevs.contains k) = true
  · rw [removeEvent_run ty k w hQ.1 hlive]
    refine (?hm : Hoare GQ _ (fun _ => GQ) (PanicOnly GW)).run w fun _ => ⟨hW, hQ⟩
    refine Hoare.bind_inv (P.topQ_sendGlobal _ _) fun _ => ?_
    refine Hoare.get_bind_eq fun w1 hw1 => ?_
    refine Hoare.unguard_at (fun n => Keeps.bind (removeAll_sl _ n) fun _ => removeEventFinish_sl ty k n)
      (fun _ => guarded_absorb) panicOnly_guarded_absorb fun hs1 => ?_
    obtain ⟨hW1, hQ1⟩ := hw1 hs1
    refine Hoare.bind (R := fun _ => Guarded fun w => WInv w ∧ Quiescent w ∧ EventUnused w ty k) ?_
      fun _ => P.topQ_removeEventFinish ty k
    have h1 : Hoare (fun w => w = w1) (removeAll (eventUsers w1 ty k)) (fun _ => GQ) (PanicOnly GW) :=
      Hoare.pre (P.topQ_removeAll _) fun w h => h ▸ hw1
    have h2 : HoareOk (fun w => w = w1) (removeAll (eventUsers w1 ty k)) (fun _ w2 => EventUnused w2 ty k) :=
      ⟨fun w h a w' hr => by subst h; exact P.removeAll_unused ty k _ w' ⟨hW1, hQ1.reservedSome⟩ hr⟩
    exact Hoare.post (Hoare.and_ok h1 h2) (fun _ w h hs => ⟨(h.1 hs).1, (h.1 hs).2, h.2⟩) (fun _ _ h => h)
  · rw [removeEvent_dead ty k w hQ.1 (by simpa using hlive)]
    exact fun _ => ⟨hW, hQ⟩

/-- **`Obl.glue_removeEvent`, strongest true variant** -/
theorem glue_removeEvent_partial (ty : EvTy) (k : Key) : KeepsTopNF (removeEvent ty k) :=
  KeepsTopNF.of (fun _ => removeEvent_sl ty k) (P.topQ_removeEvent ty k) (removeEvent_qe ty k)

/-! ### `execOp` -/

theorem gq_setGen {w : World} (hw : GQ w) {id : Key} {gen : Nat} {loc : Loc} {s : Slot Loc} {a : Arch}
    (h1 : w.entities.get id = some loc) (h2 : w.entities.slots[id.idx]? = some s)
    (h3 : w.archs.get loc.arch = some a) (h4 : gen % 2 = 1) (h5 : s.gen ≤ gen) (h6 : gen < GENMOD) :
    GQ (Step.setGen w id gen loc s a) := by
  intro hs
  have hs0 : Small w := by
    refine ⟨?_, hs.2⟩
    have := hs.1
    unfold Step.setGen at this
    simp only [Slab.length_set] at this
    exact this
  obtain ⟨hW, hQ⟩ := hw hs0
  have hM : WInvMid w := ⟨hW, hQ.reservedSome⟩
  exact ⟨⟨hs, P.setGen_keeps .graph w id gen loc s a hM h1 h2 h3 h4 h5 h6,
    P.setGen_keeps .store w id gen loc s a hM h1 h2 h3 h4 h5 h6,
    P.setGen_keeps .lists w id gen loc s a hM h1 h2 h3 h4 h5 h6,
    P.setGen_keeps .cache w id gen loc s a hM h1 h2 h3 h4 h5 h6,
    P.setGen_keeps .registry w id gen loc s a hM h1 h2 h3 h4 h5 h6⟩,
    P.setGen_quiescent w id gen loc s a hM hQ h1 h2 h3 h4 h5 h6⟩

theorem topQ_setgen (n g : Nat) (hg : g < GENMOD) : TopQ (execOp (.setgen n g)) := by
  unfold execOp
  dsimp only
  refine Hoare.get_bind_eq fun w hw => ?_
  have hpure : ∀ l : List String, Hoare (fun w' => w' = w) (pure l : M (List String)) (fun _ => GQ) (PanicOnly GW) :=
    fun l => Hoare.pure fun w' h => h ▸ hw
  split
  · exact hpure _
  · next loc hloc =>
    split
    · exact hpure _
    · next s hs =>
      split
      · exact hpure _
      · next hc =>
        refine ⟨fun w' h => ?_⟩
        subst h
        simp only [run_bind, run_getArch']
        cases ha : w'.archs.get loc.arch with
        | none => exact fun hp => nomatch hp
        | some a =>
          simp only [run_set, setArch, run_modify, run_pure]
          have hc' : g % 2 = 1 ∧ s.gen ≤ g := by
            simp only [Bool.or_eq_true, bne_iff_ne, ne_eq, decide_eq_true_eq, not_or, Decidable.not_not,
              Nat.not_lt] at hc
            exact hc
          exact P.gq_setGen hw hloc hs ha hc'.1 hc'.2 hg

/-- every operation other than `rmc` (whose `removeComponent` needs the auxiliary invariant, see below) -/
theorem topQ_execOp_ne_rmc (op : Op) (hv : op.Valid) (hne : ∀ k, op ≠ .rmc k) : TopQ (execOp op) := by
  cases op with
  | setgen n g => exact P.topQ_setgen n g hv
  | drop => exact hv.elim
  | rmc k => exact (hne k rfl).elim
  | _ =>
    unfold execOp
    dsimp only
    repeat' first
      | exact TopQ.pure _
      | exact P.topQ_opSpawn
      | exact P.topQ_sendTargeted _ _ _ rfl
      | exact P.topQ_sendGlobal _ _
      | exact P.topQ_addHandler _ hv
      | exact P.topQ_removeHandler _
      | exact P.topQ_addComponent _
      | exact P.topQ_addEvent _
      | exact P.topQ_removeEvent _ _
      | exact topQ_of_keeps freshC_gq
      | exact topQ_of_keeps freshE_gq
      | (with_reducible refine Hoare.get_bind fun _ _ => ?_)
      | (with_reducible refine Hoare.bind_inv ?_ fun _ => ?_)
      | dsimp only
      | split

end Pieces

end Evenio
