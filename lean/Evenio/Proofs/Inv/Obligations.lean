import Evenio.Proofs.Inv.Calculus
/-!
# The proof obligations for "every top-level operation preserves `WInv`"

Every obligation is a `def Obl.… : Prop`; a worker proves `theorem <name> : Obl.<name>` (possibly from the hypotheses
listed in `WInvPlan.md`).  Nothing here is assumed: the file only contains definitions (and a few `rfl` checks that the
"steps" below really are pieces of the model's code).

## How the model decomposes

A model function is built from three kinds of pieces:

* **closed primitives** — model functions that re-establish the invariant whenever they return or panic: `reserve`,
  `bumpCell`, `spawnAll`, `traverseInsert`, `traverseRemove`, `moveEntity`, `removeEntity` (G1–G5; for G6 only as
  part of the `Despawn` effect `fixedDespawn`), and everything built from them by sequencing (`runAct`, `runHandler`,
  `deliverOne`, `flush`, `sendGlobal`, …);
* **closed steps** — the raw registry writes of the `add_*` / `remove_*` functions, which are not functions of the
  model: they are named here (`Step.regGev`, `Step.regComp`, `Step.regTev`, `Step.insertHandler` + `registerAll`,
  `removeHandlerPure`, `removeEventFinish`, `Step.dropComp` + `archsRemoveComponent` + `resRefresh`, `Step.setGen`);
* **glue** — sequencing, loops, `tryCatch`, writes to fields the invariant does not read.

Per GROUP work is only needed for the first two kinds (sections A, B): `Obl.<piece>_keeps_<group>`.  The glue is
group independent (section C, `Obl.glue_<fn> : KeepsW <fn>`), proved ONCE from the combined obligations of the pieces
with `KeepsW.bind`, `KeepsW.forIn_list`, `KeepsW.tryCatch`, `flushWith_keepsW`; `Inv/Glue.lean` does it for the whole
delivery path (`senderPush` … `deliverOne`, `flush`) and for `ensureAddG`, `addGlobalEvent`, `sendGlobal`, `addComponent`.  G6 has its own shapes (section D).  Section E lists the
functional facts the glue of `addTargetedEvent`, `addHandler`, `removeEvent`, `removeComponent` needs to establish the
preconditions of the steps; section F the final theorems.
-/
namespace Evenio

/-- the five queue-blind groups, by name (for the tables of `WInvPlan.md`) -/
inductive Group | graph | store | lists | cache | registry
deriving DecidableEq, Repr

/-- the predicate of a group -/
def Group.pred : Group → World → Prop
  | .graph => GraphInv
  | .store => StoreInv
  | .lists => ListsInv
  | .cache => CacheGroup
  | .registry => RegistryInv

theorem Group.pred_of_winvMid (g : Group) {w : World} (h : WInvMid w) : g.pred w := by
  cases g
  · exact h.graph
  · exact h.store
  · exact h.lists
  · exact h.cache
  · exact h.registry

/-- the five group obligations and the `ReservedSome` obligation of G6 give `KeepsW` -/
theorem KeepsW.of_obl {α : Type} {m : M α} (h : ∀ g : Group, KeepsG g.pred m) (h6 : KeepsG ReservedSome m) :
    KeepsW m :=
  KeepsW.of_groups (h .graph) (h .store) (h .lists) (h .cache) (h .registry) h6

/-! ## A. closed primitives: `KeepsG <group> (f args)` for the five groups

`Obl.<f>_keeps g` is the obligation of the owner of group `g`.  `Obl.<f>_keeps_graph := Obl.<f>_keeps .graph` etc. -/

namespace Obl

def reserve_keeps (g : Group) : Prop := KeepsG g.pred reserve
def bumpCell_keeps (g : Group) : Prop := ∀ ai row c, KeepsG g.pred (bumpCell ai row c)
def spawnAll_keeps (g : Group) : Prop := KeepsG g.pred spawnAll
def traverseInsert_keeps (g : Group) : Prop := ∀ src c, KeepsG g.pred (traverseInsert src c)
def traverseRemove_keeps (g : Group) : Prop := ∀ src c, KeepsG g.pred (traverseRemove src c)
def moveEntity_keeps (g : Group) : Prop := ∀ src dst new, KeepsG g.pred (moveEntity src dst new)
def removeEntity_keeps (g : Group) : Prop := ∀ loc, KeepsG g.pred (removeEntity loc)

/-- `resRefresh` only writes `resIndex`: it keeps `WInv` on its own (proved in `Inv/Glue.lean`) -/
def resRefresh_winv : Prop := Keeps (Guarded WInv) resRefresh

end Obl

/-! ## B. closed steps: the raw registry writes, as pure functions / named monadic pieces -/

namespace Step

/-- the registry entry `addGlobalEvent ty` (and, for `ty = .addG`, `ensureAddG`) creates -/
def gevEntry (ty : EvTy) : Key → EvInfo := fun k => { ty, id := k, kind := gevKind ty, needsDrop := gevNeedsDrop ty }

/-- `ensureAddG` / `addGlobalEvent`: `set { w with gevs := gevs, byGlobal := listResize … }` -/
def regGev (w : World) (k : Key) (gevs' : SlotMap EvInfo) : World :=
  { w with gevs := gevs', byGlobal := listResize w.byGlobal (k.idx + 1) {} }

def compEntry (ty : Nat) : Key → CompInfo := fun k => { ty, id := k }

/-- `addComponent`: `set { w with comps := comps }` -/
def regComp (w : World) (comps' : SlotMap CompInfo) : World := { w with comps := comps' }

def tevEntry (ty : EvTy) (kind : EvKind) (needsDrop : Bool) : Key → EvInfo := fun k => { ty, id := k, kind, needsDrop }

/-- the component of an Insert/Remove event learns the event -/
def noteEvent (w : World) (kind : EvKind) (k : Key) : World :=
  match kind with
  | .insert c =>
    match w.comps.getByIndex c with
    | some (ck, ci) => { w with comps := w.comps.set ck { ci with insEvents := ci.insEvents ++ [k] } }
    | none => w
  | .remove c =>
    match w.comps.getByIndex c with
    | some (ck, ci) => { w with comps := w.comps.set ck { ci with remEvents := ci.remEvents ++ [k] } }
    | none => w
  | _ => w

/-- `addTargetedEvent`: `set { w with tevs := tevs }` followed by the `insEvents` / `remEvents` update -/
def regTev (w : World) (kind : EvKind) (k : Key) (tevs' : SlotMap EvInfo) : World :=
  noteEvent { w with tevs := tevs' } kind k

/-- `addHandler`: `Handlers::add` (slot map, global list of the received event, insertion-order index) -/
def insertHandler (w : World) (k : Key) (handlers' : SlotMap HInfo) (recvTy : EvTy) (recvKey : Key)
    (prio : Priority) : World :=
  { w with
    handlers := handlers'
    byGlobal :=
      if recvTy.targeted then w.byGlobal else
        let bg := listResize w.byGlobal (recvKey.idx + 1) {}
        bg.set recvKey.idx (((bg[recvKey.idx]?).getD {}).insert k prio)
    insertCounter := w.insertCounter + 1
    byInsertOrder := w.byInsertOrder ++ [k] }

/-- `removeComponent`: `set { w with comps := comps, removedIds := … }` -/
def dropComp (w : World) (k : Key) (comps' : SlotMap CompInfo) : World :=
  { w with comps := comps', removedIds := ('c', k) :: w.removedIds }

/-- `execOp (.setgen n g)`: the slot generation and the id stored in the archetype row -/
def setGen (w : World) (id : Key) (g : Nat) (loc : Loc) (s : Slot Loc) (a : Arch) : World :=
  { w with
    entities := { w.entities with slots := w.entities.slots.set id.idx { s with gen := g } }
    ords := w.ords.map fun k => if k == id then ⟨id.idx, g⟩ else k
    archs := w.archs.set a.index { a with ids := a.ids.set loc.row ⟨id.idx, g⟩ } }

end Step

/-- `addHandler`: `archetypes.register_handler(info)` — the loop over all archetypes, verbatim -/
def registerAll (k : Key) : M Unit := do
  for (i, _) in (← get).archs.toList do
    let a ← getArch i "register_handler:arch"
    let some h := (← get).handlers.get k | ubErr "register_handler:info"
    let a' ← a.registerHandler h
    setArch a'

/-- the tail of `removeComponent` after the registry write -/
def dropCompTail (info : CompInfo) : M Unit := do
  archsRemoveComponent info
  resRefresh

/-! ### preconditions of the steps -/

/-- what `addHandler` has established when it inserts the entry `h` under the key `k` -/
structure NewHandlerPre (w : World) (k : Key) (h : HInfo) (handlers' : SlotMap HInfo) : Prop where
  ins : ∃ mk : Key → HInfo, w.handlers.insertWith mk = some (k, handlers') ∧ mk k = h
  order : h.order = w.insertCounter
  ok : HandlerOK (w.insertCounter + 1) k h
  refs : HandlerRefs w.comps w.gevs w.tevs h
  caches : ∀ p ∈ h.params, p.cache = {}

/-- no live handler receives or may send the event `k` (what the `removeHandler` loop of `removeEvent` achieves) -/
def EventUnused (w : World) (ty : EvTy) (k : Key) : Prop :=
  ∀ hk h, w.handlers.get hk = some h →
    if ty.targeted then ¬ (h.recv.targeted = true ∧ h.recvKey = k) ∧ k.idx ∉ h.sentT
    else ¬ (h.recv.targeted = false ∧ h.recvKey = k) ∧ k.idx ∉ h.sentG

/-- no live handler references the component `k`, and its Insert/Remove events are gone (what the loops of
    `removeComponent` achieve) -/
structure CompUnused (w : World) (k : Key) (info : CompInfo) : Prop where
  live : w.comps.get k = some info
  handlers : ∀ hk h, w.handlers.get hk = some h → k.idx ∉ h.referenced
  insEvents : info.insEvents = []
  remEvents : info.remEvents = []

namespace Obl

/-- `ensureAddG` / `addGlobalEvent` -/
def regGev_keeps (g : Group) : Prop :=
  ∀ (w : World) (ty : EvTy) (k : Key) (gevs' : SlotMap EvInfo), WInvMid w →
    w.gevs.insertWith (Step.gevEntry ty) = some (k, gevs') → g.pred (Step.regGev w k gevs')

/-- `addComponent` -/
def regComp_keeps (g : Group) : Prop :=
  ∀ (w : World) (ty : Nat) (k : Key) (comps' : SlotMap CompInfo), WInvMid w →
    w.comps.insertWith (Step.compEntry ty) = some (k, comps') → g.pred (Step.regComp w comps')

/-- `addTargetedEvent`; the component of an Insert/Remove event is live (it was just registered) -/
def regTev_keeps (g : Group) : Prop :=
  ∀ (w : World) (ty : EvTy) (kind : EvKind) (nd : Bool) (k : Key) (tevs' : SlotMap EvInfo), WInvMid w →
    ty.targeted = true →
    (∀ c, kind = .insert c ∨ kind = .remove c → (w.comps.getByIndex c).isSome = true) →
    w.tevs.insertWith (Step.tevEntry ty kind nd) = some (k, tevs') → g.pred (Step.regTev w kind k tevs')

/-- `addHandler`: from the world `Handlers::add` left (which does NOT satisfy the invariant: the archetypes do not
    know the handler yet), the registration loop re-establishes it -/
def registerAll_keeps (g : Group) : Prop :=
  ∀ (w : World) (k : Key) (h : HInfo) (handlers' : SlotMap HInfo), WInvMid w → NewHandlerPre w k h handlers' →
    Hoare (fun w1 => w1 = Step.insertHandler w k handlers' h.recv h.recvKey h.prio) (registerAll k)
      (fun _ w' => g.pred w') (PanicOnly g.pred)

/-- `removeHandler` after the announcement (`removeHandler_eq`, Proofs/Listeners.lean) -/
def removeHandlerPure_keeps (g : Group) : Prop :=
  ∀ (w : World) (k : Key) (h : HInfo), WInvMid w → w.handlers.get k = some h → g.pred (removeHandlerPure w k h)

/-- `removeEvent` after the announcement and the removal of the event's users (`removeEvent_run`) -/
def removeEventFinish_keeps (g : Group) : Prop :=
  ∀ (ty : EvTy) (k : Key),
    Hoare (fun w => WInvMid w ∧ EventUnused w ty k) (removeEventFinish ty k) (fun _ w' => g.pred w')
      (PanicOnly g.pred)

/-- `removeComponent` after the despawns, the removal of the handlers and of the Insert/Remove events -/
def dropComp_keeps (g : Group) : Prop :=
  ∀ (w : World) (k : Key) (info : CompInfo) (comps' : SlotMap CompInfo), WInvMid w → CompUnused w k info →
    w.comps.remove k = some (info, comps') →
    Hoare (fun w1 => w1 = Step.dropComp w k comps') (dropCompTail info) (fun _ w' => g.pred w') (PanicOnly g.pred)

/-- the hook `verif_set_entity_generation` -/
def setGen_keeps (g : Group) : Prop :=
  ∀ (w : World) (id : Key) (gen : Nat) (loc : Loc) (s : Slot Loc) (a : Arch), WInvMid w →
    w.entities.get id = some loc → w.entities.slots[id.idx]? = some s → w.archs.get loc.arch = some a →
    gen % 2 = 1 → s.gen ≤ gen → gen < GENMOD → g.pred (Step.setGen w id gen loc s a)

end Obl

/-! ## C. glue: group independent, proved once from the combined obligations

`AllSteps` bundles, for every piece, the conjunction of the obligations of all groups (for G6: section D). -/

/-- a handler specification the Rust type system accepts: `Spawn` is an immutable event, there is no
    `ReceiverMut<Spawn>` (a handler that TAKES `Spawn` would leave the reservation pending forever) -/
def HSpec.Valid (hs : HSpec) : Prop := ∀ ps ∈ hs.params, ∀ q, ps ≠ .recv .spawn true q

/-- the operations the obligations cover: `drop` ends the history (it empties the slab); the generation hook must be
    given a generation that fits in a `u32` -/
def Op.Valid : Op → Prop
  | .addh hs => hs.Valid
  | .setgen _ g => g < GENMOD
  | .drop => False
  | _ => True

namespace Obl

def glue_push : Prop := ∀ it, KeepsW (push it)
def glue_senderPush : Prop := ∀ h it, KeepsW (senderPush h it)
def glue_runAct : Prop := ∀ hk it loc act, KeepsW (runAct hk it loc act)
def glue_runHandler : Prop := ∀ hk it loc, KeepsW (runHandler hk it loc)
def glue_dropQueued : Prop := KeepsW dropQueued
def glue_fixedDespawn : Prop := ∀ loc, KeepsW (fixedDespawn loc)
def glue_deliverOne : Prop := ∀ it, KeepsW (deliverOne it)
def glue_flush : Prop := ∀ fuel, KeepsW (flush fuel)
def glue_ensureAddG : Prop := KeepsW ensureAddG
def glue_addGlobalEvent : Prop := ∀ ty, KeepsW (addGlobalEvent ty)
def glue_sendGlobal : Prop := ∀ ty pay, KeepsW (sendGlobal ty pay)
def glue_addComponent : Prop := ∀ ty, KeepsW (addComponent ty)
def glue_addTargetedEvent : Prop := ∀ ty, ty.targeted = true → KeepsW (addTargetedEvent ty)
def glue_addEvent : Prop := ∀ ty, KeepsW (addEvent ty)
def glue_sendTargeted : Prop := ∀ ty tg pay, ty.targeted = true → KeepsW (sendTargeted ty tg pay)
def glue_initQuery : Prop := ∀ q cfg, KeepsW (initQuery q cfg)
def glue_initParam : Prop := ∀ ps cfg, KeepsW (initParam ps cfg)
def glue_addHandler : Prop := ∀ hs : HSpec, hs.Valid → KeepsW (addHandler hs)
def glue_removeHandler : Prop := ∀ k, KeepsW (removeHandler k)
/-- `removeEvent` asserts an empty queue and `removeComponent` ends with `resRefresh`: both are stated from a
    quiescent world (they are only called at top level) -/
def glue_removeEvent : Prop := ∀ ty k, KeepsTop (removeEvent ty k)
def glue_removeComponent : Prop := ∀ k, KeepsTop (removeComponent k)
def glue_opSpawn : Prop := KeepsTop opSpawn

end Obl

/-! ## D. G6: reservations and pending events

`KeepsG ReservedSome f` — the reservations stay consistent (normal return and panic); `KeepsP E E' f` / `DeliverP` —
the accounting of pending `Spawn` events (normal return only). -/

namespace Obl

def reserve_reserved : Prop := KeepsG ReservedSome reserve
def bumpCell_reserved : Prop := ∀ ai row c, KeepsG ReservedSome (bumpCell ai row c)
def spawnAll_reserved : Prop := KeepsG ReservedSome spawnAll
/-- with consistent reservations `spawnAll` never runs out of keys (`reserved_predicts`): a service lemma for G1–G4,
    who then need not look at the state a panic of `spawnAll` would leave -/
def spawnAll_noPanic : Prop :=
  ∀ w e w', WInvMid w → spawnAll.run.run w = (.error e, w') → e.isPanic = false
/-- `spawnAll` materialises every reservation -/
def spawnAll_clears : Prop :=
  HoareOk (Guarded WInvMid) spawnAll (fun _ w' => Small w' → Reserved w' [])
def traverseInsert_reserved : Prop := ∀ src c, KeepsG ReservedSome (traverseInsert src c)
def traverseRemove_reserved : Prop := ∀ src c, KeepsG ReservedSome (traverseRemove src c)
def moveEntity_reserved : Prop := ∀ src dst new, KeepsG ReservedSome (moveEntity src dst new)
/-- `removeEntity` alone does NOT keep `ReservedSome` (it frees a slot: the cursor `resIndex` is stale until
    `resRefresh`; with reservations pending it is finding F2): the unit is the whole `Despawn` effect -/
def fixedDespawn_reserved : Prop := ∀ loc, KeepsG ReservedSome (fixedDespawn loc)
/-- the steps of section B: none of them touches `entities` / `resIndex` / `resCount` except `dropComp`, `setGen` -/
def dropComp_quiescent : Prop :=
  ∀ (w : World) (k : Key) (info : CompInfo) (comps' : SlotMap CompInfo), WInvMid w → Quiescent w →
    CompUnused w k info → w.comps.remove k = some (info, comps') →
    HoareOk (fun w1 => w1 = Step.dropComp w k comps') (dropCompTail info) (fun _ w' => Quiescent w')
def setGen_quiescent : Prop :=
  ∀ (w : World) (id : Key) (gen : Nat) (loc : Loc) (s : Slot Loc) (a : Arch), WInvMid w → Quiescent w →
    w.entities.get id = some loc → w.entities.slots[id.idx]? = some s → w.archs.get loc.arch = some a →
    gen % 2 = 1 → s.gen ≤ gen → gen < GENMOD → Quiescent (Step.setGen w id gen loc s a)

/-- a handler's action keeps the reservations covered: `spawn` reserves and pushes the `Spawn` event in one action -/
def runAct_pending : Prop := ∀ hk it loc act (E : Prop), KeepsP E E (runAct hk it loc act)
def runHandler_pending : Prop := ∀ hk it loc (E : Prop), KeepsP E E (runHandler hk it loc)
/-- a handler cannot take a `Spawn` event (`HandlerOK.spawnImm`) -/
def runHandler_spawn_not_taken : Prop :=
  ∀ hk it loc, HoareOk (fun w => Guarded WInvMid w ∧ ∃ h, w.handlers.get hk = some h ∧ h.recvMut = false)
    (runHandler hk it loc) (fun r _ => r = false)
/-- **the per-delivery obligation** -/
def deliverOne_pending : Prop := DeliverP deliverOne
def deliverOne_gevs : Prop := ∀ it g, Keeps (fun w => w.gevs = g) (deliverOne it)

/-- a flush keeps the reservations covered and ends with an empty queue (from `flushWith_keepsP`) -/
def flush_pending : Prop :=
  ∀ fuel (g : SlotMap EvInfo) (E : Prop),
    Hoare (fun w => w.gevs = g ∧ Guarded (fun w => WInvMid w ∧ PendingOK E w) w) (flush fuel)
      (fun _ w' => w'.gevs = g ∧ Guarded (fun w => WInvMid w ∧ PendingOK E w ∧ w.queue = []) w')
      (fun _ _ => True)

/-- the registration functions keep the reservations covered up to `E` (they flush with `E` set aside) and return
    with an empty queue if they were entered with one -/
def ensureAddG_pending : Prop := ∀ E : Prop, KeepsP E E ensureAddG
def addGlobalEvent_pending : Prop := ∀ ty (E : Prop), KeepsP E E (addGlobalEvent ty)
/-- `sendGlobal .spawn` pushes the event that covers the reservation `opSpawn` made: `E ∨ ty = .spawn` before, `E`
    after -/
def sendGlobal_pending : Prop := ∀ ty pay (E : Prop), KeepsP (E ∨ ty = .spawn) E (sendGlobal ty pay)
def sendGlobal_queue : Prop :=
  ∀ ty pay, HoareOk (fun _ => True) (sendGlobal ty pay) (fun _ w' => w'.queue = [])
def addComponent_pending : Prop := ∀ ty (E : Prop), KeepsP E E (addComponent ty)
def addTargetedEvent_pending : Prop := ∀ ty (E : Prop), KeepsP E E (addTargetedEvent ty)
def sendTargeted_pending : Prop := ∀ ty tg pay (E : Prop), KeepsP E E (sendTargeted ty tg pay)
def addHandler_pending : Prop := ∀ hs (E : Prop), KeepsP E E (addHandler hs)
def removeHandler_pending : Prop := ∀ k (E : Prop), KeepsP E E (removeHandler k)

end Obl

/-! ## E. functional facts the glue needs (beyond the invariant) -/

namespace Obl

/-- `addComponent` returns a live key; registries only grow (`Grows`) along every `add_*` function -/
def addComponent_live : Prop :=
  ∀ ty, HoareOk (fun _ => True) (addComponent ty) (fun k w' => ∃ ci, w'.comps.get k = some ci ∧ ci.ty = ty)
def addGlobalEvent_live : Prop :=
  ∀ ty, HoareOk (fun _ => True) (addGlobalEvent ty) (fun k w' => ∃ ei, w'.gevs.get k = some ei ∧ ei.ty = ty)
def addTargetedEvent_live : Prop :=
  ∀ ty, HoareOk (fun _ => True) (addTargetedEvent ty) (fun k w' => ∃ ei, w'.tevs.get k = some ei ∧ ei.ty = ty)

/-- the three registries only grow (a live key stays live with the same entry up to `memberOf` / `insEvents` /
    `remEvents`) along `initParam` — so what earlier parameters resolved is still valid when the handler is inserted -/
def Grows (w w' : World) : Prop :=
  (∀ k ci, w.comps.get k = some ci → ∃ ci', w'.comps.get k = some ci' ∧ ci'.ty = ci.ty) ∧
  (∀ k ei, w.gevs.get k = some ei → w'.gevs.get k = some ei) ∧
  (∀ k ei, w.tevs.get k = some ei → w'.tevs.get k = some ei)
def initParam_grows : Prop :=
  ∀ ps cfg w r w', (initParam ps cfg).run.run w = (.ok r, w') → Grows w w'

/-- the configuration `addHandler` has accumulated when it builds the registry entry describes the parameters:
    loop invariant of the parameter loop (`FilterRel` of Proofs/Listeners.lean is the listener-filter part) -/
structure ConfigRel (w : World) (cfg : Config) (params : List Param) : Prop where
  accesses : cfg.accesses = (params.filter (·.hasQ)).map fun p => p.q.init
  filter : FilterRel cfg params
  caches : ∀ p ∈ params, p.cache = {}
  referenced : ∀ c ∈ cfg.referenced, (w.comps.getByIndex c).isSome = true
  recv : ∀ ty k, cfg.recvEv = some (some (ty, k)) →
    if ty.targeted then ∃ ei, w.tevs.get k = some ei ∧ ei.ty = ty else ∃ ei, w.gevs.get k = some ei ∧ ei.ty = ty
  sentG : ∀ i ∈ cfg.sentG, (w.gevs.getByIndex i).isSome = true
  sentT : ∀ i ∈ cfg.sentT, (w.tevs.getByIndex i).isSome = true
  sendsG : ∀ ev i, (ev, i) ∈ cfg.sends → ev.targeted = false →
    i ∈ cfg.sentG ∧ ∃ k info, w.gevs.getByIndex i = some (k, info) ∧ info.ty = ev
  sendsT : ∀ ev i, (ev, i) ∈ cfg.sends → ev.targeted = true →
    i ∈ cfg.sentT ∧ ∃ k info, w.tevs.getByIndex i = some (k, info) ∧ info.ty = ev
  /-- `Spawn` is only ever received immutably (from `HSpec.Valid`) -/
  spawnImm : ∀ k, cfg.recvEv = some (some (.spawn, k)) → cfg.recvMut = false

def initParam_configRel : Prop :=
  ∀ (ps : PSpec) (cfg : Config) (params : List Param) (w : World) (p : Param) (cfg' : Config) (w' : World),
    (∀ q, ps ≠ .recv .spawn true q) → WInvMid w → ConfigRel w cfg params →
    (initParam ps cfg).run.run w = (.ok (p, cfg'), w') → ConfigRel w' cfg' (params ++ [p])

/-- `removeHandler k` removes exactly `k` from the registry (entries of the others unchanged up to caches) -/
def removeHandler_cores : Prop :=
  ∀ k w b w', (removeHandler k).run.run w = (.ok b, w') →
    ∀ k', (w'.handlers.get k').map HInfo.core = if k' = k then none else (w.handlers.get k').map HInfo.core

/-- after the removal loop of `removeEvent`, nobody uses the event -/
def removeAll_unused : Prop :=
  ∀ ty k w w', WInvMid w → (removeAll (eventUsers w ty k)).run.run w = (.ok PUnit.unit, w') → EventUnused w' ty k

end Obl

/-! ## F. the final theorems (assembled by the sixth person) -/

/-- the world `step` runs `execOp` in -/
def stepInit (w : World) : World := { w with out := #[], edrops := [], cdrops := [], budget := BUDGET }

/-- the operation returned normally -/
def StepOk (w : World) (op : Op) : Prop := ∃ lines, ((execOp op).run.run (stepInit w)).1 = .ok lines

/-- the worlds the driver reaches by valid operations that return normally -/
inductive Reach : World → Prop
  | init : Reach {}
  | step {w : World} (op : Op) : Reach w → op.Valid → StepOk w op → Reach (step w op).1

namespace Obl

/-- **every top-level operation preserves the invariant**: from a quiescent world satisfying `WInv`, a normal return
    ends in a quiescent world satisfying `WInv`; a panic in a world satisfying `WInvMid` with an empty queue
    (reservations may stay pending: F8) -/
def execOp_keeps_WInv : Prop := ∀ op : Op, op.Valid → KeepsTop (execOp op)

/-- … hence the executable invariant -/
def step_keeps_InvPlus : Prop :=
  ∀ (w : World) (op : Op), WInv w → Quiescent w → op.Valid → StepOk w op → Small (step w op).1 →
    (step w op).1.InvPlus = true

def reachable_WInv : Prop := ∀ w, Reach w → Small w → WInv w ∧ Quiescent w
def reachable_InvPlus : Prop := ∀ w, Reach w → Small w → w.InvPlus = true

end Obl

/-! ## checks: the named pieces are pieces of the model -/

example (loc : Loc) (it : QItem) (info : EvInfo) (h : info.kind = .despawn) :
    effectPhase it info loc = fixedDespawn loc := by
  unfold effectPhase fixedDespawn; rw [h]

example (ty : EvTy) (k : Key) : removeEvent ty k = removeEventSel ty k := rfl

end Evenio
