import Evenio.Proofs.Inv.GraphShape
/-! # G1, section B: `removeHandlerPure`, `registerAll` (archetypes are rewritten in `refresh` / `listeners` only),
    `regComp` (a component nobody mentions yet) -/
namespace Evenio
open Graph (GraphOK)
namespace InvV1

/-! ### `removeHandlerPure` -/

theorem foldl_set_wf {γ : Type} (g : γ → Arch) (l : List γ) (s : Slab Arch) (h : Slab.WF s) :
    Slab.WF (l.foldl (fun s p => s.set (g p).index (g p)) s) := by
  induction l generalizing s with
  | nil => exact h
  | cons p l ih => exact ih _ (Slab.set_wf h _ _)

theorem dropHandler_shape (a : Arch) (k : Key) (h : HInfo) : shape (a.dropHandler k h) = shape a :=
  shape_eq_iff.2 ⟨dropHandler_index a k h, dropHandler_comps a k h, dropHandler_insEdges a k h,
    dropHandler_remEdges a k h⟩

theorem removeHandlerPure_keeps_graph : Obl.removeHandlerPure_keeps .graph := by
  intro w k h hw _
  refine graphInv_of_shape hw.graph ⟨?_, fun i => ?_⟩ (removeHandlerPure_frame w k h).2.2.2.2.1
  · unfold removeHandlerPure
    rw [dropHandlerArchs_eq]
    exact foldl_set_wf (fun p : Nat × Arch => p.2.dropHandler k h) _ _ hw.1.slabWF
  · rw [removeHandlerPure_archs_get w k h hw.1.indexOK i]
    cases w.archs.get i with
    | none => rfl
    | some a => exact congrArg some (dropHandler_shape a k h)

/-! ### `registerAll` -/

theorem Hoare.and_const {α : Type} {P : World → Prop} {K : Prop} {m : M α} {Q : α → World → Prop}
    {E : Err → World → Prop} (h : K → Hoare P m Q E) : Hoare (fun w => P w ∧ K) m Q E :=
  ⟨fun w hw => (h hw.2).run w hw.1⟩

/-- `a` has the shape of the archetype of `A` at its own index -/
def FitsIn (A : Slab Arch) (a : Arch) : Prop := ∃ b, A.get a.index = some b ∧ shape a = shape b

theorem FitsIn.of_shape {A : Slab Arch} {a a' : Arch} (h : FitsIn A a) (hs : shape a' = shape a) : FitsIn A a' := by
  obtain ⟨b, hb, hab⟩ := h
  exact ⟨b, by rw [(shape_eq_iff.1 hs).1]; exact hb, hs.trans hab⟩

theorem getArch_shI (A : Slab Arch) (C : SlotMap CompInfo) (hidx : IndexOK A) (i : Nat) (s : String) :
    Hoare (SH A C) (getArch i s) (fun a w => SH A C w ∧ FitsIn A a) (fun _ => SH A C) := by
  refine ⟨fun w hw => ?_⟩
  rw [run_getArch']
  cases ha : w.archs.get i with
  | none => exact hw
  | some a =>
    obtain ⟨b, hb, hs⟩ := hw.1.back ha
    have : a.index = i := (shape_eq_iff.1 hs).1.trans (hidx _ _ hb)
    exact ⟨hw, b, this ▸ hb, hs⟩

theorem setArch_sh (A : Slab Arch) (C : SlotMap CompInfo) {a : Arch} (h : FitsIn A a) : Keeps (SH A C) (setArch a) := by
  unfold setArch
  refine Keeps.modify fun w hw => ⟨?_, hw.2⟩
  obtain ⟨b, hb, hs⟩ := h
  exact hw.1.set' hb hs

theorem addRefresh_shape (a : Arch) (h : HInfo) : shape (a.addRefresh h) = shape a := by
  unfold Arch.addRefresh
  split <;> rfl

theorem addListener_shape (a : Arch) (h : HInfo) : shape (a.addListener h) = shape a := by
  unfold Arch.addListener
  split <;> rfl

theorem registerPure_shape (a : Arch) (h : HInfo) : shape (a.registerPure h) = shape a :=
  (addListener_shape _ h).trans (addRefresh_shape a h)

theorem registerHandler_shI (A : Slab Arch) (C : SlotMap CompInfo) (a : Arch) (h : HInfo) :
    Hoare (SH A C) (a.registerHandler h) (fun a' w => SH A C w ∧ a' = a.registerPure h) (fun _ => SH A C) := by
  refine ⟨fun w hw => ?_⟩
  rw [registerHandler_run]
  by_cases hc : h.archFilter.matches a.S = true ∧ a.ids.length > 0
  · rw [if_pos hc]
    have := (handlerRefresh_sh A C h.key a).run w hw
    generalize (handlerRefresh h.key a).run.run w = r at this
    obtain ⟨(e|u), w'⟩ := r
    · exact this
    · exact ⟨this, rfl⟩
  · rw [if_neg hc]
    exact ⟨hw, rfl⟩

theorem registerAll_sh (A : Slab Arch) (C : SlotMap CompInfo) (hidx : IndexOK A) (k : Key) :
    Keeps (SH A C) (registerAll k) := by
  have : Hoare (SH A C) (registerAll k) (fun _ => SH A C) (fun _ => SH A C) := by
    unfold registerAll
    refine Hoare.get_bind fun w _ => ?_
    refine Hoare.bind_inv (Hoare.forIn_list_inv fun x _ => ?_) fun _ => Hoare.pure fun _ h => h
    obtain ⟨i, _⟩ := x
    dsimp only
    refine Hoare.bind (getArch_shI A C hidx i _) fun a => Hoare.and_const fun ha => ?_
    refine Hoare.get_bind fun w1 _ => ?_
    split
    · refine Hoare.bind (registerHandler_shI A C a _) fun a' => Hoare.and_const fun ha' => ?_
      subst ha'
      refine Hoare.bind_inv (Hoare.of_keeps (setArch_sh A C (ha.of_shape (registerPure_shape a _))) fun _ _ h => h)
        fun _ => Hoare.pure fun _ h => h
    · exact Hoare.bind_inv (Hoare.ubErr fun _ h => h) fun _ => Hoare.pure fun _ h => h
  refine ⟨fun w hw => ?_⟩
  have := this.run w hw
  generalize (registerAll k).run.run w = r at this
  obtain ⟨(e|u), w'⟩ := r <;> exact this

theorem registerAll_keeps_graph : Obl.registerAll_keeps .graph := by
  intro w k h handlers' hw _
  have hk := registerAll_sh w.archs w.comps hw.1.indexOK k
  refine ⟨fun w1 hw1 => ?_⟩
  subst hw1
  have := hk.run _ (show SH w.archs w.comps (Step.insertHandler w k handlers' h.recv h.recvKey h.prio) from
    ⟨ShapeEq.refl hw.1.slabWF, rfl⟩)
  generalize (registerAll k).run.run _ = r at this
  obtain ⟨(e|u), w'⟩ := r
  · exact fun _ => graphInv_of_shape hw.graph this.1 this.2
  · exact graphInv_of_shape hw.graph this.1 this.2

/-! ### `regComp` -/

theorem regComp_keeps_graph : Obl.regComp_keeps .graph := by
  intro w ty k comps' hw hins
  obtain ⟨wf', hk, -, hother, hfresh⟩ := SlotMap.insertWith_usable hw.1.compsWF hins
  obtain ⟨hG, h0, hlive, hkeys, hmem⟩ := hw.graph
  have hne : ∀ {k0 : Key} {v : CompInfo}, w.comps.get k0 = some v → k0 ≠ k := by
    rintro k0 v h0' rfl
    simp [SlotMap.contains, h0'] at hfresh
  -- a live index stays live
  have hstay : ∀ c, (w.comps.getByIndex c).isSome = true → (comps'.getByIndex c).isSome = true := by
    intro c hc
    obtain ⟨⟨k0, v⟩, hg⟩ := Option.isSome_iff_exists.1 hc
    obtain ⟨hg0, rfl⟩ := SlotMap.getByIndex_get hg
    have : comps'.get k0 = some v := by rw [hother k0 (hne hg0)]; exact hg0
    rw [SlotMap.get_getByIndex wf' this]; rfl
  show GraphInv' w.archs comps'
  refine ⟨hG, h0, fun i a ha c hc => hstay c (hlive i a ha c hc), hkeys, fun k' ci hk' => ?_⟩
  by_cases he : k' = k
  · subst he
    rw [hk] at hk'
    cases hk'
    refine ⟨List.nodup_nil, fun i => ⟨fun h => absurd h List.not_mem_nil, ?_⟩⟩
    rintro ⟨a, ha, hc⟩
    -- nobody mentions the index of the new key: it was not live
    exfalso
    obtain ⟨⟨k0, v⟩, hg⟩ := Option.isSome_iff_exists.1 (hlive i a ha _ hc)
    obtain ⟨hg0, hi⟩ := SlotMap.getByIndex_get hg
    have h1 : comps'.get k0 = some v := by rw [hother k0 (hne hg0)]; exact hg0
    exact hne hg0 (key_eq_of_idx h1 hk hi)
  · rw [hother k' he] at hk'
    exact hmem k' ci hk'

end InvV1
end Evenio
