import Evenio.Proofs.Inv.Obligations
/-! The shape of the queue discipline of the top-level functions (proved in `Inv/QueueEmpty.lean`, used by
    `Inv/GlueTop.lean`). -/
namespace Evenio
namespace InvV7

/-- the queue is empty -/
abbrev QNil : World → Prop := fun w => w.queue = []

/-- after a panic other than the model's own fuel exhaustion the queue is empty; nothing after `ub` / `assert` -/
def NFq : Err → World → Prop := fun e w => e.isPanic = true → e ≠ .panic "model:fuel" → w.queue = []

/-- queue discipline of a top-level function: entered with an empty queue, it returns with an empty queue, and a panic
    other than fuel exhaustion leaves an empty queue -/
abbrev QE {α : Type} (m : M α) : Prop := Hoare QNil m (fun _ => QNil) NFq

theorem NFq.of_qnil {e : Err} {w : World} (h : QNil w) : NFq e w := fun _ _ => h

end InvV7
end Evenio
