import Evenio.Proofs.Inv.GraphShape
/-! # G1, section A: `traverseInsert` / `traverseRemove`

The graph part (`GraphOK`) is Props/C17.lean.  What is new here: the first loop of `newArch` (`member_of.insert`) —
`AddedTo` —, and the other four fields of `GraphInv'` along `Slab.insert` / `Slab.set` (`GI0`). -/
namespace Evenio
open Graph (GraphOK)
namespace InvV1

/-! ### steps that do not write the component registry -/

theorem ubErr_cj {α : Type} (J : SlotMap CompInfo → Prop) (s : String) :
    Keeps (fun w => J w.comps) (ubErr s : M α) := Keeps.throw _
theorem dbgAssert_cj (J : SlotMap CompInfo → Prop) (c : Bool) (s : String) :
    Keeps (fun w => J w.comps) (dbgAssert c s) := by
  unfold dbgAssert; keeps
theorem handlerRefresh_cj (J : SlotMap CompInfo → Prop) (hk : Key) (a : Arch) :
    Keeps (fun w => J w.comps) (handlerRefresh hk a) := by
  unfold handlerRefresh; keeps
  · exact ubErr_cj J _
  · exact dbgAssert_cj J _ _
theorem registerHandler_cj (J : SlotMap CompInfo → Prop) (a : Arch) (h : HInfo) :
    Keeps (fun w => J w.comps) (a.registerHandler h) := by
  unfold Arch.registerHandler; keeps
  exact handlerRefresh_cj J _ _

/-! ### the first loop of `newArch` -/

/-- `IndexSet::insert` -/
def addMember (l : List Nat) (v : Nat) : List Nat := if l.contains v then l else l ++ [v]

theorem addMember_idem (l : List Nat) (v : Nat) : addMember (addMember l v) v = addMember l v := by
  unfold addMember
  by_cases h : l.contains v = true
  · simp only [h, if_true]
  · have : (l ++ [v]).contains v = true := by simp
    simp only [h, Bool.false_eq_true, if_false, this, if_true]

/-- `C'` is `C` after `member_of.insert(v)` for every component of `cs` (all of them live) -/
structure AddedTo (v : Nat) (cs : List Nat) (C C' : SlotMap CompInfo) : Prop where
  live : ∀ i, (C'.getByIndex i).isSome = (C.getByIndex i).isSome
  all : ∀ c ∈ cs, (C.getByIndex c).isSome = true
  get : ∀ k ci', C'.get k = some ci' → ∃ ci, C.get k = some ci ∧
    ci'.memberOf = if k.idx ∈ cs then addMember ci.memberOf v else ci.memberOf

theorem AddedTo.nil (v : Nat) (C : SlotMap CompInfo) : AddedTo v [] C C :=
  ⟨fun _ => rfl, fun _ h => absurd h List.not_mem_nil, fun _ ci h => ⟨ci, h, by simp⟩⟩

theorem AddedTo.cons {v c : Nat} {cs : List Nat} {C C' : SlotMap CompInfo} {k0 : Key} {ci0 : CompInfo}
    (hg : C.getByIndex c = some (k0, ci0))
    (h : AddedTo v cs (C.set k0 { ci0 with memberOf := addMember ci0.memberOf v }) C') :
    AddedTo v (c :: cs) C C' := by
  obtain ⟨hg0, hi0⟩ := SlotMap.getByIndex_get hg
  refine ⟨fun i => (h.live i).trans (getByIndex_set_isSome hg0 _ i), fun c' hc' => ?_, fun k ci' hk => ?_⟩
  · rcases List.mem_cons.1 hc' with rfl | hc'
    · rw [hg]; rfl
    · rw [← getByIndex_set_isSome hg0]; exact h.all c' hc'
  · obtain ⟨ci1, h1, hm⟩ := h.get k ci' hk
    rw [SlotMap.get_set hg0] at h1
    split at h1
    · next e =>
      subst e
      cases h1
      refine ⟨ci0, hg0, ?_⟩
      rw [hm, hi0, if_pos List.mem_cons_self]
      split
      · exact addMember_idem _ _
      · rfl
    · next e =>
      refine ⟨ci1, h1, ?_⟩
      have hne : k.idx ≠ c := fun hc => e (key_eq_of_idx h1 hg0 (hc.trans hi0.symm))
      rw [hm]
      simp only [List.mem_cons, hne, false_or]

theorem newArch_loop1 (v : Nat) (cs : List Nat) :
    ∀ C, HoareOk (fun w => w.comps = C)
      (forIn cs PUnit.unit fun c (_ : PUnit) => (do
        let w ← get
        match w.comps.getByIndex c with
        | none => do
          ubErr "archetype.rs:Archetype::new:component"
          pure (ForInStep.yield PUnit.unit)
        | some (k, ci) => do
          set { w with comps := w.comps.set k ({ ci with memberOf := if ci.memberOf.contains v then ci.memberOf else ci.memberOf ++ [v] }) }
          pure (ForInStep.yield PUnit.unit) : M (ForInStep PUnit)))
      (fun _ w' => AddedTo v cs C w'.comps) := by
  induction cs with
  | nil => exact fun C => HoareOk.pure fun w hw => hw ▸ AddedTo.nil v _
  | cons c cs ih =>
    intro C
    rw [List.forIn_cons]
    refine HoareOk.bind (R := fun r w' => r = ForInStep.yield PUnit.unit ∧ ∃ k0 ci0,
      C.getByIndex c = some (k0, ci0) ∧
      w'.comps = C.set k0 { ci0 with memberOf := addMember ci0.memberOf v }) ?_ fun r => ?_
    · refine HoareOk.get_bind fun w hw => ?_
      split
      · exact HoareOk.bind (R := fun _ _ => False) (HoareOk.ubErr _) fun _ => ⟨fun _ h => h.elim⟩
      · next k0 ci0 hg =>
        rw [hw] at hg
        refine HoareOk.bind (R := fun _ w' => w'.comps = C.set k0 { ci0 with memberOf := addMember ci0.memberOf v })
          ⟨fun w1 _ u w' hr => ?_⟩ fun _ => HoareOk.pure fun _ h => ⟨rfl, k0, ci0, hg, h⟩
        cases hr
        rw [hw]
        rfl
    · refine Graph.hoare_const_and fun hr => ?_
      subst hr
      refine Graph.hoare_exists fun k0 => Graph.hoare_exists fun ci0 => Graph.hoare_const_and fun hg => ?_
      exact HoareOk.post (ih _) fun _ w' h => AddedTo.cons hg h

/-- the component-registry half of `newArch` -/
theorem newArch_comps (v : Nat) (cs : List Nat) (ei er : Option (Nat × Nat)) (C : SlotMap CompInfo) :
    HoareOk (fun w => w.comps = C ∧ w.archs.vacantKey = v) (newArch cs ei er)
      (fun _ w' => AddedTo v cs C w'.comps) := by
  unfold newArch
  refine HoareOk.get_bind fun w0 hw0 => ?_
  dsimp only
  rw [hw0.2]
  refine HoareOk.bind (R := fun _ w => AddedTo v cs C w.comps)
    (HoareOk.pre (newArch_loop1 v cs C) fun _ h => h.1) fun _ => ?_
  refine HoareOk.of_keeps (P := fun w => AddedTo v cs C w.comps) ?_
  keeps
  all_goals first
    | exact ubErr_cj (AddedTo v cs C) _
    | exact registerHandler_cj (AddedTo v cs C) _ _

/-- **`newArch`**: the slab gets one more archetype with the core `Archetype::new` builds (`C17.newArch_spec`), every
    component of `cs` was live and has learnt the new index -/
theorem newArch_full (cs : List Nat) (ei er : Option (Nat × Nat)) (A : Slab Arch) (C : SlotMap CompInfo) :
    HoareOk (fun w => w.archs = A ∧ w.comps = C) (newArch cs ei er)
      (fun idx w' => idx = A.vacantKey ∧ ∃ a, w'.archs = A.insert a ∧ C17.NewCore A.vacantKey cs ei er a ∧
        AddedTo A.vacantKey cs C w'.comps) := by
  refine ⟨fun w hw idx w' hr => ?_⟩
  obtain ⟨h1, a, h2, h3⟩ := (C17.newArch_spec cs ei er A).run w hw.1 idx w' hr
  have h4 := (newArch_comps A.vacantKey cs ei er C).run w ⟨hw.2, by rw [hw.1]⟩ idx w' hr
  exact ⟨h1, a, h2, h3, h4⟩

/-! ### `GraphInv'` without `GraphOK` along `Slab.set` / `Slab.insert` -/

/-- the edge tables of `a` are sorted association lists -/
def EdgeKeys (a : Arch) : Prop :=
  (a.insEdges.map (·.1)).Pairwise (· < ·) ∧ (a.remEdges.map (·.1)).Pairwise (· < ·)

/-- the four fields of `GraphInv'` other than `GraphOK` -/
structure GI0 (A : Slab Arch) (C : SlotMap CompInfo) : Prop where
  empty : ∃ a0, A.get 0 = some a0 ∧ a0.comps = []
  compsLive : ∀ i a, A.get i = some a → ∀ c ∈ a.comps, (C.getByIndex c).isSome = true
  edgeKeys : ∀ i a, A.get i = some a → EdgeKeys a
  members : ∀ k ci, C.get k = some ci →
    ci.memberOf.Nodup ∧ ∀ i, i ∈ ci.memberOf ↔ ∃ a, A.get i = some a ∧ k.idx ∈ a.comps

theorem gi0_of_graphInv' {A : Slab Arch} {C : SlotMap CompInfo} (h : GraphInv' A C) : GI0 A C :=
  ⟨h.empty, h.compsLive, h.edgeKeys, h.members⟩

theorem GI0.graphInv' {A : Slab Arch} {C : SlotMap CompInfo} (h : GI0 A C) (hG : GraphOK A) : GraphInv' A C :=
  ⟨hG, h.empty, h.compsLive, h.edgeKeys, h.members⟩

/-- an archetype is rewritten in its edge tables -/
theorem GI0.set {A : Slab Arch} {C : SlotMap CompInfo} (h : GI0 A C) {src : Nat} {sa sa2 : Arch}
    (hsa : A.get src = some sa) (hc : sa2.comps = sa.comps) (hk : EdgeKeys sa2) : GI0 (A.set src sa2) C := by
  have hget : ∀ j, (A.set src sa2).get j = if j = src then some sa2 else A.get j := fun j => by
    rw [Slab.get_set, hsa]; rfl
  have hback : ∀ j a', (A.set src sa2).get j = some a' →
      ∃ a, A.get j = some a ∧ a'.comps = a.comps ∧ (a' = sa2 ∨ a' = a) := by
    intro j a' hj
    rw [hget] at hj
    split at hj
    · next e => subst e; cases hj; exact ⟨sa, hsa, hc, .inl rfl⟩
    · exact ⟨a', hj, rfl, .inr rfl⟩
  have hfwd : ∀ j a, A.get j = some a → ∃ a', (A.set src sa2).get j = some a' ∧ a'.comps = a.comps := by
    intro j a hj
    rw [hget]
    split
    · next e => subst e; rw [hsa] at hj; cases hj; exact ⟨sa2, rfl, hc⟩
    · exact ⟨a, hj, rfl⟩
  obtain ⟨⟨a0, h0, h0c⟩, hlive, hkeys, hmem⟩ := h
  refine ⟨?_, fun j a' hj c hcm => ?_, fun j a' hj => ?_, fun k ci hk' => ?_⟩
  · obtain ⟨a0', h0', hc'⟩ := hfwd 0 a0 h0
    exact ⟨a0', h0', hc'.trans h0c⟩
  · obtain ⟨a, ha, hca, -⟩ := hback j a' hj
    exact hlive j a ha c (hca ▸ hcm)
  · obtain ⟨a, ha, -, rfl | rfl⟩ := hback j a' hj
    · exact hk
    · exact hkeys j _ ha
  · obtain ⟨h1, h2⟩ := hmem k ci hk'
    refine ⟨h1, fun i => (h2 i).trans ⟨?_, ?_⟩⟩
    · rintro ⟨a, ha, hca⟩
      obtain ⟨a', ha', hc'⟩ := hfwd i a ha
      exact ⟨a', ha', hc' ▸ hca⟩
    · rintro ⟨a', ha', hca⟩
      obtain ⟨a, ha, hc', -⟩ := hback i a' ha'
      exact ⟨a, ha, hc' ▸ hca⟩

/-- a new archetype, after its components have learnt its index -/
theorem GI0.insert {A : Slab Arch} {C C' : SlotMap CompInfo} (h : GI0 A C) (hwf : Slab.WF A) {b : Arch}
    (hadd : AddedTo A.vacantKey b.comps C C') (hk : EdgeKeys b) : GI0 (A.insert b) C' := by
  have hv : A.get A.vacantKey = none := Slab.get_vacantKey_none hwf
  have hget : ∀ j, (A.insert b).get j = if j = A.vacantKey then some b else A.get j := fun j => by
    split
    · next e => rw [e]; exact Slab.get_insert_vacantKey hwf b
    · next e => exact Slab.get_insert_other A b e
  have hold : ∀ j a, A.get j = some a → (A.insert b).get j = some a := by
    intro j a hj
    rw [hget, if_neg]
    · exact hj
    · rintro rfl; rw [hv] at hj; cases hj
  obtain ⟨⟨a0, h0, h0c⟩, hlive, hkeys, hmem⟩ := h
  refine ⟨⟨a0, hold 0 a0 h0, h0c⟩, fun j a' hj c hcm => ?_, fun j a' hj => ?_, fun k ci' hk' => ?_⟩
  · rw [hadd.live]
    rw [hget] at hj
    split at hj
    · cases hj; exact hadd.all c hcm
    · exact hlive j a' hj c hcm
  · rw [hget] at hj
    split at hj
    · cases hj; exact hk
    · exact hkeys j a' hj
  · obtain ⟨ci, hci, hm⟩ := hadd.get k ci' hk'
    obtain ⟨h1, h2⟩ := hmem k ci hci
    have hvm : A.vacantKey ∉ ci.memberOf := by
      intro hin
      obtain ⟨a, ha, -⟩ := (h2 _).1 hin
      rw [hv] at ha; cases ha
    have hadd' : addMember ci.memberOf A.vacantKey = ci.memberOf ++ [A.vacantKey] := by
      unfold addMember
      rw [if_neg]
      simpa using hvm
    rw [hm]
    split
    · next hin =>
      rw [hadd']
      refine ⟨?_, fun i => ?_⟩
      · rw [List.nodup_append]
        refine ⟨h1, by simp, fun x hx y hy => ?_⟩
        rw [List.mem_singleton] at hy
        subst hy
        exact fun e => hvm (e ▸ hx)
      · rw [List.mem_append, List.mem_singleton, h2 i]
        constructor
        · rintro (⟨a, ha, hca⟩ | rfl)
          · exact ⟨a, hold i a ha, hca⟩
          · exact ⟨b, by rw [hget, if_pos rfl], hin⟩
        · rintro ⟨a', ha', hca⟩
          rw [hget] at ha'
          split at ha'
          · next e => exact .inr e
          · exact .inl ⟨a', ha', hca⟩
    · next hin =>
      refine ⟨h1, fun i => (h2 i).trans ⟨?_, ?_⟩⟩
      · rintro ⟨a, ha, hca⟩
        exact ⟨a, hold i a ha, hca⟩
      · rintro ⟨a', ha', hca⟩
        rw [hget] at ha'
        split at ha'
        · cases ha'; exact absurd hca hin
        · exact ⟨a', ha', hca⟩

end InvV1
end Evenio
