import Evenio.Proofs.Inv.GlueTop
/-! # `removeComponent`

Functional facts about the two removal loops of `removeComponent` (no live handler references the component after the
`removeHandler` loop; its `insEvents` / `remEvents` are empty after the `removeEvent` loop), then the glue.

`removeComponent` needs two facts `WInv` does not provide (see `Aux`): registry entries of components carry their own
id, and entries of the TARGETED event registry have targeted types (`removeEvent ei.ty ev` dispatches on
`ei.ty.targeted`). -/
namespace Evenio
open InvV7

/-- an auxiliary invariant `A` — kept by every operation on every exit, independently of `WInv` — providing the two
    facts about registry entries that `WInv` lacks.  Intended instance: `fun w => CompIdInv w ∧ TevTyped w`. -/
structure Aux (A : World → Prop) : Prop where
  init : A {}
  compId : ∀ w, A w → ∀ k ci, w.comps.get k = some ci → ci.id = k
  tevTyped : ∀ w, A w → ∀ k ei, w.tevs.get k = some ei → ei.ty.targeted = true
  /-- `A` only reads the component and the targeted-event registry -/
  frame : ∀ w w', w'.comps = w.comps → w'.tevs = w.tevs → A w → A w'
  execOp : ∀ op, Keeps A (execOp op)
  sendGlobal : ∀ ty pay, Keeps A (sendGlobal ty pay)
  addTargetedEvent_despawn : Keeps A (addTargetedEvent .despawn)
  flush : ∀ fuel, Keeps A (flush fuel)
  removeHandler : ∀ k, Keeps A (removeHandler k)
  removeEvent : ∀ ty k, Keeps A (removeEvent ty k)

namespace InvV7

/-! ### no live handler references the component -/

def NoRef (c : Nat) (w : World) : Prop := ∀ hk h, w.handlers.get hk = some h → c ∉ h.referenced

theorem noRef_of_cores {c : Nat} {w w' : World}
    (h : ∀ k', w'.handlers.get k' = none ∨ (w'.handlers.get k').map HInfo.core = (w.handlers.get k').map HInfo.core)
    (hw : NoRef c w) : NoRef c w' := by
  intro hk h' hg'
  rcases h hk with hn | he
  · rw [hn] at hg'; cases hg'
  · rw [hg'] at he
    cases hg : w.handlers.get hk with
    | none => rw [hg] at he; cases he
    | some h0 =>
      rw [hg] at he
      simp only [Option.map_some, Option.some.injEq] at he
      have : h'.referenced = h0.referenced := (congrArg HInfo.referenced he : h'.core.referenced = h0.core.referenced)
      rw [this]; exact hw hk h0 hg

theorem sendGlobal_noRef (c : Nat) (ty : EvTy) (pay : Payload) : Keeps (NoRef c) (sendGlobal ty pay) :=
  ⟨fun w hw => noRef_of_cores (fun k' => .inr
    ((sendGlobal_hk (reg := fun k => (w.handlers.get k).map HInfo.core) ty pay).run w (fun _ => rfl) k')) hw⟩

theorem removeHandler_noRef (hcores : Obl.removeHandler_cores) (c : Nat) (x : Key) :
    HoareOk (NoRef c) (removeHandler x) (fun _ => NoRef c) := by
  refine ⟨fun w hw b w' hr => noRef_of_cores (fun k' => ?_) hw⟩
  have := hcores x w b w' hr k'
  by_cases hk : k' = x
  · rw [if_pos hk] at this
    left
    cases hg : w'.handlers.get k' with
    | none => rfl
    | some h => rw [hg] at this; cases this
  · rw [if_neg hk] at this
    exact .inr this

/-- structural walk for `HoareOk I m (fun _ => I)` where `I` is an invariant of every step -/
local macro "ok_walk" hS:term "," hR:term : tactic => `(tactic| repeat' first
    | (with_reducible refine HoareOk.pure ?_; exact fun _ h => h)
    | with_reducible exact HoareOk.throw _
    | exact $hS _ _
    | exact $hR _
    | (with_reducible refine HoareOk.get_bind fun _ _ => ?_)
    | (with_reducible refine HoareOk.bind_inv ?_ fun _ => ?_)
    | (with_reducible refine HoareOk.forIn_list_inv fun _ _ => ?_)
    | (with_reducible refine HoareOk.ite ?_ ?_)
    | dsimp only
    | split)

theorem removeEvent_noRef (hcores : Obl.removeHandler_cores) (c : Nat) (ty : EvTy) (k : Key) :
    HoareOk (NoRef c) (removeEvent ty k) (fun _ => NoRef c) := by
  have hS : ∀ ty pay, HoareOk (NoRef c) (sendGlobal ty pay) (fun _ => NoRef c) :=
    fun ty pay => HoareOk.of_keeps (sendGlobal_noRef c ty pay)
  have hR := removeHandler_noRef hcores c
  unfold removeEvent assertQueueEmpty
  ok_walk hS, hR
  all_goals (refine ⟨fun _ _ _ _ hr => ?_⟩; cases hr; assumption)

/-! ### the Insert/Remove event lists of components only shrink along `removeEvent` -/

/-- every live component of `w` was live in `c0`, with at least the Insert/Remove events it lists now -/
def EvSub (c0 : SlotMap CompInfo) (w : World) : Prop :=
  ∀ k ci, w.comps.get k = some ci → ∃ ci0, c0.get k = some ci0 ∧
    (∀ e ∈ ci.insEvents, e ∈ ci0.insEvents) ∧ (∀ e ∈ ci.remEvents, e ∈ ci0.remEvents)

theorem EvSub.refl (w : World) : EvSub w.comps w := fun _ ci h => ⟨ci, h, fun _ h => h, fun _ h => h⟩

theorem Keeps.evSub_of_cc {α : Type} {m : M α} (h : ∀ c, Keeps (CC c) m) (c0 : SlotMap CompInfo) :
    Keeps (EvSub c0) m := by
  refine ⟨fun w hw k ci' hg' => ?_⟩
  have e : (m.run.run w).2.compsCore = w.compsCore := (h w.compsCore).run w rfl
  have e' : ((m.run.run w).2.comps.get k).map CompInfo.core = (w.comps.get k).map CompInfo.core := by
    rw [← SlotMap.get_mapVal, ← SlotMap.get_mapVal]
    exact congrArg (fun sm => SlotMap.get sm k) e
  rw [hg'] at e'
  cases hg : w.comps.get k with
  | none => rw [hg] at e'; cases e'
  | some ci =>
    rw [hg] at e'
    simp only [Option.map_some, Option.some.injEq] at e'
    obtain ⟨ci0, h0, h1, h2⟩ := hw k ci hg
    have i1 : ci'.insEvents = ci.insEvents := (congrArg CompInfo.insEvents e' : ci'.core.insEvents = ci.core.insEvents)
    have i2 : ci'.remEvents = ci.remEvents := (congrArg CompInfo.remEvents e' : ci'.core.remEvents = ci.core.remEvents)
    exact ⟨ci0, h0, i1 ▸ h1, i2 ▸ h2⟩

section cc
variable {c : SlotMap CompInfo}
theorem ensureAddG_cc : Keeps (CC c) ensureAddG := by unfold ensureAddG; keeps
local macro_rules | `(tactic| keeps_leaf) => `(tactic| exact ensureAddG_cc)
theorem addGlobalEvent_cc (ty : EvTy) : Keeps (CC c) (addGlobalEvent ty) := by unfold addGlobalEvent; keeps
local macro_rules | `(tactic| keeps_leaf) => `(tactic| exact addGlobalEvent_cc _)
theorem sendGlobal_cc (ty : EvTy) (pay : Payload) : Keeps (CC c) (sendGlobal ty pay) := by unfold sendGlobal; keeps
local macro_rules | `(tactic| keeps_leaf) => `(tactic| exact sendGlobal_cc _ _)
theorem removeHandler_cc (k : Key) : Keeps (CC c) (removeHandler k) := by unfold removeHandler; keeps
end cc

theorem evSub_set_ins {c0 : SlotMap CompInfo} {w : World} (hw : EvSub c0 w) {c : Nat} {ck : Key} {ci : CompInfo}
    (hg : w.comps.getByIndex c = some (ck, ci)) (l : List Key) (hl : ∀ e ∈ l, e ∈ ci.insEvents) :
    EvSub c0 { w with comps := w.comps.set ck { ci with insEvents := l } } := by
  intro k ci' hg'
  have hget := (SlotMap.getByIndex_get hg).1
  rw [show ({ w with comps := w.comps.set ck { ci with insEvents := l } } : World).comps =
    w.comps.set ck { ci with insEvents := l } from rfl, SlotMap.get_set hget] at hg'
  split at hg'
  · next hk =>
    subst hk
    cases hg'
    obtain ⟨ci0, h0, h1, h2⟩ := hw k ci hget
    exact ⟨ci0, h0, fun e he => h1 e (hl e he), h2⟩
  · exact hw k ci' hg'

theorem evSub_set_rem {c0 : SlotMap CompInfo} {w : World} (hw : EvSub c0 w) {c : Nat} {ck : Key} {ci : CompInfo}
    (hg : w.comps.getByIndex c = some (ck, ci)) (l : List Key) (hl : ∀ e ∈ l, e ∈ ci.remEvents) :
    EvSub c0 { w with comps := w.comps.set ck { ci with remEvents := l } } := by
  intro k ci' hg'
  have hget := (SlotMap.getByIndex_get hg).1
  rw [show ({ w with comps := w.comps.set ck { ci with remEvents := l } } : World).comps =
    w.comps.set ck { ci with remEvents := l } from rfl, SlotMap.get_set hget] at hg'
  split at hg'
  · next hk =>
    subst hk
    cases hg'
    obtain ⟨ci0, h0, h1, h2⟩ := hw k ci hget
    exact ⟨ci0, h0, h1, fun e he => h2 e (hl e he)⟩
  · exact hw k ci' hg'

theorem removeEvent_evSub (c0 : SlotMap CompInfo) (ty : EvTy) (k : Key) :
    HoareOk (EvSub c0) (removeEvent ty k) (fun _ => EvSub c0) := by
  have hS : ∀ ty pay, HoareOk (EvSub c0) (sendGlobal ty pay) (fun _ => EvSub c0) :=
    fun ty pay => HoareOk.of_keeps (Keeps.evSub_of_cc (fun _ => sendGlobal_cc ty pay) c0)
  have hR : ∀ x, HoareOk (EvSub c0) (removeHandler x) (fun _ => EvSub c0) :=
    fun x => HoareOk.of_keeps (Keeps.evSub_of_cc (fun _ => removeHandler_cc x) c0)
  unfold removeEvent assertQueueEmpty
  ok_walk hS, hR
  all_goals
    refine ⟨fun _ _ _ _ hr => ?_⟩
    cases hr
    first
      | assumption
      | exact evSub_set_ins ‹EvSub c0 _› ‹_› _ fun e he => (List.mem_filter.1 he).1
      | exact evSub_set_rem ‹EvSub c0 _› ‹_› _ fun e he => (List.mem_filter.1 he).1

/-! ### a removed targeted event is dead -/

theorem removeEventFinish_dead (ty : EvTy) (hty : ty.targeted = true) (k : Key) :
    HoareOk (fun _ => True) (removeEventFinish ty k) (fun _ w' => w'.tevs.contains k = false) := by
  unfold removeEventFinish
  rw [if_pos hty]
  refine HoareOk.get_bind fun w _ => ?_
  split
  · exact HoareOk.throw _
  · next info tevs hrm =>
    refine HoareOk.bind (R := fun _ w => w.tevs.contains k = false)
      ⟨fun _ _ _ _ hr => by cases hr; exact SlotMap.contains_remove_self hrm⟩ fun _ => ?_
    ok_walk trivial, trivial
    all_goals (refine ⟨fun _ _ _ _ hr => ?_⟩; cases hr; assumption)

theorem removeEvent_dead_after {w : World} (hq : w.queue = []) {ev : Key} {ei : EvInfo}
    (hg : w.tevs.get ev = some ei) (hty : ei.ty.targeted = true) {b : Bool} {w' : World}
    (hr : (removeEvent ei.ty ev).run.run w = (.ok b, w')) : w'.tevs.contains ev = false := by
  have hlive : (if ei.ty.targeted then w.tevs.contains ev else w.gevs.contains ev) = true := by
    rw [if_pos hty]; simp [SlotMap.contains, hg]
  rw [removeEvent_run _ _ w hq hlive] at hr
  refine (?h : HoareOk (fun _ => True) _ (fun _ w' => w'.tevs.contains ev = false)).run w trivial b w' hr
  refine HoareOk.bind (R := fun _ _ => True) ⟨fun _ _ _ _ _ => trivial⟩ fun _ => ?_
  refine HoareOk.get_bind fun _ _ => ?_
  exact HoareOk.bind (R := fun _ _ => True) ⟨fun _ _ _ _ _ => trivial⟩ fun _ => removeEventFinish_dead _ hty _

/-! ### the invariant of `removeComponent` -/

/-- the top-level invariant with the auxiliary invariant `A` and a functional fact `F` -/
abbrev JF (A F : World → Prop) : World → Prop := Guarded fun w => WInv w ∧ Quiescent w ∧ A w ∧ F w

theorem jf_gq {A F : World → Prop} {w : World} (h : JF A F w) : GQ w := fun hs => ⟨(h hs).1, (h hs).2.1⟩

/-- one step: `TopQ` for the invariant, `Keeps` for `A`, a run-level statement for the functional fact -/
theorem jf_step {α : Type} {A : World → Prop} {m : M α} {F : World → Prop} {F' : α → World → Prop}
    (hmono : SlabMono m) (hT : TopQ m) (hA : Keeps A m)
    (hF : ∀ w a w', WInv w → Quiescent w → A w → F w → m.run.run w = (.ok a, w') → WInv w' → F' a w') :
    Hoare (JF A F) m (fun a => JF A (F' a)) (PanicOnly GW) := by
  refine Hoare.unguard hmono (fun _ => guarded_absorb) panicOnly_guarded_absorb fun w0 _ hw0 => ⟨fun w h => ?_⟩
  subst h
  obtain ⟨hW, hQ, hA0, hF0⟩ := hw0
  have rT := hT.run w fun _ => ⟨hW, hQ⟩
  have rA := hA.run w hA0
  generalize hr : m.run.run w = res at rT rA
  obtain ⟨(e|a), w'⟩ := res
  · exact rT
  · exact fun hs => ⟨(rT hs).1, (rT hs).2, rA, hF w a w' hW hQ hA0 hF0 hr (rT hs).1⟩

/-- the handlers still to be removed: every live handler referencing `c` is in `l` -/
def Rem (c : Nat) (l : List Key) (w : World) : Prop :=
  ∀ hk h, w.handlers.get hk = some h → c ∈ h.referenced → hk ∈ l

theorem rem_init {w : World} (hW : WInv w) (c : Nat) :
    Rem c (w.byInsertOrder.filter fun hk =>
      match w.handlers.get hk with
      | some h => h.referenced.contains c
      | none => false) w := by
  intro hk h hg href
  refine List.mem_filter.2 ⟨(hW.lists.ordMem hk).2 (by simp [SlotMap.contains, hg]), ?_⟩
  simp [hg, href]

theorem rem_step (hcores : Obl.removeHandler_cores) {c : Nat} {x : Key} {l : List Key} {w : World} {b : Bool}
    {w' : World} (hr : (removeHandler x).run.run w = (.ok b, w')) (h : Rem c (x :: l) w) : Rem c l w' := by
  intro hk h' hg' href
  have := hcores x w b w' hr hk
  rw [hg'] at this
  by_cases hx : hk = x
  · rw [if_pos hx] at this; cases this
  · rw [if_neg hx] at this
    cases hg : w.handlers.get hk with
    | none => rw [hg] at this; cases this
    | some h0 =>
      rw [hg] at this
      simp only [Option.map_some, Option.some.injEq] at this
      have e : h'.referenced = h0.referenced :=
        (congrArg HInfo.referenced this : h'.core.referenced = h0.core.referenced)
      rcases List.mem_cons.1 (h hk h0 hg (e ▸ href)) with h1 | h1
      · exact absurd h1 hx
      · exact h1

/-- the events still to be removed: nobody references the component, and every Insert/Remove event its registry
    entry lists is in `l` -/
def EvLeft (k : Key) (l : List Key) (w : World) : Prop :=
  NoRef k.idx w ∧ ∀ ci, w.comps.get k = some ci → ∀ e, e ∈ ci.insEvents ∨ e ∈ ci.remEvents → e ∈ l

theorem listed_live {w : World} (hW : WInv w) {k : Key} {ci : CompInfo} (hg : w.comps.get k = some ci) {e : Key}
    (he : e ∈ ci.insEvents ∨ e ∈ ci.remEvents) : w.tevs.contains e = true := by
  obtain ⟨h1, h2⟩ := hW.registry.compEvents k ci hg
  rcases he with he | he
  · obtain ⟨ei, hei, -⟩ := h1 e he; simp [SlotMap.contains, hei]
  · obtain ⟨ei, hei, -⟩ := h2 e he; simp [SlotMap.contains, hei]

theorem evLeft_skip {w : World} (hW : WInv w) {k ev : Key} {l : List Key} (hn : w.tevs.get ev = none)
    (h : EvLeft k (ev :: l) w) : EvLeft k l w := by
  refine ⟨h.1, fun ci hg e he => ?_⟩
  rcases List.mem_cons.1 (h.2 ci hg e he) with rfl | h1
  · have := listed_live hW hg he
    simp [SlotMap.contains, hn] at this
  · exact h1

theorem evLeft_step (hcores : Obl.removeHandler_cores) {w : World} (hQ : Quiescent w) {k ev : Key} {l : List Key}
    {ei : EvInfo} (hg : w.tevs.get ev = some ei) (hty : ei.ty.targeted = true) {b : Bool} {w' : World}
    (hr : (removeEvent ei.ty ev).run.run w = (.ok b, w')) (hW' : WInv w') (h : EvLeft k (ev :: l) w) :
    EvLeft k l w' := by
  refine ⟨(removeEvent_noRef hcores _ _ _).run w h.1 _ _ hr, fun ci' hg' e he => ?_⟩
  obtain ⟨ci0, h0, h1, h2⟩ := (removeEvent_evSub w.comps _ _).run w (EvSub.refl w) _ _ hr k ci' hg'
  rcases List.mem_cons.1 (h.2 ci0 h0 e (he.imp (h1 e) (h2 e))) with rfl | h3
  · have d := removeEvent_dead_after hQ.1 hg hty hr
    rw [listed_live hW' hg' he] at d
    cases d
  · exact h3

end InvV7

namespace Pieces
variable (P : Pieces) {A : World → Prop} (X : Aux A)
include P X

omit P in
theorem push_jp (it : QItem) :
    Keeps (Guarded fun w => WInvMid w ∧ PendingOK False w ∧ A w) (push it) := by
  unfold push
  refine Keeps.modify fun w h hs => ?_
  obtain ⟨h1, ⟨ks, hr, hp⟩, h3⟩ := h hs
  refine ⟨h1.frame (by releq) rfl rfl, ⟨ks, hr.frame rfl rfl rfl, fun hne => ?_⟩, X.frame w _ rfl rfl h3⟩
  rcases hp hne with hf | ⟨q, hq, hsp⟩
  · exact hf.elim
  · exact .inr ⟨q, List.mem_append_left _ hq, hsp⟩

theorem flush_jp :
    Hoare (Guarded fun w => WInvMid w ∧ PendingOK False w ∧ A w) (flush FUEL) (fun _ => JF A fun _ => True)
      (PanicOnly GW) := by
  refine Hoare.unguard (fun _ => flush_sl FUEL) (fun _ => guarded_absorb) panicOnly_guarded_absorb
    fun w0 _ hw0 => ⟨fun w h => ?_⟩
  subst h
  obtain ⟨hM, hP, hA⟩ := hw0
  have r1 := (P.flush_pending FUEL w.gevs False).run w ⟨rfl, fun _ => ⟨hM, hP⟩⟩
  have r2 := (P.glue_flush FUEL).run w fun _ => hM
  have r3 := (X.flush FUEL).run w hA
  generalize (flush FUEL).run.run w = res at r1 r2 r3
  obtain ⟨(e|a), w'⟩ := res
  · exact r2
  · exact fun hs => ⟨(r1.2 hs).1.1, PendingOK.quiescent (r1.2 hs).2.1 (r1.2 hs).2.2, r3, trivial⟩

omit P X in
theorem dropCompTail_sl (info : CompInfo) : SlabMono (dropCompTail info) := fun n => by unfold dropCompTail; keeps

/-- the tail of `removeComponent`, from the exact state in which the registry entry is removed -/
theorem dropComp_gq {w : World} {k : Key} (hw : JF A (EvLeft k []) w) {info : CompInfo}
    {comps' : SlotMap CompInfo} (hrm : w.comps.remove k = some (info, comps')) :
    Hoare (fun w1 => w1 = Step.dropComp w k comps') (dropCompTail info) (fun _ => GQ) (PanicOnly GW) := by
  refine Hoare.unguard_at (dropCompTail_sl info) (fun _ => guarded_absorb) panicOnly_guarded_absorb fun hs1 => ?_
  have hs0 : Small w := hs1
  obtain ⟨hW, hQ, hA, hNo, hEv⟩ := hw hs0
  have hM : WInvMid w := ⟨hW, hQ.reservedSome⟩
  have hget := SlotMap.get_of_remove hrm
  have hU : CompUnused w k info := by
    refine ⟨hget, hNo, ?_, ?_⟩
    · cases hl : info.insEvents with
      | nil => rfl
      | cons e l => exact nomatch hEv info hget e (.inl (by rw [hl]; exact List.mem_cons_self))
    · cases hl : info.remEvents with
      | nil => rfl
      | cons e l => exact nomatch hEv info hget e (.inr (by rw [hl]; exact List.mem_cons_self))
  have hid := X.compId w hA k info hget
  refine ⟨fun w1 h1 => ?_⟩
  have r := fun g => (P.dropComp_keeps' g w k info comps' hM hU hid hrm).run w1 h1
  have rq := (P.dropComp_quiescent' w k info comps' hM hQ hU hid hrm).run w1 h1
  have rn := fun e w' => P.extra_dropComp_noPanic w k info comps' e w' hM hU hid hrm
  subst h1
  generalize hr : (dropCompTail info).run.run (Step.dropComp w k comps') = res at r rq rn
  obtain ⟨(e|a), w'⟩ := res
  · intro hp
    have := rn e w' rfl
    rw [hp] at this; cases this
  · exact fun hs => ⟨⟨hs, r .graph, r .store, r .lists, r .cache, r .registry⟩, rq a w' rfl⟩

/-- **`removeComponent`**, from a quiescent world satisfying `WInv` and the auxiliary invariant -/
theorem topQ_removeComponent (k : Key) :
    Hoare (JF A fun _ => True) (removeComponent k) (fun _ => GQ) (PanicOnly GW) := by
  have hJG : ∀ (F : World → Prop) (w : World), JF A F w → GQ w := fun F w h => jf_gq h
  have hJW : ∀ (F : World → Prop) (e : Err) (w : World), JF A F w → PanicOnly GW e w :=
    fun F e w h => panicOnly_of (gq_gw (jf_gq h))
  unfold removeComponent
  refine Hoare.get_bind fun w0 _ => ?_
  split
  · exact Hoare.pure (hJG _)
  -- the announcement, the registration of `Despawn`
  refine Hoare.bind_inv (jf_step (fun _ => sendGlobal_sl _ _) (P.topQ_sendGlobal _ _) (X.sendGlobal _ _)
    fun _ _ _ _ _ _ _ _ _ => trivial) fun _ => ?_
  refine Hoare.bind_inv (jf_step (fun _ => addTargetedEvent_sl _) (P.topQ_addTargetedEvent .despawn rfl)
    X.addTargetedEvent_despawn fun _ _ _ _ _ _ _ _ _ => trivial) fun dk => ?_
  -- the `Despawn` events are queued and flushed
  refine Hoare.get_bind fun w1 _ => ?_
  refine Hoare.bind (R := fun _ => Guarded fun w => WInvMid w ∧ PendingOK False w ∧ A w) ?_ fun _ => ?_
  · refine Hoare.pre (P' := Guarded fun w => WInvMid w ∧ PendingOK False w ∧ A w) ?_
      fun w h hs => ⟨⟨(h hs).1, (h hs).2.1.reservedSome⟩, (h hs).2.1.pendingOK False, (h hs).2.2.1⟩
    refine Hoare.of_keeps (Keeps.forIn_list fun x _ => ?_) fun _ w h => panicOnly_of fun hs => (h hs).1
    obtain ⟨i, a⟩ := x
    dsimp only
    split
    · exact Keeps.bind (Keeps.forIn_list fun id _ => Keeps.bind (push_jp X _) fun _ => Keeps.pure _)
        fun _ => Keeps.pure _
    · exact Keeps.pure _
  refine Hoare.bind (P.flush_jp X) fun _ => ?_
  -- the handlers referencing the component
  refine Hoare.get_bind_eq fun w2 hw2 => ?_
  dsimp only
  have hloop : ∀ l : List Key, Hoare (JF A (Rem k.idx l))
      (forIn l PUnit.unit fun hk _ => (removeHandler hk >>= fun _ => pure (ForInStep.yield PUnit.unit) : M _))
      (fun _ => JF A (Rem k.idx [])) (PanicOnly GW) := by
    intro l
    induction l with
    | nil => exact Hoare.pure fun _ h => h
    | cons x l ih =>
      rw [List.forIn_cons]
      refine Hoare.bind (R := fun r w => r = ForInStep.yield PUnit.unit ∧ JF A (Rem k.idx l) w) ?_ fun r => ?_
      · refine Hoare.bind (jf_step (F' := fun _ => Rem k.idx l) (fun _ => removeHandler_sl x)
          (P.topQ_removeHandler x) (X.removeHandler x)
          fun w b w' _ _ _ hF hr _ => rem_step P.removeHandler_cores hr hF) fun _ => ?_
        exact Hoare.pure fun _ h => ⟨rfl, h⟩
      · refine ⟨fun w hw => ?_⟩
        obtain ⟨rfl, hw⟩ := hw
        exact ih.run w hw
  refine Hoare.bind (R := fun _ => JF A (Rem k.idx [])) (Hoare.pre (hloop _) fun w h => ?_) fun _ => ?_
  · subst h
    exact fun hs => ⟨(hw2 hs).1, (hw2 hs).2.1, (hw2 hs).2.2.1, rem_init (hw2 hs).1 k.idx⟩
  -- the Insert/Remove events of the component
  refine Hoare.get_bind_eq fun w3 hw3 => ?_
  split
  · exact Hoare.throw fun w h => h ▸ hJW _ _ _ hw3
  next info hinfo =>
  have hloop2 : ∀ l : List Key, Hoare (JF A (EvLeft k l))
      (forIn l PUnit.unit fun ev _ => (do
        let w ← get
        match w.tevs.get ev with
          | some ei => do
            let _ ← removeEvent ei.ty ev
            pure (ForInStep.yield PUnit.unit)
          | none => pure (ForInStep.yield PUnit.unit) : M _))
      (fun _ => JF A (EvLeft k [])) (PanicOnly GW) := by
    intro l
    induction l with
    | nil => exact Hoare.pure fun _ h => h
    | cons ev l ih =>
      rw [List.forIn_cons]
      refine Hoare.bind (R := fun r w => r = ForInStep.yield PUnit.unit ∧ JF A (EvLeft k l) w) ?_ fun r => ?_
      · refine Hoare.get_bind_eq fun w hw => ?_
        split
        · next ei hei =>
          refine Hoare.bind (R := fun _ => JF A (EvLeft k l)) ?_ fun _ => Hoare.pure fun _ h => ⟨rfl, h⟩
          refine Hoare.pre (jf_step (F := fun w' => w' = w ∧ EvLeft k (ev :: l) w') (F' := fun _ => EvLeft k l)
            (fun _ => removeEvent_sl _ _) (P.topQ_removeEvent _ _) (X.removeEvent _ _) ?_) fun w' h => ?_
          · rintro w1 b w' _ hQ hA1 ⟨rfl, hF⟩ hr hW'
            exact evLeft_step P.removeHandler_cores hQ hei (X.tevTyped _ hA1 _ _ hei) hr hW' hF
          · subst h
            exact fun hs => ⟨(hw hs).1, (hw hs).2.1, (hw hs).2.2.1, rfl, (hw hs).2.2.2⟩
        · next hnone =>
          refine Hoare.pure fun w' h => ⟨rfl, ?_⟩
          subst h
          exact fun hs => ⟨(hw hs).1, (hw hs).2.1, (hw hs).2.2.1, evLeft_skip (hw hs).1 hnone (hw hs).2.2.2⟩
      · refine ⟨fun w hw => ?_⟩
        obtain ⟨rfl, hw⟩ := hw
        exact ih.run w hw
  refine Hoare.bind (R := fun _ => JF A (EvLeft k [])) (Hoare.pre (hloop2 _) fun w h => ?_) fun _ => ?_
  · subst h
    refine fun hs => ⟨(hw3 hs).1, (hw3 hs).2.1, (hw3 hs).2.2.1, fun hk h hg hc => ?_, fun ci hci e he => ?_⟩
    · exact nomatch (hw3 hs).2.2.2 hk h hg hc
    · rw [hinfo] at hci
      cases hci
      exact List.mem_append.2 he
  -- the registry entry, the archetypes
  refine Hoare.get_bind_eq fun w4 hw4 => ?_
  split
  · exact Hoare.throw fun w h => h ▸ hJW _ _ _ hw4
  next info' comps' hrm =>
  refine Hoare.bind (R := fun _ w' => w' = Step.dropComp w4 k comps') ⟨fun w _ => ?_⟩ fun _ => ?_
  · simp only [run_set]; rfl
  refine Hoare.congr_run (m := dropCompTail info' >>= fun _ => pure true) ?_ fun w => ?_
  · exact Hoare.bind (P.dropComp_gq X hw4 hrm) fun _ => Hoare.pure fun _ h => h
  · unfold dropCompTail
    simp only [run_bind]
    generalize (archsRemoveComponent info').run.run w = r
    obtain ⟨(e|a), w2⟩ := r
    · rfl
    · rfl

end Pieces

end Evenio
