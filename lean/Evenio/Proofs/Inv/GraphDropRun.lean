import Evenio.Proofs.Inv.GraphDrop
/-! # G1, section B: `dropComp` — the monadic part -/
namespace Evenio
open Graph (GraphOK)
namespace InvV1

/-- exceptional postcondition "not a panic" -/
abbrev NP : Err → World → Prop := fun e _ => e.isPanic = false

theorem hoare_keeps_np {α : Type} {P : World → Prop} {m : M α} (hk : Keeps P m) (hn : NoPanic m) :
    Hoare P m (fun _ => P) NP := by
  refine ⟨fun w hw => ?_⟩
  have h1 := hk.run w hw
  have h2 := hn.run w trivial
  generalize m.run.run w = r at h1 h2
  obtain ⟨(e|a), w'⟩ := r
  · exact h2
  · exact h1

/-- a loop with an invariant indexed by the remaining list -/
theorem hoare_forIn_idx {γ : Type} (P : List γ → World → Prop) {E : Err → World → Prop}
    {f : γ → PUnit → M (ForInStep PUnit)}
    (hf : ∀ x l, Hoare (P (x :: l)) (f x PUnit.unit) (fun r w => r = ForInStep.yield PUnit.unit ∧ P l w) E) :
    ∀ l, Hoare (P l) (forIn l PUnit.unit f) (fun _ => P []) E := by
  intro l
  induction l with
  | nil => exact Hoare.pure fun _ h => h
  | cons x l ih =>
    rw [List.forIn_cons]
    refine Hoare.bind (hf x l) fun r => ?_
    refine ⟨fun w hw => ?_⟩
    obtain ⟨rfl, hw⟩ := hw
    exact ih.run w hw

theorem noPanic_dropCell (ty : Nat) (c : Cell) : NoPanic (dropCell ty c) := by
  refine NoPanic.intro fun w e w' h => ?_
  rw [run_dropCell] at h
  cases h

/-- the loop state: the slab is seen through `V`, the invariant `VI` holds of the component registry -/
abbrev ST (r : Nat) (R : List Nat) (V : Nat → Option (List Nat)) (ai : Nat) (Rc : List Nat) : World → Prop :=
  fun w => SlabView V w.archs ∧ VI r R V w.comps ai Rc

theorem SlabView.setEdges' {V : Nat → Option (List Nat)} {A : Slab Arch} (h : SlabView V A) {oa' : Arch}
    (hv : V oa'.index = some oa'.comps) (hk : EdgeKeys oa') : SlabView V (A.set oa'.index oa') := by
  refine ⟨Slab.set_wf h.wf _ _, h.idx.set oa', fun i a hia => ?_, fun i => ?_⟩
  · rcases Slab.get_set_cases hia with ⟨-, rfl, -⟩ | ⟨-, hia'⟩
    · exact hk
    · exact h.keys i a hia'
  · rw [Slab.get_set]
    split
    · next e =>
      subst e
      obtain ⟨b, hb, -⟩ := h.to_get hv
      rw [hb, hv]; rfl
    · exact h.view i

theorem setArch_st {r : Nat} {R : List Nat} {V : Nat → Option (List Nat)} {ai : Nat} {Rc : List Nat} {oa' : Arch}
    (hv : V oa'.index = some oa'.comps) (hk : EdgeKeys oa') : Keeps (ST r R V ai Rc) (setArch oa') := by
  unfold setArch
  exact Keeps.modify fun w hw => ⟨hw.1.setEdges' hv hk, hw.2⟩

theorem ubErr_st {α : Type} (P : World → Prop) (s : String) : Keeps P (ubErr s : M α) := Keeps.throw _

theorem handlerRemoveArch_st (J : Slab Arch → SlotMap CompInfo → Prop) (hk : Key) (a : Arch) :
    Keeps (fun w => J w.archs w.comps) (handlerRemoveArch hk a) := by
  unfold handlerRemoveArch
  keeps
  exact ubErr_st _ _

theorem dropCell_st (J : Slab Arch → SlotMap CompInfo → Prop) (ty : Nat) (c : Cell) :
    Keeps (fun w => J w.archs w.comps) (dropCell ty c) := by
  unfold dropCell; keeps

theorem archsRemoveComponent_st (info : CompInfo) :
    Hoare (fun w => ∃ V, ST info.id.idx info.memberOf V 0 [] w) (archsRemoveComponent info)
      (fun _ w => ∃ V, ST info.id.idx [] V 0 [] w) NP := by
  unfold archsRemoveComponent
  dsimp only
  refine Hoare.bind (hoare_forIn_idx (fun R w => ∃ V, ST info.id.idx R V 0 [] w) ?_ info.memberOf) fun _ => ?_
  · intro ai R
    refine Hoare.get_bind fun w hw => ?_
    obtain ⟨V, hA, hV⟩ := hw
    obtain ⟨acs, hacs, hr⟩ := (hV.rem ai).1 List.mem_cons_self
    obtain ⟨arch, harch, hcomps⟩ := hA.to_get hacs
    split
    · next hnone =>
      rw [Slab.remove_eq_none_iff, harch] at hnone
      cases hnone
    · next arch' archs1 hrem =>
      have : arch' = arch := by
        have := (Slab.remove_eq_some_iff _ _ _).1 ⟨archs1, hrem⟩
        rw [harch] at this
        exact (Option.some.inj this).symm
      subst this
      subst hcomps
      -- abbreviations
      let V1 : Nat → Option (List Nat) := fun j => if j = ai then none else V j
      -- `set { w with archs }`
      refine Hoare.bind (R := fun _ => ST info.id.idx R V1 ai arch'.comps)
        ⟨fun w0 _ => ⟨hA.remove hrem, hV.remove hacs⟩⟩ fun _ => ?_
      -- fetcher caches
      refine Hoare.bind_inv (hoare_keeps_np ?_ (by nopanic)) fun _ => ?_
      · keeps
        exact handlerRemoveArch_st (fun A C => SlabView V1 A ∧ VI info.id.idx R V1 C ai arch'.comps) _ _
      -- `member_of` of the other components
      refine Hoare.bind (hoare_forIn_idx (fun Rc => ST info.id.idx R V1 ai Rc) ?_ arch'.comps) fun _ => ?_
      · intro c Rc
        split
        · next hc =>
          refine Hoare.get_bind fun w1 hw1 => ?_
          split
          · exact Hoare.bind (R := fun _ _ => False) (Hoare.ubErr fun _ _ => rfl) fun _ => ⟨fun _ h => h.elim⟩
          · next ck ci hg =>
            refine Hoare.bind (R := fun _ => ST info.id.idx R V1 ai Rc) ⟨fun w0 _ => ⟨hw1.1, hw1.2.step hg⟩⟩
              fun _ => Hoare.pure fun _ h => ⟨rfl, h⟩
        · next hc =>
          have hc' : c = info.id.idx := by simpa using hc
          refine Hoare.pure fun w1 hw1 => ⟨rfl, hw1.1, hw1.2.skip fun k ci hk => ?_⟩
          rw [hc']
          exact hw1.2.noR k ci hk
      -- entities of the removed archetype
      refine Hoare.bind_inv (hoare_keeps_np ?_ (by nopanic)) fun _ => ?_
      · keeps
        refine Keeps.modify fun w1 hw1 => ?_
        split <;> exact hw1
      -- cached edges of the neighbours
      refine Hoare.bind_inv (hoare_keeps_np ?_ (by nopanic)) fun _ => ?_
      · keeps
        next hw1 _ oa hoa =>
        refine setArch_st ?_ ⟨(hw1.1.keys _ _ hoa).1, edgeRemove_sorted (hw1.1.keys _ _ hoa).2 _⟩
        show V1 oa.index = some oa.comps
        rw [hw1.1.idx _ _ hoa]
        exact hw1.1.of_get hoa
      refine Hoare.bind_inv (hoare_keeps_np ?_ (by nopanic)) fun _ => ?_
      · keeps
        next hw1 _ oa hoa =>
        refine setArch_st ?_ ⟨edgeRemove_sorted (hw1.1.keys _ _ hoa).1 _, (hw1.1.keys _ _ hoa).2⟩
        show V1 oa.index = some oa.comps
        rw [hw1.1.idx _ _ hoa]
        exact hw1.1.of_get hoa
      -- destructors
      refine Hoare.bind_inv (hoare_keeps_np ?_ ?_) fun _ => ?_
      · keeps
        all_goals exact dropCell_st (fun A C => SlabView V1 A ∧ VI info.id.idx R V1 C ai []) _ _
      · nopanic
        all_goals exact noPanic_dropCell _ _
      exact Hoare.pure fun w1 hw1 => ⟨rfl, V1, hw1.1, hw1.2.change_ai 0⟩
  · -- the sweep
    refine ⟨fun w hw => ?_⟩
    obtain ⟨V, hA, hV⟩ := hw
    have := run_sweepM info.id.idx w
    unfold sweepM at this
    rw [this]
    refine ⟨V, ⟨sweepEdges_wf hA.wf _, sweepEdges_indexOK hA.idx _, fun i a hia => ?_, fun j => ?_⟩, hV⟩
    · rw [show ({ w with archs := sweepEdges w.archs info.id.idx } : World).archs = sweepEdges w.archs info.id.idx
        from rfl, sweepEdges_get hA.idx] at hia
      cases hb : w.archs.get i with
      | none => rw [hb] at hia; cases hia
      | some b =>
        rw [hb] at hia
        cases hia
        exact ⟨edgeRemove_sorted (hA.keys i b hb).1 _, (hA.keys i b hb).2⟩
    · rw [show ({ w with archs := sweepEdges w.archs info.id.idx } : World).archs = sweepEdges w.archs info.id.idx
        from rfl, sweepEdges_get hA.idx, ← hA.view]
      cases w.archs.get j <;> rfl

/-- the state `Step.dropComp` leaves satisfies the loop invariant -/
theorem dropComp_init {w : World} {k : Key} {info : CompInfo} {comps' : SlotMap CompInfo} (hw : WInvMid w)
    (hrem : w.comps.remove k = some (info, comps')) (hid : info.id.idx = k.idx) :
    ST info.id.idx info.memberOf (fun j => (w.archs.get j).map (·.comps)) 0 [] (Step.dropComp w k comps') := by
  have hlive : w.comps.get k = some info := SlotMap.get_of_remove hrem
  have hget := SlotMap.get_remove hw.1.compsWF hrem
  have wf' := hw.1.compsWF.remove hrem
  obtain ⟨hG, ⟨a0, h0, h0c⟩, hcl, hkeys, hmem⟩ := hw.graph
  have hold : ∀ {k' ci}, comps'.get k' = some ci → k' ≠ k ∧ w.comps.get k' = some ci := by
    intro k' ci hk'
    rw [hget] at hk'
    split at hk'
    · cases hk'
    · next e => exact ⟨e, hk'⟩
  have hview : ∀ {j : Nat} {cs : List Nat}, (w.archs.get j).map (·.comps) = some cs →
      ∃ a, w.archs.get j = some a ∧ a.comps = cs := by
    intro j cs hj
    cases ha : w.archs.get j with
    | none => rw [ha] at hj; cases hj
    | some a => rw [ha] at hj; exact ⟨a, rfl, Option.some.inj hj⟩
  refine ⟨⟨hG.wf, hG.idx, hkeys, fun _ => rfl⟩, ?_⟩
  show VI info.id.idx info.memberOf _ comps' 0 []
  rw [hid]
  refine ⟨fun i cs hi => ?_, (hmem k info hlive).1, fun j => ((hmem k info hlive).2 j).trans ⟨?_, ?_⟩, ?_,
    fun i cs hi c hc hne => ?_, fun k' ci hk' => ?_, fun k' ci hk' hi => ?_, fun hne => absurd rfl hne,
    List.nodup_nil⟩
  · obtain ⟨a, ha, rfl⟩ := hview hi
    exact hG.sorted i a ha
  · rintro ⟨a, ha, hc⟩
    exact ⟨a.comps, by rw [ha]; rfl, hc⟩
  · rintro ⟨cs, hcs, hc⟩
    obtain ⟨a, ha, rfl⟩ := hview hcs
    exact ⟨a, ha, hc⟩
  · rw [h0, ← h0c]; rfl
  · obtain ⟨a, ha, rfl⟩ := hview hi
    obtain ⟨⟨k0, v⟩, hg⟩ := Option.isSome_iff_exists.1 (hcl i a ha c hc)
    obtain ⟨hg0, hi0⟩ := SlotMap.getByIndex_get hg
    have hk0 : k0 ≠ k := fun e => hne (by rw [← hi0, e])
    have : comps'.get k0 = some v := by rw [hget, if_neg hk0]; exact hg0
    rw [← hi0, SlotMap.get_getByIndex wf' this]; rfl
  · obtain ⟨-, hk''⟩ := hold hk'
    obtain ⟨g1, g2⟩ := hmem k' ci hk''
    refine ⟨g1, fun i => (g2 i).trans ⟨?_, ?_⟩⟩
    · rintro ⟨a, ha, hc⟩
      exact .inl ⟨a.comps, by rw [ha]; rfl, hc⟩
    · rintro (⟨cs, hcs, hc⟩ | ⟨-, hm⟩)
      · obtain ⟨a, ha, rfl⟩ := hview hcs
        exact ⟨a, ha, hc⟩
      · cases hm
  · obtain ⟨hne, hk''⟩ := hold hk'
    exact hne (key_eq_of_idx hk'' hlive hi)

theorem resRefresh_graph : Keeps GraphInv resRefresh := by
  unfold resRefresh dbgAssert
  keeps

/-- **`dropComp` keeps G1**, for a registry entry that knows its own index.  (`WInv` does not say
    `w.comps.get k = some ci → ci.id = k`, while `archsRemoveComponent info` removes `info.id.idx`.) -/
theorem dropComp_keeps_graph_partial :
    ∀ (w : World) (k : Key) (info : CompInfo) (comps' : SlotMap CompInfo), WInvMid w → CompUnused w k info →
      w.comps.remove k = some (info, comps') → info.id.idx = k.idx →
      Hoare (fun w1 => w1 = Step.dropComp w k comps') (dropCompTail info) (fun _ w' => GraphInv w')
        (PanicOnly GraphInv) := by
  intro w k info comps' hw _ hrem hid
  have hlive : w.comps.get k = some info := SlotMap.get_of_remove hrem
  have h1 : Hoare (fun w1 => w1 = Step.dropComp w k comps') (archsRemoveComponent info) (fun _ w' => GraphInv w')
      NP := by
    refine ⟨fun w1 hw1 => ?_⟩
    subst hw1
    have a := (archsRemoveComponent_st info).run _ ⟨_, dropComp_init hw hrem hid⟩
    generalize hr : (archsRemoveComponent info).run.run (Step.dropComp w k comps') = res at a
    obtain ⟨(e|u), w2⟩ := res
    · exact a
    · have hM : ∀ j x, (Step.dropComp w k comps').archs.get j = some x →
          (info.id.idx ∈ x.comps ↔ j ∈ info.memberOf) := by
        intro j x hj
        rw [hid, (hw.graph.members k info hlive).2 j]
        exact ⟨fun hc => ⟨x, hj, hc⟩, fun ⟨x', hj', hc⟩ => by
          rw [show w.archs.get j = some x from hj] at hj'; cases hj'; exact hc⟩
      have g := (archsRemoveComponent_keeps_graph info (A := (Step.dropComp w k comps').archs) hw.graph.graph hM).run
        _ rfl () w2 hr
      obtain ⟨V', hA', hV'⟩ := a
      exact (hV'.gi0 hA').graphInv' g.graph
  unfold dropCompTail
  refine Hoare.bind (Hoare.post h1 (fun _ _ h => h) fun e _ h hp => ?_) fun _ =>
    Hoare.of_keeps_panicOnly resRefresh_graph
  rw [show e.isPanic = false from h] at hp
  cases hp

/-- **`dropCompTail` never panics**: `member_of` of the removed component lists live archetypes only (`members`), so
    every `archs.remove` of `archsRemoveComponent` succeeds ("internal:slab invalid key" is unreachable); `resRefresh` only
    raises a `debug_assert` -/
theorem dropComp_noPanic :
    ∀ (w : World) (k : Key) (info : CompInfo) (comps' : SlotMap CompInfo) (e : Err) (w' : World), WInvMid w →
      CompUnused w k info → info.id = k → w.comps.remove k = some (info, comps') →
      (dropCompTail info).run.run (Step.dropComp w k comps') = (.error e, w') → e.isPanic = false := by
  intro w k info comps' e w' hw _ hid hrem hr
  have h : Hoare (fun w1 => w1 = Step.dropComp w k comps') (dropCompTail info) (fun _ _ => True) NP := by
    unfold dropCompTail
    refine Hoare.bind (R := fun _ _ => True) ?_ fun _ => ?_
    · exact Hoare.post (Hoare.pre (archsRemoveComponent_st info)
        fun w1 hw1 => ⟨_, hw1 ▸ dropComp_init hw hrem (by rw [hid])⟩) (fun _ _ _ => trivial) (fun _ _ h => h)
    · have : NoPanic resRefresh := by
        unfold resRefresh
        nopanic
      exact this
  exact h.err rfl hr

end InvV1
end Evenio
