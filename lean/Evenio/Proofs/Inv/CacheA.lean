import Evenio.Proofs.Inv.Store
import Evenio.Proofs.Inv.Glue
/-! # G4 — the fetcher caches

`CacheGroup w = C10.CachesOK w.archs.entries.length w.handlers w.archs ∧ "no cache key for a dead archetype index"`.
`C10.CacheInv` does not contain the second conjunct (`LiveH` below); `CacheInvL` adds it, and the end-to-end theorems of
Props/C10.lean are re-run for `CacheInvL` (`removeEntity_keeps_cachesL`, `moveEntity_keeps_cachesL`,
`archSpawn_keeps_cachesL`). -/
namespace Evenio
namespace InvV4
open C10 Graph

/-! ### `LiveH`: no cache key for a dead archetype index -/

/-- no cache key for a dead archetype index -/
def LiveH (H : SlotMap HInfo) (A : Slab Arch) : Prop :=
  ∀ k h, H.get k = some h → ∀ p ∈ h.params, p.hasQ = true → ∀ i ∈ p.cache.keys, (A.get i).isSome = true

theorem isSome_get_set (A : Slab Arch) (i j : Nat) (x : Arch) : ((A.set i x).get j).isSome = (A.get j).isSome := by
  rw [Slab.get_set]
  split
  · next h => subst h; cases A.get j <;> rfl
  · rfl

theorem LiveH.set {H : SlotMap HInfo} {A : Slab Arch} (h : LiveH H A) (i : Nat) (x : Arch) : LiveH H (A.set i x) :=
  fun k hi hk p hp hq j hj => by rw [isSome_get_set]; exact h k hi hk p hp hq j hj

/-- the slab may change as long as live indices stay live -/
theorem LiveH.mono_archs {H : SlotMap HInfo} {A A' : Slab Arch} (h : LiveH H A)
    (hA : ∀ i, (A.get i).isSome = true → (A'.get i).isSome = true) : LiveH H A' :=
  fun k hi hk p hp hq j hj => hA j (h k hi hk p hp hq j hj)

theorem LiveH.mapped_remove {N : Nat} {H H' : SlotMap HInfo} {A : Slab Arch} {a : Arch} {l : List Key}
    (hC : CachesOK N H A) (hm : HandlersMapped (fun p => p.removeArch a) l H H') (h : LiveH H A) : LiveH H' A := by
  intro k h' hk p' hp' hq' i hi
  by_cases hkl : k ∈ l
  · obtain ⟨h0, hh0, hh0'⟩ := hm.hit k hkl
    rw [hk] at hh0'; cases hh0'
    obtain ⟨p, hp, rfl⟩ := List.mem_map.1 hp'
    rw [removeArch_hasQ] at hq'
    obtain ⟨hw, -⟩ := hC.wf k h0 hh0 p hp
    refine h k h0 hh0 p hp hq' i ?_
    rcases removeArch_cache_cases p a with e | e
    · rw [e] at hi; exact hi
    · rw [e] at hi; exact SparseMap.mem_keys_remove hw _ _ hi
  · rw [hm.miss k hkl] at hk
    exact h k h' hk p' hp' hq' i hi

theorem LiveH.mapped_refresh {H H' : SlotMap HInfo} {A : Slab Arch} {a : Arch} {l : List Key}
    (ha : (A.get a.index).isSome = true) (hm : HandlersMapped (fun p => p.refreshArch a) l H H') (h : LiveH H A) :
    LiveH H' A := by
  intro k h' hk p' hp' hq' i hi
  by_cases hkl : k ∈ l
  · obtain ⟨h0, hh0, hh0'⟩ := hm.hit k hkl
    rw [hk] at hh0'; cases hh0'
    obtain ⟨p, hp, rfl⟩ := List.mem_map.1 hp'
    rw [refreshArch_hasQ] at hq'
    rcases refreshArch_cache_cases p a with e | ⟨st, -, e⟩
    · rw [e] at hi; exact h k h0 hh0 p hp hq' i hi
    · rw [e] at hi
      rcases SparseMap.mem_keys_insert _ _ _ _ hi with rfl | hi
      · exact ha
      · exact h k h0 hh0 p hp hq' i hi
  · rw [hm.miss k hkl] at hk
    exact h k h' hk p' hp' hq' i hi

/-! ### the strengthened cache invariant -/

/-- `C10.CacheInv` together with "no cache key for a dead archetype index" -/
structure CacheInvL (N : Nat) (H : SlotMap HInfo) (A : Slab Arch) : Prop where
  inv : CacheInv N H A
  live : LiveH H A

theorem CacheInvL.same' {N : Nat} {H : SlotMap HInfo} {A : Slab Arch} (h : CacheInvL N H A) {i0 : Nat} {e e' : Arch}
    (he : A.get i0 = some e) (hi : e'.index = e.index) (hc : e'.comps = e.comps) (hep : e'.epoch = e.epoch)
    (hr : e'.refresh = e.refresh) (hemp : e'.ids.isEmpty = e.ids.isEmpty) : CacheInvL N H (A.set e'.index e') :=
  ⟨h.inv.same' he hi hc hep hr hemp, h.live.set _ _⟩

theorem CacheInvL.emptied' {N : Nat} {H H' : SlotMap HInfo} {A : Slab Arch} (h : CacheInvL N H A) {i0 : Nat}
    {e e' : Arch} (he : A.get i0 = some e) (hi : e'.index = e.index) (hc : e'.comps = e.comps)
    (hr : e'.refresh = e.refresh) (hemp : e'.ids = [])
    (hH : HandlersMapped (fun p => p.removeArch e') e.refresh H H') : CacheInvL N H' (A.set e'.index e') :=
  ⟨h.inv.emptied' he hi hc hr hemp hH, (h.live.mapped_remove h.inv.caches hH).set _ _⟩

theorem CacheInvL.written' {N : Nat} (hN : N < U32MAX) {H H' : SlotMap HInfo} {A : Slab Arch} (h : CacheInvL N H A)
    {i0 : Nat} {e e' : Arch} (he : A.get i0 = some e) (hi : e'.index = e.index) (hc : e'.comps = e.comps)
    (hr : e'.refresh = e.refresh) (hne : e'.ids ≠ [])
    (hH : HandlersMapped (fun p => p.refreshArch e') e.refresh H H' ∨ (H' = H ∧ e'.epoch = e.epoch ∧ e.ids ≠ [])) :
    CacheInvL N H' (A.set e'.index e') := by
  refine ⟨h.inv.written' hN he hi hc hr hne hH, ?_⟩
  rcases hH with hH | ⟨rfl, -, -⟩
  · have : (A.get e'.index).isSome = true := by rw [hi, h.inv.idx i0 e he, he]; rfl
    exact (h.live.mapped_refresh this hH).set _ _
  · exact h.live.set _ _

/-- the bound on archetype indices may grow -/
theorem CachesOK.mono {N N' : Nat} {H : SlotMap HInfo} {A : Slab Arch} (h : CachesOK N H A) (hN : N ≤ N') :
    CachesOK N' H A :=
  ⟨fun k hi hk p hp => ⟨(h.wf k hi hk p hp).1, fun j hj => Nat.lt_of_lt_of_le ((h.wf k hi hk p hp).2 j hj) hN⟩, h.exact⟩

/-- from the invariant of the world -/
theorem cacheInvL_of_winv {w : World} (h : WInv w) : CacheInvL w.archs.entries.length w.handlers w.archs :=
  ⟨h.cacheInv, h.cache.live⟩

/-- back to the group, in a world whose slab did not shrink -/
theorem CacheInvL.group {N : Nat} {w : World} (h : CacheInvL N w.handlers w.archs) (hN : N ≤ w.archs.entries.length) :
    CacheGroup w :=
  ⟨CachesOK.mono h.inv.caches hN, h.live⟩

/-! ### the end-to-end theorems of Props/C10.lean, re-run for `CacheInvL` -/

/-- **`remove_entity` keeps every fetcher cache exact**: the archetype loses a row (buffers are not reallocated,
    the epoch stays); when it becomes empty, all its refresh listeners drop it from their caches. -/
theorem removeEntity_keeps_cachesL {N : Nat} {H : SlotMap HInfo} {A : Slab Arch} (hI : CacheInvL N H A) (loc : Loc) :
    HoareOk (HA H A) (removeEntity loc) (fun _ w' => CacheInvL N w'.handlers w'.archs) := by
  unfold removeEntity
  refine HoareOk.bind (getArch_ha H A _ _) fun a => ?_
  refine hoare_and_const fun ha => ?_
  refine HoareOk.bind_inv (HoareOk.of_keeps ?_) fun cols => ?_
  · keeps
    · exact dbgAssert_ha H A _ _
    · exact ubErr_ha H A _
    · exact dropCellIdx_ha H A _ _
  dsimp only
  split
  · exact HoareOk.ubErr _
  · next id hid =>
    refine HoareOk.bind (setArch_ha H A _) fun _ => ?_
    dsimp only
    refine HoareOk.get_bind fun w hw => ?_
    split
    · exact HoareOk.ubErr _
    · refine HoareOk.bind_inv (HoareOk.of_keeps ?_) fun _ => ?_
      · keeps
      refine HoareOk.bind_inv (HoareOk.of_keeps (dbgAssert_ha H _ _ _)) fun _ => ?_
      have tail : HoareOk (HA H (A.set a.index
            { a with cols := cols, ids := SparseMap.swapRemove a.ids loc.row }))
          (if (SparseMap.swapRemove a.ids loc.row).isEmpty = true then do
            forIn a.refresh PUnit.unit fun hk _ => do
              handlerRemoveArch hk { a with cols := cols, ids := SparseMap.swapRemove a.ids loc.row }
              pure (ForInStep.yield PUnit.unit)
            pure ()
          else pure ())
          (fun _ w' => CacheInvL N w'.handlers w'.archs) := by
        split
        · next hemp =>
          refine HoareOk.bind (removeLoop_ha H _ _ (hI.inv.covers _ _ ha).nodup) fun _ => ?_
          refine HoareOk.pure fun w' hw' => ?_
          rw [hw'.1]
          exact hI.emptied' (e' := { a with cols := cols, ids := SparseMap.swapRemove a.ids loc.row }) ha rfl rfl rfl
            (List.isEmpty_iff.1 hemp) hw'.2
        · next hemp =>
          refine HoareOk.pure fun w' hw' => ?_
          rw [hw'.1, hw'.2]
          refine hI.same' (e' := { a with cols := cols, ids := SparseMap.swapRemove a.ids loc.row }) ha rfl rfl rfl rfl ?_
          rw [isEmpty_false_of_getElem? hid]
          simpa using hemp
      split
      · exact HoareOk.bind_inv (HoareOk.of_keeps (setLoc_ha H _ _ _ _)) fun _ => tail
      · exact tail

/-- the cache bookkeeping at the end of `move_entity`: the source lost a row (its listeners drop it if it became
    empty), the destination got one (its listeners are refreshed if it was reallocated or became non-empty) -/
theorem move_finalL {N : Nat} (hN : N < U32MAX) {H H1 H2 : SlotMap HInfo} {A : Slab Arch} (hI : CacheInvL N H A)
    {s d : Nat} {sa da sa' da' : Arch} (hsa : A.get s = some sa) (hda : A.get d = some da) (hne : s ≠ d)
    (hsi : sa'.index = sa.index) (hsc : sa'.comps = sa.comps) (hse : sa'.epoch = sa.epoch)
    (hsr : sa'.refresh = sa.refresh)
    (hdi : da'.index = da.index) (hdc : da'.comps = da.comps) (hdr : da'.refresh = da.refresh) (hdne : da'.ids ≠ [])
    (hs : (sa'.ids = [] ∧ HandlersMapped (fun p => p.removeArch sa') sa.refresh H H1) ∨
          (sa'.ids.isEmpty = sa.ids.isEmpty ∧ H1 = H))
    (hd : HandlersMapped (fun p => p.refreshArch da') da.refresh H1 H2 ∨
          (H2 = H1 ∧ da'.epoch = da.epoch ∧ da.ids ≠ [])) :
    CacheInvL N H2 ((A.set sa'.index sa').set da'.index da') := by
  have hsidx : sa'.index = s := hsi.trans (hI.inv.idx s sa hsa)
  have I1 : CacheInvL N H1 (A.set sa'.index sa') := by
    rcases hs with ⟨hemp, hm⟩ | ⟨hemp, rfl⟩
    · exact hI.emptied' hsa hsi hsc hsr hemp hm
    · exact hI.same' hsa hsi hsc hse hsr hemp
  have hda1 : (A.set sa'.index sa').get d = some da := by
    rw [Slab.get_set_other _ (by rw [hsidx]; exact Ne.symm hne)]; exact hda
  exact I1.written' hN hda1 hdi hdc hdr hdne hd

/-- **`move_entity` keeps every fetcher cache exact** — both branches: assigning components in place (no structural
    change) and moving the row to another archetype (the source shrinks, the destination grows, possibly
    reallocating). -/
theorem moveEntity_keeps_cachesL {N : Nat} (hN : N < U32MAX) {H : SlotMap HInfo} {A : Slab Arch} (hI : CacheInvL N H A)
    (src : Loc) (dst : Nat) (new : List (Nat × Cell)) :
    HoareOk (HA H A) (moveEntity src dst new) (fun _ w' => CacheInvL N w'.handlers w'.archs) := by
  unfold moveEntity
  split
  · -- same archetype: cells are assigned in place
    refine HoareOk.bind (getArch_ha H A _ _) fun a => ?_
    refine hoare_and_const fun ha => ?_
    dsimp only
    refine HoareOk.bind (R := fun (b : Arch) w => HA H A w ∧ (b.index = a.index ∧ b.comps = a.comps ∧
        b.epoch = a.epoch ∧ b.refresh = a.refresh ∧ b.ids = a.ids))
      (HoareOk.pre (HoareOk.forIn_list (fun (b : Arch) w => HA H A w ∧ (b.index = a.index ∧ b.comps = a.comps ∧
        b.epoch = a.epoch ∧ b.refresh = a.refresh ∧ b.ids = a.ids)) fun x b => ?_)
        (fun w hw => ⟨hw, rfl, rfl, rfl, rfl, rfl⟩)) fun b => ?_
    · refine hoare_and_const fun hb => ?_
      obtain ⟨c, v⟩ := x
      dsimp only
      split
      · exact HoareOk.bind (R := fun _ _ => False) (HoareOk.ubErr _) fun _ => ⟨fun _ h => h.elim⟩
      · split
        · exact HoareOk.bind (R := fun _ _ => False) (HoareOk.ubErr _) fun _ => ⟨fun _ h => h.elim⟩
        · refine HoareOk.bind_inv (HoareOk.of_keeps (dropCellIdx_ha H A _ _)) fun _ => ?_
          exact HoareOk.pure fun w hw => ⟨hw, hb⟩
    · refine hoare_and_const fun hb => ?_
      obtain ⟨h1, h2, h3, h4, h5⟩ := hb
      refine HoareOk.bind (setArch_ha H A _) fun _ => ?_
      refine HoareOk.pure fun w hw => ?_
      rw [hw.1, hw.2]
      exact hI.same' ha h1 h2 h3 h4 (by rw [h5])
  · -- two archetypes
    next hne =>
    have hne' : src.arch ≠ dst := by simpa using hne
    refine HoareOk.bind (getArch_ha H A _ _) fun sa => ?_
    refine hoare_and_const fun hsa => ?_
    refine HoareOk.bind (getArch_ha H A _ _) fun da => ?_
    refine hoare_and_const fun hda => ?_
    dsimp only
    refine HoareOk.bind_inv (HoareOk.of_keeps (freshEpoch_ha H A)) fun ep => ?_
    generalize hres : da.reserveOne ep = res
    obtain ⟨da1, realloc⟩ := res
    dsimp only
    -- facts about `reserve_one`
    have hd1 : da1.index = da.index ∧ da1.comps = da.comps ∧ da1.ids = da.ids ∧ da1.refresh = da.refresh ∧
        (realloc = false → da1.epoch = da.epoch) := by
      have hrep := reserveOne_reports da ep
      rw [hres] at hrep
      dsimp only at hrep
      cases realloc with
      | false => rw [hrep.1 rfl]; exact ⟨rfl, rfl, rfl, rfl, fun _ => rfl⟩
      | true =>
        have h2 := (reserveOneWith_reports growCap da ep).2
        rw [← reserveOne_eq_with, hres] at h2
        obtain ⟨-, -, h3, -, h5, h6, -, -, h9, -⟩ := h2 rfl
        exact ⟨h6, h5, h3, h9, fun h => by cases h⟩
    obtain ⟨h1i, h1c, h1ids, h1r, h1e⟩ := hd1
    split
    · exact HoareOk.ubErr _
    · next r hr =>
      refine HoareOk.bind_inv (HoareOk.of_keeps ?_) fun _ => ?_
      · keeps
        exact dropCellIdx_ha H A _ _
      split
      · exact HoareOk.throw _
      · next eid heid =>
        refine HoareOk.bind (setArch_ha H A _) fun _ => ?_
        refine HoareOk.bind (setArch_ha H _ _) fun _ => ?_
        refine HoareOk.bind_inv (HoareOk.of_keeps (setLoc_ha H _ _ _ _)) fun _ => ?_
        have hnd1 := (hI.inv.covers _ _ hsa).nodup
        have hnd2 : da1.refresh.Nodup := h1r ▸ (hI.inv.covers _ _ hda).nodup
        have tail := move_tail H
          ((A.set sa.index { sa with cols := r.src, ids := SparseMap.swapRemove sa.ids src.row }).set da1.index
            { da1 with cols := r.dst, ids := da1.ids ++ [eid] })
          { sa with cols := r.src, ids := SparseMap.swapRemove sa.ids src.row }
          { da1 with cols := r.dst, ids := da1.ids ++ [eid] } sa.refresh da1.refresh
          (SparseMap.swapRemove sa.ids src.row).isEmpty (realloc || (da1.ids ++ [eid]).length == 1) hnd1 hnd2
          (by simp)
        have fin : ∀ w' : World,
            (w'.archs = (A.set sa.index { sa with cols := r.src, ids := SparseMap.swapRemove sa.ids src.row }).set
              da1.index { da1 with cols := r.dst, ids := da1.ids ++ [eid] } ∧ ∃ H1,
              (((SparseMap.swapRemove sa.ids src.row).isEmpty = true ∧ HandlersMapped (fun p => p.removeArch
                  { sa with cols := r.src, ids := SparseMap.swapRemove sa.ids src.row }) sa.refresh H H1) ∨
                ((SparseMap.swapRemove sa.ids src.row).isEmpty = false ∧ H1 = H)) ∧
              (((realloc || (da1.ids ++ [eid]).length == 1) = true ∧ HandlersMapped (fun p => p.refreshArch
                  { da1 with cols := r.dst, ids := da1.ids ++ [eid] }) da1.refresh H1 w'.handlers) ∨
                ((realloc || (da1.ids ++ [eid]).length == 1) = false ∧ w'.handlers = H1))) →
            CacheInvL N w'.handlers w'.archs := by
          rintro w' ⟨hA, H1, hs, hd⟩
          rw [hA]
          refine move_finalL hN hI (H1 := H1) (sa' := { sa with cols := r.src, ids := SparseMap.swapRemove sa.ids src.row })
            (da' := { da1 with cols := r.dst, ids := da1.ids ++ [eid] }) hsa hda hne' rfl rfl rfl rfl h1i h1c h1r
            (by simp) ?_ ?_
          · rcases hs with ⟨he, hm⟩ | ⟨he, rfl⟩
            · exact .inl ⟨List.isEmpty_iff.1 he, hm⟩
            · exact .inr ⟨by rw [he, isEmpty_false_of_getElem? heid], rfl⟩
          · rcases hd with ⟨-, hm⟩ | ⟨hc, hh⟩
            · exact .inl (h1r ▸ hm)
            · have hc2 : realloc = false ∧ ¬ (da1.ids ++ [eid]).length = 1 := by
                simpa [Bool.or_eq_false_iff] using hc
              refine .inr ⟨hh, h1e hc2.1, fun h => hc2.2 ?_⟩
              rw [h1ids, h]; rfl
        split
        · exact HoareOk.bind_inv (HoareOk.of_keeps (setLoc_ha H _ _ _ _)) fun _ => HoareOk.post tail fun _ w hw => fin w hw
        · exact HoareOk.post tail fun _ w hw => fin w hw

/-- **`Archetypes::spawn` keeps every fetcher cache exact.**  The empty archetype gets a new row; when this
    reallocates its buffers (the epoch changes — `reserve_one` reports it) or makes it non-empty, all its refresh
    listeners are refreshed; otherwise nobody is, and nobody needs to be.  Afterwards every query parameter of
    every live handler holds, for every live archetype, exactly the non-empty matching ones with their CURRENT
    buffer epoch — so no later read through a cache can hit a stale column pointer (`exact_cache_reads_current`). -/
theorem archSpawn_keeps_cachesL {N : Nat} (hN : N < U32MAX) {H : SlotMap HInfo} {A : Slab Arch} (hI : CacheInvL N H A)
    (id : Key) :
    HoareOk (HA H A) (archSpawn id)
      (fun loc w' => CacheInvL N w'.handlers w'.archs ∧
        ∃ e e', A.get 0 = some e ∧ w'.archs.get 0 = some e' ∧ e'.ids = e.ids ++ [id] ∧
          loc = ⟨0, e.ids.length⟩ ∧ e'.comps = e.comps ∧ e'.cols = e.cols) := by
  unfold archSpawn
  refine HoareOk.bind (getArch_ha H A _ _) fun e => ?_
  refine hoare_and_const fun he => ?_
  refine HoareOk.bind_inv (HoareOk.of_keeps (freshEpoch_ha H A)) fun ep => ?_
  generalize hres : e.reserveOne ep = res
  obtain ⟨e1, realloc⟩ := res
  dsimp only
  have he1 : e1.index = e.index ∧ e1.comps = e.comps ∧ e1.ids = e.ids ∧ e1.cols = e.cols ∧ e1.refresh = e.refresh ∧
      (realloc = false → e1.epoch = e.epoch) := by
    have hrep := reserveOne_reports e ep
    rw [hres] at hrep
    dsimp only at hrep
    cases realloc with
    | false => rw [hrep.1 rfl]; exact ⟨rfl, rfl, rfl, rfl, rfl, fun _ => rfl⟩
    | true =>
      have h2 := (reserveOneWith_reports growCap e ep).2
      rw [← reserveOne_eq_with, hres] at h2
      obtain ⟨-, -, h3, h4, h5, h6, -, -, h9, -⟩ := h2 rfl
      exact ⟨h6, h5, h3, h4, h9, fun h => by cases h⟩
  obtain ⟨h1i, h1c, h1ids, h1cols, h1r, h1e⟩ := he1
  have hei : e.index = 0 := hI.inv.idx 0 e he
  refine HoareOk.bind (setArch_ha H A _) fun _ => ?_
  dsimp only
  have hres' : ∀ A', A' = A.set e1.index { e1 with ids := e1.ids ++ [id] } →
      ∃ e0 e', A.get 0 = some e0 ∧ A'.get 0 = some e' ∧ e'.ids = e0.ids ++ [id] ∧
        (⟨0, e1.ids.length⟩ : Loc) = ⟨0, e0.ids.length⟩ ∧ e'.comps = e0.comps ∧ e'.cols = e0.cols := by
    rintro A' rfl
    have key : ∀ k, k = 0 → (A.set k { e1 with ids := e1.ids ++ [id] }).get 0
        = some { e1 with ids := e1.ids ++ [id] } := by
      intro k hk; subst hk; exact Slab.get_set_same he _
    exact ⟨e, _, he, key e1.index (h1i.trans hei), by rw [h1ids], by rw [h1ids], h1c, h1cols⟩
  split
  · refine HoareOk.bind (refreshLoop_ha H _ { e1 with ids := e1.ids ++ [id] } (by simp)
      (h1r ▸ (hI.inv.covers 0 e he).nodup)) fun _ => ?_
    refine HoareOk.pure fun w hw => ?_
    refine ⟨?_, hres' _ hw.1⟩
    rw [hw.1]
    exact hI.written' hN (e' := { e1 with ids := e1.ids ++ [id] }) he h1i h1c h1r (by simp) (.inl (h1r ▸ hw.2))
  · next hcond =>
    refine HoareOk.pure fun w hw => ?_
    refine ⟨?_, hres' _ hw.2⟩
    rw [hw.1, hw.2]
    have hc2 : (e1.ids ++ [id]).length ≠ 1 ∧ realloc = false := by
      simp only [Bool.or_eq_true, beq_iff_eq, not_or, Bool.not_eq_true] at hcond
      exact hcond
    have hne0 : e.ids ≠ [] := by
      intro h
      rw [h1ids, h] at hc2
      exact hc2.1 rfl
    exact hI.written' hN (e' := { e1 with ids := e1.ids ++ [id] }) he h1i h1c h1r (by simp)
      (.inr ⟨rfl, h1e hc2.2, hne0⟩)

/-! ### section A: the closed primitives -/

/-- the shape of every proof of section A: a triple for `CacheInvL` with the handler table and the slab fixed at the
    start, and the panic exits -/
theorem keepsG_cache_of {α : Type} {m : M α} (hmono : SlabMono m)
    (hok : ∀ (N : Nat) (H : SlotMap HInfo) (A : Slab Arch), N < U32MAX → CacheInvL N H A →
      HoareOk (HA H A) m (fun _ w' => CacheInvL N w'.handlers w'.archs))
    (hpanic : ∀ w c w', WInvMid w → m.run.run w = (.error (.panic c), w') → CacheGroup w') :
    KeepsG CacheGroup m := by
  refine KeepsG.of_run hmono fun w hw r w' hr hs => ?_
  cases r with
  | error e =>
    intro hp
    cases e with
    | panic c => exact hpanic w c w' hw hr
    | ub s => cases hp
    | assert s => cases hp
  | ok u =>
    have hle := hmono.le w
    rw [hr] at hle
    exact ((hok _ _ _ hw.1.small.1 (cacheInvL_of_winv hw.1)).run w ⟨rfl, rfl⟩ u w' hr).group hle.1

theorem noPanic_elim {α : Type} {m : M α} (h : NoPanic m) {w : World} {c : String} {w' : World}
    (hr : m.run.run w = (.error (.panic c), w')) : False := by
  have := h.err trivial hr
  cases this

theorem moveEntity_keeps_cache : Obl.moveEntity_keeps .cache := fun src dst new =>
  keepsG_cache_of (fun _ => moveEntity_sl src dst new)
    (fun _ _ _ hN hI => moveEntity_keeps_cachesL hN hI src dst new)
    (fun _ _ _ hw hr => (moveEntity_panic_winvMid hw hr).cache)

theorem noPanic_removeEntity (loc : Loc) : NoPanic (removeEntity loc) := by
  unfold removeEntity
  nopanic

theorem removeEntity_keeps_cache : Obl.removeEntity_keeps .cache := fun loc =>
  keepsG_cache_of (fun _ => removeEntity_sl loc)
    (fun _ _ _ _ hI => removeEntity_keeps_cachesL hI loc)
    (fun _ _ _ _ hr => (noPanic_elim (noPanic_removeEntity loc) hr).elim)

theorem noPanic_bumpCell (ai row c : Nat) : NoPanic (bumpCell ai row c) := by
  unfold bumpCell
  nopanic

theorem bumpCell_keeps_cachesL {N : Nat} {H : SlotMap HInfo} {A : Slab Arch} (hI : CacheInvL N H A) (ai row c : Nat) :
    HoareOk (HA H A) (bumpCell ai row c) (fun _ w' => CacheInvL N w'.handlers w'.archs) := by
  unfold bumpCell
  refine HoareOk.bind (getArch_ha H A _ _) fun a => ?_
  refine hoare_and_const fun ha => ?_
  split
  · exact HoareOk.ubErr _
  · split
    · exact HoareOk.ubErr _
    · split
      · exact HoareOk.ubErr _
      · refine HoareOk.post (setArch_ha H A _) fun _ w hw => ?_
        rw [hw.1, hw.2]
        exact hI.same' ha rfl rfl rfl rfl rfl

theorem bumpCell_keeps_cache : Obl.bumpCell_keeps .cache := fun ai row c =>
  keepsG_cache_of (fun _ => bumpCell_sl ai row c)
    (fun _ _ _ _ hI => bumpCell_keeps_cachesL hI ai row c)
    (fun _ _ _ _ hr => (noPanic_elim (noPanic_bumpCell ai row c) hr).elim)

theorem reserve_keeps_cache : Obl.reserve_keeps .cache :=
  KeepsG.of_keeps_group (fun _ h => h.cache) (fun _ => reserve_sl) (by unfold reserve; keeps)

example : Obl.moveEntity_keeps .cache := moveEntity_keeps_cache
example : Obl.removeEntity_keeps .cache := removeEntity_keeps_cache
example : Obl.bumpCell_keeps .cache := bumpCell_keeps_cache
example : Obl.reserve_keeps .cache := reserve_keeps_cache

/-! ### `spawnAll`: `archSpawn` along the loop -/

/-- the invariant as a predicate on the world -/
abbrev CI (N : Nat) : World → Prop := fun w => CacheInvL N w.handlers w.archs

theorem hoareOk_of_ha {α : Type} {m : M α} {I : SlotMap HInfo → Slab Arch → Prop} {Q : α → World → Prop}
    (h : ∀ H A, I H A → HoareOk (HA H A) m Q) : HoareOk (fun w => I w.handlers w.archs) m Q :=
  ⟨fun w hw a w' hr => (h _ _ hw).run w ⟨rfl, rfl⟩ a w' hr⟩

/-- a triple for normal returns of a function that never panics -/
theorem hoare_of_ok_noPanic {α : Type} {P R : World → Prop} {m : M α} {Q : α → World → Prop} (h : HoareOk P m Q)
    (hn : NoPanic m) : Hoare P m Q (PanicOnly R) := by
  refine ⟨fun w hw => ?_⟩
  have h1 := h.run w hw
  have h2 := hn.run w trivial
  generalize m.run.run w = res at h1 h2
  obtain ⟨(e|a), w'⟩ := res
  · intro hp; rw [h2] at hp; cases hp
  · exact h1 a w' rfl

theorem keepsG_cache_of_hoare {α : Type} {m : M α} (hmono : SlabMono m)
    (h : ∀ N, N < U32MAX → Hoare (CI N) m (fun _ => CI N) (PanicOnly (CI N))) : KeepsG CacheGroup m := by
  refine KeepsG.of_run hmono fun w hw r w' hr hs => ?_
  have hle := hmono.le w
  rw [hr] at hle
  have := (h _ hw.1.small.1).run w (cacheInvL_of_winv hw.1)
  rw [hr] at this
  cases r with
  | error e => exact fun hp => CacheInvL.group (this hp) hle.1
  | ok u => exact CacheInvL.group this hle.1

theorem noPanic_freshEpoch : NoPanic freshEpoch := noPanic_modifyGet _

theorem noPanic_archSpawn (id : Key) : NoPanic (archSpawn id) := by
  unfold archSpawn
  nopanic
  exact noPanic_freshEpoch
  nopanic

theorem archSpawn_ci {N : Nat} (hN : N < U32MAX) (id : Key) :
    Hoare (CI N) (archSpawn id) (fun _ => CI N) (PanicOnly (CI N)) :=
  hoare_of_ok_noPanic
    (hoareOk_of_ha (I := CacheInvL N) fun _ _ hI => (archSpawn_keeps_cachesL hN hI id).post fun _ _ h => h.1)
    (noPanic_archSpawn id)

theorem spawnAll_ci {N : Nat} (hN : N < U32MAX) : Hoare (CI N) spawnAll (fun _ => CI N) (PanicOnly (CI N)) := by
  unfold spawnAll
  refine Hoare.get_bind fun _ _ => ?_
  refine Hoare.bind_inv (Hoare.forIn_range_inv fun _ _ => ?_) fun _ => ?_
  · refine Hoare.get_bind fun w hw => ?_
    split
    · exact Hoare.throw fun _ h _ => h
    · refine Hoare.bind_inv (Hoare.of_keeps (Keeps.set hw) fun _ _ h _ => h) fun _ => ?_
      refine Hoare.bind_inv (archSpawn_ci hN _) fun _ => ?_
      refine Hoare.bind_inv (Hoare.of_keeps (Keeps.modify fun _ h => h) fun _ _ h _ => h) fun _ => ?_
      exact Hoare.pure fun _ h => h
  · exact Hoare.of_keeps (Keeps.modify fun _ h => h) fun _ _ h _ => h

theorem spawnAll_keeps_cache : Obl.spawnAll_keeps .cache :=
  keepsG_cache_of_hoare (fun _ => spawnAll_sl) fun _ hN => spawnAll_ci hN

example : Obl.spawnAll_keeps .cache := spawnAll_keeps_cache

/-! ### `traverseInsert`, `traverseRemove`: a new archetype is empty -/

/-- writing back an archetype with the same index, component set, epoch and rows -/
theorem cacheGroup_set_same {H : SlotMap HInfo} {A : Slab Arch} (h : CacheGroup' H A) {i0 : Nat} {e e' : Arch}
    (he : A.get i0 = some e) (hi : e'.index = e.index) (hc : e'.comps = e.comps) (hep : e'.epoch = e.epoch)
    (hids : e'.ids = e.ids) : CacheGroup' H (A.set i0 e') := by
  refine ⟨?_, LiveH.set h.live _ _⟩
  rw [Slab.length_set]
  exact caches_after_same h.caches he hi hc hep (by rw [hids])

/-- a new, empty archetype at the vacant key -/
theorem cacheGroup_insert_empty {H : SlotMap HInfo} {A : Slab Arch} (h : CacheGroup' H A) (hwf : Slab.WF A) {b : Arch}
    (hbi : b.index = A.vacantKey) (hbe : b.ids = []) : CacheGroup' H (A.insert b) := by
  have hC := CachesOK.mono h.caches (Slab.length_insert A b)
  refine ⟨⟨hC.wf, fun k hi hk p hp hq i a hia => ?_⟩, fun k hi hk p hp hq i hik => ?_⟩
  · by_cases hiv : i = A.vacantKey
    · subst hiv
      rw [Slab.get_insert_vacantKey hwf] at hia
      cases hia
      unfold CacheExact
      rw [hbe, hbi]
      show p.cache.get A.vacantKey = none
      rw [SparseMap.get_eq_none_iff (h.caches.wf k hi hk p hp).1]
      intro hmem
      have := h.live k hi hk p hp hq _ hmem
      rw [Slab.get_vacantKey_none hwf] at this
      cases this
    · rw [Slab.get_insert_other _ _ hiv] at hia
      exact h.caches.exact k hi hk p hp hq i a hia
  · have hl := h.live k hi hk p hp hq i hik
    have hiv : i ≠ A.vacantKey := by
      rintro rfl
      rw [Slab.get_vacantKey_none hwf] at hl
      cases hl
    rw [Slab.get_insert_other _ _ hiv]
    exact hl

theorem registerHandler_empty_ha (H : SlotMap HInfo) (A : Slab Arch) (b : Arch) (h : HInfo) (hb : b.ids = []) :
    HoareOk (HA H A) (b.registerHandler h) (fun b' w' => HA H A w' ∧ b'.index = b.index ∧ b'.ids = []) := by
  refine ⟨fun w hw b' w' hr => ?_⟩
  rw [registerHandler_run, if_neg (by rw [hb]; simp)] at hr
  cases hr
  exact ⟨hw, registerPure_index b h, (registerPure_ids b h).trans hb⟩

/-- `newArch` does not touch the handlers, and inserts an EMPTY archetype at the vacant key -/
theorem newArch_ha (cs : List Nat) (ei er : Option (Nat × Nat)) (H : SlotMap HInfo) (A : Slab Arch) :
    HoareOk (HA H A) (newArch cs ei er)
      (fun _ w' => w'.handlers = H ∧ ∃ b, w'.archs = A.insert b ∧ b.index = A.vacantKey ∧ b.ids = []) := by
  unfold newArch
  refine HoareOk.get_bind fun w0 hw0 => ?_
  dsimp only
  refine HoareOk.bind (R := fun _ => HA H A) (HoareOk.of_keeps ?_) fun _ => ?_
  · keeps
    exact ubErr_ha H A _
  · split <;> split <;>
    · refine HoareOk.get_bind fun w1 hw1 => ?_
      refine HoareOk.bind (R := fun (b : Arch) w => HA H A w ∧ (b.index = A.vacantKey ∧ b.ids = []))
        (HoareOk.pre (HoareOk.forIn_list (fun (b : Arch) w => HA H A w ∧ (b.index = A.vacantKey ∧ b.ids = []))
          fun hk b => ?_) (fun w hw => ⟨hw, hw0.2 ▸ rfl, rfl⟩)) fun s => ?_
      · refine hoare_and_const fun hb => ?_
        refine HoareOk.get_bind fun w2 hw2 => ?_
        split
        · exact HoareOk.bind (R := fun _ _ => False) (HoareOk.ubErr _) fun _ => ⟨fun _ h => h.elim⟩
        · refine HoareOk.bind (registerHandler_empty_ha H A b _ hb.2) fun a' => ?_
          exact HoareOk.pure fun w hw => ⟨hw.1, hw.2.1.trans hb.1, hw.2.2⟩
      · refine ⟨fun w hw r w' hr => ?_⟩
        rw [run_bind, run_modify] at hr
        cases hr
        exact ⟨hw.1.1, s, by rw [← hw.1.2], hw.2.1, hw.2.2⟩

/-- what the traversal needs of the start state -/
structure TravPre (H : SlotMap HInfo) (A : Slab Arch) : Prop where
  cache : CacheGroup' H A
  wf : Slab.WF A
  idx : IndexOK A

theorem travPre_of_winv {w : World} (h : WInv w) : TravPre w.handlers w.archs := ⟨h.cache, h.slabWF, h.indexOK⟩

/-- the common tail: `newArch`, then the edge from the source -/
theorem trav_new_tail (H : SlotMap HInfo) (A : Slab Arch) (hP : TravPre H A) (cs : List Nat)
    (ei er : Option (Nat × Nat)) (src : Nat) (s : String) (f : Arch → Nat → Arch)
    (hf : ∀ a d, (f a d).index = a.index ∧ (f a d).comps = a.comps ∧ (f a d).epoch = a.epoch ∧ (f a d).ids = a.ids) :
    HoareOk (HA H A) (do
        let d ← newArch cs ei er
        let sa ← getArch src s
        setArch (f sa d)
        pure d)
      (fun _ w' => CacheGroup w') := by
  refine HoareOk.bind (newArch_ha cs ei er H A) fun d => ?_
  refine ⟨fun w hw r w' hr => ?_⟩
  obtain ⟨hH, b, hA, hbi, hbe⟩ := hw
  have hg1 := cacheGroup_insert_empty hP.cache hP.wf hbi hbe
  rw [run_bind, run_getArch'] at hr
  cases hsa : w.archs.get src with
  | none => rw [hsa] at hr; cases hr
  | some sa =>
    rw [hsa] at hr
    dsimp only at hr
    unfold setArch at hr
    rw [run_bind, run_modify] at hr
    cases hr
    show CacheGroup' _ ((w.archs).set (f sa d).index (f sa d))
    have hsi : sa.index = src := by
      by_cases hk : src = A.vacantKey
      · rw [hA, hk, Slab.get_insert_vacantKey hP.wf] at hsa
        cases hsa
        rw [hbi, hk]
      · rw [hA, Slab.get_insert_other _ _ hk] at hsa
        exact hP.idx src sa hsa
    rw [(hf sa d).1, hsi, hH]
    rw [hA] at hsa ⊢
    exact cacheGroup_set_same hg1 hsa (hf sa d).1 (hf sa d).2.1 (hf sa d).2.2.1 (hf sa d).2.2.2

theorem cacheGroup_of_ha {H : SlotMap HInfo} {A : Slab Arch} (h : CacheGroup' H A) {w : World} (hw : HA H A w) :
    CacheGroup w := by
  show CacheGroup' w.handlers w.archs
  rw [hw.1, hw.2]; exact h

theorem traverseInsert_cache (H : SlotMap HInfo) (A : Slab Arch) (hP : TravPre H A) (src c : Nat) :
    HoareOk (HA H A) (traverseInsert src c) (fun _ w' => CacheGroup w') := by
  unfold traverseInsert
  refine HoareOk.get_bind fun w0 hw0 => ?_
  refine HoareOk.bind_inv (HoareOk.of_keeps (dbgAssert_ha H A _ _)) fun _ => ?_
  refine HoareOk.bind (getArch_ha H A src _) fun sa => ?_
  refine hoare_and_const fun hsa => ?_
  split
  · exact HoareOk.pure fun w hw => cacheGroup_of_ha hP.cache hw
  · split
    · exact HoareOk.pure fun w hw => cacheGroup_of_ha hP.cache hw
    · dsimp only
      refine HoareOk.get_bind fun w1 hw1 => ?_
      split
      · refine HoareOk.bind (setArch_ha H A _) fun _ => ?_
        refine HoareOk.pure fun w hw => ?_
        refine cacheGroup_of_ha ?_ hw
        have key : ∀ (k : Nat) (e' : Arch), k = src → e'.index = sa.index → e'.comps = sa.comps → e'.epoch = sa.epoch →
            e'.ids = sa.ids → CacheGroup' H (A.set k e') := by
          intro k e' hk h1 h2 h3 h4; subst hk
          exact cacheGroup_set_same hP.cache hsa h1 h2 h3 h4
        exact key _ _ (hP.idx src sa hsa) rfl rfl rfl rfl
      · exact trav_new_tail H A hP _ _ _ src _ (fun sa d => { sa with insEdges := edgeInsert sa.insEdges c d })
          (fun _ _ => ⟨rfl, rfl, rfl, rfl⟩)

theorem traverseRemove_cache (H : SlotMap HInfo) (A : Slab Arch) (hP : TravPre H A) (src c : Nat) :
    HoareOk (HA H A) (traverseRemove src c) (fun _ w' => CacheGroup w') := by
  unfold traverseRemove
  refine HoareOk.bind (getArch_ha H A src _) fun sa => ?_
  refine hoare_and_const fun hsa => ?_
  split
  · exact HoareOk.pure fun w hw => cacheGroup_of_ha hP.cache hw
  · split
    · exact HoareOk.pure fun w hw => cacheGroup_of_ha hP.cache hw
    · dsimp only
      refine HoareOk.get_bind fun w1 hw1 => ?_
      split
      · refine HoareOk.bind (setArch_ha H A _) fun _ => ?_
        refine HoareOk.pure fun w hw => ?_
        refine cacheGroup_of_ha ?_ hw
        have key : ∀ (k : Nat) (e' : Arch), k = src → e'.index = sa.index → e'.comps = sa.comps → e'.epoch = sa.epoch →
            e'.ids = sa.ids → CacheGroup' H (A.set k e') := by
          intro k e' hk h1 h2 h3 h4; subst hk
          exact cacheGroup_set_same hP.cache hsa h1 h2 h3 h4
        exact key _ _ (hP.idx src sa hsa) rfl rfl rfl rfl
      · exact trav_new_tail H A hP _ _ _ src _ (fun sa d => { sa with remEdges := edgeInsert sa.remEdges c d })
          (fun _ _ => ⟨rfl, rfl, rfl, rfl⟩)

theorem noPanic_registerHandler (a : Arch) (h : HInfo) : NoPanic (a.registerHandler h) := by
  unfold Arch.registerHandler
  nopanic

theorem noPanic_newArch (cs : List Nat) (ei er : Option (Nat × Nat)) : NoPanic (newArch cs ei er) := by
  unfold newArch
  nopanic
  all_goals first | exact noPanic_registerHandler _ _ | skip

theorem noPanic_traverseInsert (src c : Nat) : NoPanic (traverseInsert src c) := by
  unfold traverseInsert
  nopanic
  all_goals first | exact noPanic_newArch _ _ _ | skip

theorem noPanic_traverseRemove (src c : Nat) : NoPanic (traverseRemove src c) := by
  unfold traverseRemove
  nopanic
  all_goals first | exact noPanic_newArch _ _ _ | skip

/-- a triple for `CacheGroup` from the start state, for a function that never panics -/
theorem keepsG_cache_of_noPanic {α : Type} {m : M α} (hmono : SlabMono m) (hn : NoPanic m)
    (hok : ∀ w, WInvMid w → HoareOk (HA w.handlers w.archs) m (fun _ w' => CacheGroup w')) :
    KeepsG CacheGroup m := by
  refine KeepsG.of_run hmono fun w hw r w' hr hs => ?_
  cases r with
  | error e =>
    intro hp
    cases e with
    | panic c => exact (noPanic_elim hn hr).elim
    | ub s => cases hp
    | assert s => cases hp
  | ok u => exact (hok w hw).run w ⟨rfl, rfl⟩ u w' hr

theorem traverseInsert_keeps_cache : Obl.traverseInsert_keeps .cache := fun src c =>
  keepsG_cache_of_noPanic (fun _ => traverseInsert_sl src c) (noPanic_traverseInsert src c)
    fun _ hw => traverseInsert_cache _ _ (travPre_of_winv hw.1) src c

theorem traverseRemove_keeps_cache : Obl.traverseRemove_keeps .cache := fun src c =>
  keepsG_cache_of_noPanic (fun _ => traverseRemove_sl src c) (noPanic_traverseRemove src c)
    fun _ hw => traverseRemove_cache _ _ (travPre_of_winv hw.1) src c

example : Obl.traverseInsert_keeps .cache := traverseInsert_keeps_cache
example : Obl.traverseRemove_keeps .cache := traverseRemove_keeps_cache

end InvV4
end Evenio
