import Evenio.Proofs.CompLedgerStore
/-! # The component ledger, part 3: handlers, one delivery, the event loop

* `IO o` — the ownership flag `inflightOwned` is `o`: a frame for everything a handler can do except `take`;
* `HP s X b` — the ledger predicate while the event carrying the serials `s` is in flight: `CL (s ++ X)` until a handler
  has taken the event (`take` runs its destructor at once and sets the flag), `CL X` from then on.  This is what makes
  "destroyed at most once" go through the unwinding path: the guard of `deliverOne` drops the event in flight only if
  the flag is clear;
* `runAct_hp`, `runHandler_hp`, `handlerLoop_hp`, `effectPhase_cl`, **`deliverOne_cl`** — one delivery takes the
  payload of the event it is handed from `X` into storage or into the ledger, or forgets it (a type without
  destructor): `Hoare (CL (itemSers it ++ X)) (deliverOne it) (fun _ => CL X) (PanicOnly (CL X))`, handlers arbitrary;
* `dropQueued_cl`, **`flush_cl`** — the event loop, unwinding included. -/
namespace Evenio.CompLedger
open SparseMap (swapRemove)

variable {X : List Nat}


/-- the ownership flag of the event in flight is `o` -/
abbrev IO (o : Bool) : World → Prop := fun w => w.inflightOwned = o

syntax "io_leaf" : tactic
syntax "io_step" : tactic
macro_rules | `(tactic| io_leaf) => `(tactic| fail "no leaf lemma")
macro_rules
  | `(tactic| io_step) => `(tactic| first
      | with_reducible exact Keeps.pure _
      | with_reducible exact Keeps.throw _
      | with_reducible exact Keeps.get
      | with_reducible io_leaf
      | ((with_reducible refine Keeps.set ?_); first | assumption | (simp only []; assumption))
      | ((with_reducible refine Keeps.modify (fun _ h => ?_)); first | exact h | (simp only []; exact h))
      | ((with_reducible refine Keeps.modifyGet (fun _ h => ?_)); first | exact h | (simp only []; exact h))
      | (with_reducible refine Keeps.get_bind (fun _ _ => ?_))
      | (with_reducible refine Keeps.bind ?_ (fun _ => ?_))
      | (with_reducible refine Keeps.forIn_list (fun _ _ => ?_))
      | (with_reducible refine Keeps.forIn_range (fun _ _ => ?_))
      | (with_reducible refine Keeps.ite ?_ ?_)
      | dsimp only
      | split)
macro "io_keeps" : tactic => `(tactic| repeat' io_step)

variable {o : Bool}

theorem logT_io (s : String) : Keeps (IO o) (logT s) := by unfold logT; io_keeps
macro_rules | `(tactic| io_leaf) => `(tactic| exact logT_io _)
theorem ubErr_io {α : Type} (s : String) : Keeps (IO o) (ubErr s : M α) := by unfold ubErr; io_keeps
macro_rules | `(tactic| io_leaf) => `(tactic| exact ubErr_io _)
theorem dropCell_io (ty : Nat) (c : Cell) : Keeps (IO o) (dropCell ty c) := by unfold dropCell; io_keeps
macro_rules | `(tactic| io_leaf) => `(tactic| exact dropCell_io _ _)
theorem dropEvent_io (it : QItem) : Keeps (IO o) (dropEvent it) := by unfold dropEvent; io_keeps
macro_rules | `(tactic| io_leaf) => `(tactic| exact dropEvent_io _)
theorem getArch_io (i : Nat) (s : String) : Keeps (IO o) (getArch i s) := by unfold getArch; io_keeps
macro_rules | `(tactic| io_leaf) => `(tactic| exact getArch_io _ _)
theorem setArch_io (a : Arch) : Keeps (IO o) (setArch a) := by unfold setArch; io_keeps
macro_rules | `(tactic| io_leaf) => `(tactic| exact setArch_io _)
theorem reserve_io : Keeps (IO o) reserve := by unfold reserve; io_keeps
macro_rules | `(tactic| io_leaf) => `(tactic| exact reserve_io)
theorem push_io (it : QItem) : Keeps (IO o) (push it) := by unfold push; io_keeps
macro_rules | `(tactic| io_leaf) => `(tactic| exact push_io _)
theorem takeBudget_io : Keeps (IO o) takeBudget := by unfold takeBudget; io_keeps
macro_rules | `(tactic| io_leaf) => `(tactic| exact takeBudget_io)
theorem freshE_io : Keeps (IO o) freshE := by unfold freshE; io_keeps
macro_rules | `(tactic| io_leaf) => `(tactic| exact freshE_io)
theorem freshC_io : Keeps (IO o) freshC := by unfold freshC; io_keeps
macro_rules | `(tactic| io_leaf) => `(tactic| exact freshC_io)
theorem senderPush_io (h : HInfo) (it : QItem) : Keeps (IO o) (senderPush h it) := by unfold senderPush; io_keeps
macro_rules | `(tactic| io_leaf) => `(tactic| exact senderPush_io _ _)
theorem paramRows_io (p : Param) : Keeps (IO o) (paramRows p) := by unfold paramRows; io_keeps
macro_rules | `(tactic| io_leaf) => `(tactic| exact paramRows_io _)
theorem itemAt_io (st : AS) (a : Arch) (row : Nat) : Keeps (IO o) (itemAt st a row) := by unfold itemAt; io_keeps
macro_rules | `(tactic| io_leaf) => `(tactic| exact itemAt_io _ _ _)
theorem paramGet_io (p : Param) (id : Key) : Keeps (IO o) (paramGet p id) := by unfold paramGet; io_keeps
macro_rules | `(tactic| io_leaf) => `(tactic| exact paramGet_io _ _)
theorem bumpCell_io (ai row c : Nat) : Keeps (IO o) (bumpCell ai row c) := by unfold bumpCell; io_keeps
macro_rules | `(tactic| io_leaf) => `(tactic| exact bumpCell_io _ _ _)
theorem getParam_io (h : HInfo) (p : Nat) : Keeps (IO o) (getParam h p) := by unfold getParam; io_keeps
macro_rules | `(tactic| io_leaf) => `(tactic| exact getParam_io _ _)

/-- every scripted action but `take` leaves the ownership flag alone -/
theorem runAct_io (hk : Key) (it : QItem) (loc : Loc) (act : Act) (h : act ≠ .take) :
    Keeps (IO o) (runAct hk it loc act) := by
  unfold runAct
  cases act
  case take => exact absurd rfl h
  all_goals io_keeps

theorem runAct_cl (hk : Key) (it : QItem) (loc : Loc) (act : Act) (h : act ≠ .take) :
    KP (CL X) (runAct hk it loc act) := by
  unfold runAct
  cases act
  case take => exact absurd rfl h
  case ins tg k v =>
    refine Hoare.get_bind fun w _ => ?_
    split
    · dsimp only
      split
      · exact KP.pure _
      · refine Hoare.bind_inv takeBudget_cl fun b => ?_
        split
        · refine Hoare.bind freshC_spec fun s => ?_
          exact Hoare.bind (Hoare.pre (senderPush_cl _ _) fun _ h => h) fun _ => KP.pure _
        · exact KP.pure _
    · exact hoare_ubErr _
  all_goals cl_keeps

/-- the ledger predicate while the event carrying the serials `s` is in flight: until a handler has taken it (and let
    it go at once), the serials are held by the event; `b` bounds the ownership flag from above -/
def HP (s X : List Nat) (b : Bool) (w : World) : Prop :=
  (if w.inflightOwned = true then CL X w else CL (s ++ X) w) ∧ (b = false → w.inflightOwned = false)

theorem HP.weaken {s X : List Nat} {b b' : Bool} {w : World} (h : HP s X b w) (hb : b' = false → b = false) :
    HP s X b' w := ⟨h.1, fun h' => h.2 (hb h')⟩

theorem HP.cl {s X : List Nat} {b : Bool} {w : World} (h : HP s X b w) : CL X w := by
  have := h.1
  split at this
  · exact this
  · exact CLF.drop_left this

theorem KP.liftHP {α : Type} {s X : List Nat} {b : Bool} {m : M α} (h1 : ∀ Y, KP (CL Y) m)
    (h2 : ∀ o, Keeps (IO o) m) : KP (HP s X b) m := by
  refine ⟨fun w hw => ?_⟩
  have r1 := (h1 X).run w
  have r2 := (h1 (s ++ X)).run w
  have r3 := (h2 w.inflightOwned).run w rfl
  obtain ⟨hw1, hw2⟩ := hw
  generalize m.run.run w = res at r1 r2 r3
  obtain ⟨(e|a), w'⟩ := res
  · intro hp
    have r3 : w'.inflightOwned = w.inflightOwned := r3
    refine ⟨?_, fun hb => by rw [r3]; exact hw2 hb⟩
    rw [r3]
    split at hw1
    · rename_i ho; rw [if_pos ho]; exact r1 hw1 hp
    · rename_i ho; rw [if_neg ho]; exact r2 hw1 hp
  · have r3 : w'.inflightOwned = w.inflightOwned := r3
    refine ⟨?_, fun hb => by rw [r3]; exact hw2 hb⟩
    rw [r3]
    split at hw1
    · rename_i ho; rw [if_pos ho]; exact r1 hw1
    · rename_i ho; rw [if_neg ho]; exact r2 hw1

theorem hoare_throw_bind {α β : Type} {P : World → Prop} {Q : β → World → Prop} {E : Err → World → Prop} (e : Err)
    (f : α → M β) (h : ∀ w, P w → E e w) : Hoare P ((throw e : M α) >>= f) Q E :=
  ⟨fun w hw => by rw [run_bind, run_throw]; exact h w hw⟩

/-- a step that neither reads nor writes the ownership flag -/
theorem hp_frame {α : Type} {s X : List Nat} {b : Bool} {m : M α} (h1 : ∀ Y, KP (CL Y) m)
    (h2 : ∀ o, Keeps (IO o) m) : Hoare (HP s X b) m (fun _ => HP s X b) (PanicOnly (HP s X true)) :=
  Hoare.post (KP.liftHP h1 h2) (fun _ _ h => h) (fun _ _ h hp => (h hp).weaken fun h' => nomatch h')

/-- **one scripted action**: `take` destroys the event in flight (once: the ownership flag is set), every other action
    leaves it alone -/
theorem runAct_hp (hk : Key) (it : QItem) (loc : Loc) (act : Act) (b : Bool) :
    Hoare (HP (itemSers it) X b) (runAct hk it loc act) (fun r => HP (itemSers it) X (b || r))
      (PanicOnly (HP (itemSers it) X true)) := by
  by_cases ht : act = .take
  · subst ht
    unfold runAct
    refine Hoare.get_bind_at fun w hw => ?_
    split
    · rename_i h _
      dsimp only
      split
      · rename_i hc
        have ho : w.inflightOwned = false := by
          cases hi : w.inflightOwned with
          | false => rfl
          | true => rw [hi] at hc; simp at hc
        have hcl : CL (itemSers it ++ X) w := by
          have := hw.1
          rw [ho] at this
          exact this
        refine Hoare.bind (R := fun _ w' => CL (itemSers it ++ X) w') ⟨fun w' hw' => ?_⟩ fun _ => ?_
        · subst hw'
          exact (logT_cl _).run _ hcl
        refine Hoare.bind (R := fun _ => CL X) (dropEvent_cl it) fun _ => ?_
        refine Hoare.bind (R := fun _ => HP (itemSers it) X true) ⟨fun w' hw' => ?_⟩ fun _ =>
          Hoare.pure fun _ h => h.weaken fun h' => by simp at h'
        exact ⟨hw', fun h' => nomatch h'⟩
      · exact Hoare.pure fun w' hw' => by subst hw'; exact hw.weaken fun h' => by simpa using h'
    · exact hoare_ubErr _
  · exact Hoare.post (KP.liftHP (fun Y => runAct_cl hk it loc act ht) (fun o => runAct_io hk it loc act ht))
      (fun _ _ h => h.weaken fun h' => by
        cases b with
        | false => rfl
        | true => simp at h')
      (fun _ _ h hp => (h hp).weaken fun h' => nomatch h')

theorem runHandler_hp (hk : Key) (it : QItem) (loc : Loc) :
    Hoare (HP (itemSers it) X false) (runHandler hk it loc) (fun r => HP (itemSers it) X r)
      (PanicOnly (HP (itemSers it) X true)) := by
  have fr : ∀ {α : Type} {m : M α}, (∀ Y, KP (CL Y) m) → (∀ o, Keeps (IO o) m) →
      Hoare (HP (itemSers it) X false) m (fun _ => HP (itemSers it) X false) (PanicOnly (HP (itemSers it) X true)) :=
    fun h1 h2 => hp_frame h1 h2
  unfold runHandler
  refine Hoare.get_bind fun w _ => ?_
  split
  · rename_i h _
    refine Hoare.bind_inv (fr (fun _ => logT_cl _) (fun _ => logT_io _)) fun _ => ?_
    have tail : ∀ {t : M Bool}, t = (do
          let _ ← forIn h.params true fun pm __s =>
            have __do_jp : Unit → M (ForInStep Bool) := fun __r => pure (ForInStep.yield false)
            match pm.kind with
            | PKind.recv =>
              if pm.hasQ = true then
                match pm.cache.get loc.arch with
                | none => do
                  let __r ← ubErr "fetch.rs:get_by_location_mut"
                  __do_jp __r
                | some (fst, ep) => do
                  let a ← getArch loc.arch "recv:arch"
                  if (ep != a.epoch) = true then do
                      let __r ← ubErr "fetch.rs:stale-column-pointer"
                      __do_jp __r
                    else __do_jp ()
              else __do_jp ()
            | PKind.single => do
              let rows ← paramRows pm
              if (rows.length != 1) = true then do
                  let __r ← throw (Err.panic "single")
                  __do_jp __r
                else __do_jp ()
            | PKind.trySingle => do
              let _ ← paramRows pm
              __do_jp ()
            | x => __do_jp ()
          let __s ← forIn h.body (false, false, ([] : List Nat)) fun act __s =>
            match act with
            | Act.recv =>
              if (!__s.2.1) = true then do
                let r ← runAct hk it loc act
                pure (ForInStep.yield (__s.1 || r, true, __s.2.2))
              else pure (ForInStep.yield (__s.1, __s.2.1, __s.2.2))
            | Act.single p =>
              if __s.2.2.contains p = true then
                match h.params[p]? with
                | some pm =>
                  if (pm.kind == PKind.single || pm.kind == PKind.trySingle) = true then do
                    logT (toString " single" ++ toString p ++ toString " gone")
                    pure (ForInStep.yield (__s.1, __s.2.1, __s.2.2))
                  else pure (ForInStep.yield (__s.1, __s.2.1, __s.2.2))
                | none => do
                  throw (Err.panic "script:bad-param")
                  pure (ForInStep.yield (__s.1, __s.2.1, __s.2.2))
              else do
                let r ← runAct hk it loc act
                pure (ForInStep.yield (__s.1 || r, __s.2.1, p :: __s.2.2))
            | x => do
              let r ← runAct hk it loc act
              pure (ForInStep.yield (__s.1 || r, __s.2.1, __s.2.2))
          pure __s.1 : M Bool) →
        Hoare (HP (itemSers it) X false) t (fun r => HP (itemSers it) X r) (PanicOnly (HP (itemSers it) X true)) := by
      intro t ht
      subst ht
      refine Hoare.bind (R := fun _ => HP (itemSers it) X false) ?_ fun _ => ?_
      · refine Hoare.forIn_list_inv fun pm first => ?_
        repeat' first
          | exact Hoare.pure fun _ h => h
          | exact hoare_ubErr_bind _ _
          | exact hoare_throw_bind _ _ fun _ h _ => h.weaken (fun h' => nomatch h')
          | refine Hoare.bind_inv (fr (fun _ => getArch_cl _ _) (fun _ => getArch_io _ _)) fun _ => ?_
          | refine Hoare.bind_inv (fr (fun _ => paramRows_cl _) (fun _ => paramRows_io _)) fun _ => ?_
          | dsimp only
          | split
      · refine Hoare.bind (R := fun (st : Bool × Bool × List Nat) w => HP (itemSers it) X st.1 w) ?_
          fun st => Hoare.pure fun _ h => h
        refine Hoare.pre (Hoare.forIn_list (fun (st : Bool × Bool × List Nat) w => HP (itemSers it) X st.1 w)
          fun act st => ?_) (fun _ h => h)
        repeat' first
          | exact Hoare.pure fun _ h => h
          | exact Hoare.bind (runAct_hp hk it loc _ _) fun r => Hoare.pure fun _ h => h
          | exact hoare_throw_bind _ _ fun _ h _ => h.weaken (fun h' => nomatch h')
          | refine Hoare.bind (hp_frame (fun _ => logT_cl _) (fun _ => logT_io _)) fun _ => ?_
          | dsimp only
          | split
    split
    · dsimp only
      split
      · exact hoare_ubErr_bind _ _
      · exact Hoare.bind_inv (fr (fun _ => logT_cl _) (fun _ => logT_io _)) fun _ => tail rfl
    · exact tail rfl
  · exact hoare_ubErr _



/-- **the handler loop** of one delivery, unwinding guard included -/
theorem handlerLoop_hp (it : QItem) (info : EvInfo) (loc : Loc) (hs : List Key) :
    Hoare (HP (itemSers it) X false) (handlerLoop it info loc hs) (fun owned => HP (itemSers it) X owned)
      (PanicOnly (CL X)) := by
  unfold handlerLoop
  refine Hoare.pre (Hoare.forIn_list (fun (owned : Bool) w => HP (itemSers it) X owned w) fun hk owned => ?_)
    (fun _ h => h)
  split
  · rename_i ho
    have ho' : owned = false := by simpa using ho
    subst ho'
    refine Hoare.bind (R := fun r w => HP (itemSers it) X r w) ?_ fun r => Hoare.pure fun _ h => h
    refine Hoare.tryCatch (runHandler_hp hk it loc) fun e => ?_
    cases e with
    | panic s =>
      refine Hoare.pre (P' := HP (itemSers it) X true) ?_ (fun w h => h rfl)
      dsimp only
      refine Hoare.get_bind_at fun w hw => ?_
      split
      · rename_i hc
        have ho : w.inflightOwned = false := by
          cases hi : w.inflightOwned with
          | false => rfl
          | true => rw [hi] at hc; simp at hc
        have hcl : CL (itemSers it ++ X) w := by
          have := hw.1
          rw [ho] at this
          exact this
        exact Hoare.bind (R := fun _ => CL X) (Hoare.pre (dropEvent_cl it) fun w' hw' => by subst hw'; exact hcl)
          fun _ => Hoare.throw (E := PanicOnly (CL X)) fun _ h _ => h
      · exact Hoare.throw (E := PanicOnly (CL X)) fun w' hw' _ => by subst hw'; exact hw.cl
    | ub s =>
      refine ⟨fun w _ => ?_⟩
      simp only [run_throw]
      exact fun hp => nomatch hp
    | assert s =>
      refine ⟨fun w _ => ?_⟩
      simp only [run_throw]
      exact fun hp => nomatch hp
  · exact Hoare.pure fun _ h => h


theorem fixedDespawn_like_cl (loc : Loc) : KP (CL X) (do spawnAll; removeEntity loc; resRefresh) := by cl_keeps

/-- **the built-in effect**: an `Insert` stores the payload (or overwrites: the old value is destroyed), a user event is
    destroyed, everything else carries no component value -/
theorem effectPhase_cl (it : QItem) (info : EvInfo) (loc : Loc) :
    LK (CL (itemSers it ++ X)) (effectPhase it info loc) (CL X) := by
  unfold effectPhase
  split
  · split
    · exact dropEvent_cl it
    · exact Hoare.pure fun _ h => CLF.drop_left h
  · refine Hoare.bind (R := fun _ => CL (itemSers it ++ X))
      (Hoare.post (dbgAssert_cl _ _) (fun _ _ h => h) (fun _ _ h hp => CLF.drop_left (h hp))) fun _ => ?_
    refine Hoare.bind (R := fun _ => CL (itemSers it ++ X))
      (Hoare.post (traverseInsert_cl _ _) (fun _ _ h => h) (fun _ _ h hp => CLF.drop_left (h hp))) fun dst => ?_
    exact Hoare.pre (moveEntity_cl loc dst [(_, it.pay.cell)]) fun _ h => h
  · refine Hoare.pre (P' := CL X) ?_ fun _ h => CLF.drop_left h
    cl_keeps
  · exact Hoare.pre (P' := CL X) spawnAll_cl fun _ h => CLF.drop_left h
  · refine Hoare.pre (P' := CL X) ?_ fun _ h => CLF.drop_left h
    cl_keeps

theorem lookupPhase_cl (it : QItem) (w : World) : KP (CL X) (lookupPhase it w) := by unfold lookupPhase; cl_keeps

/-- **one delivery**: the payload of the event leaves `X` — into storage, into the ledger, or (a type without
    destructor) into oblivion — whatever the handlers do and however the delivery ends -/
theorem deliverOne_cl (it : QItem) : LK (CL (itemSers it ++ X)) (deliverOne it) (CL X) := by
  rw [deliverOne_phases]
  refine Hoare.get_bind fun w _ => ?_
  refine Hoare.bind (R := fun _ => CL (itemSers it ++ X))
    (Hoare.post (lookupPhase_cl it w) (fun _ _ h => h) (fun _ _ h hp => CLF.drop_left (h hp))) fun r => ?_
  obtain ⟨info, hs, loc⟩ := r
  dsimp only
  split
  · split
    · exact dropEvent_cl it
    · exact Hoare.pure fun _ h => CLF.drop_left h
  · rename_i hs
    refine Hoare.bind (R := fun _ => HP (itemSers it) X false) ⟨fun w h => ⟨h, fun _ => rfl⟩⟩ fun _ => ?_
    refine Hoare.bind (handlerLoop_hp it info loc hs) fun owned => ?_
    refine Hoare.bind (R := fun _ => HP (itemSers it) X owned) ⟨fun w h => ?_⟩ fun _ => ?_
    · refine ⟨?_, h.2⟩
      have := h.1
      show if w.inflightOwned = true then CLF w.archs w.queue.reverse w.cdrops w.nextCSerial X
        else CLF w.archs w.queue.reverse w.cdrops w.nextCSerial (itemSers it ++ X)
      split
      · rename_i ho; rw [if_pos ho] at this; exact this.queue_reverse
      · rename_i ho; rw [if_neg ho] at this; exact this.queue_reverse
    · split
      · exact Hoare.pure fun _ h => h.cl
      · rename_i ho
        have ho' : owned = false := by simpa using ho
        subst ho'
        refine Hoare.pre (effectPhase_cl it info loc) fun w h => ?_
        have := h.1
        rw [h.2 rfl] at this
        exact this


theorem CLF.queue_prepend {A Q D n X} (R : List QItem) (h : CLF A Q D n (queuedSers R ++ X)) :
    CLF A (R ++ Q) D n X :=
  h.mono_sers (fun s => by
    unfold serCount
    rw [queuedSers_append]
    simp only [List.count_append]
    omega) (Nat.le_refl _)

theorem CLF.queue_pop {A D n X} (R : List QItem) (it : QItem) (h : CLF A (R ++ [it]) D n X) :
    CLF A [] D n (itemSers it ++ (queuedSers R ++ X)) :=
  h.mono_sers (fun s => by
    unfold serCount
    rw [queuedSers_append, queuedSers_cons]
    simp only [List.count_append, queuedSers_nil, List.count_nil]
    omega) (Nat.le_refl _)

/-- the whole queue is set aside -/
theorem CLF.queue_all {A Q D n X} (h : CLF A Q D n X) : CLF A [] D n (queuedSers Q ++ X) :=
  h.mono_sers (fun s => by
    unfold serCount
    simp only [List.count_append, queuedSers_nil, List.count_nil]
    omega) (Nat.le_refl _)

/-- `dropEvent` as a function on ledgers -/
theorem CLF.dropEventW {A Q n} {Y : List Nat} (it : QItem) (w : World)
    (h : CLF A Q w.cdrops n (itemSers it ++ Y)) : CLF A Q (dropEventW it w).cdrops n Y := by
  unfold Evenio.dropEventW
  split
  · exact CLF.drop_left h
  · exact CLF.drop_left h
  · unfold dropCellW
    split
    · exact CLF.dropped _ _ h
    · exact CLF.forget _ h
  · exact CLF.drop_left h

theorem dropEventW_frame (it : QItem) (w : World) :
    (dropEventW it w).archs = w.archs ∧ (dropEventW it w).queue = w.queue ∧
      (dropEventW it w).nextCSerial = w.nextCSerial := by
  unfold dropEventW
  split
  · exact ⟨rfl, rfl, rfl⟩
  · exact ⟨rfl, rfl, rfl⟩
  · unfold dropCellW; split <;> exact ⟨rfl, rfl, rfl⟩
  · exact ⟨rfl, rfl, rfl⟩

/-- the ledger predicate with the queue's payloads counted in `Y` (while `dropQueued` walks a snapshot of the queue) -/
abbrev CLQ (Y : List Nat) (w : World) : Prop := CLF w.archs [] w.cdrops w.nextCSerial Y

theorem dropEvent_clq {E : Err → World → Prop} {Y : List Nat} (it : QItem) :
    Hoare (CLQ (itemSers it ++ Y)) (dropEvent it) (fun _ => CLQ Y) E := by
  refine ⟨fun w h => ?_⟩
  rw [run_dropEvent]
  obtain ⟨e1, -, e3⟩ := dropEventW_frame it w
  show CLF (dropEventW it w).archs [] (dropEventW it w).cdrops (dropEventW it w).nextCSerial Y
  rw [e1, e3]
  exact CLF.dropEventW it w h

/-- **the unwinding path**: every queued event is dropped, then the queue is cleared -/
theorem dropQueued_cl : KP (CL X) dropQueued := by
  unfold dropQueued
  refine Hoare.get_bind_at fun w hw => ?_
  refine Hoare.bind (R := fun _ => CLQ X) ?_ fun _ => ⟨fun w h => h⟩
  refine Hoare.post (Q := fun _ => CLQ (queuedSers [] ++ X)) (E := PanicOnly (CL X)) ?_ (fun _ _ h => h) (fun _ _ h => h)
  refine Hoare.pre (Hoare.forIn_list_sfx (fun rest (_ : PUnit) w => CLQ (queuedSers rest ++ X) w)
    (fun q rest _ => ?_) w.queue PUnit.unit) (fun w' hw' => by subst hw'; exact CLF.queue_all hw)
  refine Hoare.get_bind fun w1 _ => ?_
  have h1 : ∀ w', CLQ (queuedSers (q :: rest) ++ X) w' → CLQ (itemSers q ++ (queuedSers rest ++ X)) w' := by
    intro w' h
    rw [queuedSers_cons, List.append_assoc] at h
    exact h
  have step : ∀ (c : Bool) (Q : ForInStep PUnit → World → Prop),
      (∀ w, CLQ (queuedSers rest ++ X) w → Q (ForInStep.yield PUnit.unit) w) →
      Hoare (fun w => CLQ (queuedSers (q :: rest) ++ X) w)
      (if c = true then do dropEvent q; pure (ForInStep.yield PUnit.unit) else pure (ForInStep.yield PUnit.unit))
      Q (PanicOnly (CL X)) := by
    intro c Q hQ
    split
    · exact Hoare.bind (Hoare.pre (dropEvent_clq q) h1) fun _ => Hoare.pure hQ
    · exact Hoare.pure fun w' h => hQ w' (CLF.drop_left (h1 w' h))
  split
  · split
    · exact hoare_ubErr_bind _ _
    · exact step _ _ fun _ h => h
  · split
    · exact hoare_ubErr_bind _ _
    · exact step _ _ fun _ h => h


/-- **the event loop**, for every per-event step that disposes of the payload it is handed: the set-aside part of the
    queue travels in `X`; when the step panics, the guard puts it back and drops everything queued -/
theorem flushWith_cl {deliver : QItem → M Unit}
    (hd : ∀ (it : QItem) (Y : List Nat), LK (CL (itemSers it ++ Y)) (deliver it) (CL Y))
    (fuel : Nat) : KP (CL X) (flushWith deliver fuel) := by
  induction fuel with
  | zero => exact KP.throw _
  | succ fuel ih =>
    rw [flushWith]
    refine Hoare.get_bind_at fun w hw => ?_
    split
    · exact ⟨fun w' hw' => by subst hw'; exact hw⟩
    · rename_i it hit
      obtain ⟨rest, hq⟩ : ∃ rest, w.queue = rest ++ [it] := List.getLast?_eq_some_iff.1 hit
      have hrest : w.queue.dropLast = rest := by rw [hq, List.dropLast_concat]
      rw [hrest]
      refine Hoare.bind (R := fun _ => CL (itemSers it ++ (queuedSers rest ++ X))) ⟨fun w' hw' => ?_⟩ fun _ => ?_
      · show CLF w.archs [] w.cdrops w.nextCSerial _
        have : CLF w.archs w.queue w.cdrops w.nextCSerial X := hw
        rw [hq] at this
        exact CLF.queue_pop rest it this
      refine Hoare.bind (R := fun _ => CL (queuedSers rest ++ X)) (Hoare.tryCatch (hd it _) fun e => ?_) fun _ => ?_
      · cases e with
        | panic s =>
          refine Hoare.pre (P' := CL (queuedSers rest ++ X)) ?_ (fun w h => h rfl)
          refine Hoare.bind (R := fun _ => CL X) ⟨fun w' hw' => CLF.queue_prepend rest hw'⟩ fun _ => ?_
          dsimp only
          exact Hoare.bind (R := fun _ => CL X) dropQueued_cl fun _ => Hoare.throw fun _ h _ => h
        | ub s =>
          refine ⟨fun w _ => ?_⟩
          simp only [run_bind, run_modify, run_throw]
          exact fun hp => nomatch hp
        | assert s =>
          refine ⟨fun w _ => ?_⟩
          simp only [run_bind, run_modify, run_throw]
          exact fun hp => nomatch hp
      · refine Hoare.bind (R := fun _ => CL X) ⟨fun w' hw' => CLF.queue_prepend rest hw'⟩ fun _ => ih

/-- **`flush_event_queue`** -/
theorem flush_cl (fuel : Nat) : KP (CL X) (flush fuel) := flushWith_cl (fun it _ => deliverOne_cl it) fuel
macro_rules | `(tactic| cl_leaf) => `(tactic| exact flush_cl _)

end Evenio.CompLedger
