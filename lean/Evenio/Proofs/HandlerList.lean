import Evenio.Model.HandlerList
/-! Proofs about `HandlerList` (handler.rs 448-508): the two cursors always delimit three segments
    `hi | me | lo` of one vector, `insert` appends to the end of the segment of its priority,
    `remove` erases the first occurrence from the segment that holds it, nothing else moves.
    Core Lean only. -/
namespace Evenio
namespace HandlerList
variable {ρ : Type}

/-- cursor invariant: `before ≤ after ≤ len` -/
def Inv (hl : HandlerList ρ) : Prop := hl.before ≤ hl.after ∧ hl.after ≤ hl.entries.length

/-- the `High` segment -/
def hi (hl : HandlerList ρ) : List ρ := hl.entries.take hl.before
/-- the `Medium` segment -/
def me (hl : HandlerList ρ) : List ρ := (hl.entries.drop hl.before).take (hl.after - hl.before)
/-- the `Low` segment -/
def lo (hl : HandlerList ρ) : List ρ := hl.entries.drop hl.after

/-- canonical form: a list with segments `a | b | c` -/
def mk3 (a b c : List ρ) : HandlerList ρ :=
  { before := a.length, after := a.length + b.length, entries := a ++ (b ++ c) }

@[simp] theorem hi_mk3 (a b c : List ρ) : (mk3 a b c).hi = a := by simp [mk3, hi]
@[simp] theorem me_mk3 (a b c : List ρ) : (mk3 a b c).me = b := by simp [mk3, me]
@[simp] theorem lo_mk3 (a b c : List ρ) : (mk3 a b c).lo = c := by
  simp [mk3, lo, ← List.append_assoc]
@[simp] theorem entries_mk3 (a b c : List ρ) : (mk3 a b c).entries = a ++ (b ++ c) := rfl

theorem inv_mk3 (a b c : List ρ) : Inv (mk3 a b c) := by
  simp [Inv, mk3]

theorem inv_empty : Inv ({} : HandlerList ρ) := ⟨Nat.le_refl _, Nat.le_refl _⟩

/-- every list satisfying the cursor invariant is in canonical form -/
theorem eq_mk3 {hl : HandlerList ρ} (h : Inv hl) : hl = mk3 hl.hi hl.me hl.lo := by
  obtain ⟨before, after, entries⟩ := hl
  obtain ⟨h1, h2⟩ := h
  simp only [hi, me, lo, mk3] at *
  have e1 : (List.take before entries).length = before := by simp; omega
  have e2 : (List.take (after - before) (List.drop before entries)).length = after - before := by
    simp; omega
  have e3 : List.drop after entries = List.drop (after - before) (List.drop before entries) := by
    rw [List.drop_drop]; congr 1; omega
  rw [e1, e2, e3, List.take_append_drop, List.take_append_drop]
  congr 1; omega

theorem entries_eq_segments {hl : HandlerList ρ} (h : Inv hl) :
    hl.entries = hl.hi ++ (hl.me ++ hl.lo) := by
  conv => lhs; rw [eq_mk3 h]
  rfl

theorem inv_iff (hl : HandlerList ρ) : Inv hl ↔ ∃ a b c, hl = mk3 a b c :=
  ⟨fun h => ⟨_, _, _, eq_mk3 h⟩, fun ⟨a, b, c, e⟩ => e ▸ inv_mk3 a b c⟩

/-! ### insert -/

theorem insert_mk3_high (a b c : List ρ) (p : ρ) :
    (mk3 a b c).insert p .high = mk3 (a ++ [p]) b c := by
  simp [insert, mk3, insertAt]; omega

theorem insert_mk3_medium (a b c : List ρ) (p : ρ) :
    (mk3 a b c).insert p .medium = mk3 a (b ++ [p]) c := by
  simp [insert, mk3, insertAt, ← List.append_assoc, Nat.add_assoc]
  simp

theorem insert_mk3_low (a b c : List ρ) (p : ρ) :
    (mk3 a b c).insert p .low = mk3 a b (c ++ [p]) := by
  simp [insert, mk3]

theorem insert_mk3 (a b c : List ρ) (p : ρ) (prio : Priority) :
    (mk3 a b c).insert p prio =
      match prio with
      | .high => mk3 (a ++ [p]) b c
      | .medium => mk3 a (b ++ [p]) c
      | .low => mk3 a b (c ++ [p]) := by
  cases prio
  · exact insert_mk3_high a b c p
  · exact insert_mk3_medium a b c p
  · exact insert_mk3_low a b c p

theorem insert_inv {hl : HandlerList ρ} (h : Inv hl) (p : ρ) (prio : Priority) :
    Inv (hl.insert p prio) := by
  rw [eq_mk3 h, insert_mk3]
  cases prio <;> exact inv_mk3 _ _ _

/-- A new handler goes to the END of its priority class and nothing else moves. -/
theorem insert_segments {hl : HandlerList ρ} (h : Inv hl) (p : ρ) (prio : Priority) :
    ((hl.insert p prio).hi, (hl.insert p prio).me, (hl.insert p prio).lo) =
      match prio with
      | .high => (hl.hi ++ [p], hl.me, hl.lo)
      | .medium => (hl.hi, hl.me ++ [p], hl.lo)
      | .low => (hl.hi, hl.me, hl.lo ++ [p]) := by
  generalize hs : hl.hi = a
  generalize hm : hl.me = b
  generalize hl' : hl.lo = c
  have e := eq_mk3 h
  rw [hs, hm, hl'] at e
  subst e
  rw [insert_mk3]
  cases prio <;> simp

theorem mem_insert (hl : HandlerList ρ) (p : ρ) (prio : Priority) (x : ρ) :
    x ∈ (hl.insert p prio).entries ↔ x = p ∨ x ∈ hl.entries := by
  cases prio <;> simp only [insert, insertAt, List.mem_append, List.mem_cons]
  · have := List.take_append_drop hl.before hl.entries
    constructor
    · rintro (h | h | h)
      · exact .inr (List.mem_of_mem_take h)
      · exact .inl h
      · exact .inr (List.mem_of_mem_drop h)
    · rintro (h | h)
      · exact .inr (.inl h)
      · rw [← this, List.mem_append] at h
        cases h <;> simp [*]
  · have := List.take_append_drop hl.after hl.entries
    constructor
    · rintro (h | h | h)
      · exact .inr (List.mem_of_mem_take h)
      · exact .inl h
      · exact .inr (List.mem_of_mem_drop h)
    · rintro (h | h)
      · exact .inr (.inl h)
      · rw [← this, List.mem_append] at h
        cases h <;> simp [*]
  · simp [or_comm]

theorem nodup_insert {hl : HandlerList ρ} (hn : hl.entries.Nodup) {p : ρ} (hp : p ∉ hl.entries)
    (prio : Priority) : (hl.insert p prio).entries.Nodup := by
  cases prio <;> simp only [insert, insertAt]
  · have e := List.take_append_drop hl.before hl.entries
    rw [← e] at hn hp
    simp only [List.nodup_append, List.mem_append, List.nodup_cons, List.mem_cons] at *
    grind
  · have e := List.take_append_drop hl.after hl.entries
    rw [← e] at hn hp
    simp only [List.nodup_append, List.mem_append, List.nodup_cons, List.mem_cons] at *
    grind
  · simp only [List.nodup_append, List.nodup_cons, List.mem_cons] at *
    grind

/-! ### remove -/
section
variable [DecidableEq ρ]

/-- on the vector, `remove` is `List.erase` (erase the first occurrence) -/
theorem remove_entries (hl : HandlerList ρ) (p : ρ) :
    (hl.remove p).entries = hl.entries.erase p := by
  rw [List.erase_eq_eraseIdx]
  unfold remove
  cases List.idxOf? p hl.entries with
  | none => rfl
  | some i =>
    dsimp only
    repeat' split
    all_goals rfl

/-- `remove` of an absent element is the identity -/
theorem remove_of_not_mem {hl : HandlerList ρ} {p : ρ} (h : p ∉ hl.entries) : hl.remove p = hl := by
  unfold remove
  rw [List.idxOf?_eq_none_iff.2 h]

theorem remove_mk3_hi {a : List ρ} (b c : List ρ) {p : ρ} (h : p ∈ a) :
    (mk3 a b c).remove p = mk3 (a.erase p) b c := by
  have hpos : 0 < a.length := List.length_pos_of_mem h
  unfold remove
  have : ∃ i, List.idxOf? p a = some i := by
    cases hh : List.idxOf? p a with
    | none => exact absurd h (List.idxOf?_eq_none_iff.1 hh)
    | some i => exact ⟨i, rfl⟩
  obtain ⟨i, hi⟩ := this
  obtain ⟨hlt, -, -⟩ := List.idxOf?_eq_some_iff.1 hi
  have e : List.idxOf? p (mk3 a b c).entries = some i := by
    simp only [entries_mk3, List.idxOf?, List.findIdx?_append] at hi ⊢
    rw [hi]; rfl
  have ea : a.erase p = a.eraseIdx i := by rw [List.erase_eq_eraseIdx, hi]
  rw [e]
  simp only [mk3, List.eraseIdx_append_of_lt_length hlt, ea, List.length_eraseIdx, hlt, if_true]
  repeat' split
  all_goals first | (exfalso; omega) | (congr 1; omega) | rfl

theorem remove_mk3_me {a b : List ρ} (c : List ρ) {p : ρ} (ha : p ∉ a) (h : p ∈ b) :
    (mk3 a b c).remove p = mk3 a (b.erase p) c := by
  have hpos : 0 < b.length := List.length_pos_of_mem h
  unfold remove
  have : ∃ i, List.idxOf? p b = some i := by
    cases hh : List.idxOf? p b with
    | none => exact absurd h (List.idxOf?_eq_none_iff.1 hh)
    | some i => exact ⟨i, rfl⟩
  obtain ⟨i, hi⟩ := this
  obtain ⟨hlt, -, -⟩ := List.idxOf?_eq_some_iff.1 hi
  have hna := List.idxOf?_eq_none_iff.2 ha
  have e : List.idxOf? p (mk3 a b c).entries = some (i + a.length) := by
    simp only [entries_mk3, List.idxOf?, List.findIdx?_append] at hi hna ⊢
    rw [hi, hna]; rfl
  have eb : b.erase p = b.eraseIdx i := by rw [List.erase_eq_eraseIdx, hi]
  rw [e]
  simp only [mk3]
  rw [List.eraseIdx_append_of_length_le (by omega), Nat.add_sub_cancel,
    List.eraseIdx_append_of_lt_length hlt, eb, List.length_eraseIdx, if_pos hlt]
  have h1 : i + a.length < a.length + b.length := by omega
  have h2 : ¬ i + a.length < a.length := by omega
  simp [h1, h2]; omega

theorem remove_mk3_lo {a b : List ρ} (c : List ρ) {p : ρ} (ha : p ∉ a) (hb : p ∉ b) :
    (mk3 a b c).remove p = mk3 a b (c.erase p) := by
  by_cases h : p ∈ c
  · unfold remove
    have : ∃ i, List.idxOf? p c = some i := by
      cases hh : List.idxOf? p c with
      | none => exact absurd h (List.idxOf?_eq_none_iff.1 hh)
      | some i => exact ⟨i, rfl⟩
    obtain ⟨i, hi⟩ := this
    have hna := List.idxOf?_eq_none_iff.2 ha
    have hnb := List.idxOf?_eq_none_iff.2 hb
    have e : List.idxOf? p (mk3 a b c).entries = some (i + b.length + a.length) := by
      simp only [entries_mk3, List.idxOf?, List.findIdx?_append] at hi hna hnb ⊢
      rw [hi, hna, hnb]; rfl
    have ec : c.erase p = c.eraseIdx i := by rw [List.erase_eq_eraseIdx, hi]
    rw [e]
    simp only [mk3]
    rw [List.eraseIdx_append_of_length_le (by omega), Nat.add_sub_cancel,
      List.eraseIdx_append_of_length_le (by omega), Nat.add_sub_cancel, ec]
    have h1 : ¬ i + b.length + a.length < a.length + b.length := by omega
    simp [h1]
  · rw [List.erase_of_not_mem h, remove_of_not_mem]
    simp [ha, hb, h]

/-- `remove` erases the first occurrence of `p` from the first segment that contains it. -/
theorem remove_mk3 (a b c : List ρ) (p : ρ) :
    (mk3 a b c).remove p =
      if p ∈ a then mk3 (a.erase p) b c
      else if p ∈ b then mk3 a (b.erase p) c
      else mk3 a b (c.erase p) := by
  by_cases ha : p ∈ a
  · rw [if_pos ha, remove_mk3_hi b c ha]
  · rw [if_neg ha]
    by_cases hb : p ∈ b
    · rw [if_pos hb, remove_mk3_me c ha hb]
    · rw [if_neg hb, remove_mk3_lo c ha hb]

theorem remove_inv {hl : HandlerList ρ} (h : Inv hl) (p : ρ) : Inv (hl.remove p) := by
  rw [eq_mk3 h, remove_mk3]
  repeat' split
  all_goals exact inv_mk3 _ _ _

/-- General form (no `Nodup` needed): which segment loses its first occurrence of `p`. -/
theorem remove_segments' {hl : HandlerList ρ} (h : Inv hl) (p : ρ) :
    ((hl.remove p).hi, (hl.remove p).me, (hl.remove p).lo) =
      if p ∈ hl.hi then (hl.hi.erase p, hl.me, hl.lo)
      else if p ∈ hl.me then (hl.hi, hl.me.erase p, hl.lo)
      else (hl.hi, hl.me, hl.lo.erase p) := by
  generalize hs : hl.hi = a
  generalize hm : hl.me = b
  generalize hl' : hl.lo = c
  have e := eq_mk3 h
  rw [hs, hm, hl'] at e
  subst e
  rw [remove_mk3]
  repeat' split
  all_goals simp

/-- When `p` occurs at most once, removing it erases it from the segment it is in and leaves the other
    two segments and all relative orders unchanged (`List.erase` of an absent element is the identity
    and `erase` keeps the order of the remaining elements: `erase_eq_filter`). -/
theorem remove_segments {hl : HandlerList ρ} (h : Inv hl) (hn : hl.entries.Nodup) (p : ρ) :
    (hl.remove p).hi = hl.hi.erase p ∧ (hl.remove p).me = hl.me.erase p ∧
      (hl.remove p).lo = hl.lo.erase p := by
  have hs := remove_segments' h p
  rw [entries_eq_segments h] at hn
  simp only [List.nodup_append, List.mem_append] at hn
  obtain ⟨-, ⟨-, -, hbc⟩, habc⟩ := hn
  by_cases ha : p ∈ hl.hi
  · rw [if_pos ha] at hs
    have hb : p ∉ hl.me := fun hb => habc p ha p (.inl hb) rfl
    have hc : p ∉ hl.lo := fun hc => habc p ha p (.inr hc) rfl
    simp only [Prod.mk.injEq] at hs
    rw [List.erase_of_not_mem hb, List.erase_of_not_mem hc]; exact hs
  · rw [if_neg ha] at hs
    by_cases hb : p ∈ hl.me
    · rw [if_pos hb] at hs
      have hc : p ∉ hl.lo := fun hc => hbc p hb p hc rfl
      simp only [Prod.mk.injEq] at hs
      rw [List.erase_of_not_mem ha, List.erase_of_not_mem hc]; exact hs
    · rw [if_neg hb] at hs
      simp only [Prod.mk.injEq] at hs
      rw [List.erase_of_not_mem ha, List.erase_of_not_mem hb]; exact hs

/-- The segments after a remove, as order-preserving filters. -/
theorem remove_segments_filter {hl : HandlerList ρ} (h : Inv hl) (hn : hl.entries.Nodup) (p : ρ) :
    (hl.remove p).hi = hl.hi.filter (· != p) ∧ (hl.remove p).me = hl.me.filter (· != p) ∧
      (hl.remove p).lo = hl.lo.filter (· != p) := by
  obtain ⟨h1, h2, h3⟩ := remove_segments h hn p
  rw [entries_eq_segments h] at hn
  simp only [List.nodup_append] at hn
  obtain ⟨ha, ⟨hb, hc, -⟩, -⟩ := hn
  rw [h1, h2, h3, ha.erase_eq_filter, hb.erase_eq_filter, hc.erase_eq_filter]
  exact ⟨rfl, rfl, rfl⟩

theorem mem_remove {hl : HandlerList ρ} (hn : hl.entries.Nodup) (p x : ρ) :
    x ∈ (hl.remove p).entries ↔ x ≠ p ∧ x ∈ hl.entries := by
  rw [remove_entries, hn.mem_erase_iff]

theorem nodup_remove {hl : HandlerList ρ} (hn : hl.entries.Nodup) (p : ρ) :
    (hl.remove p).entries.Nodup := by
  rw [remove_entries]; exact hn.erase p

end
end HandlerList
end Evenio
