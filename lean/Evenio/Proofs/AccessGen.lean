import Evenio.Generated.AccessGen
import Evenio.Model.Access
/-! The functions regenerated from `/repo/src/access.rs` by `tools/rs2lean` (`Evenio.Gen.Access.*`) ARE the hand model's
    (`Model/Access.lean`): `Access::join` / `is_compatible`, `ComponentAccess::{new_true, new_false, var, or}` and the loop /
    iterator skeletons of `matches_archetype` (`any` / `all`), `clear_access` (two nested `for … in &mut`, a `List.map` each)
    and `collect_conflicts` (two nested `for … in &`, folds into an `IndexSet`, here a duplicate-free list in first-occurrence
    order).  The per-literal tables inside them (`varLit`, `clearLit`, `positive`, `Access.join`) are the ones
    `Generated/AccessTables.lean` extracts; here they come out of the same source a second time, through the `syn`-based
    translator, together with the code around them.  `ComponentAccess { cases }` is the list of cases (`CA`).
    Not translated: `ComponentAccess::and` (labelled `loop` with `break` / `continue 'next_case` and slice ranges) and `not`
    (a `fold` over an iterator of closures building structs): outside the subset.
    The generated file is rewritten on every run of `tools/extract.py`.  Core Lean only. -/
namespace Evenio
namespace AccessGen
open Rs2Lean

/-- the translated `Access::join` is the (table-extracted) `Access.join` -/
theorem join_eq (a b : Access) : Gen.Access.Access.join a b = a.join b := by
  cases a <;> cases b <;> rfl

/-- the translated `Access::is_compatible` is `(join …).isSome` -/
theorem is_compatible_eq (a b : Access) : Gen.Access.Access.is_compatible a b = (a.join b).isSome := by
  simp only [Gen.Access.Access.is_compatible, join_eq]

theorem new_true_eq : Gen.Access.new_true = CA.tt := rfl
theorem new_false_eq : Gen.Access.new_false = CA.ff := rfl

/-- the translated `ComponentAccess::var` is `CA.var` -/
theorem var_eq (i : Nat) (a : Access) : Gen.Access.var i a = CA.var i a := by
  cases a <;> rfl

/-- the translated `ComponentAccess::or` (`iter().chain(..).cloned().collect()`) is `CA.or`: concatenation, `self` first -/
theorem or_eq (a b : CA) : Gen.Access.or a b = a.or b := rfl

/-- the translated `matches_archetype` (`any` over the cases of `all` over the literals) is `CA.matches` -/
theorem matches_archetype_eq (ca : CA) (S : Nat → Bool) : Gen.Access.matches_archetype ca S = ca.matches S := by
  simp only [Gen.Access.matches_archetype, CA.matches, Case.sat]
  refine congrArg (List.any ca) (funext fun c => congrArg (List.all c) (funext fun p => ?_))
  obtain ⟨i, a⟩ := p
  cases a <;> simp [lit, positive]

/-- the translated `clear_access` (two nested `for … in &mut`) is `CA.clearAccess` -/
theorem clear_access_eq (ca : CA) : Gen.Access.clear_access ca = ca.clearAccess := by
  simp only [Gen.Access.clear_access, CA.clearAccess]
  refine congrArg (fun f => List.map f ca) (funext fun c => congrArg (fun f => List.map f c) (funext fun p => ?_))
  obtain ⟨i, a⟩ := p
  cases a <;> rfl

/-! ### `collect_conflicts` -/

/-- inserting into the `IndexSet` one element after the other is `eraseDups` -/
theorem foldl_insert_eq_eraseDups (l acc : List Nat) :
    l.foldl (fun s x => (indexSetInsert s x).1) acc = acc ++ (l.filter fun x => decide (x ∉ acc)).eraseDups := by
  induction l generalizing acc with
  | nil => simp
  | cons a l ih =>
    rw [List.foldl_cons, ih]
    by_cases ha : a ∈ acc
    · simp [indexSetInsert, ha]
    · simp only [indexSetInsert, List.contains_eq_mem, ha, decide_false, Bool.false_eq_true, if_false, List.filter_cons,
        not_false_eq_true, decide_true, if_true, List.eraseDups_cons, List.append_assoc, List.singleton_append]
      congr 2
      rw [List.filter_filter]
      refine congrArg List.eraseDups (List.filter_congr fun x _ => ?_)
      by_cases hx : x = a
      · subst hx; simp
      · by_cases hm : x ∈ acc <;> simp [hm, hx, List.mem_append]

/-- the translated `collect_conflicts` (two nested `for … in &` folding into an `IndexSet`) is `CA.conflicts`:
    the conflicting components in first-occurrence order, each once -/
theorem collect_conflicts_eq (ca : CA) : Gen.Access.collect_conflicts ca = ca.conflicts := by
  have inner : ∀ (c : Case) (acc : List Nat),
      forEach c acc (fun (p : Nat × CaseAccess) res =>
          if p.2 = .cf then (indexSetInsert res p.1).1 else res) =
        (c.filterMap fun (i, a) => if a = .cf then some i else none).foldl (fun s x => (indexSetInsert s x).1) acc := by
    intro c
    induction c with
    | nil => intro acc; rfl
    | cons p c ih =>
      intro acc
      obtain ⟨i, a⟩ := p
      simp only [forEach, List.foldl_cons] at ih ⊢
      by_cases h : a = .cf
      · simp only [h, if_true, List.filterMap_cons, List.foldl_cons]; exact ih _
      · simp only [h, if_false, List.filterMap_cons]; exact ih _
  have outer : ∀ (cs : CA) (acc : List Nat),
      forEach cs acc (fun (c : Case) res => forEach c res (fun (p : Nat × CaseAccess) res =>
          if p.2 = .cf then (indexSetInsert res p.1).1 else res)) =
        (cs.flatMap fun c => c.filterMap fun (i, a) => if a = .cf then some i else none).foldl
          (fun s x => (indexSetInsert s x).1) acc := by
    intro cs
    induction cs with
    | nil => intro acc; rfl
    | cons c cs ih =>
      intro acc
      simp only [forEach, List.foldl_cons, List.flatMap_cons, List.foldl_append] at ih ⊢
      have := inner c acc
      simp only [forEach] at this
      rw [this]; exact ih _
  have h := outer ca []
  rw [foldl_insert_eq_eraseDups] at h
  have hf : ∀ L : List Nat, (L.filter fun x => decide (x ∉ ([] : List Nat))) = L := by intro L; simp
  rw [hf, List.nil_append] at h
  simp only [Gen.Access.collect_conflicts, CA.conflicts]
  exact h

end AccessGen
end Evenio
