import Evenio.Proofs.DropQueued
/-! The error path of `flushWith`: propagation up to a failing delivery (`DfsPanic`), what the unwinding guard is
    handed, and the accounting of every event ever queued. -/
namespace Evenio

variable {deliver : QItem → M Unit}

/-- Depth-first propagation of `es` (pop order) from `w` that is cut short by a delivery failing with `err`.
    * `log`  — the deliveries completed before, in order;
    * `x`    — the event in flight when `deliver` failed;
    * `wl`   — the state the failing delivery left (its queue is the segment it had pushed so far);
    * `P`    — the part of the stack below that segment: the siblings not yet popped, at every level (stack order).
    The guard therefore runs on `{ wl with queue := P ++ wl.queue }`. -/
inductive DfsPanic (deliver : QItem → M Unit) :
    World → List QItem → Err → List Delivery → QItem → World → List QItem → Prop
  | here {w : World} {e : QItem} {es : List QItem} {err : Err} {wl : World} :
      (deliver e).run.run { w with queue := [] } = (.error err, wl) →
      DfsPanic deliver w (e :: es) err [] e wl es.reverse
  | child {w : World} {e : QItem} {w1 : World} {seg es : List QItem} {err : Err} {l : List Delivery} {x : QItem}
      {wl : World} {P : List QItem} :
      Step deliver w e w1 seg → DfsPanic deliver w1 seg.reverse err l x wl P →
      DfsPanic deliver w (e :: es) err (⟨w, e, w1, seg⟩ :: l) x wl (es.reverse ++ P)
  | sibling {w : World} {e : QItem} {w1 : World} {seg : List QItem} {w2 : World} {es : List QItem} {err : Err}
      {l1 l2 : List Delivery} {x : QItem} {wl : World} {P : List QItem} :
      Step deliver w e w1 seg → DfsLog deliver w1 seg.reverse w2 l1 → DfsPanic deliver w2 es err l2 x wl P →
      DfsPanic deliver w (e :: es) err (⟨w, e, w1, seg⟩ :: l1 ++ l2) x wl P

theorem DfsPanic.split (a : List QItem) {w b err log x wl P} (h : DfsPanic deliver w (a ++ b) err log x wl P) :
    (∃ P', DfsPanic deliver w a err log x wl P' ∧ P = b.reverse ++ P') ∨
    (∃ wm l1 l2, DfsLog deliver w a wm l1 ∧ DfsPanic deliver wm b err l2 x wl P ∧ log = l1 ++ l2) := by
  induction a generalizing w log P with
  | nil => exact .inr ⟨w, [], log, .nil w, by simpa using h, by simp⟩
  | cons e a ih =>
    rw [List.cons_append] at h
    cases h with
    | here hd => exact .inl ⟨_, .here hd, by simp⟩
    | child hs hc => exact .inl ⟨_, .child hs hc, by simp⟩
    | sibling hs hc hr =>
      rcases ih hr with ⟨P', hp, rfl⟩ | ⟨wm, u1, u2, ha, hb, rfl⟩
      · exact .inl ⟨P', .sibling hs hc hp, rfl⟩
      · exact .inr ⟨wm, _, u2, .cons hs hc ha, hb, by simp⟩

/-- Error return of the loop: either the model ran out of fuel, or the deliveries are a depth-first propagation cut
    short by a failing delivery, and the result is what the guard makes of the state that delivery left with everything
    still pending (`P ++ segment`) queued. -/
theorem flushWith_error_log {fuel : Nat} {w0 : World} {q : List QItem} {e : Err} {w' : World}
    (h : (flushWith deliver fuel).run.run { w0 with queue := q } = (.error e, w')) :
    e = .panic "model:fuel" ∨
    ∃ err log x wl P, DfsPanic deliver { w0 with queue := [] } q.reverse err log x wl P ∧
      guardExit err { wl with queue := P ++ wl.queue } = (.error e, w') := by
  induction fuel generalizing w0 q with
  | zero => rw [flushWith_zero] at h; cases h; exact .inl rfl
  | succ fuel ih =>
    rcases List.eq_nil_or_concat q with rfl | ⟨q', it, rfl⟩
    · rw [flushWith_nil] at h; cases h
    · simp only [List.concat_eq_append] at h ⊢
      rw [flushWith_concat] at h
      generalize hd : (deliver it).run.run { w0 with queue := [] } = r at h
      obtain ⟨(err|_), w''⟩ := r
      · refine .inr ⟨err, [], it, w'', q', ?_, h⟩
        simpa using DfsPanic.here (w := { w0 with queue := [] }) (es := q'.reverse) hd
      · rcases ih (w0 := w'') (q := q' ++ w''.queue) h with hf | ⟨err, log, x, wl, P, hp, hg⟩
        · exact .inl hf
        · have hs : Step deliver { w0 with queue := [] } it { w'' with queue := [] } w''.queue := ⟨w'', hd, rfl, rfl⟩
          rw [List.reverse_append] at hp
          rcases hp.split _ with ⟨P', hc, rfl⟩ | ⟨wm, l1, l2, hc, hr, rfl⟩
          · refine .inr ⟨err, ⟨{ w0 with queue := [] }, it, { w'' with queue := [] }, w''.queue⟩ :: log, x, wl, q' ++ P', ?_,
              by simpa using hg⟩
            simpa using DfsPanic.child (es := q'.reverse) hs hc
          · refine .inr ⟨err, ⟨{ w0 with queue := [] }, it, { w'' with queue := [] }, w''.queue⟩ :: l1 ++ l2, x, wl, P, ?_,
              hg⟩
            simpa using DfsPanic.sibling hs hc hr

/-- Conversely, with enough fuel the loop realises every such derivation (`rest` is an arbitrary stack below). -/
theorem DfsPanic.run {w es err log x wl P} (h : DfsPanic deliver w es err log x wl P) (rest : List QItem)
    (fuel : Nat) :
    (flushWith deliver (fuel + log.length + 1)).run.run { w with queue := rest ++ es.reverse } =
      guardExit err { wl with queue := rest ++ P ++ wl.queue } := by
  induction h generalizing rest fuel with
  | @here w e es err wl hd =>
    rw [List.reverse_cons, ← List.append_assoc, flushWith_concat, hd]
  | @child w e w1 seg es err l x wl P hs _ ih =>
    obtain ⟨w'', hd, rfl, rfl⟩ := hs
    rw [List.reverse_cons, ← List.append_assoc, flushWith_concat, hd]
    simp only
    have := ih (rest ++ es.reverse) fuel
    rw [List.reverse_reverse] at this
    simpa [List.append_assoc, Nat.add_assoc] using this
  | @sibling w e w1 seg w2 es err l1 l2 x wl P hs hc _ ih =>
    obtain ⟨w'', hd, rfl, rfl⟩ := hs
    have hlen : fuel + (({ pre := w, ev := e, post := { w'' with queue := [] }, seg := w''.queue } : Delivery) ::
        l1 ++ l2).length + 1 = ((fuel + l2.length + 1) + l1.length) + 1 := by
      simp only [List.cons_append, List.length_cons, List.length_append]; omega
    rw [hlen, List.reverse_cons, ← List.append_assoc, flushWith_concat, hd]
    simp only
    have := hc.run (rest ++ es.reverse) (fuel + l2.length + 1)
    rw [List.reverse_reverse] at this
    exact this.trans (ih rest fuel)

theorem flushWith_complete_error {w es err log x wl P} (h : DfsPanic deliver w es err log x wl P) (fuel : Nat)
    (hf : log.length < fuel) :
    (flushWith deliver fuel).run.run { w with queue := es.reverse } =
      guardExit err { wl with queue := P ++ wl.queue } := by
  obtain ⟨k, rfl⟩ : ∃ k, fuel = k + log.length + 1 := ⟨fuel - log.length - 1, by omega⟩
  simpa using h.run [] k

/-! ### accounting -/

theorem perm_swap4 {α : Type} (s a e b : List α) : ((s ++ a) ++ (e ++ b)).Perm (e ++ (s ++ (a ++ b))) := by
  have : ((s ++ a) ++ e).Perm (e ++ (s ++ a)) := List.perm_append_comm
  simpa [List.append_assoc] using this.append_right b

/-- Completed propagation: the events delivered are, as a multiset, exactly the events initially queued plus the
    events every delivery left queued — none delivered twice, none lost. -/
theorem DfsLog.perm {w es w' log} (h : DfsLog deliver w es w' log) :
    (log.map (·.ev)).Perm (es ++ log.flatMap (·.seg)) := by
  induction h with
  | nil w => simp
  | @cons w e w1 seg w2 es w3 l1 l2 _ _ _ ih1 ih2 =>
    simp only [List.cons_append, List.map_cons, List.map_append, List.flatMap_cons, List.flatMap_append]
    refine List.Perm.cons e ?_
    have h1 : (l1.map (·.ev)).Perm (seg ++ l1.flatMap (·.seg)) :=
      ih1.trans ((List.reverse_perm seg).append_right _)
    exact (h1.append ih2).trans (perm_swap4 ..)

/-- Interrupted propagation: delivered ++ in-flight ++ still-pending (below the failing delivery's segment) is, as a
    multiset, exactly initially-queued ++ left-queued-by-completed-deliveries. -/
theorem DfsPanic.perm {w es err log x wl P} (h : DfsPanic deliver w es err log x wl P) :
    (log.map (·.ev) ++ x :: P).Perm (es ++ log.flatMap (·.seg)) := by
  induction h with
  | @here w e es err wl hd =>
    simp only [List.map_nil, List.nil_append, List.flatMap_nil, List.append_nil]
    exact List.Perm.cons e (List.reverse_perm es)
  | @child w e w1 seg es err l x wl P hs _ ih =>
    simp only [List.map_cons, List.cons_append, List.flatMap_cons]
    refine List.Perm.cons e ?_
    -- l.ev ++ x :: (es.rev ++ P)  ~  es ++ (seg ++ l.seg);  ih : l.ev ++ x :: P ~ seg.rev ++ l.seg
    have h1 : (l.map (·.ev) ++ x :: P).Perm (seg ++ l.flatMap (·.seg)) :=
      ih.trans ((List.reverse_perm seg).append_right _)
    have h2 : (l.map (·.ev) ++ x :: (es.reverse ++ P)).Perm (es.reverse ++ (l.map (·.ev) ++ x :: P)) := by
      have : (x :: (es.reverse ++ P)).Perm (es.reverse ++ x :: P) := List.perm_middle.symm
      refine (List.Perm.append_left _ this).trans ?_
      rw [← List.append_assoc, ← List.append_assoc]
      exact List.Perm.append_right _ List.perm_append_comm
    exact h2.trans (((List.reverse_perm es).append_right _).trans (List.Perm.append_left _ h1))
  | @sibling w e w1 seg w2 es err l1 l2 x wl P hs hc _ ih =>
    simp only [List.map_cons, List.cons_append, List.map_append, List.flatMap_cons, List.flatMap_append,
      List.append_assoc]
    refine List.Perm.cons e ?_
    have h1 : (l1.map (·.ev)).Perm (seg ++ l1.flatMap (·.seg)) :=
      hc.perm.trans ((List.reverse_perm seg).append_right _)
    exact (h1.append ih).trans (perm_swap4 ..)

end Evenio
