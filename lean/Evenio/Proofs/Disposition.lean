import Evenio.Proofs.HoareOk
import Evenio.Proofs.DeliverOneFifo
import Evenio.Proofs.DropQueued
/-! Per-delivery disposition of the delivered event, in terms of the event ledger `edrops`: on normal return of
    `deliverOne it` the ledger has been extended by `it` — once — or not at all, according to what happened to `it`
    (dead target / taken by a handler / normal kind / built-in kind), and by nothing else. -/
namespace Evenio

/-- the invariant: the event ledger is `l` -/
abbrev ED (l : List Nat) : World → Prop := fun w => w.edrops = l

/-- ledger effect of `dropEvent it` on `edrops` -/
def dropE (it : QItem) (l : List Nat) : List Nat :=
  match it.ty with
  | .g _ | .t _ => it.pay.serial :: l
  | _ => l

section
variable {l : List Nat}
theorem logT_ed (s : String) : Keeps (ED l) (logT s) := by unfold logT; keeps
macro_rules | `(tactic| keeps_leaf) => `(tactic| exact logT_ed _)
theorem ubErr_ed {α : Type} (s : String) : Keeps (ED l) (ubErr s : M α) := by unfold ubErr; keeps
macro_rules | `(tactic| keeps_leaf) => `(tactic| exact ubErr_ed _)
theorem dbgAssert_ed (c : Bool) (s : String) : Keeps (ED l) (dbgAssert c s) := by unfold dbgAssert; keeps
macro_rules | `(tactic| keeps_leaf) => `(tactic| exact dbgAssert_ed _ _)
theorem getArch_ed (i : Nat) (s : String) : Keeps (ED l) (getArch i s) := by unfold getArch; keeps
macro_rules | `(tactic| keeps_leaf) => `(tactic| exact getArch_ed _ _)
theorem setArch_ed (a : Arch) : Keeps (ED l) (setArch a) := by unfold setArch; keeps
macro_rules | `(tactic| keeps_leaf) => `(tactic| exact setArch_ed _)
theorem reserve_ed : Keeps (ED l) (reserve) := by unfold reserve; keeps
macro_rules | `(tactic| keeps_leaf) => `(tactic| exact reserve_ed)
theorem takeBudget_ed : Keeps (ED l) (takeBudget) := by unfold takeBudget; keeps
macro_rules | `(tactic| keeps_leaf) => `(tactic| exact takeBudget_ed)
theorem freshE_ed : Keeps (ED l) (freshE) := by unfold freshE; keeps
macro_rules | `(tactic| keeps_leaf) => `(tactic| exact freshE_ed)
theorem freshC_ed : Keeps (ED l) (freshC) := by unfold freshC; keeps
macro_rules | `(tactic| keeps_leaf) => `(tactic| exact freshC_ed)
theorem push_ed (it : QItem) : Keeps (ED l) (push it) := by unfold push; keeps
macro_rules | `(tactic| keeps_leaf) => `(tactic| exact push_ed _)
theorem paramRows_ed (p : Param) : Keeps (ED l) (paramRows p) := by unfold paramRows; keeps
macro_rules | `(tactic| keeps_leaf) => `(tactic| exact paramRows_ed _)
theorem itemAt_ed (st : AS) (a : Arch) (row : Nat) : Keeps (ED l) (itemAt st a row) := by unfold itemAt; keeps
macro_rules | `(tactic| keeps_leaf) => `(tactic| exact itemAt_ed _ _ _)
theorem paramGet_ed (p : Param) (id : Key) : Keeps (ED l) (paramGet p id) := by unfold paramGet; keeps
macro_rules | `(tactic| keeps_leaf) => `(tactic| exact paramGet_ed _ _)
theorem bumpCell_ed (ai row c : Nat) : Keeps (ED l) (bumpCell ai row c) := by unfold bumpCell; keeps
macro_rules | `(tactic| keeps_leaf) => `(tactic| exact bumpCell_ed _ _ _)
theorem getParam_ed (h : HInfo) (p : Nat) : Keeps (ED l) (getParam h p) := by unfold getParam; keeps
macro_rules | `(tactic| keeps_leaf) => `(tactic| exact getParam_ed _ _)

/-- `Sender::send` on normal return has not destroyed anything (the drop of a rejected event is on a panicking path) -/
theorem senderPush_ok (h : HInfo) (it : QItem) : HoareOk (ED l) (senderPush h it) (fun _ => ED l) := by
  unfold senderPush
  hoare_inv

macro_rules | `(tactic| hoare_leaf) => `(tactic| exact senderPush_ok _ _)

/-- the ledger after a handler action: the received event dropped iff the action took it -/
abbrev Took (it : QItem) (l : List Nat) (r : Bool) : World → Prop := fun w => w.edrops = if r then dropE it l else l

theorem dropEventW_edrops (it : QItem) (w : World) : (dropEventW it w).edrops = dropE it w.edrops := by
  obtain ⟨ty, idx, tgt, pay⟩ := it
  cases ty <;> try rfl
  rename_i k
  simp only [dropEventW, dropCellW, dropE]
  split <;> rfl

theorem dropEvent_ok (it : QItem) : HoareOk (ED l) (dropEvent it) (fun _ w => w.edrops = dropE it l) :=
  ⟨fun w hw a w' hr => by
    rw [run_dropEvent] at hr
    cases hr
    rw [dropEventW_edrops, hw]⟩

theorem runAct_ok (hk : Key) (it : QItem) (loc : Loc) (act : Act) :
    HoareOk (ED l) (runAct hk it loc act) (Took it l) := by
  unfold runAct
  refine HoareOk.get_bind fun w hw => ?_
  split
  · split
    all_goals try (hoare_inv; done)
    -- what is left is `take`
    dsimp only
    split
    · refine HoareOk.bind_inv (HoareOk.of_keeps (logT_ed _)) fun _ => ?_
      exact HoareOk.bind (dropEvent_ok it) fun _ => HoareOk.pure fun _ h => h
    · exact HoareOk.pure fun _ h => h
  · hoare_inv

/-- the body loop of `runHandler`: invariant "dropped iff owned"; once owned, the remaining actions are skipped -/
theorem bodyLoop_rule {γ : Type} {acts : List γ} {rd : Bool} {sd : List Nat}
    {f : γ → Bool × Bool × List Nat → M (ForInStep (Bool × Bool × List Nat))} {it : QItem}
    (h0 : ∀ a rd sd, HoareOk (ED l) (f a (false, rd, sd)) (fun r => Took it l r.value.1))
    (h1 : ∀ a rd sd, f a (true, rd, sd) = pure (ForInStep.yield (true, rd, sd))) :
    HoareOk (ED l) (forIn acts (false, rd, sd) f >>= fun s => pure s.1) (Took it l) := by
  refine HoareOk.bind (R := fun (s : Bool × Bool × List Nat) w => Took it l s.1 w) ?_ (fun s => HoareOk.pure fun _ h => h)
  refine HoareOk.pre (HoareOk.forIn_list (fun (s : Bool × Bool × List Nat) w => Took it l s.1 w) ?_) (fun _ h => h)
  rintro a ⟨o, rd, sd⟩
  cases o
  · exact h0 a rd sd
  · rw [h1]
    exact HoareOk.pure fun _ h => h

local macro_rules
  | `(tactic| hoare_special) => `(tactic| first
      | exact HoareOk.bind (runAct_ok _ _ _ _) (fun _ => HoareOk.pure fun _ h => h)
      | refine bodyLoop_rule (fun _ _ _ => ?_) (fun _ _ _ => rfl))

theorem runHandler_ok (hk : Key) (it : QItem) (loc : Loc) :
    HoareOk (ED l) (runHandler hk it loc) (Took it l) := by
  unfold runHandler
  refine HoareOk.get_bind fun w hw => ?_
  split
  · refine HoareOk.bind_inv (HoareOk.of_keeps (logT_ed _)) fun _ => ?_
    dsimp only
    hoare_inv
  · hoare_inv

/-- the unwinding handler of `deliverOne`'s `tryCatch` always rethrows -/
theorem rethrow_never_ok (it : QItem) (info : EvInfo) (e : Err) (w : World) (a : Bool) (w' : World) :
    ((do
        match e with
        | .panic _ => if info.needsDrop then dropEvent it
        | _ => pure ()
        throw e : M Bool)).run.run w ≠ (.ok a, w') := by
  intro h
  cases e <;> dsimp only at h
  · cases h
  · cases h
  · split at h
    · rw [run_bind, run_dropEvent] at h
      cases h
    · cases h

/-- the handler loop: on normal return the delivered event has been dropped (once) iff a handler took it -/
theorem handlerPhase_ok (it : QItem) (info : EvInfo) (loc : Loc) (hs : List Key) :
    HoareOk (ED l) (handlerPhase it info loc hs) (Took it l) := by
  unfold handlerPhase
  refine HoareOk.pre (HoareOk.forIn_list (fun (o : Bool) w => Took it l o w) ?_) (fun _ h => h)
  intro hk o
  cases o
  · rw [if_pos (show (!false) = true from rfl)]
    refine HoareOk.bind (R := fun r w => Took it l r w) ?_ (fun r => HoareOk.pure fun _ h => h)
    exact HoareOk.tryCatch_rethrow (runHandler_ok hk it loc) (fun e w a w' => rethrow_never_ok it info e w a w')
  · rw [if_neg (show ¬ (!true) = true by decide)]
    exact HoareOk.pure fun _ h => h
end

/-- the registry entry `deliverOne` works with is the one `dropQueued` would use (`World.evInfo`) -/
theorem lookupPhase_info {it : QItem} {w w0 w1 : World} {info : EvInfo} {hs : Option (List Key)} {loc : Loc}
    (h : (lookupPhase it w).run.run w0 = (.ok (info, hs, loc), w1)) : w.evInfo it = some info := by
  unfold lookupPhase at h
  unfold World.evInfo
  split at h
  · rename_i ht
    rw [if_pos ht]
    split at h
    · rename_i k info' hg
      rw [hg]
      split at h
      · cases h; rfl
      · rw [run_bind] at h
        generalize (getArch _ _).run.run w0 = r at h
        obtain ⟨(e|a), w2⟩ := r
        · cases h
        · cases h; rfl
    · cases h
  · rename_i ht
    rw [if_neg ht]
    split at h
    · rename_i k info' hg
      rw [hg]
      split at h
      · cases h; rfl
      · cases h
    · cases h

/-- **Disposition of the delivered event (ledger form).** -/
theorem deliverOne_edrops {it : QItem} {w w' : World} (h : (deliverOne it).run.run w = (.ok (), w')) :
    ∃ info hs loc w1,
      (lookupPhase it w).run.run w = (.ok (info, hs, loc), w1) ∧ w.evInfo it = some info ∧
      match hs with
      | none =>          -- dead target
        w'.edrops = if info.needsDrop then dropE it w.edrops else w.edrops
      | some hs =>
        ∃ owned wh, (handlerPhase it info loc hs).run.run w1 = (.ok owned, wh) ∧
          w'.edrops =
            if owned then dropE it w.edrops                      -- taken: dropped by the handler's `take`
            else if info.kind = .normal ∧ info.needsDrop then dropE it w.edrops   -- normal kind: dropped after the loop
            else w.edrops := by                                  -- Insert / Remove / Spawn / Despawn, or nothing to drop
  rw [deliverOne_phases, run_bind, run_get] at h
  simp only at h
  rw [run_bind] at h
  have he1 := (lookupPhase_ef (ef := w.effFrame) it w).run w rfl
  generalize hl : (lookupPhase it w).run.run w = r at h he1
  obtain ⟨(e|⟨info, hs, loc⟩), w1⟩ := r
  · cases h
  · have hw1 : w1.edrops = w.edrops := congrArg EffFrame.edrops he1
    refine ⟨info, hs, loc, w1, rfl, lookupPhase_info hl, ?_⟩
    simp only at h
    cases hs with
    | none =>
      simp only at h ⊢
      split at h
      · rename_i hn
        rw [run_dropEvent] at h
        cases h
        rw [if_pos hn, dropEventW_edrops, hw1]
      · rename_i hn
        cases h
        rw [if_neg hn, hw1]
    | some hs =>
      simp only at h ⊢
      rw [run_bind] at h
      generalize hh : (handlerPhase it info loc hs).run.run w1 = r at h
      obtain ⟨(e|owned), wh⟩ := r
      · cases h
      · refine ⟨owned, wh, rfl, ?_⟩
        have hwh := (handlerPhase_ok (l := w.edrops) it info loc hs).run w1 hw1 owned wh hh
        simp only at h
        rw [run_bind, run_modify] at h
        simp only at h
        cases owned with
        | true =>
          simp only [if_true, run_pure] at h
          cases h
          exact hwh
        | false =>
          simp only [Bool.false_eq_true, if_false] at h hwh ⊢
          by_cases hk : info.kind = .normal
          · unfold effectPhase at h
            rw [hk] at h
            simp only at h
            split at h
            · rename_i hn
              rw [run_dropEvent] at h
              cases h
              rw [if_pos ⟨hk, hn⟩, dropEventW_edrops]
              exact congrArg (dropE it) hwh
            · rename_i hn
              cases h
              rw [if_neg (fun hc => hn hc.2)]
              exact hwh
          · have := (effectPhase_ef (ef := ({ wh with queue := wh.queue.reverse } : World).effFrame) it info loc hk).run
              { wh with queue := wh.queue.reverse } rfl
            rw [h] at this
            have he : w'.edrops = wh.edrops := congrArg EffFrame.edrops this
            rw [if_neg (fun hc => hk hc.1), he]
            exact hwh

end Evenio
