import Evenio.Proofs.Hoare
import Evenio.Proofs.DeliverOneFifo
import Evenio.Proofs.DropQueued
/-! Per-delivery disposition of the delivered event, in terms of the event ledger `edrops` and the ownership flag
    `inflightOwned` (`EventDropper.ownership_flag`): the delivered event is written to the ledger — once — exactly when
    it is destroyed (by a handler's `take`, by the unwinding guard, after the handler loop, or because its target is
    dead), and a delivery writes nothing else to the ledger, except the one event a failing `Sender::send` rejects. -/
namespace Evenio

/-- ledger effect of `dropEvent it` on `edrops` -/
def dropE (it : QItem) (l : List Nat) : List Nat :=
  match it.ty with
  | .g _ | .t _ => it.pay.serial :: l
  | _ => l

/-- a predicate on the ownership flag and the event ledger -/
abbrev LFR (R : Bool → List Nat → Prop) : World → Prop := fun w => R w.inflightOwned w.edrops

section leaves
variable {R : Bool → List Nat → Prop}
theorem logT_lf (s : String) : Keeps (LFR R) (logT s) := by unfold logT; keeps
macro_rules | `(tactic| keeps_leaf) => `(tactic| exact logT_lf _)
theorem ubErr_lf {α : Type} (s : String) : Keeps (LFR R) (ubErr s : M α) := by unfold ubErr; keeps
macro_rules | `(tactic| keeps_leaf) => `(tactic| exact ubErr_lf _)
theorem dbgAssert_lf (c : Bool) (s : String) : Keeps (LFR R) (dbgAssert c s) := by unfold dbgAssert; keeps
macro_rules | `(tactic| keeps_leaf) => `(tactic| exact dbgAssert_lf _ _)
theorem getArch_lf (i : Nat) (s : String) : Keeps (LFR R) (getArch i s) := by unfold getArch; keeps
macro_rules | `(tactic| keeps_leaf) => `(tactic| exact getArch_lf _ _)
theorem setArch_lf (a : Arch) : Keeps (LFR R) (setArch a) := by unfold setArch; keeps
macro_rules | `(tactic| keeps_leaf) => `(tactic| exact setArch_lf _)
theorem reserve_lf : Keeps (LFR R) (reserve) := by unfold reserve; keeps
macro_rules | `(tactic| keeps_leaf) => `(tactic| exact reserve_lf)
theorem takeBudget_lf : Keeps (LFR R) (takeBudget) := by unfold takeBudget; keeps
macro_rules | `(tactic| keeps_leaf) => `(tactic| exact takeBudget_lf)
theorem freshE_lf : Keeps (LFR R) (freshE) := by unfold freshE; keeps
macro_rules | `(tactic| keeps_leaf) => `(tactic| exact freshE_lf)
theorem freshC_lf : Keeps (LFR R) (freshC) := by unfold freshC; keeps
macro_rules | `(tactic| keeps_leaf) => `(tactic| exact freshC_lf)
theorem push_lf (it : QItem) : Keeps (LFR R) (push it) := by unfold push; keeps
macro_rules | `(tactic| keeps_leaf) => `(tactic| exact push_lf _)
theorem paramRows_lf (p : Param) : Keeps (LFR R) (paramRows p) := by unfold paramRows; keeps
macro_rules | `(tactic| keeps_leaf) => `(tactic| exact paramRows_lf _)
theorem itemAt_lf (st : AS) (a : Arch) (row : Nat) : Keeps (LFR R) (itemAt st a row) := by unfold itemAt; keeps
macro_rules | `(tactic| keeps_leaf) => `(tactic| exact itemAt_lf _ _ _)
theorem paramGet_lf (p : Param) (id : Key) : Keeps (LFR R) (paramGet p id) := by unfold paramGet; keeps
macro_rules | `(tactic| keeps_leaf) => `(tactic| exact paramGet_lf _ _)
theorem bumpCell_lf (ai row c : Nat) : Keeps (LFR R) (bumpCell ai row c) := by unfold bumpCell; keeps
macro_rules | `(tactic| keeps_leaf) => `(tactic| exact bumpCell_lf _ _ _)
theorem getParam_lf (h : HInfo) (p : Nat) : Keeps (LFR R) (getParam h p) := by unfold getParam; keeps
macro_rules | `(tactic| keeps_leaf) => `(tactic| exact getParam_lf _ _)
end leaves

/-- flag is `b`, and the delivered event `it` has been written to the ledger `l` iff the flag is set -/
abbrev T (it : QItem) (l : List Nat) (b : Bool) : World → Prop :=
  LFR fun f e => f = b ∧ e = if b then dropE it l else l

/-- state at an exceptional exit of a handler: as `T`, plus at most one more ledger entry `rej` — the event a
    failing `Sender::send` rejected and destroyed on its way out -/
def XR (it : QItem) (l : List Nat) : Bool → List Nat → Prop :=
  fun f e => ∃ rej : List Nat, rej.length ≤ 1 ∧ e = rej ++ (if f then dropE it l else l)

abbrev X (it : QItem) (l : List Nat) : Err → World → Prop := fun _ => LFR (XR it l)

theorem T_X {it : QItem} {l : List Nat} {b : Bool} {e : Err} {w : World} (h : T it l b w) : X it l e w := by
  obtain ⟨hf, he⟩ := h
  refine ⟨[], by simp, ?_⟩
  show w.edrops = [] ++ (if w.inflightOwned = true then dropE it l else l)
  rw [hf, he]; rfl

theorem dropEventW_edrops (it : QItem) (w : World) : (dropEventW it w).edrops = dropE it w.edrops := by
  obtain ⟨ty, idx, tgt, pay⟩ := it
  cases ty <;> try rfl
  rename_i k
  simp only [dropEventW, dropCellW, dropE]
  split <;> rfl

theorem dropEventW_flag (it : QItem) (w : World) : (dropEventW it w).inflightOwned = w.inflightOwned := by
  obtain ⟨ty, idx, tgt, pay⟩ := it
  cases ty <;> try rfl
  rename_i k
  simp only [dropEventW, dropCellW]
  split <;> rfl

theorem dropE_length_le (x : QItem) (l : List Nat) : ∃ rej : List Nat, rej.length ≤ 1 ∧ dropE x l = rej ++ l := by
  obtain ⟨ty, idx, tgt, pay⟩ := x
  cases ty <;> first | exact ⟨[], by simp, rfl⟩ | exact ⟨[pay.serial], by simp, rfl⟩

local macro_rules | `(tactic| hoare2_err) => `(tactic| first | exact fun _ h => T_X h | exact fun _ _ h => T_X h)

section
variable {l : List Nat} {b : Bool}

/-- `Sender::send`: on normal return nothing was destroyed; when the event is rejected it is destroyed, then the
    call panics -/
theorem senderPush_spec (it : QItem) (h : HInfo) (x : QItem) :
    Hoare (T it l b) (senderPush h x) (fun _ => T it l b) (X it l) := by
  unfold senderPush
  split
  · refine ⟨fun w hw => ?_⟩
    rw [run_bind, run_dropEvent]
    simp only [run_throw]
    obtain ⟨hf, he⟩ := hw
    obtain ⟨rej, hr, hrej⟩ := dropE_length_le x w.edrops
    refine ⟨rej, hr, ?_⟩
    rw [dropEventW_edrops, dropEventW_flag, hrej, hf, he]
  · hoare2_inv

local macro_rules | `(tactic| hoare2_leaf) => `(tactic| exact senderPush_spec _ _ _)

/-- a handler action: it returns `true` iff it took the event, which it can only do while the flag is clear; taking
    sets the flag and writes the event to the ledger -/
theorem runAct_spec (hk : Key) (it : QItem) (loc : Loc) (act : Act) :
    Hoare (T it l b) (runAct hk it loc act) (fun r => T it l (r || b)) (X it l) := by
  unfold runAct
  refine Hoare.get_bind fun w hw => ?_
  split
  · split
    all_goals try (hoare2_inv; done)
    -- what is left is `take`
    dsimp only
    split
    · rename_i hc
      have hb : b = false := by
        have : w.inflightOwned = false := by
          cases hf : w.inflightOwned
          · rfl
          · rw [hf] at hc; simp at hc
        exact hw.1.symm.trans this
      subst hb
      refine ⟨fun w2 hw2 => ?_⟩
      simp only [logT, run_bind, run_modify, run_dropEvent, run_pure]
      refine ⟨rfl, ?_⟩
      show (dropEventW it _).edrops = dropE it l
      rw [dropEventW_edrops]
      exact congrArg (dropE it) hw2.2
    · exact Hoare.pure fun _ h => h
  · hoare2_inv
theorem T_bool {it : QItem} {b1 b2 : Bool} {w : World} (hb : b1 = b2) (h : T it l b1 w) : T it l b2 w := hb ▸ h

/-- the body loop of `runHandler`: the flag after the loop is the flag before or-ed with "some action took" -/
theorem bodyLoop_rule {γ : Type} {acts : List γ} {rd : Bool} {sd : List Nat}
    {f : γ → Bool × Bool × List Nat → M (ForInStep (Bool × Bool × List Nat))} {it : QItem}
    (h0 : ∀ a o rd sd, Hoare (T it l (o || b)) (f a (o, rd, sd)) (fun r => T it l (r.value.1 || b)) (X it l)) :
    Hoare (T it l b) (forIn acts (false, rd, sd) f >>= fun s => pure s.1) (fun o => T it l (o || b)) (X it l) := by
  refine Hoare.bind (R := fun (s : Bool × Bool × List Nat) => T it l (s.1 || b)) ?_
    (fun s => Hoare.pure fun _ h => h)
  refine Hoare.pre (Hoare.forIn_list (fun (s : Bool × Bool × List Nat) => T it l (s.1 || b)) ?_) (fun _ h => h)
  rintro a ⟨o, rd, sd⟩
  exact h0 a o rd sd

local macro_rules
  | `(tactic| hoare2_special) => `(tactic| first
      | exact Hoare.bind (runAct_spec _ _ _ _) (fun r => Hoare.pure fun _ h =>
          T_bool (by simp [Bool.or_assoc, Bool.or_comm, Bool.or_left_comm]) h)
      | refine bodyLoop_rule (fun _ _ _ _ => ?_))

/-- a handler run: it returns `true` iff one of its actions took the event; the flag and the ledger follow -/
theorem runHandler_spec (hk : Key) (it : QItem) (loc : Loc) :
    Hoare (T it l b) (runHandler hk it loc) (fun o => T it l (o || b)) (X it l) := by
  unfold runHandler
  refine Hoare.get_bind fun w hw => ?_
  split
  · refine Hoare.bind_inv (Hoare.of_keeps (logT_lf _) (fun _ _ h => T_X h)) fun _ => ?_
    dsimp only
    hoare2_inv
  · hoare2_inv
end

/-- what the unwinding handler of `deliverOne` (first half of `EventDropper::drop`) does: on a panic it drops the
    in-flight event unless the flag is set (or there is no drop function); then it rethrows -/
theorem unwind_run (it : QItem) (info : EvInfo) (e : Err) (w : World) :
    ((do
        match e with
        | .panic _ => if !(← get).inflightOwned && info.needsDrop then dropEvent it
        | _ => pure ()
        throw e : M Bool)).run.run w =
      (.error e, match e with
        | .panic _ => if (!w.inflightOwned && info.needsDrop) = true then dropEventW it w else w
        | _ => w) := by
  cases e <;> dsimp only
  · rfl
  · rfl
  · rw [run_bind, run_get]
    dsimp only
    split
    · rw [run_bind, run_dropEvent]; rfl
    · rfl

/-- state in which the handler loop is left by an exception: on a panic the in-flight event has been written to the
    ledger exactly once — by a `take` (flag set; the guard did not drop it again) or by the guard (flag clear) —
    provided it has a drop function; `rej` is the event a failing send rejected, if any -/
def XL (it : QItem) (l : List Nat) (info : EvInfo) : Err → World → Prop :=
  fun e w => ∃ rej : List Nat, rej.length ≤ 1 ∧
    match e with
    | .panic _ =>
      (w.inflightOwned = true ∧ w.edrops = rej ++ dropE it l) ∨
      (w.inflightOwned = false ∧ w.edrops = if info.needsDrop then dropE it (rej ++ l) else rej ++ l)
    | _ => True

section
variable {l : List Nat}

theorem unwind_spec (it : QItem) (info : EvInfo) (e : Err) (Q : Bool → World → Prop) :
    Hoare (X it l e)
      (do
        match e with
        | .panic _ => if !(← get).inflightOwned && info.needsDrop then dropEvent it
        | _ => pure ()
        throw e : M Bool) Q (XL it l info) := by
  refine ⟨fun w hw => ?_⟩
  rw [unwind_run]
  obtain ⟨rej, hr, he⟩ := hw
  refine ⟨rej, hr, ?_⟩
  cases e with
  | ub s => trivial
  | assert s => trivial
  | panic c =>
    dsimp only
    cases hf : w.inflightOwned
    · right
      rw [hf] at he
      cases hn : info.needsDrop
      · simp only [Bool.not_false, Bool.and_false, Bool.false_eq_true, if_false]
        exact ⟨hf, he⟩
      · simp only [Bool.not_false, Bool.and_true, if_true]
        exact ⟨by rw [dropEventW_flag, hf], by rw [dropEventW_edrops]; exact congrArg (dropE it) he⟩
    · left
      rw [hf] at he
      simp only [Bool.not_true, Bool.false_and, Bool.false_eq_true, if_false]
      exact ⟨hf, he⟩

/-- the handler loop of a delivery, started with the flag clear and ledger `l` -/
theorem handlerLoop_spec (it : QItem) (info : EvInfo) (loc : Loc) (hs : List Key) :
    Hoare (T it l false) (handlerLoop it info loc hs) (fun o => T it l o) (XL it l info) := by
  unfold handlerLoop
  refine Hoare.pre (Hoare.forIn_list (fun (o : Bool) => T it l o) ?_) (fun _ h => h)
  intro hk o
  cases o
  · rw [if_pos (show (!false) = true from rfl)]
    refine Hoare.bind (R := fun r => T it l r) ?_ (fun r => Hoare.pure fun _ h => h)
    refine Hoare.tryCatch (E1 := X it l)
      (Hoare.post (runHandler_spec (b := false) hk it loc) (fun o w h => T_bool (Bool.or_false o) h) (fun _ _ h => h))
      (fun e => unwind_spec it info e _)
  · rw [if_neg (show ¬ (!true) = true by decide)]
    exact Hoare.pure fun _ h => h

theorem handlerPhase_spec (it : QItem) (info : EvInfo) (loc : Loc) (hs : List Key) :
    Hoare (fun w => w.edrops = l) (handlerPhase it info loc hs) (fun o => T it l o) (XL it l info) := by
  refine ⟨fun w hw => ?_⟩
  rw [handlerPhase_run]
  exact (handlerLoop_spec it info loc hs).run { w with inflightOwned := false } ⟨rfl, hw⟩

end

/-- the registry entry `deliverOne` works with is the one `dropQueued` would use (`World.evInfo`) -/
theorem lookupPhase_info {it : QItem} {w w0 w1 : World} {info : EvInfo} {hs : Option (List Key)} {loc : Loc}
    (h : (lookupPhase it w).run.run w0 = (.ok (info, hs, loc), w1)) : w.evInfo it = some info := by
  unfold lookupPhase at h
  unfold World.evInfo
  split at h
  · rename_i ht
    rw [if_pos ht]
    split at h
    · rename_i k info' hg
      rw [hg]
      split at h
      · cases h; rfl
      · rw [run_bind] at h
        generalize (getArch _ _).run.run w0 = r at h
        obtain ⟨(e|a), w2⟩ := r
        · cases h
        · cases h; rfl
    · cases h
  · rename_i ht
    rw [if_neg ht]
    split at h
    · rename_i k info' hg
      rw [hg]
      split at h
      · cases h; rfl
      · cases h
    · cases h

theorem getArch_error_ub {i : Nat} {site : String} {w w' : World} {e : Err}
    (h : (getArch i site).run.run w = (.error e, w')) : ∃ s, e = .ub s := by
  unfold getArch at h
  rw [run_bind, run_get] at h
  dsimp only at h
  split at h
  · cases h
  · cases h; exact ⟨_, rfl⟩

/-- the lookup phase fails only with `ub` -/
theorem lookupPhase_error_ub {it : QItem} {w w0 w1 : World} {e : Err}
    (h : (lookupPhase it w).run.run w0 = (.error e, w1)) : ∃ s, e = .ub s := by
  unfold lookupPhase at h
  split at h
  · split at h
    · split at h
      · cases h
      · rw [run_bind] at h
        generalize hg : (getArch _ _).run.run w0 = r at h
        obtain ⟨(e'|a), w2⟩ := r
        · cases h; exact getArch_error_ub hg
        · cases h
    · cases h; exact ⟨_, rfl⟩
  · split at h
    · split at h
      · cases h
      · cases h; exact ⟨_, rfl⟩
    · cases h; exact ⟨_, rfl⟩

/-- **Disposition of the delivered event (ledger form), normal return.** -/
theorem deliverOne_edrops {it : QItem} {w w' : World} (h : (deliverOne it).run.run w = (.ok (), w')) :
    ∃ info hs loc w1,
      (lookupPhase it w).run.run w = (.ok (info, hs, loc), w1) ∧ w.evInfo it = some info ∧
      match hs with
      | none =>          -- dead target
        w'.edrops = if info.needsDrop then dropE it w.edrops else w.edrops
      | some hs =>
        ∃ owned wh, (handlerPhase it info loc hs).run.run w1 = (.ok owned, wh) ∧ wh.inflightOwned = owned ∧
          w'.edrops =
            if owned then dropE it w.edrops                      -- taken: dropped by the handler's `take`
            else if info.kind = .normal ∧ info.needsDrop then dropE it w.edrops   -- normal kind: dropped after the loop
            else w.edrops := by                                  -- Insert / Remove / Spawn / Despawn, or nothing to drop
  rw [deliverOne_run] at h
  have he1 := (lookupPhase_ef (ef := w.effFrame) it w).run w rfl
  generalize hl : (lookupPhase it w).run.run w = r at h he1
  obtain ⟨(e|⟨info, hs, loc⟩), w1⟩ := r
  · cases h
  · have hw1 : w1.edrops = w.edrops := congrArg EffFrame.edrops he1
    refine ⟨info, hs, loc, w1, rfl, lookupPhase_info hl, ?_⟩
    cases hs with
    | none =>
      simp only at h ⊢
      split at h
      · rename_i hn
        rw [run_dropEvent] at h
        cases h
        rw [if_pos hn, dropEventW_edrops, hw1]
      · rename_i hn
        cases h
        rw [if_neg hn, hw1]
    | some hs =>
      simp only at h ⊢
      generalize hh : (handlerPhase it info loc hs).run.run w1 = r at h
      obtain ⟨(e|owned), wh⟩ := r
      · cases h
      · have hwh := (handlerPhase_spec (l := w.edrops) it info loc hs).ok hw1 hh
        refine ⟨owned, wh, rfl, hwh.1, ?_⟩
        have hwe : wh.edrops = if owned = true then dropE it w.edrops else w.edrops := hwh.2
        simp only at h
        cases owned with
        | true =>
          simp only [if_true] at h
          cases h
          exact hwe
        | false =>
          simp only [Bool.false_eq_true, if_false] at h hwe ⊢
          by_cases hk : info.kind = .normal
          · unfold effectPhase at h
            rw [hk] at h
            simp only at h
            split at h
            · rename_i hn
              rw [run_dropEvent] at h
              cases h
              rw [if_pos ⟨hk, hn⟩, dropEventW_edrops]
              exact congrArg (dropE it) hwe
            · rename_i hn
              cases h
              rw [if_neg (fun hc => hn hc.2)]
              exact hwe
          · have := (effectPhase_ef (ef := ({ wh with queue := wh.queue.reverse } : World).effFrame) it info loc hk).run
              { wh with queue := wh.queue.reverse } rfl
            rw [h] at this
            have he : w'.edrops = wh.edrops := congrArg EffFrame.edrops this
            rw [if_neg (fun hc => hk hc.1), he]
            exact hwe

/-- **Disposition of the delivered event (ledger form), panic.** When `deliverOne it` throws `panic c`: either the
    panic came out of the handler loop — then, with `rej` the (at most one) event a failing send rejected, the ledger is
    `rej ++ dropE it l` with the flag set (a handler took the event; the guard did not drop it again) or
    `dropE it (rej ++ l)` with the flag clear (the guard dropped it; without a drop function: `rej ++ l`) — or it came
    out of the built-in effect, which is only run for an event nobody took and never for the `normal` kind: then the
    ledger is unchanged. -/
theorem deliverOne_panic_edrops {it : QItem} {w w' : World} {c : String}
    (h : (deliverOne it).run.run w = (.error (.panic c), w')) :
    ∃ info, w.evInfo it = some info ∧
      ((∃ rej : List Nat, rej.length ≤ 1 ∧
          ((w'.inflightOwned = true ∧ w'.edrops = rej ++ dropE it w.edrops) ∨
           (w'.inflightOwned = false ∧
              w'.edrops = if info.needsDrop then dropE it (rej ++ w.edrops) else rej ++ w.edrops))) ∨
       (info.kind ≠ .normal ∧ w'.inflightOwned = false ∧ w'.edrops = w.edrops)) := by
  rw [deliverOne_run] at h
  have he1 := (lookupPhase_ef (ef := w.effFrame) it w).run w rfl
  generalize hl : (lookupPhase it w).run.run w = r at h he1
  obtain ⟨(e|⟨info, hs, loc⟩), w1⟩ := r
  · cases h
    obtain ⟨s, hs⟩ := lookupPhase_error_ub hl
    cases hs
  · have hw1 : w1.edrops = w.edrops := congrArg EffFrame.edrops he1
    refine ⟨info, lookupPhase_info hl, ?_⟩
    cases hs with
    | none =>
      simp only at h
      split at h
      · rw [run_dropEvent] at h; cases h
      · cases h
    | some hs =>
      simp only at h
      generalize hh : (handlerPhase it info loc hs).run.run w1 = r at h
      obtain ⟨(e|owned), wh⟩ := r
      · cases h
        left
        exact (handlerPhase_spec (l := w.edrops) it info loc hs).err hw1 hh
      · have hwh := (handlerPhase_spec (l := w.edrops) it info loc hs).ok hw1 hh
        simp only at h
        cases owned with
        | true => simp only [if_true] at h; cases h
        | false =>
          simp only [Bool.false_eq_true, if_false] at h
          right
          have hk : info.kind ≠ .normal := by
            intro hk
            unfold effectPhase at h
            rw [hk] at h
            simp only at h
            split at h
            · rw [run_dropEvent] at h; cases h
            · cases h
          have := (effectPhase_ef (ef := ({ wh with queue := wh.queue.reverse } : World).effFrame) it info loc hk).run
            { wh with queue := wh.queue.reverse } rfl
          rw [h] at this
          refine ⟨hk, ?_, ?_⟩
          · exact (congrArg EffFrame.inflightOwned this).trans hwh.1
          · exact (congrArg EffFrame.edrops this).trans hwh.2

end Evenio
