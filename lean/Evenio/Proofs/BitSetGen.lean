import Evenio.Generated.BitSetGen
import Evenio.Model.BitSet
/-! The functions regenerated from `/repo/src/bit_set.rs` by `tools/rs2lean` (`Evenio.Gen.BitSet.*`) ARE the hand model's
    (`Model/BitSet.lean`, the model `Proofs/BitSet.lean` proves to refine a finite set): `new`, `clear`, `grow_to_block`,
    `is_disjoint`, `len`, `is_empty`, `insert`, `remove`, `contains`, `|=`, `^=` and the free function `div_rem`.
    `Block = usize` is `BitVec 64` on both sides (`--bits Block=64`); the generated code uses `&&& ||| ^^^ ~~~ <<< >>>` and
    `BitVec.cpop`, so the equalities are by unfolding, `cases` and `simp` (no `bv_decide`).
    `grow_to_block` returns a `&mut Block`: the translated function returns the block's index, the caller (`insert`) works on a
    copy and writes it back.
    Not translated: `Iter` (a `while` loop with `?` inside, `trailing_zeros`), `shrink_to_fit` (`while let` / `break`),
    `Ord::cmp` (`loop` over two iterators): outside the subset; they stay tied by the differential check only.
    The generated file is rewritten on every run of `tools/extract.py`.  Core Lean only. -/
namespace Evenio
namespace BitSetGen
open Rs2Lean

theorem div_rem_eq (a b : Nat) : Gen.BitSet.div_rem a b = (a / b, a % b) := rfl

theorem new_eq : Gen.BitSet.new = BitSet.new := rfl

theorem clear_eq (s : BitSet) : Gen.BitSet.clear s = s.clear := rfl

theorem vecResize_eq (l : List BitSet.Block) (n : Nat) : vecResize l n 0 = BitSet.resize l n := rfl

/-- the translated `grow_to_block` is `growToBlock`, and the borrow it returns is the block at the index asked for -/
theorem grow_to_block_eq (s : BitSet) (i : Nat) : Gen.BitSet.grow_to_block s i = (s.growToBlock i, i) := by
  simp only [Gen.BitSet.grow_to_block, BitSet.growToBlock, vecLen, vecResize_eq]

/-- the translated `is_disjoint` (`iter().zip(..).all(..)`) is `isDisjoint` -/
theorem is_disjoint_eq (s o : BitSet) : Gen.BitSet.is_disjoint s o = s.isDisjoint o := by
  simp only [Gen.BitSet.is_disjoint, BitSet.isDisjoint]
  refine congrArg (List.all (s.blocks.zip o.blocks)) (funext fun p => ?_)
  obtain ⟨a, b⟩ := p
  by_cases h : a &&& b = 0#64 <;> simp [h]

/-- the translated `len` (`iter().map(count_ones).sum()`) is `len` -/
theorem len_eq (s : BitSet) : Gen.BitSet.len s = s.len := rfl

/-- the translated `is_empty` is `isEmpty` -/
theorem is_empty_eq (s : BitSet) : Gen.BitSet.is_empty s = s.isEmpty := by
  simp only [Gen.BitSet.is_empty, BitSet.isEmpty]
  refine congrArg (List.all s.blocks) (funext fun b => ?_)
  by_cases h : b = 0#64 <;> simp [h]

/-- the translated `insert` is `insert`: the new set and "newly inserted" -/
theorem insert_eq (s : BitSet) (v : Nat) : Gen.BitSet.insert s v = s.insert v := by
  simp only [Gen.BitSet.insert, BitSet.insert, div_rem_eq, grow_to_block_eq, optUnwrap, vecGet, vecSet, BitSet.mask,
    BitSet.BITS]
  have hd : ∀ (l : List BitSet.Block) (i : Nat), (l[i]?).getD default = l.getD i 0 := by
    intro l i; simp [List.getD]; rfl
  rw [hd]
  congr 1

/-- the translated `remove` is `remove`: the new set and "was present" -/
theorem remove_eq (s : BitSet) (v : Nat) : Gen.BitSet.remove s v = s.remove v := by
  simp only [Gen.BitSet.remove, BitSet.remove, div_rem_eq, vecGet, vecSet, BitSet.mask, BitSet.BITS]
  cases s.blocks[v / 64]? with
  | none => rfl
  | some b =>
    simp only []
    congr 1
    by_cases h : b &&& 1#64 <<< (v % 64) = 0#64 <;> simp [h]

/-- the translated `contains` is `contains` -/
theorem contains_eq (s : BitSet) (v : Nat) : Gen.BitSet.contains s v = s.contains v := by
  simp only [Gen.BitSet.contains, BitSet.contains, div_rem_eq, vecGet, BitSet.BITS]
  cases s.blocks[v / 64]? with
  | none => rfl
  | some b =>
    simp only [Option.elim]
    by_cases h : b >>> (v % 64) &&& 1#64 = 1#64 <;> simp [h]

theorem vecZipMut_eq (f : BitSet.Block → BitSet.Block → BitSet.Block) (l r : List BitSet.Block) :
    vecZipMut f l r = BitSet.zipAssign f l r := by
  induction l generalizing r with
  | nil => cases r <;> rfl
  | cons a l ih =>
    cases r with
    | nil => rfl
    | cons b r => simp [vecZipMut, BitSet.zipAssign, ih]

/-- the translated `BitOrAssign::bitor_assign` (`self |= rhs`) is `orAssign` -/
theorem bitor_assign_eq (s r : BitSet) : Gen.BitSet.bitor_assign s r = s.orAssign r := by
  simp only [Gen.BitSet.bitor_assign, BitSet.orAssign, vecLen, vecResize_eq, vecZipMut_eq]
  split <;> rfl

/-- the translated `BitXorAssign::bitxor_assign` (`self ^= rhs`) is `xorAssign` -/
theorem bitxor_assign_eq (s r : BitSet) : Gen.BitSet.bitxor_assign s r = s.xorAssign r := by
  simp only [Gen.BitSet.bitxor_assign, BitSet.xorAssign, vecLen, vecResize_eq, vecZipMut_eq]
  split <;> rfl

end BitSetGen
end Evenio
