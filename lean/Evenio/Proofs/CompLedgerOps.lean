import Evenio.Proofs.CompLedgerDeliver
/-! # The component ledger, part 4: registration, removal, the top-level operations

`sendGlobal_cl` / `sendTargeted_cl` (the event value is owned by `send`: queued and delivered, or dropped on the way
out), the registration functions, `removeHandler`, `removeEvent`, `archsRemoveComponent` (`Archetype::drop` of every
archetype that has the component), `removeComponent`, and

**`execOp_cl : ∀ op, KP (CL X) (execOp op)`** — EVERY top-level operation (no validity condition: `drop` and the
generation hook with any generation included), with arbitrary handler programs, keeps the ledger predicate on normal
return and on every panic. -/
namespace Evenio.CompLedger
open SparseMap (swapRemove)

variable {X : List Nat}


theorem ensureAddG_cl : KP (CL X) ensureAddG := by unfold ensureAddG; cl_keeps
macro_rules | `(tactic| cl_leaf) => `(tactic| exact ensureAddG_cl)
theorem addGlobalEvent_cl (ty : EvTy) : KP (CL X) (addGlobalEvent ty) := by unfold addGlobalEvent; cl_keeps
macro_rules | `(tactic| cl_leaf) => `(tactic| exact addGlobalEvent_cl _)

/-- a handler of `tryCatch` that destroys the event value and rethrows -/
theorem dropRethrow_cl (it : QItem) (e : Err) {α : Type} {Q : α → World → Prop} :
    Hoare (PanicOnly (CL (itemSers it ++ X)) e) (do dropEvent it; throw e : M α) Q (PanicOnly (CL X)) := by
  by_cases hp : e.isPanic = true
  · refine Hoare.pre (P' := CL (itemSers it ++ X)) ?_ (fun w h => h hp)
    exact Hoare.bind (dropEvent_cl it) fun _ => Hoare.throw fun _ h _ => h
  · refine ⟨fun w _ => ?_⟩
    rw [run_bind, run_dropEvent]
    exact fun hp' => absurd hp' hp

/-- **`World::send`**: the event value is owned by `send`; it is queued and delivered, or dropped on the way out -/
theorem sendGlobal_cl (ty : EvTy) (pay : Payload) : LK (CL ([pay.cell.ser] ++ X)) (sendGlobal ty pay) (CL X) := by
  unfold sendGlobal
  refine Hoare.bind (R := fun _ => CL ([pay.cell.ser] ++ X))
    (Hoare.tryCatch (addGlobalEvent_cl ty) fun e => ?_) fun k => ?_
  · exact dropRethrow_cl { ty, idx := 0, pay } e
  · exact Hoare.bind (R := fun _ => CL X) (push_cl { ty, idx := k.idx, pay }) fun _ => flush_cl _

theorem sendGlobal_cl_zero (ty : EvTy) (pay : Payload) (h : pay.cell.ser = 0) : KP (CL X) (sendGlobal ty pay) :=
  Hoare.pre (sendGlobal_cl ty pay) fun w hw => by rw [h]; exact CLF.add_zero hw
macro_rules | `(tactic| cl_leaf) => `(tactic| exact sendGlobal_cl_zero _ _ rfl)

theorem addComponent_cl (ty : Nat) : KP (CL X) (addComponent ty) := by unfold addComponent; cl_keeps
macro_rules | `(tactic| cl_leaf) => `(tactic| exact addComponent_cl _)
theorem addTargetedEvent_cl (ty : EvTy) : KP (CL X) (addTargetedEvent ty) := by unfold addTargetedEvent; cl_keeps
macro_rules | `(tactic| cl_leaf) => `(tactic| exact addTargetedEvent_cl _)
theorem addEvent_cl (ty : EvTy) : KP (CL X) (addEvent ty) := by unfold addEvent; cl_keeps
macro_rules | `(tactic| cl_leaf) => `(tactic| exact addEvent_cl _)

/-- **`World::send_to`** -/
theorem sendTargeted_cl (ty : EvTy) (tg : Key) (pay : Payload) :
    LK (CL ([pay.cell.ser] ++ X)) (sendTargeted ty tg pay) (CL X) := by
  unfold sendTargeted
  refine Hoare.bind (R := fun _ => CL ([pay.cell.ser] ++ X))
    (Hoare.tryCatch (addTargetedEvent_cl ty) fun e => ?_) fun k => ?_
  · exact dropRethrow_cl { ty, idx := 0, pay } e
  · exact Hoare.bind (R := fun _ => CL X) (push_cl { ty, idx := k.idx, target := tg, pay }) fun _ => flush_cl _

theorem sendTargeted_cl_zero (ty : EvTy) (tg : Key) (pay : Payload) (h : pay.cell.ser = 0) :
    KP (CL X) (sendTargeted ty tg pay) :=
  Hoare.pre (sendTargeted_cl ty tg pay) fun w hw => by rw [h]; exact CLF.add_zero hw
macro_rules | `(tactic| cl_leaf) => `(tactic| exact sendTargeted_cl_zero _ _ _ rfl)

theorem initQuery_cl (q : Query) (cfg : Config) : KP (CL X) (initQuery q cfg) := by unfold initQuery; cl_keeps
macro_rules | `(tactic| cl_leaf) => `(tactic| exact initQuery_cl _ _)
theorem initParam_cl (ps : PSpec) (cfg : Config) : KP (CL X) (initParam ps cfg) := by unfold initParam; cl_keeps
macro_rules | `(tactic| cl_leaf) => `(tactic| exact initParam_cl _ _)
theorem opSpawn_cl : KP (CL X) opSpawn := by unfold opSpawn; cl_keeps
macro_rules | `(tactic| cl_leaf) => `(tactic| exact opSpawn_cl)


theorem Hoare.of_pure_pre {α : Type} {P : World → Prop} {p : Prop} {m : M α} {Q : α → World → Prop}
    {E : Err → World → Prop} (h : p → Hoare P m Q E) : Hoare (fun w => P w ∧ p) m Q E :=
  ⟨fun w hw => (h hw.2).run w hw.1⟩

/-- one step of `archetypes.register_handler(info)` -/
theorem registerStep_cl {β : Type} (k : Key) (i : Nat) (c : M β) (hc : KP (CL X) c) :
    KP (CL X) (do
      let a ← getArch i "register_handler:arch"
      let l ← get
      match l.handlers.get k with
        | some h => do
          let a' ← a.registerHandler h
          setArch a'
          c
        | _ => do
          ubErr "register_handler:info"
          c) := by
  refine Hoare.bind (getArch_spec _ _) fun a => ?_
  refine Hoare.get_bind fun w _ => ?_
  split
  · rename_i h _
    refine Hoare.bind (Hoare.post (registerHandler_spec a h (P := fun w => CL X w ∧ w.archs.get i = some a) ?_)
      (fun _ _ hh => hh) (fun _ _ hh hp => (hh hp).1)) fun a' => ?_
    · unfold handlerRefresh dbgAssert; cl_keeps
    · refine Hoare.of_pure_pre fun ha' => ?_
      subst ha'
      obtain ⟨f1, f2, f3⟩ := registerPure_fields a h
      exact Hoare.bind (setArch_of_get f1 f2 (by rw [f3])) fun _ => hc
  · exact hoare_ubErr_bind _ _

theorem addHandler_cl (hs : HSpec) : KP (CL X) (addHandler hs) := by
  unfold addHandler
  repeat' first
    | refine registerStep_cl _ _ _ ?_
    | cl_step


/-- inside a loop over a snapshot of the slab: the archetypes still to be visited are unchanged -/
def SnapInv (X : List Nat) (L : List (Nat × Arch)) (w : World) : Prop :=
  CL X w ∧ (∀ q ∈ L, w.archs.get q.1 = some q.2) ∧ (L.map (·.1)).Nodup

theorem setArch_snap {E : Err → World → Prop} {rest : List (Nat × Arch)} {p : Nat × Arch} (a' : Arch)
    (h1 : a'.index = p.2.index) (h2 : a'.cols = p.2.cols) (h3 : a'.ids.length = p.2.ids.length) :
    Hoare (SnapInv X (p :: rest)) (setArch a') (fun _ => SnapInv X rest) E := by
  refine ⟨fun w hw => ?_⟩
  obtain ⟨hcl, hget, hnd⟩ := hw
  have hp := hget p (List.mem_cons_self ..)
  have hi : p.2.index = p.1 := hcl.idx _ _ hp
  have := (setArch_of_get (X := X) (a := p.2) (a' := a') (i := p.1) h1 h2 h3).run w ⟨hcl, hp⟩
  rw [run_setArch] at this ⊢
  refine ⟨this, fun q hq => ?_, (List.nodup_cons.1 hnd).2⟩
  show (w.archs.set a'.index a').get q.1 = some q.2
  have hne : q.1 ≠ a'.index := by
    rw [h1, hi]
    intro he
    refine (List.nodup_cons.1 hnd).1 ?_
    have := List.mem_map_of_mem (f := fun x : Nat × Arch => x.1) hq
    rw [he] at this
    exact this
  rw [Slab.get_set_other _ hne]
  exact hget q (List.mem_cons_of_mem _ hq)

/-- a loop over `archs.toList` that rewrites every archetype in place -/
theorem snapLoop_cl {β : Type} {body : Nat × Arch → PUnit → M (ForInStep PUnit)} {c : PUnit → M β}
    (hb : ∀ p rest, Hoare (SnapInv X (p :: rest)) (body p PUnit.unit) (fun _ => SnapInv X rest) (PanicOnly (CL X)))
    (hc : ∀ u, KP (CL X) (c u)) :
    KP (CL X) (do
      let l ← get
      let r ← forIn l.archs.toList PUnit.unit body
      c r) := by
  refine Hoare.get_bind_at fun w hw => ?_
  refine Hoare.bind (R := fun _ => CL X) ?_ hc
  refine Hoare.post (Q := fun _ => SnapInv X []) (E := PanicOnly (CL X)) ?_ (fun _ _ h => h.1) (fun _ _ h => h)
  refine Hoare.pre (Hoare.forIn_list_sfx (fun rest (_ : PUnit) w => SnapInv X rest w)
    (fun p rest u => ?_) w.archs.toList PUnit.unit) (fun w' hw' => ?_)
  · refine Hoare.post (hb p rest) (fun r w h => ?_) (fun _ _ h => h)
    cases r with
    | done _ => exact And.intro h.1 (And.intro (fun q hq => nomatch hq) List.nodup_nil)
    | yield _ => exact h
  · subst hw'
    exact ⟨hw, fun q hq => (Slab.mem_toList_iff _ _ _).1 hq, Slab.toList_keys_nodup _⟩

theorem removeHandler_cl (k : Key) : KP (CL X) (removeHandler k) := by
  unfold removeHandler
  repeat' first
    | refine snapLoop_cl (fun p rest => by
        obtain ⟨i, a⟩ := p
        dsimp only
        repeat' split
        all_goals exact Hoare.bind (setArch_snap _ rfl rfl rfl) fun _ => Hoare.pure fun _ h => h)
        (fun _ => KP.pure _)
    | cl_step


theorem removeEvent_cl (ty : EvTy) (k : Key) : KP (CL X) (removeEvent ty k) := by
  unfold removeEvent
  repeat' first
    | exact removeHandler_cl _
    | cl_step
macro_rules | `(tactic| cl_leaf) => `(tactic| exact removeHandler_cl _)
macro_rules | `(tactic| cl_leaf) => `(tactic| exact removeEvent_cl _ _)

/-- read an archetype and write it back with the same cells, rows and index -/
theorem getSet_cl {β : Type} (j : Nat) (f : Arch → Arch)
    (hf : ∀ a, (f a).index = a.index ∧ (f a).cols = a.cols ∧ (f a).ids.length = a.ids.length) (c : M β)
    (hc : KP (CL X) c) :
    KP (CL X) (do
      let l ← get
      match l.archs.get j with
        | some oa => do
          setArch (f oa)
          c
        | none => c) := by
  refine Hoare.get_bind_at fun w hw => ?_
  split
  · rename_i oa hoa
    refine Hoare.bind (R := fun _ => CL X) (Hoare.pre (setArch_of_get (a := oa) (i := j) (hf oa).1 (hf oa).2.1 (hf oa).2.2)
      fun w' hw' => by subst hw'; exact ⟨hw, hoa⟩) fun _ => hc
  · exact Hoare.pre hc fun w' hw' => by subst hw'; exact hw

/-- `Archetype::drop`: the destructors of everything still stored in an archetype that has left the slab -/
theorem dropCols_cl (tyOf : Nat → World → Nat) (zs : List (Nat × List Cell)) :
    LK (CL (cellSers (zs.map (·.2)) ++ X))
      (forIn zs PUnit.unit fun x _ =>
        match x with
        | (c, col) => do
          let w' ← get
          forIn col PUnit.unit fun x _ => do
            dropCell (tyOf c w') x
            pure (ForInStep.yield PUnit.unit)
          pure (ForInStep.yield PUnit.unit)) (CL X) := by
  refine Hoare.post (Q := fun _ => CL (cellSers (([] : List (Nat × List Cell)).map (·.2)) ++ X)) ?_
    (fun _ _ h => h) (fun _ _ h => h)
  refine Hoare.pre (Hoare.forIn_list_sfx (fun rest (_ : PUnit) w => CL (cellSers (rest.map (·.2)) ++ X) w)
    (fun p rest u => ?_) zs PUnit.unit) (fun _ h => h)
  obtain ⟨c, col⟩ := p
  dsimp only
  refine Hoare.get_bind fun w' _ => ?_
  refine Hoare.bind (R := fun _ => CL (cellSers (rest.map (·.2)) ++ X)) ?_ fun _ => Hoare.pure fun _ h => h
  refine Hoare.post (Q := fun _ => CL ((([] : List Cell).map (·.ser)) ++ (cellSers (rest.map (·.2)) ++ X))) ?_
    (fun _ _ h => h) (fun _ _ h => h)
  refine Hoare.pre (Hoare.forIn_list_sfx (fun (cells : List Cell) (_ : PUnit) w =>
    CL (cells.map (·.ser) ++ (cellSers (rest.map (·.2)) ++ X)) w) (fun x cells u => ?_) col PUnit.unit) (fun w h => ?_)
  · exact Hoare.bind (R := fun _ => CL (cells.map (·.ser) ++ (cellSers (rest.map (·.2)) ++ X)))
      (Hoare.pre (dropCell_cl _ x) fun _ h => h) fun _ => Hoare.pure fun _ h => h
  · rw [List.map_cons, cellSers_cons, List.append_assoc] at h
    exact h


theorem CLF.slab_remove {A A' : Slab Arch} {Q D n X} {i : Nat} {a : Arch} (h : CLF A Q D n X)
    (hr : A.remove i = some (a, A')) : CLF A' Q D n (cellSers a.cols ++ X) := by
  have hget : ∀ j b, A'.get j = some b → A.get j = some b := by
    intro j b hb
    by_cases hj : j = i
    · subst hj; rw [Slab.get_remove_same hr] at hb; cases hb
    · rw [Slab.get_remove_other hr hj] at hb; exact hb
  refine h.mono (fun j b hb => h.idx j b (hget j b hb)) (fun j b hb => h.cols j b (hget j b hb)) (fun s => ?_)
    (Nat.le_refl _)
  have := count_storedSers_remove hr s
  unfold serCount
  rw [List.count_append]
  omega

theorem CLF.sub_X {A Q D n} {X X' Z : List Nat} (h : CLF A Q D n (X ++ Z)) (hp : ∀ s, X'.count s ≤ X.count s) :
    CLF A Q D n (X' ++ Z) :=
  h.perm fun s => by rw [List.count_append, List.count_append]; have := hp s; omega

theorem KP.weakE {α : Type} {Y : List Nat} {m : M α} (h : KP (CL (Y ++ X)) m) :
    Hoare (CL (Y ++ X)) m (fun _ => CL (Y ++ X)) (PanicOnly (CL X)) :=
  Hoare.post h (fun _ _ h => h) (fun _ _ h hp => CLF.drop_left (h hp))

/-- **`Archetypes::remove_component`**: every archetype that has the component leaves the slab; the cells it still
    stores are dropped (`Archetype::drop`) -/
theorem archsRemoveComponent_cl (info : CompInfo) : KP (CL X) (archsRemoveComponent info) := by
  unfold archsRemoveComponent
  dsimp only
  refine Hoare.bind_inv (Hoare.forIn_list_inv fun ai _ => ?_) fun _ => ?_
  · refine Hoare.get_bind_at fun w hw => ?_
    split
    · exact hoare_throw_bind _ _ fun w' hw' _ => by subst hw'; exact hw
    · rename_i arch archs hrem
      refine Hoare.bind (R := fun _ => CL (cellSers arch.cols ++ X))
        ⟨fun w' _ => CLF.slab_remove hw hrem⟩ fun _ => ?_
      have fin : ∀ s, (cellSers ((arch.comps.zip arch.cols).map (·.2))).count s ≤ (cellSers arch.cols).count s :=
        count_cellSers_zip_le arch.comps arch.cols
      -- five frame loops, then the destructors
      refine Hoare.bind (R := fun _ => CL (cellSers arch.cols ++ X)) (KP.weakE ?_) fun _ => ?_
      · cl_keeps
      refine Hoare.bind (R := fun _ => CL (cellSers arch.cols ++ X)) (KP.weakE ?_) fun _ => ?_
      · cl_keeps
      refine Hoare.bind (R := fun _ => CL (cellSers arch.cols ++ X)) (KP.weakE ?_) fun _ => ?_
      · cl_keeps
      refine Hoare.bind (R := fun _ => CL (cellSers arch.cols ++ X)) (KP.weakE ?_) fun _ => ?_
      · refine Hoare.forIn_list_inv fun p _ => ?_
        obtain ⟨c, other⟩ := p
        dsimp only
        refine getSet_cl other _ ?_ _ (KP.pure _)
        exact fun _ => ⟨rfl, rfl, rfl⟩
      refine Hoare.bind (R := fun _ => CL (cellSers arch.cols ++ X)) (KP.weakE ?_) fun _ => ?_
      · refine Hoare.forIn_list_inv fun p _ => ?_
        obtain ⟨c, other⟩ := p
        dsimp only
        refine getSet_cl other _ ?_ _ (KP.pure _)
        exact fun _ => ⟨rfl, rfl, rfl⟩
      refine Hoare.bind (R := fun _ => CL X) ?_ fun _ => KP.pure _
      exact Hoare.pre (dropCols_cl (fun c w' => if (c == info.id.idx) = true then info.ty else w'.compTy c) _)
        fun _ h => CLF.sub_X h fin
  · exact snapLoop_cl (fun p rest => by
      obtain ⟨i, a⟩ := p
      exact Hoare.bind (setArch_snap _ rfl rfl rfl) fun _ => Hoare.pure fun _ h => h) (fun _ => KP.pure _)

macro_rules | `(tactic| cl_leaf) => `(tactic| exact archsRemoveComponent_cl _)
macro_rules | `(tactic| cl_leaf) => `(tactic| exact addHandler_cl _)

theorem removeComponent_cl (k : Key) : KP (CL X) (removeComponent k) := by unfold removeComponent; cl_keeps
macro_rules | `(tactic| cl_leaf) => `(tactic| exact removeComponent_cl _)



theorem storedSers_toList_aux (g : SlabEntry Arch × Nat → Option (Nat × Arch))
    (h1 : ∀ a i, g (.occ a, i) = some (i, a)) (h2 : ∀ k i, g (.vacant k, i) = none)
    (l : List (SlabEntry Arch)) (n : Nat) :
    l.flatMap entrySers = ((l.zipIdx n).filterMap g).flatMap fun p => cellSers p.2.cols := by
  induction l generalizing n with
  | nil => rfl
  | cons e l ih =>
    rw [List.zipIdx_cons, List.flatMap_cons, List.filterMap_cons]
    cases e with
    | vacant k => rw [h2]; simp only [entrySers, List.nil_append]; exact ih _
    | occ a => rw [h1]; simp only [entrySers, List.flatMap_cons]; rw [ih]

theorem storedSers_toList (A : Slab Arch) : storedSers A = A.toList.flatMap fun p => cellSers p.2.cols := by
  unfold storedSers Slab.toList
  exact storedSers_toList_aux _ (fun _ _ => rfl) (fun _ _ => rfl) A.entries 0

/-- the ledger predicate for the slab `World::drop` leaves (empty), while the loops still run -/
abbrev CLV (Y : List Nat) (w : World) : Prop := CLF { entries := [], next := 0 } w.queue w.cdrops w.nextCSerial Y

theorem dropCellIdx_clv {E : Err → World → Prop} {Y : List Nat} (c : Nat) (x : Cell) :
    Hoare (CLV (x.ser :: Y)) (dropCellIdx c x) (fun _ => CLV Y) E := by
  refine ⟨fun w h => ?_⟩
  rw [run_dropCellIdx]
  show CLV Y (dropCellW (w.compTy c) x w)
  unfold dropCellW
  split
  · exact CLF.dropped _ _ h
  · exact CLF.forget _ h

theorem execOp_drop_cl : KP (CL X) (execOp .drop) := by
  unfold execOp
  dsimp only
  refine Hoare.get_bind_at fun w hw => ?_
  refine Hoare.bind (R := fun _ => CLV X) ?_ fun _ => ?_
  · refine Hoare.post (Q := fun _ => CLV ((([] : List (Nat × Arch)).flatMap fun p => cellSers p.2.cols) ++ X))
      (E := PanicOnly (CL X)) ?_ (fun _ _ h => h) (fun _ _ h => h)
    refine Hoare.pre (Hoare.forIn_list_sfx (fun rest (_ : PUnit) w' =>
      CLV ((rest.flatMap fun p => cellSers p.2.cols) ++ X) w') (fun p rest u => ?_) w.archs.toList PUnit.unit)
      (fun w' hw' => ?_)
    · obtain ⟨i, a⟩ := p
      dsimp only
      refine Hoare.bind (R := fun _ => CLV ((rest.flatMap fun p => cellSers p.2.cols) ++ X)) ?_
        fun _ => Hoare.pure fun _ h => h
      -- the columns of one archetype
      generalize hR : (rest.flatMap fun p => cellSers p.2.cols) ++ X = R
      refine Hoare.post (Q := fun _ => CLV (cellSers (([] : List (Nat × List Cell)).map (·.2)) ++ R)) ?_
        (fun _ _ h => h) (fun _ _ h => h)
      refine Hoare.pre (Hoare.forIn_list_sfx (fun zs (_ : PUnit) w' => CLV (cellSers (zs.map (·.2)) ++ R) w')
        (fun q zs u => ?_) (a.comps.zip a.cols) PUnit.unit) (fun w' h => ?_)
      · obtain ⟨c, col⟩ := q
        dsimp only
        refine Hoare.bind (R := fun _ => CLV (cellSers (zs.map (·.2)) ++ R)) ?_ fun _ => Hoare.pure fun _ h => h
        refine Hoare.post (Q := fun _ => CLV ((([] : List Cell).map (·.ser)) ++ (cellSers (zs.map (·.2)) ++ R))) ?_
          (fun _ _ h => h) (fun _ _ h => h)
        refine Hoare.pre (Hoare.forIn_list_sfx (fun (cells : List Cell) (_ : PUnit) w' =>
          CLV (cells.map (·.ser) ++ (cellSers (zs.map (·.2)) ++ R)) w') (fun x cells u => ?_) col PUnit.unit)
          (fun w' h => ?_)
        · exact Hoare.bind (R := fun _ => CLV (cells.map (·.ser) ++ (cellSers (zs.map (·.2)) ++ R)))
            (Hoare.pre (dropCellIdx_clv c x) fun _ h => h) fun _ => Hoare.pure fun _ h => h
        · rw [List.map_cons, cellSers_cons, List.append_assoc] at h
          exact h
      · rw [List.flatMap_cons, List.append_assoc, hR] at h
        exact CLF.sub_X h (count_cellSers_zip_le a.comps a.cols)
    · subst hw'
      rw [← storedSers_toList]
      refine CLF.mono hw (fun i a h => ?_) (fun i a h => ?_) (fun s => ?_) (Nat.le_refl _)
      · rw [Slab.get_eq_some_iff] at h; cases h
      · rw [Slab.get_eq_some_iff] at h; cases h
      · unfold serCount
        rw [List.count_append, storedSers_empty]
        simp only [List.count_nil]
        omega
  · exact Hoare.bind (R := fun _ => CL X) ⟨fun w' h => h⟩ fun _ => KP.pure _
theorem execOp_cl (op : Op) : KP (CL X) (execOp op) := by
  unfold execOp
  cases op
  case insert n k v =>
    dsimp only
    refine Hoare.bind freshC_spec fun s => ?_
    refine Hoare.get_bind fun w _ => ?_
    exact Hoare.bind (Hoare.pre (sendTargeted_cl _ _ _) fun _ h => h) fun _ => KP.pure _
  case setgen n g =>
    dsimp only
    refine Hoare.get_bind_at fun w hw => ?_
    split
    · exact KP.pure _ |>.pre fun w' hw' => by subst hw'; exact hw
    · rename_i loc _
      split
      · exact KP.pure _ |>.pre fun w' hw' => by subst hw'; exact hw
      · split
        · exact KP.pure _ |>.pre fun w' hw' => by subst hw'; exact hw
        · refine Hoare.bind (getArch_spec _ _) fun a => ?_
          refine Hoare.bind (R := fun _ w' => CL X w' ∧ w'.archs.get loc.arch = some a) ⟨fun w' hw' => ?_⟩ fun _ => ?_
          · obtain ⟨rfl, hg⟩ := hw'
            exact ⟨hw, hg⟩
          · exact Hoare.bind (setArch_of_get rfl rfl (by simp)) fun _ => KP.pure _
  case drop => exact execOp_drop_cl
  all_goals cl_keeps

end Evenio.CompLedger
