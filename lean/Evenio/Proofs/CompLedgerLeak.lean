import Evenio.Proofs.CompLedgerOps
import Evenio.Proofs.Registry
/-! # No leak, part 1: `World::drop` runs the destructor of every stored cell

`Logged C S w` — the component registry is `C` and every entry of `S` is in the ledger.  It only grows along
`dropCellIdx`; a loop that logs `need a` for every element `a` logs `l.flatMap need`.  `execOp_drop_logs`: `World::drop`
never fails, empties the slab, and logs `(type, serial)` of EVERY cell of every column that is paired with a component
index of a type with destructor. -/
namespace Evenio.CompLedger

/-- `World.compTy` as a function of the component registry -/
def tyOf (C : SlotMap CompInfo) (c : Nat) : Nat := ({ comps := C } : World).compTy c

theorem compTy_eq_tyOf (w : World) (c : Nat) : w.compTy c = tyOf w.comps c := rfl

/-- the ledger entry the destructor of `x`, stored under component index `c`, writes (none for a type without destructor) -/
def logOf (C : SlotMap CompInfo) (c : Nat) (x : Cell) : List (Nat × Nat) :=
  if compNeedsDrop (tyOf C c) then [(tyOf C c, x.ser)] else []

/-- the registry is `C` and everything in `S` has been logged -/
def Logged (C : SlotMap CompInfo × List QItem × Nat) (S : List (Nat × Nat)) (w : World) : Prop :=
  (w.comps = C.1 ∧ w.queue = C.2.1 ∧ w.nextCSerial = C.2.2) ∧ ∀ e ∈ S, e ∈ w.cdrops

theorem dropCellIdx_logged {E : Err → World → Prop} (C : SlotMap CompInfo × List QItem × Nat) (S : List (Nat × Nat))
    (c : Nat) (x : Cell) : Hoare (Logged C S) (dropCellIdx c x) (fun _ => Logged C (S ++ logOf C.1 c x)) E := by
  refine ⟨fun w hw => ?_⟩
  rw [run_dropCellIdx]
  obtain ⟨hc, hs⟩ := hw
  show Logged C (S ++ logOf C.1 c x) (dropCellW (w.compTy c) x w)
  rw [compTy_eq_tyOf, hc.1]
  unfold dropCellW logOf
  by_cases hn : compNeedsDrop (tyOf C.1 c) = true
  · rw [if_pos hn, if_pos hn]
    refine ⟨hc, fun e he => ?_⟩
    rcases List.mem_append.1 he with he | he
    · exact List.mem_cons_of_mem _ (hs e he)
    · rw [List.mem_singleton.1 he]; exact List.mem_cons_self ..
  · rw [if_neg hn, if_neg hn, List.append_nil]
    exact ⟨hc, hs⟩

/-- a loop that logs `need a` for every element logs all of them -/
theorem loop_logged {γ : Type} {E : Err → World → Prop} (C : SlotMap CompInfo × List QItem × Nat) (need : γ → List (Nat × Nat))
    (body : γ → PUnit → M (ForInStep PUnit))
    (hb : ∀ a S, Hoare (Logged C S) (body a PUnit.unit)
      (fun r w => r = ForInStep.yield PUnit.unit ∧ Logged C (S ++ need a) w) E)
    (l : List γ) (S : List (Nat × Nat)) :
    Hoare (Logged C S) (forIn l PUnit.unit body) (fun _ => Logged C (S ++ l.flatMap need)) E := by
  induction l generalizing S with
  | nil => exact Hoare.pure fun _ h => by simpa using h
  | cons a l ih =>
    rw [List.forIn_cons]
    refine Hoare.bind (hb a S) fun r => ?_
    refine Hoare.pre (P' := fun w => Logged C (S ++ need a) w ∧ r = ForInStep.yield PUnit.unit)
      (Hoare.of_pure_pre fun hr => ?_) (fun _ h => ⟨h.2, h.1⟩)
    subst hr
    refine Hoare.post (ih (S ++ need a)) (fun _ _ h => ?_) (fun _ _ h => h)
    rw [List.flatMap_cons, ← List.append_assoc]
    exact h

/-- what `Archetype::drop` has to log for one archetype: every cell of every column paired with a component index -/
def archNeed (C : SlotMap CompInfo) (a : Arch) : List (Nat × Nat) :=
  (a.comps.zip a.cols).flatMap fun p => p.2.flatMap (logOf C p.1)

/-- **`World::drop`** never fails, leaves an empty slab and no entity, touches neither the queue nor the serial counter,
    and every cell of every column (paired with a component index) of every archetype of the world it was called in
    has been passed to its destructor: the ledger contains `(type, serial)` for each of them whose type has one -/
theorem execOp_drop_logs (w0 : World) :
    Hoare (fun w => w = w0) (execOp .drop)
      (fun l w' => l = [] ∧ w'.archs.entries = [] ∧ w'.queue = w0.queue ∧ w'.nextCSerial = w0.nextCSerial ∧
        (∀ e ∈ w0.cdrops, e ∈ w'.cdrops) ∧
        ∀ i a, w0.archs.get i = some a → ∀ e ∈ archNeed w0.comps a, e ∈ w'.cdrops)
      (fun _ _ => False) := by
  unfold execOp
  dsimp only
  refine Hoare.get_bind_at fun w hw => ?_
  subst hw
  refine Hoare.bind (R := fun _ w' => Logged (w.comps, w.queue, w.nextCSerial)
      (w.cdrops ++ w.archs.toList.flatMap fun p => archNeed w.comps p.2) w') ?_ fun _ => ?_
  · refine Hoare.pre (loop_logged (w.comps, w.queue, w.nextCSerial) (fun p : Nat × Arch => archNeed w.comps p.2) _
      (fun p S => ?_) w.archs.toList w.cdrops) (fun w' hw' => by subst hw'; exact ⟨⟨rfl, rfl, rfl⟩, fun e he => he⟩)
    obtain ⟨i, a⟩ := p
    dsimp only
    refine Hoare.bind (R := fun _ => Logged (w.comps, w.queue, w.nextCSerial) (S ++ archNeed w.comps a)) ?_
      fun _ => Hoare.pure fun _ h => ⟨rfl, h⟩
    refine loop_logged (w.comps, w.queue, w.nextCSerial) (fun q : Nat × List Cell => q.2.flatMap (logOf w.comps q.1)) _
      (fun q S' => ?_) (a.comps.zip a.cols) S
    obtain ⟨c, col⟩ := q
    dsimp only
    refine Hoare.bind (R := fun _ => Logged (w.comps, w.queue, w.nextCSerial) (S' ++ col.flatMap (logOf w.comps c))) ?_
      fun _ => Hoare.pure fun _ h => ⟨rfl, h⟩
    refine loop_logged (w.comps, w.queue, w.nextCSerial) (logOf w.comps c) _ (fun x S'' => ?_) col S'
    exact Hoare.bind (dropCellIdx_logged _ S'' c x) fun _ => Hoare.pure fun _ h => ⟨rfl, h⟩
  · refine Hoare.bind (R := fun _ w' => w'.archs.entries = [] ∧ Logged (w.comps, w.queue, w.nextCSerial)
      (w.cdrops ++ w.archs.toList.flatMap fun p => archNeed w.comps p.2) w') ⟨fun w' h => ⟨rfl, h⟩⟩ fun _ => ?_
    refine Hoare.pure fun w' h => ?_
    obtain ⟨h1, ⟨-, h2, h3⟩, h4⟩ := h
    refine ⟨rfl, h1, h2, h3, fun e he => h4 e (List.mem_append_left _ he), fun i a ha e he => ?_⟩
    refine h4 e (List.mem_append_right _ (List.mem_flatMap.2 ⟨(i, a), ?_, he⟩))
    exact (Slab.mem_toList_iff _ _ _).2 ha

/-! ## frames of the built-in effects: component types and the ledger -/

theorem tyOf_core (C : SlotMap CompInfo) (c : Nat) : tyOf (C.mapVal CompInfo.core) c = tyOf C c := by
  unfold tyOf World.compTy SlotMap.getByIndex SlotMap.mapVal
  simp only [List.getElem?_map]
  cases C.slots[c]? with
  | none => rfl
  | some s =>
    obtain ⟨g, n, v⟩ := s
    cases v with
    | none => simp [Slot.mapVal]
    | some ci => by_cases hg : g % 2 = 0 <;> simp [Slot.mapVal, hg, CompInfo.core]

theorem compTy_of_core {w w1 : World} (h : w1.compsCore = w.compsCore) (c : Nat) : w1.compTy c = w.compTy c := by
  rw [compTy_eq_tyOf, compTy_eq_tyOf, ← tyOf_core w1.comps, ← tyOf_core w.comps]
  unfold World.compsCore at h
  rw [h]

/-- the ledger is `D` -/
abbrev CD (D : List (Nat × Nat)) : World → Prop := fun w => w.cdrops = D
variable {D : List (Nat × Nat)}
theorem spawnAll_cd : Keeps (CD D) spawnAll := by
  unfold spawnAll archSpawn handlerRefresh getArch setArch freshEpoch dbgAssert ubErr; io_keeps
theorem traverseInsert_cd (src c : Nat) : Keeps (CD D) (traverseInsert src c) := by
  unfold traverseInsert newArch Arch.registerHandler handlerRefresh getArch setArch dbgAssert ubErr; io_keeps
theorem traverseRemove_cd (src c : Nat) : Keeps (CD D) (traverseRemove src c) := by
  unfold traverseRemove newArch Arch.registerHandler handlerRefresh getArch setArch dbgAssert ubErr; io_keeps

end Evenio.CompLedger
