import Evenio.Proofs.Flush
/-! A small invariant calculus for the world monad: `Keeps I m` says that running `m` from a world satisfying `I`
    ends (normally or not) in a world satisfying `I`. It is closed under `pure`, `throw`, `bind`, `tryCatch`, `for`
    loops, `if`/`match`; `get >>= f` hands the invariant of the world read to the continuation, so that
    `let w ← get; …; set { w with field := … }` is covered. The `keeps` tactic applies the rules. -/
namespace Evenio

structure Keeps {α : Type} (I : World → Prop) (m : M α) : Prop where
  run : ∀ w, I w → I (m.run.run w).2

namespace Keeps
variable {α β : Type} {I : World → Prop}

theorem pure (a : α) : Keeps I (Pure.pure a : M α) := ⟨fun _ h => h⟩
theorem throw (e : Err) : Keeps I (MonadExcept.throw e : M α) := ⟨fun _ h => h⟩
theorem get : Keeps I (MonadState.get : M World) := ⟨fun _ h => h⟩
theorem set {w' : World} (h : I w') : Keeps I (MonadStateOf.set w' : M PUnit) := ⟨fun _ _ => h⟩
theorem modify {f : World → World} (h : ∀ w, I w → I (f w)) : Keeps I (_root_.modify f : M PUnit) :=
  ⟨fun w hw => h w hw⟩
theorem modifyGet {f : World → α × World} (h : ∀ w, I w → I (f w).2) : Keeps I (MonadState.modifyGet f : M α) :=
  ⟨fun w hw => h w hw⟩

theorem bind {m : M α} {f : α → M β} (hm : Keeps I m) (hf : ∀ a, Keeps I (f a)) : Keeps I (m >>= f) := by
  refine ⟨fun w hw => ?_⟩
  rw [run_bind]
  have := hm.run w hw
  generalize m.run.run w = r at this
  obtain ⟨(e|a), w'⟩ := r
  · exact this
  · exact (hf a).run w' this

/-- the continuation may use the invariant of the world that was read -/
theorem get_bind {f : World → M β} (hf : ∀ w, I w → Keeps I (f w)) : Keeps I (MonadState.get >>= f) := by
  refine ⟨fun w hw => ?_⟩
  rw [run_bind, run_get]
  exact (hf w hw).run w hw

theorem tryCatch {m : M α} {h : Err → M α} (hm : Keeps I m) (hh : ∀ e, Keeps I (h e)) :
    Keeps I (MonadExcept.tryCatch m h) := by
  refine ⟨fun w hw => ?_⟩
  rw [run_tryCatch]
  have := hm.run w hw
  generalize m.run.run w = r at this
  obtain ⟨(e|a), w'⟩ := r
  · exact (hh e).run w' this
  · exact this

theorem tryCatchThe {m : M α} {h : Err → M α} (hm : Keeps I m) (hh : ∀ e, Keeps I (h e)) :
    Keeps I (_root_.tryCatchThe Err m h) := tryCatch hm hh

theorem forIn_list {γ : Type} {l : List γ} {b : β} {f : γ → β → M (ForInStep β)} (hf : ∀ a b, Keeps I (f a b)) :
    Keeps I (forIn l b f) := by
  induction l generalizing b with
  | nil => exact Keeps.pure b
  | cons a l ih =>
    rw [List.forIn_cons]
    refine bind (hf a b) fun r => ?_
    cases r with
    | done b => exact Keeps.pure b
    | yield b => exact ih

theorem forIn_range {r : Std.Legacy.Range} {b : β} {f : Nat → β → M (ForInStep β)} (hf : ∀ a b, Keeps I (f a b)) :
    Keeps I (forIn r b f) := by
  rw [Std.Legacy.Range.forIn_eq_forIn_range']
  exact forIn_list hf

theorem ite {c : Prop} [Decidable c] {t e : M α} (ht : Keeps I t) (he : Keeps I e) : Keeps I (if c then t else e) := by
  split <;> assumption

end Keeps

/-- one structural step -/
syntax "keeps_step" : tactic
/-- leaf lemmas about named model functions; extended with `macro_rules` -/
syntax "keeps_leaf" : tactic

macro_rules | `(tactic| keeps_leaf) => `(tactic| fail "no leaf lemma")

macro_rules
  | `(tactic| keeps_step) => `(tactic| first
      | with_reducible exact Keeps.pure _
      | with_reducible exact Keeps.throw _
      | with_reducible exact Keeps.get
      | with_reducible keeps_leaf
      | ((with_reducible refine Keeps.set ?_); first | assumption | (simp only []; assumption))
      | ((with_reducible refine Keeps.modify (fun _ h => ?_)); first | exact h | (simp only []; exact h))
      | ((with_reducible refine Keeps.modifyGet (fun _ h => ?_)); first | exact h | (simp only []; exact h))
      | (with_reducible refine Keeps.get_bind (fun _ _ => ?_))
      | (with_reducible refine Keeps.bind ?_ (fun _ => ?_))
      | (with_reducible refine Keeps.tryCatch ?_ (fun _ => ?_))
      | (with_reducible refine Keeps.tryCatchThe ?_ (fun _ => ?_))
      | (with_reducible refine Keeps.forIn_list (fun _ _ => ?_))
      | (with_reducible refine Keeps.forIn_range (fun _ _ => ?_))
      | (with_reducible refine Keeps.ite ?_ ?_)
      | dsimp only
      | split)

/-- prove `Keeps I m` structurally -/
macro "keeps" : tactic => `(tactic| repeat' keeps_step)

end Evenio
