import Evenio.Generated.SlotMapGen
import Evenio.Model.SlotMap
import Evenio.Proofs.SlotMap
/-! The functions regenerated from `/repo/src/slot_map.rs` by `tools/rs2lean` (`Evenio.Gen.SlotMap.*`) against the hand model
    the world model executes (`Evenio.SlotMap.insertWith`, `remove`, `get`, `getByIndex`, `nextKeyIndex`, `nextKey`).
    The generated file is rewritten on every run of `tools/extract.py`, so these theorems are re-checked against what the
    code says now.

    Shapes of the statements
    * `get`, `get_by_index`, `next_key_iter`, `Slot::is_vacant`, `Key::new`: plain equalities.
    * `insert_with`, `remove`: the translated method returns `(new self, Option result)`, the hand model
      `Option (result × new self)`; the relation is the explicit `match` in the statement (`none` ↦ the map is unchanged).
      `insert_with` needs the precondition of the skipped `debug_assert!(slot.is_vacant())` (the slot at the head of the free
      list is vacant); `remove` needs "a slot whose generation matches the key holds a value" (in Rust: keys have odd
      generations and a slot with an odd generation holds a value; otherwise `ManuallyDrop::take` reads the inactive union
      member).  Both follow from `SlotMap.WF` (`…_wf` versions; for `remove` with an odd key generation).
      No normalisation is needed: a retired slot keeps its stale `next` in the hand model too.
    * `NextKeyIter::next` returns an `Outcome`; the hand model's `NextKey` has the same three cases.
    Core Lean only. -/
namespace Evenio
namespace SlotMapGen
open Rs2Lean
variable {α : Type}

/-- the relation between the hand model's `Option (result × map)` and the translated `(map, Option result)` -/
def asGen {β : Type} (sm : SlotMap α) : Option (β × SlotMap α) → SlotMap α × Option β
  | some (r, sm') => (sm', some r)
  | none => (sm, none)

/-- the translated `Slot::is_vacant` is the hand model's test `gen % 2 = 0` -/
theorem isVacant_eq (s : Slot α) : Gen.SlotMap.Slot.is_vacant s = decide (s.gen % 2 = 0) := rfl

/-- the translated `Key::new`: `Some` exactly for odd generations, and then the pair (the bit packing is not translated) -/
theorem keyNew_eq (i g : Nat) : Gen.SlotMap.Key.new i g = if g % 2 = 1 then some ⟨i, g⟩ else none := rfl

theorem keyNew_odd {i g : Nat} (h : g % 2 = 1) : Gen.SlotMap.Key.new i g = some ⟨i, g⟩ := by
  simp [keyNew_eq, h]

/-- the translated `SlotMap::get` is the hand model's `get` -/
theorem get_eq (sm : SlotMap α) (k : Key) : Gen.SlotMap.get sm k = sm.get k := by
  simp only [Gen.SlotMap.get, SlotMap.get, vecGet]
  cases sm.slots[k.idx]? with
  | none => rfl
  | some s =>
    by_cases h : s.gen = k.gen
    · cases hv : s.val <;> simp [h, hv]
    · simp [h]

/-- the translated `SlotMap::get_by_index` is the hand model's `getByIndex` -/
theorem getByIndex_eq (sm : SlotMap α) (i : Nat) : Gen.SlotMap.get_by_index sm i = sm.getByIndex i := by
  simp only [Gen.SlotMap.get_by_index, SlotMap.getByIndex, vecGet, isVacant_eq]
  cases sm.slots[i]? with
  | none => rfl
  | some s =>
    by_cases h : s.gen % 2 = 0
    · simp [h]
    · cases hv : s.val <;> simp [h, hv]

/-- the translated `SlotMap::next_key_iter` starts at the hand model's `nextKeyIndex` -/
theorem nextKeyIter_eq (sm : SlotMap α) : Gen.SlotMap.next_key_iter sm = ⟨sm.nextKeyIndex⟩ := rfl

/-- the translated `SlotMap::insert_with` is the hand model's `insertWith`, provided the slot at the head of the free list
    is vacant (the skipped `debug_assert!`) -/
theorem insertWith_eq (sm : SlotMap α) (f : Key → α)
    (hv : ∀ s, sm.slots[sm.nextFree]? = some s → s.gen % 2 = 0) :
    Gen.SlotMap.insert_with sm f = asGen sm (sm.insertWith f) := by
  simp only [Gen.SlotMap.insert_with, SlotMap.insertWith, vecGet, vecSet, vecPush, vecLen, optUnwrap, U32MAX]
  cases hs : sm.slots[sm.nextFree]? with
  | some s =>
    have he : (s.gen + 1) % 2 = 1 := by have := hv s hs; omega
    simp [asGen, keyNew_odd he]
  | none =>
    by_cases hl : sm.slots.length = 4294967295
    · simp [asGen, hl]
    · simp [asGen, hl, keyNew_eq]

/-- … in particular on every well-formed map -/
theorem insertWith_eq_wf {sm : SlotMap α} (wf : sm.WF) (f : Key → α) :
    Gen.SlotMap.insert_with sm f = asGen sm (sm.insertWith f) := by
  apply insertWith_eq
  intro s hs
  obtain ⟨fl, c, _⟩ := wf.chain
  cases fl with
  | nil =>
    have h0 : sm.nextFree = U32MAX := c
    rw [h0, wf.null_none] at hs; cases hs
  | cons j fl =>
    obtain ⟨hj, s', hs', he, _⟩ := c
    rw [hj, hs'] at hs; cases hs; exact he

/-- the translated `SlotMap::remove` is the hand model's `remove`, provided a slot whose generation matches the key holds a
    value (otherwise the code reads the inactive union member) -/
theorem remove_eq (sm : SlotMap α) (k : Key)
    (hv : ∀ s, sm.slots[k.idx]? = some s → s.gen = k.gen → s.val.isSome) :
    Gen.SlotMap.remove sm k = asGen sm (sm.remove k) := by
  simp only [Gen.SlotMap.remove, SlotMap.remove, vecGet, vecSet, GENMOD]
  cases hs : sm.slots[k.idx]? with
  | none => rfl
  | some s =>
    by_cases hg : s.gen = k.gen
    · have := hv s hs hg
      cases hval : s.val with
      | none => simp [hval] at this
      | some v =>
        by_cases h0 : (s.gen + 1) % 4294967296 = 0
        · simp [asGen, ← hg, hval, h0]
        · simp [asGen, ← hg, hval, h0]
    · simp [asGen, hg]

/-- … in particular on every well-formed map, for keys as Rust builds them (odd generation) -/
theorem remove_eq_wf {sm : SlotMap α} (wf : sm.WF) {k : Key} (hk : k.gen % 2 = 1) :
    Gen.SlotMap.remove sm k = asGen sm (sm.remove k) := by
  apply remove_eq
  intro s hs hg
  exact (wf.valIff k.idx s hs).2 (hg ▸ hk)

/-- what the translated `remove` returns is what the hand model returns -/
theorem remove_result (sm : SlotMap α) (k : Key)
    (hv : ∀ s, sm.slots[k.idx]? = some s → s.gen = k.gen → s.val.isSome) :
    (Gen.SlotMap.remove sm k).2 = (sm.remove k).map Prod.fst := by
  rw [remove_eq sm k hv]; cases sm.remove k <;> rfl

/-- the hand model's result of `NextKeyIter::next` as the translated function's `Outcome` -/
def nextKeyAsGen (it : Gen.SlotMap.NextKeyIter) : SlotMap.NextKey → Outcome (Gen.SlotMap.NextKeyIter × Option Key)
  | .key k i' => .ok (⟨i'⟩, some k)
  | .exhausted => .ok (it, none)
  | .badState => .panic "incorrect state for next key iter"

/-- the translated `NextKeyIter::next` is the hand model's `nextKey` at the cursor -/
theorem next_eq (it : Gen.SlotMap.NextKeyIter) (sm : SlotMap α) :
    Gen.SlotMap.NextKeyIter.next it sm = nextKeyAsGen it (sm.nextKey it.index) := by
  obtain ⟨index⟩ := it
  simp only [Gen.SlotMap.NextKeyIter.next, SlotMap.nextKey, vecGet, vecLen, optUnwrap, isVacant_eq, U32MAX]
  cases hs : sm.slots[index]? with
  | some s =>
    by_cases he : s.gen % 2 = 0
    · by_cases hn : s.next = 4294967295 <;> simp [nextKeyAsGen, he, hn]
    · simp [nextKeyAsGen, he]
  | none =>
    by_cases hi : index < 4294967295
    · simp [nextKeyAsGen, hi, keyNew_eq]
    · simp [nextKeyAsGen, hi]

end SlotMapGen
end Evenio
