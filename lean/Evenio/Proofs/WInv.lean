import Evenio.Model.InvPlus
import Evenio.Proofs.Registry
import Evenio.Proofs.Listeners
import Evenio.Proofs.Reserve
import Evenio.Props.C02World
import Evenio.Props.C03World
import Evenio.Props.C08
import Evenio.Props.C10
import Evenio.Props.C14
import Evenio.Props.C15
import Evenio.Props.C16World
import Evenio.Props.C17
/-!
# The logical world invariant `WInv`

`World.InvPlus` (Model/InvPlus.lean) is the executable quiescent-point invariant.  `WInv` is its LOGICAL, INDUCTIVE
counterpart: a structure whose fields are GROUPS, each group built from the logical invariants the existing proof
modules already push through parts of the model.

| group | predicate        | depends on the fields                                              | built from |
|-------|------------------|--------------------------------------------------------------------|------------|
| G0    | `Small`          | `archs`, `tevs`                                                    | resource bound (see below) |
| G1    | `GraphInv`       | `archs`, `comps`                                                   | `Graph.GraphOK`, `ArchOK`, `invMembers` |
| G2    | `StoreInv`       | `archs`, `entities`                                                | `StoreOk`, `ids.length ≤ cap` |
| G3    | `ListsInv`       | `handlers` (core), `byGlobal`, `byInsertOrder`, `insertCounter`, `archs`, `gevs`, `tevs` | `HandlerList.Inv`, `World.sel`, `HInfo.FilterOk`, `SparseMap.WF` |
| G4    | `CacheGroup`     | `handlers` (caches), `archs`                                       | `C10.CachesOK` |
| G5    | `RegistryInv`    | `comps`, `gevs`, `tevs`, `handlers` (core), `removedIds`           | `RegInv []`, `invRegistry` |
| G6    | `Quiescent` / `PendingOK` | `queue`, `entities`, `resIndex`, `resCount`, `gevs`       | `Reserved` |

Every group is an `abbrev` over a structure that takes exactly the fields it depends on, so that
`GraphInv { w with queue := q, out := o }` is DEFINITIONALLY `GraphInv w` (the `keeps` tactic closes such goals with
`exact h`).  `WInv` itself is a structure over the world; `WInv.frame` transports it along `RelEq`.

No field of `WInv` mentions: `debug`, `queue`, `inflightOwned`, `arenaEpoch`, `arenaCount`, `epochCtr`, `ords`,
`nextESerial`, `nextCSerial`, `budget`, `out`, `edrops`, `cdrops`, `resIndex`, `resCount`.

## The resource bound `Small`

`SparseMap.WF` needs `dense.length < u32::MAX`, `C10.CacheInv.written` needs a bound `N < u32::MAX` on archetype
indices, `World.invWF` demands `a.index < U32MAX`.  archetype.rs asserts `next_arch_idx < u32::MAX` ("too many
archetypes", lines 244 / 319) but the MODEL's `newArch` has no such check, so "every archetype index is below
`u32::MAX`" is NOT preserved by `newArch` as the model stands.  Likewise the listener tables are sparse maps keyed by
targeted-event index, and the slot map hands out indices up to `u32::MAX - 1`, one more than a `SparseMap` can hold.
We therefore carry `Small w := w.archs.entries.length < U32MAX ∧ w.tevs.slots.length < U32MAX` as a resource hypothesis
ON THE FINAL STATE: neither the slab nor a slot map ever shrinks (`Evenio/Proofs/Inv/Mono.lean`), so it then holds in
every intermediate state.  All obligations are stated for the
GUARDED invariant `Guarded P w := Small w → P w`, which is what makes them compose with the ordinary `Hoare.bind`.
-/
namespace Evenio
open Graph (GraphOK)

/-! ## G0: the resource bound -/

/-- fewer than `u32::MAX` slab entries were ever allocated for archetypes, and fewer than `u32::MAX` slots for
    targeted events (the keys of the fetcher caches resp. of the listener tables: a `SparseMap` uses `u32::MAX` as the
    "absent" sentinel of its dense indices, so it holds at most `u32::MAX - 1` keys) -/
def Small (w : World) : Prop := w.archs.entries.length < U32MAX ∧ w.tevs.slots.length < U32MAX

/-- `P` under the resource hypothesis -/
def Guarded (P : World → Prop) : World → Prop := fun w => Small w → P w

/-! ## G1: the archetype graph and `member_of` -/

structure GraphInv' (A : Slab Arch) (C : SlotMap CompInfo) : Prop where
  /-- slab WF, `IndexOK`, sorted & pairwise distinct component sets, every cached edge correct -/
  graph : GraphOK A
  /-- the component-less archetype lives at index 0 -/
  empty : ∃ a0, A.get 0 = some a0 ∧ a0.comps = []
  /-- archetypes only mention live component indices -/
  compsLive : ∀ i a, A.get i = some a → ∀ c ∈ a.comps, (C.getByIndex c).isSome = true
  /-- the edge tables are sorted association lists (`BTreeMap`) -/
  edgeKeys : ∀ i a, A.get i = some a →
    (a.insEdges.map (·.1)).Pairwise (· < ·) ∧ (a.remEdges.map (·.1)).Pairwise (· < ·)
  /-- `member_of` of every live component is duplicate free and exact -/
  members : ∀ k ci, C.get k = some ci →
    ci.memberOf.Nodup ∧ ∀ i, i ∈ ci.memberOf ↔ ∃ a, A.get i = some a ∧ k.idx ∈ a.comps

abbrev GraphInv (w : World) : Prop := GraphInv' w.archs w.comps

/-! ## G2: storage -/

/-- the world `StoreOk` looks at -/
def storeWorld (A : Slab Arch) (E : SlotMap Loc) : World := { archs := A, entities := E }

structure StoreInv' (A : Slab Arch) (E : SlotMap Loc) : Prop where
  /-- `IndexOk`, `SlotMap.WF entities`, `(absStore w).WF` -/
  ok : StoreOk (storeWorld A E)
  /-- `entity_ids.len() ≤ entity_ids.capacity()` -/
  cap : ∀ i a, A.get i = some a → a.ids.length ≤ a.cap

abbrev StoreInv (w : World) : Prop := StoreInv' w.archs w.entities

/-! ## G3: handler lists, listener tables, refresh sets, handler consistency -/

/-- live handlers of priority `pr` satisfying `p`, in insertion order; `World.sel` over the two fields it reads -/
def selOf (ord : List Key) (H : SlotMap HInfo) (p : HInfo → Bool) (pr : Priority) : List Key :=
  ((ord.filterMap fun k => (H.get k).map fun h => (k, h)).filter fun (_, h) => h.prio == pr && p h).map (·.1)

theorem sel_eq_selOf (w : World) (p : HInfo → Bool) (pr : Priority) :
    w.sel p pr = selOf w.byInsertOrder w.handlers p pr := rfl

/-- the list `l` holds exactly the handlers selected by `p`: its three cursor segments are the three priority classes,
    each in insertion order -/
structure TableExact (ord : List Key) (H : SlotMap HInfo) (p : HInfo → Bool) (l : HandlerList Key) : Prop where
  inv : l.Inv
  hi : l.hi = selOf ord H p .high
  me : l.me = selOf ord H p .medium
  lo : l.lo = selOf ord H p .low

/-- who listens to the targeted event `tk` on archetype `a` (the selection of `World.invListeners`) -/
def listenSel (tk : Key) (a : Arch) : HInfo → Bool :=
  fun h => h.recv.targeted && h.recvKey == tk && h.filter.matches a.S
/-- who receives the global event `gk` (the selection of `World.invGlobal`) -/
def globalSel (gk : Key) : HInfo → Bool := fun h => !h.recv.targeted && h.recvKey == gk

/-- the query access expressions of a handler's parameters, in parameter order -/
def HInfo.accesses (h : HInfo) : List CA := (h.params.filter (·.hasQ)).map fun p => p.q.init

/-- a registry entry is consistent with how `addHandler` builds it; everything here only depends on `h.core` -/
structure HandlerOK (ctr : Nat) (k : Key) (h : HInfo) : Prop where
  key : h.key = k
  recvIdx : h.recvIdx = h.recvKey.idx
  archFilter : h.archFilter = h.accesses.foldl (fun acc a => acc.or a) CA.ff
  compAccess : h.compAccess = h.accesses.foldl (fun acc a => acc.and a) CA.tt
  filter : h.FilterOk
  order : h.order < ctr
  /-- `Spawn` is an immutable event (event.rs: `type Mutability = Immutable`): no handler can take it -/
  spawnImm : h.recv = .spawn → h.recvMut = false

/-- refresh set and listener tables of ONE archetype are exact with respect to the handlers `ord` (in that order) of
    the registry `H` and the targeted events `T`.  (`ord` is `byInsertOrder` in `ListsInv`; a prefix of it inside the
    registration loop of `newArch`.) -/
structure ArchListsOK (ord : List Key) (H : SlotMap HInfo) (T : SlotMap EvInfo) (a : Arch) : Prop where
  wf : SparseMap.WF a.listeners
  /-- the keys are indices of (once) allocated event slots -/
  keys : ∀ t ∈ a.listeners.keys, t < T.slots.length
  inv : ∀ t l, a.listeners.get t = some l → l.Inv ∧ l.entries.Nodup
  exact : ∀ tk info, T.get tk = some info →
    TableExact ord H (listenSel tk a) ((a.listeners.get tk.idx).getD {})
  dead : ∀ t l, a.listeners.get t = some l → (T.getByIndex t).isSome = true ∨ l.entries = []
  refreshNodup : a.refresh.Nodup
  refresh : ∀ k, k ∈ a.refresh ↔ k ∈ ord ∧ ∃ h, H.get k = some h ∧ h.archFilter.matches a.S = true

structure ListsInv' (H : SlotMap HInfo) (bg : List (HandlerList Key)) (ord : List Key) (ctr : Nat)
    (A : Slab Arch) (G T : SlotMap EvInfo) : Prop where
  ordNodup : ord.Nodup
  ordMem : ∀ k, k ∈ ord ↔ H.contains k = true
  ordLen : ord.length = H.len
  /-- insertion order is by `order` -/
  ordSorted : (ord.filterMap fun k => (H.get k).map (·.order)).Pairwise (· < ·)
  handler : ∀ k h, H.get k = some h → HandlerOK ctr k h
  gInv : ∀ l ∈ bg, l.Inv ∧ l.entries.Nodup
  gExact : ∀ gk info, G.get gk = some info → ∃ l, bg[gk.idx]? = some l ∧ TableExact ord H (globalSel gk) l
  gDead : ∀ i l, bg[i]? = some l → (G.getByIndex i).isSome = true ∨ l.entries = []
  arch : ∀ i a, A.get i = some a → ArchListsOK ord H T a

abbrev ListsInv (w : World) : Prop :=
  ListsInv' w.handlers w.byGlobal w.byInsertOrder w.insertCounter w.archs w.gevs w.tevs

/-! ## G4: fetcher caches -/

structure CacheGroup' (H : SlotMap HInfo) (A : Slab Arch) : Prop where
  /-- every cache is a well-formed sparse map with keys below the slab length, exact for every live archetype -/
  caches : C10.CachesOK A.entries.length H A
  /-- no cache key for a dead archetype index -/
  live : ∀ k h, H.get k = some h → ∀ p ∈ h.params, p.hasQ = true → ∀ i ∈ p.cache.keys, (A.get i).isSome = true

abbrev CacheGroup (w : World) : Prop := CacheGroup' w.handlers w.archs

/-! ## G5: registries -/

/-- what a registry entry refers to is live (`invRegistry`), and — needed to account for pending `Spawn` events — has
    the type the entry says -/
structure HandlerRefs (C : SlotMap CompInfo) (G T : SlotMap EvInfo) (h : HInfo) : Prop where
  referenced : ∀ c ∈ h.referenced, (C.getByIndex c).isSome = true
  recvG : h.recv.targeted = false → ∃ info, G.get h.recvKey = some info ∧ info.ty = h.recv
  recvT : h.recv.targeted = true → ∃ info, T.get h.recvKey = some info ∧ info.ty = h.recv
  sentG : ∀ i ∈ h.sentG, (G.getByIndex i).isSome = true
  sentT : ∀ i ∈ h.sentT, (T.getByIndex i).isSome = true
  sendsG : ∀ ev i, (ev, i) ∈ h.sends → ev.targeted = false →
    i ∈ h.sentG ∧ ∃ k info, G.getByIndex i = some (k, info) ∧ info.ty = ev
  sendsT : ∀ ev i, (ev, i) ∈ h.sends → ev.targeted = true →
    i ∈ h.sentT ∧ ∃ k info, T.getByIndex i = some (k, info) ∧ info.ty = ev

structure RegistryInv' (C : SlotMap CompInfo) (G T : SlotMap EvInfo) (H : SlotMap HInfo)
    (rem : List (Char × Key)) : Prop where
  /-- `SlotMap.WF` of the four registries; every recorded removed id is dead (C16) -/
  reg : RI [] C G T H rem
  /-- components only list live Insert/Remove events of their own index … -/
  compEvents : ∀ k ci, C.get k = some ci →
    (∀ e ∈ ci.insEvents, ∃ ei, T.get e = some ei ∧ ei.kind = .insert k.idx) ∧
    (∀ e ∈ ci.remEvents, ∃ ei, T.get e = some ei ∧ ei.kind = .remove k.idx)
  /-- … and every Insert/Remove event is known to its (live) component -/
  tevComp : ∀ k ei, T.get k = some ei → ∀ c,
    (ei.kind = .insert c → ∃ ck ci, C.getByIndex c = some (ck, ci) ∧ k ∈ ci.insEvents) ∧
    (ei.kind = .remove c → ∃ ck ci, C.getByIndex c = some (ck, ci) ∧ k ∈ ci.remEvents)
  /-- the kind of a global event is determined by its type (`Spawn` is the only one with a built-in effect) -/
  gevKind : ∀ k ei, G.get k = some ei → ei.kind = gevKind ei.ty
  handlerRefs : ∀ k h, H.get k = some h → HandlerRefs C G T h

abbrev RegistryInv (w : World) : Prop := RegistryInv' w.comps w.gevs w.tevs w.handlers w.removedIds

/-! ## the invariant -/

/-- **the logical world invariant**: holds at every quiescent point AND at every point inside a flush where the model
    is between two of its "closed" steps (see `WInvPlan.md`); it does not mention the queue nor the reservations -/
structure WInv (w : World) : Prop where
  small : Small w
  graph : GraphInv w
  store : StoreInv w
  lists : ListsInv w
  cache : CacheGroup w
  registry : RegistryInv w

/-! ## G6: pending reservations and queued events -/

/-- some list of keys is reserved consistently (cursor, count and slot-map prediction agree) -/
def ReservedSome (w : World) : Prop := ∃ ks, Reserved w ks

/-- nothing is pending: what holds between top-level operations (`World.invPending`) -/
def Quiescent (w : World) : Prop := w.queue = [] ∧ Reserved w []

/-- the delivery of `q` will run `spawnAll` for sure: `q` is a global event whose registry entry has kind `spawn`
    (handlers cannot take it: `HandlerOK.spawnImm`) -/
def QItem.spawns (G : SlotMap EvInfo) (q : QItem) : Bool :=
  !q.ty.targeted && match G.getByIndex q.idx with
    | some (_, info) => info.kind == .spawn
    | none => false

/-- **reservations are covered**: if anything is reserved, a `Spawn` event that will materialise it is still pending —
    in the world's queue, or (`extra`) among the events the enclosing `flushWith` frames / the enclosing top-level
    function have set aside or are about to push.  Inside `deliverOne` the world's queue is only the segment of the
    event being delivered, hence the parameter. -/
def PendingOK (extra : Prop) (w : World) : Prop :=
  ∃ ks, Reserved w ks ∧ (ks ≠ [] → extra ∨ ∃ q ∈ w.queue, q.spawns w.gevs = true)

/-- what holds between two deliveries of a flush (at the head of the `flushWith` loop), where the queue is whole -/
def ReservedPending (w : World) : Prop := PendingOK False w

/-- **the invariant inside a flush** (and after a panic has unwound): all groups, and the reservations are
    consistent.  `ReservedPending` is the stronger statement that holds at the loop head of `flushWith`; it is NOT
    part of `WInvMid` because it fails between `reserve` and the `push` of the `Spawn` event and is only meaningful
    relative to the set-aside part of the queue (`PendingOK`). -/
def WInvMid (w : World) : Prop := WInv w ∧ ReservedSome w

/-! ## transporting the invariant along writes to irrelevant fields -/

/-- `w'` agrees with `w` on every field `WInv` reads -/
structure RelEq (w w' : World) : Prop where
  entities : w'.entities = w.entities
  comps : w'.comps = w.comps
  gevs : w'.gevs = w.gevs
  tevs : w'.tevs = w.tevs
  handlers : w'.handlers = w.handlers
  byGlobal : w'.byGlobal = w.byGlobal
  insertCounter : w'.insertCounter = w.insertCounter
  byInsertOrder : w'.byInsertOrder = w.byInsertOrder
  archs : w'.archs = w.archs
  removedIds : w'.removedIds = w.removedIds

/-- proves `RelEq w { w with f := … }` for an irrelevant field `f` -/
macro "releq" : tactic => `(tactic| exact ⟨rfl, rfl, rfl, rfl, rfl, rfl, rfl, rfl, rfl, rfl⟩)

theorem WInv.frame {w w' : World} (h : WInv w) (e : RelEq w w') : WInv w' := by
  obtain ⟨h0, h1, h2, h3, h4, h5⟩ := h
  refine ⟨?_, ?_, ?_, ?_, ?_, ?_⟩
  · show w'.archs.entries.length < U32MAX ∧ w'.tevs.slots.length < U32MAX
    rw [e.archs, e.tevs]; exact h0
  · show GraphInv' w'.archs w'.comps
    rw [e.archs, e.comps]; exact h1
  · show StoreInv' w'.archs w'.entities
    rw [e.archs, e.entities]; exact h2
  · show ListsInv' w'.handlers w'.byGlobal w'.byInsertOrder w'.insertCounter w'.archs w'.gevs w'.tevs
    rw [e.handlers, e.byGlobal, e.byInsertOrder, e.insertCounter, e.archs, e.gevs, e.tevs]; exact h3
  · show CacheGroup' w'.handlers w'.archs
    rw [e.handlers, e.archs]; exact h4
  · show RegistryInv' w'.comps w'.gevs w'.tevs w'.handlers w'.removedIds
    rw [e.comps, e.gevs, e.tevs, e.handlers, e.removedIds]; exact h5

theorem Reserved.frame {w w' : World} {ks : List Key} (h : Reserved w ks) (he : w'.entities = w.entities)
    (hi : w'.resIndex = w.resIndex) (hc : w'.resCount = w.resCount) : Reserved w' ks := by
  unfold Reserved at h ⊢
  rw [he, hi, hc]; exact h

theorem WInvMid.frame {w w' : World} (h : WInvMid w) (e : RelEq w w') (hi : w'.resIndex = w.resIndex)
    (hc : w'.resCount = w.resCount) : WInvMid w' :=
  ⟨h.1.frame e, h.2.imp fun _ hr => hr.frame e.entities hi hc⟩

/-! ## the uniform shape of the preservation obligations

`Hoare P m Q E` (Proofs/Hoare.lean): from a state satisfying `P`, a normal return with value `a` ends in a state
satisfying `Q a`, an exceptional exit with error `e` in a state satisfying `E e`.

**`KeepsG G m`**: started in a state satisfying (guarded) `WInvMid` — ALL groups —, `m` ends in a state satisfying
(guarded) `G` — ONE group — on normal return AND when it exits with a panic; nothing is claimed after `ub` / `assert`.

* the precondition is the whole `WInvMid`, the postcondition one group: each worker pushes ITS group through every
  function and may use everybody's groups in the state the function starts in (exactly the discipline of
  `Registry.lean`, where `RegInv` needs nothing else);
* panic exits are covered because a panic unwinds to the caller of the top-level operation, who goes on using the
  world: all groups G0–G5 and `ReservedSome` must hold again (C13); what does NOT survive a panic is `Quiescent`
  (finding F8: a reservation made by a handler that panics stays pending), which is why `Quiescent` / `PendingOK` have
  their own shape `KeepsP` with no claim on exceptional exits;
* `ub` / `assert` exits need no guarantee: after `ub` the model state is meaningless (the driver stops the history),
  and `assert` is a failed `debug_assert` that the model does not unwind (the guard of `flushWith` only reacts to
  `.panic`), so the queue is not cleared;
* `Guarded`: see `Small`.  `KeepsG.of_run` (Inv/Calculus.lean) turns a run-level statement "`WInvMid w`, the run ends
  in `w'`, `Small w'` ⊢ `G w'`" into `KeepsG G m`, using that `m` never shrinks the slab (Inv/Mono.lean). -/

def Err.isPanic : Err → Bool
  | .panic _ => true
  | _ => false

/-- exceptional postcondition: `P` after a panic, nothing after `ub` / `assert` -/
def PanicOnly (P : World → Prop) : Err → World → Prop := fun e w => e.isPanic = true → P w

/-- **the obligation shape** for one group `G` -/
abbrev KeepsG {α : Type} (G : World → Prop) (m : M α) : Prop :=
  Hoare (Guarded WInvMid) m (fun _ => Guarded G) (PanicOnly (Guarded G))

/-- all groups at once -/
abbrev KeepsW {α : Type} (m : M α) : Prop := KeepsG WInvMid m

/-- **the shape for G6** (normal returns only): from `WInvMid` with the reservations covered up to `E`, to the
    reservations covered up to `E'` -/
abbrev KeepsP {α : Type} (E E' : Prop) (m : M α) : Prop :=
  Hoare (Guarded fun w => WInvMid w ∧ PendingOK E w) m (fun _ => Guarded (PendingOK E')) (fun _ _ => True)

/-- the G6 obligation of a per-event step `deliver` (`deliverOne`): with the event registry `g` (which no delivery
    changes), if the reservations are covered up to `E` or by the delivered event itself, they are covered up to `E`
    afterwards (a `Spawn` event materialises them; any other event leaves what covered them queued) -/
def DeliverP (deliver : QItem → M Unit) : Prop :=
  ∀ (it : QItem) (g : SlotMap EvInfo) (E : Prop),
    Hoare (fun w => w.gevs = g ∧ Guarded (fun w => WInvMid w ∧ PendingOK (E ∨ it.spawns g = true) w) w)
      (deliver it) (fun _ => Guarded (PendingOK E)) (fun _ _ => True)

/-- the shape for top-level operations: between them the world is quiescent; after a panic it need not be (F8), but
    the queue is empty (the unwinding guard dropped it) -/
abbrev KeepsTop {α : Type} (m : M α) : Prop :=
  Hoare (Guarded fun w => WInv w ∧ Quiescent w) m (fun _ => Guarded fun w => WInv w ∧ Quiescent w)
    (PanicOnly (Guarded fun w => WInvMid w ∧ w.queue = []))

/-! ## the initial world -/

theorem init_archs_get {i : Nat} {a : Arch} (h : ({} : World).archs.get i = some a) :
    i = 0 ∧ a = { index := 0, comps := [], cols := [], ids := [] } := by
  rw [Slab.get_eq_some_iff] at h
  cases i with
  | zero => simp at h; exact ⟨rfl, h.symm⟩
  | succ i => simp at h

theorem slotMap_empty_get {α : Type} (k : Key) : ({} : SlotMap α).get k = none := by
  simp [SlotMap.get]

theorem slotMap_empty_getByIndex {α : Type} (i : Nat) : ({} : SlotMap α).getByIndex i = none := by
  simp [SlotMap.getByIndex]

theorem small_init : Small {} := by unfold Small; decide

theorem graphInv_init : GraphInv {} := by
  refine ⟨C17.init_graphOK, ⟨_, rfl, rfl⟩, fun i a h c hc => ?_, fun i a h => ?_, fun k ci h => ?_⟩
  · obtain ⟨-, rfl⟩ := init_archs_get h; cases hc
  · obtain ⟨-, rfl⟩ := init_archs_get h; exact ⟨List.Pairwise.nil, List.Pairwise.nil⟩
  · rw [show ({} : World).comps.get k = none from slotMap_empty_get k] at h; cases h

theorem storeInv_init : StoreInv {} := by
  refine ⟨(world_Inv_abs_wf (w := storeWorld ({} : World).archs ({} : World).entities) (by decide)
    SlotMap.wf_empty).1, fun i a h => ?_⟩
  obtain ⟨-, rfl⟩ := init_archs_get h
  exact Nat.le_refl 0

theorem selOf_nil (H : SlotMap HInfo) (p : HInfo → Bool) (pr : Priority) : selOf [] H p pr = [] := rfl

theorem tableExact_empty_nil (H : SlotMap HInfo) (p : HInfo → Bool) : TableExact [] H p {} :=
  ⟨HandlerList.inv_empty, rfl, rfl, rfl⟩

theorem listsInv_init : ListsInv {} := by
  refine ⟨List.nodup_nil, fun k => ?_, rfl, List.Pairwise.nil, fun k h hk => ?_, fun l hl => ?_,
    fun gk info h => ?_, fun i l h => ?_, fun i a h => ?_⟩
  · simp [SlotMap.contains, slotMap_empty_get]
  · rw [show ({} : World).handlers.get k = none from slotMap_empty_get k] at hk; cases hk
  · cases hl
  · rw [show ({} : World).gevs.get gk = none from slotMap_empty_get gk] at h; cases h
  · simp at h
  · obtain ⟨-, rfl⟩ := init_archs_get h
    refine ⟨SparseMap.wf_empty, fun t ht => ?_, fun t l hl => ?_, fun tk info ht => ?_, fun t l hl => ?_,
      List.nodup_nil, fun k => ?_⟩
    · cases ht
    · simp [SparseMap.get] at hl
    · rw [show ({} : World).tevs.get tk = none from slotMap_empty_get tk] at ht; cases ht
    · simp [SparseMap.get] at hl
    · simp

theorem cacheGroup_init : CacheGroup {} := by
  refine ⟨⟨fun k h hk => ?_, fun k h hk => ?_⟩, fun k h hk => ?_⟩ <;>
  · rw [show ({} : World).handlers.get k = none from slotMap_empty_get k] at hk; cases hk

theorem registryInv_init : RegistryInv {} := by
  refine ⟨regInv_init, fun k ci h => ?_, fun k ei h => ?_, fun k ei h => ?_, fun k h hk => ?_⟩
  · rw [show ({} : World).comps.get k = none from slotMap_empty_get k] at h; cases h
  · rw [show ({} : World).tevs.get k = none from slotMap_empty_get k] at h; cases h
  · rw [show ({} : World).gevs.get k = none from slotMap_empty_get k] at h; cases h
  · rw [show ({} : World).handlers.get k = none from slotMap_empty_get k] at hk; cases hk

/-- **the definitions are satisfiable**: a new world satisfies the invariant … -/
theorem winv_init : WInv {} :=
  ⟨small_init, graphInv_init, storeInv_init, listsInv_init, cacheGroup_init, registryInv_init⟩

/-- … and is quiescent -/
theorem quiescent_init : Quiescent {} :=
  ⟨rfl, (reserved_nil_iff _).2 ⟨SlotMap.wf_empty, rfl, by decide⟩⟩

theorem winvMid_init : WInvMid {} := ⟨winv_init, [], quiescent_init.2⟩

end Evenio
