import Evenio.Model.Inv
import Evenio.Proofs.SparseMap
import Evenio.Proofs.AccessSem
import Evenio.Proofs.Flush
import Evenio.Props.C06
/-! Helpers for C10: `reserve_one` and buffer epochs, the fetcher cache operations
    `FetcherState::{refresh,remove}_archetype` as map updates, the per-archetype exactness predicate `CacheExact`
    (the content of `World.invCache`), and the disjunction of access expressions that decides which handlers are
    an archetype's refresh listeners.  Core Lean only. -/
namespace Evenio

/-! ### `reserve_one` for an arbitrary growth policy -/

/-- `Arch.reserveOne` with the growth function as a parameter -/
def reserveOneWith (grow : Nat → Nat) (a : Arch) (fresh : Nat) : Arch × Bool :=
  if a.ids.length < a.cap then (a, false)
  else ({ a with cap := grow a.cap, epoch := fresh }, true)

theorem reserveOne_eq_with : Arch.reserveOne = reserveOneWith growCap := rfl

theorem lt_growCap (n : Nat) : n < growCap n := by
  unfold growCap; omega

theorem reserveOneWith_false {grow : Nat → Nat} {a : Arch} {f : Nat}
    (h : (reserveOneWith grow a f).2 = false) : (reserveOneWith grow a f).1 = a := by
  unfold reserveOneWith at h ⊢
  split
  · rfl
  · next hc => rw [if_neg hc] at h; cases h

theorem reserveOneWith_false_iff (grow : Nat → Nat) (a : Arch) (f : Nat) :
    (reserveOneWith grow a f).2 = false ↔ a.ids.length < a.cap := by
  unfold reserveOneWith
  split <;> simp [*]

/-- what a reported reallocation changed: the epoch is the fresh one, the capacity is `grow cap`; nothing else -/
theorem reserveOneWith_true {grow : Nat → Nat} {a : Arch} {f : Nat}
    (h : (reserveOneWith grow a f).2 = true) :
    (reserveOneWith grow a f).1 = { a with cap := grow a.cap, epoch := f } ∧ a.cap ≤ a.ids.length := by
  unfold reserveOneWith at h ⊢
  split
  · next hc => rw [if_pos hc] at h; cases h
  · next hc => exact ⟨rfl, Nat.le_of_not_lt hc⟩

/-- after `reserve_one` there is room for one more row, for any policy with `n < grow n`, provided the length
    was within the capacity before (`Vec`'s own invariant `len ≤ capacity`) -/
theorem reserveOneWith_room {grow : Nat → Nat} (hg : ∀ n, n < grow n) {a : Arch} (f : Nat)
    (hcap : a.ids.length ≤ a.cap) :
    (reserveOneWith grow a f).1.ids.length < (reserveOneWith grow a f).1.cap := by
  unfold reserveOneWith
  split
  · assumption
  · have := hg a.cap
    show a.ids.length < grow a.cap
    omega

/-! ### cache operations as map updates -/

theorem refreshArch_of_noQ {p : Param} (a : Arch) (h : p.hasQ = false) : p.refreshArch a = p := by
  simp [Param.refreshArch, h]

theorem refreshArch_of_none {p : Param} {a : Arch} (h : p.q.archState a.S = none) : p.refreshArch a = p := by
  unfold Param.refreshArch
  split
  · rfl
  · rw [h]

theorem refreshArch_of_some {p : Param} {a : Arch} {st : AS} (hq : p.hasQ = true) (h : p.q.archState a.S = some st) :
    p.refreshArch a = { p with cache := p.cache.insert a.index (st, a.epoch) } := by
  unfold Param.refreshArch
  rw [if_neg (by simp [hq]), h]

theorem removeArch_of_noQ {p : Param} (a : Arch) (h : p.hasQ = false) : p.removeArch a = p := by
  simp [Param.removeArch, h]

theorem removeArch_of_hasQ {p : Param} (a : Arch) (h : p.hasQ = true) :
    p.removeArch a = { p with cache := p.cache.remove a.index } := by
  simp [Param.removeArch, h]

@[simp] theorem refreshArch_q (p : Param) (a : Arch) : (p.refreshArch a).q = p.q := by
  unfold Param.refreshArch; split
  · rfl
  · split <;> rfl

@[simp] theorem refreshArch_hasQ (p : Param) (a : Arch) : (p.refreshArch a).hasQ = p.hasQ := by
  unfold Param.refreshArch; split
  · rfl
  · split <;> rfl

@[simp] theorem refreshArch_kind (p : Param) (a : Arch) : (p.refreshArch a).kind = p.kind := by
  unfold Param.refreshArch; split
  · rfl
  · split <;> rfl

@[simp] theorem removeArch_q (p : Param) (a : Arch) : (p.removeArch a).q = p.q := by
  unfold Param.removeArch; split <;> rfl

@[simp] theorem removeArch_hasQ (p : Param) (a : Arch) : (p.removeArch a).hasQ = p.hasQ := by
  unfold Param.removeArch; split <;> rfl

@[simp] theorem removeArch_kind (p : Param) (a : Arch) : (p.removeArch a).kind = p.kind := by
  unfold Param.removeArch; split <;> rfl

/-- the three shapes of `refreshArch`'s cache -/
theorem refreshArch_cache_cases (p : Param) (a : Arch) :
    (p.refreshArch a).cache = p.cache ∨
      ∃ st, p.q.archState a.S = some st ∧ (p.refreshArch a).cache = p.cache.insert a.index (st, a.epoch) := by
  unfold Param.refreshArch
  split
  · exact .inl rfl
  · cases h : p.q.archState a.S with
    | none => exact .inl rfl
    | some st => exact .inr ⟨st, rfl, rfl⟩

theorem removeArch_cache_cases (p : Param) (a : Arch) :
    (p.removeArch a).cache = p.cache ∨ (p.removeArch a).cache = p.cache.remove a.index := by
  unfold Param.removeArch
  split
  · exact .inl rfl
  · exact .inr rfl

/-! ### the exactness predicate -/

/-- the per-archetype content of `World.invCache`: the cache holds the archetype iff it is non-empty and matches,
    and then with the arch state computed from the archetype's component set and its CURRENT buffer epoch -/
def CacheExact (p : Param) (a : Arch) : Prop :=
  p.cache.get a.index = if a.ids.isEmpty then none else (p.q.archState a.S).map (·, a.epoch)

/-- every key of the cache is below `N` (archetype indices are far below `u32::MAX`) -/
def CacheBelow (p : Param) (N : Nat) : Prop := ∀ k ∈ p.cache.keys, k < N

/-! ### the disjunction of access expressions -/

theorem foldl_or_matches (cas : List CA) (init : CA) (S : Nat → Bool) :
    (cas.foldl CA.or init).matches S = (init.matches S || cas.any (·.matches S)) := by
  induction cas generalizing init with
  | nil => simp
  | cons c cas ih => rw [List.foldl_cons, ih, or_matches, List.any_cons, Bool.or_assoc]

/-! ### `Query::get` on an archetype, as a pure function -/

/-- `itemAt` never touches the state: its result as a pure function of the archetype -/
def itemAtPure (st : AS) (a : Arch) (row : Nat) : Except Err Item :=
  match a.ids[row]? with
  | none => .error (.ub "query.rs:get:row-oob")
  | some id =>
    match st.item (fun c => (a.readCell c row).map (·.v)) (id.idx, id.gen) with
    | some it => .ok it
    | none => .error (.ub "query.rs:get:column")

theorem run_itemAt (st : AS) (a : Arch) (row : Nat) (w : World) :
    (itemAt st a row).run.run w = (itemAtPure st a row, w) := by
  unfold itemAt itemAtPure
  cases a.ids[row]? with
  | none => rfl
  | some id =>
    dsimp only
    cases AS.item (fun c => (a.readCell c row).map (·.v)) (id.idx, id.gen) st <;> rfl

/-- every component of the archetype has a cell at every row, given the shape conjunct of `invStore` -/
theorem readCell_isSome {a : Arch} (hcols : a.cols.length = a.comps.length)
    (hlen : ∀ col ∈ a.cols, col.length = a.ids.length) {row : Nat} (hrow : row < a.ids.length) {c : Nat}
    (hc : a.S c = true) : (a.readCell c row).isSome = true := by
  unfold Arch.S at hc
  rw [List.contains_eq_mem, decide_eq_true_eq] at hc
  unfold Arch.readCell Arch.colIdx
  cases hi : a.comps.idxOf? c with
  | none => exact absurd hc (List.idxOf?_eq_none_iff.1 hi)
  | some i =>
    obtain ⟨hlt, -⟩ := List.idxOf?_eq_some_iff.1 hi
    have hlt' : i < a.cols.length := hcols ▸ hlt
    have hcl : a.cols[i].length = a.ids.length := hlen _ (List.getElem_mem hlt')
    have hr : row < a.cols[i].length := hcl ▸ hrow
    simp [List.getElem?_eq_getElem hlt', List.getElem?_eq_getElem hr]

end Evenio
