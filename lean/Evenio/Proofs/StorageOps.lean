import Evenio.Proofs.Storage
/-! Store-level helper lemmas: inversion of the pure operations, `WF` in terms of `loc`, reads under `archs.set`. -/
namespace Evenio
open SparseMap (swapRemove)
set_option linter.unusedSimpArgs false
theorem readCell_eq (a : Arch) (c row : Nat) : a.readCell c row = cellAt row a.comps a.cols c := rfl

theorem count_flatMap_set {α β} [DecidableEq β] (f : α → List β) (l : List α) (i : Nat) (a b : α) (y : β)
    (h : l[i]? = some a) :
    ((l.set i b).flatMap f).count y + (f a).count y = (l.flatMap f).count y + (f b).count y := by
  induction l generalizing i with
  | nil => simp at h
  | cons x l ih =>
    cases i with
    | zero =>
      simp only [List.getElem?_cons_zero, Option.some.injEq] at h; subst h
      simp only [List.set_cons_zero, List.flatMap_cons, List.count_append]; omega
    | succ i =>
      simp only [List.getElem?_cons_succ] at h
      have := ih i h
      simp only [List.set_cons_succ, List.flatMap_cons, List.count_append]; omega

theorem count_flatten_set {β} [DecidableEq β] (l : List (List β)) (i : Nat) (a b : List β) (y : β)
    (h : l[i]? = some a) :
    (l.set i b).flatten.count y + a.count y = l.flatten.count y + b.count y := by
  have := count_flatMap_set id l i a b y h
  simpa [List.flatMap_id] using this

theorem count_set {β} [DecidableEq β] (l : List β) (i : Nat) (x old y : β) (h : l[i]? = some old) :
    (l.set i x).count y + [old].count y = l.count y + [x].count y := by
  obtain ⟨hi, rfl⟩ := List.getElem?_eq_some_iff.mp h
  have := (set_perm l i x hi).count_eq y
  simp only [List.count_cons, List.count_nil] at this ⊢
  omega

theorem count_flatten_swapRemove (row : Nat) (cols : List (List Cell)) (dr : List Cell)
    (hdr : dr.map some = cols.map (·[row]?)) (y : Cell) :
    cols.flatten.count y = (cols.map (swapRemove · row)).flatten.count y + dr.count y := by
  induction cols generalizing dr with
  | nil => simp at hdr; subst hdr; simp
  | cons col cols ih =>
    cases dr with
    | nil => simp at hdr
    | cons x dr =>
      simp only [List.map_cons, List.cons.injEq] at hdr
      have := ih dr hdr.2
      have := count_swapRemove col row x y hdr.1.symm
      simp only [List.flatten_cons, List.map_cons, List.count_append, List.count_cons, List.count_nil] at *
      omega

theorem mem_insertSorted (l : List Nat) (c c' : Nat) : c' ∈ insertSorted l c ↔ c' = c ∨ c' ∈ l := by
  induction l with
  | nil => simp [insertSorted]
  | cons x xs ih =>
    simp only [insertSorted]
    split
    · simp
    · split
      · rename_i h; subst h; simp
      · simp only [List.mem_cons, ih]; grind

/-- a duplicate-free list filtered by a predicate that singles out one member -/
theorem filter_eq_singleton {d : List Nat} (hd : d.Nodup) {c : Nat} (hc : c ∈ d) (p : Nat → Bool)
    (hp : ∀ x ∈ d, p x = true ↔ x = c) : d.filter p = [c] := by
  induction d with
  | nil => simp at hc
  | cons x xs ih =>
    have hnd := List.nodup_cons.mp hd
    by_cases hx : x = c
    · subst hx
      rw [List.filter_cons_of_pos ((hp x (by simp)).mpr rfl)]
      congr
      rw [List.filter_eq_nil_iff]
      intro y hy hpy
      have := (hp y (by simp [hy])).mp hpy
      subst this; exact hnd.1 hy
    · have hpx : ¬ p x = true := fun h => hx ((hp x (by simp)).mp h)
      rw [List.filter_cons_of_neg hpx]
      have hc' : c ∈ xs := by
        rcases List.mem_cons.mp hc with h | h
        · exact absurd h.symm hx
        · exact h
      exact ih hnd.2 hc' (fun y hy => hp y (by simp [hy]))

namespace Store

/-- the cell of component `c` at a location -/
def cellOf (st : Store) (c : Nat) (l : Loc) : Option Cell :=
  match st.archs[l.arch]? with
  | none => none
  | some a => a.readCell c l.row

def compsOf (st : Store) (l : Loc) : Option (List Nat) := (st.archs[l.arch]?).map (·.comps)

theorem get_eq (st : Store) (e : Key) (c : Nat) : st.get e c = (st.loc e).bind (st.cellOf c) := by
  unfold get cellOf; cases st.loc e <;> rfl

theorem comps_eq (st : Store) (e : Key) : st.comps e = (st.loc e).bind st.compsOf := by
  unfold comps compsOf; cases st.loc e <;> rfl

theorem setLoc_inv {st st' : Store} {id : Key} {f : Loc → Loc} (h : st.setLoc id f = some st') :
    st'.archs = st.archs ∧ st'.locs.map (·.1) = st.locs.map (·.1) ∧
    (∀ e, st'.loc e = if e = id then (st.loc e).map f else st.loc e) := by
  unfold setLoc at h
  split at h
  · simp only [Option.some.injEq] at h; subst h
    exact ⟨rfl, keys_upd _ _ _, fun e => alookup_upd _ _ _ _⟩
  · simp at h

theorem setLoc_some {st : Store} {id : Key} {l : Loc} (f : Loc → Loc) (h : st.loc id = some l) :
    ∃ st', st.setLoc id f = some st' := by
  unfold setLoc; rw [h]; exact ⟨_, rfl⟩

theorem removeLoc_inv {st st' : Store} {id : Key} {l : Loc} (h : st.removeLoc id = some (l, st')) :
    st'.archs = st.archs ∧ st'.locs = (st.locs.filter fun p => p.1 ≠ id) ∧
    (∀ e, st'.loc e = if e = id then none else st.loc e) ∧ st.loc id = some l := by
  unfold removeLoc at h
  split at h
  · rename_i l' hl
    simp only [Option.some.injEq, Prod.mk.injEq] at h
    obtain ⟨rfl, rfl⟩ := h
    exact ⟨rfl, rfl, fun e => alookup_erase _ _ _, hl⟩
  · simp at h

theorem WF.loc_iff {st : Store} (h : st.WF) (e : Key) (l : Loc) : st.loc e = some l ↔ st.rowId l = some e := by
  rw [← h.bij, loc_eq, mem_iff_alookup _ h.keys]

theorem WF.of_loc {st : Store} (harch : ∀ a ∈ st.archs, ArchWF a) (hk : (st.locs.map (·.1)).Nodup)
    (hb : ∀ e l, st.loc e = some l ↔ st.rowId l = some e) : st.WF :=
  ⟨harch, hk, fun e l => by rw [← hb, loc_eq, mem_iff_alookup _ hk]⟩

theorem rowId_of_arch {st : Store} {a : Nat} {A : Arch} (h : st.archs[a]? = some A) (r : Nat) :
    st.rowId ⟨a, r⟩ = A.ids[r]? := by
  simp [rowId, h]

theorem WF.archWF {st : Store} (h : st.WF) {a : Nat} {A : Arch} (ha : st.archs[a]? = some A) : ArchWF A :=
  h.arch A (List.mem_of_getElem? ha)

/-! ### `moveEntity` between two archetypes -/

/-- everything `moveEntity` does in the two-archetype case -/
structure MoveInv (st st' : Store) (src : Loc) (dst : Nat) (new : List (Nat × Cell)) (dr : List Cell)
    (sa da : Arch) (r : MoveCols) (eid : Key) : Prop where
  hsa : st.archs[src.arch]? = some sa
  hda : st.archs[dst]? = some da
  hr : moveCols src.row sa.comps sa.cols da.comps da.cols new = some r
  heid : sa.ids[src.row]? = some eid
  hdr : dr = r.dropped
  harchs : st'.archs = (st.archs.set src.arch { sa with cols := r.src, ids := swapRemove sa.ids src.row }).set dst
      { da with cols := r.dst, ids := da.ids ++ [eid] }
  hkeys : st'.locs.map (·.1) = st.locs.map (·.1)
  hloc : ∀ e', st'.loc e' =
    match (swapRemove sa.ids src.row)[src.row]? with
    | some sw =>
      if e' = sw then
        (if e' = eid then (st.loc e').map (fun _ => ⟨dst, da.ids.length⟩) else st.loc e').map
          (fun l => { l with row := src.row })
      else (if e' = eid then (st.loc e').map (fun _ => ⟨dst, da.ids.length⟩) else st.loc e')
    | none => (if e' = eid then (st.loc e').map (fun _ => ⟨dst, da.ids.length⟩) else st.loc e')

theorem moveEntity_ne_inv {st st' : Store} {src : Loc} {dst : Nat} {new : List (Nat × Cell)} {dr : List Cell}
    (hne : src.arch ≠ dst) (h : st.moveEntity src dst new = some (st', dr)) :
    ∃ sa da r eid, MoveInv st st' src dst new dr sa da r eid := by
  unfold moveEntity at h
  rw [if_neg hne] at h
  split at h
  · rename_i sa da hsa hda
    simp only at h
    split at h
    · simp at h
    · rename_i r hr
      split at h
      · simp at h
      · rename_i eid heid
        split at h
        · simp at h
        · rename_i st2 h2
          obtain ⟨ha2, hk2, hl2⟩ := setLoc_inv h2
          split at h
          · rename_i sw hsw
            split at h
            · simp at h
            · rename_i st3 h3
              obtain ⟨ha3, hk3, hl3⟩ := setLoc_inv h3
              simp only [Option.some.injEq, Prod.mk.injEq] at h
              obtain ⟨rfl, rfl⟩ := h
              refine ⟨sa, da, r, eid, hsa, hda, hr, heid, rfl, by rw [ha3, ha2], by rw [hk3, hk2], ?_⟩
              intro e'
              rw [hsw, hl3, hl2]
              rfl
          · rename_i hsw
            simp only [Option.some.injEq, Prod.mk.injEq] at h
            obtain ⟨rfl, rfl⟩ := h
            refine ⟨sa, da, r, eid, hsa, hda, hr, heid, rfl, by rw [ha2], by rw [hk2], ?_⟩
            intro e'
            rw [hsw, hl2]
            rfl
  · simp at h


theorem lt_of_getElem?_eq_some {α} {l : List α} {i : Nat} {x : α} (h : l[i]? = some x) : i < l.length :=
  (List.getElem?_eq_some_iff.mp h).1

/-- rows of one archetype hold distinct entities -/
theorem WF.ids_inj {st : Store} (hwf : st.WF) {a : Nat} {A : Arch} (ha : st.archs[a]? = some A)
    {i j : Nat} {k : Key} (hi : A.ids[i]? = some k) (hj : A.ids[j]? = some k) : i = j := by
  have h1 := (hwf.loc_iff k ⟨a, i⟩).mpr (by rw [rowId_of_arch ha]; exact hi)
  have h2 := (hwf.loc_iff k ⟨a, j⟩).mpr (by rw [rowId_of_arch ha]; exact hj)
  rw [h1] at h2; simpa using h2

theorem MoveInv.loc_eq {st st' : Store} {src : Loc} {dst : Nat} {new : List (Nat × Cell)} {dr : List Cell}
    {sa da : Arch} {r : MoveCols} {eid : Key} (m : MoveInv st st' src dst new dr sa da r eid) (hwf : st.WF) (e' : Key) :
    st'.loc e' = locPush (locSR st.loc sa.ids src.row eid) dst da.ids.length eid e' := by
  have hrow := lt_of_getElem?_eq_some m.heid
  have hle : st.loc eid = some src := (hwf.loc_iff _ _).mpr (by rw [rowId_of_arch m.hsa]; exact m.heid)
  have hsw : ∀ sw, (swapRemove sa.ids src.row)[src.row]? = some sw → sw ≠ eid := by
    intro sw h1 h2
    subst h2
    rw [getElem?_swapRemove _ _ _ hrow] at h1
    split at h1
    · simp only [if_true] at h1
      have := hwf.ids_inj m.hsa h1 m.heid
      omega
    · simp at h1
  rw [m.hloc e']
  simp only [locPush, locSR]
  cases hs : (swapRemove sa.ids src.row)[src.row]? with
  | none => simp only; split <;> simp_all
  | some sw =>
    have := hsw sw hs
    simp only
    by_cases h1 : e' = eid
    · subst h1; simp [Ne.symm this, hle]
    · simp [h1]

theorem getElem?_set_set {α} (l : List α) (i j : Nat) (x y : α) (_hij : i ≠ j) (hi : i < l.length) (hj : j < l.length)
    (k : Nat) : ((l.set i x).set j y)[k]? = if k = j then some y else if k = i then some x else l[k]? := by
  simp only [List.getElem?_set, List.length_set]
  grind

theorem MoveInv.archs_eq {st st' : Store} {src : Loc} {dst : Nat} {new : List (Nat × Cell)} {dr : List Cell}
    {sa da : Arch} {r : MoveCols} {eid : Key} (m : MoveInv st st' src dst new dr sa da r eid) (hne : src.arch ≠ dst)
    (k : Nat) :
    st'.archs[k]? = if k = dst then some { da with cols := r.dst, ids := da.ids ++ [eid] }
      else if k = src.arch then some { sa with cols := r.src, ids := swapRemove sa.ids src.row } else st.archs[k]? := by
  rw [m.harchs, getElem?_set_set _ _ _ _ _ hne (lt_of_getElem?_eq_some m.hsa) (lt_of_getElem?_eq_some m.hda)]

theorem MoveInv.rowId_eq {st st' : Store} {src : Loc} {dst : Nat} {new : List (Nat × Cell)} {dr : List Cell}
    {sa da : Arch} {r : MoveCols} {eid : Key} (m : MoveInv st st' src dst new dr sa da r eid) (hne : src.arch ≠ dst)
    (l : Loc) :
    st'.rowId l = rowPush (rowSR st.rowId src.arch sa.ids src.row) dst da.ids eid l := by
  simp only [rowId, m.archs_eq hne, rowPush, rowSR]
  by_cases h1 : l.arch = dst
  · simp only [h1, if_true]
  · simp only [h1, if_false]
    by_cases h2 : l.arch = src.arch
    · simp only [h2, if_true]
    · simp only [h2, if_false]

theorem archWF_swapRemove {a : Arch} (h : ArchWF a) (row : Nat) :
    ArchWF { a with cols := a.cols.map (swapRemove · row), ids := swapRemove a.ids row } := by
  refine ⟨by simpa using h.cols_len, ?_, h.sorted⟩
  intro col hcol
  obtain ⟨col0, h0, rfl⟩ := List.mem_map.mp hcol
  simp only [length_swapRemove, h.col_len col0 h0]

theorem archWF_push {a : Arch} (h : ArchWF a) (dst : List (List Cell)) (e : Key)
    (hlen : dst.length = a.cols.length)
    (hshape : ∀ (j : Nat) (dcol : List Cell), a.cols[j]? = some dcol → ∃ x, dst[j]? = some (dcol ++ [x])) :
    ArchWF { a with cols := dst, ids := a.ids ++ [e] } := by
  refine ⟨by simpa [hlen] using h.cols_len, ?_, h.sorted⟩
  intro col hcol
  obtain ⟨j, hj⟩ := List.getElem?_of_mem hcol
  have hjl : j < a.cols.length := hlen ▸ lt_of_getElem?_eq_some hj
  obtain ⟨x, hx⟩ := hshape j a.cols[j] (by simp [hjl])
  rw [hj] at hx
  simp only [Option.some.injEq] at hx
  subst hx
  simp [h.col_len _ (List.getElem_mem hjl)]

theorem MoveInv.bij {st st' : Store} {src : Loc} {dst : Nat} {new : List (Nat × Cell)} {dr : List Cell}
    {sa da : Arch} {r : MoveCols} {eid : Key} (m : MoveInv st st' src dst new dr sa da r eid)
    (hwf : st.WF) : ∀ e l, locSR st.loc sa.ids src.row eid e = some l ↔ rowSR st.rowId src.arch sa.ids src.row l = some e :=
  bij_swapRemove st.loc st.rowId hwf.loc_iff src.arch sa.ids (rowId_of_arch m.hsa) src.row eid m.heid

theorem MoveInv.rowSR_dst {st st' : Store} {src : Loc} {dst : Nat} {new : List (Nat × Cell)} {dr : List Cell}
    {sa da : Arch} {r : MoveCols} {eid : Key} (m : MoveInv st st' src dst new dr sa da r eid) (hne : src.arch ≠ dst)
    (r' : Nat) : rowSR st.rowId src.arch sa.ids src.row ⟨dst, r'⟩ = da.ids[r']? := by
  simp only [rowSR, if_neg (Ne.symm hne), rowId_of_arch m.hda]

theorem MoveInv.wf {st st' : Store} {src : Loc} {dst : Nat} {new : List (Nat × Cell)} {dr : List Cell}
    {sa da : Arch} {r : MoveCols} {eid : Key} (m : MoveInv st st' src dst new dr sa da r eid) (hne : src.arch ≠ dst)
    (hwf : st.WF) : st'.WF := by
  apply WF.of_loc
  · intro a ha
    obtain ⟨k, hk⟩ := List.getElem?_of_mem ha
    rw [m.archs_eq hne] at hk
    split at hk
    · simp only [Option.some.injEq] at hk; subst hk
      have := moveCols_dst_shape _ _ _ _ _ _ _ m.hr
      exact archWF_push (hwf.archWF m.hda) _ _ this.1 this.2
    · split at hk
      · simp only [Option.some.injEq] at hk; subst hk
        rw [moveCols_src _ _ _ _ _ _ _ m.hr]
        exact archWF_swapRemove (hwf.archWF m.hsa) _
      · exact hwf.archWF hk
  · rw [m.hkeys]; exact hwf.keys
  · intro e l
    rw [m.loc_eq hwf, m.rowId_eq hne]
    exact bij_push _ _ (m.bij hwf) dst da.ids (m.rowSR_dst hne) eid (by simp [locSR]) e l

theorem MoveInv.bind_other {β : Type} (G G' : Loc → Option β)
    {st st' : Store} {src : Loc} {dst : Nat} {new : List (Nat × Cell)} {dr : List Cell}
    {sa da : Arch} {r : MoveCols} {eid : Key} (m : MoveInv st st' src dst new dr sa da r eid) (hne : src.arch ≠ dst)
    (hwf : st.WF)
    (hGs : ∀ r', r' + 1 < sa.ids.length →
      G' ⟨src.arch, r'⟩ = if r' = src.row then G ⟨src.arch, sa.ids.length - 1⟩ else G ⟨src.arch, r'⟩)
    (hGd : ∀ r', r' < da.ids.length → G' ⟨dst, r'⟩ = G ⟨dst, r'⟩)
    (hGo : ∀ a r', a ≠ src.arch → a ≠ dst → G' ⟨a, r'⟩ = G ⟨a, r'⟩) (e' : Key) (hne' : e' ≠ eid) :
    (st'.loc e').bind G' = (st.loc e').bind G := by
  let G1 : Loc → Option β := fun l => if l.arch = dst then G l else G' l
  rw [m.loc_eq hwf]
  rw [bind_locPush G1 G' _ _ (m.bij hwf) dst da.ids (m.rowSR_dst hne) eid
    (by intro r' hr'; simp only [G1, if_true]; exact hGd r' hr')
    (by intro a r' ha; simp only [G1, if_neg ha]) e' hne']
  exact bind_locSR G G1 st.loc st.rowId hwf.loc_iff src.arch sa.ids (rowId_of_arch m.hsa) src.row eid m.heid
    (by intro r' hr'; simp only [G1, if_neg hne]; exact hGs r' hr')
    (by
      intro a r' ha
      simp only [G1]
      split
      · rfl
      · rename_i h; exact hGo a r' ha h)
    e' hne'

theorem MoveInv.get_other {st st' : Store} {src : Loc} {dst : Nat} {new : List (Nat × Cell)} {dr : List Cell}
    {sa da : Arch} {r : MoveCols} {eid : Key} (m : MoveInv st st' src dst new dr sa da r eid) (hne : src.arch ≠ dst)
    (hwf : st.WF) (e' : Key) (hne' : e' ≠ eid) (c : Nat) : st'.get e' c = st.get e' c := by
  rw [get_eq, get_eq]
  have hsa := hwf.archWF m.hsa
  have hda := hwf.archWF m.hda
  have hshape := moveCols_dst_shape _ _ _ _ _ _ _ m.hr
  apply m.bind_other _ _ hne hwf _ _ _ e' hne'
  · intro r' hr'
    simp only [cellOf, m.archs_eq hne, if_neg hne, if_true, m.hsa, readCell_eq, moveCols_src _ _ _ _ _ _ _ m.hr]
    rw [cellAt_swapRemove sa.ids.length src.row _ _ hsa.col_len (lt_of_getElem?_eq_some m.heid), if_pos hr']
  · intro r' hr'
    simp only [cellOf, m.archs_eq hne, if_true, m.hda, readCell_eq]
    exact cellAt_dst_lt hda.sorted hshape.1 hshape.2 hda.col_len r' c hr'
  · intro a r' h1 h2
    simp only [cellOf, m.archs_eq hne, if_neg h1, if_neg h2]

theorem MoveInv.comps_other {st st' : Store} {src : Loc} {dst : Nat} {new : List (Nat × Cell)} {dr : List Cell}
    {sa da : Arch} {r : MoveCols} {eid : Key} (m : MoveInv st st' src dst new dr sa da r eid) (hne : src.arch ≠ dst)
    (hwf : st.WF) (e' : Key) (hne' : e' ≠ eid) : st'.comps e' = st.comps e' := by
  rw [comps_eq, comps_eq]
  apply m.bind_other _ _ hne hwf _ _ _ e' hne'
  · intro r' hr'
    simp only [compsOf, m.archs_eq hne, if_neg hne, if_true, m.hsa]
    split <;> rfl
  · intro r' hr'
    simp only [compsOf, m.archs_eq hne, if_true, m.hda]; rfl
  · intro a r' h1 h2
    simp only [compsOf, m.archs_eq hne, if_neg h1, if_neg h2]

theorem MoveInv.loc_src {st st' : Store} {src : Loc} {dst : Nat} {new : List (Nat × Cell)} {dr : List Cell}
    {sa da : Arch} {r : MoveCols} {eid : Key} (m : MoveInv st st' src dst new dr sa da r eid)
    (hwf : st.WF) : st.loc eid = some src :=
  (hwf.loc_iff _ _).mpr (by rw [rowId_of_arch m.hsa]; exact m.heid)

theorem MoveInv.loc_self {st st' : Store} {src : Loc} {dst : Nat} {new : List (Nat × Cell)} {dr : List Cell}
    {sa da : Arch} {r : MoveCols} {eid : Key} (m : MoveInv st st' src dst new dr sa da r eid)
    (hwf : st.WF) : st'.loc eid = some ⟨dst, da.ids.length⟩ := by
  rw [m.loc_eq hwf]; simp [locPush]

theorem MoveInv.comps_self {st st' : Store} {src : Loc} {dst : Nat} {new : List (Nat × Cell)} {dr : List Cell}
    {sa da : Arch} {r : MoveCols} {eid : Key} (m : MoveInv st st' src dst new dr sa da r eid) (hne : src.arch ≠ dst)
    (hwf : st.WF) : st'.comps eid = some da.comps := by
  simp [comps, m.loc_self hwf, m.archs_eq hne]

theorem MoveInv.get_self {st st' : Store} {src : Loc} {dst : Nat} {new : List (Nat × Cell)} {dr : List Cell}
    {sa da : Arch} {r : MoveCols} {eid : Key} (m : MoveInv st st' src dst new dr sa da r eid) (hne : src.arch ≠ dst)
    (hwf : st.WF) (c : Nat) :
    st'.get eid c = if c ∈ da.comps then (if c ∈ sa.comps then st.get eid c else new.lookup c) else none := by
  have hsa := hwf.archWF m.hsa
  have hda := hwf.archWF m.hda
  have hold : st.get eid c = cellAt src.row sa.comps sa.cols c := by
    simp only [get, m.loc_src hwf, m.hsa, readCell_eq]
  have : st'.get eid c = cellAt da.ids.length da.comps r.dst c := by
    simp only [get, m.loc_self hwf, m.archs_eq hne, if_true, readCell_eq]
  rw [this, cellAt_dst_last hda.sorted hda.cols_len _
    (moveCols_dst_val _ _ _ _ _ _ _ m.hr hsa.sorted hda.sorted) hda.col_len, hold]
  rfl

theorem moveEntity_ne_some {st : Store} {src : Loc} {dst : Nat} {new : List (Nat × Cell)} {sa da : Arch} {eid : Key}
    (hwf : st.WF) (hne : src.arch ≠ dst) (hsa : st.archs[src.arch]? = some sa) (hda : st.archs[dst]? = some da)
    (heid : sa.ids[src.row]? = some eid)
    (hnew : new.map (·.1) = da.comps.filter (fun c => !sa.comps.contains c)) :
    ∃ st' dr, st.moveEntity src dst new = some (st', dr) := by
  have hwsa := hwf.archWF hsa
  have hwda := hwf.archWF hda
  have hrow := lt_of_getElem?_eq_some heid
  obtain ⟨r, hr⟩ := moveCols_some src.row sa.ids.length sa.comps sa.cols da.comps da.cols new hwsa.sorted hwda.sorted
    hwsa.cols_len hwda.cols_len hwsa.col_len hrow hnew
  have hle : st.loc eid = some src := (hwf.loc_iff _ _).mpr (by rw [rowId_of_arch hsa]; exact heid)
  unfold moveEntity
  rw [if_neg hne, hsa, hda]
  simp only [hr, heid]
  obtain ⟨st2, h2⟩ := setLoc_some (st := { st with archs := (st.archs.set src.arch
      { sa with cols := r.src, ids := swapRemove sa.ids src.row }).set dst { da with cols := r.dst, ids := da.ids ++ [eid] } })
    (fun _ => (⟨dst, da.ids.length⟩ : Loc)) (show Store.loc _ eid = some src from hle)
  rw [h2]
  have hl2 : ∀ e, st2.loc e = if e = eid then (st.loc e).map (fun _ => (⟨dst, da.ids.length⟩ : Loc)) else st.loc e :=
    (setLoc_inv h2).2.2
  simp only
  cases hsw : (swapRemove sa.ids src.row)[src.row]? with
  | none => exact ⟨_, _, rfl⟩
  | some sw =>
    simp only
    have : ∃ l, st2.loc sw = some l := by
      rw [hl2]
      rw [getElem?_swapRemove _ _ _ hrow] at hsw
      split at hsw
      · simp only [if_true] at hsw
        have hls : st.loc sw = some ⟨src.arch, sa.ids.length - 1⟩ :=
          (hwf.loc_iff _ _).mpr (by rw [rowId_of_arch hsa]; exact hsw)
        rw [hls]
        split <;> exact ⟨_, rfl⟩
      · simp at hsw
    obtain ⟨l, hl⟩ := this
    obtain ⟨st3, h3⟩ := setLoc_some (fun l => { l with row := src.row }) hl
    rw [h3]
    exact ⟨_, _, rfl⟩


/-! ### `moveEntity` within one archetype (`Column::assign`) -/

theorem assignAll_inv {a a' : Arch} {row : Nat} {new : List (Nat × Cell)} {dr : List Cell}
    (h : assignAll a row new = some (a', dr)) :
    a'.comps = a.comps ∧ a'.ids = a.ids ∧ a'.cols.length = a.cols.length ∧
    (∀ j : Nat, (a'.cols[j]?).map List.length = (a.cols[j]?).map List.length) ∧
    (∀ j r : Nat, r ≠ row → (a'.cols[j]?).bind (·[r]?) = (a.cols[j]?).bind (·[r]?)) ∧
    (∀ y, a.cols.flatten.count y + (new.map (·.2)).count y = a'.cols.flatten.count y + dr.count y) := by
  induction new generalizing a dr with
  | nil => simp only [assignAll, Option.some.injEq, Prod.mk.injEq] at h; obtain ⟨rfl, rfl⟩ := h; simp
  | cons p new ih =>
    obtain ⟨c, x⟩ := p
    simp only [assignAll] at h
    split at h
    · simp at h
    · rename_i i hi
      split at h
      · simp at h
      · rename_i col' old hassign
        split at h
        · rename_i a1 dr1 hrec
          simp only [Option.some.injEq, Prod.mk.injEq] at h
          obtain ⟨rfl, rfl⟩ := h
          obtain ⟨h1, h2, h3, h4, h5, h6⟩ := ih hrec
          cases hcol : a.cols[i]? with
          | none => simp [hcol] at hassign
          | some col =>
            simp only [hcol, Option.bind_eq_bind, Option.bind_some, assignCol] at hassign
            split at hassign
            · rename_i old' hold
              simp only [Option.some.injEq, Prod.mk.injEq] at hassign
              obtain ⟨rfl, rfl⟩ := hassign
              refine ⟨h1, h2, by simpa using h3, ?_, ?_, ?_⟩
              · intro j; rw [h4 j]; simp only [List.getElem?_set]; grind
              · intro j r hr; rw [h5 j r hr]; simp only [List.getElem?_set]; grind
              · intro y
                have e1 := h6 y
                have e2 := count_flatten_set a.cols i col (col.set row x) y hcol
                have e3 := count_set col row x old' y hold
                simp only [List.map_cons, List.count_cons, List.count_nil] at e1 e2 e3 ⊢
                omega
            · simp at hassign
        · simp at h

/-- everything `moveEntity` does in the same-archetype case -/
structure SameInv (st st' : Store) (src : Loc) (new : List (Nat × Cell)) (dr : List Cell) (a a' : Arch) : Prop where
  ha : st.archs[src.arch]? = some a
  hassign : assignAll a src.row new = some (a', dr)
  harchs : st'.archs = st.archs.set src.arch a'
  hlocs : st'.locs = st.locs

theorem moveEntity_same_inv {st st' : Store} {src : Loc} {dst : Nat} {new : List (Nat × Cell)} {dr : List Cell}
    (he : src.arch = dst) (h : st.moveEntity src dst new = some (st', dr)) : ∃ a a', SameInv st st' src new dr a a' := by
  unfold moveEntity at h
  rw [if_pos he] at h
  split at h
  · simp at h
  · rename_i a ha
    split at h
    · simp at h
    · rename_i a' dr' hassign
      simp only [Option.some.injEq, Prod.mk.injEq] at h
      obtain ⟨rfl, rfl⟩ := h
      exact ⟨a, a', ha, hassign, rfl, rfl⟩

theorem SameInv.archs_eq {st st' : Store} {src : Loc} {new : List (Nat × Cell)} {dr : List Cell} {a a' : Arch}
    (m : SameInv st st' src new dr a a') (k : Nat) :
    st'.archs[k]? = if k = src.arch then some a' else st.archs[k]? := by
  rw [m.harchs, List.getElem?_set]
  have := lt_of_getElem?_eq_some m.ha
  by_cases h : src.arch = k
  · simp [h, h ▸ this]
  · simp [h, Ne.symm h]

theorem SameInv.loc_eq {st st' : Store} {src : Loc} {new : List (Nat × Cell)} {dr : List Cell} {a a' : Arch}
    (m : SameInv st st' src new dr a a') (e : Key) : st'.loc e = st.loc e := by
  simp only [loc, m.hlocs]

theorem SameInv.rowId_eq {st st' : Store} {src : Loc} {new : List (Nat × Cell)} {dr : List Cell} {a a' : Arch}
    (m : SameInv st st' src new dr a a') (l : Loc) : st'.rowId l = st.rowId l := by
  simp only [rowId, m.archs_eq]
  by_cases h : l.arch = src.arch
  · simp only [h, if_true, m.ha, (assignAll_inv m.hassign).2.1]
  · simp only [h, if_false]

theorem SameInv.wf {st st' : Store} {src : Loc} {new : List (Nat × Cell)} {dr : List Cell} {a a' : Arch}
    (m : SameInv st st' src new dr a a') (hwf : st.WF) : st'.WF := by
  obtain ⟨h1, h2, h3, h4, _, _⟩ := assignAll_inv m.hassign
  have hwa := hwf.archWF m.ha
  apply WF.of_loc
  · intro b hb
    obtain ⟨k, hk⟩ := List.getElem?_of_mem hb
    rw [m.archs_eq] at hk
    split at hk
    · simp only [Option.some.injEq] at hk; subst hk
      refine ⟨by rw [h3, h1]; exact hwa.cols_len, ?_, by rw [h1]; exact hwa.sorted⟩
      intro col hcol
      obtain ⟨j, hj⟩ := List.getElem?_of_mem hcol
      have := h4 j
      rw [hj] at this
      cases hc : a.cols[j]? with
      | none => simp [hc] at this
      | some col0 =>
        simp only [hc, Option.map_some, Option.some.injEq] at this
        rw [this, h2]; exact hwa.col_len _ (List.mem_of_getElem? hc)
    · exact hwf.archWF hk
  · rw [m.hlocs]; exact hwf.keys
  · intro e l; rw [m.loc_eq, m.rowId_eq]; exact hwf.loc_iff e l

theorem SameInv.comps_eq {st st' : Store} {src : Loc} {new : List (Nat × Cell)} {dr : List Cell} {a a' : Arch}
    (m : SameInv st st' src new dr a a') (e : Key) : st'.comps e = st.comps e := by
  simp only [comps, m.loc_eq, m.archs_eq]
  cases st.loc e with
  | none => rfl
  | some l =>
    simp only
    by_cases h : l.arch = src.arch
    · simp [h, m.ha, (assignAll_inv m.hassign).1]
    · simp only [h, if_false]

theorem SameInv.readCell_other {st st' : Store} {src : Loc} {new : List (Nat × Cell)} {dr : List Cell} {a a' : Arch}
    (m : SameInv st st' src new dr a a') (c r : Nat) (hr : r ≠ src.row) : a'.readCell c r = a.readCell c r := by
  obtain ⟨h1, _, _, _, h5, _⟩ := assignAll_inv m.hassign
  simp only [Arch.readCell, Arch.colIdx, h1]
  cases List.idxOf? c a.comps with
  | none => rfl
  | some i => exact h5 i r hr

theorem SameInv.get_other {st st' : Store} {src : Loc} {new : List (Nat × Cell)} {dr : List Cell} {a a' : Arch}
    (m : SameInv st st' src new dr a a') (e' : Key) (hne : st.loc e' ≠ some src) (c : Nat) :
    st'.get e' c = st.get e' c := by
  simp only [get, m.loc_eq, m.archs_eq]
  cases hl : st.loc e' with
  | none => rfl
  | some l =>
    simp only
    by_cases h : l.arch = src.arch
    · simp only [h, if_true, m.ha]
      apply m.readCell_other
      intro hr
      apply hne
      rw [hl]; congr; cases l; cases src; simp_all
    · simp only [h, if_false]



theorem assignAll_single {a : Arch} (hwa : ArchWF a) {c row : Nat} (x : Cell) (hc : c ∈ a.comps)
    (hrow : row < a.ids.length) :
    ∃ a' old, assignAll a row [(c, x)] = some (a', [old]) ∧ a.readCell c row = some old ∧
      ∀ c', a'.readCell c' row = if c' = c then some x else a.readCell c' row := by
  obtain ⟨j, hj⟩ := List.getElem?_of_mem hc
  have hnd := Sorted.nodup hwa.sorted
  have hidx := idxOf?_of_nodup hnd hj
  have hjl : j < a.cols.length := by rw [hwa.cols_len]; exact lt_of_getElem?_eq_some hj
  have hcl : a.cols[j].length = a.ids.length := hwa.col_len _ (List.getElem_mem hjl)
  have hcol : a.cols[j]? = some a.cols[j] := by simp [hjl]
  have hold : a.cols[j][row]? = some (a.cols[j][row]'(by omega)) := by simp [hcl, hrow]
  refine ⟨{ a with cols := a.cols.set j (a.cols[j].set row x) }, a.cols[j][row]'(by omega), ?_, ?_, ?_⟩
  · simp [assignAll, Arch.colIdx, hidx, hcol, assignCol, hold]
  · rw [readCell_eq, cellAt_of_idx hnd hj, hcol]; simp
  · intro c'
    simp only [readCell_eq]
    by_cases hcc : c' = c
    · subst hcc
      rw [if_pos rfl, cellAt_of_idx hnd hj]
      simp [hjl, hcl, hrow]
    · rw [if_neg hcc]
      by_cases hc' : c' ∈ a.comps
      · obtain ⟨j', hj'⟩ := List.getElem?_of_mem hc'
        have : j ≠ j' := by intro h; subst h; rw [hj] at hj'; simp at hj'; exact hcc hj'.symm
        rw [cellAt_of_idx hnd hj', cellAt_of_idx hnd hj', List.getElem?_set_ne this]
      · rw [cellAt_not_mem _ _ _ _ hc', cellAt_not_mem _ _ _ _ hc']


/-! ### `removeEntity` -/

theorem removeCols_inv {row : Nat} {cs : List Nat} {cols cols' : List (List Cell)} {dr : List Cell}
    (hl : cols.length = cs.length) (h : removeCols row (cs.zip cols) = some (cols', dr)) :
    cols' = cols.map (swapRemove · row) ∧ dr.map some = cols.map (·[row]?) := by
  induction cs generalizing cols cols' dr with
  | nil =>
    have : cols = [] := by simpa using hl
    subst this
    simp only [List.zip_nil_left, removeCols, Option.some.injEq, Prod.mk.injEq] at h
    obtain ⟨rfl, rfl⟩ := h; simp
  | cons c cs ih =>
    cases cols with
    | nil => simp at hl
    | cons col cols =>
      simp only [List.zip_cons_cons, removeCols] at h
      split at h
      · rename_i x cols1 dr1 hx hrec
        simp only [Option.some.injEq, Prod.mk.injEq] at h
        obtain ⟨rfl, rfl⟩ := h
        obtain ⟨h1, h2⟩ := ih (by simpa using hl) hrec
        simp [h1, h2, hx]
      · simp at h

theorem removeCols_some {row : Nat} {cs : List Nat} {cols : List (List Cell)}
    (hl : cols.length = cs.length) (hcol : ∀ col ∈ cols, row < col.length) :
    ∃ cols' dr, removeCols row (cs.zip cols) = some (cols', dr) := by
  induction cs generalizing cols with
  | nil => exact ⟨[], [], by simp [removeCols]⟩
  | cons c cs ih =>
    cases cols with
    | nil => simp at hl
    | cons col cols =>
      obtain ⟨cols', dr, h⟩ := ih (cols := cols) (by simpa using hl) (fun c hc => hcol c (by simp [hc]))
      have : row < col.length := hcol col (by simp)
      exact ⟨swapRemove col row :: cols', col[row] :: dr, by simp [removeCols, h, this]⟩

/-- reading all components of a row = the row across the columns -/
theorem map_cellAt_self (row : Nat) {cs : List Nat} {cols : List (List Cell)} (hs : Sorted cs)
    (hl : cols.length = cs.length) : cs.map (cellAt row cs cols) = cols.map (·[row]?) := by
  induction cs generalizing cols with
  | nil => have : cols = [] := by simpa using hl
           subst this; simp
  | cons c cs ih =>
    cases cols with
    | nil => simp at hl
    | cons col cols =>
      rw [List.map_cons, List.map_cons, cellAt_cons, if_pos rfl, ← ih hs.tail (by simpa using hl)]
      congr 1
      apply List.map_congr_left
      intro c' hc'
      have := hs.head_lt c' hc'
      rw [cellAt_cons, if_neg (by omega)]


/-- everything `removeEntity` does -/
structure RemoveInv (st st' : Store) (loc : Loc) (dr : List Cell) (a : Arch) (id : Key) : Prop where
  ha : st.archs[loc.arch]? = some a
  hid : a.ids[loc.row]? = some id
  hdr : a.cols.length = a.comps.length → dr.map some = a.cols.map (·[loc.row]?)
  harchs : a.cols.length = a.comps.length →
    st'.archs = st.archs.set loc.arch { a with cols := a.cols.map (swapRemove · loc.row), ids := swapRemove a.ids loc.row }
  hkeys : st'.locs.map (·.1) = (st.locs.filter fun p => p.1 ≠ id).map (·.1)
  hloc : ∀ e', st'.loc e' = locSR st.loc a.ids loc.row id e'

theorem removeEntity_inv {st st' : Store} {loc : Loc} {dr : List Cell}
    (h : st.removeEntity loc = some (st', dr)) : ∃ a id, RemoveInv st st' loc dr a id := by
  unfold removeEntity at h
  split at h
  · simp at h
  · rename_i a ha
    split at h
    · simp at h
    · rename_i cols dr' hcols
      split at h
      · simp at h
      · rename_i id hid
        simp only at h
        split at h
        · simp at h
        · rename_i removed st2 h2
          obtain ⟨ha2, hlocs2, hl2, _⟩ := removeLoc_inv h2
          have hl2' : ∀ e, st2.loc e = if e = id then none else st.loc e := hl2
          split at h
          · rename_i sw hsw
            split at h
            · simp at h
            · rename_i st3 h3
              obtain ⟨ha3, hk3, hl3⟩ := setLoc_inv h3
              simp only [Option.some.injEq, Prod.mk.injEq] at h
              obtain ⟨rfl, rfl⟩ := h
              refine ⟨a, id, ha, hid, fun hl => (removeCols_inv hl hcols).2, ?_, by rw [hk3, hlocs2], ?_⟩
              · intro hl; rw [ha3, ha2, (removeCols_inv hl hcols).1]
              · intro e'
                rw [hl3, hl2']
                simp only [locSR, hsw]
                by_cases h1 : e' = id <;> by_cases h2 : e' = sw <;> simp [h1, h2]
                all_goals (subst h2; simp [h1])
          · rename_i hsw
            simp only [Option.some.injEq, Prod.mk.injEq] at h
            obtain ⟨rfl, rfl⟩ := h
            refine ⟨a, id, ha, hid, fun hl => (removeCols_inv hl hcols).2, ?_, by rw [hlocs2], ?_⟩
            · intro hl; rw [ha2, (removeCols_inv hl hcols).1]
            · intro e'
              rw [hl2']
              simp only [locSR, hsw]

theorem RemoveInv.archs_eq {st st' : Store} {loc : Loc} {dr : List Cell} {a : Arch} {id : Key}
    (m : RemoveInv st st' loc dr a id) (hwf : st.WF) (k : Nat) :
    st'.archs[k]? = if k = loc.arch then
        some { a with cols := a.cols.map (swapRemove · loc.row), ids := swapRemove a.ids loc.row }
      else st.archs[k]? := by
  rw [m.harchs (hwf.archWF m.ha).cols_len, List.getElem?_set]
  have := lt_of_getElem?_eq_some m.ha
  by_cases h : loc.arch = k
  · simp [h, h ▸ this]
  · simp [h, Ne.symm h]

theorem RemoveInv.rowId_eq {st st' : Store} {loc : Loc} {dr : List Cell} {a : Arch} {id : Key}
    (m : RemoveInv st st' loc dr a id) (hwf : st.WF) (l : Loc) :
    st'.rowId l = rowSR st.rowId loc.arch a.ids loc.row l := by
  simp only [rowId, m.archs_eq hwf, rowSR]
  by_cases h : l.arch = loc.arch
  · simp only [h, if_true]
  · simp only [h, if_false]

theorem RemoveInv.wf {st st' : Store} {loc : Loc} {dr : List Cell} {a : Arch} {id : Key}
    (m : RemoveInv st st' loc dr a id) (hwf : st.WF) : st'.WF := by
  apply WF.of_loc
  · intro b hb
    obtain ⟨k, hk⟩ := List.getElem?_of_mem hb
    rw [m.archs_eq hwf] at hk
    split at hk
    · simp only [Option.some.injEq] at hk; subst hk
      exact archWF_swapRemove (hwf.archWF m.ha) _
    · exact hwf.archWF hk
  · rw [m.hkeys]
    exact List.Nodup.sublist (List.Sublist.map _ List.filter_sublist) hwf.keys
  · intro e l
    rw [m.hloc, m.rowId_eq hwf]
    exact bij_swapRemove st.loc st.rowId hwf.loc_iff loc.arch a.ids (rowId_of_arch m.ha) loc.row id m.hid e l

theorem RemoveInv.loc_self {st st' : Store} {loc : Loc} {dr : List Cell} {a : Arch} {id : Key}
    (m : RemoveInv st st' loc dr a id) : st'.loc id = none := by
  rw [m.hloc]; simp [locSR]

theorem RemoveInv.bind_other {β : Type} (G G' : Loc → Option β)
    {st st' : Store} {loc : Loc} {dr : List Cell} {a : Arch} {id : Key}
    (m : RemoveInv st st' loc dr a id) (hwf : st.WF)
    (hGs : ∀ r', r' + 1 < a.ids.length →
      G' ⟨loc.arch, r'⟩ = if r' = loc.row then G ⟨loc.arch, a.ids.length - 1⟩ else G ⟨loc.arch, r'⟩)
    (hGo : ∀ k r', k ≠ loc.arch → G' ⟨k, r'⟩ = G ⟨k, r'⟩) (e' : Key) (hne' : e' ≠ id) :
    (st'.loc e').bind G' = (st.loc e').bind G := by
  rw [m.hloc]
  exact bind_locSR G G' st.loc st.rowId hwf.loc_iff loc.arch a.ids (rowId_of_arch m.ha) loc.row id m.hid hGs hGo e' hne'

theorem RemoveInv.get_other {st st' : Store} {loc : Loc} {dr : List Cell} {a : Arch} {id : Key}
    (m : RemoveInv st st' loc dr a id) (hwf : st.WF) (e' : Key) (hne' : e' ≠ id) (c : Nat) :
    st'.get e' c = st.get e' c := by
  rw [get_eq, get_eq]
  have hwa := hwf.archWF m.ha
  apply m.bind_other _ _ hwf _ _ e' hne'
  · intro r' hr'
    simp only [cellOf, m.archs_eq hwf, if_true, m.ha, readCell_eq]
    rw [cellAt_swapRemove a.ids.length loc.row _ _ hwa.col_len (lt_of_getElem?_eq_some m.hid), if_pos hr']
  · intro k r' h1
    simp only [cellOf, m.archs_eq hwf, if_neg h1]

theorem RemoveInv.comps_other {st st' : Store} {loc : Loc} {dr : List Cell} {a : Arch} {id : Key}
    (m : RemoveInv st st' loc dr a id) (hwf : st.WF) (e' : Key) (hne' : e' ≠ id) :
    st'.comps e' = st.comps e' := by
  rw [comps_eq, comps_eq]
  apply m.bind_other _ _ hwf _ _ e' hne'
  · intro r' hr'
    simp only [compsOf, m.archs_eq hwf, if_true, m.ha]
    split <;> rfl
  · intro k r' h1
    simp only [compsOf, m.archs_eq hwf, if_neg h1]

/-- the dropped cells are exactly the removed entity's components, in component order -/
theorem RemoveInv.dropped_eq {st st' : Store} {loc : Loc} {dr : List Cell} {a : Arch} {id : Key}
    (m : RemoveInv st st' loc dr a id) (hwf : st.WF) : dr.map some = a.comps.map (st.get id) := by
  have hwa := hwf.archWF m.ha
  have hl : st.loc id = some loc := (hwf.loc_iff _ _).mpr (by rw [rowId_of_arch m.ha]; exact m.hid)
  rw [m.hdr hwa.cols_len, ← map_cellAt_self loc.row hwa.sorted hwa.cols_len]
  apply List.map_congr_left
  intro c _
  simp only [get, hl, m.ha, readCell_eq]

theorem removeLoc_some {st : Store} {id : Key} {l : Loc} (h : st.loc id = some l) :
    ∃ st', st.removeLoc id = some (l, st') := by
  unfold removeLoc; rw [h]; exact ⟨_, rfl⟩

theorem removeEntity_some {st : Store} {loc : Loc} {e : Key} (hwf : st.WF) (hl : st.loc e = some loc) :
    ∃ st' dr, st.removeEntity loc = some (st', dr) := by
  have hr := (hwf.loc_iff _ _).mp hl
  simp only [rowId] at hr
  cases ha : st.archs[loc.arch]? with
  | none => simp [ha] at hr
  | some a =>
    simp only [ha] at hr
    have hwa := hwf.archWF ha
    have hrow := lt_of_getElem?_eq_some hr
    obtain ⟨cols', dr, hcols⟩ := removeCols_some (row := loc.row) hwa.cols_len
      (fun col hc => by rw [hwa.col_len col hc]; exact hrow)
    unfold removeEntity
    simp only [ha, hcols, hr]
    obtain ⟨st2, h2⟩ := removeLoc_some (st := Store.mk (st.archs.set loc.arch
        { a with cols := cols', ids := swapRemove a.ids loc.row }) st.locs) (id := e) (l := loc) hl
    rw [h2]
    simp only
    have hl2 : ∀ e', st2.loc e' = if e' = e then none else st.loc e' := (removeLoc_inv h2).2.2.1
    cases hsw : (swapRemove a.ids loc.row)[loc.row]? with
    | none => exact ⟨_, _, rfl⟩
    | some sw =>
      simp only
      rw [getElem?_swapRemove _ _ _ hrow] at hsw
      split at hsw
      · simp only [if_true] at hsw
        have hls : st.loc sw = some ⟨loc.arch, a.ids.length - 1⟩ :=
          (hwf.loc_iff _ _).mpr (by rw [rowId_of_arch ha]; exact hsw)
        have hne : sw ≠ e := by
          intro h; subst h
          have := hwf.ids_inj ha hsw hr
          omega
        have : st2.loc sw = some ⟨loc.arch, a.ids.length - 1⟩ := by rw [hl2, if_neg hne, hls]
        obtain ⟨st3, h3⟩ := setLoc_some (fun l => { l with row := loc.row }) this
        rw [h3]
        exact ⟨_, _, rfl⟩
      · simp at hsw

/-! ### ledger: multiset counts of cells -/

theorem MoveInv.count {st st' : Store} {src : Loc} {dst : Nat} {new : List (Nat × Cell)} {dr : List Cell}
    {sa da : Arch} {r : MoveCols} {eid : Key} (m : MoveInv st st' src dst new dr sa da r eid) (hne : src.arch ≠ dst)
    (hwf : st.WF) (hnew : new.map (·.1) = da.comps.filter (fun c => !sa.comps.contains c)) (y : Cell) :
    (st.cells ++ new.map (·.2)).count y = (st'.cells ++ dr).count y := by
  have h0 := moveCols_count _ _ _ _ _ _ _ m.hr (hwf.archWF m.hsa).sorted (hwf.archWF m.hda).sorted hnew y
  have h1 := count_flatMap_set (fun a : Arch => a.cols.flatten) st.archs src.arch sa
    { sa with cols := r.src, ids := swapRemove sa.ids src.row } y m.hsa
  have h2 := count_flatMap_set (fun a : Arch => a.cols.flatten)
    (st.archs.set src.arch { sa with cols := r.src, ids := swapRemove sa.ids src.row }) dst da
    { da with cols := r.dst, ids := da.ids ++ [eid] } y
    (by rw [List.getElem?_set_ne hne]; exact m.hda)
  simp only [cells, m.harchs, m.hdr, List.count_append] at *
  omega

theorem SameInv.count {st st' : Store} {src : Loc} {new : List (Nat × Cell)} {dr : List Cell} {a a' : Arch}
    (m : SameInv st st' src new dr a a') (y : Cell) :
    (st.cells ++ new.map (·.2)).count y = (st'.cells ++ dr).count y := by
  have h0 := (assignAll_inv m.hassign).2.2.2.2.2 y
  have h1 := count_flatMap_set (fun a : Arch => a.cols.flatten) st.archs src.arch a a' y m.ha
  simp only [cells, m.harchs, List.count_append] at *
  omega

theorem RemoveInv.count {st st' : Store} {loc : Loc} {dr : List Cell} {a : Arch} {id : Key}
    (m : RemoveInv st st' loc dr a id) (hwf : st.WF) (y : Cell) :
    st.cells.count y = (st'.cells ++ dr).count y := by
  have hl := (hwf.archWF m.ha).cols_len
  have h0 := count_flatten_swapRemove loc.row a.cols dr (m.hdr hl) y
  have h1 := count_flatMap_set (fun a : Arch => a.cols.flatten) st.archs loc.arch a
    { a with cols := a.cols.map (swapRemove · loc.row), ids := swapRemove a.ids loc.row } y m.ha
  simp only [cells, m.harchs hl, List.count_append] at *
  omega

/-- a cell read through the API is a stored cell -/
theorem get_mem_cells {st : Store} {e : Key} {c : Nat} {x : Cell} (h : st.get e c = some x) : x ∈ st.cells := by
  simp only [get] at h
  split at h
  · simp at h
  · rename_i l _
    split at h
    · simp at h
    · rename_i a ha
      simp only [Arch.readCell, Arch.colIdx] at h
      cases hi : List.idxOf? c a.comps with
      | none => simp [hi] at h
      | some i =>
        simp only [hi, Option.bind_eq_bind, Option.bind_some] at h
        cases hc : a.cols[i]? with
        | none => simp [hc] at h
        | some col =>
          simp only [hc, Option.bind_some] at h
          simp only [cells, List.mem_flatMap, List.mem_flatten]
          exact ⟨a, List.mem_of_getElem? ha, col, List.mem_of_getElem? hc, List.mem_of_getElem? h⟩

/-! ### spawn -/

theorem spawn_facts {st : Store} {id : Key} {a0 : Arch} (ha0 : st.archs[0]? = some a0) (hfresh : st.loc id = none) :
    (∀ k, (st.spawn id).archs[k]? = if k = 0 then some { a0 with ids := a0.ids ++ [id] } else st.archs[k]?) ∧
    (∀ e, (st.spawn id).loc e = locPush st.loc 0 a0.ids.length id e) := by
  constructor
  · intro k
    simp only [spawn, ha0, List.getElem?_set]
    have := lt_of_getElem?_eq_some ha0
    by_cases h : 0 = k
    · simp [h, h ▸ this]
    · simp [h, Ne.symm h]
  · intro e
    simp only [spawn, ha0, loc_eq, alookup_append_single, locPush]
    by_cases h : e = id
    · subst h; rw [← loc_eq, hfresh]
    · simp only [h, if_false]; cases alookup st.locs e <;> rfl

theorem spawn_rowId {st : Store} {id : Key} {a0 : Arch} (ha0 : st.archs[0]? = some a0) (hfresh : st.loc id = none)
    (l : Loc) : (st.spawn id).rowId l = rowPush st.rowId 0 a0.ids id l := by
  simp only [rowId, (spawn_facts ha0 hfresh).1, rowPush]
  by_cases h : l.arch = 0
  · simp only [h, if_true]
  · simp only [h, if_false]

theorem spawn_wf_aux {st : Store} {id : Key} (hwf : st.WF) (he : st.HasEmpty) (hfresh : st.loc id = none) :
    (st.spawn id).WF := by
  obtain ⟨a0, ha0, hc0⟩ := he
  have hwa := hwf.archWF ha0
  have hcols : a0.cols = [] := by
    have := hwa.cols_len; rw [hc0] at this; simpa using this
  obtain ⟨harchs, hloc⟩ := spawn_facts ha0 hfresh
  apply WF.of_loc
  · intro b hb
    obtain ⟨k, hk⟩ := List.getElem?_of_mem hb
    rw [harchs] at hk
    split at hk
    · simp only [Option.some.injEq] at hk; subst hk
      exact ⟨hwa.cols_len, by simp [hcols], hwa.sorted⟩
    · exact hwf.archWF hk
  · have : id ∉ st.locs.map (·.1) := (alookup_eq_none_iff _ _).mp hfresh
    simp only [spawn, ha0, List.map_append, List.map_cons, List.map_nil]
    rw [List.nodup_append]
    refine ⟨hwf.keys, by simp, ?_⟩
    intro x hx y hy
    simp only [List.mem_singleton] at hy
    subst hy
    intro h; subst h; exact this hx
  · intro e l
    rw [hloc, spawn_rowId ha0 hfresh]
    exact bij_push st.loc st.rowId hwf.loc_iff 0 a0.ids (rowId_of_arch ha0) id hfresh e l

/-- other entities are untouched by a spawn -/
theorem spawn_bind_other {β : Type} (G G' : Loc → Option β) {st : Store} {id : Key} {a0 : Arch} (hwf : st.WF)
    (ha0 : st.archs[0]? = some a0) (hfresh : st.loc id = none)
    (hG0 : ∀ r, r < a0.ids.length → G' ⟨0, r⟩ = G ⟨0, r⟩) (hGo : ∀ a r, a ≠ 0 → G' ⟨a, r⟩ = G ⟨a, r⟩)
    (e' : Key) (hne : e' ≠ id) : ((st.spawn id).loc e').bind G' = (st.loc e').bind G := by
  rw [(spawn_facts ha0 hfresh).2]
  exact bind_locPush G G' st.loc st.rowId hwf.loc_iff 0 a0.ids (rowId_of_arch ha0) id hG0 hGo e' hne

/-! ### archetype component lists are immutable -/

/-- no operation changes the component list of an archetype -/
theorem MoveInv.archComps {st st' : Store} {src : Loc} {dst : Nat} {new : List (Nat × Cell)} {dr : List Cell}
    {sa da : Arch} {r : MoveCols} {eid : Key} (m : MoveInv st st' src dst new dr sa da r eid) (hne : src.arch ≠ dst)
    (k : Nat) : (st'.archs[k]?).map (·.comps) = (st.archs[k]?).map (·.comps) := by
  rw [m.archs_eq hne]
  by_cases h1 : k = dst
  · subst h1; simp [m.hda]
  · by_cases h2 : k = src.arch
    · subst h2; simp [h1, m.hsa]
    · simp [h1, h2]

theorem SameInv.archComps {st st' : Store} {src : Loc} {new : List (Nat × Cell)} {dr : List Cell} {a a' : Arch}
    (m : SameInv st st' src new dr a a') (k : Nat) :
    (st'.archs[k]?).map (·.comps) = (st.archs[k]?).map (·.comps) := by
  rw [m.archs_eq]
  by_cases h1 : k = src.arch
  · subst h1; simp [m.ha, (assignAll_inv m.hassign).1]
  · simp [h1]

theorem RemoveInv.archComps {st st' : Store} {loc : Loc} {dr : List Cell} {a : Arch} {id : Key}
    (m : RemoveInv st st' loc dr a id) (hwf : st.WF) (k : Nat) :
    (st'.archs[k]?).map (·.comps) = (st.archs[k]?).map (·.comps) := by
  rw [m.archs_eq hwf]
  by_cases h1 : k = loc.arch
  · subst h1; simp [m.ha]
  · simp [h1]

theorem hasEmpty_of_archComps {st st' : Store}
    (h : (st'.archs[0]?).map (·.comps) = (st.archs[0]?).map (·.comps)) (he : st.HasEmpty) : st'.HasEmpty := by
  obtain ⟨a, ha, hc⟩ := he
  rw [ha] at h
  cases h' : st'.archs[0]? with
  | none => simp [h'] at h
  | some a' => simp [h'] at h; exact ⟨a', h', by rw [h, hc]⟩

/-! ### decidability of `WF` -/

/-- `WF` with every quantifier bounded by a list: decidable by evaluation -/
def WFd (st : Store) : Prop :=
  (∀ a ∈ st.archs, a.cols.length = a.comps.length ∧ (∀ col ∈ a.cols, col.length = a.ids.length) ∧
    a.comps.Pairwise (· < ·)) ∧
  (st.locs.map (·.1)).Nodup ∧
  (∀ p ∈ st.locs, st.rowId p.2 = some p.1) ∧
  (∀ x ∈ st.archs.zipIdx, ∀ y ∈ x.1.ids.zipIdx, ∃ p ∈ st.locs, p = (y.1, (⟨x.2, y.2⟩ : Loc)))

instance (st : Store) : Decidable st.WFd := by unfold WFd; infer_instance

theorem wf_iff_wfd (st : Store) : st.WF ↔ st.WFd := by
  constructor
  · intro h
    refine ⟨fun a ha => ⟨(h.arch a ha).cols_len, (h.arch a ha).col_len, (h.arch a ha).sorted⟩, h.keys, ?_, ?_⟩
    · intro p hp; exact (h.bij p.1 p.2).mp hp
    · intro x hx y hy
      obtain ⟨a, i⟩ := x
      obtain ⟨e, r⟩ := y
      rw [List.mem_zipIdx_iff_getElem?] at hx hy
      simp only at hx hy ⊢
      exact ⟨_, (h.bij e ⟨i, r⟩).mpr (by simp [rowId, hx, hy]), rfl⟩
  · intro ⟨h1, h2, h3, h4⟩
    refine ⟨fun a ha => ⟨(h1 a ha).1, (h1 a ha).2.1, (h1 a ha).2.2⟩, h2, ?_⟩
    intro e l
    constructor
    · intro hm; exact h3 (e, l) hm
    · intro hr
      simp only [rowId] at hr
      split at hr
      · rename_i a ha
        obtain ⟨p, hp, rfl⟩ :=
          h4 (a, l.arch) (List.mem_zipIdx_iff_getElem?.mpr ha) (e, l.row) (List.mem_zipIdx_iff_getElem?.mpr hr)
        exact hp
      · simp at hr

instance (st : Store) : Decidable st.WF := decidable_of_iff _ (wf_iff_wfd st).symm

instance (st : Store) : Decidable st.HasEmpty :=
  match h : st.archs[0]? with
  | none => isFalse (by intro ⟨a, ha, _⟩; rw [h] at ha; simp at ha)
  | some a =>
    if hc : a.comps = [] then isTrue ⟨a, h, hc⟩
    else isFalse (by intro ⟨a', ha', hc'⟩; rw [h] at ha'; simp at ha'; subst ha'; exact hc hc')

/-- a concrete three-archetype store: `{}`, `{1,3}` with three entities, `{1,2}` with one -/
def ex0 : Store :=
  { archs := [{ index := 0, comps := [], cols := [], ids := [] },
              { index := 1, comps := [1, 3], cols := [[⟨100, 1⟩, ⟨110, 2⟩, ⟨120, 3⟩], [⟨300, 4⟩, ⟨310, 5⟩, ⟨320, 6⟩]],
                ids := [⟨10, 1⟩, ⟨11, 1⟩, ⟨12, 1⟩] },
              { index := 2, comps := [1, 2], cols := [[⟨105, 7⟩], [⟨205, 8⟩]], ids := [⟨15, 1⟩] }],
    locs := [(⟨10, 1⟩, ⟨1, 0⟩), (⟨11, 1⟩, ⟨1, 1⟩), (⟨12, 1⟩, ⟨1, 2⟩), (⟨15, 1⟩, ⟨2, 0⟩)] }

end Store
end Evenio
