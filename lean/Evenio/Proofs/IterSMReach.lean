import Evenio.Proofs.IterSM
import Evenio.Props.ReachStore
/-! # The sequential fetcher iterator in worlds satisfying the world invariant

`Evenio/Proofs/IterSM.lean` ties `paramRows` to the pointer state machine under four hypotheses (dense arrays aligned,
cached epochs current, cached archetypes live and non-empty, archetypes stored under their own index).  Here they are
discharged from `WInv` (which holds in every reachable world, `Proofs/Inv/Instance.lean`), for every query parameter of
every registered handler: the state machine runs marker-free, yields `rowsOf`, and `paramRows` returns exactly that.
Core Lean only. -/
namespace Evenio
namespace IterSM
open InvV7

/-- a cache entry of a query parameter of a registered handler, under the world invariant -/
theorem cache_entry_live {w : World} (hw : WInv w) {k : Key} {h : HInfo} {p : Param} (hk : w.handlers.get k = some h)
    (hp : p ∈ h.params) (hq : p.hasQ = true) {ai : Nat} {v : AS × Nat} (hc : p.cache.get ai = some v) :
    ∃ a, w.archs.get ai = some a ∧ 0 < a.ids.length ∧ v.2 = a.epoch := by
  rw [ReachStore.cache_entry_winv hw hk hp hq ai] at hc
  cases ha : w.archs.get ai with
  | none => rw [ha] at hc; cases hc
  | some a =>
    rw [ha] at hc
    dsimp only at hc
    cases hids : a.ids with
    | nil => rw [hids] at hc; cases hc
    | cons x xs =>
      rw [hids, show (x :: xs).isEmpty = false from rfl, if_neg Bool.false_ne_true] at hc
      cases hst : p.q.archState a.S with
      | none => rw [hst] at hc; cases hc
      | some st' =>
        rw [hst] at hc
        cases hc
        exact ⟨a, rfl, by rw [hids]; exact Nat.succ_pos _, rfl⟩

/-- **the hypotheses of `paramRows_eq_run` hold in every world satisfying the world invariant** (hence in every
    reachable world), for every query parameter of every registered handler -/
theorem hyps_of_winv {w : World} (hw : WInv w) {k : Key} {h : HInfo} {p : Param} (hk : w.handlers.get k = some h)
    (hp : p ∈ h.params) (hq : p.hasQ = true) :
    p.cache.keys.length = p.cache.values.length ∧ EpochsOK w p ∧ Good p.cache.keys w.entityCount ∧ IndexOk w := by
  have hwf := (hw.cache.caches.wf k h hk p hp).1
  refine ⟨SparseMap.keys_length_eq_values_length hwf, ?_, ?_, hw.indexOK⟩
  · rintro ⟨ai, v⟩ hx a ha _
    obtain ⟨a', ha', -, he⟩ := cache_entry_live hw hk hp hq ((SparseMap.keys_values_aligned hwf ai v).2 hx)
    rw [ha] at ha'
    cases ha'
    exact he
  · intro ai hai
    have hlen := SparseMap.keys_length_eq_values_length hwf
    obtain ⟨i, hi, rfl⟩ := List.getElem_of_mem hai
    have hx : (p.cache.keys[i], p.cache.values[i]'(hlen ▸ hi)) ∈ p.cache.keys.zip p.cache.values := by
      rw [List.mem_iff_getElem]
      exact ⟨i, by rw [List.length_zip]; omega, by rw [List.getElem_zip]⟩
    obtain ⟨a, ha, hpos, -⟩ := cache_entry_live hw hk hp hq ((SparseMap.keys_values_aligned hwf _ _).2 hx)
    exact ⟨a.ids.length, entityCount_some ha, hpos⟩


/-- **capstone**: in a world satisfying the invariant, for a query parameter of a registered handler, the state machine
    over the parameter's cache ends normally having yielded `rowsOf` (with the exact `len()` countdown), and the
    world model's `paramRows` returns — without any marker and without changing the world — rows whose
    `(archetype index, row)` sequence is that same list mapped through `keys[pos]` -/
theorem paramRows_winv {w : World} (hw : WInv w) {k : Key} {h : HInfo} {p : Param} (hk : w.handlers.get k = some h)
    (hp : p ∈ h.params) (hq : p.hasQ = true) {fuel : Nat} (hf : total p.cache.keys w.entityCount < fuel) :
    ∃ rows fin, (paramRows p).run.run w = (.ok rows, w) ∧
      run p.cache.keys w.entityCount fuel =
        .ok ⟨rowsOf p.cache.keys w.entityCount, countdown (total p.cache.keys w.entityCount), fin, true⟩ ∧
      rows.map (fun r => (r.2.1.index, r.2.2)) = (rowsOf p.cache.keys w.entityCount).map (cell p.cache.keys) := by
  obtain ⟨hlen, hep, hg, hidx⟩ := hyps_of_winv hw hk hp hq
  obtain ⟨rows, hr, hm⟩ := paramRows_rowsOf w p hlen hep hg
  obtain ⟨fin, hrun, -⟩ := run_exact hg hf
  exact ⟨rows, fin, hr, hrun, map_of_map_some (fun x r hx => deref_cell hidx hx) _ _ hm⟩

end IterSM
end Evenio
