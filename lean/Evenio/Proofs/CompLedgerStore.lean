import Evenio.Proofs.CompLedger
/-! # The component ledger, part 2: the calculus and the storage primitives

`KP I m` — `m`, started in a world satisfying `I`, ends in a world satisfying `I` when it returns AND when it panics
(nothing is claimed after a `ub` / `assert` marker); `LK P m Q` — from `P` to `Q`, on both kinds of exit.  Both are
instances of `Hoare` (Proofs/Hoare.lean) with the exceptional postcondition `PanicOnly`.  `cl_keeps` is the structural
tactic of `Proofs/Keeps.lean` for `KP`, with a leaf table of its own (`cl_leaf`). -/
namespace Evenio.CompLedger
open SparseMap (swapRemove)

/-- kept on normal return and on panic -/
abbrev KP {α : Type} (I : World → Prop) (m : M α) : Prop := Hoare I m (fun _ => I) (PanicOnly I)

/-- from `P` to `Q`, on normal return and on panic -/
abbrev LK {α : Type} (P : World → Prop) (m : M α) (Q : World → Prop) : Prop := Hoare P m (fun _ => Q) (PanicOnly Q)

section calculus
variable {α β : Type} {I : World → Prop}

theorem KP.pure (a : α) : KP I (Pure.pure a : M α) := Hoare.pure fun _ h => h
theorem KP.throw (e : Err) : KP I (MonadExcept.throw e : M α) := Hoare.throw fun _ h _ => h
theorem KP.get : KP I (MonadState.get : M World) := ⟨fun _ h => h⟩
theorem KP.set {w' : World} (h : I w') : KP I (MonadStateOf.set w' : M PUnit) := ⟨fun _ _ => h⟩
theorem KP.modify {f : World → World} (h : ∀ w, I w → I (f w)) : KP I (_root_.modify f : M PUnit) :=
  ⟨fun w hw => h w hw⟩
theorem KP.modifyGet {f : World → α × World} (h : ∀ w, I w → I (f w).2) : KP I (MonadState.modifyGet f : M α) :=
  ⟨fun w hw => h w hw⟩
theorem KP.of_keeps {m : M α} (h : Keeps I m) : KP I m := Hoare.of_keeps h fun _ _ hw _ => hw

/-- an error that is not a panic satisfies every `PanicOnly` postcondition -/
theorem hoare_throw_nonpanic {P : World → Prop} {Q : α → World → Prop} {E : World → Prop} {e : Err}
    (h : e.isPanic = false) : Hoare P (MonadExcept.throw e : M α) Q (PanicOnly E) :=
  Hoare.throw fun _ _ hp => by rw [h] at hp; cases hp

theorem hoare_ubErr {P : World → Prop} {Q : α → World → Prop} {E : World → Prop} (s : String) :
    Hoare P (ubErr s : M α) Q (PanicOnly E) := hoare_throw_nonpanic rfl

/-- a frame fact (kept on every exit) rides along -/
theorem Hoare.and_keeps {P J : World → Prop} {m : M α} {Q : α → World → Prop} {E : World → Prop}
    (hj : Keeps J m) (h : Hoare P m Q (PanicOnly E)) :
    Hoare (fun w => P w ∧ J w) m (fun a w => Q a w ∧ J w) (PanicOnly fun w => E w ∧ J w) := by
  refine ⟨fun w hw => ?_⟩
  have r1 := h.run w hw.1
  have r2 := hj.run w hw.2
  generalize m.run.run w = res at r1 r2
  obtain ⟨(e|a), w'⟩ := res
  · exact fun hp => ⟨r1 hp, r2⟩
  · exact ⟨r1, r2⟩

/-- loops whose invariant depends on the part of the list still to be traversed -/
theorem Hoare.forIn_list_sfx {γ : Type} {E : Err → World → Prop} {f : γ → β → M (ForInStep β)}
    (Inv : List γ → β → World → Prop)
    (hf : ∀ a rest b, Hoare (Inv (a :: rest) b) (f a b)
      (fun r w => match r with | .yield b' => Inv rest b' w | .done b' => Inv [] b' w) E)
    (l : List γ) (b : β) : Hoare (Inv l b) (forIn l b f) (Inv []) E := by
  induction l generalizing b with
  | nil => exact Hoare.pure fun _ h => h
  | cons a l ih =>
    rw [List.forIn_cons]
    refine Hoare.bind (hf a l b) fun r => ?_
    cases r with
    | done b => exact Hoare.pure fun _ h => h
    | yield b => exact ih b

end calculus

/-- leaf lemmas about named model functions; extended with `macro_rules` -/
syntax "cl_leaf" : tactic
/-- one structural step -/
syntax "cl_step" : tactic

macro_rules | `(tactic| cl_leaf) => `(tactic| fail "no leaf lemma")

macro_rules
  | `(tactic| cl_step) => `(tactic| first
      | with_reducible exact KP.pure _
      | with_reducible exact KP.throw _
      | with_reducible exact KP.get
      | with_reducible exact hoare_ubErr _
      | with_reducible cl_leaf
      | ((with_reducible refine KP.set ?_); first | assumption | (simp only []; assumption))
      | ((with_reducible refine KP.modify (fun _ h => ?_)); first | exact h | (simp only []; exact h) | (split <;> exact h))
      | ((with_reducible refine KP.modifyGet (fun _ h => ?_)); first | exact h | (simp only []; exact h))
      | (with_reducible refine Hoare.get_bind (fun _ _ => ?_))
      | (with_reducible refine Hoare.bind_inv ?_ (fun _ => ?_))
      | (with_reducible refine Hoare.forIn_list_inv (fun _ _ => ?_))
      | (with_reducible refine Hoare.forIn_range_inv (fun _ _ => ?_))
      | (with_reducible refine Hoare.ite ?_ ?_)
      | dsimp only
      | split)

/-- prove `KP I m` structurally, with the leaves of `cl_leaf` -/
macro "cl_keeps" : tactic => `(tactic| repeat' cl_step)

variable {X : List Nat}

theorem logT_cl (s : String) : KP (CL X) (logT s) := by unfold logT; cl_keeps
macro_rules | `(tactic| cl_leaf) => `(tactic| exact logT_cl _)
theorem dbgAssert_cl (c : Bool) (s : String) : KP (CL X) (dbgAssert c s) := by unfold dbgAssert; cl_keeps
macro_rules | `(tactic| cl_leaf) => `(tactic| exact dbgAssert_cl _ _)
theorem handlerRefresh_cl (hk : Key) (a : Arch) : KP (CL X) (handlerRefresh hk a) := by unfold handlerRefresh; cl_keeps
macro_rules | `(tactic| cl_leaf) => `(tactic| exact handlerRefresh_cl _ _)
theorem handlerRemoveArch_cl (hk : Key) (a : Arch) : KP (CL X) (handlerRemoveArch hk a) := by
  unfold handlerRemoveArch; cl_keeps
macro_rules | `(tactic| cl_leaf) => `(tactic| exact handlerRemoveArch_cl _ _)
theorem getArch_cl (i : Nat) (s : String) : KP (CL X) (getArch i s) := by unfold getArch; cl_keeps
macro_rules | `(tactic| cl_leaf) => `(tactic| exact getArch_cl _ _)
theorem freshEpoch_cl : KP (CL X) freshEpoch := by unfold freshEpoch; cl_keeps
macro_rules | `(tactic| cl_leaf) => `(tactic| exact freshEpoch_cl)
theorem reserve_cl : KP (CL X) reserve := by unfold reserve; cl_keeps
macro_rules | `(tactic| cl_leaf) => `(tactic| exact reserve_cl)
theorem resRefresh_cl : KP (CL X) resRefresh := by unfold resRefresh; cl_keeps
macro_rules | `(tactic| cl_leaf) => `(tactic| exact resRefresh_cl)
theorem setLoc_cl (id : Key) (s : String) (f : Loc → Loc) : KP (CL X) (setLoc id s f) := by unfold setLoc; cl_keeps
macro_rules | `(tactic| cl_leaf) => `(tactic| exact setLoc_cl _ _ _)
theorem takeBudget_cl : KP (CL X) takeBudget := by unfold takeBudget; cl_keeps
macro_rules | `(tactic| cl_leaf) => `(tactic| exact takeBudget_cl)
theorem freshE_cl : KP (CL X) freshE := by unfold freshE; cl_keeps
macro_rules | `(tactic| cl_leaf) => `(tactic| exact freshE_cl)
theorem paramRows_cl (p : Param) : KP (CL X) (paramRows p) := by unfold paramRows; cl_keeps
macro_rules | `(tactic| cl_leaf) => `(tactic| exact paramRows_cl _)
theorem itemAt_cl (st : AS) (a : Arch) (row : Nat) : KP (CL X) (itemAt st a row) := by unfold itemAt; cl_keeps
macro_rules | `(tactic| cl_leaf) => `(tactic| exact itemAt_cl _ _ _)
theorem paramGet_cl (p : Param) (id : Key) : KP (CL X) (paramGet p id) := by unfold paramGet; cl_keeps
macro_rules | `(tactic| cl_leaf) => `(tactic| exact paramGet_cl _ _)
theorem getParam_cl (h : HInfo) (p : Nat) : KP (CL X) (getParam h p) := by unfold getParam; cl_keeps
macro_rules | `(tactic| cl_leaf) => `(tactic| exact getParam_cl _ _)
theorem registerHandler_cl (a : Arch) (h : HInfo) : KP (CL X) (a.registerHandler h) := by
  unfold Arch.registerHandler; cl_keeps
macro_rules | `(tactic| cl_leaf) => `(tactic| exact registerHandler_cl _ _)
theorem assertQueueEmpty_cl : KP (CL X) assertQueueEmpty := by unfold assertQueueEmpty; cl_keeps
macro_rules | `(tactic| cl_leaf) => `(tactic| exact assertQueueEmpty_cl)


/-! ## ledger and queue writes -/

/-- `freshC` as an invariant step (the serial handed out is forgotten) -/
theorem freshC_cl : KP (CL X) freshC := by
  unfold freshC
  refine KP.modifyGet fun w h => ?_
  exact h.mono_sers (fun _ => Nat.le_refl _) (Nat.le_succ _)
macro_rules | `(tactic| cl_leaf) => `(tactic| exact freshC_cl)

/-- **a fresh serial is carried by nothing** -/
theorem freshC_spec : Hoare (CL X) freshC (fun s => CL (s :: X)) (PanicOnly (CL X)) := by
  unfold freshC
  exact ⟨fun w h => CLF.fresh h⟩

/-- the destructor of a cell runs: the serial leaves `X` -/
theorem dropCell_cl {E : Err → World → Prop} (ty : Nat) (c : Cell) :
    Hoare (CL (c.ser :: X)) (dropCell ty c) (fun _ => CL X) E := by
  unfold dropCell
  split
  · exact ⟨fun w h => CLF.dropped ty c.ser h⟩
  · exact Hoare.pure fun w h => CLF.forget c.ser h

theorem dropCellIdx_cl {E : Err → World → Prop} (idx : Nat) (c : Cell) :
    Hoare (CL (c.ser :: X)) (dropCellIdx idx c) (fun _ => CL X) E := by
  unfold dropCellIdx
  exact Hoare.get_bind fun w _ => dropCell_cl _ c

/-- an event value is destroyed: an `Insert` payload leaves `X` -/
theorem dropEvent_cl {E : Err → World → Prop} (it : QItem) :
    Hoare (CL (itemSers it ++ X)) (dropEvent it) (fun _ => CL X) E := by
  unfold dropEvent
  split
  · exact ⟨fun w h => CLF.drop_left h⟩
  · exact ⟨fun w h => CLF.drop_left h⟩
  · rename_i k hk
    exact dropCell_cl k it.pay.cell
  · exact Hoare.pure fun w h => CLF.drop_left h

/-- an event is queued: an `Insert` payload moves from `X` onto the queue -/
theorem push_cl {E : Err → World → Prop} (it : QItem) :
    Hoare (CL (itemSers it ++ X)) (push it) (fun _ => CL X) E := by
  unfold push
  exact ⟨fun w h => CLF.push it h⟩

/-- an event that carries the default cell -/
theorem push_cl_zero (it : QItem) (h : it.pay.cell.ser = 0) : KP (CL X) (push it) :=
  Hoare.pre (push_cl it) fun w hw => by
    show CL ([it.pay.cell.ser] ++ X) w
    rw [h]; exact CLF.add_zero hw
macro_rules | `(tactic| cl_leaf) => `(tactic| exact push_cl_zero _ rfl)

/-- `Sender::send`: queued, or (outside the event set) destroyed before the panic -/
theorem senderPush_cl (h : HInfo) (it : QItem) : LK (CL (itemSers it ++ X)) (senderPush h it) (CL X) := by
  unfold senderPush
  split
  · exact Hoare.bind (dropEvent_cl it) fun _ => KP.throw _
  · rename_i idx _
    exact push_cl { it with idx := idx }

theorem senderPush_cl_zero (h : HInfo) (it : QItem) (hn : it.pay.cell.ser = 0) : KP (CL X) (senderPush h it) :=
  Hoare.pre (senderPush_cl h it) fun w hw => by
    show CL ([it.pay.cell.ser] ++ X) w
    rw [hn]; exact CLF.add_zero hw
macro_rules | `(tactic| cl_leaf) => `(tactic| exact senderPush_cl_zero _ _ rfl)

/-! ## archetype writes -/

/-- the archetype read is the one stored -/
theorem getArch_spec {I E : World → Prop} (i : Nat) (s : String) :
    Hoare I (getArch i s) (fun a w => I w ∧ w.archs.get i = some a) (PanicOnly E) := by
  refine ⟨fun w hw => ?_⟩
  rw [run_getArch']
  cases h : w.archs.get i with
  | none => exact fun hp => nomatch hp
  | some a => exact ⟨hw, h⟩



theorem setArch_cl (a : Arch) :
    Hoare (fun w => CL X w ∧ ∀ old, w.archs.get a.index = some old → cellSers a.cols = cellSers old.cols ∧ ColsOk a)
      (setArch a) (fun _ => CL X) (PanicOnly (CL X)) :=
  ⟨fun _ h => CLF.setArch_same h.1 a h.2⟩

theorem reserveOne_fields (a : Arch) (ep : Nat) :
    (a.reserveOne ep).1.cols = a.cols ∧ (a.reserveOne ep).1.index = a.index ∧ (a.reserveOne ep).1.ids = a.ids := by
  unfold Arch.reserveOne; split <;> exact ⟨rfl, rfl, rfl⟩

theorem ColsOk.ids_le {a b : Arch} (h : ColsOk a) (hc : b.cols = a.cols) (hi : a.ids.length ≤ b.ids.length) :
    ColsOk b := by
  obtain ⟨L, h1, h2⟩ := h
  exact ⟨L, by rw [hc]; exact h1, Nat.le_trans h2 hi⟩

theorem archSpawn_cl (id : Key) : KP (CL X) (archSpawn id) := by
  unfold archSpawn
  refine Hoare.bind (getArch_spec _ _) fun a => ?_
  refine Hoare.bind (R := fun _ w => CL X w ∧ w.archs.get 0 = some a) ⟨fun _ h => h⟩ fun ep => ?_
  obtain ⟨hc, hi, hids⟩ := reserveOne_fields a ep
  generalize a.reserveOne ep = r at hc hi hids
  obtain ⟨e, realloc⟩ := r
  dsimp only at hc hi hids ⊢
  refine Hoare.bind (R := fun _ => CL X) (Hoare.pre (setArch_cl _) fun w hw => ⟨hw.1, fun old ho => ?_⟩) fun _ => ?_
  · dsimp only at ho ⊢
    have h0 : e.index = 0 := by rw [hi]; exact hw.1.idx 0 a hw.2
    rw [h0, hw.2] at ho
    cases ho
    rw [hc]
    exact ⟨rfl, (hw.1.cols 0 a hw.2).ids_le rfl (by simp [hids])⟩
  · cl_keeps

theorem spawnAll_cl : KP (CL X) spawnAll := by
  unfold spawnAll
  repeat' first | exact archSpawn_cl _ | cl_step

theorem registerPure_fields (a : Arch) (h : HInfo) :
    (a.registerPure h).index = a.index ∧ (a.registerPure h).cols = a.cols ∧ (a.registerPure h).ids = a.ids := by
  unfold Arch.registerPure Arch.addRefresh Arch.addListener
  refine ⟨?_, ?_, ?_⟩ <;> (repeat' split) <;> rfl

theorem registerHandler_spec {P : World → Prop} (a : Arch) (h : HInfo) (hP : KP P (handlerRefresh h.key a)) :
    Hoare P (a.registerHandler h) (fun a' w => P w ∧ a' = a.registerPure h) (PanicOnly P) := by
  refine ⟨fun w hw => ?_⟩
  rw [registerHandler_run]
  have := hP.run w hw
  by_cases hc : h.archFilter.matches a.S = true ∧ a.ids.length > 0
  · rw [if_pos hc]
    generalize (handlerRefresh h.key a).run.run w = q at this
    obtain ⟨(e|u), w1⟩ := q
    · exact this
    · exact ⟨this, rfl⟩
  · rw [if_neg hc]
    exact ⟨hw, rfl⟩

theorem Hoare.get_bind_at {β : Type} {P : World → Prop} {f : World → M β} {Q : β → World → Prop}
    {E : Err → World → Prop} (hf : ∀ w, P w → Hoare (fun w' => w' = w) (f w) Q E) :
    Hoare P (MonadState.get >>= f) Q E := by
  refine ⟨fun w hw => ?_⟩
  rw [run_bind, run_get]
  exact (hf w hw).run w rfl

theorem hoare_ubErr_bind {α β : Type} {P : World → Prop} {Q : β → World → Prop} {E : World → Prop} (s : String)
    (f : α → M β) : Hoare P ((ubErr s : M α) >>= f) Q (PanicOnly E) :=
  ⟨fun w _ => by rw [run_bind, run_ubErr]; exact fun hp => nomatch hp⟩

theorem colsOk_new (cs : List Nat) (a : Arch) (hc : a.cols = cs.map fun _ => []) :
    cellSers a.cols = [] ∧ ColsOk a := by
  refine ⟨by rw [hc]; exact cellSers_map_nil cs, 0, fun c hc' => ?_, Nat.zero_le _⟩
  rw [hc] at hc'
  obtain ⟨_, _, rfl⟩ := List.mem_map.1 hc'
  rfl

theorem newArch_cl (cs : List Nat) (ei er : Option (Nat × Nat)) : KP (CL X) (newArch cs ei er) := by
  unfold newArch
  refine Hoare.get_bind_at fun w0 hw0 => ?_
  refine Hoare.pre (P' := fun w => CL X w ∧ w.archs.vacantKey = w0.archs.vacantKey) ?_
    (fun w h => by subst h; exact ⟨hw0, rfl⟩)
  dsimp only
  refine Hoare.bind (R := fun _ w => CL X w ∧ w.archs.vacantKey = w0.archs.vacantKey) ?_ fun _ => ?_
  · refine Hoare.post (Q := fun _ w => CL X w ∧ w.archs.vacantKey = w0.archs.vacantKey)
      (E := PanicOnly fun w => CL X w ∧ w.archs.vacantKey = w0.archs.vacantKey) ?_ (fun _ _ h => h)
      (fun _ _ h hp => (h hp).1)
    cl_keeps
  · have tail : ∀ a : Arch, a.index = w0.archs.vacantKey → a.cols = cs.map (fun _ => []) → a.ids = [] →
        Hoare (fun w => CL X w ∧ w.archs.vacantKey = w0.archs.vacantKey)
          (do
            let l ← get
            let s ← forIn l.byInsertOrder a fun hk s => do
              let l2 ← get
              match l2.handlers.get hk with
                | none => do
                  ubErr "handler-ptr:by_insert_order"
                  pure (ForInStep.yield s)
                | some h => do
                  let a ← s.registerHandler h
                  pure (ForInStep.yield a)
            modify fun w => { w with archs := w.archs.insert s }
            pure w0.archs.vacantKey : M Nat) (fun _ => CL X) (PanicOnly (CL X)) := by
      intro a h1 h2 h3
      refine Hoare.get_bind fun l _ => ?_
      refine Hoare.bind (R := fun (s : Arch) w => (CL X w ∧ w.archs.vacantKey = w0.archs.vacantKey) ∧
          s.index = w0.archs.vacantKey ∧ s.cols = cs.map (fun _ => []) ∧ s.ids = []) ?_ fun s => ?_
      · refine Hoare.pre (P' := fun w => (CL X w ∧ w.archs.vacantKey = w0.archs.vacantKey) ∧
          a.index = w0.archs.vacantKey ∧ a.cols = cs.map (fun _ => []) ∧ a.ids = []) ?_ (fun w h => ⟨h, h1, h2, h3⟩)
        refine Hoare.forIn_list (fun (s : Arch) w => (CL X w ∧ w.archs.vacantKey = w0.archs.vacantKey) ∧
          s.index = w0.archs.vacantKey ∧ s.cols = cs.map (fun _ => []) ∧ s.ids = []) fun hk s => ?_
        refine Hoare.get_bind fun l2 _ => ?_
        split
        · exact hoare_ubErr_bind _ _
        · rename_i h _
          refine Hoare.bind (Hoare.post (registerHandler_spec s h ?_) (fun _ _ hh => hh) (fun _ _ hh hp => (hh hp).1.1))
            fun a' => Hoare.pure fun w hw => ?_
          · unfold handlerRefresh dbgAssert; cl_keeps
          · obtain ⟨⟨hw1, hw2, hw3, hw4⟩, rfl⟩ := hw
            obtain ⟨f1, f2, f3⟩ := registerPure_fields s h
            exact ⟨hw1, f1.trans hw2, f2.trans hw3, f3.trans hw4⟩
      · refine Hoare.bind (R := fun _ => CL X) ⟨fun w hw => ?_⟩ fun _ => KP.pure _
        obtain ⟨⟨hw1, hw2⟩, hs1, hs2, hs3⟩ := hw
        obtain ⟨c1, c2⟩ := colsOk_new cs s hs2
        show CLF (w.archs.insert s) w.queue w.cdrops w.nextCSerial X
        refine hw1.mono (fun i b hb => ?_) (fun i b hb => ?_) (fun t => ?_) (Nat.le_refl _)
        · rcases slab_get_insert_cases hb with hb | ⟨rfl, rfl⟩
          · exact hw1.idx i b hb
          · rw [hs1, hw2]
        · rcases slab_get_insert_cases hb with hb | ⟨rfl, rfl⟩
          · exact hw1.cols i b hb
          · exact c2
        · unfold serCount
          rw [count_storedSers_insert w.archs s c1 t]
          exact Nat.le_refl _
    split <;> split <;> exact tail _ rfl rfl rfl


theorem map_ser_set (col : List Cell) (row : Nat) (x x' : Cell) (h : col[row]? = some x) (hs : x'.ser = x.ser) :
    (col.set row x').map (·.ser) = col.map (·.ser) := by
  induction col generalizing row with
  | nil => rfl
  | cons a l ih =>
    cases row with
    | zero =>
      simp only [List.getElem?_cons_zero, Option.some.injEq] at h
      subst h
      simp [hs]
    | succ i =>
      simp only [List.getElem?_cons_succ] at h
      simp only [List.set_cons_succ, List.map_cons, ih i h]

theorem cellSers_set_same (cols : List (List Cell)) (i : Nat) (c c' : List Cell) (h : cols[i]? = some c)
    (hs : c'.map (·.ser) = c.map (·.ser)) : cellSers (cols.set i c') = cellSers cols := by
  induction cols generalizing i with
  | nil => rfl
  | cons a l ih =>
    cases i with
    | zero =>
      simp only [List.getElem?_cons_zero, Option.some.injEq] at h
      subst h
      simp only [List.set_cons_zero, cellSers_cons, hs]
    | succ i =>
      simp only [List.getElem?_cons_succ] at h
      simp only [List.set_cons_succ, cellSers_cons, ih i h]

theorem ColsOk.set_col {a : Arch} (h : ColsOk a) {i : Nat} {c c' : List Cell} (hc : a.cols[i]? = some c)
    (hl : c'.length = c.length) {b : Arch} (hb : b.cols = a.cols.set i c') (hi : b.ids.length = a.ids.length) :
    ColsOk b := by
  obtain ⟨L, h1, h2⟩ := h
  refine ⟨L, fun d hd => ?_, by rw [hi]; exact h2⟩
  rw [hb] at hd
  rcases List.mem_or_eq_of_mem_set hd with hd | rfl
  · exact h1 d hd
  · rw [hl]; exact h1 c (List.mem_of_getElem? hc)

/-- `setArch` of an archetype that differs from the stored one in neither cells, rows nor index -/
theorem setArch_of_get {a a' : Arch} {i : Nat} (hidx : a'.index = a.index) (hc : a'.cols = a.cols)
    (hids : a'.ids.length = a.ids.length) :
    Hoare (fun w => CL X w ∧ w.archs.get i = some a) (setArch a') (fun _ => CL X) (PanicOnly (CL X)) := by
  refine Hoare.pre (setArch_cl a') fun w hw => ⟨hw.1, fun old ho => ?_⟩
  have hi : a.index = i := hw.1.idx i a hw.2
  rw [hidx, hi, hw.2] at ho
  cases ho
  exact ⟨by rw [hc], (hw.1.cols i a hw.2).ids_le hc (Nat.le_of_eq hids.symm)⟩

theorem traverseInsert_cl (src c : Nat) : KP (CL X) (traverseInsert src c) := by
  unfold traverseInsert
  refine Hoare.get_bind fun _ _ => ?_
  refine Hoare.bind_inv (dbgAssert_cl _ _) fun _ => ?_
  refine Hoare.bind (getArch_spec _ _) fun sa => ?_
  split
  · exact Hoare.pure fun _ h => h.1
  · split
    · exact Hoare.pure fun _ h => h.1
    · refine Hoare.get_bind fun _ _ => ?_
      split
      · exact Hoare.bind (setArch_of_get rfl rfl rfl) fun _ => KP.pure _
      · refine Hoare.pre (P' := CL X) ?_ fun _ h => h.1
        refine Hoare.bind_inv (newArch_cl _ _ _) fun d => ?_
        refine Hoare.bind (getArch_spec _ _) fun sa2 => ?_
        exact Hoare.bind (setArch_of_get rfl rfl rfl) fun _ => KP.pure _

theorem traverseRemove_cl (src c : Nat) : KP (CL X) (traverseRemove src c) := by
  unfold traverseRemove
  refine Hoare.bind (getArch_spec _ _) fun sa => ?_
  split
  · exact Hoare.pure fun _ h => h.1
  · split
    · exact Hoare.pure fun _ h => h.1
    · refine Hoare.get_bind fun _ _ => ?_
      split
      · exact Hoare.bind (setArch_of_get rfl rfl rfl) fun _ => KP.pure _
      · refine Hoare.pre (P' := CL X) ?_ fun _ h => h.1
        refine Hoare.bind_inv (newArch_cl _ _ _) fun d => ?_
        refine Hoare.bind (getArch_spec _ _) fun sa2 => ?_
        exact Hoare.bind (setArch_of_get rfl rfl rfl) fun _ => KP.pure _

theorem bumpCell_cl (ai row c : Nat) : KP (CL X) (bumpCell ai row c) := by
  unfold bumpCell
  refine Hoare.bind (getArch_spec _ _) fun a => ?_
  split
  · exact hoare_ubErr _
  · split
    · exact hoare_ubErr _
    · split
      · exact hoare_ubErr _
      · rename_i i _ _ col hcol _ x hx
        refine Hoare.pre (setArch_cl _) fun w hw => ⟨hw.1, fun old ho => ?_⟩
        have hi : a.index = ai := hw.1.idx ai a hw.2
        dsimp only at ho ⊢
        rw [hi, hw.2] at ho
        cases ho
        exact ⟨cellSers_set_same _ _ _ _ hcol (map_ser_set _ _ _ _ hx rfl),
          (hw.1.cols ai a hw.2).set_col hcol (by simp) rfl rfl⟩

/-! ## `move_entity`, `remove_entity` -/


theorem Hoare.at_state {α : Type} {P : World → Prop} {m : M α} {Q : α → World → Prop} {E : Err → World → Prop}
    (h : ∀ w0, P w0 → Hoare (fun w => w = w0) m Q E) : Hoare P m Q E :=
  ⟨fun w hw => (h w hw).run w rfl⟩

theorem Hoare.and_pure {α : Type} {P : World → Prop} {m : M α} {Q : α → World → Prop} {E : Err → World → Prop}
    {p : Prop} (h : Hoare P m Q E) : Hoare (fun w => P w ∧ p) m (fun a w => Q a w ∧ p) E := by
  refine ⟨fun w hw => ?_⟩
  have := h.run w hw.1
  generalize m.run.run w = res at this
  obtain ⟨(e|a), w'⟩ := res
  · exact this
  · exact ⟨this, hw.2⟩

/-- the counting half for the slab `A'` the loop is about to write, while the real slab is still `A` -/
def CLat (A A' : Slab Arch) (Y : List Nat) (w : World) : Prop :=
  w.archs = A ∧ CLN A' w.queue w.cdrops w.nextCSerial Y

theorem dropCellIdx_at {E : Err → World → Prop} (A A' : Slab Arch) (c : Nat) (x : Cell) (Y : List Nat) :
    Hoare (CLat A A' (x.ser :: Y)) (dropCellIdx c x) (fun _ => CLat A A' Y) E := by
  refine ⟨fun w h => ?_⟩
  rw [run_dropCellIdx]
  show CLat A A' Y (dropCellW (w.compTy c) x w)
  unfold dropCellW
  split
  · exact ⟨h.1, h.2.dropped _ _⟩
  · exact ⟨h.1, h.2.forget _⟩

/-- the tail of the two-archetype branch of `move_entity`: the dropped cells are logged, then the two archetypes are
    written back -/
theorem move_tail {Y : List Nat} {w0 : World} {i j : Nat} {sa da : Arch} (hcl : CL Y w0) (hij : i ≠ j)
    (hsa : w0.archs.get i = some sa) (hda : w0.archs.get j = some da) (sa' da' : Arch) (isa' : sa'.index = i)
    (ida' : da'.index = j) (csa' : ColsOk sa') (cda' : ColsOk da') (zs : List (Nat × Cell))
    (hcount : ∀ s, (cellSers sa'.cols).count s + (cellSers da'.cols).count s + (zs.map (·.2.ser) ++ X).count s
      ≤ (cellSers sa.cols).count s + (cellSers da.cols).count s + Y.count s)
    (rest : M Unit) (hrest : KP (CL X) rest) :
    Hoare (fun w => w = w0)
      (do
        forIn zs PUnit.unit fun x _ => do
          dropCellIdx x.fst x.snd
          pure (ForInStep.yield PUnit.unit)
        setArch sa'
        setArch da'
        rest) (fun _ => CL X) (PanicOnly (CL X)) := by
  refine Hoare.bind (R := fun _ w => CLat w0.archs ((w0.archs.set i sa').set j da') X w) ?_ fun _ => ?_
  · refine Hoare.pre (Hoare.forIn_list_sfx (fun rest (_ : PUnit) w =>
      CLat w0.archs ((w0.archs.set i sa').set j da') (rest.map (·.2.ser) ++ X) w)
      (fun p rest _ => ?_) _ PUnit.unit) (fun w hw => ?_)
    · obtain ⟨c, x⟩ := p
      exact Hoare.bind (dropCellIdx_at _ _ c x _) fun _ => Hoare.pure fun _ h => h
    · subst hw
      exact ⟨rfl, hcl.cln.set_two hij hsa hda sa' da' hcount⟩
  · refine Hoare.bind (R := fun _ w => w.archs = w0.archs.set i sa' ∧
      CLN ((w0.archs.set i sa').set j da') w.queue w.cdrops w.nextCSerial X) ⟨fun w hw => ?_⟩ fun _ => ?_
    · refine ⟨?_, hw.2⟩
      show w.archs.set sa'.index _ = _
      rw [hw.1, isa']
    refine Hoare.bind (R := fun _ => CL X) ⟨fun w hw => ?_⟩ fun _ => hrest
    show CLF (w.archs.set da'.index _) w.queue w.cdrops w.nextCSerial X
    rw [hw.1, ida']
    obtain ⟨i1, i2⟩ := idx_cols_set hcl.idx hcl.cols isa' csa'
    obtain ⟨j1, j2⟩ := idx_cols_set i1 i2 ida' cda'
    exact hw.2.clf j1 j2

theorem moveEntity_cl (src : Loc) (dst : Nat) (new : List (Nat × Cell)) :
    LK (CL (new.map (·.2.ser) ++ X)) (moveEntity src dst new) (CL X) := by
  unfold moveEntity
  split
  · -- `Column::assign` in place
    refine Hoare.bind (getArch_spec _ _) fun a0 => ?_
    refine Hoare.at_state fun w0 hw0 => ?_
    obtain ⟨hcl, hget⟩ := hw0
    have hidx0 : a0.index = src.arch := hcl.idx _ _ hget
    dsimp only
    refine Hoare.bind (R := fun (a : Arch) w => CLat w0.archs (w0.archs.set src.arch a) X w ∧ a.index = src.arch ∧
      ColsOk a) ?_ fun a => ?_
    · refine Hoare.pre (Hoare.forIn_list_sfx (fun rest (a : Arch) w =>
        CLat w0.archs (w0.archs.set src.arch a) (rest.map (·.2.ser) ++ X) w ∧ a.index = src.arch ∧ ColsOk a)
        (fun p rest a => ?_) new a0) (fun w hw => ?_)
      · obtain ⟨c, x⟩ := p
        dsimp only
        split
        · exact hoare_ubErr_bind _ _
        · rename_i j hj
          split
          · exact hoare_ubErr_bind _ _
          · rename_i col' old hcol
            obtain ⟨col, hc1, hc2⟩ : ∃ col, a.cols[j]? = some col ∧ assignCol col src.row x = some (col', old) := by
              cases hcj : a.cols[j]? with
              | none => rw [hcj] at hcol; cases hcol
              | some col => rw [hcj] at hcol; exact ⟨col, rfl, hcol⟩
            unfold assignCol at hc2
            cases hrow : col[src.row]? with
            | none => rw [hrow] at hc2; cases hc2
            | some o =>
              rw [hrow] at hc2
              simp only [Option.some.injEq, Prod.mk.injEq] at hc2
              obtain ⟨rfl, rfl⟩ := hc2
              refine Hoare.bind (R := fun _ w => CLat w0.archs (w0.archs.set src.arch
                  { a with cols := a.cols.set j (col.set src.row x) }) (rest.map (·.2.ser) ++ X) w ∧
                  a.index = src.arch ∧ ColsOk a)
                (Hoare.pre (Hoare.and_pure (dropCellIdx_at _ _ c o _)) fun w hw => ?_) fun _ => Hoare.pure fun w hw => ?_
              · obtain ⟨⟨h1, h2⟩, h3, h4⟩ := hw
                refine ⟨⟨h1, ?_⟩, h3, h4⟩
                have hg : (w0.archs.set src.arch a).get src.arch = some a := Slab.get_set_same hget a
                have := h2.set_one (Y' := o.ser :: (rest.map (·.2.ser) ++ X)) hg
                  { a with cols := a.cols.set j (col.set src.row x) } (fun s => by
                    have e1 := count_cellSers_set a.cols j col (col.set src.row x) hc1 s
                    have e2 := count_map_set col src.row x o hrow s
                    simp only [List.map_cons, List.cons_append, List.count_cons, List.count_nil] at e2 ⊢
                    omega)
                rw [slab_set_set] at this
                exact this
              · obtain ⟨h1, h3, h4⟩ := hw
                exact ⟨h1, h3, h4.set_col hc1 (by simp) rfl rfl⟩
      · subst hw
        exact ⟨⟨rfl, hcl.cln.set_one hget a0 fun s => Nat.le_refl _⟩, hidx0, hcl.cols _ _ hget⟩
    · refine Hoare.bind (R := fun _ => CL X) ⟨fun w hw => ?_⟩ fun _ => KP.pure _
      obtain ⟨⟨h1, h2⟩, h3, h4⟩ := hw
      show CLF (w.archs.set a.index a) w.queue w.cdrops w.nextCSerial X
      rw [h1, h3]
      obtain ⟨i1, i2⟩ := idx_cols_set hcl.idx hcl.cols h3 h4
      exact h2.clf i1 i2
  · -- the merge between two archetypes
    rename_i hne
    have hne' : src.arch ≠ dst := by simpa using hne
    refine Hoare.bind (getArch_spec _ _) fun sa => ?_
    refine Hoare.bind (getArch_spec _ _) fun da => ?_
    refine Hoare.bind (R := fun _ w => (CL (new.map (·.2.ser) ++ X) w ∧ w.archs.get src.arch = some sa) ∧
      w.archs.get dst = some da) ⟨fun _ h => h⟩ fun ep => ?_
    obtain ⟨hc, hi, hids⟩ := reserveOne_fields da ep
    generalize da.reserveOne ep = rr at hc hi hids
    obtain ⟨dr, realloc⟩ := rr
    dsimp only at hc hi hids ⊢
    split
    · exact hoare_ubErr _
    · rename_i r hr
      refine Hoare.at_state fun w0 hw0 => ?_
      obtain ⟨⟨hcl, hsa⟩, hda⟩ := hw0
      have isa : sa.index = src.arch := hcl.idx _ _ hsa
      have ida : da.index = dst := hcl.idx _ _ hda
      obtain ⟨Ls, cs1, cs2⟩ := hcl.cols _ _ hsa
      obtain ⟨Ld, cd1, cd2⟩ := hcl.cols _ _ hda
      obtain ⟨m1, m2, m3⟩ := moveCols_src _ _ _ _ _ _ _ hr
      have m4 := moveCols_dst _ _ _ _ _ _ _ hr Ld (by rw [hc]; exact cd1)
      cases hE : sa.ids[src.row]? with
      | none =>
        -- the panic of `swap_remove`: nothing was dropped
        have hnil : sa.cols = [] := by
          cases hcs : sa.cols with
          | nil => rfl
          | cons c0 l =>
            have := m1 c0 (by rw [hcs]; exact List.mem_cons_self ..)
            have := cs1 c0 (by rw [hcs]; exact List.mem_cons_self ..)
            have : sa.ids.length ≤ src.row := by
              rcases Nat.lt_or_ge src.row sa.ids.length with h | h
              · rw [List.getElem?_eq_getElem h] at hE; cases hE
              · exact h
            omega
        rw [m2 hnil, List.zip_nil_right]
        refine Hoare.bind (R := fun _ w => w = w0) (Hoare.pure fun _ h => h) fun _ => ?_
        exact Hoare.throw fun w hw _ => by subst hw; exact CLF.drop_left hcl
      | some eid =>
        dsimp only
        have hrow : src.row < sa.ids.length := (List.getElem?_eq_some_iff.1 hE).1
        refine move_tail hcl hne' hsa hda _ _ ?_ ?_ ?_ ?_ _ ?_ _ ?_
        · exact isa
        · exact hi.trans ida
        · refine ⟨Ls - 1, fun c hc' => m3 Ls cs1 c hc', ?_⟩
          show Ls - 1 ≤ (swapRemove sa.ids src.row).length
          rw [length_swapRemove]; omega
        · refine ⟨Ld + 1, fun c hc' => m4 c hc', ?_⟩
          show Ld + 1 ≤ (dr.ids ++ [eid]).length
          rw [List.length_append, hids]; simp; exact cd2
        · intro s
          have e1 := moveCols_sers_le _ _ _ _ _ _ _ hr s
          have e2 := count_zip_snd_le (List.filter (fun c => !dr.comps.contains c) sa.comps) r.dropped s
          rw [hc] at e1
          simp only [List.count_append] at e1 e2 ⊢
          omega
        · cl_keeps


theorem dbgAssert_any {I E : World → Prop} (c : Bool) (s : String) :
    Hoare I (dbgAssert c s) (fun _ => I) (PanicOnly E) := by
  refine ⟨fun w hw => ?_⟩
  rw [dbgAssert_run]
  by_cases h : (w.debug && !c) = true
  · rw [if_pos h]; exact fun hp => nomatch hp
  · rw [if_neg h]; exact hw

theorem removeEntity_cl (loc : Loc) : KP (CL X) (removeEntity loc) := by
  unfold removeEntity
  refine Hoare.bind (getArch_spec _ _) fun a => ?_
  refine Hoare.at_state fun w0 hw0 => ?_
  obtain ⟨hcl, hget⟩ := hw0
  have hidx : a.index = loc.arch := hcl.idx _ _ hget
  obtain ⟨L, c1, c2⟩ := hcl.cols _ _ hget
  dsimp only
  refine Hoare.bind (R := fun (acc : List (List Cell)) w =>
    CLat w0.archs (w0.archs.set loc.arch { a with cols := acc ++ [] }) X w ∧ (∀ c ∈ acc, c.length = L - 1)) ?_
    fun acc => ?_
  · refine Hoare.post (Q := fun (acc : List (List Cell)) w =>
      (CLat w0.archs (w0.archs.set loc.arch { a with cols := acc ++ [] }) X w ∧ (∀ c ∈ acc, c.length = L - 1)) ∧
        ∀ p ∈ ([] : List (Nat × List Cell)), p.2.length = L) ?_ (fun _ _ h => h.1) (fun _ _ h => h)
    refine Hoare.pre (Hoare.forIn_list_sfx (fun (rest : List (Nat × List Cell)) (acc : List (List Cell)) w =>
      (CLat w0.archs (w0.archs.set loc.arch { a with cols := acc ++ rest.map (·.2) }) X w ∧
        (∀ c ∈ acc, c.length = L - 1)) ∧ ∀ p ∈ rest, p.2.length = L)
      (fun p rest acc => ?_) _ []) (fun w hw => ?_)
    · obtain ⟨c, col⟩ := p
      dsimp only
      split
      · exact Hoare.bind (dbgAssert_any _ _) fun _ => hoare_ubErr_bind _ _
      · rename_i x hx
        refine Hoare.bind (R := fun _ w => (CLat w0.archs (w0.archs.set loc.arch
            { a with cols := (acc ++ [swapRemove col loc.row]) ++ rest.map (·.2) }) X w ∧
            (∀ c ∈ acc, c.length = L - 1)) ∧ ∀ p ∈ (c, col) :: rest, p.2.length = L)
          (Hoare.pre (Hoare.and_pure (Hoare.and_pure (dropCellIdx_at _ _ c x _))) fun w hw => ?_)
          fun _ => Hoare.pure fun w hw => ?_
        · obtain ⟨⟨⟨h1, h2⟩, h3⟩, h4⟩ := hw
          refine ⟨⟨⟨h1, ?_⟩, h3⟩, h4⟩
          have hg := Slab.get_set_same hget
            ({ a with cols := acc ++ List.map (·.2) ((c, col) :: rest) } : Arch)
          have := h2.set_one (Y' := x.ser :: X) hg
            { a with cols := (acc ++ [swapRemove col loc.row]) ++ rest.map (·.2) } (fun s => by
              have e := count_map_swapRemove col loc.row x hx s
              simp only [List.map_cons, cellSers_append, cellSers_cons, cellSers_nil, List.count_append,
                List.count_cons, List.count_nil] at e ⊢
              omega)
          rw [slab_set_set] at this
          exact this
        · obtain ⟨⟨h1, h3⟩, h4⟩ := hw
          refine ⟨⟨h1, fun d hd => ?_⟩, fun p hp => h4 p (List.mem_cons_of_mem _ hp)⟩
          rcases List.mem_append.1 hd with hd | hd
          · exact h3 d hd
          · rw [List.mem_singleton.1 hd, length_swapRemove, h4 (c, col) (List.mem_cons_self ..)]
    · subst hw
      refine ⟨⟨⟨rfl, hcl.cln.set_one hget _ fun s => ?_⟩, fun c hc => nomatch hc⟩, fun p hp => ?_⟩
      · have := count_cellSers_zip_le a.comps a.cols s
        simp only [List.nil_append]
        omega
      · exact c1 _ (List.of_mem_zip hp).2
  · split
    · exact hoare_ubErr _
    · rename_i id hid
      have hrow : loc.row < a.ids.length := (List.getElem?_eq_some_iff.1 hid).1
      refine Hoare.bind (R := fun _ => CL X) ⟨fun w hw => ?_⟩ fun _ => by cl_keeps
      obtain ⟨⟨h1, h2⟩, h3⟩ := hw
      have e : ∀ b : Arch, b.index = loc.arch → w.archs.set b.index b = w0.archs.set loc.arch b :=
        fun b hb => by rw [h1, hb]
      show CLF (w.archs.set _ _) w.queue w.cdrops w.nextCSerial X
      rw [e { a with cols := acc, ids := swapRemove a.ids loc.row } hidx]
      have hg := Slab.get_set_same hget ({ a with cols := acc ++ [] } : Arch)
      have := h2.set_one (Y' := X) hg { a with cols := acc, ids := swapRemove a.ids loc.row } (fun s => by
        simp only [List.append_nil]; exact Nat.le_refl _)
      rw [slab_set_set] at this
      obtain ⟨i1, i2⟩ := idx_cols_set (a' := { a with cols := acc, ids := swapRemove a.ids loc.row })
        hcl.idx hcl.cols hidx ⟨L - 1, h3, by
          show L - 1 ≤ (swapRemove a.ids loc.row).length
          rw [length_swapRemove]; omega⟩
      exact this.clf i1 i2

macro_rules | `(tactic| cl_leaf) => `(tactic| exact archSpawn_cl _)
macro_rules | `(tactic| cl_leaf) => `(tactic| exact spawnAll_cl)
macro_rules | `(tactic| cl_leaf) => `(tactic| exact newArch_cl _ _ _)
macro_rules | `(tactic| cl_leaf) => `(tactic| exact traverseInsert_cl _ _)
macro_rules | `(tactic| cl_leaf) => `(tactic| exact traverseRemove_cl _ _)
macro_rules | `(tactic| cl_leaf) => `(tactic| exact bumpCell_cl _ _ _)
macro_rules | `(tactic| cl_leaf) => `(tactic| exact removeEntity_cl _)

/-- `moveEntity` without new cells (the `Remove` effect) -/
theorem moveEntity_cl_nil (src : Loc) (dst : Nat) : KP (CL X) (moveEntity src dst []) := moveEntity_cl src dst []
macro_rules | `(tactic| cl_leaf) => `(tactic| exact moveEntity_cl_nil _ _)

end Evenio.CompLedger
