import Evenio.Proofs.CompLedger
/-! # The component ledger, part 2: the calculus and the storage primitives

`KP I m` — `m`, started in a world satisfying `I`, ends in a world satisfying `I` when it returns AND when it panics
(nothing is claimed after a `ub` / `assert` marker); `LK P m Q` — from `P` to `Q`, on both kinds of exit.  Both are
instances of `Hoare` (Proofs/Hoare.lean) with the exceptional postcondition `PanicOnly`.  `cl_keeps` is the structural
tactic of `Proofs/Keeps.lean` for `KP`, with a leaf table of its own (`cl_leaf`). -/
namespace Evenio.CompLedger
open SparseMap (swapRemove)

/-- kept on normal return and on panic -/
abbrev KP {α : Type} (I : World → Prop) (m : M α) : Prop := Hoare I m (fun _ => I) (PanicOnly I)

/-- from `P` to `Q`, on normal return and on panic -/
abbrev LK {α : Type} (P : World → Prop) (m : M α) (Q : World → Prop) : Prop := Hoare P m (fun _ => Q) (PanicOnly Q)

section calculus
variable {α β : Type} {I : World → Prop}

theorem KP.pure (a : α) : KP I (Pure.pure a : M α) := Hoare.pure fun _ h => h
theorem KP.throw (e : Err) : KP I (MonadExcept.throw e : M α) := Hoare.throw fun _ h _ => h
theorem KP.get : KP I (MonadState.get : M World) := ⟨fun _ h => h⟩
theorem KP.set {w' : World} (h : I w') : KP I (MonadStateOf.set w' : M PUnit) := ⟨fun _ _ => h⟩
theorem KP.modify {f : World → World} (h : ∀ w, I w → I (f w)) : KP I (_root_.modify f : M PUnit) :=
  ⟨fun w hw => h w hw⟩
theorem KP.modifyGet {f : World → α × World} (h : ∀ w, I w → I (f w).2) : KP I (MonadState.modifyGet f : M α) :=
  ⟨fun w hw => h w hw⟩
theorem KP.of_keeps {m : M α} (h : Keeps I m) : KP I m := Hoare.of_keeps h fun _ _ hw _ => hw

/-- an error that is not a panic satisfies every `PanicOnly` postcondition -/
theorem hoare_throw_nonpanic {P : World → Prop} {Q : α → World → Prop} {E : World → Prop} {e : Err}
    (h : e.isPanic = false) : Hoare P (MonadExcept.throw e : M α) Q (PanicOnly E) :=
  Hoare.throw fun _ _ hp => by rw [h] at hp; cases hp

theorem hoare_ubErr {P : World → Prop} {Q : α → World → Prop} {E : World → Prop} (s : String) :
    Hoare P (ubErr s : M α) Q (PanicOnly E) := hoare_throw_nonpanic rfl

/-- a frame fact (kept on every exit) rides along -/
theorem Hoare.and_keeps {P J : World → Prop} {m : M α} {Q : α → World → Prop} {E : World → Prop}
    (hj : Keeps J m) (h : Hoare P m Q (PanicOnly E)) :
    Hoare (fun w => P w ∧ J w) m (fun a w => Q a w ∧ J w) (PanicOnly fun w => E w ∧ J w) := by
  refine ⟨fun w hw => ?_⟩
  have r1 := h.run w hw.1
  have r2 := hj.run w hw.2
  generalize m.run.run w = res at r1 r2
  obtain ⟨(e|a), w'⟩ := res
  · exact fun hp => ⟨r1 hp, r2⟩
  · exact ⟨r1, r2⟩

/-- loops whose invariant depends on the part of the list still to be traversed -/
theorem Hoare.forIn_list_sfx {γ : Type} {E : Err → World → Prop} {f : γ → β → M (ForInStep β)}
    (Inv : List γ → β → World → Prop)
    (hf : ∀ a rest b, Hoare (Inv (a :: rest) b) (f a b)
      (fun r w => match r with | .yield b' => Inv rest b' w | .done b' => Inv [] b' w) E)
    (l : List γ) (b : β) : Hoare (Inv l b) (forIn l b f) (Inv []) E := by
  induction l generalizing b with
  | nil => exact Hoare.pure fun _ h => h
  | cons a l ih =>
    rw [List.forIn_cons]
    refine Hoare.bind (hf a l b) fun r => ?_
    cases r with
    | done b => exact Hoare.pure fun _ h => h
    | yield b => exact ih b

end calculus

/-- leaf lemmas about named model functions; extended with `macro_rules` -/
syntax "cl_leaf" : tactic
/-- one structural step -/
syntax "cl_step" : tactic

macro_rules | `(tactic| cl_leaf) => `(tactic| fail "no leaf lemma")

macro_rules
  | `(tactic| cl_step) => `(tactic| first
      | with_reducible exact KP.pure _
      | with_reducible exact KP.throw _
      | with_reducible exact KP.get
      | with_reducible exact hoare_ubErr _
      | with_reducible cl_leaf
      | ((with_reducible refine KP.set ?_); first | assumption | (simp only []; assumption))
      | ((with_reducible refine KP.modify (fun _ h => ?_)); first | exact h | (simp only []; exact h))
      | ((with_reducible refine KP.modifyGet (fun _ h => ?_)); first | exact h | (simp only []; exact h))
      | (with_reducible refine Hoare.get_bind (fun _ _ => ?_))
      | (with_reducible refine Hoare.bind_inv ?_ (fun _ => ?_))
      | (with_reducible refine Hoare.forIn_list_inv (fun _ _ => ?_))
      | (with_reducible refine Hoare.forIn_range_inv (fun _ _ => ?_))
      | (with_reducible refine Hoare.ite ?_ ?_)
      | dsimp only
      | split)

/-- prove `KP I m` structurally, with the leaves of `cl_leaf` -/
macro "cl_keeps" : tactic => `(tactic| repeat' cl_step)

variable {X : List Nat}

theorem logT_cl (s : String) : KP (CL X) (logT s) := by unfold logT; cl_keeps
macro_rules | `(tactic| cl_leaf) => `(tactic| exact logT_cl _)
theorem dbgAssert_cl (c : Bool) (s : String) : KP (CL X) (dbgAssert c s) := by unfold dbgAssert; cl_keeps
macro_rules | `(tactic| cl_leaf) => `(tactic| exact dbgAssert_cl _ _)
theorem handlerRefresh_cl (hk : Key) (a : Arch) : KP (CL X) (handlerRefresh hk a) := by unfold handlerRefresh; cl_keeps
macro_rules | `(tactic| cl_leaf) => `(tactic| exact handlerRefresh_cl _ _)
theorem handlerRemoveArch_cl (hk : Key) (a : Arch) : KP (CL X) (handlerRemoveArch hk a) := by
  unfold handlerRemoveArch; cl_keeps
macro_rules | `(tactic| cl_leaf) => `(tactic| exact handlerRemoveArch_cl _ _)
theorem getArch_cl (i : Nat) (s : String) : KP (CL X) (getArch i s) := by unfold getArch; cl_keeps
macro_rules | `(tactic| cl_leaf) => `(tactic| exact getArch_cl _ _)
theorem freshEpoch_cl : KP (CL X) freshEpoch := by unfold freshEpoch; cl_keeps
macro_rules | `(tactic| cl_leaf) => `(tactic| exact freshEpoch_cl)
theorem reserve_cl : KP (CL X) reserve := by unfold reserve; cl_keeps
macro_rules | `(tactic| cl_leaf) => `(tactic| exact reserve_cl)
theorem resRefresh_cl : KP (CL X) resRefresh := by unfold resRefresh; cl_keeps
macro_rules | `(tactic| cl_leaf) => `(tactic| exact resRefresh_cl)
theorem setLoc_cl (id : Key) (s : String) (f : Loc → Loc) : KP (CL X) (setLoc id s f) := by unfold setLoc; cl_keeps
macro_rules | `(tactic| cl_leaf) => `(tactic| exact setLoc_cl _ _ _)
theorem takeBudget_cl : KP (CL X) takeBudget := by unfold takeBudget; cl_keeps
macro_rules | `(tactic| cl_leaf) => `(tactic| exact takeBudget_cl)
theorem freshE_cl : KP (CL X) freshE := by unfold freshE; cl_keeps
macro_rules | `(tactic| cl_leaf) => `(tactic| exact freshE_cl)
theorem paramRows_cl (p : Param) : KP (CL X) (paramRows p) := by unfold paramRows; cl_keeps
macro_rules | `(tactic| cl_leaf) => `(tactic| exact paramRows_cl _)
theorem itemAt_cl (st : AS) (a : Arch) (row : Nat) : KP (CL X) (itemAt st a row) := by unfold itemAt; cl_keeps
macro_rules | `(tactic| cl_leaf) => `(tactic| exact itemAt_cl _ _ _)
theorem paramGet_cl (p : Param) (id : Key) : KP (CL X) (paramGet p id) := by unfold paramGet; cl_keeps
macro_rules | `(tactic| cl_leaf) => `(tactic| exact paramGet_cl _ _)
theorem getParam_cl (h : HInfo) (p : Nat) : KP (CL X) (getParam h p) := by unfold getParam; cl_keeps
macro_rules | `(tactic| cl_leaf) => `(tactic| exact getParam_cl _ _)
theorem registerHandler_cl (a : Arch) (h : HInfo) : KP (CL X) (a.registerHandler h) := by
  unfold Arch.registerHandler; cl_keeps
macro_rules | `(tactic| cl_leaf) => `(tactic| exact registerHandler_cl _ _)
theorem assertQueueEmpty_cl : KP (CL X) assertQueueEmpty := by unfold assertQueueEmpty; cl_keeps
macro_rules | `(tactic| cl_leaf) => `(tactic| exact assertQueueEmpty_cl)


/-! ## ledger and queue writes -/

/-- `freshC` as an invariant step (the serial handed out is forgotten) -/
theorem freshC_cl : KP (CL X) freshC := by
  unfold freshC
  refine KP.modifyGet fun w h => ?_
  exact h.mono_sers (fun _ => Nat.le_refl _) (Nat.le_succ _)
macro_rules | `(tactic| cl_leaf) => `(tactic| exact freshC_cl)

/-- **a fresh serial is carried by nothing** -/
theorem freshC_spec : Hoare (CL X) freshC (fun s => CL (s :: X)) (PanicOnly (CL X)) := by
  unfold freshC
  exact ⟨fun w h => CLF.fresh h⟩

/-- the destructor of a cell runs: the serial leaves `X` -/
theorem dropCell_cl (ty : Nat) (c : Cell) : LK (CL (c.ser :: X)) (dropCell ty c) (CL X) := by
  unfold dropCell
  split
  · exact ⟨fun w h => CLF.dropped ty c.ser h⟩
  · exact Hoare.pure fun w h => CLF.forget c.ser h

theorem dropCellIdx_cl (idx : Nat) (c : Cell) : LK (CL (c.ser :: X)) (dropCellIdx idx c) (CL X) := by
  unfold dropCellIdx
  exact Hoare.get_bind fun w _ => dropCell_cl _ c

theorem itemSers_ins {it : QItem} {k : Nat} (h : it.ty = .ins k) : itemSers it = [it.pay.cell.ser] := by
  unfold itemSers; rw [h]

/-- an event value is destroyed: an `Insert` payload leaves `X` -/
theorem dropEvent_cl (it : QItem) : LK (CL (itemSers it ++ X)) (dropEvent it) (CL X) := by
  unfold dropEvent
  split
  · exact ⟨fun w h => CLF.drop_left h⟩
  · exact ⟨fun w h => CLF.drop_left h⟩
  · rename_i k hk
    rw [itemSers_ins hk]
    exact dropCell_cl k it.pay.cell
  · exact Hoare.pure fun w h => CLF.drop_left h

/-- an event is queued: an `Insert` payload moves from `X` onto the queue -/
theorem push_cl (it : QItem) : LK (CL (itemSers it ++ X)) (push it) (CL X) := by
  unfold push
  exact ⟨fun w h => CLF.push it h⟩

theorem push_cl_nil (it : QItem) (h : itemSers it = []) : KP (CL X) (push it) := by
  have := push_cl (X := X) it
  rw [h] at this
  exact this
macro_rules | `(tactic| cl_leaf) => `(tactic| exact push_cl_nil _ rfl)

/-- `Sender::send`: queued, or (outside the event set) destroyed before the panic -/
theorem senderPush_cl (h : HInfo) (it : QItem) : LK (CL (itemSers it ++ X)) (senderPush h it) (CL X) := by
  unfold senderPush
  split
  · exact Hoare.bind (dropEvent_cl it) fun _ => KP.throw _
  · rename_i idx _
    exact push_cl { it with idx := idx }

theorem senderPush_cl_nil (h : HInfo) (it : QItem) (hn : itemSers it = []) : KP (CL X) (senderPush h it) := by
  have := senderPush_cl (X := X) h it
  rw [hn] at this
  exact this
macro_rules | `(tactic| cl_leaf) => `(tactic| exact senderPush_cl_nil _ _ rfl)

/-! ## archetype writes -/

/-- the archetype read is the one stored -/
theorem getArch_spec {I : World → Prop} (i : Nat) (s : String) :
    Hoare I (getArch i s) (fun a w => I w ∧ w.archs.get i = some a) (PanicOnly I) := by
  refine ⟨fun w hw => ?_⟩
  rw [run_getArch']
  cases h : w.archs.get i with
  | none => exact fun hp => nomatch hp
  | some a => exact ⟨hw, h⟩



theorem setArch_cl (a : Arch) :
    Hoare (fun w => CL X w ∧ ∀ old, w.archs.get a.index = some old → cellSers a.cols = cellSers old.cols ∧ ColsOk a)
      (setArch a) (fun _ => CL X) (PanicOnly (CL X)) :=
  ⟨fun _ h => CLF.setArch_same h.1 a h.2⟩

theorem reserveOne_fields (a : Arch) (ep : Nat) :
    (a.reserveOne ep).1.cols = a.cols ∧ (a.reserveOne ep).1.index = a.index ∧ (a.reserveOne ep).1.ids = a.ids := by
  unfold Arch.reserveOne; split <;> exact ⟨rfl, rfl, rfl⟩

theorem ColsOk.ids_le {a b : Arch} (h : ColsOk a) (hc : b.cols = a.cols) (hi : a.ids.length ≤ b.ids.length) :
    ColsOk b := by
  obtain ⟨L, h1, h2⟩ := h
  exact ⟨L, by rw [hc]; exact h1, Nat.le_trans h2 hi⟩

theorem archSpawn_cl (id : Key) : KP (CL X) (archSpawn id) := by
  unfold archSpawn
  refine Hoare.bind (getArch_spec _ _) fun a => ?_
  refine Hoare.bind (R := fun _ w => CL X w ∧ w.archs.get 0 = some a) ⟨fun _ h => h⟩ fun ep => ?_
  obtain ⟨hc, hi, hids⟩ := reserveOne_fields a ep
  generalize a.reserveOne ep = r at hc hi hids
  obtain ⟨e, realloc⟩ := r
  dsimp only at hc hi hids ⊢
  refine Hoare.bind (R := fun _ => CL X) (Hoare.pre (setArch_cl _) fun w hw => ⟨hw.1, fun old ho => ?_⟩) fun _ => ?_
  · dsimp only at ho ⊢
    have h0 : e.index = 0 := by rw [hi]; exact hw.1.idx 0 a hw.2
    rw [h0, hw.2] at ho
    cases ho
    rw [hc]
    exact ⟨rfl, (hw.1.cols 0 a hw.2).ids_le rfl (by simp [hids])⟩
  · cl_keeps

theorem spawnAll_cl : KP (CL X) spawnAll := by
  unfold spawnAll
  repeat' first | exact archSpawn_cl _ | cl_step

theorem registerPure_fields (a : Arch) (h : HInfo) :
    (a.registerPure h).index = a.index ∧ (a.registerPure h).cols = a.cols ∧ (a.registerPure h).ids = a.ids := by
  unfold Arch.registerPure Arch.addRefresh Arch.addListener
  refine ⟨?_, ?_, ?_⟩ <;> (repeat' split) <;> rfl

theorem registerHandler_spec {P : World → Prop} (a : Arch) (h : HInfo) (hP : KP P (handlerRefresh h.key a)) :
    Hoare P (a.registerHandler h) (fun a' w => P w ∧ a' = a.registerPure h) (PanicOnly P) := by
  refine ⟨fun w hw => ?_⟩
  rw [registerHandler_run]
  have := hP.run w hw
  by_cases hc : h.archFilter.matches a.S = true ∧ a.ids.length > 0
  · rw [if_pos hc]
    generalize (handlerRefresh h.key a).run.run w = q at this
    obtain ⟨(e|u), w1⟩ := q
    · exact this
    · exact ⟨this, rfl⟩
  · rw [if_neg hc]
    exact ⟨hw, rfl⟩

theorem Hoare.get_bind_at {β : Type} {P : World → Prop} {f : World → M β} {Q : β → World → Prop}
    {E : Err → World → Prop} (hf : ∀ w, P w → Hoare (fun w' => w' = w) (f w) Q E) :
    Hoare P (MonadState.get >>= f) Q E := by
  refine ⟨fun w hw => ?_⟩
  rw [run_bind, run_get]
  exact (hf w hw).run w rfl

theorem hoare_ubErr_bind {α β : Type} {P : World → Prop} {Q : β → World → Prop} {E : World → Prop} (s : String)
    (f : α → M β) : Hoare P ((ubErr s : M α) >>= f) Q (PanicOnly E) :=
  ⟨fun w _ => by rw [run_bind, run_ubErr]; exact fun hp => nomatch hp⟩

theorem colsOk_new (cs : List Nat) (a : Arch) (hc : a.cols = cs.map fun _ => []) :
    cellSers a.cols = [] ∧ ColsOk a := by
  refine ⟨by rw [hc]; exact cellSers_map_nil cs, 0, fun c hc' => ?_, Nat.zero_le _⟩
  rw [hc] at hc'
  obtain ⟨_, _, rfl⟩ := List.mem_map.1 hc'
  rfl

theorem newArch_cl (cs : List Nat) (ei er : Option (Nat × Nat)) : KP (CL X) (newArch cs ei er) := by
  unfold newArch
  refine Hoare.get_bind_at fun w0 hw0 => ?_
  refine Hoare.pre (P' := fun w => CL X w ∧ w.archs.vacantKey = w0.archs.vacantKey) ?_
    (fun w h => by subst h; exact ⟨hw0, rfl⟩)
  dsimp only
  refine Hoare.bind (R := fun _ w => CL X w ∧ w.archs.vacantKey = w0.archs.vacantKey) ?_ fun _ => ?_
  · refine Hoare.post (Q := fun _ w => CL X w ∧ w.archs.vacantKey = w0.archs.vacantKey)
      (E := PanicOnly fun w => CL X w ∧ w.archs.vacantKey = w0.archs.vacantKey) ?_ (fun _ _ h => h)
      (fun _ _ h hp => (h hp).1)
    cl_keeps
  · have tail : ∀ a : Arch, a.index = w0.archs.vacantKey → a.cols = cs.map (fun _ => []) → a.ids = [] →
        Hoare (fun w => CL X w ∧ w.archs.vacantKey = w0.archs.vacantKey)
          (do
            let l ← get
            let s ← forIn l.byInsertOrder a fun hk s => do
              let l2 ← get
              match l2.handlers.get hk with
                | none => do
                  ubErr "handler-ptr:by_insert_order"
                  pure (ForInStep.yield s)
                | some h => do
                  let a ← s.registerHandler h
                  pure (ForInStep.yield a)
            modify fun w => { w with archs := w.archs.insert s }
            pure w0.archs.vacantKey : M Nat) (fun _ => CL X) (PanicOnly (CL X)) := by
      intro a h1 h2 h3
      refine Hoare.get_bind fun l _ => ?_
      refine Hoare.bind (R := fun (s : Arch) w => (CL X w ∧ w.archs.vacantKey = w0.archs.vacantKey) ∧
          s.index = w0.archs.vacantKey ∧ s.cols = cs.map (fun _ => []) ∧ s.ids = []) ?_ fun s => ?_
      · refine Hoare.pre (P' := fun w => (CL X w ∧ w.archs.vacantKey = w0.archs.vacantKey) ∧
          a.index = w0.archs.vacantKey ∧ a.cols = cs.map (fun _ => []) ∧ a.ids = []) ?_ (fun w h => ⟨h, h1, h2, h3⟩)
        refine Hoare.forIn_list (fun (s : Arch) w => (CL X w ∧ w.archs.vacantKey = w0.archs.vacantKey) ∧
          s.index = w0.archs.vacantKey ∧ s.cols = cs.map (fun _ => []) ∧ s.ids = []) fun hk s => ?_
        refine Hoare.get_bind fun l2 _ => ?_
        split
        · exact hoare_ubErr_bind _ _
        · rename_i h _
          refine Hoare.bind (Hoare.post (registerHandler_spec s h ?_) (fun _ _ hh => hh) (fun _ _ hh hp => (hh hp).1.1))
            fun a' => Hoare.pure fun w hw => ?_
          · unfold handlerRefresh dbgAssert; cl_keeps
          · obtain ⟨⟨hw1, hw2, hw3, hw4⟩, rfl⟩ := hw
            obtain ⟨f1, f2, f3⟩ := registerPure_fields s h
            exact ⟨hw1, f1.trans hw2, f2.trans hw3, f3.trans hw4⟩
      · refine Hoare.bind (R := fun _ => CL X) ⟨fun w hw => ?_⟩ fun _ => KP.pure _
        obtain ⟨⟨hw1, hw2⟩, hs1, hs2, hs3⟩ := hw
        obtain ⟨c1, c2⟩ := colsOk_new cs s hs2
        show CLF (w.archs.insert s) w.queue w.cdrops w.nextCSerial X
        refine hw1.mono (fun i b hb => ?_) (fun i b hb => ?_) (fun t => ?_) (Nat.le_refl _)
        · rcases slab_get_insert_cases hb with hb | ⟨rfl, rfl⟩
          · exact hw1.idx i b hb
          · rw [hs1, hw2]
        · rcases slab_get_insert_cases hb with hb | ⟨rfl, rfl⟩
          · exact hw1.cols i b hb
          · exact c2
        · unfold serCount
          rw [count_storedSers_insert w.archs s c1 t]
          exact Nat.le_refl _
    split <;> split <;> exact tail _ rfl rfl rfl


theorem map_ser_set (col : List Cell) (row : Nat) (x x' : Cell) (h : col[row]? = some x) (hs : x'.ser = x.ser) :
    (col.set row x').map (·.ser) = col.map (·.ser) := by
  induction col generalizing row with
  | nil => rfl
  | cons a l ih =>
    cases row with
    | zero =>
      simp only [List.getElem?_cons_zero, Option.some.injEq] at h
      subst h
      simp [hs]
    | succ i =>
      simp only [List.getElem?_cons_succ] at h
      simp only [List.set_cons_succ, List.map_cons, ih i h]

theorem cellSers_set_same (cols : List (List Cell)) (i : Nat) (c c' : List Cell) (h : cols[i]? = some c)
    (hs : c'.map (·.ser) = c.map (·.ser)) : cellSers (cols.set i c') = cellSers cols := by
  induction cols generalizing i with
  | nil => rfl
  | cons a l ih =>
    cases i with
    | zero =>
      simp only [List.getElem?_cons_zero, Option.some.injEq] at h
      subst h
      simp only [List.set_cons_zero, cellSers_cons, hs]
    | succ i =>
      simp only [List.getElem?_cons_succ] at h
      simp only [List.set_cons_succ, cellSers_cons, ih i h]

theorem ColsOk.set_col {a : Arch} (h : ColsOk a) {i : Nat} {c c' : List Cell} (hc : a.cols[i]? = some c)
    (hl : c'.length = c.length) {b : Arch} (hb : b.cols = a.cols.set i c') (hi : b.ids.length = a.ids.length) :
    ColsOk b := by
  obtain ⟨L, h1, h2⟩ := h
  refine ⟨L, fun d hd => ?_, by rw [hi]; exact h2⟩
  rw [hb] at hd
  rcases List.mem_or_eq_of_mem_set hd with hd | rfl
  · exact h1 d hd
  · rw [hl]; exact h1 c (List.mem_of_getElem? hc)

/-- `setArch` of an archetype that differs from the stored one in neither cells, rows nor index -/
theorem setArch_of_get {a a' : Arch} {i : Nat} (hidx : a'.index = a.index) (hc : a'.cols = a.cols)
    (hids : a'.ids.length = a.ids.length) :
    Hoare (fun w => CL X w ∧ w.archs.get i = some a) (setArch a') (fun _ => CL X) (PanicOnly (CL X)) := by
  refine Hoare.pre (setArch_cl a') fun w hw => ⟨hw.1, fun old ho => ?_⟩
  have hi : a.index = i := hw.1.idx i a hw.2
  rw [hidx, hi, hw.2] at ho
  cases ho
  exact ⟨by rw [hc], (hw.1.cols i a hw.2).ids_le hc (Nat.le_of_eq hids.symm)⟩

theorem traverseInsert_cl (src c : Nat) : KP (CL X) (traverseInsert src c) := by
  unfold traverseInsert
  refine Hoare.get_bind fun _ _ => ?_
  refine Hoare.bind_inv (dbgAssert_cl _ _) fun _ => ?_
  refine Hoare.bind (getArch_spec _ _) fun sa => ?_
  split
  · exact Hoare.pure fun _ h => h.1
  · split
    · exact Hoare.pure fun _ h => h.1
    · refine Hoare.get_bind fun _ _ => ?_
      split
      · exact Hoare.bind (setArch_of_get rfl rfl rfl) fun _ => KP.pure _
      · refine Hoare.pre (P' := CL X) ?_ fun _ h => h.1
        refine Hoare.bind_inv (newArch_cl _ _ _) fun d => ?_
        refine Hoare.bind (getArch_spec _ _) fun sa2 => ?_
        exact Hoare.bind (setArch_of_get rfl rfl rfl) fun _ => KP.pure _

theorem traverseRemove_cl (src c : Nat) : KP (CL X) (traverseRemove src c) := by
  unfold traverseRemove
  refine Hoare.bind (getArch_spec _ _) fun sa => ?_
  split
  · exact Hoare.pure fun _ h => h.1
  · split
    · exact Hoare.pure fun _ h => h.1
    · refine Hoare.get_bind fun _ _ => ?_
      split
      · exact Hoare.bind (setArch_of_get rfl rfl rfl) fun _ => KP.pure _
      · refine Hoare.pre (P' := CL X) ?_ fun _ h => h.1
        refine Hoare.bind_inv (newArch_cl _ _ _) fun d => ?_
        refine Hoare.bind (getArch_spec _ _) fun sa2 => ?_
        exact Hoare.bind (setArch_of_get rfl rfl rfl) fun _ => KP.pure _

theorem bumpCell_cl (ai row c : Nat) : KP (CL X) (bumpCell ai row c) := by
  unfold bumpCell
  refine Hoare.bind (getArch_spec _ _) fun a => ?_
  split
  · exact hoare_ubErr _
  · split
    · exact hoare_ubErr _
    · split
      · exact hoare_ubErr _
      · rename_i i _ _ col hcol _ x hx
        refine Hoare.pre (setArch_cl _) fun w hw => ⟨hw.1, fun old ho => ?_⟩
        have hi : a.index = ai := hw.1.idx ai a hw.2
        dsimp only at ho ⊢
        rw [hi, hw.2] at ho
        cases ho
        exact ⟨cellSers_set_same _ _ _ _ hcol (map_ser_set _ _ _ _ hx rfl),
          (hw.1.cols ai a hw.2).set_col hcol (by simp) rfl rfl⟩

end Evenio.CompLedger
