import Evenio.Model.Access
/-! `matches` is a Boolean homomorphism for `and`, `or`, `not`, `clearAccess` (C05.2 / C06.1).
    These lemmas consume the regenerated tables (`combine`, `negate`, `clearLit`, `positive`). -/
namespace Evenio

theorem combine_lit (S : Nat → Bool) (i : Nat) (a b : CaseAccess) :
    match combine a b with
    | some x => lit S (i, x) = (lit S (i, a) && lit S (i, b))
    | none => (lit S (i, a) && lit S (i, b)) = false := by
  cases a <;> cases b <;> simp [combine, lit, positive]

theorem mergeCase_sat (S : Nat → Bool) (l r : Case) :
    match mergeCase l r with
    | some c => c.sat S = (l.sat S && r.sat S)
    | none => (l.sat S && r.sat S) = false := by
  fun_induction mergeCase l r with
  | case1 r => simp [Case.sat]
  | case2 l h => simp [Case.sat]
  | case3 li la l ri ra r hlt ih =>
    cases h : mergeCase l ((ri, ra) :: r) <;> simp_all [Case.sat, Bool.and_assoc]
  | case4 la l ri ra r hlt hc =>
    have := combine_lit S ri la ra
    simp_all [Case.sat]
  | case5 la l ri ra r hlt a hc ih =>
    have := combine_lit S ri la ra
    cases h : mergeCase l r <;> simp_all [Case.sat] <;> grind
  | case6 li la l ri ra r hlt hne ih =>
    cases h : mergeCase ((li, la) :: l) r <;> simp_all [Case.sat] <;> grind

theorem filterMap_any (a : CA) (right : Case) (S : Nat → Bool) :
    (a.filterMap fun left => mergeCase left right).any (·.sat S) = (a.any (·.sat S) && right.sat S) := by
  induction a with
  | nil => simp
  | cons left a ih =>
    have := mergeCase_sat S left right
    simp only [List.filterMap_cons]
    cases h : mergeCase left right <;> simp_all <;> grind

theorem and_matches (a b : CA) (S : Nat → Bool) :
    (a.and b).matches S = (a.matches S && b.matches S) := by
  unfold CA.and CA.matches
  induction b with
  | nil => simp
  | cons right b ih =>
    simp only [List.flatMap_cons, List.any_append, List.any_cons, ih, filterMap_any]
    cases List.any a (·.sat S) <;> simp

theorem or_matches (a b : CA) (S : Nat → Bool) :
    (a.or b).matches S = (a.matches S || b.matches S) := by
  simp [CA.or, CA.matches]

@[simp] theorem tt_matches (S : Nat → Bool) : CA.tt.matches S = true := by
  simp [CA.tt, CA.matches, Case.sat]

@[simp] theorem ff_matches (S : Nat → Bool) : CA.ff.matches S = false := by
  simp [CA.ff, CA.matches]

@[simp] theorem var_matches (i : Nat) (a : Access) (S : Nat → Bool) : (CA.var i a).matches S = S i := by
  cases a <;> simp [CA.var, CA.matches, Case.sat, lit, varLit, positive]

theorem negCase_matches (c : Case) (S : Nat → Bool) :
    CA.matches (c.map negLit) S = !c.sat S := by
  induction c with
  | nil => simp [CA.matches, Case.sat]
  | cons x c ih =>
    obtain ⟨i, a⟩ := x
    simp only [CA.matches, Case.sat, List.map_cons, List.any_cons, List.all_cons] at *
    rw [ih]
    cases a <;> simp [negLit, negate, lit, positive, Case.sat]

theorem not_matches_aux (ca acc : CA) (S : Nat → Bool) :
    (ca.foldl (fun acc c => acc.and (c.map negLit)) acc).matches S
      = (acc.matches S && !ca.matches S) := by
  induction ca generalizing acc with
  | nil => simp [CA.matches]
  | cons c ca ih =>
    simp only [List.foldl_cons, ih, and_matches, negCase_matches]
    simp [CA.matches, Bool.and_assoc]

theorem not_matches (ca : CA) (S : Nat → Bool) : (ca.not).matches S = !ca.matches S := by
  rw [CA.not, not_matches_aux]; simp

theorem clearLit_lit (S : Nat → Bool) (i : Nat) (a : CaseAccess) : lit S (i, clearLit a) = lit S (i, a) := by
  cases a <;> simp [clearLit, lit, positive]

theorem clear_matches (ca : CA) (S : Nat → Bool) : (ca.clearAccess).matches S = ca.matches S := by
  unfold CA.clearAccess CA.matches
  simp only [List.any_map]
  congr 1
  funext c
  simp only [Function.comp, Case.sat, List.all_map]
  congr 1
  funext p
  obtain ⟨i, a⟩ := p
  exact clearLit_lit S i a

end Evenio
