import Evenio.Model.Storage
/-! Proofs about the model of the `slab` crate (`Slab` in Model/Storage.lean): well-formedness of the vacant list,
    the map laws of `insert` / `remove` / `set`, and `toList` (iteration) versus `get`.  `Archetypes` stores its
    archetypes in a slab; the key a new archetype gets is `vacantKey`.  Core Lean only. -/
namespace Evenio
/-- the derived `BEq Key` is equality -/
theorem Slab.key_beq_iff (a b : Key) : (a == b) = true ↔ a = b := by
  obtain ⟨i, g⟩ := a
  obtain ⟨j, h⟩ := b
  show instBEqKey.beq _ _ = true ↔ _
  simp [instBEqKey.beq]

instance Slab.lawfulBEqKey : LawfulBEq Key where
  rfl := by intro a; exact (Slab.key_beq_iff a a).2 rfl
  eq_of_beq := by intro a b h; exact (Slab.key_beq_iff a b).1 h

namespace Slab
variable {α : Type}

/-! ### the vacant list -/

/-- `Chain e k l`: following the `vacant` links of `e` from `k` visits exactly the indices `l` (in this order) and
    ends at `e.length` (the slab crate's "no vacant entry, push" marker) -/
inductive Chain (e : List (SlabEntry α)) : Nat → List Nat → Prop
  | done {k : Nat} : k = e.length → Chain e k []
  | step {k n : Nat} {l : List Nat} : e[k]? = some (.vacant n) → Chain e n l → Chain e k (k :: l)

/-- well-formedness: the vacant list starting at `next` is duplicate-free, in range (every member is the index of
    a vacant entry), ends at `entries.length`, and contains every vacant entry -/
structure WF (s : Slab α) : Prop where
  ex : ∃ l : List Nat, Chain s.entries s.next l ∧ l.Nodup ∧ ∀ i n, s.entries[i]? = some (.vacant n) → i ∈ l

theorem Chain.mem_vacant {e : List (SlabEntry α)} {k : Nat} {l : List Nat} (h : Chain e k l) :
    ∀ i ∈ l, ∃ n, e[i]? = some (.vacant n) := by
  induction h with
  | done _ => simp
  | step hk _ ih =>
    intro i hi
    rcases List.mem_cons.1 hi with rfl | hi
    · exact ⟨_, hk⟩
    · exact ih i hi

theorem Chain.lt_length {e : List (SlabEntry α)} {k : Nat} {l : List Nat} (h : Chain e k l) :
    ∀ i ∈ l, i < e.length := by
  intro i hi
  obtain ⟨n, hn⟩ := h.mem_vacant i hi
  exact (List.getElem?_eq_some_iff.1 hn).1

/-- the head of the chain is either the end marker or the index of a vacant entry -/
theorem Chain.head {e : List (SlabEntry α)} {k : Nat} {l : List Nat} (h : Chain e k l) :
    (k = e.length ∧ l = []) ∨ ∃ n l', e[k]? = some (.vacant n) ∧ l = k :: l' ∧ Chain e n l' := by
  cases h with
  | done hk => exact .inl ⟨hk, rfl⟩
  | step hk hc => exact .inr ⟨_, _, hk, rfl, hc⟩

/-- the chain is determined by its start -/
theorem Chain.det {e : List (SlabEntry α)} {k : Nat} {l l' : List Nat} (h : Chain e k l) (h' : Chain e k l') :
    l = l' := by
  induction h generalizing l' with
  | done hk =>
    cases h' with
    | done _ => rfl
    | step hk' _ => subst hk; simp at hk'
  | step hk _ ih =>
    cases h' with
    | done hk' => subst hk'; simp at hk
    | step hk' hc' =>
      rw [hk] at hk'
      cases hk'
      rw [ih hc']

/-- writing an entry that is not on the chain does not change the chain -/
theorem Chain.set_of_not_mem {e : List (SlabEntry α)} {k : Nat} {l : List Nat} (h : Chain e k l) {i : Nat}
    (hi : i ∉ l) (x : SlabEntry α) : Chain (e.set i x) k l := by
  induction h with
  | done hk => exact .done (by simp [hk])
  | step hk _ ih =>
    rw [List.mem_cons, not_or] at hi
    refine .step ?_ (ih hi.2)
    rw [List.getElem?_set_ne hi.1]
    exact hk

/-- appending an entry moves the end marker: only the empty chain survives as such -/
theorem Chain.nil_of_length {e : List (SlabEntry α)} {l : List Nat} (h : Chain e e.length l) : l = [] := by
  cases h with
  | done _ => rfl
  | step hk _ => simp at hk

theorem wf_empty : WF ({} : Slab α) := ⟨⟨[], .done rfl, List.nodup_nil, by simp⟩⟩

/-- under `WF`, `next` is the end marker or points at a vacant entry (so `insert` never reaches the slab crate's
    `unreachable!()`) -/
theorem WF.next_cases {s : Slab α} (hw : WF s) :
    s.next = s.entries.length ∨ ∃ n, s.entries[s.next]? = some (.vacant n) := by
  obtain ⟨l, hc, -, -⟩ := hw.ex
  rcases hc.head with ⟨h, -⟩ | ⟨n, _, h, -, -⟩
  · exact .inl h
  · exact .inr ⟨n, h⟩

/-! ### `get` after the operations -/

theorem get_eq_some_iff (s : Slab α) (i : Nat) (a : α) : s.get i = some a ↔ s.entries[i]? = some (.occ a) := by
  unfold get
  split
  · next h => rw [h]; simp
  · next h =>
    constructor
    · intro h'; cases h'
    · intro h'; exact absurd h' (h a)

theorem get_eq_none_iff (s : Slab α) (i : Nat) : s.get i = none ↔ ∀ a, s.entries[i]? ≠ some (.occ a) := by
  constructor
  · intro h a ha
    rw [(get_eq_some_iff s i a).2 ha] at h
    cases h
  · intro h
    cases hg : s.get i with
    | none => rfl
    | some a => exact absurd ((get_eq_some_iff s i a).1 hg) (h a)

theorem get_lt_length {s : Slab α} {i : Nat} {a : α} (h : s.get i = some a) : i < s.entries.length :=
  (List.getElem?_eq_some_iff.1 ((get_eq_some_iff s i a).1 h)).1

/-- the key handed to the next inserted value is not live -/
theorem get_vacantKey_none {s : Slab α} (hw : WF s) : s.get s.vacantKey = none := by
  rw [get_eq_none_iff]
  intro a ha
  unfold vacantKey at ha
  rcases hw.next_cases with h | ⟨n, h⟩
  · rw [h] at ha; simp at ha
  · rw [h] at ha; cases ha

theorem get_insert_vacantKey {s : Slab α} (hw : WF s) (a : α) : (s.insert a).get s.vacantKey = some a := by
  rw [get_eq_some_iff]
  unfold insert vacantKey
  rcases hw.next_cases with h | ⟨n, h⟩
  · simp [h]
  · have hlt : s.next < s.entries.length := (List.getElem?_eq_some_iff.1 h).1
    simp only [Nat.ne_of_lt hlt, if_false, h]
    simp [hlt]

/-- no `WF` needed: whatever `insert` does, it only touches the entry `next` -/
theorem get_insert_other (s : Slab α) (a : α) {k : Nat} (hk : k ≠ s.vacantKey) : (s.insert a).get k = s.get k := by
  unfold vacantKey at hk
  unfold insert
  dsimp only
  split
  · next h =>
    unfold get
    dsimp only
    by_cases hlt : k < s.entries.length
    · rw [List.getElem?_append_left hlt]
    · have : s.entries.length < k := by omega
      rw [List.getElem?_eq_none_iff.2 (by simp; omega), List.getElem?_eq_none_iff.2 (by omega)]
  · split
    · unfold get
      dsimp only
      rw [List.getElem?_set_ne (Ne.symm hk)]
    · rfl

theorem get_remove_same {s s' : Slab α} {i : Nat} {a : α} (h : s.remove i = some (a, s')) : s'.get i = none := by
  unfold remove at h
  split at h
  · next hi =>
    cases h
    have hlt : i < s.entries.length := (List.getElem?_eq_some_iff.1 hi).1
    rw [get_eq_none_iff]
    intro b hb
    simp [hlt] at hb
  · cases h

theorem get_remove_other {s s' : Slab α} {i k : Nat} {a : α} (h : s.remove i = some (a, s')) (hk : k ≠ i) :
    s'.get k = s.get k := by
  unfold remove at h
  split at h
  · cases h
    unfold get
    dsimp only
    rw [List.getElem?_set_ne (Ne.symm hk)]
  · cases h

/-- `remove` succeeds exactly on live keys and returns the stored value -/
theorem remove_eq_some_iff (s : Slab α) (i : Nat) (a : α) :
    (∃ s', s.remove i = some (a, s')) ↔ s.get i = some a := by
  rw [get_eq_some_iff]
  unfold remove
  constructor
  · rintro ⟨s', h⟩
    split at h
    · next hi => cases h; exact hi
    · cases h
  · intro h
    rw [h]
    exact ⟨_, rfl⟩

theorem remove_eq_none_iff (s : Slab α) (i : Nat) : s.remove i = none ↔ s.get i = none := by
  unfold remove get
  split <;> simp

/-- `set` (the model's `get_mut` + assignment) overwrites a live entry and is a no-op on a dead key -/
theorem get_set (s : Slab α) (i j : Nat) (a : α) :
    (s.set i a).get j = if j = i then (s.get i).map (fun _ => a) else s.get j := by
  unfold set
  split
  · next b hi =>
    have hlt : i < s.entries.length := (List.getElem?_eq_some_iff.1 hi).1
    by_cases hj : j = i
    · subst hj
      rw [if_pos rfl, (get_eq_some_iff s j b).2 hi]
      rw [Option.map_some, get_eq_some_iff]
      simp [hlt]
    · rw [if_neg hj]
      unfold get
      dsimp only
      rw [List.getElem?_set_ne (Ne.symm hj)]
  · next hi =>
    by_cases hj : j = i
    · subst hj
      rw [if_pos rfl]
      have : s.get j = none := (get_eq_none_iff s j).2 (fun b hb => hi b hb)
      rw [this]; rfl
    · rw [if_neg hj]

theorem get_set_same {s : Slab α} {i : Nat} {b : α} (h : s.get i = some b) (a : α) : (s.set i a).get i = some a := by
  rw [get_set, if_pos rfl, h]; rfl

theorem get_set_other (s : Slab α) {i j : Nat} (h : j ≠ i) (a : α) : (s.set i a).get j = s.get j := by
  rw [get_set, if_neg h]

/-! ### well-formedness is preserved -/

theorem insert_wf {s : Slab α} (hw : WF s) (a : α) : WF (s.insert a) := by
  obtain ⟨l, hc, hnd, hall⟩ := hw.ex
  unfold insert
  dsimp only
  rcases hc.head with ⟨hk, hl⟩ | ⟨n, l', hk, hl, hc'⟩
  · -- push
    subst hl
    rw [if_pos hk]
    refine ⟨⟨[], .done (by simp [hk]), List.nodup_nil, ?_⟩⟩
    intro i n hi
    dsimp only at hi
    by_cases hlt : i < s.entries.length
    · rw [List.getElem?_append_left hlt] at hi
      exact hall i n hi
    · exfalso
      by_cases he : i = s.entries.length
      · subst he; simp at hi
      · rw [List.getElem?_eq_none_iff.2 (by simp; omega)] at hi; cases hi
  · -- reuse the head of the vacant list
    subst hl
    have hlt : s.next < s.entries.length := (List.getElem?_eq_some_iff.1 hk).1
    rw [if_neg (Nat.ne_of_lt hlt), hk]
    dsimp only
    rw [List.nodup_cons] at hnd
    refine ⟨⟨l', hc'.set_of_not_mem hnd.1 _, hnd.2, ?_⟩⟩
    intro i m hi
    dsimp only at hi
    by_cases he : i = s.next
    · subst he; simp [hlt] at hi
    · rw [List.getElem?_set_ne (Ne.symm he)] at hi
      rcases List.mem_cons.1 (hall i m hi) with h | h
      · exact absurd h he
      · exact h

theorem remove_wf {s s' : Slab α} (hw : WF s) {i : Nat} {a : α} (h : s.remove i = some (a, s')) : WF s' := by
  obtain ⟨l, hc, hnd, hall⟩ := hw.ex
  unfold remove at h
  split at h
  · next hi =>
    cases h
    have hlt : i < s.entries.length := (List.getElem?_eq_some_iff.1 hi).1
    have hnot : i ∉ l := by
      intro hm
      obtain ⟨n, hn⟩ := hc.mem_vacant i hm
      rw [hi] at hn; cases hn
    refine ⟨⟨i :: l, ?_, List.nodup_cons.2 ⟨hnot, hnd⟩, ?_⟩⟩
    · dsimp only
      exact .step (by simp [hlt]) (hc.set_of_not_mem hnot _)
    · intro j m hj
      dsimp only at hj
      by_cases he : j = i
      · exact List.mem_cons.2 (.inl he)
      · rw [List.getElem?_set_ne (Ne.symm he)] at hj
        exact List.mem_cons.2 (.inr (hall j m hj))
  · cases h

theorem set_wf {s : Slab α} (hw : WF s) (i : Nat) (a : α) : WF (s.set i a) := by
  obtain ⟨l, hc, hnd, hall⟩ := hw.ex
  unfold set
  split
  · next b hi =>
    have hlt : i < s.entries.length := (List.getElem?_eq_some_iff.1 hi).1
    have hnot : i ∉ l := by
      intro hm
      obtain ⟨n, hn⟩ := hc.mem_vacant i hm
      rw [hi] at hn; cases hn
    refine ⟨⟨l, hc.set_of_not_mem hnot _, hnd, ?_⟩⟩
    intro j m hj
    dsimp only at hj
    by_cases he : j = i
    · subst he; simp [hlt] at hj
    · rw [List.getElem?_set_ne (Ne.symm he)] at hj
      exact hall j m hj
  · exact hw

/-! ### iteration -/

theorem mem_toList_iff (s : Slab α) (i : Nat) (a : α) : (i, a) ∈ s.toList ↔ s.get i = some a := by
  rw [get_eq_some_iff]
  unfold toList
  rw [List.mem_filterMap]
  constructor
  · rintro ⟨⟨e, j⟩, hm, hf⟩
    rw [List.mem_zipIdx_iff_getElem?] at hm
    cases e with
    | vacant n => cases hf
    | occ b =>
      dsimp only at hf hm
      cases hf
      exact hm
  · intro h
    exact ⟨(.occ a, i), List.mem_zipIdx_iff_getElem?.2 h, rfl⟩

/-- iteration is in strictly increasing index order; in particular no index is visited twice -/
theorem toList_keys_sorted (s : Slab α) : (s.toList.map (·.1)).Pairwise (· < ·) := by
  unfold toList
  rw [List.pairwise_map]
  refine List.Pairwise.filterMap (R := fun x y : SlabEntry α × Nat => x.2 < y.2) _ ?_ ?_
  · rintro ⟨e, i⟩ ⟨e', i'⟩ hlt b hb b' hb'
    cases e <;> cases e' <;> simp_all
    obtain ⟨rfl, -⟩ := hb
    obtain ⟨rfl, -⟩ := hb'
    exact hlt
  · rw [List.zipIdx_eq_zip_range']
    have := List.pairwise_lt_range' (s := 0) (n := s.entries.length) 1
    rw [List.pairwise_iff_getElem] at this ⊢
    intro i j hi hj hij
    simp only [List.getElem_zip]
    simp only [List.length_zip, List.length_range', Nat.min_self] at hi hj
    exact this i j (by simpa using hi) (by simpa using hj) hij

theorem toList_keys_nodup (s : Slab α) : (s.toList.map (·.1)).Nodup := by
  rw [List.nodup_iff_pairwise_ne]
  exact (toList_keys_sorted s).imp (fun h => Nat.ne_of_lt h)

theorem mem_toList_keys_iff (s : Slab α) (i : Nat) : i ∈ s.toList.map (·.1) ↔ (s.get i).isSome = true := by
  rw [List.mem_map]
  constructor
  · rintro ⟨⟨j, a⟩, hm, rfl⟩
    rw [(mem_toList_iff s j a).1 hm]; rfl
  · intro h
    cases hg : s.get i with
    | none => rw [hg] at h; cases h
    | some a => exact ⟨(i, a), (mem_toList_iff s i a).2 hg, rfl⟩

/-- a key holds at most one value in the iteration -/
theorem toList_functional (s : Slab α) {i : Nat} {a b : α} (ha : (i, a) ∈ s.toList) (hb : (i, b) ∈ s.toList) :
    a = b := by
  rw [mem_toList_iff] at ha hb
  rw [ha] at hb
  cases hb; rfl

end Slab
end Evenio
